#!/bin/bash
# confirm_seed.sh <worktree> <seed dir (with patch.diff, demo test, demo_path.txt)> <demo dest path in tree> <go test args...>
# Confirms in the scratch worktree: patch applies, builds, pinned suite passes, demo fails with the patch and passes without.
set -u
export GOFLAGS=-mod=mod GOPROXY=off GOSUMDB=off GOTOOLCHAIN=local
WT=$1; SD=$2; DEST=$3; shift 3
cd "$WT" || exit 2
git checkout -q -- . ; git clean -fdq -e seed_out
cp "$SD"/*_test.go "$WT/$DEST" 2>/dev/null
echo "== clean: demo"; go test -vet=off -count=1 "$@" 2>&1 | tail -3; CLEAN=${PIPESTATUS[0]}
git apply "$SD/patch.diff" || { echo "patch does not apply"; exit 2; }
echo "== patched: build"; go build ./... || exit 2
echo "== patched: demo"; go test -vet=off -count=1 "$@" 2>&1 | tail -5; PATCHED=${PIPESTATUS[0]}
rm -f "$WT/$DEST"
echo "== patched: pinned suite"; go test -vet=off -count=1 ./pkg/... ./cmd/... ./internal/... 2>&1 | grep -v "no test files" | tail -4; SUITE=${PIPESTATUS[0]}
git checkout -q -- .
echo "RESULT clean_demo_rc=$CLEAN patched_demo_rc=$PATCHED suite_rc=$SUITE"

#!/usr/bin/env python3
"""keep_seed.py <ID> <A|B> <demo dest in tree> <detected-by text> [scratch root] [suffix] : copy a confirmed seeded change into /verif/seeded/<ID>-<A|B>/."""
import json, os, shutil, sys, glob
pid, ab, dest, detected = sys.argv[1:5]
root = sys.argv[5] if len(sys.argv) > 5 else "/tmp/seed"      # scratch root of the seeding round
name = sys.argv[6] if len(sys.argv) > 6 else ab               # suffix under /verif/seeded
src = "%s/%s/seed_out/%s" % (root, pid, ab)
dst = "/verif/seeded/%s-%s" % (pid, name)
os.makedirs(dst, exist_ok=True)
shutil.copy(os.path.join(src, "patch.diff"), dst)
for f in glob.glob(os.path.join(src, "*_test.go")) + glob.glob(os.path.join(src, "*.go")):
    # keep demos under a non-.go name so that no Go tool ever picks them up from /verif
    shutil.copy(f, os.path.join(dst, os.path.basename(f) + ".txt"))
if os.path.exists(os.path.join(src, "demo_path.txt")):
    shutil.copy(os.path.join(src, "demo_path.txt"), dst)
m = json.load(open(os.path.join(src, "meta.json")))
meta = {"property": pid, "summary": m.get("summary"), "needs": m.get("needs"),
        "author": "independent sub-agent given only the property text and a scratch worktree",
        "demo": {"place_at": dest, "file": [os.path.basename(f) + ".txt" for f in glob.glob(os.path.join(src, "*_test.go"))]},
        "confirmed": "tools/confirm_seed.sh in the scratch worktree: patch applies, go build ./... ok, pinned suite passes, demo fails with the patch and passes without",
        "ran": ["tools/confirm_seed.sh /tmp/seed/%s %s %s ..." % (pid, src, dest), "tools/seedrun.sh %s/patch.diff %s" % (dst, pid)],
        "detected_by": detected}
json.dump(meta, open(os.path.join(dst, "meta.json"), "w"), indent=1)
print("kept", dst)

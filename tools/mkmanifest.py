#!/usr/bin/env python3
"""Regenerate MANIFEST.json from tools/props.py (one source of truth for the checks)."""
import json, os, sys
ROOT = os.path.dirname(os.path.dirname(os.path.abspath(__file__)))
sys.path.insert(0, os.path.join(ROOT, "tools"))
from props import PROPS
ids = [json.loads(l)["id"] for l in open(os.path.join(ROOT, "properties.jsonl"))]
checks = []
for pid in ids:
    if pid not in PROPS:
        continue
    c = PROPS[pid]
    checks.append({
        "property_id": pid,
        "quick_cmd": "./check %s --tier quick" % pid,
        "thorough_cmd": "./check %s --tier thorough" % pid,
        "evidence_file": "/verif/evidence/%s.json" % pid,
        "replay_cmd_template": "./check %s --replay {path}" % pid,
        "engine": "coq-model",
        "level_claimed": {"category": "proof", "text": c["level_text"], "design_ref": "DESIGN.md section 7, " + pid},
        "level_note": c["level_note"],
        "technique": c.get("technique", "Coq proof over a Gallina model + model/implementation correspondence by vm_compute"),
    })
na = [{"property_id": p, "reason": PROPS.get(p, {}).get("na_reason", "check not built yet in this session (the design claims it; see DESIGN.md section 10)")}
      for p in ids if p not in PROPS]
m = {
    "version": 1,
    "setup_cmd": "cd /verif && (cd coq && coq_makefile -f _CoqProject -o Makefile && make -j16) && cp /repo/go.sum harness/go.sum && mkdir -p work/bin && (cat harness/go.sum.extra >> harness/go.sum && cd harness && GOFLAGS=-mod=mod GOPROXY=off GOSUMDB=off GOTOOLCHAIN=local go build -o ../work/bin/harness .)",
    "hooks": {
        "guard": "verif",
        "enable": "no source hooks are needed: the harness (module k3l.io/go-eigentrust/verifharness with replace => /repo) drives the exported API, the HTTP router, the gRPC handlers, the CLI binary and /proc/self/maps; the build tag 'verif' is reserved and unused",
        "baseline_off_cmd": "cd /repo && GOFLAGS=-mod=mod GOPROXY=off GOSUMDB=off GOTOOLCHAIN=local go test -vet=off -count=1 ./...",
        "source_commits": [],
        "add_only": True,
    },
    "engines": [
        {"name": "coq-model", "path": "coq", "serves_properties": [c["property_id"] for c in checks],
         "kind_free_text": "Gallina model + theorems (Coq 8.16.1, full .vo build); Props/Cxx.v hold the property statements"},
        {"name": "go-harness", "path": "harness", "serves_properties": [c["property_id"] for c in checks],
         "kind_free_text": "differential correspondence harness driving the real code from /repo's working tree; regression tests for past findings"},
    ],
    "checks": checks,
    "not_applicable": na,
    "notes": "Fixes of genuine defects are 'fix:' commits in /repo, recorded in known_findings.json; seeded changes used to test the checks are under seeded/.",
}
json.dump(m, open(os.path.join(ROOT, "MANIFEST.json"), "w"), indent=1)
print("checks:", [c["property_id"] for c in checks], "n/a:", [x["property_id"] for x in na])

#!/bin/bash
# seedrun.sh <patch.diff> <check args...> : apply a seeded change to /repo, run ./check, undo it straight afterwards.
P=$1; shift
git -C /repo apply "$P" || exit 2
trap 'git -C /repo checkout -- .' EXIT
cd /verif && ./check "$@"
echo "check rc=$?"

#!/usr/bin/env python3
"""Regenerate the seeded-change table of DESIGN.md section 11.5 from seeded/*/meta.json."""
import json, os, re, glob
ROOT = os.path.dirname(os.path.dirname(os.path.abspath(__file__)))
rows = []
for d in sorted(glob.glob(os.path.join(ROOT, "seeded", "*"))):
    m = json.load(open(os.path.join(d, "meta.json")))
    s = m["summary"].replace("|", "/").replace("\n", " ")
    if len(s) > 160:
        s = s[:160] + "…"
    rows.append("| %s | %s | %s |" % (os.path.basename(d), s, m["detected_by"].replace("|", "/").replace("\n", " ")))
p = os.path.join(ROOT, "DESIGN.md")
L = open(p).read().split("\n")
i = next(k for k, l in enumerate(L) if l.startswith("| seeded change |"))
j = i + 2
while j < len(L) and L[j].startswith("| "):
    j += 1
L[i + 2:j] = rows
open(p, "w").write("\n".join(L))
print("rows:", len(rows))

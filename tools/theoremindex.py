#!/usr/bin/env python3
"""Regenerate the theorem index of DESIGN.md section 11.6 from coq/theories/Props/*.v."""
import os, re, glob
ROOT = os.path.dirname(os.path.dirname(os.path.abspath(__file__)))
out = []
for f in sorted(glob.glob(os.path.join(ROOT, "coq/theories/Props/C*.v"))):
    src = open(f).read()
    pid = os.path.basename(f)[:-2]
    m = re.match(r"\(\*\*\s*\*\s*(.*?)\n", src)
    title = m.group(1).strip() if m else pid
    title = re.sub(r"^C\d\d\s*[—-]+\s*", "", title)
    out.append("**%s** — %s" % (pid, title))
    # comment immediately preceding each theorem
    for mm in re.finditer(r"(?:\(\*\*((?:(?!\*\)).)*?)\*\)\s*)?(?:Theorem|Lemma|Example)\s+(\w+)", src, re.S):
        c = mm.group(1)
        name = mm.group(2)
        c = " ".join(c.split()) if c else ""
        if len(c) > 300:
            c = c[:300] + "…"
        out.append("* `%s`%s" % (name, (": " + c) if c else ""))
    out.append("")
p = os.path.join(ROOT, "DESIGN.md")
L = open(p).read().split("\n")
i = next(k for k, l in enumerate(L) if l.startswith("**C01** — "))
j = next(k for k, l in enumerate(L) if k > i and l.startswith("### "))
L[i:j] = out
open(p, "w").write("\n".join(L))
print("theorems:", sum(1 for l in out if l.startswith("* ")))

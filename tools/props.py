"""Per-property configuration of ./check."""

TRUSTED_BASE = [
    "Coq 8.16.1 kernel (coqc); vm_compute (bytecode VM) for the correspondence shards and concrete examples; native_compute is not used",
    "primitive binary64 floats and Uint63 of Coq's standard library (Floats/FloatAxioms) wherever a theorem or the correspondence evaluates the F64 instance",
    "the hand-written Gallina model (coq/theories/Model) and the correspondence check that ties it to /repo: Go harness (harness/*.go), hex-float encoder, projections, tools/props.py and ./check",
    "platform: linux/amd64, go1.23: no FMA fusion, IEEE-754 float64, math.Sqrt correctly rounded",
    "no extraction to OCaml is used (no Extract directives)",
]

PROPS = {
    "C11": {
        "families": ["C11"],
        "go_tests": "",
        "rule": "bounded-exhaustive: every pair of index-sorted spans over indices <3 (quick) / <4 (thorough) with values in {absent,0,1,2} through Vector.Merge; "
                "random vector/matrix merge histories (1-30 merges, all dimension relations, explicit zeros at head/middle/tail) and re-batchings of one update stream "
                "through NewVector/NewCSRMatrix(includeZero)+Merge. Non-trivial = the update overlaps the target, carries an explicit zero, or changes the dimension; "
                "for re-batchings: the two batchings differ. Distinct = distinct (kind, input).",
        "explanation": "Theorems C11_* (all scalar instances, all spans/histories) + model-vs-implementation correspondence on projected observables (dims, non-zero content, argument reset).",
        "assumptions": ["sort.Sort on distinct keys behaves as a sort (NewVector/NewCSRMatrix batches have distinct coordinates in the re-batching cases)"],
    },
}

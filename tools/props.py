"""Per-property configuration of ./check."""

TRUSTED_BASE = [
    "Coq 8.16.1 kernel (coqc); vm_compute (bytecode VM) for the correspondence shards and concrete examples; native_compute is not used",
    "primitive binary64 floats and Uint63 of Coq's standard library (Floats/FloatAxioms) wherever a theorem or the correspondence evaluates the F64 instance",
    "the hand-written Gallina model (coq/theories/Model) and the correspondence check that ties it to /repo: Go harness (harness/*.go), hex-float encoder, projections, tools/props.py and ./check",
    "platform: linux/amd64, go1.23: no FMA fusion, IEEE-754 float64, math.Sqrt correctly rounded",
    "no extraction to OCaml is used (no Extract directives)",
]

PROPS = {
    "C11": {
        "level_text": "Machine-checked theorems over the Gallina model of mergeSpan / Vector.Merge / CSMatrix.Merge for every scalar instance: cell-wise overlay with zero-erasure, sortedness, dims = max, argument reset, and the history theorem (content after any sequence of batches = applying the concatenated updates in order, hence independent of batching). The model is tied to /repo on every run by evaluating it (vm_compute) on the cases the real code was run on (bounded-exhaustive small spans + random histories and re-batchings).",
        "level_note": "Trusted: Coq kernel + vm_compute; the hand-written model; the Go harness/encoder/projection (non-zero content, dims). Theorems are closed under the global context (no axioms). Aliasing of spans between receiver and argument is exercised, not modelled.",
        "technique": "Coq proof (induction over spans and histories) + model/implementation correspondence by vm_compute",
        "families": ["C11"],
        "go_tests": "",
        "rule": "bounded-exhaustive: every pair of index-sorted spans over indices <3 (quick) / <4 (thorough) with values in {absent,0,1,2} through Vector.Merge; "
                "random vector/matrix merge histories (1-30 merges, all dimension relations, explicit zeros at head/middle/tail) and re-batchings of one update stream "
                "through NewVector/NewCSRMatrix(includeZero)+Merge. Non-trivial = the update overlaps the target, carries an explicit zero, or changes the dimension; "
                "for re-batchings: the two batchings differ. Distinct = distinct (kind, input).",
        "explanation": "Theorems C11_* (all scalar instances, all spans/histories) + model-vs-implementation correspondence on projected observables (dims, non-zero content, argument reset).",
        "assumptions": ["sort.Sort on distinct keys behaves as a sort (NewVector/NewCSRMatrix batches have distinct coordinates in the re-batching cases)"],
    },
    "C10": {
        "level_text": "Machine-checked theorems for every scalar instance: NewCSRMatrix stores exactly the listed cells (zeros on request) in strictly sorted in-range rows and any sorting algorithm gives the same rows; Transpose is the dense transpose, preserves well-formedness and is an involution; the shared CSC view has the transposed shape and cells; every history of SetDim/SetMajorDim/SetMinorDim/Transpose equals the dense crop-and-pad history (cells cut by a shrink never return) and well-formedness is invariant under every history incl. merges. Tied to /repo by running the real code and the model on the same coordinate lists and op histories, observed after every op.",
        "level_note": "Trusted: Coq kernel + vm_compute; hand-written model (slice capacity is not modelled: after the SetMajorDim fix no operation exposes it); harness/encoder. No axioms. mmap state and aliasing of shared spans in views are exercised, not modelled here (C12).",
        "technique": "Coq proof (induction over rows and over operation histories; extensionality of sorted spans) + correspondence by vm_compute",
        "families": ["C10"],
        "go_tests": "^(TestD1ShrinkGrow|TestD2CSCView)$",
        "rule": "random coordinate lists (distinct coordinates, any order, square/non-square, empty rows/cols, 0xN, rows wider than 12 entries so that sort.Sort leaves its insertion-sort regime) through NewCSRMatrix with and without includeZero; "
                "random histories (1-12 ops quick, up to 200 thorough) of SetDim/SetMajorDim/SetMinorDim (shrink, grow within and beyond capacity), Transpose, Merge and the same through the shared CSC view (TransposeToCSC -> SetDim/Transpose -> TransposeToCSR), observed after every op together with NNZ and the view's Dims(). "
                "Non-trivial = more than one coordinate / more than one op; distinct = distinct (kind, input).",
        "explanation": "Theorems C10_* (every scalar instance; all coordinate lists, all WF matrices, all resize/transpose histories) + correspondence after every step; oracle = dense crop/transpose/overlay reference.",
        "assumptions": ["sort.Sort returns a sorted permutation (C10_sort_irrelevant then makes the choice of algorithm irrelevant for distinct columns)"],
    },
    "C09": {
        "level_text": "Machine-checked theorems: for every scalar instance AddVec/SubVec/ScaleVec/MulVec return well-formed results (strictly increasing in-range indices) whose elements are exactly the stated IEEE operation of the operands' elements, VecDot is the KBN-compensated sum of the products of the matching entries in index order and is symmetric when the product commutes (proved for binary64 from FloatAxioms), mismatched dimensions are an error; for binary64 the element-wise results equal the dense IEEE results up to the sign of zero; over the reals KBN summation is exact and every operation is the dense operation. The accuracy clause (KBN error bound for binary64) is PARTIAL: not proved as a theorem; it is decided per run by an exact-integer oracle. Tied to /repo by running every exported method with all receiver aliasings and comparing bit for bit.",
        "level_note": "Trusted: Coq kernel, vm_compute, FloatAxioms (binary64 spec), Reals axioms for the R theorems; hand-written model; harness. Receiver/operand aliasing cannot be expressed in the functional model: it is covered by correspondence only. The KBN error bound for binary64 and x*1 = x for the a==1 shortcut are not theorems.",
        "technique": "Coq proof (generic two-pointer merge lemma, loop-structure lemma for VecDot, exactness over R) + bit-exact correspondence by vm_compute",
        "families": ["C09"],
        "go_tests": "",
        "rule": "operand pairs with disjoint / nested / identical / one-empty / cancelling / random supports, dims 0..24, magnitudes from subnormal to 2^960, scale factors {0,1,-1,2,0.5,1e-300,5e-324,1e-200,-0,random}, 8% mismatched dimensions, 4% non-finite operands (malformed stream); every call repeated with receiver = fresh / v1 / v2 / all equal; MulVec on square and malformed shapes incl. a cancelling row; ill-conditioned Sum/Norm2 families (1,B,1,-B; Rump-like pairs; negative dominant addends). Non-trivial = both operands non-empty (VecOps), dim>1 (MulVec), >2 terms (Sum).",
        "explanation": "Theorems C09_* + bit-exact correspondence of all observables; oracle = dense IEEE recomputation and exact-integer KBN bound.",
        "assumptions": ["amd64 float64 arithmetic = Coq primitive floats (IEEE binary64, round to nearest even, no FMA contraction)"],
    },
    "C05": {
        "level_text": "Machine-checked theorems for every scalar instance and every (minIterations, maxIterations, checkFreq, fixed count, flat-tail) configuration: invalid parameters are rejected before the loop is entered; an accepted call returns exactly the k-th iterate where k is the least scheduled check at which delta (change since the previous scheduled check) <= epsilon and the flat-tail criterion hold, or the iteration limit, whichever comes first; WithIterations(n) gives exactly n; a limit below the first check wins. The termination bound ceil(ln(e/4)/ln(1-a))+2 is proved over the reals in C01's contraction layer for the exact recurrence (see Props/C01.v) and is PARTIAL for binary64: decided per run (observed iterations against the bound; divergence must surface as an error, watchdog must never fire).",
        "level_note": "Trusted: Coq kernel + vm_compute + FloatAxioms; hand-written model of Compute (poll points of the context are not part of this model: C07); harness reads the iteration count from the debug log record 'finished'. Termination of the binary64 iteration for every finite input is not a theorem.",
        "technique": "Coq proof (loop invariant by induction on fuel; closed form of the previous scheduled check) + bit-exact correspondence by vm_compute",
        "families": ["C05"],
        "go_tests": "^TestD6OverflowTerminates$",
        "rule": "bounded-exhaustive schedules: all (min,max,freq) in {absent,-1,0,1,2,3,5,7}x{absent,-1,0,1,2,3,6,10}x{absent,-1,0,1,2,3,5} (more values in thorough) on 2 (6) canonical graphs with two (alpha,epsilon) settings, half of the min=max combinations through WithIterations; all pairs of 15 invalid-parameter mutations; random canonical graphs (9 families, n 1..12, 15% with a row whose sum overflows) under the default schedule against the documented iteration bound. Non-trivial = the run performed at least one iteration; distinct = distinct input.",
        "explanation": "Theorems C05_* + bit-exact correspondence (result vector, iteration count, error class); oracle = the declarative stopping rule (X, D, sched) evaluated on the observed outcome, and the iteration bound.",
        "assumptions": ["the debug log record 'finished' reports the loop counter"],
    },
    "C18": {
        "level_text": "Machine-checked theorems for every scalar instance: the statistics after any sequence of checks are the run-length statistics of the sequence of rankings (length = final run - 1, threshold = max(1, sizes of broken runs), deltaNorm = delta at the head of the final run, ranking = last), the final run is a maximal block of identical rankings; Compute returns exactly those statistics for the checks of its run and, when it ends by its criteria, ends at the first scheduled check with delta <= epsilon and length >= L; the ranking consists of min(k, nnz) distinct scored peers none of which is out-scored by a peer left out, in ascending score order (for values on which < is a strict weak order). Tied to /repo by bit-exact correspondence of result, iteration count and all four statistics.",
        "level_note": "Trusted: Coq kernel, vm_compute, FloatAxioms; hand-written model incl. Go's insertion-sort regime of sort.Sort for <= 12 entries (ties compare as in the code only for n <= 12; generated cases have n <= 10); harness. The oracle skips runs with tied scores at a check (outside the quantifier).",
        "technique": "Coq proof (run-length abstraction of the checker state; insertion sort correctness under a strict weak order) + bit-exact correspondence by vm_compute",
        "families": ["C18"],
        "go_tests": "^TestD5LeadersFromTop$",
        "rule": "random canonical graphs (9 families, n 2..10), alpha in {0.5..0.05}, epsilon in {1,1e-2,1e-4,1e-6}, flatTail 0..4, numLeaders 0..n+1, 70% with a random canonical start vector (so that rankings change between checks), schedules: default / max 1..12 / (freq,min) / freq 2 + max. Non-trivial = more than one iteration and (threshold > 1 or length > 0).",
        "explanation": "Theorems C18_* + bit-exact correspondence; oracle = rankings recomputed by counting (no sort) on the model's iterates, run-length statistics and the stopping rule.",
        "assumptions": ["scores at checked iterates pairwise distinct for the top-k clause (property's quantifier)"],
    },
    "C08": {
        "level_text": "Machine-checked theorems: (every scalar instance) ExtractDistrust keeps every cell with value >= 0 unchanged in the trust part and moves every other cell sign-reversed to the distrust part, supports disjoint, both parts well-formed (index order preserved), non-square refused; DiscountTrustVector gives bit-identical results for distrust matrices that agree on the rows of scored peers (distrust by peers without reputation has no effect); (reals) L = P - D with P >= 0 and D > 0, and discount = t_j - sum_i t_i*D_ij for every j. 'Up to rounding' for binary64 is decided per run by an exact-integer bound. Tied to /repo by bit-exact correspondence.",
        "level_note": "Trusted: Coq kernel, vm_compute, Reals axioms (R theorems), FloatAxioms (evaluation); hand-written model (the in-place compaction and the two-pointer merge become filter/partition and structural recursion); harness. The binary64 rounding clause is measured, not proved.",
        "technique": "Coq proof (structural induction on the merge-matching loop; exact sums over R) + bit-exact correspondence by vm_compute",
        "families": ["C08"],
        "go_tests": "",
        "rule": "square matrices n 0..8 with all sign patterns (all-negative rows, alternating, mostly positive, explicit +-0, empty rows, first entry negative), 4% non-square; discount: score vectors with 20-100% scored peers (zero-score distrusters before/between/after scored ones), distrust matrices raw or row-normalised, 10% with fewer rows than peers. Non-trivial = at least one negative entry (extract) / at least one scored distruster (discount).",
        "explanation": "Theorems C08_* + bit-exact correspondence; oracle = cell-wise split conditions and exact-integer discount formula.",
        "assumptions": [],
    },
    "C04": {
        "level_text": "Machine-checked theorems: (every scalar instance) Canonicalize divides every entry by the compensated sum and reports a zero sum without producing a result; CanonicalizeLocalTrust canonicalises every row, substituting the pre-trust for rows that report a zero sum (or leaving them untouched without pre-trust) - every row incl. the last; CanonicalizeTrustVector yields the uniform vector on all n indices for a zero vector; (reals) the canonical form sums to 1 with x'_i = x_i/s (ratios preserved), is invariant under multiplication by any non-zero constant, and canonicalised non-negative vectors are distributions. PARTIAL: bit-identity for power-of-two factors on binary64 is decided per run (Scaled cases), not proved.",
        "level_note": "Trusted: Coq kernel, vm_compute, Reals axioms, FloatAxioms; hand-written model; harness. Aliasing introduced by SetRowVector (rows sharing the pre-trust's slice) is not modelled.",
        "technique": "Coq proof (field reasoning over R, case analysis on the canonicalisation outcome) + bit-exact correspondence by vm_compute",
        "families": ["C04"],
        "go_tests": "",
        "rule": "spans/rows/vectors n 1..9 with positive values over 200 binades, 15% zero-sum shapes (empty, explicit zeros only, cancelling pair), 5% tiny magnitudes; matrices with zero-sum rows forced at first/middle/last position, with (70%) and without pre-trust, dimension mismatches; power-of-two scaling of every row (2^-60..2^59) and of the pre-trust: canonical forms must be bit-identical. Non-trivial = more than one entry / row.",
        "explanation": "Theorems C04_* + bit-exact correspondence; oracle = exact-integer 'sums to 1', ratio preservation, substitution rule, bit-identity under power-of-two scaling.",
        "assumptions": [],
    },
}

#!/usr/bin/env python3
"""Regenerate the status table of DESIGN.md section 11.2 from evidence/*.json and tools/props.py."""
import json, os, sys
ROOT = os.path.dirname(os.path.dirname(os.path.abspath(__file__)))
sys.path.insert(0, os.path.join(ROOT, "tools"))
import props
rows = []
for pid in sorted(props.PROPS):
    cfg = props.PROPS[pid]
    ev = json.load(open(os.path.join(ROOT, "evidence", pid + ".json")))
    cov = ev["coverage"]
    thms = cov.get("theorems", {})
    ax = set()
    for v in thms.values():
        ax.update(v or [])
    groups = []
    if any(a.startswith("ClassicalDedekindReals") for a in ax):
        groups.append("Reals (sig_forall_dec, sig_not_dec)")
    if any("functional_extensionality" in a for a in ax):
        groups.append("functional_extensionality_dep")
    if any(a == "Classical_Prop.classic" for a in ax):
        groups.append("Classical_Prop.classic")
    if any(a.endswith("_spec") or a.startswith("Prim") or a in ("Prim2SF_valid", "SF2Prim_Prim2SF", "Prim2SF_SF2Prim") for a in ax):
        groups.append("FloatAxioms / primitive floats and Uint63")
    partial = [t for t in thms if t.endswith("_partial")]
    tests = cfg.get("go_tests", "").replace("^", "").replace("$", "").replace("|", ", ")
    race = cfg.get("race_tests", "").replace("^", "").replace("$", "").replace("|", ", ")
    if race:
        tests += " ; -race: " + race
    rows.append("| %s | %d/%d | %s | %s | %s | %s |" % (
        pid, cov["discharged"], cov["obligations"], ", ".join(groups) or "none",
        ", ".join(partial) or "—", "+".join(cfg["families"]), tests.strip() or "—"))
p = os.path.join(ROOT, "DESIGN.md")
L = open(p).read().split("\n")
i = next(k for k, l in enumerate(L) if l.startswith("| id | theorems accepted |"))
j = i + 2
while L[j].startswith("| C"):
    j += 1
L[i + 2:j] = rows
open(p, "w").write("\n".join(L))
print("rows:", len(rows))

#!/bin/bash
# Re-checks every compiled module of the development (and everything it depends on) with Coq's
# independent checker and prints the axioms it relies on.  ~80 s.  The theory must be built first.
cd /verif/coq && mods=$(ls theories/Props/*.v | sed 's#theories/Props/\(.*\)\.v#ET.Props.\1#' | tr '\n' ' ')
exec coqchk -silent -o -Q theories ET $mods

(** * C15 correspondence: adversarial and byte-level input to every front-end.

    Structured requests are compared with the models (OpenAPI compute, gRPC histories); for raw
    bytes there is no model of the decoders (encoding/json, protobuf, encoding/csv, multipart):
    those cases only carry what was observed, and the oracle is the property itself. *)
From ET Require Export Corr.GrpcCase.
From ET Require Export Corr.OapiCase.
From ET Require Import Proofs.OapiSpec.

Inductive case :=
| OComp (setup : list (N * cimat)) (q : creq) (resp : cresp) (store_same : bool)
    (* an adversarial but well-typed compute request; [store_same]: a stored matrix reads back identically afterwards *)
| ORaw (endpoint : N) (status : N) (body_is_json panicked hang store_same degenerate long : bool)
    (* arbitrary bytes as a JSON body: 0 compute, 1 compute-with-stats, 2 PUT local-trust, 3 other routes/methods;
       [degenerate]: the body carries a number of magnitude >= 1e150 (sums may overflow: a 500 is then accepted) *)
| GAdv (requests : list GrpcCase.cgreq) (responses : list GrpcCase.cgresp)
| Bytes (what : N) (returned panicked : bool)
    (* raw bytes into a CSV reader (0 names, 1 local trust, 2 trust vector), the CLI (3), the playground (4), every gRPC
       handler on empty messages (5), the server-side CSV loaders behind file:// references (6):
       [returned] = a value or an error came back / exit status 0 / a complete 200 or 400 page *)
| Huge (what : N) (survived : bool).
    (* an index or size far beyond memory, run in a child process under an address-space limit *)

Definition check (c : case) : bool :=
  match c with
  | OComp setup q r _ => resp_matches (oapi_compute 1500 default_eps (put_all setup) (to_req q)) r
  | GAdv rs os => GrpcCase.ghist_matches (@Grpc.g0 F64) rs os
  | ORaw _ _ _ _ _ _ _ _ | Bytes _ _ _ | Huge _ _ => true
  end.

(** ** the property on what was observed *)
Definition alpha_zero (q : creq) : bool := match cq_alpha q with Some a => PrimFloat.eqb a 0 | None => false end.
(** the request itself asks for at least as many iterations as the watchdog allows *)
Definition demands_long (q : creq) : bool :=
  match cq_mn q, cq_fq q with
  | Some m, _ => (1000 <=? m)%Z
  | None, Some f => (1000 <=? f)%Z
  | None, None => false
  end.
Definition status_ok (ep st : N) : bool :=
  match ep with
  | 0 | 1 => N.eqb st 200 || N.eqb st 400 || N.eqb st 415
  | 2 => N.eqb st 200 || N.eqb st 201 || N.eqb st 400 || N.eqb st 415
  | _ => N.eqb st 200 || N.eqb st 204 || N.eqb st 400 || N.eqb st 404 || N.eqb st 405 || N.eqb st 415
  end%N.

(** gRPC: OK, InvalidArgument, NotFound, AlreadyExists / Unknown for a plain refusal, Unavailable for a
    failed computation; never a panic or Internal; a refused update leaves the collection as it was *)
Definition gcode_ok (o : GrpcCase.cgresp) : bool :=
  match o with
  | GrpcCase.RStatus c => (N.eqb c 0 || N.eqb c 2 || N.eqb c 3 || N.eqb c 5 || N.eqb c 6 || N.eqb c 14)%N
  | GrpcCase.RPanicked => false
  | _ => true
  end.
Definition gresp_eqb (a b : GrpcCase.cgresp) : bool :=
  match a, b with
  | GrpcCase.RStatus x, GrpcCase.RStatus y => N.eqb x y
  | GrpcCase.RMatrix t1 e1, GrpcCase.RMatrix t2 e2 =>
      list_eqb N.eqb t1 t2 && list_eqb (fun x y : N * N * float => N.eqb (fst (fst x)) (fst (fst y)) && N.eqb (snd (fst x)) (snd (fst y)) && fbits_eqb (snd x) (snd y)) e1 e2
  | GrpcCase.RVector t1 e1, GrpcCase.RVector t2 e2 => list_eqb N.eqb t1 t2 && ents_eqb (to_ents e1) (to_ents e2)
  | _, _ => false
  end.
(** get ; update ; get on the same id: a refused update changes nothing *)
Fixpoint refusals_ok (rs : list GrpcCase.cgreq) (os : list GrpcCase.cgresp) : bool :=
  match rs, os with
  | GrpcCase.CMGet a :: ((GrpcCase.CMUpdate b _ _ :: GrpcCase.CMGet c :: _) as rs'), o1 :: ((GrpcCase.RStatus st :: o3 :: _) as os') =>
      (if N.eqb a b && N.eqb b c && negb (N.eqb st 0) then gresp_eqb o1 o3 else true) && refusals_ok rs' os'
  | GrpcCase.CVGet a :: ((GrpcCase.CVUpdate b _ _ :: GrpcCase.CVGet c :: _) as rs'), o1 :: ((GrpcCase.RStatus st :: o3 :: _) as os') =>
      (if N.eqb a b && N.eqb b c && negb (N.eqb st 0) then gresp_eqb o1 o3 else true) && refusals_ok rs' os'
  | GrpcCase.CVGet a :: ((GrpcCase.CCompute _ _ g _ _ _ _ :: GrpcCase.CVGet c :: _) as rs'), o1 :: ((GrpcCase.RStatus st :: o3 :: _) as os') =>
      (* a refused compute leaves the global-trust vector as it was *)
      (if N.eqb a g && N.eqb g c && negb (N.eqb st 0) then gresp_eqb o1 o3 else true) && refusals_ok rs' os'
  | _ :: rs', _ :: os' => refusals_ok rs' os'
  | _, _ => true
  end.
(** negative and unparsable indices are InvalidArgument *)
Definition bad_idx (p : option Z) : bool := match p with Some z => (z <? 0)%Z | None => true end.
Fixpoint invalid_args_ok (rs : list GrpcCase.cgreq) (os : list GrpcCase.cgresp) : bool :=
  match rs, os with
  | GrpcCase.CMUpdate _ _ es :: rs', o :: os' =>
      (if existsb (fun e : option Z * option Z * float => bad_idx (fst (fst e)) || bad_idx (snd (fst e))) es
       then match o with GrpcCase.RStatus c => N.eqb c 3 || N.eqb c 5 | _ => false end else true) && invalid_args_ok rs' os'
  | GrpcCase.CVUpdate _ _ es :: rs', o :: os' =>
      (if existsb (fun e : option Z * float => bad_idx (fst e)) es
       then match o with GrpcCase.RStatus c => N.eqb c 3 || N.eqb c 5 | _ => false end else true) && invalid_args_ok rs' os'
  | _ :: rs', _ :: os' => invalid_args_ok rs' os'
  | _, _ => true
  end.

(** a compute that references a collection which no earlier call of this history created is invalid input
    and must be reported as such: NotFound (or InvalidArgument when a parameter is out of range as well) *)
Definition memN (x : N) (l : list N) : bool := existsb (N.eqb x) l.
Definition created (o : GrpcCase.cgresp) : bool :=
  match o with GrpcCase.RCreated _ => true | GrpcCase.RStatus c => N.eqb c 0 | _ => false end.
Fixpoint unknown_ids_ok (rs : list GrpcCase.cgreq) (os : list GrpcCase.cgresp) (ms vs : list N) : bool :=
  match rs, os with
  | r :: rs', o :: os' =>
      match r with
      | GrpcCase.CMCreate i | GrpcCase.CMCreateAuto i => unknown_ids_ok rs' os' (if created o then i :: ms else ms) vs
      | GrpcCase.CVCreate i | GrpcCase.CVCreateAuto i => unknown_ids_ok rs' os' ms (if created o then i :: vs else vs)
      | GrpcCase.CCompute l pre g pos _ _ _ =>
          (let known := memN l ms && memN g vs && match pre with Some p => memN p vs | None => true end
                        && match pos with Some p => memN p vs | None => true end in
           known || match o with GrpcCase.RStatus c => N.eqb c 5 || N.eqb c 3 | _ => false end)
          && unknown_ids_ok rs' os' ms vs
      | _ => unknown_ids_ok rs' os' ms vs
      end
  | _, _ => true
  end.

Definition holds (c : case) : bool :=
  match c with
  | OComp setup q r same =>
      same &&
      match r with
      | C200 _ _ | C400 => true
      | C500 => (* an internal error only where the declarative specification has one (numerically degenerate input) *)
          resp_matches (oapi_spec 1500 default_eps (put_all setup) (to_req q)) C500
      | CHang => alpha_zero q || demands_long q     (* requests with positive alpha must terminate *)
      | CPanic | COther _ => false
      end
  | ORaw ep st js panicked hang same degenerate long =>
      (* [long]: the damaged body still decodes to a request that itself demands >= 1000 iterations *)
      negb panicked && (negb hang || long) && same && (status_ok ep st || (degenerate && N.eqb st 500) || (hang && long)) && js
  | GAdv rs os => forallb gcode_ok os && refusals_ok rs os && invalid_args_ok rs os && unknown_ids_ok rs os [] []
  | Bytes _ returned panicked => returned && negb panicked
  | Huge _ survived => survived
  end.

(** * Shared correspondence vocabulary for basic.Compute (C01, C02, C05, C06, C18). *)
From ET Require Import Corr.Common Model.Basic.

Record copts := CO {
  co_t0 : option cvec; co_result_dim : option N; co_flat_tail : Z; co_num_leaders : Z;
  co_max : option Z; co_min : option Z; co_freq : option Z }.
Arguments CO co_t0 co_result_dim co_flat_tail%Z co_num_leaders%Z co_max co_min co_freq.
Definition zs (z : Z) : option Z := Some z.
Arguments zs z%Z.
Definition ns (n : N) : option N := Some n.
Arguments ns n%N.

(** what the harness observed: result vector, iteration count (debug log
    record "finished"), flat-tail stats; or an error class; or the watchdog *)
Inductive cobs :=
| ODone (t : cvec) (iters : N) (len thr : N) (delta : float) (have_ranking : bool) (ranking : list N)
| OFailed (code : N)
| OTimeout
| OPanic.
Arguments ODone t iters%N len%N thr%N delta%float have_ranking ranking%N.
Arguments OFailed code%N.

Record ccase := CC { cc_c : cmat; cc_p : cvec; cc_a : float; cc_e : float; cc_o : copts; cc_fuel : N; cc_obs : cobs }.
Arguments CC cc_c cc_p cc_a%float cc_e%float cc_o cc_fuel%N cc_obs.

Definition to_opts (o : copts) : opts F64 :=
  {| o_t0 := option_map to_vec (co_t0 o); o_result_dim := option_map N.to_nat (co_result_dim o);
     o_flat_tail := co_flat_tail o; o_num_leaders := co_num_leaders o;
     o_max_iters := co_max o; o_min_iters := co_min o; o_check_freq := co_freq o |}.

Definition run_model (c : ccase) : outcome F64 :=
  @compute F64 (N.to_nat (cc_fuel c)) (to_csm (cc_c c)) (to_vec (cc_p c)) (cc_a c) (cc_e c) (to_opts (cc_o c)).

Definition ranking_eqb (m : option (list nat)) (have : bool) (r : list N) : bool :=
  match m with
  | None => negb have
  | Some l => have && list_eqb Nat.eqb l (map N.to_nat r)
  end.

Definition obs_matches (m : outcome F64) (o : cobs) : bool :=
  match m, o with
  | Done t k st, ODone ot ok len thr d have r =>
      vec_eqb t (to_vec ot) && Nat.eqb k (N.to_nat ok)
      && ((* beyond 12 entries sort.Sort leaves its (stable) insertion-sort regime: with tied scores
             the ranking, and through it the run-length statistics, depend on Go's pdqsort, which
             is not modelled; the statistics are then not part of the comparison (C18 stays below) *)
          negb (vdim t <=? 12)
          || (Nat.eqb (ft_length st) (N.to_nat len) && Nat.eqb (ft_threshold st) (N.to_nat thr)
              && fbits_eqb (ft_delta st) d && ranking_eqb (ft_ranking st) have r))
  | Failed code, OFailed oc => Nat.eqb code (N.to_nat oc)
  | OutOfFuel, OTimeout => true
  | Panicked, OPanic => true
  | _, _ => false
  end.

Definition compute_check (c : ccase) : bool := obs_matches (run_model c) (cc_obs c).

(** ** iterates of the recurrence, computed once per case (for the oracles) *)
From ET Require Import Proofs.ComputeProofs.
Fixpoint iterates (ct : csm F64) (ap : vec F64) (a : float) (n : nat) (t : vec F64) : list (vec F64) :=
  t :: match n with O => [] | Datatypes.S n' => iterates ct ap a n' (@step_tot F64 ct ap a t) end.
(** delta at a scheduled check [k], from the memoised iterates *)
Definition delta_at (xl : list (vec F64)) (t0 : vec F64) (mn fq k : nat) : float :=
  match @subvec F64 (nth k xl t0) (nth (prev mn fq k) xl t0) with Ok td => @norm2 F64 td | _ => 0%float end.

(** * C05 correspondence: iteration control and termination of basic.Compute. *)
From ET Require Export Corr.Common Corr.ComputeCase.
From ET Require Import Model.Basic Proofs.ComputeProofs.

Inductive case :=
| Compute (c : ccase)
| Bound (c : ccase) (bound : N).      (* bound = ceil(ln(e/4)/ln(1-a)) + 2, computed by the harness *)
Arguments Bound c bound%N.

Definition check (c : case) : bool :=
  match c with Compute cc | Bound cc _ => compute_check cc end.

(** ** oracle: the documented stopping rule evaluated on the observed outcome *)
Definition validb (c : csm F64) (p : vec F64) (a e : float) (o : opts F64) : bool :=
  Nat.eqb (major c) (minor c) && negb (Nat.eqb (major c) 0) && Nat.eqb (vdim p) (major c)
  && match o_t0 o with Some t0 => Nat.eqb (vdim t0) (major c) | None => true end
  && match o_result_dim o with Some d => Nat.eqb d (major c) | None => true end
  && PrimFloat.leb 0 a && PrimFloat.leb a 1 && PrimFloat.ltb 0 e
  && (1 <=? eff_freq o)%Z && (0 <=? eff_max o)%Z && (1 <=? eff_min o)%Z.

Definition stop_rule_ok (cc : ccase) (t : vec F64) (k : nat) : bool :=
  let c := to_csm (cc_c cc) in let p := to_vec (cc_p cc) in let o := to_opts (cc_o cc) in
  let a := cc_a cc in let e := cc_e cc in
  let ct := transpose c in let ap := @scalevec F64 a p in
  let t0 := eff_t0 o p in
  let mn := Z.to_nat (eff_min o) in let fq := Z.to_nat (eff_freq o) in
  let xl := iterates ct ap a k t0 in
  let x := fun j => nth j xl t0 in
  let d := delta_at xl t0 mn fq in
  let sc := sched mn fq in
  vec_eqb t (x k)
  && forallb (fun j => negb (sc j) || negb (PrimFloat.leb (d j) e)) (seq 0 k)
  && match eff_mx o with
     | Some m => (k <=? m) && (Nat.eqb k m || (sc k && PrimFloat.leb (d k) e))
     | None => sc k && PrimFloat.leb (d k) e
     end.

Definition holds (c : case) : bool :=
  match c with
  | Compute cc =>
      let v := validb (to_csm (cc_c cc)) (to_vec (cc_p cc)) (cc_a cc) (cc_e cc) (to_opts (cc_o cc)) in
      match cc_obs cc with
      | ODone t k _ _ _ _ _ => v && stop_rule_ok cc (to_vec t) (N.to_nat k)
      | OFailed code => negb v || N.eqb code 6   (* rejected before iterating, or divergence reported *)
      | OTimeout => PrimFloat.ltb (cc_a cc) 0x1.0624dd2f1a9fcp-10   (* termination is claimed for a >= 0.001 only *)
      | OPanic => false
      end
  | Bound cc b =>
      match cc_obs cc with
      | ODone t k _ _ _ _ _ => (k <=? b)%N && stop_rule_ok cc (to_vec t) (N.to_nat k)
      | OFailed code => N.eqb code 6
      | OTimeout | OPanic => false
      end
  end.

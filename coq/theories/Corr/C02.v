(** * C02 correspondence: the returned vector is a distribution for every iteration budget. *)
From ET Require Export Corr.Common Corr.ComputeCase.
From ET Require Import Corr.Exact Model.Basic Proofs.SparseBase.

Definition case := ccase.
Definition check (c : case) : bool := compute_check c.

Definition holds (cc : case) : bool :=
  match cc_obs cc with
  | ODone ot ok _ _ _ _ _ =>
      let t := to_vec ot in
      let n := N.to_nat (cm_major (cc_c cc)) in
      let k := Z.of_N ok in
      Nat.eqb (vdim t) n && wfvb t
      && forallb (fun p => negb (f64_nonfinite (snd p)) && PrimFloat.leb 0 (snd p)) (vents t)
      && match zall (map (fun p => zval (snd p)) (vents t)), zval 1%float with
         | Some zs, Some one =>
             (* |sum - 1| <= 4 (k+2) (n+2) u *)
             (Z.abs (zsum zs - one) * 2 ^ 53 <=? 4 * (k + 2) * (Z.of_nat n + 2) * one)%Z
         | _, _ => false
         end
  | OFailed _ => true
  | OTimeout => true
  | OPanic => false
  end.

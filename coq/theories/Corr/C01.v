(** * C01 correspondence: converged scores against an exact rational solution. *)
From Coq Require Export QArith.
From ET Require Export Corr.Common Corr.ComputeCase.
From ET Require Import Model.Basic Proofs.ComputeProofs Proofs.SparseBase.

(** [sol] is an exact solution of s = (1-a) C^T s + a p over the rationals (the
    binary64 inputs embedded exactly), produced by an untrusted solver in the
    harness (Gaussian elimination over big.Rat) and *checked* here. *)
Inductive case :=
| Cert (c : ccase) (sol : list Q).

Definition check (c : case) : bool := match c with Cert cc _ => compute_check cc end.

(** exact arithmetic runs on Bignums' [bigQ] (machine-integer limbs): the
    rationals produced by Gaussian elimination have thousands of bits *)
From Bignums Require Import BigQ.

(** exact value of a finite float *)
Definition qval (x : float) : option Q :=
  match Prim2SF x with
  | S754_zero _ => Some 0%Q
  | S754_finite s m e =>
      let mz := (if s then Z.neg m else Z.pos m) in
      Some (if (0 <=? e)%Z then inject_Z (mz * 2 ^ e) else (mz # (Z.to_pos (2 ^ (- e)))))%Q
  | _ => None
  end.
Definition bq (q : Q) : bigQ := BigQ.red (BigQ.of_Q q).
Definition qv (x : float) : bigQ := match qval x with Some q => bq q | None => bq 0 end.

Definition badd := BigQ.add_norm.
Definition bmul := BigQ.mul_norm.
Definition bsub (x y : bigQ) := BigQ.add_norm x (BigQ.opp y).
Definition bleb (x y : bigQ) : bool := match BigQ.compare x y with Gt => false | _ => true end.
Definition beqb (x y : bigQ) : bool := match BigQ.compare x y with Eq => true | _ => false end.
Definition bsum (l : list bigQ) : bigQ := fold_right badd (bq 0) l.
Definition babs (q : bigQ) : bigQ := if bleb (bq 0) q then q else BigQ.opp q.

Definition holds (c : case) : bool :=
  match c with
  | Cert cc sol =>
      match cc_obs cc with
      | ODone ot ok _ _ _ _ _ =>
          let C := to_csm (cc_c cc) in let p := to_vec (cc_p cc) in let o := to_opts (cc_o cc) in
          let n := major C in
          let a := qv (cc_a cc) in let e := qv (cc_e cc) in
          let one := bq 1 in
          let q1a := bsub one a in
          let k := N.to_nat ok in
          let by_max := match eff_mx o with Some m => Nat.eqb m k | None => false end in
          if by_max then true                     (* cut by the limit: C01 speaks of runs that ended by convergence *)
          else
            let sl := map bq sol in
            let s := fun i => nth i sl (bq 0) in
            let crow := fun i => map (fun j => qv (@den F64 (row C i) j)) (seq 0 n) in
            let cm := map crow (seq 0 n) in
            let cij := fun i j => nth j (nth i cm []) (bq 0) in
            let pj := fun j => qv (@den F64 (vents p) j) in
            let t := to_vec ot in
            (* 1. the certificate is an exact fixed point *)
            Nat.eqb (length sol) n
            && forallb (fun j => beqb (s j) (badd (bmul q1a (bsum (map (fun i => bmul (cij i j) (s i)) (seq 0 n)))) (bmul a (pj j)))) (seq 0 n)
            (* 2. the embedded system is a contraction with non-negative coefficients: the fixed point is unique *)
            && bleb (bq 0) a && negb (beqb a (bq 0)) && bleb a one
            && forallb (fun i => forallb (fun j => bleb (bq 0) (cij i j)) (seq 0 n)
                                 && bleb (bmul q1a (bsum (nth i cm []))) (bsub one (bmul a (bq (1 # 2))))) (seq 0 n)
            (* 3. the returned floats are within the bound of the exact solution:
                  a * ||t - s||_1 <= (1-a) * r * e + 1e-14, with r*r >= n *)
            && (let dist := bsum (map (fun j => babs (bsub (qv (@den F64 (vents t) j)) (s j))) (seq 0 n)) in
                let r := bq (inject_Z (Z.of_nat (Nat.sqrt n) + 1)) in
                bleb (bmul a dist) (badd (bmul (bmul q1a r) e) (bq (1 # 100000000000000))))
      | OFailed _ => true
      | OTimeout => true
      | OPanic => false
      end
  end.

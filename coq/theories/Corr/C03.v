(** * C03 correspondence: POST /compute and /compute-with-stats. *)
From ET Require Export Corr.OapiCase.
From ET Require Import Proofs.OapiSpec.

Inductive case :=
| ComputeReq (setup : list (N * cimat)) (q : creq) (resp_compute resp_stats : cresp) (stats : option cstats).

Definition check (c : case) : bool :=
  match c with
  | ComputeReq setup q rc rs so =>
      let m := oapi_compute 1500 default_eps (put_all setup) (to_req q) in
      resp_matches m rc && resp_matches m rs && stats_match m so
  end.

(** oracle: the declarative specification (effective inputs), and both endpoints agree *)
Definition resp_eqb (a b : cresp) : bool :=
  match a, b with
  | C200 s1 e1, C200 s2 e2 => Z.eqb s1 s2 && ents_eqb (to_ents e1) (to_ents e2)
  | C400, C400 | C500, C500 | CPanic, CPanic | CHang, CHang => true
  | COther x, COther y => N.eqb x y
  | _, _ => false
  end.
(** the statistics of /compute-with-stats: the ranking lists the top-scored peers — at most numLeaders of
    them (all peers when absent or 0), at least as many as there are positive scores up to that bound (a
    score that is positive after the discount was positive before it), each peer once.  The order is not
    claimed here: the response carries discounted scores, the ranking is over the undiscounted iterate. *)
Fixpoint nodupb (l : list nat) : bool :=
  match l with [] => true | a :: t => negb (existsb (Nat.eqb a) t) && nodupb t end.
Definition stats_ok (q : creq) (rc : cresp) (so : option cstats) : bool :=
  match rc, so with
  | C200 sz es, Some s =>
      let ents := to_ents es in
      let n := Z.to_nat sz in
      let nl := match cq_nl q with Some k => if (0 <? k)%Z then Z.to_nat k else n | None => n end in
      let nonzero := length (filter (fun e : nat * float => PrimFloat.ltb 0 (snd e)) ents) in
      let r := map N.to_nat (cs_ranking s) in
      (length r <=? Nat.min nl n)
      && (match cq_mx q, cq_mn q, cq_fq q with None, None, None => Nat.min nl nonzero <=? length r | _, _, _ => true end)   (* default schedule: at least one check took place *)
      && nodupb r
      && forallb (fun i => i <? n) r
  | _, _ => true
  end.
Definition holds (c : case) : bool :=
  match c with
  | ComputeReq setup q rc rs so =>
      resp_eqb rc rs && resp_matches (oapi_spec 1500 default_eps (put_all setup) (to_req q)) rc
      && stats_ok q rs so
  end.

(** * C03 correspondence: POST /compute and /compute-with-stats. *)
From ET Require Export Corr.OapiCase.
From ET Require Import Proofs.OapiSpec.

Inductive case :=
| ComputeReq (setup : list (N * cimat)) (q : creq) (resp_compute resp_stats : cresp) (stats : option cstats).

Definition check (c : case) : bool :=
  match c with
  | ComputeReq setup q rc rs so =>
      let m := oapi_compute 1500 default_eps (put_all setup) (to_req q) in
      resp_matches m rc && resp_matches m rs && stats_match m so
  end.

(** oracle: the declarative specification (effective inputs), and both endpoints agree *)
Definition resp_eqb (a b : cresp) : bool :=
  match a, b with
  | C200 s1 e1, C200 s2 e2 => Z.eqb s1 s2 && ents_eqb (to_ents e1) (to_ents e2)
  | C400, C400 | C500, C500 | CPanic, CPanic | CHang, CHang => true
  | COther x, COther y => N.eqb x y
  | _, _ => false
  end.
Definition holds (c : case) : bool :=
  match c with
  | ComputeReq setup q rc rs so =>
      resp_eqb rc rs && resp_matches (oapi_spec 1500 default_eps (put_all setup) (to_req q)) rc
  end.

(** * C18 correspondence: flat-tail termination and statistics. *)
From ET Require Export Corr.Common Corr.ComputeCase.
From ET Require Import Model.Basic Proofs.ComputeProofs Proofs.FlatTailProofs.

Definition case := ccase.
Definition check (c : case) : bool := compute_check c.

(** ** oracle *)
(** peers in ascending score order, computed by counting (no sorting
    algorithm); [None] when the scores are not pairwise distinct (the property
    quantifies over runs whose checked scores are pairwise distinct) *)
Definition rank_spec (l : list fentry) : option (list nat) :=
  let rk (e : fentry) := length (filter (fun x : fentry => PrimFloat.ltb (snd x) (snd e)) l) in
  let byrank := map (fun pos => filter (fun e => Nat.eqb (rk e) pos) l) (seq 0 (length l)) in
  if forallb (fun b : list fentry => Nat.eqb (length b) 1) byrank
  then Some (map (fun b : list fentry => fst (hd (0, 0%float) b)) byrank) else None.
Definition top_spec (l : list fentry) (k : nat) : option (list nat) :=
  option_map (fun r => if k <? length r then skipn (length r - k) r else r) (rank_spec l).

Fixpoint all_some {A} (l : list (option A)) : option (list A) :=
  match l with
  | [] => Some []
  | Some a :: t => option_map (cons a) (all_some t)
  | None :: _ => None
  end.

Definition stats_eqb (st : ftstats F64) (len thr : N) (d : float) (have : bool) (r : list N) : bool :=
  Nat.eqb (ft_length st) (N.to_nat len) && Nat.eqb (ft_threshold st) (N.to_nat thr)
  && fbits_eqb (ft_delta st) d && ranking_eqb (ft_ranking st) have r.

Definition holds (cc : case) : bool :=
  match cc_obs cc with
  | ODone ot ok len thr dl have rk =>
      let c := to_csm (cc_c cc) in let p := to_vec (cc_p cc) in let o := to_opts (cc_o cc) in
      let a := cc_a cc in let e := cc_e cc in
      let ct := transpose c in let ap := @scalevec F64 a p in
      let t0 := eff_t0 o p in
      let mn := Z.to_nat (eff_min o) in let fq := Z.to_nat (eff_freq o) in
      let nl := Z.to_nat (eff_leaders o (major c)) in
      let L := o_flat_tail o in
      let k := N.to_nat ok in
      let xl := iterates ct ap a k t0 in
      let x := fun j => nth j xl t0 in
      let d := delta_at xl t0 mn fq in
      let by_max := match eff_mx o with Some m => Nat.eqb m k | None => false end in
      let checks := filter (sched mn fq) (seq 0 (if by_max then k else Datatypes.S k)) in
      match all_some (map (fun j => top_spec (vents (x j)) nl) checks) with
      | None => true        (* tied scores at a checked iterate: outside the property's quantifier *)
      | Some tops =>
          let ds : list (T F64) := map d checks in
          let hist_upto (n : nat) : hist := rev (firstn n (combine tops ds)) in
          let stop_ok (i : nat) : bool :=   (* criteria at the i-th check (0-based) *)
            PrimFloat.leb (nth i ds 0%float) e && (L <=? Z.of_nat (ft_length (stats_of (hist_upto (Datatypes.S i)))))%Z in
          vec_eqb (to_vec ot) (x k)
          && stats_eqb (stats_of (hist_upto (length checks))) len thr dl have rk
          && forallb (fun i => negb (stop_ok i)) (seq 0 (length checks - (if by_max then 0 else 1)))
          && (by_max || (sched mn fq k && stop_ok (length checks - 1)))
      end
  | OFailed _ => true     (* rejections are C05's subject *)
  | OTimeout => true      (* the run did not end: no statistics to judge here; hangs are C05/C15's subject *)
  | OPanic => false
  end.

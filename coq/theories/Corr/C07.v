(** * C07 correspondence: cancellation sweeps (counting context at every poll). *)
From ET Require Export Corr.Common Corr.ComputeCase.
From ET Require Import Model.Basic.

(** The harness cancels the context at its k-th Done() call for every k up to
    the poll count of an undisturbed run (repeated under several GOMAXPROCS,
    with a collector-delaying variant), and counts the runs that violated the
    property.  [undisturbed] ties the operation to the model. *)
Inductive case :=
| ComputeSweep (undisturbed : ccase) (polls runs partial leaked modified slow : N)
| OpSweep (op : N) (polls runs partial leaked modified slow : N).   (* 1 = MulVec, 2 = Transpose, 3 = Mmap *)
Arguments ComputeSweep undisturbed polls%N runs%N partial%N leaked%N modified%N slow%N.
Arguments OpSweep op%N polls%N runs%N partial%N leaked%N modified%N slow%N.

Definition zero4 (a b c d : N) : bool := N.eqb a 0 && N.eqb b 0 && N.eqb c 0 && N.eqb d 0.

Definition check (c : case) : bool :=
  match c with
  | ComputeSweep u _ _ p l m s => compute_check u && zero4 p l m s
  | OpSweep _ _ _ p l m s => zero4 p l m s
  end.
Definition holds (c : case) : bool :=
  match c with
  | ComputeSweep _ _ _ p l m s | OpSweep _ _ _ p l m s => zero4 p l m s
  end.

(** * C09 correspondence: every exported Vector method and sparse.VecDot. *)
From ET Require Import Corr.Common Corr.Exact Proofs.SparseBase.

(** [None] = ErrDimensionMismatch *)
Definition ores := option cvec.

Inductive case :=
| VecOps (v1 v2 : cvec) (a : float)
    (add_fresh add_into_v1 add_into_v2 : ores) (add_self : cvec)   (* r.AddVec(v1,v2); v1.AddVec(v1,v2); v2.AddVec(v1,v2); v1.AddVec(v1,v1) *)
    (sub_fresh sub_into_v1 sub_into_v2 : ores) (sub_self : cvec)
    (scale_fresh scale_inplace : cvec)
    (dot12 dot21 dot11 norm1 sum1 : float)
| MulVecCase (m : cmat) (v : cvec) (fresh into_v : ores)
| SumCase (xs : list float) (sum : float) (norm : float).   (* Vector.Sum and Norm2 of the vector with entries xs *)

Arguments VecOps v1 v2 a%float add_fresh add_into_v1 add_into_v2 add_self sub_fresh sub_into_v1 sub_into_v2 sub_self
  scale_fresh scale_inplace dot12%float dot21%float dot11%float norm1%float sum1%float.
Arguments SumCase xs%float sum%float norm%float.

Definition ores_eqb (m : res (vec F64)) (o : ores) : bool :=
  match m, o with
  | Ok v, Some c => vec_eqb v (to_vec c)
  | ErrDim, None => true
  | _, _ => false
  end.

Definition check (c : case) : bool :=
  match c with
  | VecOps c1 c2 a af a1 a2 aself sf s1 s2 sself scf sci d12 d21 d11 n1 s =>
      let v1 := to_vec c1 in let v2 := to_vec c2 in
      ores_eqb (addvec v1 v2) af && ores_eqb (addvec v1 v2) a1 && ores_eqb (addvec v1 v2) a2
      && ores_eqb (addvec v1 v1) (Some aself)
      && ores_eqb (subvec v1 v2) sf && ores_eqb (subvec v1 v2) s1 && ores_eqb (subvec v1 v2) s2
      && ores_eqb (subvec v1 v1) (Some sself)
      && vec_eqb (@scalevec F64 a v1) (to_vec scf) && vec_eqb (@scalevec F64 a v1) (to_vec sci)
      && fbits_eqb (vecdot v1 v2) d12 && fbits_eqb (vecdot v2 v1) d21 && fbits_eqb (vecdot v1 v1) d11
      && fbits_eqb (norm2 v1) n1 && fbits_eqb (vsum v1) s
  | MulVecCase m v f i =>
      ores_eqb (mulvec (to_csm m) (to_vec v)) f && ores_eqb (mulvec (to_csm m) (to_vec v)) i
  | SumCase xs s n =>
      let v := @Build_vec F64 (length xs) (combine (seq 0 (length xs)) xs) in
      fbits_eqb (vsum v) s && fbits_eqb (norm2 v) n
  end.

(** ** oracle: the dense operations *)
Definition fden (l : list fentry) (i : nat) : float := @den F64 l i.
Definition fzero (x : float) : bool := PrimFloat.eqb x 0.
(** same bits, or both zeros *)
Definition feqb (x y : float) : bool := fbits_eqb x y || (fzero x && fzero y).
Definition finite (x : float) : bool := negb (f64_nonfinite x).

Definition dense_ok (r : vec F64) (d : nat) (f : nat -> float) : bool :=
  Nat.eqb (vdim r) d && wfvb r && forallb (fun i => feqb (fden (vents r) i) (f i)) (seq 0 d).

Definition elementwise_ok (o : ores) (v1 v2 : vec F64) (op : float -> float -> float) : bool :=
  match o with
  | Some r => Nat.eqb (vdim v1) (vdim v2)
              && dense_ok (to_vec r) (vdim v1) (fun i => op (fden (vents v1) i) (fden (vents v2) i))
  | None => negb (Nat.eqb (vdim v1) (vdim v2))
  end.

(** products of the matching dense elements, in index order *)
Definition dense_pairs (l1 l2 : list fentry) (d : nat) : list (float * float) :=
  flat_map (fun i => match lookup i l1, lookup i l2 with Some x, Some y => [(x, y)] | _, _ => [] end) (seq 0 d).
Definition dense_dot (l1 l2 : list fentry) (d : nat) : float :=
  @kbn_total F64 (map (fun p => PrimFloat.mul (fst p) (snd p)) (dense_pairs l1 l2 d)).

Definition all_finite (l : list fentry) : bool := forallb (fun p => finite (snd p)) l.

Definition holds (c : case) : bool :=
  match c with
  | VecOps c1 c2 a af a1 a2 aself sf s1 s2 sself scf sci d12 d21 d11 n1 s =>
      let v1 := to_vec c1 in let v2 := to_vec c2 in
      let d := Nat.max (vdim v1) (vdim v2) in
      elementwise_ok af v1 v2 PrimFloat.add && elementwise_ok a1 v1 v2 PrimFloat.add && elementwise_ok a2 v1 v2 PrimFloat.add
      && elementwise_ok (Some aself) v1 v1 PrimFloat.add
      && elementwise_ok sf v1 v2 PrimFloat.sub && elementwise_ok s1 v1 v2 PrimFloat.sub && elementwise_ok s2 v1 v2 PrimFloat.sub
      && elementwise_ok (Some sself) v1 v1 PrimFloat.sub
      && (negb (finite a && all_finite (vents v1))
          || (dense_ok (to_vec scf) (vdim v1) (fun i => PrimFloat.mul (fden (vents v1) i) a)
              && dense_ok (to_vec sci) (vdim v1) (fun i => PrimFloat.mul (fden (vents v1) i) a)))
      && fbits_eqb d12 d21
      && fbits_eqb d12 (dense_dot (vents v1) (vents v2) d)
      && fbits_eqb d11 (dense_dot (vents v1) (vents v1) d)
      && dot_bound_ok (dense_pairs (vents v1) (vents v2) d) d12
      && kbn_bound_ok (map snd (vents v1)) s
  | MulVecCase cm cv f i =>
      let m := to_csm cm in let v := to_vec cv in
      let sq := Nat.eqb (major m) (minor m) && Nat.eqb (major m) (vdim v) in
      let ok (o : ores) :=
        match o with
        | None => negb sq
        | Some r => sq && dense_ok (to_vec r) (major m)
                            (fun r0 => dense_dot (row m r0) (vents v) (major m))
                     && forallb (fun p => @nz F64 (snd p)) (vents (to_vec r))
        end in
      ok f && ok i
  | SumCase xs s n => kbn_bound_ok xs s
  end.

(** * C11 correspondence: Vector.Merge / CSMatrix.Merge histories. *)
From ET Require Import Corr.Common Proofs.SparseBase Proofs.MergeProofs.

Inductive case :=
| VecHist (v0 : cvec) (updates : list cvec) (observed : list (cvec * cvec))
    (* receiver after each Merge, argument after each Merge *)
| MatHist (m0 : cmat) (updates : list cmat) (observed : list (cmat * cmat))
| VecRebatch (v0 : cvec) (batchesA batchesB : list cvec) (finalA finalB : cvec)
| MatRebatch (m0 : cmat) (batchesA batchesB : list (N * N * list ccoo)) (finalA finalB : cmat).
(* VecRebatch / MatRebatch carry the raw (unsorted) batches handed to NewVector /
   NewCSRMatrix(..., includeZero = true); the model applies [new_vec] / [new_csr]. *)

(** ** model vs implementation: projected observables after every step *)
Fixpoint vec_hist_ok (v : vec F64) (us : list cvec) (os : list (cvec * cvec)) : bool :=
  match us, os with
  | [], [] => true
  | u :: us', (o, a) :: os' =>
      let '(v', arg) := vmerge v (to_vec u) in
      vec_obs_eqb v' (to_vec o) && vec_eqb arg (to_vec a) && vec_hist_ok v' us' os'
  | _, _ => false
  end.
Fixpoint mat_hist_ok (m : csm F64) (us : list cmat) (os : list (cmat * cmat)) : bool :=
  match us, os with
  | [], [] => true
  | u :: us', (o, a) :: os' =>
      let '(m', arg) := mmerge m (to_csm u) in
      csm_obs_eqb m' (to_csm o) && csm_eqb arg (to_csm a) && mat_hist_ok m' us' os'
  | _, _ => false
  end.
Definition vfinal (v : vec F64) (us : list cvec) : vec F64 :=
  fold_left (fun v u => fst (vmerge v (new_vec (vdim (to_vec u)) (vents (to_vec u))))) us v.
Definition mfinal (m : csm F64) (us : list (N * N * list ccoo)) : csm F64 :=
  fold_left (fun m u => fst (mmerge m (new_csr (N.to_nat (fst (fst u))) (N.to_nat (snd (fst u))) (to_coo (snd u)) true))) us m.

Definition check (c : case) : bool :=
  match c with
  | VecHist v0 us os => vec_hist_ok (to_vec v0) us os
  | MatHist m0 us os => mat_hist_ok (to_csm m0) us os
  | VecRebatch v0 a b fa fb =>
      vec_obs_eqb (vfinal (to_vec v0) a) (to_vec fa) && vec_obs_eqb (vfinal (to_vec v0) b) (to_vec fb)
  | MatRebatch m0 a b fa fb =>
      csm_obs_eqb (mfinal (to_csm m0) a) (to_csm fa) && csm_obs_eqb (mfinal (to_csm m0) b) (to_csm fb)
  end.

(** ** the property evaluated on the implementation's own outputs (oracle) *)
Definition optf_eqb := opt_eqb fbits_eqb.
Definition overlay_ok (prev upd out : list fentry) (d : nat) : bool :=
  forallb (fun i => optf_eqb (obs out i) (overlay (obs prev) upd i)) (seq 0 d).
Definition vstep_holds (prev u o a : vec F64) : bool :=
  Nat.eqb (vdim o) (Nat.max (vdim prev) (vdim u)) && wfvb o
  && overlay_ok (vents prev) (vents u) (vents o) (vdim o)
  && Nat.eqb (vdim a) 0 && Nat.eqb (length (vents a)) 0.
Fixpoint vhist_holds (prev : vec F64) (us : list cvec) (os : list (cvec * cvec)) : bool :=
  match us, os with
  | [], [] => true
  | u :: us', (o, a) :: os' => vstep_holds prev (to_vec u) (to_vec o) (to_vec a) && vhist_holds (to_vec o) us' os'
  | _, _ => false
  end.
Definition mstep_holds (prev u o a : csm F64) : bool :=
  Nat.eqb (major o) (Nat.max (major prev) (major u)) && Nat.eqb (minor o) (Nat.max (minor prev) (minor u)) && wfmb o
  && forallb (fun r => overlay_ok (row prev r) (row u r) (row o r) (minor o)) (seq 0 (major o))
  && Nat.eqb (major a) 0 && Nat.eqb (minor a) 0 && Nat.eqb (length (rows a)) 0.
Fixpoint mhist_holds (prev : csm F64) (us : list cmat) (os : list (cmat * cmat)) : bool :=
  match us, os with
  | [], [] => true
  | u :: us', (o, a) :: os' => mstep_holds prev (to_csm u) (to_csm o) (to_csm a) && mhist_holds (to_csm o) us' os'
  | _, _ => false
  end.
Definition holds (c : case) : bool :=
  match c with
  | VecHist v0 us os => vhist_holds (to_vec v0) us os
  | MatHist m0 us os => mhist_holds (to_csm m0) us os
  | VecRebatch _ _ _ fa fb => vec_obs_eqb (to_vec fa) (to_vec fb)
  | MatRebatch _ _ _ fa fb => csm_obs_eqb (to_csm fa) (to_csm fb)
  end.

(** * C06 correspondence: repeated / concurrent / differently scheduled runs are bit-identical. *)
From ET Require Export Corr.Common Corr.ComputeCase.
From ET Require Import Model.Basic Proofs.SparseBase.

Definition ores := option cvec.
Inductive case :=
| MulVecRuns (m : cmat) (v : cvec) (distinct : list ores) (runs : N) (inputs_same : bool)
    (* every distinct (result, error) observed over [runs] executions under varying GOMAXPROCS and load *)
| ComputeRuns (c : ccase) (other_distinct : N) (runs : N) (inputs_same : bool).
Arguments MulVecRuns m v distinct runs%N inputs_same.
Arguments ComputeRuns c other_distinct%N runs%N inputs_same.

Definition ores_eqb (m : res (vec F64)) (o : ores) : bool :=
  match m, o with
  | Ok v, Some c => vec_eqb v (to_vec c)
  | ErrDim, None => true
  | _, _ => false
  end.

Definition check (c : case) : bool :=
  match c with
  | MulVecRuns m v ds _ _ => forallb (ores_eqb (@mulvec F64 (to_csm m) (to_vec v))) ds
  | ComputeRuns cc od _ _ => compute_check cc && N.eqb od 0
  end.

(** oracle: one distinct outcome, inputs untouched, and for the product: the
    row-by-row sequential product in index order *)
Definition seq_product (m : csm F64) (v : vec F64) : list fentry :=
  filter (fun e => @nz F64 (snd e)) (map (fun r => (r, @vecdot F64 (row_vec m r) v)) (seq 0 (major m))).

Definition holds (c : case) : bool :=
  match c with
  | MulVecRuns cm cv ds _ same =>
      let m := to_csm cm in let v := to_vec cv in
      same && Nat.eqb (length ds) 1
      && forallb (fun o => match o with
                           | Some r => Nat.eqb (major m) (minor m) && Nat.eqb (major m) (vdim v)
                                       && ents_eqb (vents (to_vec r)) (seq_product m v) && sortedb (vents (to_vec r))
                           | None => negb (Nat.eqb (major m) (minor m) && Nat.eqb (major m) (vdim v))
                           end) ds
  | ComputeRuns _ od _ same => same && N.eqb od 0
  end.

(** * C20 correspondence: POST /calculate of the playground (gin engine loaded with the
    repository's templates) on generated upload sets vs the model of Model/Playground.v. *)
From Coq Require Import DecimalString String Ascii.
From ET Require Export Corr.Common Model.Basic Model.Csv Model.Playground Corr.C19.

Inductive chunch := CHAbsent | CHBad | CHVal (z : Z).
Definition to_hunch (h : chunch) : hunch := match h with CHAbsent => HAbsent | CHBad => HBad | CHVal z => HVal z end.

(** a row of the result table as rendered: name bytes (HTML-unescaped), score parsed back, bold *)
Record orow := ORow { o_name : name; o_score : float; o_bold : bool }.
Inductive opage := O200 (rows : list orow) (arcs : N) | O400 | OHang | OPanic.

(** [usable]: the generator built this upload well-formed by construction (complete records, known ids,
    numeric values, a confidence in 1..100 or none): the property promises a result page for it. *)
Inductive case := Calc (usable : bool) (names lt pt : option (@csvin F64)) (h : chunch) (fuel : N) (observed : opage).

Definition eps15 : float := 0x1.203af9ee75616p-50%float.     (* 1e-15 *)

Definition bytes_of_string (s : string) : name := map N_of_ascii (list_ascii_of_string s).
Definition dec (n : nat) : name := bytes_of_string (NilZero.string_of_uint (Nat.to_uint n)).
Definition render_name (p : pname) : name :=
  match p with Named n => n | Anon i => bytes_of_string "Peer " ++ dec i end.

Definition orow_eqb (a b : orow) : bool := name_eqb (o_name a) (o_name b) && fbits_eqb (o_score a) (o_score b) && Bool.eqb (o_bold a) (o_bold b).
Definition count (x : orow) (l : list orow) : nat := length (filter (orow_eqb x) l).
Definition multiset_eqb (a b : list orow) : bool :=
  Nat.eqb (length a) (length b) && forallb (fun x => Nat.eqb (count x a) (count x b)) a.

Definition model_page (c : case) : @page F64 :=
  match c with Calc _ names lt pt h fuel _ =>
    calculate (N.to_nat fuel) (eps15 : T F64) {| u_names := names; u_lt := lt; u_pt := pt; u_hunch := to_hunch h |} end.

Definition check (c : case) : bool :=
  match c with Calc _ _ _ _ _ _ obs =>
    match model_page c, obs with
    | PResult flags rows arcs, O200 orows oarcs =>
        multiset_eqb (map (fun r : @prow F64 => ORow (render_name (p_name r)) (p_score r : T F64) (nth (p_index r) flags false)) rows) orows
        && Nat.eqb arcs (N.to_nat oarcs)
    | P400 _, O400 => true
    | PHang, OHang => true
    | PCrash, OPanic => true
    | _, _ => false
    end
  end.

(** ** the property on the observed page alone *)
Fixpoint sorted_desc (l : list orow) : bool :=
  match l with
  | [] => true
  | a :: t => match t with [] => true | b :: _ => negb (PrimFloat.ltb (o_score a) (o_score b)) && sorted_desc t end
  end.
Definition names_of (c : case) : option (option (list name)) :=
  match c with Calc _ names _ _ _ _ _ =>
    match names with
    | None => Some None
    | Some f => match @read_peer_names F64 f with ROk ns => Some (Some ns) | RErr _ => None end
    end end.
(** the pre-trusted peers and the dimension, from the uploads *)
Definition max_index (names : option (list name)) (rs : list (list (@field F64))) (cols : nat) : nat :=
  fold_left (fun d r => fold_left (fun d f => match parse_peer_id names f with Some a => Nat.max d (Datatypes.S a) | None => d end) (firstn cols r) d) rs 0.
Definition expected_dim (names : option (list name)) (lt pt : @csvin F64) : nat :=
  match names with Some ns => length ns | None => Nat.max (max_index None (recs lt) 2) (max_index None (recs pt) 1) end.
Definition pretrusted (names : option (list name)) (pt : @csvin F64) (i : nat) : bool :=
  existsb (fun r => match r with f0 :: _ => match parse_peer_id names f0 with Some a => Nat.eqb a i | None => false end | [] => false end) (recs pt).
Definition expected_name (names : option (list name)) (i : nat) : name :=
  match names with Some ns => nth i ns [] | None => render_name (Anon i) end.
Definition fabs (x : float) := PrimFloat.abs x.
Definition no_negative (lt : @csvin F64) : bool :=
  forallb (fun r : list (@field F64) => match r with _ :: _ :: f2 :: _ => match @f_float F64 f2 with Some v => negb (PrimFloat.ltb v 0) | None => true end | _ => true end) (recs lt).

Definition holds (c : case) : bool :=
  match c with
  | Calc _ names (Some lt) (Some pt) h fuel (O200 rows arcs) =>
      match names_of c with
      | Some ns =>
          let d := expected_dim ns lt pt in
          (* every peer exactly once *)
          Nat.eqb (length rows) d &&
          forallb (fun i => Nat.eqb (length (filter (fun r => name_eqb (o_name r) (expected_name ns i)) rows))
                                    (length (filter (fun j => name_eqb (expected_name ns j) (expected_name ns i)) (seq 0 d)))) (seq 0 d) &&
          (* descending *)
          sorted_desc rows &&
          (* exactly the pre-trusted peers in bold *)
          forallb (fun i => forallb (fun r => if name_eqb (o_name r) (expected_name ns i) then Bool.eqb (o_bold r) (pretrusted ns pt i) else true) rows) (seq 0 d) &&
          (* a distribution when there is no distrust to discount *)
          (let total := fold_left PrimFloat.add (map o_score rows) 0%float in
           if no_negative lt then PrimFloat.leb (fabs (PrimFloat.sub total 1%float)) 0x1p-30%float
           else (* with distrust: every distruster's row is normalised, so the discounts take away at most the
                   whole mass: the scores still sum to something in [0, 1] *)
                PrimFloat.leb (-0x1p-30)%float total && PrimFloat.leb total (1 + 0x1p-30)%float)
      | None => false
      end
  | Calc _ _ _ _ _ _ (O200 _ _) => false             (* a result page without the two required files *)
  | Calc usable _ _ _ _ _ O400 => negb usable      (* a usable upload must not be refused *)
  | Calc _ _ _ _ h _ OHang => match h with CHVal 0%Z => true | _ => false end     (* confidence 0 is outside 1..100 *)
  | Calc _ _ _ _ _ _ OPanic => false
  end.

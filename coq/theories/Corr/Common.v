(** * Shared vocabulary of the correspondence check.

    The Go harness writes the inputs it fed to the implementation and the
    outputs it observed as terms of the types below; [check]/[holds] functions
    in Corr/Cxx.v evaluate the model on the same inputs with [vm_compute]. *)
From Coq Require Export List Arith Bool Floats ZArith NArith.
From ET Require Export Model.Scalar Model.Sparse.
Export ListNotations.

Definition ent := (N * float)%type.
Definition e (i : N) (x : float) : ent := (i, x).
Arguments e i%N x%float.

Record cvec := CV { cv_dim : N; cv_ents : list ent }.
Arguments CV cv_dim%N cv_ents%list.
Record cmat := CM { cm_major : N; cm_minor : N; cm_rows : list (list ent) }.
Arguments CM cm_major%N cm_minor%N cm_rows%list.
Definition ccoo := (N * N * float)%type.
Definition c3 (i j : N) (x : float) : ccoo := (i, j, x).
Arguments c3 i%N j%N x%float.

Definition fs (x : float) : option float := Some x.
Arguments fs x%float.
Definition zo (z : Z) : option Z := Some z.
Arguments zo z%Z.

Notation fentry := (nat * T F64)%type.
Definition to_ents (l : list ent) : list fentry := map (fun p => (N.to_nat (fst p), (snd p : T F64))) l.
Definition to_vec (v : cvec) : vec F64 := @Build_vec F64 (N.to_nat (cv_dim v)) (to_ents (cv_ents v)).
Definition to_csm (m : cmat) : csm F64 :=
  @Build_csm F64 (N.to_nat (cm_major m)) (N.to_nat (cm_minor m)) (map to_ents (cm_rows m)).
Definition to_coo (l : list ccoo) : list (coo F64) :=
  map (fun c => (N.to_nat (fst (fst c)), N.to_nat (snd (fst c)), snd c)) l.

(** ** comparison of observations *)
Definition fent_eqb (a b : fentry) : bool := Nat.eqb (fst a) (fst b) && fbits_eqb (snd a) (snd b).
Fixpoint list_eqb {A} (eq : A -> A -> bool) (l1 l2 : list A) : bool :=
  match l1, l2 with
  | [], [] => true
  | a :: t1, b :: t2 => eq a b && list_eqb eq t1 t2
  | _, _ => false
  end.
Definition ents_eqb : list fentry -> list fentry -> bool := list_eqb fent_eqb.

(** the non-zero content of a span: the projection compared for most properties *)
Definition nzc (l : list fentry) : list fentry := filter (fun p => @nz F64 (snd p)) l.
Definition ents_obs_eqb (l1 l2 : list fentry) : bool := ents_eqb (nzc l1) (nzc l2).
Definition vec_obs_eqb (a b : vec F64) : bool := Nat.eqb (vdim a) (vdim b) && ents_obs_eqb (vents a) (vents b).
Definition csm_obs_eqb (a b : csm F64) : bool :=
  Nat.eqb (major a) (major b) && Nat.eqb (minor a) (minor b) && list_eqb ents_obs_eqb (rows a) (rows b).
(** exact comparison (explicit zeros included), for value-level observables *)
Definition vec_eqb (a b : vec F64) : bool := Nat.eqb (vdim a) (vdim b) && ents_eqb (vents a) (vents b).
Definition csm_eqb (a b : csm F64) : bool :=
  Nat.eqb (major a) (major b) && Nat.eqb (minor a) (minor b) && list_eqb ents_eqb (rows a) (rows b).

Definition opt_eqb {A} (eq : A -> A -> bool) (a b : option A) : bool :=
  match a, b with Some x, Some y => eq x y | None, None => true | _, _ => false end.

(** strictly increasing, in-range indices *)
Fixpoint sortedb (l : list fentry) : bool :=
  match l with
  | [] => true
  | (i, _) :: t => match t with [] => true | (j, _) :: _ => (i <? j) && sortedb t end
  end.
Definition boundedb (d : nat) (l : list fentry) : bool := forallb (fun p => fst p <? d) l.
Definition wfvb (v : vec F64) : bool := sortedb (vents v) && boundedb (vdim v) (vents v).
Definition wfmb (m : csm F64) : bool :=
  Nat.eqb (length (rows m)) (major m) && forallb (fun r => sortedb r && boundedb (minor m) r) (rows m).

(** indices of the cases on which [f] is false *)
Fixpoint find_bad_from {A} (f : A -> bool) (l : list A) (k : N) : list N :=
  match l with
  | [] => []
  | a :: t => if f a then find_bad_from f t (k + 1)%N else k :: find_bad_from f t (k + 1)%N
  end.
Definition find_bad {A} (f : A -> bool) (l : list A) : list N := find_bad_from f l 0%N.

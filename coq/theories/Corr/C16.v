(** * C16 correspondence: gRPC trust matrix / trust vector stores. *)
From ET Require Export Corr.GrpcCase.

Inductive case :=
| GHist (requests : list cgreq) (responses : list cgresp)
| Qwords (qs : list N) (decoded_then_encoded : list N).   (* BigUint2Qwords(Qwords2BigUint(qs)) *)

Definition check (c : case) : bool :=
  match c with
  | GHist rs os => ghist_matches g0 rs os
  | Qwords qs o => list_eqb N.eqb (to_qwords (of_qwords qs)) o
  end.

(** ** oracle: last-writer-wins overlay of all updates since the last flush,
    timestamp = largest update timestamp since the last flush *)
Record acoll := { a_cells : list ((nat * nat) * float); a_ts : N }.    (* newest binding first; vectors use row 0 *)
Definition astate := (list (N * acoll) * list (N * acoll))%type.        (* matrices, vectors *)

Fixpoint cget (l : list (N * acoll)) (id : N) : option acoll :=
  match l with [] => None | (k, a) :: t => if N.eqb k id then Some a else cget t id end.
Fixpoint cdel (l : list (N * acoll)) (id : N) : list (N * acoll) :=
  match l with [] => [] | (k, a) :: t => if N.eqb k id then cdel t id else (k, a) :: cdel t id end.
Definition cset l id a := (id, a) :: cdel l id.

Fixpoint cell_get (c : list ((nat * nat) * float)) (i j : nat) : option float :=
  match c with [] => None | ((a, b), v) :: t => if Nat.eqb a i && Nat.eqb b j then Some v else cell_get t i j end.

Definition strip (qs : list N) : list N := (fix go l := match l with 0%N :: t => go t | _ => l end) qs.
Definition valid_idx (p : option Z) : bool := match p with Some z => (0 <=? z)%Z | None => false end.

(** the non-zero content of an abstract collection agrees with an observed entry list *)
Definition content_agrees (c : list ((nat * nat) * float)) (oes : list (nat * nat * float)) : bool :=
  forallb (fun e : nat * nat * float =>
             match cell_get c (fst (fst e)) (snd (fst e)) with
             | Some v => fbits_eqb v (snd e) && negb (PrimFloat.eqb v 0)
             | None => false end) oes
  && forallb (fun k : (nat * nat) * float =>
                match cell_get c (fst (fst k)) (snd (fst k)) with
                | Some v => PrimFloat.eqb v 0   (* erased: must not be listed *)
                            || Nat.eqb (length (filter (fun e : nat * nat * float => Nat.eqb (fst (fst e)) (fst (fst k)) && Nat.eqb (snd (fst e)) (snd (fst k))) oes)) 1
                | None => true end) c
  && (fix sorted (l : list (nat * nat * float)) : bool :=
        match l with
        | a :: ((b :: _) as t) => ((fst (fst a) <? fst (fst b)) || (Nat.eqb (fst (fst a)) (fst (fst b)) && (snd (fst a) <? snd (fst b)))) && sorted t
        | _ => true
        end) oes.

Definition distinct_m (es : list (option Z * option Z * float)) : bool :=
  (fix nd (l : list (option Z * option Z * float)) :=
     match l with [] => true
     | a :: t => negb (existsb (fun b => Z.eqb (zidx (fst (fst a))) (zidx (fst (fst b))) && Z.eqb (zidx (snd (fst a))) (zidx (snd (fst b)))) t) && nd t end) es.
Definition distinct_v (es : list (option Z * float)) : bool :=
  (fix nd (l : list (option Z * float)) :=
     match l with [] => true | a :: t => negb (existsb (fun b => Z.eqb (zidx (fst a)) (zidx (fst b))) t) && nd t end) es.

(** [None] = this history is outside the oracle's quantifier (duplicate coordinates in a batch) *)
Fixpoint ahist (st : astate) (rs : list cgreq) (os : list cgresp) : option bool :=
  match rs, os with
  | [], [] => Some true
  | r :: rs', o :: os' =>
      let '(ms, vs) := st in
      let continue st' ok := match ahist st' rs' os' with Some b => Some (ok && b) | None => None end in
      let status n := match o with RStatus c => N.eqb c n | _ => false end in
      match r with
      | CMCreate id => match cget ms id with
                       | Some _ => continue st (negb (status 0%N) && match o with RCreated _ => false | _ => true end)
                       | None => continue (cset ms id {| a_cells := []; a_ts := 0%N |}, vs) (match o with RCreated i => N.eqb i id | _ => false end) end
      | CMCreateAuto f => match cget ms f with
                          | Some _ => Some false      (* a created id must be fresh *)
                          | None => continue (cset ms f {| a_cells := []; a_ts := 0%N |}, vs) (match o with RCreated i => N.eqb i f | _ => false end) end
      | CVCreate id => match cget vs id with
                       | Some _ => continue st (negb (status 0%N) && match o with RCreated _ => false | _ => true end)
                       | None => continue (ms, cset vs id {| a_cells := []; a_ts := 0%N |}) (match o with RCreated i => N.eqb i id | _ => false end) end
      | CVCreateAuto f => match cget vs f with
                          | Some _ => Some false
                          | None => continue (ms, cset vs f {| a_cells := []; a_ts := 0%N |}) (match o with RCreated i => N.eqb i f | _ => false end) end
      | CMGet id => match cget ms id with
                    | None => continue st (status 5%N)
                    | Some a => continue st (match o with
                                             | RMatrix ts es => list_eqb N.eqb ts (strip ts) && N.eqb (of_qwords ts) (a_ts a)
                                                                && content_agrees (a_cells a) (map (fun e : N * N * float => (N.to_nat (fst (fst e)), N.to_nat (snd (fst e)), snd e)) es)
                                             | _ => false end) end
      | CVGet id => match cget vs id with
                    | None => continue st (status 5%N)
                    | Some a => continue st (match o with
                                             | RVector ts es => list_eqb N.eqb ts (strip ts) && N.eqb (of_qwords ts) (a_ts a)
                                                                && content_agrees (a_cells a) (map (fun e : ent => (0, N.to_nat (fst e), snd e)) es)
                                             | _ => false end) end
      | CMUpdate id ts es => match cget ms id with
                             | None => continue st (status 5%N)
                             | Some a =>
                                 if negb (distinct_m es) then None
                                 else if forallb (fun e : option Z * option Z * float => valid_idx (fst (fst e)) && valid_idx (snd (fst e))) es
                                 then continue (cset ms id {| a_cells := rev (map (fun e : option Z * option Z * float => ((Z.to_nat (zidx (fst (fst e))), Z.to_nat (zidx (snd (fst e)))), snd e)) es) ++ a_cells a;
                                                              a_ts := N.max (a_ts a) (of_qwords ts) |}, vs) (status 0%N)
                                 else continue st (negb (status 0%N))       (* refused: nothing changes *)
                             end
      | CVUpdate id ts es => match cget vs id with
                             | None => continue st (status 5%N)
                             | Some a =>
                                 if negb (distinct_v es) then None
                                 else if forallb (fun e : option Z * float => valid_idx (fst e)) es
                                 then continue (ms, cset vs id {| a_cells := rev (map (fun e : option Z * float => ((0, Z.to_nat (zidx (fst e))), snd e)) es) ++ a_cells a;
                                                                  a_ts := N.max (a_ts a) (of_qwords ts) |}) (status 0%N)
                                 else continue st (negb (status 0%N))
                             end
      | CMFlush id => match cget ms id with None => continue st (status 5%N) | Some _ => continue (cset ms id {| a_cells := []; a_ts := 0%N |}, vs) (status 0%N) end
      | CVFlush id => match cget vs id with None => continue st (status 5%N) | Some _ => continue (ms, cset vs id {| a_cells := []; a_ts := 0%N |}) (status 0%N) end
      | CMDelete id => match cget ms id with None => continue st (status 5%N) | Some _ => continue (cdel ms id, vs) (status 0%N) end
      | CVDelete id => match cget vs id with None => continue st (status 5%N) | Some _ => continue (ms, cdel vs id) (status 0%N) end
      | CCompute _ _ _ _ _ _ _ => None     (* C17's subject *)
      end
  | _, _ => Some false
  end.

Definition holds (c : case) : bool :=
  match c with
  | GHist rs os => match ahist ([], []) rs os with Some b => b | None => true end
  | Qwords qs o =>
      (* timestamps of any size survive the codec unchanged *)
      N.eqb (of_qwords o) (of_qwords qs) && list_eqb N.eqb o (strip o)
      && (negb (forallb (fun w => (w <? Q64)%N) qs) || list_eqb N.eqb o (strip qs))
  end.

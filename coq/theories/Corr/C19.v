(** * C19 correspondence: the CLI's request (--print-request), its output pass, and the
    library CSV readers, on generated CSV files. *)
From ET Require Import Corr.Common Model.Csv.
From ET Require Export Corr.CsvCase.

(** what --print-request printed: local trust entries and size, the optional vectors, peerIds *)
Record oreq := OR { or_lt : list ccoo; or_size : N; or_pt : option (list ent * N); or_it : option (list ent * N); or_ids : list name }.
Definition sv (es : list ent) (n : N) : option (list ent * N) := Some (es, n).
Arguments sv es%list n%N.

Inductive case1 :=
| CliReq (header raw : bool) (lt : @csvin F64) (pt it : option (@csvin F64)) (observed : option oreq)
| CliOut (raw : bool) (ids : list name) (response : list ent) (rows : list (option name * N * float))
    (* the output CSV: per row the name (None when it is not one of ids ... raw mode prints the index), the
       index printed in raw mode, the value as parsed back from the decimal text *)
| LibLT (names : option (list name)) (i : @csvin F64) (observed : option cmat)
| LibTV (names : option (list name)) (i : @csvin F64) (observed : option cvec)
| LibNames (i : @csvin F64) (observed : option (list name)).

Definition names_eqb (a b : list name) : bool := list_eqb name_eqb a b.
Definition coo_eqb (a : nat * nat * float) (b : ccoo) : bool :=
  Nat.eqb (fst (fst a)) (N.to_nat (fst (fst b))) && Nat.eqb (snd (fst a)) (N.to_nat (snd (fst b))) && fbits_eqb (snd a) (snd b).
Fixpoint list_eqb2 {A B} (eq : A -> B -> bool) (l1 : list A) (l2 : list B) : bool :=
  match l1, l2 with [], [] => true | a :: t1, b :: t2 => eq a b && list_eqb2 eq t1 t2 | _, _ => false end.
Definition ent_eqb (a : nat * float) (b : ent) : bool := Nat.eqb (fst a) (N.to_nat (fst b)) && fbits_eqb (snd a) (snd b).
Definition vload_eqb (v : option (@vec_load F64)) (o : option (list ent * N)) : bool :=
  match v, o with
  | Some l, Some (es, n) => list_eqb2 ent_eqb (vl_entries l) es && Nat.eqb (vl_size l) (N.to_nat n)
  | None, None => true
  | _, _ => false
  end.

Definition check1 (c : case1) : bool :=
  match c with
  | CliReq header raw lt pt it obs =>
      match build_request header raw lt pt it, obs with
      | ROk rq, Some o =>
          list_eqb2 coo_eqb (ml_entries (rq_local rq)) (or_lt o) && Nat.eqb (ml_size (rq_local rq)) (N.to_nat (or_size o)) &&
          vload_eqb (rq_pre rq) (or_pt o) && vload_eqb (rq_init rq) (or_it o) && names_eqb (rq_ids rq) (or_ids o)
      | RErr _, None => true
      | _, _ => false
      end
  | CliOut raw ids resp rows =>
      list_eqb2 (fun (e : ent) (row : option name * N * float) =>
                   match get_peer_id raw ids (N.to_nat (fst e)) with
                   | Some (IdName n) => match fst (fst row) with Some n' => name_eqb n n' | None => false end
                   | Some (IdRaw i) => Nat.eqb i (N.to_nat (snd (fst row)))
                   | None => false
                   end && fbits_eqb (snd e) (snd row)) resp rows
  | LibLT names i obs =>
      match read_local_trust names i, obs with
      | ROk m, Some o => csm_eqb m (to_csm o)
      | RErr _, None => true
      | _, _ => false
      end
  | LibTV names i obs =>
      match read_trust_vector names i, obs with
      | ROk v, Some o => vec_eqb v (to_vec o)
      | RErr _, None => true
      | _, _ => false
      end
  | LibNames i obs =>
      match read_peer_names i, obs with
      | ROk ns, Some o => names_eqb ns o
      | RErr _, None => true
      | _, _ => false
      end
  end.

(** ** the property on the implementation's own output *)
Fixpoint nodupb (l : list name) : bool :=
  match l with [] => true | x :: t => negb (existsb (name_eqb x) t) && nodupb t end.
Definition nth_name (ids : list name) (i : N) : option name := nth_error ids (N.to_nat i).
Definition oname_eqb := opt_eqb name_eqb.
Definition rvalue (tl : list ffield) : option float := match tl with [] => Some 1%float | f2 :: _ => f_float f2 end.
Definition ofl_eqb := opt_eqb fbits_eqb.
Definition ddata (i : @csvin F64) (header : bool) : list frecord := if header then tl (recs i) else recs i.

(** non-raw mode: entry k is record k, named through the final table; size = highest index + 1 *)
Definition lt_entries_ok (ids : list name) (es : list ccoo) (rs : list frecord) : bool :=
  list_eqb2 (fun (e : ccoo) (r : frecord) =>
    match r with
    | f0 :: f1 :: tl => oname_eqb (nth_name ids (fst (fst e))) (Some (f_raw f0)) && oname_eqb (nth_name ids (snd (fst e))) (Some (f_raw f1)) &&
                        ofl_eqb (rvalue tl) (Some (snd e))
    | _ => false
    end) es rs.
Definition vec_entries_ok (ids : list name) (es : list ent) (rs : list frecord) : bool :=
  list_eqb2 (fun (e : ent) (r : frecord) =>
    match r with
    | f0 :: tl => oname_eqb (nth_name ids (fst e)) (Some (f_raw f0)) && ofl_eqb (rvalue tl) (Some (snd e))
    | _ => false
    end) es rs.
Definition nmax (l : list N) : N := fold_left N.max l 0%N.
Definition ovec_holds (header : bool) (ids : list name) (i : option (@csvin F64)) (o : option (list ent * N)) : bool :=
  match i, o with
  | Some f, Some (es, n) => vec_entries_ok ids es (ddata f header) && N.eqb n (nmax (map (fun e => (fst e + 1)%N) es)) && N.leb n (N.of_nat (length ids))
  | None, None => true
  | _, _ => false
  end.
(** first appearance order: the table is the de-duplicated stream of names of the three files *)
Fixpoint dedup (seen : list name) (xs : list name) : list name :=
  match xs with [] => [] | x :: t => if existsb (name_eqb x) seen then dedup seen t else x :: dedup (x :: seen) t end.
Definition stream2 (rs : list frecord) : list name := flat_map (fun r => match r with f0 :: f1 :: _ => [f_raw f0; f_raw f1] | _ => [] end) rs.
Definition stream1 (rs : list frecord) : list name := flat_map (fun r => match r with f0 :: _ => [f_raw f0] | _ => [] end) rs.
Definition ostream (header : bool) (i : option (@csvin F64)) : list name := match i with Some f => stream1 (ddata f header) | None => [] end.

Fixpoint sortedb_weak (l : list fentry) : bool :=
  match l with [] => true | (i, _) :: t => match t with [] => true | (j, _) :: _ => (i <=? j) && sortedb_weak t end end.

Definition holds1 (c : case1) : bool :=
  match c with
  | CliReq header false lt pt it (Some o) =>
      nodupb (or_ids o) &&
      names_eqb (or_ids o) (dedup [] (stream2 (ddata lt header) ++ ostream header pt ++ ostream header it)) &&
      lt_entries_ok (or_ids o) (or_lt o) (ddata lt header) &&
      N.eqb (or_size o) (nmax (map (fun e => (N.max (fst (fst e)) (snd (fst e)) + 1)%N) (or_lt o))) &&
      ovec_holds header (or_ids o) pt (or_pt o) && ovec_holds header (or_ids o) it (or_it o)
  | CliReq header true lt pt it (Some o) =>
      (* raw mode: the indices are the literals *)
      list_eqb2 (fun (e : ccoo) (r : frecord) =>
        match r with
        | f0 :: f1 :: tl => opt_eqb Z.eqb (f_pint f0) (Some (Z.of_N (fst (fst e)))) && opt_eqb Z.eqb (f_pint f1) (Some (Z.of_N (snd (fst e)))) &&
                            ofl_eqb (rvalue tl) (Some (snd e))
        | _ => false end) (or_lt o) (ddata lt header) &&
      N.eqb (or_size o) (nmax (map (fun e => (N.max (fst (fst e)) (snd (fst e)) + 1)%N) (or_lt o)))
  | CliReq _ _ _ _ _ None => true       (* refusals: which inputs are refused is compared with the model by [check] *)
  | CliOut raw ids resp rows =>
      list_eqb2 (fun (e : ent) (row : option name * N * float) =>
                   (if raw then N.eqb (fst e) (snd (fst row)) else oname_eqb (nth_name ids (fst e)) (fst (fst row))) &&
                   fbits_eqb (snd e) (snd row)) resp rows
  | LibLT names i (Some o) =>
      (* exactly the listed arcs: every record's cell carries its level (0 levels not stored), nothing else is stored *)
      let m := to_csm o in
      clean_eof i && Nat.eqb (major m) (minor m) && wfmb m &&
      forallb (fun r => match r with
                        | f0 :: f1 :: tl =>
                            match parse_peer_id names f0, parse_peer_id names f1, rvalue tl with
                            | Some a, Some b, Some v => (a <? major m) && (b <? major m) &&
                                (if @nz F64 v then ofl_eqb (lookup b (row m a)) (Some v) else ofl_eqb (lookup b (row m a)) None)
                            | _, _, _ => false
                            end
                        | _ => false end) (recs i) &&
      Nat.eqb (mnnz m) (length (filter (fun r => match r with _ :: _ :: tl => match rvalue tl with Some v => @nz F64 v | None => false end | _ => false end) (recs i))) &&
      Nat.eqb (major m) (fold_left (fun d r => match r with
                                               | f0 :: f1 :: _ => match parse_peer_id names f0, parse_peer_id names f1 with
                                                                  | Some a, Some b => Nat.max d (Datatypes.S (Nat.max a b)) | _, _ => d end
                                               | _ => d end) (recs i) 0)
  | LibLT names i None =>
      negb (clean_eof i) ||
      existsb (fun r => match r with
                        | f0 :: f1 :: tl => match parse_peer_id names f0, parse_peer_id names f1, rvalue tl with Some _, Some _, Some _ => false | _, _, _ => true end
                        | _ => true end) (recs i)
  | LibTV names i (Some o) =>
      let v := to_vec o in
      clean_eof i && sortedb_weak (vents v) &&
      Nat.eqb (length (vents v)) (length (recs i)) &&
      forallb (fun r => match r with
                        | f0 :: tl => match parse_peer_id names f0, rvalue tl with
                                      | Some a, Some x => (a <? vdim v) && existsb (fun e => Nat.eqb (fst e) a && fbits_eqb (snd e) x) (vents v)
                                      | _, _ => false end
                        | _ => false end) (recs i) &&
      Nat.eqb (vdim v) (fold_left (fun d r => match r with f0 :: _ => match parse_peer_id names f0 with Some a => Nat.max d (Datatypes.S a) | None => d end | _ => d end) (recs i) 0)
  | LibTV names i None =>
      negb (clean_eof i) ||
      existsb (fun r => match r with f0 :: tl => match parse_peer_id names f0, rvalue tl with Some _, Some _ => false | _, _ => true end | _ => true end) (recs i)
  | LibNames i (Some o) =>
      clean_eof i && nodupb o && names_eqb o (map (fun r => match r with f :: _ => f_raw f | [] => [] end) (recs i))
  | LibNames i None =>
      negb (clean_eof i) || negb (nodupb (map (fun r => match r with f :: _ => f_raw f | [] => [] end) (recs i))) || existsb (fun r => match r with [] => true | _ => false end) (recs i)
  end.

Inductive case := One (c : case1) | Two (a b : case1).
Definition check (c : case) : bool := match c with One a => check1 a | Two a b => check1 a && check1 b end.
Definition holds (c : case) : bool := match c with One a => holds1 a | Two a b => holds1 a && holds1 b end.

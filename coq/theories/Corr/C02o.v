(** * C02 through the OpenAPI pipeline: the scores of an accepted compute form a distribution
    (requests without distrust: non-negative and summing to 1). *)
From ET Require Export Corr.OapiCase.
From ET Require Import Proofs.OapiSpec Model.Csv.

Inductive case :=
| ComputeReq (setup : list (N * cimat)) (q : creq) (resp_compute resp_stats : cresp) (stats : option cstats).

Definition check (c : case) : bool :=
  match c with
  | ComputeReq setup q rc rs so =>
      let m := oapi_compute 1500 default_eps (put_all setup) (to_req q) in
      resp_matches m rc && resp_matches m rs
  end.

Definition mat_nonneg (m : cimat) : bool := forallb (fun e : Z * Z * float => negb (PrimFloat.ltb (snd e) 0)) (cim_entries m).
Definition local_nonneg (setup : list (N * cimat)) (q : creq) : bool :=
  match cq_local q with
  | RInline m => mat_nonneg m
  | RStored id => forallb (fun p : N * cimat => negb (N.eqb (fst p) id) || mat_nonneg (snd p)) setup
  | ROther => true
  | RFile c => forallb (fun r : list (@Csv.field F64) => match r with [_; _; fv] => match @Csv.f_float F64 fv with Some v => negb (PrimFloat.ltb v 0) | None => true end | _ => true end) (Csv.recs c)
  end.
Definition fsum (l : list float) : float := fold_left PrimFloat.add l 0%float.
Definition scores_ok (nonneg : bool) (r : cresp) : bool :=
  match r with
  | C200 _ es =>
      (* with distrust the discount may take a score below zero (C08): no claim here *)
      negb nonneg ||
      (forallb (fun e : ent => PrimFloat.leb 0 (snd e)) es &&
       PrimFloat.leb (PrimFloat.abs (fsum (map snd es) - 1)) 0x1p-30)
  | _ => true
  end%float.
Definition holds (c : case) : bool :=
  match c with
  | ComputeReq setup q rc rs _ =>
      scores_ok (local_nonneg setup q) rc && scores_ok (local_nonneg setup q) rs
      (* an internal error only where the declarative specification has one (scores that are not finite) *)
      && match rc with C500 => resp_matches (oapi_spec 1500 default_eps (put_all setup) (to_req q)) C500 | _ => true end
  end.

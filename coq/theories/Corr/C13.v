(** * C13 correspondence: /local-trust/{id} histories. *)
From ET Require Export Corr.OapiCase.
From ET Require Import Proofs.OapiSpec.

Inductive case :=
| StoreHist (requests : list csreq) (responses : list csresp)
| Concurrent (clients ops : N) (linearizable : bool) (races : N).   (* judged by porcupine in the harness *)
Arguments Concurrent clients%N ops%N linearizable races%N.

Definition check (c : case) : bool :=
  match c with
  | StoreHist rs os => hist_matches [] rs os
  | Concurrent _ _ lin races => lin && N.eqb races 0
  end.

(** ** oracle: the abstract map, compared response by response *)
Definition body_distinct (r : csreq) : bool :=
  match r with
  | QPut _ (RInline m) _ =>
      let ks := map (fun e : Z * Z * float => (fst (fst e), snd (fst e))) (cim_entries m) in
      (fix nodup (l : list (Z * Z)) : bool :=
         match l with [] => true | a :: t => negb (existsb (fun b => Z.eqb (fst a) (fst b) && Z.eqb (snd a) (snd b)) t) && nodup t end) ks
  | _ => true
  end.

Definition body_agrees (n : nat) (c : @cells F64) (osz : Z) (oes : list (Z * Z * float)) : bool :=
  Z.eqb (Z.of_nat n) osz
  (* every returned entry is the current binding of its cell ... *)
  && forallb (fun e : Z * Z * float =>
                opt_eqb fbits_eqb (cell_get c (Z.to_nat (fst (fst e))) (Z.to_nat (snd (fst e)))) (Some (snd e))
                && (0 <=? fst (fst e))%Z && (0 <=? snd (fst e))%Z) oes
  (* ... every bound cell is returned exactly once ... *)
  && forallb (fun k : (nat * nat) * T F64 =>
                Nat.eqb (length (filter (fun e : Z * Z * float => Z.eqb (fst (fst e)) (Z.of_nat (fst (fst k))) && Z.eqb (snd (fst e)) (Z.of_nat (snd (fst k)))) oes)) 1) c
  (* ... in row-major order *)
  && (fix sorted (l : list (Z * Z * float)) : bool :=
        match l with
        | a :: ((b :: _) as t) => ((fst (fst a) <? fst (fst b))%Z || (Z.eqb (fst (fst a)) (fst (fst b)) && (snd (fst a) <? snd (fst b))%Z)) && sorted t
        | _ => true
        end) oes.

Definition aresp_matches (a : @aresp F64) (o : csresp) : bool :=
  match a, o with
  | A200, P200 | A201, P201 | A204, P204 | A404, P404 | A400, P400 => true
  | ABody n c, PBody osz oes inline => inline && body_agrees n c osz oes
  | _, _ => false
  end.
Fixpoint ahist_holds (st : @astore F64) (rs : list csreq) (os : list csresp) : bool :=
  match rs, os with
  | [], [] => true
  | r :: rs', o :: os' => let '(st', a) := aspec_step st (to_sreq r) in aresp_matches a o && ahist_holds st' rs' os'
  | _, _ => false
  end.

Definition holds (c : case) : bool :=
  match c with
  | StoreHist rs os => negb (forallb body_distinct rs) || ahist_holds (fun _ => None) rs os
  | Concurrent _ _ lin races => lin && N.eqb races 0
  end.

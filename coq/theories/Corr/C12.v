(** * C12 correspondence: histories of Mmap / Munmap / Merge / SetDim / Reset / Transpose / GC
    with injected faults, observed on the real process (row addresses, /proc/self/maps,
    TMPDIR listing) and replayed on the resource model. *)
From ET Require Import Corr.Common Model.Mm.

(** harness handles are creation indices; faults: 0 none, 1 TMPDIR missing, 4 cancellation at poll k *)
Inductive cop :=
| CMmap (h : N) (fault : N) (k : N)
| CMunmap (h : N)
| CMerge (h h2 : N)
| CSetMajor (h d : N)
| CSetMinor (h d : N)
| CReset (h : N)
| CTranspose (h : N)
| CNew (m : cmat)
| CDrop (h : N).

(** a row as observed: where its backing array is (0 heap, 1 inside the matrix' own mapping,
    2 inside some other csmatrix mapping), its entry offset there, its capacity, its entries *)
Record crow := CR { cr_kind : N; cr_off : N; cr_cap : N; cr_ents : list ent }.
Arguments CR cr_kind%N cr_off%N cr_cap%N cr_ents%list.
Record cobsmat := COM { com_h : N; com_major : N; com_minor : N; com_rows : list crow; com_mapped : option N }.
Arguments COM com_h%N com_major%N com_minor%N com_rows%list com_mapped.
Definition sn (n : N) : option N := Some n.
Arguments sn n%N.
(** after each operation: did it succeed, files in TMPDIR, csmatrix mappings of the process, every reachable matrix *)
Record cobs := CO { co_ok : bool; co_files : N; co_maps : N; co_mats : list cobsmat }.
Arguments CO co_ok co_files%N co_maps%N co_mats%list.

Inductive case := Hist (steps : list (cop * cobs)) (probe_ok : bool).

Notation msys := (@sys F64).
Notation mmat := (@mat F64).

Fixpoint hget (hm : list (N * nat)) (h : N) : option nat :=
  match hm with [] => None | (k, v) :: t => if N.eqb k h then Some v else hget t h end.
Definition hdel (hm : list (N * nat)) (h : N) : list (N * nat) := filter (fun p => negb (N.eqb (fst p) h)) hm.

Definition to_fault (f k : N) : fault :=
  match f with 0%N => NoFault | 1%N => CreateTempFails | 2%N => TruncateFails | 3%N => MmapFails | _ => CancelAtRow (N.to_nat k) end.

(** translate one harness operation; returns the model operation, the success flag the model
    predicts, and the handle table afterwards *)
Definition xlate (s : msys) (hm : list (N * nat)) (nh : N) (o : cop) : option (@op F64 * bool * list (N * nat) * N) :=
  match o with
  | CMmap h f k => match hget hm h with
                   | Some mh => match get (mats s) mh with
                                | Some m => Some (OMmap mh (to_fault f k), snd (mmap_op s m (to_fault f k)), hm, nh)
                                | None => None end
                   | None => None end
  | CMunmap h => match hget hm h with Some mh => Some (OMunmap mh, true, hm, nh) | None => None end
  | CMerge h h2 => match hget hm h, hget hm h2 with Some a, Some b => Some (OMerge a b, true, hm, nh) | _, _ => None end
  | CSetMajor h d => match hget hm h with Some mh => Some (OSetMajor mh (N.to_nat d), true, hm, nh) | None => None end
  | CSetMinor h d => match hget hm h with Some mh => Some (OSetMinor mh (N.to_nat d), true, hm, nh) | None => None end
  | CReset h => match hget hm h with Some mh => Some (OReset mh, true, hm, nh) | None => None end
  | CTranspose h => match hget hm h with Some mh => Some (OTranspose mh, true, (nh, next s) :: hm, (nh + 1)%N) | None => None end
  | CNew m => Some (ONew (to_csm m), true, (nh, next s) :: hm, (nh + 1)%N)
  | CDrop h => match hget hm h with Some mh => Some (ODrop mh, true, hdel hm h, nh) | None => None end
  end.

Definition row_matches (mp : option (nat * nat)) (rw : @mrow F64) (o : crow) : bool :=
  ents_eqb (r_ents rw) (to_ents (cr_ents o)) &&
  match r_ents rw with
  | [] => true
  | _ => match r_place rw with
         | Heap => N.eqb (cr_kind o) 0
         | Mapped r off cap =>
             match mp with
             | Some (r', _) => if Nat.eqb r r' then N.eqb (cr_kind o) 1 && Nat.eqb off (N.to_nat (cr_off o)) && Nat.eqb cap (N.to_nat (cr_cap o))
                               else N.eqb (cr_kind o) 2
             | None => N.eqb (cr_kind o) 2
             end
         end
  end.
Fixpoint list_eqb2 {A B} (eq : A -> B -> bool) (l1 : list A) (l2 : list B) : bool :=
  match l1, l2 with [], [] => true | a :: t1, b :: t2 => eq a b && list_eqb2 eq t1 t2 | _, _ => false end.
Definition mat_matches (m : mmat) (o : cobsmat) : bool :=
  Nat.eqb (m_major m) (N.to_nat (com_major o)) && Nat.eqb (m_minor m) (N.to_nat (com_minor o)) &&
  list_eqb2 (row_matches (m_mapped m)) (m_rows m) (com_rows o) &&
  opt_eqb Nat.eqb (option_map snd (m_mapped m)) (option_map N.to_nat (com_mapped o)).
Definition obs_matches (s : msys) (hm : list (N * nat)) (ok : bool) (o : cobs) : bool :=
  Bool.eqb ok (co_ok o) && Nat.eqb (length (files s)) (N.to_nat (co_files o)) && Nat.eqb (length (live s)) (N.to_nat (co_maps o)) &&
  Nat.eqb (length hm) (length (co_mats o)) &&
  forallb (fun om => match hget hm (com_h om) with
                     | Some mh => match get (mats s) mh with Some m => mat_matches m om | None => false end
                     | None => false end) (co_mats o).

Fixpoint run_check (s : msys) (hm : list (N * nat)) (nh : N) (steps : list (cop * cobs)) : bool :=
  match steps with
  | [] => true
  | (o, ob) :: t =>
      match xlate s hm nh o with
      | None => false
      | Some (mo, ok, hm', nh') => let s' := step s mo in obs_matches s' hm' ok ob && run_check s' hm' nh' t
      end
  end.
Definition check (c : case) : bool := match c with Hist steps _ => run_check init [] 0%N steps end.

(** ** the property evaluated on the observations alone (no resource model): the contents follow
    the pure matrix model with swap-out / swap-in / GC erased; no temp file; rows off-heap after a
    successful swap-out; failure leaves everything as it was; mappings = mapped matrices *)
Definition om_contents (o : cobsmat) : csm F64 :=
  @Build_csm F64 (N.to_nat (com_major o)) (N.to_nat (com_minor o)) (map (fun r => to_ents (cr_ents r)) (com_rows o)).
Fixpoint oget (l : list cobsmat) (h : N) : option cobsmat :=
  match l with [] => None | o :: t => if N.eqb (com_h o) h then Some o else oget t h end.
Definition same_contents (prev cur : list cobsmat) (except : list N) : bool :=
  forallb (fun o => existsb (N.eqb (com_h o)) except ||
                    match oget prev (com_h o) with Some p => csm_eqb (om_contents p) (om_contents o) | None => false end) cur.
Definition has_contents (cur : list cobsmat) (h : N) (c : csm F64) : bool :=
  match oget cur h with Some o => csm_eqb (om_contents o) c | None => false end.
Definition row_places (o : cobsmat) : list (N * N * N) :=
  map (fun r => match cr_ents r with [] => (0, 0, 0)%N | _ => (cr_kind r, cr_off r, cr_cap r) end) (com_rows o).
Definition places_eqb (a b : cobsmat) : bool :=
  list_eqb (fun x y => N.eqb (fst (fst x)) (fst (fst y)) && N.eqb (snd (fst x)) (snd (fst y)) && N.eqb (snd x) (snd y)) (row_places a) (row_places b)
  && opt_eqb N.eqb (com_mapped a) (com_mapped b).
Definition offheap (o : cobsmat) : bool :=
  match com_mapped o with
  | Some sz => forallb (fun r => match cr_ents r with [] => true
                                 | _ => N.eqb (cr_kind r) 1 && N.leb (cr_off r + N.of_nat (length (cr_ents r))) sz end) (com_rows o)
  | None => forallb (fun r => match cr_ents r with [] => true | _ => false end) (com_rows o)
  end.
Definition onheap (o : cobsmat) : bool :=
  match com_mapped o with None => forallb (fun r => match cr_ents r with [] => true | _ => N.eqb (cr_kind r) 0 end) (com_rows o) | Some _ => false end.
Definition count_mapped (l : list cobsmat) : nat := length (filter (fun o => match com_mapped o with Some _ => true | None => false end) l).
Definition onnz (o : cobsmat) : nat := fold_right (fun r n => length (cr_ents r) + n) 0 (com_rows o).

Definition step_holds (prev : cobs) (nh : N) (o : cop) (cur : cobs) : bool :=
  N.eqb (co_files cur) 0 && Nat.eqb (count_mapped (co_mats cur)) (N.to_nat (co_maps cur)) &&
  match o with
  | CMmap h f k =>
      same_contents (co_mats prev) (co_mats cur) [] && Nat.eqb (length (co_mats prev)) (length (co_mats cur)) &&
      match oget (co_mats prev) h, oget (co_mats cur) h with
      | Some p, Some c =>
          (if co_ok cur then offheap c
           else places_eqb p c && N.eqb (co_maps prev) (co_maps cur)) &&
          (* a swap-out without an injected fault on a matrix with entries succeeds *)
          (if N.eqb f 0 && negb (Nat.eqb (onnz p) 0) then co_ok cur else true)
      | _, _ => false
      end
  | CMunmap h =>
      same_contents (co_mats prev) (co_mats cur) [] && Nat.eqb (length (co_mats prev)) (length (co_mats cur)) &&
      match oget (co_mats cur) h with Some c => onheap c | None => false end
  | CDrop h =>
      same_contents (co_mats prev) (co_mats cur) [] && Nat.eqb (length (co_mats prev)) (Datatypes.S (length (co_mats cur))) &&
      match oget (co_mats cur) h with Some _ => false | None => true end
  | CMerge h h2 =>
      match oget (co_mats prev) h, oget (co_mats prev) h2 with
      | Some p, Some p2 =>
          same_contents (co_mats prev) (co_mats cur) [h; h2] && Nat.eqb (length (co_mats prev)) (length (co_mats cur)) &&
          has_contents (co_mats cur) h2 mempty &&
          (if N.eqb h h2 then true else has_contents (co_mats cur) h (fst (mmerge (om_contents p) (om_contents p2)))) &&
          match oget (co_mats cur) h2 with Some c2 => onheap c2 | None => false end
      | _, _ => false
      end
  | CSetMajor h d =>
      match oget (co_mats prev) h with
      | Some p => same_contents (co_mats prev) (co_mats cur) [h] && has_contents (co_mats cur) h (set_major (N.to_nat d) (om_contents p))
      | None => false end
  | CSetMinor h d =>
      match oget (co_mats prev) h with
      | Some p => same_contents (co_mats prev) (co_mats cur) [h] && has_contents (co_mats cur) h (set_minor (N.to_nat d) (om_contents p))
      | None => false end
  | CReset h =>
      same_contents (co_mats prev) (co_mats cur) [h] && has_contents (co_mats cur) h mempty &&
      match oget (co_mats cur) h with Some c => onheap c | None => false end
  | CTranspose h =>
      match oget (co_mats prev) h with
      | Some p => same_contents (co_mats prev) (co_mats cur) [nh] && has_contents (co_mats cur) nh (transpose (om_contents p))
      | None => false end
  | CNew m => same_contents (co_mats prev) (co_mats cur) [nh] && has_contents (co_mats cur) nh (to_csm m)
  end.
Definition creates (o : cop) : bool := match o with CTranspose _ | CNew _ => true | _ => false end.
Fixpoint run_holds (prev : cobs) (nh : N) (steps : list (cop * cobs)) : bool :=
  match steps with
  | [] => true
  | (o, ob) :: t => step_holds prev nh o ob && run_holds ob (if creates o then (nh + 1)%N else nh) t
  end.
Definition holds (c : case) : bool :=
  match c with Hist steps probe => probe && run_holds (CO true 0 0 []) 0%N steps end.

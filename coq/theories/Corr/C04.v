(** * C04 correspondence: Canonicalize, CanonicalizeLocalTrust, CanonicalizeTrustVector, scale invariance. *)
From ET Require Export Corr.Common.
From ET Require Import Corr.Exact Model.Basic Proofs.SparseBase.

Inductive case :=
| CanonSpan (l : list ent) (zero_sum : bool) (observed : list ent)        (* basic.Canonicalize *)
| CanonLT (m : cmat) (p : option cvec) (err : bool) (observed : cmat)     (* CanonicalizeLocalTrust(m, p) *)
| CanonTV (v : cvec) (observed : cvec)                                     (* CanonicalizeTrustVector *)
| Scaled (m : cmat) (p : cvec) (row_exps : list Z) (p_exp : Z)             (* rows/pre-trust scaled by powers of two *)
         (canon_m canon_m_scaled : cmat) (canon_p canon_p_scaled : cvec).

Definition check (c : case) : bool :=
  match c with
  | CanonSpan l z o =>
      match @canon F64 (to_ents l) with
      | Ok l' => negb z && ents_eqb l' (to_ents o)
      | ErrZeroSum => z && ents_eqb (to_ents l) (to_ents o)
      | _ => false
      end
  | CanonLT m p e o =>
      match @canon_lt F64 (to_csm m) (option_map to_vec p) with
      | Ok m' => negb e && csm_eqb m' (to_csm o)
      | ErrDim => e
      | _ => false
      end
  | CanonTV v o => vec_eqb (@canon_tv F64 (to_vec v)) (to_vec o)
  | Scaled m p _ _ cm cms cp cps =>
      match @canon_lt F64 (to_csm m) (Some (@canon_tv F64 (to_vec p))) with
      | Ok m' => csm_eqb m' (to_csm cm)
      | _ => false
      end && vec_eqb (@canon_tv F64 (to_vec p)) (to_vec cp)
  end.

(** ** oracle *)
Definition vals (l : list fentry) : list float := map snd l.
(** the entries sum to 1 within rounding: |Σ - 1| <= (n+2)·u, checked exactly *)
Definition sums_to_one (l : list fentry) : bool :=
  match zall (map zval (vals l)), zval 1%float with
  | Some zs, Some one => (Z.abs (zsum zs - one) * 2 ^ 53 <=? (Z.of_nat (length l) + 2) * one)%Z
  | _, _ => true
  end.
(** ratios preserved: x'_i * x_j ~ x'_j * x_i  (cross products agree to a few ulps) *)
Definition ratio_ok (x' x y' y : float) : bool :=
  match zprod x' y, zprod y' x with
  | Some a, Some b => (Z.abs (a - b) * 2 ^ 50 <=? Z.abs a + Z.abs b + 2 ^ 1200)%Z
  | _, _ => true
  end.
Definition ratios_ok (l l' : list fentry) : bool :=
  match l, l' with
  | (_, x) :: _, (_, x') :: _ =>
      forallb (fun p => ratio_ok x' x (snd (snd p)) (snd (fst p))) (combine l l')
  | _, _ => true
  end.
Definition same_idx (l l' : list fentry) : bool := list_eqb Nat.eqb (map fst l) (map fst l').
Definition all_fin (l : list fentry) : bool := forallb (fun p => negb (f64_nonfinite (snd p))) l.

Definition canon_ok (l l' : list fentry) : bool :=   (* l' is the canonical form of l *)
  same_idx l l' && (negb (all_fin l' && all_fin l) || (sums_to_one l' && ratios_ok l l')).
Definition exact_zero_sum (l : list fentry) : bool :=
  match zall (map zval (vals l)) with Some zs => (zsum zs =? 0)%Z | None => false end.

Definition holds (c : case) : bool :=
  match c with
  | CanonSpan l z o =>
      if z then ents_eqb (to_ents l) (to_ents o)                       (* reported zero sum: untouched *)
      else canon_ok (to_ents l) (to_ents o)
  | CanonLT cm cp e co =>
      let m := to_csm cm in let o := to_csm co in
      if e then negb (Nat.eqb (major m) (minor m)) || match cp with Some p => negb (Nat.eqb (N.to_nat (cv_dim p)) (major m)) | None => false end
      else
        Nat.eqb (major o) (major m) && Nat.eqb (minor o) (minor m) && Nat.eqb (length (rows o)) (length (rows m))
        && forallb (fun r =>
             let rin := row m r in let rout := row o r in
             if exact_zero_sum rin && negb (Nat.eqb (length rin) 0) || Nat.eqb (length rin) 0
             then match cp with
                  | Some p => ents_eqb rout (vents (to_vec p)) || (negb (exact_zero_sum rin) && canon_ok rin rout)
                  | None => ents_eqb rout rin || (negb (exact_zero_sum rin) && canon_ok rin rout)
                  end
             else canon_ok rin rout)
           (seq 0 (major m))
  | CanonTV cv co =>
      let v := to_vec cv in let o := to_vec co in
      Nat.eqb (vdim o) (vdim v)
      && (if exact_zero_sum (vents v) || Nat.eqb (length (vents v)) 0
          then (* uniform over all n indices *)
               (list_eqb Nat.eqb (map fst (vents o)) (seq 0 (vdim v))
                && forallb (fun p => fbits_eqb (snd p) (1 / f64_of_nat (vdim v))%float) (vents o))
               || (negb (exact_zero_sum (vents v)) && canon_ok (vents v) (vents o))
          else canon_ok (vents v) (vents o))
  | Scaled _ _ _ _ cm cms cp cps =>
      (* power-of-two factors: bit-identical canonical forms *)
      csm_eqb (to_csm cm) (to_csm cms) && vec_eqb (to_vec cp) (to_vec cps)
  end.

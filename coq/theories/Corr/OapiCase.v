(** * Shared correspondence vocabulary for the OpenAPI server (C03, C13, C14, C15). *)
From ET Require Export Corr.Common.
From ET Require Export Model.Basic Model.Oapi.
From ET Require Import Model.Csv.
From ET Require Export Corr.CsvCase.

Record cimat := CIM { cim_size : Z; cim_entries : list (Z * Z * float) }.
Arguments CIM cim_size%Z cim_entries.
Definition m3 (i j : Z) (x : float) : Z * Z * float := (i, j, x).
Arguments m3 i%Z j%Z x%float.
Record civec := CIV { civ_size : Z; civ_entries : list (Z * float) }.
Arguments CIV civ_size%Z civ_entries.
Definition v2 (i : Z) (x : float) : Z * float := (i, x).
Arguments v2 i%Z x%float.

Inductive cmref := RInline (m : cimat) | RStored (id : N) | ROther
| RFile (c : @Csv.csvin F64).      (* objectstorage file:// reference on a server with file references enabled: the CSV it names *)
Arguments RStored id%N.
Inductive cvref := VIn (v : civec) | VOth | VFile (c : @Csv.csvin F64).

Record creq := CQ { cq_local : cmref; cq_initial : option cvref; cq_pre : option cvref;
                    cq_alpha : option float; cq_eps : option float;
                    cq_ft : option Z; cq_nl : option Z; cq_mx : option Z; cq_mn : option Z; cq_fq : option Z }.

Definition to_imat (m : cimat) : inline_mat F64 := @Build_inline_mat F64 (cim_size m) (cim_entries m).
Definition to_ivec (v : civec) : inline_vec F64 := @Build_inline_vec F64 (civ_size v) (civ_entries v).
Definition to_mref (r : cmref) : mref F64 :=
  match r with RInline m => MInline (to_imat m) | RStored id => @MStored F64 (N.to_nat id) | ROther => @MObject F64 None
  | RFile c => @MObject F64 (Csv.load_csv_mat c) end.
Definition to_vref (r : cvref) : vref F64 := match r with VIn v => VInline (to_ivec v) | VOth => @VObject F64 None | VFile c => @VObject F64 (Csv.load_csv_vec c) end.
Definition to_req (q : creq) : Oapi.request F64 :=
  @Oapi.Build_request F64 (to_mref (cq_local q)) (option_map to_vref (cq_initial q)) (option_map to_vref (cq_pre q))
    (cq_alpha q) (cq_eps q) (cq_ft q) (cq_nl q) (cq_mx q) (cq_mn q) (cq_fq q).

(** Go: e := 1e-6 / float64(cDim) *)
Definition default_eps (n : nat) : T F64 := (0x1.0c6f7a0b5ed8dp-20 / f64_of_nat n)%float.

(** what the harness saw *)
Inductive cresp :=
| C200 (size : Z) (entries : list ent)                 (* scores: size and entries keyed by peer index *)
| C400 | C500 | CPanic | CHang
| COther (status : N).
Arguments C200 size%Z entries.
Arguments COther status%N.
Record cstats := CS { cs_len : Z; cs_thr : Z; cs_delta : float; cs_ranking : list N }.
Arguments CS cs_len%Z cs_thr%Z cs_delta%float cs_ranking.

Definition resp_matches (m : response F64) (o : cresp) : bool :=
  match m, o with
  | R200 t _ _, C200 sz es => Z.eqb (Z.of_nat (vdim t)) sz && ents_eqb (vents t) (to_ents es)
  | R400, C400 => true
  | R500, C500 => true
  | RPanic, CPanic => true
  | RHang, CHang => true
  | _, _ => false
  end.

Definition stats_match (m : response F64) (o : option cstats) : bool :=
  match m, o with
  | R200 t _ st, Some s =>
      negb (vdim t <=? 12)   (* see ComputeCase.obs_matches: pdqsort regime not modelled *)
      || (Z.eqb (Z.of_nat (ft_length st)) (cs_len s) && Z.eqb (Z.of_nat (ft_threshold st)) (cs_thr s)
          && fbits_eqb (ft_delta st) (cs_delta s)
          && match ft_ranking st with
             | Some r => list_eqb Nat.eqb r (map N.to_nat (cs_ranking s))
             | None => Nat.eqb (length (cs_ranking s)) 0
             end)
  | R200 _ _ _, None => false
  | _, _ => true
  end.

(** the store as built by a sequence of successful PUTs *)
Definition put_all (l : list (N * cimat)) : store F64 :=
  fold_left (fun st p => fst (store_step st (SPut (N.to_nat (fst p)) (MInline (to_imat (snd p))) false))) l [].

(** store requests / responses *)
Inductive csreq := QPut (id : N) (body : cmref) (merge : bool) | QGet (id : N) | QHead (id : N) | QDelete (id : N).
Arguments QPut id%N body merge. Arguments QGet id%N. Arguments QHead id%N. Arguments QDelete id%N.
Inductive csresp := P200 | P201 | P204 | P404 | P400 | PBody (size : Z) (entries : list (Z * Z * float)) (scheme_inline : bool) | POther (status : N).
Arguments PBody size%Z entries scheme_inline.
Arguments POther status%N.

Definition to_sreq (r : csreq) : sreq F64 :=
  match r with
  | QPut id b mg => SPut (N.to_nat id) (to_mref b) mg
  | QGet id => @SGet F64 (N.to_nat id)
  | QHead id => @SHead F64 (N.to_nat id)
  | QDelete id => @SDelete F64 (N.to_nat id)
  end.
Definition e3_eqb (a : nat * nat * T F64) (b : Z * Z * float) : bool :=
  Z.eqb (Z.of_nat (fst (fst a))) (fst (fst b)) && Z.eqb (Z.of_nat (snd (fst a))) (snd (fst b)) && fbits_eqb (snd a) (snd b).
Fixpoint list_eqb2 {A B} (eq : A -> B -> bool) (l1 : list A) (l2 : list B) : bool :=
  match l1, l2 with [], [] => true | a :: t1, b :: t2 => eq a b && list_eqb2 eq t1 t2 | _, _ => false end.
Definition sresp_matches (m : sresp F64) (o : csresp) : bool :=
  match m, o with
  | S200, P200 | S201, P201 | S204, P204 | S404, P404 | S400, P400 => true
  | SBody sz es, PBody osz oes _ => Z.eqb (Z.of_nat sz) osz && list_eqb2 e3_eqb es oes
  | _, _ => false
  end.
Fixpoint hist_matches (st : store F64) (rs : list csreq) (os : list csresp) : bool :=
  match rs, os with
  | [], [] => true
  | r :: rs', o :: os' => let '(st', m) := store_step st (to_sreq r) in sresp_matches m o && hist_matches st' rs' os'
  | _, _ => false
  end.

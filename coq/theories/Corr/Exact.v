(** * Exact integer arithmetic on binary64 values, for oracles that judge
    accuracy ("within the KBN bound", "sums to 1 within rounding").
    A finite float is an integer multiple of 2^EMIN; so is a product of two. *)
From Coq Require Import List Bool Floats ZArith Lia.
Import ListNotations.
Open Scope Z_scope.

Definition EMIN : Z := -2200.

Definition zval (x : float) : option Z :=
  match Prim2SF x with
  | S754_zero _ => Some 0
  | S754_finite s m e => Some ((if s then -1 else 1) * Zpos m * 2 ^ (e - EMIN))
  | _ => None
  end.

(** exact product of two finite floats, in units of 2^EMIN *)
Definition zprod (x y : float) : option Z :=
  match Prim2SF x, Prim2SF y with
  | S754_finite s1 m1 e1, S754_finite s2 m2 e2 =>
      Some ((if xorb s1 s2 then -1 else 1) * Zpos m1 * Zpos m2 * 2 ^ (e1 + e2 - EMIN))
  | S754_zero _, S754_finite _ _ _ | S754_finite _ _ _, S754_zero _ | S754_zero _, S754_zero _ => Some 0
  | _, _ => None
  end.

Fixpoint zall (l : list (option Z)) : option (list Z) :=
  match l with
  | [] => Some []
  | Some z :: t => match zall t with Some r => Some (z :: r) | None => None end
  | None :: _ => None
  end.

Definition zsum (l : list Z) : Z := fold_right Z.add 0 l.
Definition zasum (l : list Z) : Z := fold_right (fun z a => Z.abs z + a) 0 l.

(** |r - S| <= 2u|S| + c(n)·u²·Σ|x_i| + a few subnormal ulps, everything scaled by 2^106 *)
Definition within_bound (r : Z) (terms : list Z) (extraA : Z) : bool :=
  let S := zsum terms in
  let A := zasum terms in
  let n := Z.of_nat (length terms) in
  Z.abs (r - S) * 2 ^ 106 <=? 2 * 2 ^ 53 * Z.abs S + (4 * n * n + extraA) * A + (n + 2) * 2 ^ (1125 + 106).

(** the compensated sum [r] of the finite floats [xs]: true when some value is
    not finite (the bound is stated for runs without overflow) *)
Definition kbn_bound_ok (xs : list float) (r : float) : bool :=
  match zall (map zval xs), zval r with
  | Some zs, Some zr => within_bound zr zs 0
  | _, _ => true
  end.

(** a dot product: products are rounded once each (relative error u) before the
    compensated summation *)
Definition dot_bound_ok (xys : list (float * float)) (r : float) : bool :=
  match zall (map (fun p => zprod (fst p) (snd p)) xys), zval r with
  | Some zs, Some zr => within_bound zr zs (2 * 2 ^ 53)
  | _, _ => true
  end.

(** |r - S| <= k·u·Σ|terms| + subnormal slack: a value computed by at most
    about k roundings of partial results bounded by Σ|terms| *)
Definition approx_ok (r : float) (terms : list (option Z)) (k : Z) : bool :=
  match zall terms, zval r with
  | Some zs, Some zr =>
      Z.abs (zr - zsum zs) * 2 ^ 53 <=? k * zasum zs + (k + 2) * 2 ^ (1125 + 53)
  | _, _ => true
  end.
Definition zneg (z : option Z) : option Z := option_map Z.opp z.

(** * Vocabulary for CSV inputs in correspondence cases (C19, C20, C15 and file references of the OpenAPI families). *)
From ET Require Export Corr.Common.
From ET Require Import Model.Csv.

Definition nm (l : list nat) : name := map N.of_nat l.      (* bytes, written as small nat numerals *)
Notation ffield := (@field F64).
Definition fld (raw : name) (atoi pint : option Z) (fl : option float) : ffield := @F F64 raw atoi pint fl.
Notation frecord := (list ffield).
Definition csvf (rs : list frecord) (clean : bool) : @csvin F64 := @CSV F64 rs clean.


(** * Shared correspondence vocabulary for the gRPC services (C16, C17, C15). *)
From ET Require Export Corr.Common.
From ET Require Export Model.Basic Model.Grpc.

Definition pz (z : Z) : option Z := Some z.
Arguments pz z%Z.
Definition me (i j : option Z) (x : float) : option Z * option Z * float := (i, j, x).
Arguments me i j x%float.
Definition ve (i : option Z) (x : float) : option Z * float := (i, x).
Arguments ve i x%float.
Definition on (n : N) : option N := Some n.
Arguments on n%N.

Inductive cgreq :=
| CMCreate (id : N) | CMCreateAuto (fresh : N) | CMGet (id : N)
| CMUpdate (id : N) (ts_qwords : list N) (es : list (option Z * option Z * float)) | CMFlush (id : N) | CMDelete (id : N)
| CVCreate (id : N) | CVCreateAuto (fresh : N) | CVGet (id : N)
| CVUpdate (id : N) (ts_qwords : list N) (es : list (option Z * float)) | CVFlush (id : N) | CVDelete (id : N)
| CCompute (local : N) (pre : option N) (global : N) (positive : option N) (alpha eps : option float) (max_iterations : N).
Arguments CMCreate id%N. Arguments CMCreateAuto fresh%N. Arguments CMGet id%N. Arguments CMUpdate id%N ts_qwords es.
Arguments CMFlush id%N. Arguments CMDelete id%N. Arguments CVCreate id%N. Arguments CVCreateAuto fresh%N. Arguments CVGet id%N.
Arguments CVUpdate id%N ts_qwords es. Arguments CVFlush id%N. Arguments CVDelete id%N.
Arguments CCompute local%N pre global%N positive alpha eps max_iterations%N.

Inductive cgresp :=
| RStatus (code : N)                      (* grpc codes: 0 OK, 2 Unknown, 3 InvalidArgument, 5 NotFound, 13 Internal, 14 Unavailable *)
| RCreated (id : N)
| RMatrix (ts_qwords : list N) (es : list (N * N * float))
| RVector (ts_qwords : list N) (es : list ent)
| RPanicked.
Arguments RStatus code%N. Arguments RCreated id%N.
Definition g3 (i j : N) (x : float) : N * N * float := (i, j, x).
Arguments g3 i%N j%N x%float.

Definition code_n (c : gcode) : N :=
  match c with GOk => 0 | GUnknown => 2 | GInvalidArgument => 3 | GNotFound => 5 | GAlreadyExists => 6 | GInternal => 13 | GUnavailable => 14 end%N.

Definition default_eps (n : nat) : T F64 := (0x1.0c6f7a0b5ed8dp-20 / f64_of_nat n)%float.

Definition e3n_eqb (a : nat * nat * T F64) (b : N * N * float) : bool :=
  N.eqb (N.of_nat (fst (fst a))) (fst (fst b)) && N.eqb (N.of_nat (snd (fst a))) (snd (fst b)) && fbits_eqb (snd a) (snd b).
Fixpoint list_eqb2 {A B} (eq : A -> B -> bool) (l1 : list A) (l2 : list B) : bool :=
  match l1, l2 with [], [] => true | a :: t1, b :: t2 => eq a b && list_eqb2 eq t1 t2 | _, _ => false end.

Definition gresp_matches (m : gresp F64) (o : cgresp) : bool :=
  match m, o with
  | GStatus c, RStatus n => N.eqb (code_n c) n
  | GCreated id, RCreated oid => N.eqb (N.of_nat id) oid
  | GMatrix ts es, RMatrix ots oes => list_eqb N.eqb ts ots && list_eqb2 e3n_eqb es oes
  | GVector ts es, RVector ots oes => list_eqb N.eqb ts ots && ents_eqb es (to_ents oes)
  | _, _ => false
  end.

(** one request against the model state *)
Definition gmodel_step (fuel : nat) (s : gstate F64) (r : cgreq) : gstate F64 * gresp F64 :=
  let n := N.to_nat in
  match r with
  | CMCreate id => gstep s (@MCreate F64 (Some (n id)) 0)
  | CMCreateAuto f => gstep s (@MCreate F64 None (n f))
  | CMGet id => gstep s (@MGet F64 (n id))
  | CMUpdate id ts es => gstep s (@MUpdate F64 (n id) (of_qwords ts) es)
  | CMFlush id => gstep s (@MFlush F64 (n id))
  | CMDelete id => gstep s (@MDelete F64 (n id))
  | CVCreate id => gstep s (@VCreate F64 (Some (n id)) 0)
  | CVCreateAuto f => gstep s (@VCreate F64 None (n f))
  | CVGet id => gstep s (@VGet F64 (n id))
  | CVUpdate id ts es => gstep s (@VUpdate F64 (n id) (of_qwords ts) es)
  | CVFlush id => gstep s (@VFlush F64 (n id))
  | CVDelete id => gstep s (@VDelete F64 (n id))
  | CCompute l p g pos a e mx =>
      let '(s', c) := basic_compute fuel default_eps s
                        (@Build_bc_params F64 (n l) (option_map n p) (n g) (option_map n pos) a e mx) in
      (s', GStatus c)
  end.

Fixpoint ghist_matches (s : gstate F64) (rs : list cgreq) (os : list cgresp) : bool :=
  match rs, os with
  | [], [] => true
  | r :: rs', o :: os' => let '(s', m) := gmodel_step 1500 s r in gresp_matches m o && ghist_matches s' rs' os'
  | _, _ => false
  end.

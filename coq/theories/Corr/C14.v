(** * C14 correspondence: compute never alters stored inputs; stored = inline. *)
From ET Require Export Corr.OapiCase.
From ET Require Import Proofs.OapiSpec.

Inductive case :=
| StoredVsInline (setup : list (N * cimat)) (q_stored q_inline : creq)
    (resp_stored resp_inline : cresp) (get_before get_after : list csresp)
    (* GET of every stored id before and after the two computes *)
| ConcurrentCompute (clients ops : N) (each_equals_some_version : bool) (store_unchanged : bool) (races : N).
Arguments ConcurrentCompute clients%N ops%N each_equals_some_version store_unchanged races%N.

Definition resp_eqb (a b : cresp) : bool :=
  match a, b with
  | C200 s1 e1, C200 s2 e2 => Z.eqb s1 s2 && ents_eqb (to_ents e1) (to_ents e2)
  | C400, C400 | C500, C500 | CPanic, CPanic | CHang, CHang => true
  | COther x, COther y => N.eqb x y
  | _, _ => false
  end.
Definition sresp_eqb (a b : csresp) : bool :=
  match a, b with
  | P200, P200 | P201, P201 | P204, P204 | P404, P404 | P400, P400 => true
  | PBody s1 e1 i1, PBody s2 e2 i2 =>
      Z.eqb s1 s2 && Bool.eqb i1 i2
      && list_eqb (fun x y : Z * Z * float => Z.eqb (fst (fst x)) (fst (fst y)) && Z.eqb (snd (fst x)) (snd (fst y)) && fbits_eqb (snd x) (snd y)) e1 e2
  | POther x, POther y => N.eqb x y
  | _, _ => false
  end.

Definition check (c : case) : bool :=
  match c with
  | StoredVsInline setup qs qi rs ri gb ga =>
      let st := put_all setup in
      resp_matches (oapi_compute 1500 default_eps st (to_req qs)) rs
      && resp_matches (oapi_compute 1500 default_eps st (to_req qi)) ri
      && hist_matches st (map (fun p => QGet (fst p)) setup) gb
      && hist_matches st (map (fun p => QGet (fst p)) setup) ga
  | ConcurrentCompute _ _ a b r => a && b && N.eqb r 0
  end.

Definition holds (c : case) : bool :=
  match c with
  | StoredVsInline _ _ _ rs ri gb ga => resp_eqb rs ri && list_eqb sresp_eqb gb ga
  | ConcurrentCompute _ _ a b r => a && b && N.eqb r 0
  end.

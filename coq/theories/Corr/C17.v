(** * C17 correspondence: gRPC BasicCompute. *)
From ET Require Export Corr.GrpcCase.
From ET Require Import Model.Oapi Proofs.OapiSpec.

(** one BasicCompute embedded in a history (creates, updates, Gets before, the
    compute, Gets after), plus what the harness knows about the collections *)
Record bcinfo := BI {
  bi_lt_dim : N; bi_lt : list (N * N * float); bi_lt_ts : N;
  bi_pt : option (N * list ent * N);                       (* dim, entries, timestamp *)
  bi_gt_dim : N; bi_gt_before : list ent; bi_gt_ts : N;
  bi_pos : option (list ent * N);                          (* positive-only vector before: entries, timestamp *)
  bi_alpha : option float; bi_eps : option float; bi_max : N;
  bi_status : N;
  bi_lt_after : list (N * N * float); bi_lt_ts_after : N;
  bi_pt_after : option (list ent * N);
  bi_gt_after : list ent; bi_gt_ts_after : N;
  bi_pos_after : option (list ent * N) }.

Inductive case := BCHist (requests : list cgreq) (responses : list cgresp) (info : option bcinfo).

Definition check (c : case) : bool := match c with BCHist rs os _ => ghist_matches g0 rs os end.

Definition e3_same (a b : N * N * float) : bool := N.eqb (fst (fst a)) (fst (fst b)) && N.eqb (snd (fst a)) (snd (fst b)) && fbits_eqb (snd a) (snd b).
Definition ent_same (a b : ent) : bool := N.eqb (fst a) (fst b) && fbits_eqb (snd a) (snd b).
Definition all_pos (l : list ent) : bool := forallb (fun e => PrimFloat.ltb 0 (snd e)) l.

Definition holds (c : case) : bool :=
  match c with
  | BCHist _ _ None => true
  | BCHist _ _ (Some b) =>
      (* local trust and pre-trust are left unchanged, whatever the outcome *)
      list_eqb e3_same (bi_lt b) (bi_lt_after b) && N.eqb (bi_lt_ts b) (bi_lt_ts_after b)
      && match bi_pt b, bi_pt_after b with
         | Some (_, es, ts), Some (es', ts') => list_eqb ent_same es es' && N.eqb ts ts'
         | None, None => true | _, _ => false end
      && if N.eqb (bi_status b) 0 then
           (* provenance: stamped with the newest input timestamp, never lowered *)
           let tin := N.max (bi_lt_ts b) (N.max (match bi_pt b with Some (_, _, t) => t | None => 0%N end) (bi_gt_ts b)) in
           N.eqb (bi_gt_ts_after b) tin
           && match bi_pos b, bi_pos_after b with
              | Some (_, t), Some (_, t') => N.eqb t' (N.max t tin)
              | None, None => true | _, _ => false end
           (* scores: the OpenAPI specification on the same inputs, warm-started from the previous global trust *)
           && (let applicable := all_pos (match bi_pt b with Some (_, es, _) => es | None => [] end) && all_pos (bi_gt_before b)
                                 && (0 <? bi_lt_dim b)%N in
               negb applicable
               || let q := @Build_request F64
                              (MInline (@Build_inline_mat F64 (Z.of_N (bi_lt_dim b)) (map (fun e : N * N * float => (Z.of_N (fst (fst e)), Z.of_N (snd (fst e)), snd e)) (bi_lt b))))
                              (Some (VInline (@Build_inline_vec F64 (Z.of_N (bi_gt_dim b)) (map (fun e : ent => (Z.of_N (fst e), snd e)) (bi_gt_before b)))))
                              (match bi_pt b with
                               | Some (d, es, _) => Some (VInline (@Build_inline_vec F64 (Z.of_N d) (map (fun e : ent => (Z.of_N (fst e), snd e)) es)))
                               | None => None end)
                              (bi_alpha b) (bi_eps b) None None (if N.eqb (bi_max b) 0 then None else Some (Z.of_N (bi_max b))) None None in
                  match oapi_spec 1500 default_eps [] q with
                  | R200 t _ _ => ents_eqb (filter (fun p => @nz F64 (snd p)) (vents t)) (to_ents (bi_gt_after b))
                  | _ => false
                  end)
           (* the positive-only vector receives the undiscounted scores: a distribution (C02), whatever distrust
              the local trust carries (discounted scores would sum to less than 1 or go negative) *)
           && (let applicable := all_pos (match bi_pt b with Some (_, es, _) => es | None => [] end) && all_pos (bi_gt_before b)
                                 && (0 <? bi_lt_dim b)%N in
               negb applicable
               || match bi_pos_after b with
                  | Some (es', _) =>
                      forallb (fun e : ent => PrimFloat.leb 0 (snd e)) es'
                      && PrimFloat.leb (PrimFloat.abs (PrimFloat.sub (fold_left PrimFloat.add (map snd es') 0%float) 1%float)) 0x1p-30%float
                  | None => true
                  end)
         else
           (* refused: nothing is written *)
           list_eqb ent_same (bi_gt_before b) (bi_gt_after b) && N.eqb (bi_gt_ts b) (bi_gt_ts_after b)
           && match bi_pos b, bi_pos_after b with
              | Some (es, t), Some (es', t') => list_eqb ent_same es es' && N.eqb t t'
              | None, None => true | _, _ => false end
  end.

(** * C08 correspondence: ExtractDistrust and DiscountTrustVector. *)
From ET Require Export Corr.Common.
From ET Require Import Corr.Exact Model.Basic Proofs.SparseBase.

Inductive case :=
| Extract (m : cmat) (observed : option (cmat * cmat))   (* (what is left in the argument, the returned distrust) or an error *)
| Discount (t : cvec) (d : cmat) (observed : option cvec).

Definition check (c : case) : bool :=
  match c with
  | Extract m o =>
      match @extract_distrust F64 (to_csm m), o with
      | Ok (P, D), Some (oP, oD) => csm_eqb P (to_csm oP) && csm_eqb D (to_csm oD)
      | ErrDim, None => true
      | _, _ => false
      end
  | Discount t d o =>
      match @discount F64 (to_vec t) (to_csm d), o with
      | Ok r, Some ot => vec_eqb r (to_vec ot)
      | ErrDim, None => true
      | _, _ => false
      end
  end.

(** ** oracle *)
Definition fzero (x : float) : bool := PrimFloat.eqb x 0.
Definition feqb (x y : float) : bool := fbits_eqb x y || (fzero x && fzero y).
Definition optf_eqb := opt_eqb fbits_eqb.
Definition all_cells (nr nc : nat) (f : nat -> nat -> bool) : bool :=
  forallb (fun r => forallb (fun c => f r c) (seq 0 nc)) (seq 0 nr).

Definition holds (c : case) : bool :=
  match c with
  | Extract cm o =>
      let m := to_csm cm in
      match o with
      | None => negb (Nat.eqb (major m) (minor m))
      | Some (cP, cD) =>
          let P := to_csm cP in let D := to_csm cD in
          Nat.eqb (major m) (minor m) && wfmb P && wfmb D
          && Nat.eqb (major P) (major m) && Nat.eqb (minor P) (minor m)
          && Nat.eqb (major D) (major m) && Nat.eqb (minor D) (major m)
          && all_cells (major m) (minor m) (fun r c =>
               match lookup c (row m r), lookup c (row P r), lookup c (row D r) with
               | None, None, None => true
               | Some x, Some y, None => PrimFloat.leb 0 x && fbits_eqb x y           (* kept as trust, unchanged *)
               | Some x, None, Some z => negb (PrimFloat.leb 0 x) && fbits_eqb z (- x)%float
                                         && (PrimFloat.ltb 0 z || PrimFloat.is_nan z)  (* strictly positive distrust *)
               | _, _, _ => false                                                        (* supports not disjoint / cell lost *)
               end)
      end
  | Discount ct cd o =>
      let t := to_vec ct in let d := to_csm cd in
      match o with
      | None => false
      | Some cr =>
          let r := to_vec cr in
          Nat.eqb (vdim r) (vdim t) && wfvb r
          && forallb (fun j =>
               approx_ok (@den F64 (vents r) j)
                 (zval (@den F64 (vents t) j)
                  :: map (fun i => zneg (zprod (@den F64 (vents t) i) (@den F64 (row d i) j))) (seq 0 (vdim t)))
                 (2 * Z.of_nat (vdim t) + 4))
             (seq 0 (vdim t))
      end
  end.

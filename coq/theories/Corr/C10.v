(** * C10 correspondence: NewCSRMatrix, Transpose, views, resize histories. *)
From ET Require Import Corr.Common Proofs.SparseBase Proofs.MergeProofs Proofs.MatrixProofs.

Inductive cop :=
| CSetDim (r c : N) | CSetMajor (d : N) | CSetMinor (d : N) | CTranspose | CMerge (b : cmat)
| CViaCSCSetDim (r c : N)      (* v := m.TransposeToCSC(); v.SetDim(r, c); m = v.TransposeToCSR() *)
| CViaCSCTranspose.            (* v := m.TransposeToCSC(); vt := v.Transpose(); m = vt.TransposeToCSR() *)

(** observation after a step: the CSR matrix, NNZ, and Dims() of its CSC view *)
Record step_obs := SO { so_m : cmat; so_nnz : N; so_view_rows : N; so_view_cols : N }.
Arguments SO so_m so_nnz%N so_view_rows%N so_view_cols%N.

Inductive case :=
| NewCSR (nr nc : N) (es : list ccoo) (include_zero : bool) (observed : cmat) (nnz : N)
| OpsHist (m0 : cmat) (ops : list cop) (observed : list step_obs).

Definition model_op (m : csm F64) (o : cop) : csm F64 :=
  match o with
  | CSetDim r c => set_dim (N.to_nat r) (N.to_nat c) m
  | CSetMajor d => set_major (N.to_nat d) m
  | CSetMinor d => set_minor (N.to_nat d) m
  | CTranspose => transpose m
  | CMerge b => fst (mmerge m (to_csm b))
  | CViaCSCSetDim r c => set_minor (N.to_nat r) (set_major (N.to_nat c) m)
  | CViaCSCTranspose => transpose m
  end.

Definition step_ok (m : csm F64) (o : step_obs) : bool :=
  csm_obs_eqb m (to_csm (so_m o))
  && Nat.eqb (fst (csc_dims m)) (N.to_nat (so_view_rows o)) && Nat.eqb (snd (csc_dims m)) (N.to_nat (so_view_cols o)).

Fixpoint hist_ok (m : csm F64) (ops : list cop) (os : list step_obs) : bool :=
  match ops, os with
  | [], [] => true
  | o :: ops', ob :: os' => let m' := model_op m o in step_ok m' ob && hist_ok m' ops' os'
  | _, _ => false
  end.

Definition check (c : case) : bool :=
  match c with
  | NewCSR nr nc es z o n =>
      let m := new_csr (N.to_nat nr) (N.to_nat nc) (to_coo es) z in
      csm_eqb m (to_csm o) && Nat.eqb (mnnz m) (N.to_nat n)
  | OpsHist m0 ops os => hist_ok (to_csm m0) ops os
  end.

(** ** oracle: the dense counterparts, evaluated on the implementation's outputs *)
Definition optf_eqb := opt_eqb fbits_eqb.
Definition all_cells (nr nc : nat) (f : nat -> nat -> bool) : bool :=
  forallb (fun r => forallb (fun c => f r c) (seq 0 nc)) (seq 0 nr).

Definition dense_op (a : @dense F64) (o : cop) : @dense F64 :=
  match o with
  | CSetDim r c => dense_apply a (OSetDim (N.to_nat r) (N.to_nat c))
  | CSetMajor d => dense_apply a (OSetMajor (N.to_nat d))
  | CSetMinor d => dense_apply a (OSetMinor (N.to_nat d))
  | CTranspose | CViaCSCTranspose => dense_apply a OTranspose
  | CMerge b => dense_apply a (OMerge (to_csm b))
  | CViaCSCSetDim r c => dense_apply a (OSetDim (N.to_nat c) (N.to_nat r))
  end.

(** the observed matrix is well-formed (one span per row, strictly increasing
    column indices within the current dimension) and its non-zero content is
    that of the dense reference; the CSC view reports the transposed shape *)
Definition dense_matches (a : @dense F64) (o : step_obs) : bool :=
  let m := to_csm (so_m o) in
  Nat.eqb (major m) (dmajor a) && Nat.eqb (minor m) (dminor a) && wfmb m
  && all_cells (major m) (minor m) (fun r c => optf_eqb (obs (row m r) c) (nzcell a r c))
  && Nat.eqb (N.to_nat (so_view_rows o)) (dminor a) && Nat.eqb (N.to_nat (so_view_cols o)) (dmajor a)
  && Nat.eqb (mnnz m) (N.to_nat (so_nnz o)).

Fixpoint hist_holds (a : @dense F64) (ops : list cop) (os : list step_obs) : bool :=
  match ops, os with
  | [], [] => true
  | o :: ops', ob :: os' => let a' := dense_op a o in dense_matches a' ob && hist_holds a' ops' os'
  | _, _ => false
  end.

Definition holds (c : case) : bool :=
  match c with
  | NewCSR nr nc es z o n =>
      let m := to_csm o in
      let es' := to_coo es in
      Nat.eqb (major m) (N.to_nat nr) && Nat.eqb (minor m) (N.to_nat nc) && wfmb m
      && all_cells (major m) (minor m) (fun r c =>
           optf_eqb (lookup c (row m r))
             (match coo_lookup r c es' with Some x => if z || @nz F64 x then Some x else None | None => None end))
      && Nat.eqb (mnnz m) (N.to_nat n)
      && Nat.eqb (mnnz m) (length (filter (fun c : coo F64 => z || nz (coo_val c)) es'))
  | OpsHist m0 ops os => hist_holds (abs (to_csm m0)) ops os
  end.

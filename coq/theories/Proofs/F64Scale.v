(** * C04 on the binary64 instance itself: power-of-two scaling leaves the
    canonical form unchanged, absent overflow and underflow.

    [Proofs/F64Round.v] shows that each primitive operation is the rounded real
    operation when its exact result is in range.  Here the whole of
    [canon] over [F64] (compensated sum, zero test, division of every entry) is
    shown to simulate [canon] over [B64] step by step as long as every
    intermediate result stays in range ([canon_ok], a predicate over the real
    computation); with [canon_pow2_identical] this gives: two float spans whose
    values differ by a factor 2^e have canonical forms with the same real
    value in every position — the same float, up to the sign of a zero. *)
From Coq Require Import List Reals ZArith Lia Lra Floats Bool.
From Flocq Require Import Core BinarySingleNaN PrimFloat.
From ET Require Import Model.Scalar Model.Sparse Model.Basic Proofs.SparseBase Proofs.RInst
  Proofs.ScaleRound Proofs.F64Round.
Import ListNotations.
Local Open Scope R_scope.

Definition sim (x : PrimFloat.float) (r : R) : Prop := finite64 x /\ val64 x = r.

Lemma sim_zero : sim 0%float 0.
Proof.
  unfold sim, finite64, val64. change 0%float with PrimFloat.zero. rewrite zero_equiv, Prim2B_B2Prim. split; reflexivity.
Qed.

Lemma finite64_abs : forall x, finite64 x -> finite64 (PrimFloat.abs x).
Proof. intros x H. unfold finite64 in *. rewrite abs_equiv, is_finite_Babs. exact H. Qed.

Lemma sim_ltb_abs : forall x y rx ry, sim x rx -> sim y ry ->
  PrimFloat.ltb (PrimFloat.abs x) (PrimFloat.abs y) = Rltb (Rabs rx) (Rabs ry).
Proof.
  intros x y rx ry [Fx <-] [Fy <-].
  rewrite f64_ltb_exact by (apply finite64_abs; assumption). rewrite !f64_abs_exact. reflexivity.
Qed.

Lemma sim_add : forall x y rx ry, sim x rx -> sim y ry -> in_range (rx + ry) ->
  sim (x + y)%float (rnd64 (rx + ry)).
Proof. intros x y rx ry [Fx <-] [Fy <-] H. apply f64_add_rounds; assumption. Qed.
Lemma sim_sub : forall x y rx ry, sim x rx -> sim y ry -> in_range (rx - ry) ->
  sim (x - y)%float (rnd64 (rx - ry)).
Proof. intros x y rx ry [Fx <-] [Fy <-] H. apply f64_sub_rounds; assumption. Qed.
Lemma sim_div : forall x y rx ry, sim x rx -> sim y ry -> ry <> 0 -> in_range (rx / ry) ->
  sim (x / y)%float (rnd64 (rx / ry)).
Proof. intros x y rx ry [Fx <-] [Fy <-] Hy H. apply f64_div_rounds; assumption. Qed.

(** ** the compensated sum *)
Definition ksim (k : kbn F64) (k' : kbn B64) : Prop := sim (ksum k) (ksum k') /\ sim (kcomp k) (kcomp k').

(** every intermediate result of one KBN step is in range *)
Definition step_ok (k : kbn B64) (v : R) : Prop :=
  let more := if Rltb (Rabs (ksum k)) (Rabs v) then v else ksum k in
  let less := if Rltb (Rabs (ksum k)) (Rabs v) then ksum k else v in
  let s' := rnd64 (ksum k + v) in
  let tr := rnd64 (s' - more) in
  in_range (ksum k + v) /\ in_range (s' - more) /\ in_range (less - tr) /\
  in_range (kcomp k + rnd64 (less - tr)).

Lemma kbn_add_sim : forall k k' v v', ksim k k' -> sim v v' -> step_ok k' v' ->
  ksim (@kbn_add F64 k v) (@kbn_add B64 k' v').
Proof.
  intros k k' v v' [Hs Hc] Hv (H1 & H2 & H3 & H4).
  unfold kbn_add, ksim. cbn [ksum kcomp].
  change (ltb F64 (sabs F64 (ksum k)) (sabs F64 v)) with (PrimFloat.ltb (PrimFloat.abs (ksum k)) (PrimFloat.abs v)).
  change (ltb B64 (sabs B64 (ksum k')) (sabs B64 v')) with (Rltb (Rabs (ksum k')) (Rabs v')).
  rewrite (sim_ltb_abs _ _ _ _ Hs Hv).
  change (add F64) with PrimFloat.add. change (sub F64) with PrimFloat.sub.
  change (add B64) with (fun x y => rnd64 (x + y)). change (sub B64) with (fun x y => rnd64 (x - y)).
  cbv beta.
  assert (Hsum : sim (ksum k + v)%float (rnd64 (ksum k' + v'))) by (apply sim_add; assumption).
  split; [exact Hsum|].
  destruct (Rltb (Rabs (ksum k')) (Rabs v')).
  - assert (Ht : sim ((ksum k + v) - v)%float (rnd64 (rnd64 (ksum k' + v') - v'))) by (apply sim_sub; assumption).
    assert (Hl : sim (ksum k - ((ksum k + v) - v))%float (rnd64 (ksum k' - rnd64 (rnd64 (ksum k' + v') - v'))))
      by (apply sim_sub; assumption).
    apply sim_add; assumption.
  - assert (Ht : sim ((ksum k + v) - ksum k)%float (rnd64 (rnd64 (ksum k' + v') - ksum k'))) by (apply sim_sub; assumption).
    assert (Hl : sim (v - ((ksum k + v) - ksum k))%float (rnd64 (v' - rnd64 (rnd64 (ksum k' + v') - ksum k'))))
      by (apply sim_sub; assumption).
    apply sim_add; assumption.
Qed.

Fixpoint fold_ok (k : kbn B64) (l : list R) : Prop :=
  match l with
  | [] => in_range (ksum k + kcomp k)
  | v :: t => step_ok k v /\ fold_ok (@kbn_add B64 k v) t
  end.

Lemma kbn_fold_sim : forall l l' k k', Forall2 sim l l' -> ksim k k' -> fold_ok k' l' ->
  sim (@kbn_sum F64 (fold_left (@kbn_add F64) l k)) (@kbn_sum B64 (fold_left (@kbn_add B64) l' k')).
Proof.
  intros l l' k k' HF. revert k k'. induction HF as [|v v' t t' Hv _ IH]; intros k k' Hk Hok.
  - cbn [fold_left]. destruct Hk as [Hs Hc]. unfold kbn_sum.
    change (add F64) with PrimFloat.add. change (add B64) with (fun x y => rnd64 (x + y)). cbv beta.
    apply sim_add; assumption.
  - cbn [fold_left]. destruct Hok as [Hst Hok]. apply IH; [|exact Hok].
    apply kbn_add_sim; assumption.
Qed.

Lemma kbn0_sim : ksim (@kbn0 F64) (@kbn0 B64).
Proof. split; exact sim_zero. Qed.

(** ** Canonicalize *)
Definition canon_ok (l : list R) : Prop :=
  fold_ok (@kbn0 B64) l /\
  Forall (fun x => in_range (x / @kbn_total B64 l)) l.

Definition esim (e : nat * F64) (e' : nat * B64) : Prop := fst e = fst e' /\ sim (snd e) (snd e').

Lemma Forall2_map_snd : forall (l : list (nat * F64)) (l' : list (nat * B64)),
  Forall2 esim l l' -> Forall2 sim (map snd l) (map snd l').
Proof. intros l l' H. induction H as [|a b t t' [_ H1] _ IH]; constructor; assumption. Qed.

Theorem canon_sim : forall (l : list (nat * F64)) (l' : list (nat * B64)),
  Forall2 esim l l' -> canon_ok (map snd l') ->
  match @canon F64 l, @canon B64 l' with
  | Ok r, Ok r' => Forall2 esim r r'
  | ErrZeroSum, ErrZeroSum => True
  | _, _ => False
  end.
Proof.
  intros l l' HF [Hfold Hdiv].
  pose proof (kbn_fold_sim _ _ _ _ (Forall2_map_snd _ _ HF) kbn0_sim Hfold) as Hs.
  fold (@kbn_total F64 (map snd l)) in Hs. fold (@kbn_total B64 (map snd l')) in Hs.
  unfold canon.
  set (s := @kbn_total F64 (map snd l)) in *. set (s' := @kbn_total B64 (map snd l')) in *.
  change (eqb F64 s (zero F64)) with (PrimFloat.eqb s 0%float).
  change (eqb B64 s' (zero B64)) with (Reqb s' 0).
  destruct Hs as [Fs Vs].
  rewrite (f64_eqb_exact s 0%float Fs (proj1 sim_zero)), (proj2 sim_zero), Vs.
  destruct (Reqb s' 0) eqn:E; [exact I|]. apply Reqb_false in E.
  clear Hfold. clearbody s s'. revert Hdiv. induction HF as [|[i x] [i' x'] t t' [Hi Hx] _ IH]; intros Hdiv.
  - constructor.
  - cbn [map] in Hdiv |- *. inversion Hdiv as [|? ? Hd Hdt]; subst.
    constructor; [|apply IH; exact Hdt].
    split; [exact Hi|]. cbn [fst snd] in *.
    change (div F64) with PrimFloat.div. change (div B64 x' (val64 s)) with (rnd64 (x' / val64 s)).
    apply sim_div; auto. split; [exact Fs|reflexivity].
Qed.

(** finite floats with the same non-zero value are the same float *)
Lemma val64_inj : forall x y, finite64 x -> finite64 y -> val64 x = val64 y -> val64 x <> 0 -> x = y.
Proof.
  intros x y Fx Fy H Hnz. apply Prim2B_inj. unfold val64 in *.
  apply B2R_inj; auto; apply is_finite_strict_B2R; congruence.
Qed.

(** ** The binary64 statement of C04's scaling clause. *)
Definition scaled_by (e : Z) (a b : nat * F64) : Prop :=
  fst b = fst a /\ finite64 (snd a) /\ finite64 (snd b) /\ val64 (snd b) = val64 (snd a) * bpow radix2 e.

Definition same_float (a b : nat * F64) : Prop :=
  fst a = fst b /\ finite64 (snd a) /\ finite64 (snd b) /\ val64 (snd a) = val64 (snd b) /\
  (val64 (snd a) <> 0 -> snd a = snd b).

Definition vals (l : list (nat * F64)) : list (nat * B64) := map (fun e => (fst e, val64 (snd e) : B64)) l.

Lemma vals_esim : forall l, Forall (fun e => finite64 (snd e)) l -> Forall2 esim l (vals l).
Proof.
  intros l H. induction H as [|a t Ha _ IH]; constructor; [|exact IH].
  split; [reflexivity|]. split; [exact Ha|reflexivity].
Qed.

Lemma scaled_vals : forall e l l2, Forall2 (scaled_by e) l l2 ->
  vals l2 = escale rnd64 (bpow radix2 e) (vals l) /\
  Forall (fun a => finite64 (snd a)) l /\ Forall (fun a => finite64 (snd a)) l2.
Proof.
  intros e l l2 H. induction H as [|a b t t2 (Hi & Fa & Fb & Hv) _ [IH1 [IH2 IH3]]].
  - repeat split; constructor.
  - repeat split; try (constructor; assumption).
    unfold vals, escale in *. cbn [map fst snd]. rewrite IH1. f_equal.
    f_equal; [exact Hi|exact Hv].
Qed.

Theorem canon_pow2_bits_F64 : forall (e : Z) (l l2 : list (nat * F64)),
  Forall2 (scaled_by e) l l2 ->
  canon_ok (map snd (vals l)) -> canon_ok (map snd (vals l2)) ->
  match @canon F64 l, @canon F64 l2 with
  | Ok r, Ok r2 => Forall2 same_float r r2
  | ErrZeroSum, ErrZeroSum => True
  | _, _ => False
  end.
Proof.
  intros e l l2 Hsc Hok Hok2.
  destruct (scaled_vals _ _ _ Hsc) as [Hv [Fl Fl2]].
  pose proof (canon_sim l (vals l) (vals_esim _ Fl) Hok) as H1.
  pose proof (canon_sim l2 (vals l2) (vals_esim _ Fl2) Hok2) as H2.
  rewrite Hv in H2. unfold B64 in *. rewrite canon_pow2_identical in H2. unfold B64 in H2.
  destruct (@canon F64 l) as [r| | |]; destruct (@canon F64 l2) as [r2| | |];
    destruct (@canon (RND rnd64) (vals l)) as [r'| | |]; try contradiction; try exact I.
  revert r2 H2. induction H1 as [|a a' t t' [Hi [Fa Va]] _ IH]; intros r2 H2; inversion H2 as [|b ? t2 ? [Hj [Fb Vb]] Ht2]; subst.
  - constructor.
  - constructor; [|apply IH; exact Ht2].
    repeat split; try assumption; try congruence.
    intros Hnz. apply val64_inj; auto; congruence.
Qed.

(** non-vacuity: the side condition [canon_ok] is met by a concrete float span
    (and the theorem's outcome is the [Ok] branch). *)
Lemma rnd64_0 : rnd64 0 = 0.
Proof. unfold rnd64. apply round_0. auto with typeclass_instances. Qed.
Lemma rnd64_1 : rnd64 1 = 1.
Proof.
  unfold rnd64. apply round_generic; [auto with typeclass_instances|].
  replace 1 with (bpow radix2 0) by reflexivity. apply generic_format_bpow. unfold FLX_exp. lia.
Qed.
Lemma in_range_0 : in_range 0.
Proof. split; [left; reflexivity|]. rewrite rnd64_0, Rabs_R0. apply bpow_gt_0. Qed.
Lemma in_range_1 : in_range 1.
Proof.
  split.
  - right. rewrite Rabs_R1. replace 1 with (bpow radix2 0) by reflexivity. apply bpow_le. lia.
  - rewrite rnd64_1, Rabs_R1. replace 1 with (bpow radix2 0) by reflexivity. apply bpow_lt. lia.
Qed.
Lemma val64_one : val64 1%float = 1 /\ finite64 1%float.
Proof.
  unfold val64, finite64. change 1%float with PrimFloat.one. rewrite one_equiv, Prim2B_B2Prim.
  split; [apply Bone_correct|apply is_finite_Bone].
Qed.

Ltac norm1 H := repeat first
  [ rewrite H | rewrite Rplus_0_l | rewrite Rplus_0_r | rewrite rnd64_1 | rewrite rnd64_0
  | rewrite Rminus_0_r | rewrite (Rminus_diag_eq 1 1 eq_refl) | rewrite (Rminus_diag_eq 0 0 eq_refl) ].

Example canon_ok_example : canon_ok (map snd (vals [(0%nat, 1%float : F64)])).
Proof.
  unfold vals. cbn [map fst snd]. rewrite (proj1 val64_one).
  assert (Hlt : Rltb (Rabs 0) (Rabs 1) = true) by (apply Rltb_true; rewrite Rabs_R0, Rabs_R1; lra).
  assert (Htot : @kbn_total B64 [1] = 1).
  { unfold kbn_total, kbn_sum, kbn_add. cbn [fold_left ksum kcomp kbn0 zero B64 RND add sub sabs ltb].
    norm1 Hlt. reflexivity. }
  split.
  - cbn [fold_ok]. split.
    + unfold step_ok. cbn [ksum kcomp kbn0 zero B64 RND]. norm1 Hlt.
      repeat split; try apply in_range_0; try apply in_range_1.
    + unfold kbn_add. cbn [ksum kcomp kbn0 zero B64 RND add sub sabs ltb]. norm1 Hlt. apply in_range_1.
  - constructor; [|constructor].
    unfold kbn_total, kbn_sum, kbn_add. cbn [fold_left ksum kcomp kbn0 zero B64 RND add sub sabs ltb].
    norm1 Hlt. unfold Rdiv. rewrite Rinv_1, Rmult_1_r. apply in_range_1.
Qed.

Example scaled_by_example : Forall2 (scaled_by 0) [(0%nat, 1%float : F64)] [(0%nat, 1%float : F64)].
Proof.
  constructor; [|constructor]. repeat split; try apply val64_one. cbn [snd bpow]. lra.
Qed.

(** ** rows of a matrix (CanonicalizeLocalTrust with a substitute pre-trust) *)
Lemma same_float_refl : forall l : list (nat * F64),
  Forall (fun a => finite64 (snd a)) l -> Forall2 same_float l l.
Proof.
  intros l H. induction H as [|a t Ha _ IH]; constructor; [|exact IH].
  repeat split; auto.
Qed.

Theorem canon_row_pow2_bits_F64 : forall (e : Z) (pv : vec F64) (r r2 : list (nat * F64)),
  Forall (fun a => finite64 (snd a)) (vents pv) ->
  Forall2 (scaled_by e) r r2 ->
  canon_ok (map snd (vals r)) -> canon_ok (map snd (vals r2)) ->
  Forall2 same_float (@canon_row F64 (Some pv) r) (@canon_row F64 (Some pv) r2).
Proof.
  intros e pv r r2 Hp Hsc H1 H2. pose proof (canon_pow2_bits_F64 e r r2 Hsc H1 H2) as H.
  unfold canon_row.
  destruct (@canon F64 r); destruct (@canon F64 r2); try contradiction; auto.
  apply same_float_refl; exact Hp.
Qed.

(** every row scaled by its own power of two *)
Definition row_pow2_ok (r r2 : list (nat * F64)) : Prop :=
  exists e : Z, Forall2 (scaled_by e) r r2 /\ canon_ok (map snd (vals r)) /\ canon_ok (map snd (vals r2)).

Theorem canon_lt_pow2_bits_F64 : forall (m m2 : csm F64) (pv : vec F64),
  major m2 = major m -> minor m2 = minor m ->
  Forall (fun a => finite64 (snd a)) (vents pv) ->
  Forall2 row_pow2_ok (rows m) (rows m2) ->
  match @canon_lt F64 m (Some pv), @canon_lt F64 m2 (Some pv) with
  | Ok c, Ok c2 => major c = major c2 /\ minor c = minor c2 /\
                   Forall2 (Forall2 same_float) (rows c) (rows c2)
  | ErrDim, ErrDim => True
  | _, _ => False
  end.
Proof.
  intros m m2 pv Hj Hn Hp HF. unfold canon_lt, mdim. rewrite Hj, Hn.
  destruct (major m =? minor m); [|exact I]. cbn [rbind].
  destruct (major m =? vdim pv); [|exact I]. cbn [major minor rows].
  split; [reflexivity|]. split; [reflexivity|].
  induction HF as [|r r2 t t2 [e [Hsc [H1 H2]]] _ IH]; cbn [map]; constructor; [|exact IH].
  apply (canon_row_pow2_bits_F64 e); assumption.
Qed.

(** * C07 (Compute part): cancellation yields the context error or the undisturbed result.

    [loop_c] is the Compute loop with its two kinds of cancellation points made
    explicit: the poll at the top of every iteration ([cx iter] = the context is
    found cancelled there) and the matrix-vector product of iteration [iter]
    returning the context error ([cm iter]; by the protocol theorem a cancelled
    MulVec returns either that error or the full product, never a partial one).
    With both oracles constantly false it is the loop of Model/Basic.v. *)
From Coq Require Import List Arith Bool ZArith Lia.
From ET Require Import Model.Scalar Model.Sparse Model.Basic.
Import ListNotations.

Definition E_CTX := 11.

Section Cancel.
Context {S : ScalarOps}.
Variables (cx cm : nat -> bool).

Fixpoint loop_c (fuel : nat) (ct : csm S) (ap : vec S) (a e : S)
         (min_iters check_freq : nat) (max_iters : option nat) (flat_tail num_leaders : Z)
         (iter : nat) (t1 : vec S) (cv : conv S) (ft : ftstats S) : outcome S :=
  match fuel with
  | O => OutOfFuel
  | Datatypes.S fuel' =>
      if (match max_iters with Some mx => mx <=? iter | None => false end)
      then Done t1 iter ft
      else if cx iter then Failed E_CTX
      else
        let scheduled := (min_iters <=? iter) && ((iter - min_iters) mod check_freq =? 0) in
        let continue_with cv' ft' :=
          if cm iter then Failed E_CTX
          else
          match iter_step ct ap a t1 with
          | Ok t1' => loop_c fuel' ct ap a e min_iters check_freq max_iters flat_tail num_leaders (Datatypes.S iter) t1' cv' ft'
          | r => Failed (code_of r)
          end in
        if scheduled then
          match conv_update cv t1 with
          | Ok cv' =>
              if (num_leaders <? 0)%Z then Panicked
              else
              let ft' := ft_update ft (Z.to_nat num_leaders) t1 (c_d cv') in
              if converged cv' && ft_reached ft' flat_tail then Done t1 iter ft'
              else continue_with cv' ft'
          | r => Failed (code_of r)
          end
        else continue_with cv ft
  end.

(** whatever the cancellation points: the context error with no result, or
    exactly the outcome of the undisturbed run *)
Theorem loop_c_outcomes : forall fuel ct ap a e mn fq mx ftl nl i t1 cv ft,
  loop_c fuel ct ap a e mn fq mx ftl nl i t1 cv ft = Failed E_CTX \/
  loop_c fuel ct ap a e mn fq mx ftl nl i t1 cv ft = loop fuel ct ap a e mn fq mx ftl nl i t1 cv ft.
Proof.
  induction fuel as [|fuel IH]; intros; cbn [loop_c loop]; auto.
  destruct (match mx with Some m => m <=? i | None => false end); auto.
  destruct (cx i); auto.
  destruct ((mn <=? i) && ((i - mn) mod fq =? 0)).
  - destruct (conv_update cv t1); auto.
    destruct (nl <? 0)%Z; auto.
    destruct (converged a0 && ft_reached (ft_update ft (Z.to_nat nl) t1 (c_d a0)) ftl); auto.
    destruct (cm i); auto. destruct (iter_step ct ap a t1); auto.
  - destruct (cm i); auto. destruct (iter_step ct ap a t1); auto.
Qed.

End Cancel.

Theorem loop_c_never : forall (S : ScalarOps) fuel ct ap (a e : S) mn fq mx ftl nl i t1 cv ft,
  loop_c (fun _ => false) (fun _ => false) fuel ct ap a e mn fq mx ftl nl i t1 cv ft =
  loop fuel ct ap a e mn fq mx ftl nl i t1 cv ft.
Proof. intros. reflexivity. Qed.

(** * C04 on binary64, full strength: the canonical form of a span scaled by a power
    of two is *equal* (same floats, signs of zeros included) to the canonical form
    of the unscaled span, absent overflow and underflow.

    [F64Scale.canon_pow2_bits_F64] leaves the sign of zero entries open because it
    only relates real values.  Here the scaled span is required to keep the sign
    bit of every entry (as multiplication by 2^e does); the sign of a quotient is
    the xor of the operands' signs, the sums of the scaled and unscaled spans have
    the same (non-zero) sign, hence every quotient has the same value and the same
    sign bit, hence is the same float. *)
From Coq Require Import List Reals ZArith Lia Lra Floats Bool.
From Flocq Require Import Core BinarySingleNaN PrimFloat.
From ET Require Import Model.Scalar Model.Sparse Model.Basic Proofs.SparseBase Proofs.RInst
  Proofs.ScaleRound Proofs.F64Round Proofs.F64Scale.
Import ListNotations.
Local Open Scope R_scope.

Definition sign64 (x : PrimFloat.float) : bool := Bsign (Prim2B x).

Lemma Bsign_Rlt : forall (x : binary_float 53 1024), B2R x <> 0 -> Bsign x = Rlt_bool (B2R x) 0.
Proof.
  intros [s|s| |s m e H] Hx; simpl in *; try (exfalso; apply Hx; reflexivity).
  destruct s; simpl.
  - symmetry. apply Rlt_bool_true. apply F2R_lt_0. simpl. lia.
  - symmetry. apply Rlt_bool_false. apply F2R_ge_0. simpl. lia.
Qed.

Lemma finite_val_sign_eq : forall x y, finite64 x -> finite64 y -> val64 x = val64 y -> sign64 x = sign64 y -> x = y.
Proof.
  intros x y Fx Fy Hv Hs. apply Prim2B_inj. apply B2R_Bsign_inj; assumption.
Qed.

Lemma Rlt_bool_scaled : forall a b c, 0 < c -> b = a * c -> Rlt_bool a 0 = Rlt_bool b 0.
Proof.
  intros a b c Hc ->. destruct (Rlt_bool_spec a 0) as [H|H]; symmetry.
  - apply Rlt_bool_true. nra.
  - apply Rlt_bool_false. nra.
Qed.

Lemma sign_scaled : forall x y e, val64 x <> 0 -> val64 y = val64 x * bpow radix2 e -> sign64 x = sign64 y.
Proof.
  intros x y e Hx Hv. unfold sign64, val64 in *.
  assert (Hb := bpow_gt_0 radix2 e).
  assert (Hy : B2R (Prim2B y) <> 0) by nra.
  etransitivity; [apply (Bsign_Rlt _ Hx)|]. etransitivity; [|symmetry; apply (Bsign_Rlt _ Hy)].
  exact (Rlt_bool_scaled _ _ _ Hb Hv).
Qed.

Lemma finite_not_nan : forall b : binary_float 53 1024, is_finite b = true -> is_nan b = false.
Proof. intros [s|s| |s m e H] Hf; try reflexivity; discriminate. Qed.

(** sign of a quotient (finite numerator, non-zero finite denominator, result in range) *)
Lemma f64_div_sign : forall x y, finite64 x -> val64 y <> 0 -> in_range (val64 x / val64 y) ->
  sign64 (x / y)%float = xorb (sign64 x) (sign64 y).
Proof.
  intros x y Fx Hy [Hu Ho]. unfold val64, finite64, sign64 in *. rewrite div_equiv.
  pose proof (Bdiv_correct 53 1024 eq_refl eq_refl mode_NE (Prim2B x) (Prim2B y) Hy) as H.
  cbn [round_mode] in H. change (SpecFloat.fexp 53 1024) with (FLT_exp (3 - 1024 - 53) 53) in H.
  rewrite flt_is_flx in H by exact Hu.
  rewrite Rlt_bool_true in H by exact Ho. destruct H as [_ [H2 H3]].
  apply H3. 
  assert (Hf : is_finite (Bdiv mode_NE (Prim2B x) (Prim2B y)) = true) by (etransitivity; [exact H2|exact Fx]).
  exact (finite_not_nan _ Hf).
Qed.

(** the scaled twin keeps indices and sign bits; values are multiplied by 2^e *)
Definition scaled_signed (e : Z) (a b : nat * F64) : Prop :=
  scaled_by e a b /\ sign64 (snd a) = sign64 (snd b).

Lemma scaled_signed_scaled : forall e l l2, Forall2 (scaled_signed e) l l2 -> Forall2 (scaled_by e) l l2.
Proof. intros e l l2 H. induction H as [|a b t t2 [H _] _ IH]; constructor; assumption. Qed.

(** sums of the two spans: same non-zero sign, both simulate the rounded sums *)
Theorem canon_pow2_equal_F64 : forall (e : Z) (l l2 : list (nat * F64)),
  Forall2 (scaled_signed e) l l2 ->
  canon_ok (map snd (vals l)) -> canon_ok (map snd (vals l2)) ->
  @canon F64 l2 = @canon F64 l.
Proof.
  intros e l l2 Hss Hok Hok2.
  pose proof (scaled_signed_scaled _ _ _ Hss) as Hsc.
  destruct (scaled_vals _ _ _ Hsc) as [Hv [Fl Fl2]].
  (* the two sums *)
  destruct Hok as [Hfold Hdiv]. destruct Hok2 as [Hfold2 Hdiv2].
  pose proof (kbn_fold_sim _ _ _ _ (Forall2_map_snd _ _ (vals_esim _ Fl)) kbn0_sim Hfold) as Hs.
  pose proof (kbn_fold_sim _ _ _ _ (Forall2_map_snd _ _ (vals_esim _ Fl2)) kbn0_sim Hfold2) as Hs2.
  fold (@kbn_total F64 (map snd l)) in Hs. fold (@kbn_total B64 (map snd (vals l))) in Hs.
  fold (@kbn_total F64 (map snd l2)) in Hs2. fold (@kbn_total B64 (map snd (vals l2))) in Hs2.
  assert (Htot : @kbn_total B64 (map snd (vals l2)) = @kbn_total B64 (map snd (vals l)) * bpow radix2 e).
  { rewrite Hv. unfold B64. rewrite map_snd_escale. apply kbn_total_scale, pow2_exact_factor. }
  unfold canon.
  set (s := @kbn_total F64 (map snd l)) in *. set (s2 := @kbn_total F64 (map snd l2)) in *.
  set (r := @kbn_total B64 (map snd (vals l))) in *. set (r2 := @kbn_total B64 (map snd (vals l2))) in *.
  destruct Hs as [Fs Vs]. destruct Hs2 as [Fs2 Vs2].
  change (eqb F64 s (zero F64)) with (PrimFloat.eqb s 0%float).
  change (eqb F64 s2 (zero F64)) with (PrimFloat.eqb s2 0%float).
  rewrite (f64_eqb_exact s 0%float Fs (proj1 sim_zero)), (f64_eqb_exact s2 0%float Fs2 (proj1 sim_zero)).
  rewrite (proj2 sim_zero), Vs, Vs2, Htot.
  assert (Hb := bpow_gt_0 radix2 e).
  destruct (Reqb r 0) eqn:E.
  - apply Reqb_true in E. rewrite E, Rmult_0_l.
    replace (Reqb 0 0) with true by (symmetry; apply Reqb_true; reflexivity). reflexivity.
  - apply Reqb_false in E.
    replace (Reqb (r * bpow radix2 e) 0) with false by (symmetry; apply Reqb_false; nra).
    f_equal.
    assert (Hsg : sign64 s = sign64 s2).
    { apply (sign_scaled s s2 e); [rewrite Vs; exact E|rewrite Vs, Vs2; exact Htot]. }
    clear Hfold Hfold2 Hv Fl Fl2 Hsc.
    clearbody s s2 r r2.
    induction Hss as [|[i x] [i2 x2] t t2 [(Hi & Fx & Fx2 & Hx) Hsx] _ IH].
    + reflexivity.
    + cbn [map vals fst snd] in *. inversion Hdiv as [|? ? Hd Hdt]; subst. inversion Hdiv2 as [|? ? Hd2 Hdt2]; subst.
      f_equal; [|apply IH; assumption].
      f_equal. change (div F64) with PrimFloat.div.
      assert (E2 : val64 s2 <> 0) by (rewrite Htot; nra).
      destruct (f64_div_rounds x s Fx E Hd) as [F1 V1].
      destruct (f64_div_rounds x2 s2 Fx2 E2 Hd2) as [F2 V2].
      apply finite_val_sign_eq; auto.
      * rewrite V1, V2. f_equal. rewrite Hx, Htot. field. split; [exact E|lra].
      * rewrite (f64_div_sign x2 s2 Fx2 E2 Hd2), (f64_div_sign x s Fx E Hd). rewrite Hsx, Hsg. reflexivity.
Qed.

(** rows of a matrix, each scaled by its own power of two, with the substitute pre-trust *)
Definition row_pow2_signed_ok (r r2 : list (nat * F64)) : Prop :=
  exists e : Z, Forall2 (scaled_signed e) r r2 /\ canon_ok (map snd (vals r)) /\ canon_ok (map snd (vals r2)).

Theorem canon_lt_pow2_equal_F64 : forall (m m2 : csm F64) (p : option (vec F64)),
  major m2 = major m -> minor m2 = minor m ->
  Forall2 row_pow2_signed_ok (rows m) (rows m2) ->
  (p = None -> Forall (fun r => @canon F64 r <> ErrZeroSum) (rows m)) ->
  @canon_lt F64 m2 p = @canon_lt F64 m p.
Proof.
  intros m m2 p Hj Hn HF Hz. unfold canon_lt, mdim. rewrite Hj, Hn.
  destruct (major m =? minor m); [|reflexivity]. cbn [rbind].
  assert (Hrows : map (@canon_row F64 p) (rows m2) = map (@canon_row F64 p) (rows m)).
  { induction HF as [|r r2 t t2 [e [Hsc [H1 H2]]] _ IH]; [reflexivity|]. cbn [map].
    rewrite IH by (intros Hp; specialize (Hz Hp); inversion Hz; assumption). f_equal.
    unfold canon_row. rewrite (canon_pow2_equal_F64 e r r2 Hsc H1 H2).
    destruct (@canon F64 r) eqn:Er; try reflexivity; destruct p; try reflexivity; exfalso;
      first [ unfold canon in Er; destruct (eqb F64 _ _); discriminate
            | specialize (Hz eq_refl); inversion Hz; contradiction ]. }
  destruct p as [pv|]; [destruct (major m =? vdim pv); [|reflexivity]|]; rewrite Hrows; reflexivity.
Qed.

(** Compute consumes the canonical form: scores are unchanged, bit for bit. *)
Theorem scores_pow2_equal_F64 :
  forall (fuel : nat) (m m2 : csm F64) (p : option (vec F64)) (pt : vec F64) (a e : F64) (o : opts F64),
  major m2 = major m -> minor m2 = minor m ->
  Forall2 row_pow2_signed_ok (rows m) (rows m2) ->
  (p = None -> Forall (fun r => @canon F64 r <> ErrZeroSum) (rows m)) ->
  match @canon_lt F64 m2 p with Ok c => Some (compute fuel c pt a e o) | _ => None end =
  match @canon_lt F64 m p with Ok c => Some (compute fuel c pt a e o) | _ => None end.
Proof.
  intros fuel m m2 p pt a e o Hj Hn HF Hz. rewrite (canon_lt_pow2_equal_F64 m m2 p Hj Hn HF Hz). reflexivity.
Qed.

(** the pre-trust / initial-trust vector *)
Theorem canon_tv_pow2_equal_F64 : forall (e : Z) (v v2 : vec F64),
  vdim v2 = vdim v -> Forall2 (scaled_signed e) (vents v) (vents v2) ->
  canon_ok (map snd (vals (vents v))) -> canon_ok (map snd (vals (vents v2))) ->
  @canon_tv F64 v2 = @canon_tv F64 v.
Proof.
  intros e v v2 Hd Hsc H1 H2. unfold canon_tv. rewrite (canon_pow2_equal_F64 e _ _ Hsc H1 H2), Hd.
  destruct (@canon F64 (vents v)) eqn:E; try reflexivity;
    unfold canon in E; destruct (eqb F64 _ _); discriminate.
Qed.

(** non-vacuity: the one-entry span [(0, 1.0)] is its own 2^0-scaled, sign-preserving twin *)
Example scaled_signed_example : Forall2 (scaled_signed 0) [(0%nat, 1%float : F64)] [(0%nat, 1%float : F64)].
Proof.
  constructor; [|constructor]. split; [|reflexivity].
  repeat split; try apply val64_one. cbn [snd bpow]. lra.
Qed.

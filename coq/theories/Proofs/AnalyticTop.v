(** * C01 / C02 / C05 over the reals, stated on [compute]. *)
From Coq Require Import List Arith Bool ZArith Lia Reals Lra Sorted Permutation.
From ET Require Import Model.Scalar Model.Sparse Model.Basic Proofs.SparseBase Proofs.MergeProofs
  Proofs.VectorProofs Proofs.MatrixProofs Proofs.RInst Proofs.BasicProofs Proofs.ComputeProofs
  Proofs.Analytic Proofs.AnalyticModel.
Import ListNotations.
Local Open Scope R_scope.

(** canonical inputs of a compute over the reals *)
Record canonical (C : csm RR) (p : vec RR) (a e : RR) (o : opts RR) : Prop := {
  can_C : row_stochastic C;
  can_p : distribution p;
  can_pdim : vdim p = major C;
  can_a : 0 <= a <= 1;
  can_valid : valid C p a e o;
  can_t0 : WFv (eff_t0 o p) }.

Lemma valid_t0_dim : forall (C : csm RR) (p : vec RR) (a e : RR) (o : opts RR), valid C p a e o -> vdim (eff_t0 o p) = major C.
Proof.
  intros C p a e o (_ & _ & Hp & Ht0 & _). unfold eff_t0. destruct (o_t0 o) as [t0|] eqn:E; auto.
Qed.

(** C02: whatever the iteration budget, schedule and (canonical) start vector,
    the returned vector is a distribution of the input dimension. *)
Theorem compute_returns_distribution :
  forall fuel (C : csm RR) (p : vec RR) (a e : RR) (o : opts RR) t k st, canonical C p a e o -> distribution (eff_t0 o p) ->
    compute fuel C p a e o = Done t k st ->
    distribution t /\ vdim t = major C.
Proof.
  intros fuel C p a e o t k st [HC Hp Hpd [Ha0 Ha1] Hv Wt0] Hd0 H.
  pose proof (compute_done fuel C p a e o t k st Hv H) as (_ & Ht & _).
  pose proof (valid_t0_dim _ _ _ _ _ Hv) as Ht0d.
  rewrite Ht. split.
  - eapply iterate_distribution; eauto.
  - eapply X_dense; eauto.
Qed.

(** C01: a run that ended by its criteria (not by the iteration limit) returns a
    vector whose L1 distance from every fixed point of t = (1-a) C^T t + a p is
    at most ((1-a)/a) * sqrt n * e — for every schedule and every start vector. *)
Theorem compute_converged_bound :
  forall fuel (C : csm RR) (p : vec RR) (a e : RR) (o : opts RR) t k st, canonical C p a e o -> 0 < a ->
    compute fuel C p a e o = Done t k st -> eff_mx o <> Some k ->
    forall ts, fixed_point (major C) C p a ts ->
      l1 (major C) (fun j => dv t j - ts j) <= ((1 - a) / a) * (sqrt (INR (major C)) * e).
Proof.
  intros fuel C p a e o t k st [HC Hp Hpd [Ha0 Ha1] Hv Wt0] Hapos H Hnm ts Hfix.
  pose proof (compute_done fuel C p a e o t k st Hv H) as (_ & Ht & _ & _ & Hend).
  pose proof (valid_t0_dim _ _ _ _ _ Hv) as Ht0d.
  destruct Hend as [[Hm _]|(Hs & Hstop & _ & _)]; [contradiction|].
  set (mn := Z.to_nat (eff_min o)) in *. set (fq := Z.to_nat (eff_freq o)) in *.
  assert (Hfq : (0 < fq)%nat) by (destruct Hv as (_ & _ & _ & _ & _ & _ & _ & _ & Hf & _); unfold fq; lia).
  assert (Hmn : (0 < mn)%nat) by (destruct Hv as (_ & _ & _ & _ & _ & _ & _ & _ & _ & _ & Hm); unfold mn; lia).
  unfold stop_at in Hstop. apply andb_true_iff in Hstop. destruct Hstop as [HD _].
  cbn [leb RR] in HD. apply Rleb_true in HD.
  (* the previous check is f >= 1 iterations back *)
  destruct (sched_inv mn fq Hfq k Hs) as [q Hk].
  set (f := if (k =? mn)%nat then k else fq).
  assert (Hf : (1 <= f <= k)%nat).
  { unfold f. destruct (Nat.eqb_spec k mn); [lia|]. destruct q; [lia|]. nia. }
  assert (Hprev : prev mn fq k = (k - f)%nat).
  { unfold prev, f. destruct (Nat.eqb_spec k mn); lia. }
  assert (Hb : a * l1 (major C) (fun j => dv (X (transpose C) (scalevec a p) a (eff_t0 o p) k) j - ts j)
               <= (1 - a) * (sqrt (INR (major C)) * e)).
  { eapply (checked_iterate_bound (major C) C p a); eauto.
    intros td Htd. unfold D in HD. rewrite Hprev, Htd in HD. exact HD. }
  rewrite Ht. unfold Rdiv. rewrite (Rmult_comm (1 - a)), Rmult_assoc.
  apply (Rmult_le_reg_l a); auto. rewrite <- Rmult_assoc, Rinv_r, Rmult_1_l by lra. exact Hb.
Qed.

(** ** C05: termination bound under the default schedule *)
Lemma sq2_le_l1_sq : forall n x, sq2 n x <= l1 n x * l1 n x.
Proof.
  induction n as [|n IH]; intros x; unfold sq2, l1 in *.
  - unfold rsum. simpl. lra.
  - rewrite !rsum_S. specialize (IH x).
    assert (0 <= rsum (fun j => Rabs (x j)) n) by (apply rsum_nonneg; intros; apply Rabs_pos).
    pose proof (Rabs_pos (x n)). assert (x n * x n = Rabs (x n) * Rabs (x n)).
    { unfold Rabs. destruct (Rcase_abs (x n)); lra. }
    nra.
Qed.

Lemma l2_le_l1 : forall n x, sqrt (sq2 n x) <= l1 n x.
Proof.
  intros n x. rewrite <- (sqrt_square (l1 n x)) by apply l1_nonneg. apply sqrt_le_1_alt. apply sq2_le_l1_sq.
Qed.

Lemma first_true : forall (P : nat -> bool) K, P K = true ->
  exists k0, (k0 <= K)%nat /\ P k0 = true /\ forall j, (j < k0)%nat -> P j = false.
Proof.
  intros P K. induction K as [K IH] using lt_wf_ind. intros HK.
  destruct (existsb P (seq 0 K)) eqn:E.
  - apply existsb_exists in E. destruct E as [j [Hj Hpj]]. apply in_seq in Hj.
    destruct (IH j ltac:(lia) Hpj) as (k0 & Hle & Hp & Hmin). exists k0. split; [lia|]. auto.
  - exists K. split; [lia|]. split; auto. intros j Hj.
    destruct (P j) eqn:Epj; auto. assert (existsb P (seq 0 K) = true).
    { apply existsb_exists. exists j. split; auto. apply in_seq. lia. } congruence.
Qed.

Lemma l1_distribution : forall n (x : nat -> R), (forall j, (j < n)%nat -> 0 <= x j) -> rsum x n = 1 -> l1 n x = 1.
Proof.
  intros n x Hpos Hs. unfold l1. rewrite <- Hs. apply rsum_ext. intros j Hj. apply Rabs_pos_eq. auto.
Qed.

(** Under the default schedule (check after every iteration, no limit, no
    flat tail) a compute on canonical inputs stops within K iterations as soon
    as 2(1-a)^(K-1) <= e, given fuel for K+1 loop entries: it cannot loop
    forever, whatever the (canonical) trust values. *)
Theorem compute_terminates_bound :
  forall fuel (C : csm RR) (p : vec RR) (a e : RR) (o : opts RR) (K : nat),
    canonical C p a e o -> distribution (eff_t0 o p) ->
    o_check_freq o = None -> o_min_iters o = None -> eff_mx o = None ->
    (o_flat_tail o <= 0)%Z -> (0 <= o_num_leaders o)%Z ->
    (1 <= K)%nat -> 2 * (1 - a) ^ (K - 1) <= e -> (K < fuel)%nat ->
    exists t k st, compute fuel C p a e o = Done t k st /\ (k <= K)%nat.
Proof.
  intros fuel C p a e o K [HC Hp Hpd [Ha0 Ha1] Hv Wt0] Hd0 Hfq Hmn Hmx Hft Hnl HK Hpow Hfuel.
  pose proof (valid_t0_dim _ _ _ _ _ Hv) as Ht0d.
  rewrite (compute_valid fuel C p a e o Hv).
  assert (Ef : eff_freq o = 1%Z) by (unfold eff_freq; rewrite Hfq; auto).
  assert (Em : eff_min o = 1%Z) by (unfold eff_min; rewrite Hmn; auto).
  rewrite Ef, Em, Hmx. change (Z.to_nat 1) with 1%nat.
  set (n := major C) in *. set (t0 := eff_t0 o p) in *.
  set (ct := transpose C). set (ap := scalevec a p).
  set (nl := eff_leaders o n).
  assert (Hnl' : (0 <= nl)%Z) by (unfold nl, eff_leaders; destruct (o_num_leaders o =? 0)%Z; lia).
  (* the delta at check K is below e *)
  assert (HX : forall k, WFv (X ct ap a t0 k) /\ vdim (X ct ap a t0 k) = n /\
               (forall j, (j < n)%nat -> dv (X ct ap a t0 k) j = Gk n C p a k (dv t0) j)).
  { intros k. destruct (X_dense n C p a HC eq_refl Hp Hpd t0 Wt0 Ht0d k) as (A & B & D0 & _). auto. }
  assert (HsK : sched 1 1 K = true).
  { unfold sched. destruct (Nat.leb_spec 1 K); [|lia]. rewrite Nat.mod_1_r. reflexivity. }
  assert (HstopK : stop_at ct ap a e 1 1 (o_flat_tail o) nl t0 K = true).
  { unfold stop_at. apply andb_true_iff. split.
    - cbn [leb RR]. apply Rleb_true. unfold D.
      assert (Hprev : prev 1 1 K = (K - 1)%nat) by (unfold prev; destruct (Nat.eqb_spec K 1); lia).
      rewrite Hprev. destruct (HX K) as (WK & HdK & HvK). destruct (HX (K - 1)%nat) as (WP & HdP & HvP).
      pose proof (subvec_spec _ _ WK WP) as Hsub. rewrite HdK, HdP, Nat.eqb_refl in Hsub.
      destruct Hsub as (td & Htd & Htdd & Wtd & _). rewrite Htd. rewrite norm2_exact by auto. rewrite Htdd.
      eapply Rle_trans; [apply (l2_le_l1 n (dv td))|].
      set (x0 := dv t0).
      assert (E : l1 n (dv td) = l1 n (fun j => Gk n C p a (K - 1) (Gd n C p a x0) j - Gk n C p a (K - 1) x0 j)).
      { unfold l1. apply rsum_ext. intros j Hj. rewrite (subvec_exact _ _ td WK WP Htd j), HvK, HvP by auto.
        replace K with ((K - 1) + 1)%nat at 1 by lia. rewrite Gk_add. reflexivity. }
      rewrite E. eapply Rle_trans; [apply (Gk_contraction n C p a HC eq_refl Ha1)|].
      assert (Hx0 : (forall j, (j < n)%nat -> 0 <= x0 j) /\ rsum x0 n = 1).
      { destruct Hd0 as (_ & Hnn & Hs). split; [|rewrite <- Ht0d; auto]. intros j _. unfold x0, dv, den.
        destruct (lookup j (vents t0)) as [x|] eqn:El; [|cbn; lra].
        unfold nonneg_entries in Hnn. rewrite Forall_forall in Hnn. pose proof (Hnn _ (lookup_some_in _ _ _ El)) as H0. exact H0. }
      destruct Hx0 as [Hx0p Hx0s].
      destruct (Gd_distribution n C p a HC eq_refl Hp Hpd Ha0 Ha1 x0 Hx0p Hx0s) as [Hg1 Hg2].
      assert (Hl : l1 n (fun j => Gd n C p a x0 j - x0 j) <= 2).
      { eapply Rle_trans; [apply (l1_triangle n (Gd n C p a x0) (fun _ => 0) x0)|]. unfold l1. cbv beta.
        rewrite (rsum_ext (fun j => Rabs (Gd n C p a x0 j - 0)) (fun j => Rabs (Gd n C p a x0 j))) by (intros; f_equal; lra).
        rewrite (rsum_ext (fun j => Rabs (0 - x0 j)) (fun j => Rabs (x0 j))) by (intros; rewrite <- Rabs_Ropp; f_equal; lra).
        fold (l1 n (Gd n C p a x0)). fold (l1 n x0). rewrite !l1_distribution; auto. lra. }
      assert (0 <= (1 - a) ^ (K - 1)) by (apply pow_le; lra).
      eapply Rle_trans; [apply Rmult_le_compat_l; [auto|exact Hl]|]. lra.
    - unfold ft_reached. apply Z.leb_le. lia. }
  (* the first stopping check *)
  destruct (first_true (fun j => sched 1 1 j && stop_at ct ap a e 1 1 (o_flat_tail o) nl t0 j) K) as (k0 & Hk0 & Hp0 & Hmin).
  { rewrite HsK, HstopK. reflexivity. }
  apply andb_true_iff in Hp0. destruct Hp0 as [Hs0 Hst0].
  assert (HI0 : Inv ct ap a e 1 1 None nl t0 0 t0 (conv_new t0 e) ft_new).
  { unfold Inv. cbn [c_t c_e conv_new]. repeat split; auto. intros m Hm. discriminate. }
  destruct (loop_progress n C p a HC eq_refl Hp Hpd t0 Wt0 Ht0d e 1%nat 1%nat None (o_flat_tail o) nl ltac:(lia) Hnl'
              k0 0 (conv_new t0 e) ft_new fuel k0 ltac:(lia) ltac:(lia) HI0 Hs0 Hst0 ltac:(intros; discriminate))
    as (t & k & st & Hloop).
  exists t, k, st. split; [exact Hloop|].
  pose proof (loop_spec ct ap a e 1 1 None (o_flat_tail o) nl t0 ltac:(lia) fuel 0 t0 (conv_new t0 e) ft_new t k st HI0 Hloop) as (_ & _ & Hns & _ & _).
  destruct (Nat.le_gt_cases k k0) as [Hle|Hgt]; [lia|].
  specialize (Hns k0 ltac:(lia) Hs0). congruence.
Qed.

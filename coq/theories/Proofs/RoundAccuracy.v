(** * First-order accuracy of the compensated sum under rounded arithmetic (non-negative data).

    Same setting as [RoundNonneg]: [rnd x = x (1 + eps)], [|eps| <= u].  For non-negative terms the running
    sum stays within [(1 - k u), (1 + 2 k u)] of the exact partial sum and the compensation within [8 k u] of
    the running sum, hence the value returned differs from the exact sum by at most [14 n u] times that sum.
    (This is a first-order bound of the kind that holds for plain recursive summation; the second-order
    accuracy that the compensation buys is not proved.) *)
From Coq Require Import List Arith Bool Lia Reals Lra Psatz.
From Flocq Require Import Raux.
From ET Require Import Model.Scalar Model.Sparse Proofs.SparseBase Proofs.RInst Proofs.ScaleRound Proofs.RoundNonneg.
Import ListNotations.
Local Open Scope R_scope.

Section Acc.
Variable rnd : R -> R.
Variable u : R.
Hypothesis u_pos : 0 <= u.
Hypothesis u_small : u <= /1024.
Hypothesis rnd_rel : forall x, exists eps, Rabs eps <= u /\ rnd x = x * (1 + eps).
Notation K := (RND rnd).

(** the running sum after one more non-negative term *)
Lemma ksum_step : forall (k : kbn K) (v : R), ksum (@kbn_add K k v) = rnd (ksum k + v).
Proof. reflexivity. Qed.

Lemma ksum_fold_bounds : forall (l : list R) (k : kbn K) (S0 m : R),
  Forall (fun x => 0 <= x) l -> 0 <= S0 -> 0 <= m ->
  S0 * (1 - m * u) <= ksum k <= S0 * (1 + 2 * m * u) ->
  2 * (m + INR (length l)) * u <= 1 ->
  let k' := fold_left (@kbn_add K) l k in
  (S0 + lsum l) * (1 - (m + INR (length l)) * u) <= ksum k' <= (S0 + lsum l) * (1 + 2 * (m + INR (length l)) * u).
Proof.
  induction l as [|v t IH]; intros k S0 m HF HS Hm Hk Hsmall.
  - cbn [fold_left length INR lsum fold_right]. rewrite !Rplus_0_r. exact Hk.
  - inversion HF as [|? ? Hv Ht]; subst. cbn [fold_left].
    assert (Hlen : INR (length (v :: t)) = INR (length t) + 1) by (cbn [length]; rewrite S_INR; reflexivity).
    rewrite Hlen in *. assert (Hpos : 0 <= INR (length t)) by apply pos_INR.
    replace (lsum (v :: t)) with (v + lsum t) by reflexivity.
    replace (S0 + (v + lsum t)) with ((S0 + v) + lsum t) by ring.
    replace (m + (INR (length t) + 1)) with ((m + 1) + INR (length t)) by ring.
    apply IH; try assumption; try lra.
    + rewrite ksum_step. destruct (rnd_rel (ksum k + v)) as [e [He ->]]. apply Rabs_le_inv in He.
      destruct Hk as [Hlo Hhi].
      assert (Hmu : 0 <= m * u) by (apply Rmult_le_pos; assumption).
      assert (Hmu1 : m * u <= /2) by nra.
      split.
      * (* lower *)
        apply Rle_trans with ((S0 * (1 - m * u) + v) * (1 - u)).
        -- assert (S0 * (m * u) * u >= 0) by (apply Rle_ge; repeat apply Rmult_le_pos; assumption).
           assert (v * ((m + 1) * u) >= 0) by (apply Rle_ge; apply Rmult_le_pos; [lra|apply Rmult_le_pos; lra]). nra.
        -- assert (0 <= S0 * (1 - m * u) + v) by nra. nra.
      * (* upper *)
        apply Rle_trans with ((S0 * (1 + 2 * m * u) + v) * (1 + u)).
        -- assert (0 <= ksum k + v) by nra. nra.
        -- assert (S0 * (2 * m * u) * u <= S0 * u) by (assert (0 <= S0 * u) by (apply Rmult_le_pos; assumption); nra).
           assert (0 <= v * (2 * m * u)) by (apply Rmult_le_pos; [lra|nra]). nra.
Qed.

Theorem kbn_total_accuracy_nonneg : forall l : list R,
  Forall (fun x => 0 <= x) l -> INR (length l) * (8 * u) <= /2 ->
  Rabs (@kbn_total K l - lsum l) <= 14 * INR (length l) * u * lsum l.
Proof.
  intros l HF Hn. set (n := INR (length l)) in *. assert (Hn0 : 0 <= n) by apply pos_INR.
  assert (HS : 0 <= lsum l).
  { clear Hn n Hn0. induction HF as [|x t Hx _ IH]; [unfold lsum; simpl; lra|]. replace (lsum (x :: t)) with (x + lsum t) by reflexivity. lra. }
  unfold kbn_total, kbn_sum.
  assert (Hfb := kbn_fold_bound rnd u u_pos u_small rnd_rel l (@kbn0 K) 0 HF).
  cbn [ksum kcomp kbn0 zero K RND] in Hfb. rewrite Rabs_R0, Rmult_0_l, Rplus_0_l in Hfb.
  destruct (Hfb (Rle_refl 0) (Rle_refl 0) (Rle_refl 0) Hn) as [Hs Hc]. clear Hfb.
  pose proof (ksum_fold_bounds l (@kbn0 K) 0 0 HF (Rle_refl 0) (Rle_refl 0)) as Hb.
  cbn [ksum kbn0 zero K RND] in Hb. rewrite !Rplus_0_l in Hb.
  destruct Hb as [Hlo Hhi]; [lra|fold n; nra|]. fold n in Hlo, Hhi.
  set (k' := fold_left (@kbn_add K) l (@kbn0 K)) in *. fold n in Hc.
  apply Rabs_le_inv in Hc.
  change (add K (ksum k') (kcomp k')) with (rnd (ksum k' + kcomp k')).
  destruct (rnd_rel (ksum k' + kcomp k')) as [e [He ->]]. apply Rabs_le_inv in He.
  set (s := ksum k') in *. set (c := kcomp k') in *. set (S := lsum l) in *.
  assert (Hnu : 0 <= n * u) by (apply Rmult_le_pos; assumption).
  assert (Hnu1 : n * u <= /16) by nra.
  destruct (Req_dec n 0) as [Hz|Hnz].
  - (* no terms: everything is zero *)
    assert (El : l = []) by (destruct l; [reflexivity|exfalso; unfold n in Hz; cbn [length] in Hz; rewrite S_INR in Hz; pose proof (pos_INR (length l)); lra]).
    assert (ES : S = 0) by (unfold S; rewrite El; reflexivity).
    assert (Es : s = 0) by nra. assert (Ec : c = 0) by nra.
    rewrite Es, Ec, ES, Hz. replace ((0 + 0) * (1 + e) - 0) with 0 by ring. rewrite Rabs_R0. lra.
  - assert (Hn1 : 1 <= n).
    { unfold n. destruct (length l); [exfalso; apply Hnz; reflexivity|]. rewrite S_INR. pose proof (pos_INR n0). lra. }
    assert (Hu_n : u <= n * u) by nra.
    (* s + c within (1 +- 8 n u) s;  s within S (1 - n u) .. S (1 + 2 n u) *)
    assert (Hsc_hi : s + c <= S * (1 + 2 * (n * u)) * (1 + 8 * (n * u))) by nra.
    assert (Hsc_lo : S * (1 - n * u) * (1 - 8 * (n * u)) <= s + c) by nra.
    assert (Hsc0 : 0 <= s + c) by nra.
    set (w := n * u) in *.
    assert (Hup : (s + c) * (1 + e) <= S * (1 + 14 * w)).
    { apply Rle_trans with (S * (1 + 2 * w) * (1 + 8 * w) * (1 + w)); [nra|].
      assert (0 <= S * w) by (apply Rmult_le_pos; assumption).
      assert (S * w * w <= S * w / 16) by nra.
      assert (0 <= S * w * w) by (apply Rmult_le_pos; assumption).
      assert (S * w * w * w <= S * w / 256) by nra. nra. }
    assert (Hdn : S * (1 - 14 * w) <= (s + c) * (1 + e)).
    { apply Rle_trans with (S * (1 - w) * (1 - 8 * w) * (1 - w)); [|nra].
      assert (0 <= S * w) by (apply Rmult_le_pos; assumption).
      assert (0 <= S * w * w) by (apply Rmult_le_pos; assumption).
      assert (S * w * w * w <= S * w * w) by nra. nra. }
    apply Rabs_le. replace (14 * n * u * S) with (S * (14 * w)) by (unfold w; ring). lra.
Qed.

End Acc.

(** binary64 without the exponent range: relative error at most 14 n 2^-53 *)
Theorem kbn_total_accuracy_B64 : forall l : list R,
  Forall (fun x => 0 <= x) l -> INR (length l) <= Raux.bpow Zaux.radix2 49 ->
  Rabs (@kbn_total B64 l - lsum l) <= 14 * INR (length l) * u64 * lsum l.
Proof.
  intros l HF Hlen. apply (kbn_total_accuracy_nonneg rnd64 u64 u64_pos u64_small rnd64_rel l HF).
  unfold u64. replace (8 * (/ 2 * Raux.bpow Zaux.radix2 (-52))) with (Raux.bpow Zaux.radix2 (-50)).
  - apply Rle_trans with (Raux.bpow Zaux.radix2 49 * Raux.bpow Zaux.radix2 (-50)).
    + apply Rmult_le_compat_r; [apply Raux.bpow_ge_0|exact Hlen].
    + rewrite <- Raux.bpow_plus. simpl. lra.
  - replace (-50)%Z with (2 + -52)%Z by reflexivity. rewrite Raux.bpow_plus. simpl. lra.
Qed.

(** * C12: the swap-out resource model refines the pure matrix model, and its resource
    invariants hold in every reachable state, for every history and fault placement. *)
From Coq Require Import List Arith Bool Lia Sorted.
From ET Require Import Model.Scalar Model.Sparse Model.Mm.
Import ListNotations.

Section MmProofs.
Context {S : ScalarOps}.
Notation entry := (nat * T S)%type.
Notation mat := (@mat S).
Notation sys := (@sys S).
Notation mrow := (@mrow S).

(** ** finite maps and sets *)
Lemma get_del : forall (l : list (nat * mat)) h k, get (del l h) k = if k =? h then None else get l k.
Proof.
  induction l as [|[j m] t IH]; intros h k; simpl.
  - destruct (k =? h); reflexivity.
  - destruct (Nat.eqb_spec j h) as [->|Ne].
    + rewrite IH. destruct (Nat.eqb_spec k h) as [->|Ne']; auto. destruct (Nat.eqb_spec h k); [congruence|reflexivity].
    + simpl. rewrite IH. destruct (Nat.eqb_spec j k) as [->|]; auto. destruct (Nat.eqb_spec k h); [congruence|reflexivity].
Qed.
Lemma get_put : forall (l : list (nat * mat)) h m k, get (put l h m) k = if k =? h then Some m else get l k.
Proof. intros. unfold put. simpl. rewrite get_del, (Nat.eqb_sym h k). destruct (k =? h); reflexivity. Qed.

Lemma in_remove : forall x r l, In x (remove r l) <-> In x l /\ x <> r.
Proof. intros x r l. unfold remove. rewrite filter_In, negb_true_iff, Nat.eqb_neq. tauto. Qed.
Lemma remove_notin : forall x l, ~ In x l -> remove x l = l.
Proof.
  intros x l. induction l as [|y t IH]; intros H; simpl; auto.
  destruct (Nat.eqb_spec y x) as [->|Ne]; simpl.
  - exfalso. apply H. left. reflexivity.
  - f_equal. apply IH. intros Hi. apply H. right. exact Hi.
Qed.
Lemma remove_head : forall x l, ~ In x l -> remove x (x :: l) = l.
Proof. intros x l H. unfold remove. simpl. rewrite Nat.eqb_refl. simpl. apply remove_notin. exact H. Qed.

(** ** refinement: the contents evolve as in the pure model; swap-out, swap-in and the finalizer are invisible *)
Definition cget (s : sys) (k : nat) : option (csm S) := option_map contents (get (mats s) k).

Definition astep (a : nat -> option (csm S)) (fresh : nat) (o : op) (k : nat) : option (csm S) :=
  match o with
  | OMmap _ _ | OMunmap _ => a k
  | OMerge h h2 =>
      match a h, a h2 with
      | Some c, Some c2 =>
          if h =? h2 then (if k =? h then Some mempty else a k)
          else if k =? h2 then Some mempty else if k =? h then Some (fst (mmerge c c2)) else a k
      | _, _ => a k
      end
  | OSetMajor h d => match a h with Some c => if k =? h then Some (set_major d c) else a k | None => a k end
  | OSetMinor h d => match a h with Some c => if k =? h then Some (set_minor d c) else a k | None => a k end
  | OReset h => match a h with Some c => if k =? h then Some mempty else a k | None => a k end
  | OTranspose h => match a h with Some c => if k =? fresh then Some (transpose c) else a k | None => a k end
  | ONew c => if k =? fresh then Some c else a k
  | ODrop h => match a h with Some _ => if k =? h then None else a k | None => a k end
  end.

Lemma map_place_rows : forall r (l : list mrow) start, map r_ents (place_rows r start l) = map r_ents l.
Proof.
  intros r l. induction l as [|rw t IH]; intros start; simpl; auto.
  rewrite IH. destruct (length (r_ents rw) =? 0); reflexivity.
Qed.
Lemma contents_adopt : forall (m : mat) r, contents (adopt m r) = contents m.
Proof. intros. unfold contents, adopt. simpl. rewrite map_place_rows. reflexivity. Qed.
Lemma contents_munmap : forall m : mat, contents (munmap_mat m) = contents m.
Proof.
  intros m. unfold munmap_mat. destruct (m_mapped m); auto. unfold contents. simpl. rewrite map_map. reflexivity.
Qed.
Lemma contents_heap_mat : forall c : csm S, contents (heap_mat c) = c.
Proof. intros [a b r]. unfold contents, heap_mat. simpl. rewrite map_map. simpl. rewrite map_id. reflexivity. Qed.
Lemma map_repeat' : forall (A B : Type) (f : A -> B) x n, map f (repeat x n) = repeat (f x) n.
Proof. induction n; simpl; congruence. Qed.
Lemma contents_set_major : forall d (m : mat), contents (set_major_r d m) = set_major d (contents m).
Proof.
  intros. unfold contents, set_major_r, set_major. simpl. rewrite map_app, firstn_map, map_repeat', map_length. reflexivity.
Qed.
Lemma contents_set_minor : forall d (m : mat), contents (set_minor_r d m) = set_minor d (contents m).
Proof.
  intros. unfold contents, set_minor_r, set_minor. simpl. destruct (d <? m_minor m); auto. rewrite !map_map. reflexivity.
Qed.
Lemma merge_span_nil_r : forall s1 : list entry, merge_span s1 [] = s1.
Proof. destruct s1 as [|[i x] t]; reflexivity. Qed.
Lemma ents_merge_row : forall a b : mrow, r_ents (merge_row a b) = merge_span (r_ents a) (r_ents b).
Proof.
  intros a b. unfold merge_row. destruct (r_ents a) as [|x ta] eqn:Ea; destruct (r_ents b) as [|y tb] eqn:Eb.
  - reflexivity.
  - exact Eb.
  - rewrite Ea. destruct x. reflexivity.
  - reflexivity.
Qed.
Lemma map_merge_rows : forall l1 l2 : list mrow, map r_ents (merge_rows_r l1 l2) = merge_rows (map r_ents l1) (map r_ents l2).
Proof.
  induction l1 as [|a t1 IH]; intros [|b t2]; simpl; auto. rewrite ents_merge_row, IH. reflexivity.
Qed.
Lemma contents_merge : forall m m2 : mat, contents (merge_r m m2) = fst (mmerge (contents m) (contents m2)).
Proof.
  intros m m2. unfold merge_r, mmerge. cbn [fst].
  rewrite <- !contents_set_major, <- !contents_set_minor. unfold contents at 1. cbn [m_major m_minor m_rows].
  rewrite map_merge_rows, <- firstn_map. reflexivity.
Qed.

Lemma mmap_op_contents : forall (s : sys) (m : mat) f, contents (fst (fst (fst (fst (mmap_op s m f))))) = contents m.
Proof.
  intros s m f. unfold mmap_op, mmap_fresh.
  destruct (m_mapped m) as [[r sz]|]; [destruct (dirty m r); auto|];
  destruct f; cbn [fst]; auto; destruct (nnz m =? 0); cbn [fst]; auto; try apply contents_adopt;
  match goal with |- context [if ?c then _ else _] => destruct c end; cbn [fst]; auto; apply contents_adopt.
Qed.

Theorem step_contents : forall (s : sys) o k, cget (step s o) k = astep (cget s) (next s) o k.
Proof.
  intros s o k. unfold cget. destruct o as [h f|h|h h2|h d|h d|h|h|c|h]; cbn [step astep].
  - destruct (get (mats s) h) as [m|] eqn:E; auto.
    pose proof (mmap_op_contents s m f) as Hc. destruct (mmap_op s m f) as [[[[m' lv] fl] nx] ok]. cbn [fst] in Hc.
    cbn [mats]. rewrite get_put. destruct (Nat.eqb_spec k h) as [->|]; auto. rewrite E. simpl. f_equal. exact Hc.
  - destruct (get (mats s) h) as [m|] eqn:E; auto. cbn [with_mats mats]. rewrite get_put.
    destruct (Nat.eqb_spec k h) as [->|]; auto. rewrite E. simpl. rewrite contents_munmap. reflexivity.
  - destruct (get (mats s) h) as [m|] eqn:E; cbn [option_map]; auto.
    destruct (get (mats s) h2) as [m2|] eqn:E2; cbn [option_map]; auto.
    destruct (Nat.eqb_spec h h2) as [->|Ne]; cbn [with_mats mats]; rewrite ?get_put.
    + destruct (k =? h2); auto.
    + destruct (Nat.eqb_spec k h2) as [->|]; auto. destruct (Nat.eqb_spec k h) as [->|]; auto.
      simpl. rewrite contents_merge, contents_munmap. reflexivity.
  - destruct (get (mats s) h) as [m|] eqn:E; cbn [option_map]; auto. cbn [with_mats mats]. rewrite get_put.
    destruct (k =? h); auto. simpl. rewrite contents_set_major. reflexivity.
  - destruct (get (mats s) h) as [m|] eqn:E; cbn [option_map]; auto. cbn [with_mats mats]. rewrite get_put.
    destruct (k =? h); auto. simpl. rewrite contents_set_minor. reflexivity.
  - destruct (get (mats s) h) as [m|] eqn:E; cbn [option_map]; auto. cbn [with_mats mats]. rewrite get_put.
    destruct (k =? h); auto.
  - destruct (get (mats s) h) as [m|] eqn:E; cbn [option_map]; auto. cbn [mats]. rewrite get_put.
    destruct (k =? next s); auto. simpl. rewrite contents_heap_mat. reflexivity.
  - cbn [mats]. rewrite get_put. destruct (k =? next s); auto. simpl. rewrite contents_heap_mat. reflexivity.
  - destruct (get (mats s) h) as [m|] eqn:E; cbn [option_map]; auto. cbn [with_mats mats]. rewrite get_del.
    destruct (k =? h); auto.
Qed.

(** ** per-matrix well-formedness *)
Definition row_ok (mp : option (nat * nat)) (rw : mrow) : Prop :=
  nonempty rw = true -> forall r off cap, r_place rw = Mapped r off cap ->
  exists sz, mp = Some (r, sz) /\ off + cap <= sz /\ length (r_ents rw) <= cap.

Definition ext1 (rw : mrow) : option (nat * nat) :=
  if nonempty rw then match r_place rw with Mapped _ off cap => Some (off, cap) | Heap => None end else None.
Fixpoint exts (l : list mrow) : list (nat * nat) :=
  match l with [] => [] | rw :: t => match ext1 rw with Some e => e :: exts t | None => exts t end end.
Definition before (a b : nat * nat) : Prop := fst a + snd a <= fst b.
Definition chain (l : list (nat * nat)) : Prop := StronglySorted before l.

Definition mat_ok (m : mat) : Prop := Forall (row_ok (m_mapped m)) (m_rows m) /\ chain (exts (m_rows m)).

(** a row list [l'] "drops" from [l] when each row keeps its extent or loses it *)
Inductive drops : list mrow -> list mrow -> Prop :=
| drops_nil : drops [] []
| drops_cons a a' t t' : (ext1 a' = ext1 a \/ ext1 a' = None) -> drops t t' -> drops (a :: t) (a' :: t').

Lemma drops_forall : forall P (l l' : list mrow), drops l l' -> Forall P (exts l) -> Forall P (exts l').
Proof.
  intros P l l' H. induction H as [|a a' t t' Ha Ht IH]; intros HF; simpl in *; auto.
  destruct Ha as [Ha|Ha]; rewrite Ha.
  - destruct (ext1 a); auto. inversion HF; subst. constructor; auto.
  - apply IH. destruct (ext1 a); auto. inversion HF; auto.
Qed.
Lemma drops_chain : forall l l' : list mrow, drops l l' -> chain (exts l) -> chain (exts l').
Proof.
  intros l l' H. induction H as [|a a' t t' Ha Ht IH]; intros HC; simpl in *; auto.
  destruct Ha as [Ha|Ha]; rewrite Ha.
  - destruct (ext1 a) as [e|]; auto. apply StronglySorted_inv in HC. destruct HC as [HC HF].
    constructor; [apply IH; exact HC|]. eapply drops_forall; eauto.
  - apply IH. destruct (ext1 a); auto. apply StronglySorted_inv in HC. tauto.
Qed.
Lemma drops_refl : forall l : list mrow, drops l l.
Proof. induction l; constructor; auto. Qed.
Lemma drops_map : forall (g : mrow -> mrow) l, (forall rw, ext1 (g rw) = ext1 rw \/ ext1 (g rw) = None) -> drops l (map g l).
Proof. intros g l H. induction l; simpl; constructor; auto. Qed.

Lemma exts_app : forall l1 l2 : list mrow, exts (l1 ++ l2) = exts l1 ++ exts l2.
Proof. induction l1 as [|a t IH]; intros l2; simpl; auto. rewrite IH. destruct (ext1 a); reflexivity. Qed.
Lemma chain_app_l : forall l1 l2, chain (l1 ++ l2) -> chain l1.
Proof.
  induction l1 as [|a t IH]; intros l2 H; [constructor|]. simpl in H. apply StronglySorted_inv in H. destruct H as [H HF].
  constructor; [eapply IH; eauto|]. apply Forall_app in HF. tauto.
Qed.
Lemma exts_repeat_empty : forall n, exts (repeat (heap_row []) n) = [].
Proof. induction n; simpl; auto. Qed.
Lemma chain_firstn : forall d (l : list mrow), chain (exts l) -> chain (exts (firstn d l)).
Proof. intros d l H. rewrite <- (firstn_skipn d l), exts_app in H. eapply chain_app_l; eauto. Qed.

(** row_ok is about one row: preserved by anything that keeps or forgets places *)
Lemma take_lt_length : forall d (l : list entry), length (take_lt d l) <= length l.
Proof. intros d l. induction l as [|[i x] t IH]; simpl; auto. destruct (i <? d); simpl; lia. Qed.

Lemma in_firstn : forall (A : Type) d (l : list A) x, In x (firstn d l) -> In x l.
Proof. intros A d l x H. rewrite <- (firstn_skipn d l). apply in_or_app. left. exact H. Qed.

Lemma ext1_none_ok : forall mp (rw : mrow), ext1 rw = None -> row_ok mp rw.
Proof.
  intros mp rw H Hne r off cap Hp. unfold ext1 in H. rewrite Hne, Hp in H. discriminate.
Qed.
Lemma exts_none : forall l : list mrow, Forall (fun rw => ext1 rw = None) l -> exts l = [].
Proof. induction l as [|a t IH]; intros H; simpl; auto. inversion H; subst. rewrite H2. auto. Qed.
Lemma heapish_ok : forall mp (l : list mrow), Forall (fun rw => ext1 rw = None) l -> Forall (row_ok mp) l /\ chain (exts l).
Proof.
  intros mp l H. split.
  - eapply Forall_impl; [|exact H]. intros rw. apply ext1_none_ok.
  - rewrite exts_none; auto. constructor.
Qed.
Lemma ext1_heap_row : forall l, ext1 (heap_row l) = None.
Proof. intros l. unfold ext1, heap_row. simpl. destruct (nonempty _); reflexivity. Qed.

Lemma mat_ok_set_major : forall d (m : mat), mat_ok m -> mat_ok (set_major_r d m).
Proof.
  intros d m [HR HC]. split; cbn [set_major_r m_rows m_mapped].
  - apply Forall_app. split.
    + apply Forall_forall. intros rw Hin. apply (proj1 (Forall_forall _ _) HR). eapply in_firstn; eauto.
    + apply Forall_forall. intros rw Hin. apply repeat_spec in Hin. subst. apply ext1_none_ok, ext1_heap_row.
  - rewrite exts_app, exts_repeat_empty, app_nil_r. apply chain_firstn. exact HC.
Qed.

Definition trunc_row (d : nat) (rw : mrow) : mrow := {| r_place := r_place rw; r_ents := take_lt d (r_ents rw) |}.
Lemma nonempty_trunc : forall d rw, nonempty (trunc_row d rw) = true -> nonempty rw = true.
Proof. intros d rw. unfold nonempty, trunc_row. simpl. destruct (r_ents rw); simpl; auto. Qed.
Lemma ext1_trunc : forall d rw, ext1 (trunc_row d rw) = ext1 rw \/ ext1 (trunc_row d rw) = None.
Proof.
  intros d rw. unfold ext1. destruct (nonempty (trunc_row d rw)) eqn:E; [|right; reflexivity].
  left. rewrite (nonempty_trunc _ _ E). reflexivity.
Qed.
Lemma mat_ok_set_minor : forall d (m : mat), mat_ok m -> mat_ok (set_minor_r d m).
Proof.
  intros d m [HR HC]. unfold set_minor_r. destruct (d <? m_minor m); [|split; assumption].
  split; cbn [m_rows m_mapped]; fold (trunc_row d).
  - apply Forall_forall. intros rw Hin. apply in_map_iff in Hin. destruct Hin as [rw0 [<- Hin]].
    pose proof (proj1 (Forall_forall _ _) HR rw0 Hin) as H0.
    intros Hne r off cap Hp. destruct (H0 (nonempty_trunc _ _ Hne) r off cap Hp) as [sz [E [H1 H2]]].
    exists sz. repeat split; auto. simpl. pose proof (take_lt_length d (r_ents rw0)). lia.
  - eapply drops_chain; [|exact HC]. apply drops_map. apply ext1_trunc.
Qed.

Lemma ext1_merge_row : forall a b, ext1 b = None -> ext1 (merge_row a b) = ext1 a \/ ext1 (merge_row a b) = None.
Proof.
  intros a b Hb. unfold merge_row. destruct (r_ents a) as [|x ta] eqn:Ea; destruct (r_ents b) as [|y tb] eqn:Eb; auto.
  right. apply ext1_heap_row.
Qed.
Lemma merge_rows_drops : forall l1 l2 : list mrow, Forall (fun rw => ext1 rw = None) l2 -> drops l1 (merge_rows_r l1 l2).
Proof.
  induction l1 as [|a t1 IH]; intros [|b t2] H; simpl.
  - constructor.
  - constructor.
  - apply drops_refl.
  - inversion H; subst. constructor; [apply ext1_merge_row; auto|apply IH; auto].
Qed.
Lemma merge_rows_ok : forall mp (l1 l2 : list mrow), Forall (row_ok mp) l1 -> Forall (fun rw => ext1 rw = None) l2 ->
  Forall (row_ok mp) (merge_rows_r l1 l2).
Proof.
  intros mp. induction l1 as [|a t1 IH]; intros [|b t2] H1 H2; simpl; auto.
  inversion H1; subst. inversion H2; subst. constructor; [|apply IH; auto].
  unfold merge_row. destruct (r_ents a) as [|x ta] eqn:Ea; destruct (r_ents b) as [|y tb] eqn:Eb; auto;
  apply ext1_none_ok; auto; apply ext1_heap_row.
Qed.

Definition heapish (m : mat) : Prop := Forall (fun rw => ext1 rw = None) (m_rows m).
Lemma heapish_munmap : forall m : mat, m_mapped m <> None \/ heapish m -> heapish (munmap_mat m).
Proof.
  intros m H. unfold munmap_mat. destruct (m_mapped m) eqn:E.
  - unfold heapish. cbn [m_rows]. apply Forall_forall. intros rw Hin. apply in_map_iff in Hin. destruct Hin as [rw0 [<- _]].
    unfold ext1. simpl. destruct (nonempty _); reflexivity.
  - destruct H as [H|H]; [congruence|exact H].
Qed.
Lemma mat_ok_heapish_none : forall m : mat, mat_ok m -> m_mapped m = None -> heapish m.
Proof.
  intros m [HR _] E. unfold heapish. eapply Forall_impl; [|exact HR]. intros rw Hok. cbv beta in Hok.
  unfold ext1. destruct (nonempty rw) eqn:Hne; auto. destruct (r_place rw) as [|r off cap] eqn:Hp; auto.
  destruct (Hok Hne r off cap Hp) as [sz [E' _]]. congruence.
Qed.
Lemma heapish_mat_ok : forall m : mat, heapish m -> mat_ok m.
Proof. intros m H. apply heapish_ok. exact H. Qed.

Lemma mat_ok_merge : forall m m2 : mat, mat_ok m -> heapish m2 -> mat_ok (merge_r m m2).
Proof.
  intros m m2 Hm H2. unfold merge_r.
  pose proof (mat_ok_set_minor (Nat.max (m_minor m) (m_minor m2)) _ (mat_ok_set_major (Nat.max (m_major m) (m_major m2)) _ Hm)) as [HR HC].
  assert (H2' : Forall (fun rw : mrow => ext1 rw = None) (firstn (m_major m2) (m_rows m2))).
  { apply Forall_forall. intros rw Hin. apply (proj1 (Forall_forall _ _) H2). eapply in_firstn; eauto. }
  split; cbn [m_rows m_mapped].
  - apply merge_rows_ok; auto.
  - eapply drops_chain; [apply merge_rows_drops; exact H2'|exact HC].
Qed.

(** the adoption loop lays the spans out consecutively *)
Definition tot (l : list mrow) : nat := fold_right (fun rw n => length (r_ents rw) + n) 0 l.
Lemma place_rows_spec : forall r (l : list mrow) start,
  Forall (fun rw => nonempty rw = true -> exists off, r_place rw = Mapped r off (length (r_ents rw)) /\ start <= off /\ off + length (r_ents rw) <= start + tot l)
         (place_rows r start l) /\
  chain (exts (place_rows r start l)) /\
  Forall (fun e => start <= fst e) (exts (place_rows r start l)).
Proof.
  intros r l. induction l as [|rw t IH]; intros start; cbn [place_rows tot fold_right exts].
  - repeat split; constructor.
  - destruct (IH (start + length (r_ents rw))) as [H1 [H2 H3]]. fold (tot t).
    destruct (Nat.eqb_spec (length (r_ents rw)) 0) as [E0|N0].
    + assert (Hne : nonempty rw = false). { unfold nonempty. destruct (r_ents rw); simpl in *; auto; discriminate. }
      assert (He : ext1 rw = None). { unfold ext1. rewrite Hne. reflexivity. }
      rewrite He. rewrite E0 in *. rewrite Nat.add_0_r in *. repeat split; auto.
      constructor; auto. intros Hc. congruence.
    + assert (Hne : nonempty {| r_place := Mapped r start (length (r_ents rw)); r_ents := r_ents rw |} = true).
      { unfold nonempty. simpl. destruct (r_ents rw); simpl in *; auto; congruence. }
      assert (He : ext1 {| r_place := Mapped r start (length (r_ents rw)); r_ents := r_ents rw |} = Some (start, length (r_ents rw))).
      { unfold ext1. rewrite Hne. reflexivity. }
      rewrite He.
      repeat split.
      * constructor.
        -- intros _. exists start. cbn [r_place r_ents]. repeat split; auto; lia.
        -- eapply Forall_impl; [|exact H1]. intros x Hx Hn. destruct (Hx Hn) as [off [A [B C]]]. exists off. repeat split; auto; lia.
      * constructor; auto.
      * constructor; [simpl; lia|]. eapply Forall_impl; [|exact H3]. intros e He2. cbv beta in *. lia.
Qed.
Lemma nnz_tot : forall m : mat, nnz m = tot (m_rows m).
Proof. reflexivity. Qed.

Lemma mat_ok_adopt : forall (m : mat) r, mat_ok (adopt m r).
Proof.
  intros m r. destruct (place_rows_spec r (m_rows m) 0) as [H1 [H2 _]]. split; cbn [adopt m_rows m_mapped]; auto.
  eapply Forall_impl; [|exact H1]. intros rw H Hne r0 off cap Hp. destruct (H Hne) as [off' [A [B C]]].
  rewrite A in Hp. inversion Hp; subst. exists (nnz m). rewrite nnz_tot. repeat split; auto; simpl in C; lia.
Qed.
Lemma adopt_offheap : forall (m : mat) r rw, In rw (m_rows (adopt m r)) -> nonempty rw = true ->
  exists off, r_place rw = Mapped r off (length (r_ents rw)).
Proof.
  intros m r rw Hin Hne. destruct (place_rows_spec r (m_rows m) 0) as [H1 _].
  destruct (proj1 (Forall_forall _ _) H1 rw Hin Hne) as [off [A _]]. exists off. exact A.
Qed.

Lemma heapish_heap_mat : forall c, heapish (heap_mat c).
Proof.
  intros c. unfold heapish, heap_mat. cbn [m_rows]. apply Forall_forall. intros rw Hin.
  apply in_map_iff in Hin. destruct Hin as [l [<- _]]. apply ext1_heap_row.
Qed.
Lemma heapish_empty : heapish empty_mat.
Proof. constructor. Qed.

(** ** the system invariant *)
Record Inv (s : sys) : Prop := {
  I_files : files s = [];
  I_ok : forall h m, get (mats s) h = Some m -> mat_ok m;
  I_live : forall h m r sz, get (mats s) h = Some m -> m_mapped m = Some (r, sz) -> In r (live s);
  I_inj : forall h h' m m' r sz sz', get (mats s) h = Some m -> get (mats s) h' = Some m' ->
            m_mapped m = Some (r, sz) -> m_mapped m' = Some (r, sz') -> h = h';
  I_exact : forall r, In r (live s) -> exists h m sz, get (mats s) h = Some m /\ m_mapped m = Some (r, sz);
  I_fresh_live : forall r, In r (live s) -> r < next s;
  I_fresh_h : forall h m, get (mats s) h = Some m -> h < next s }.

Lemma inv_init : Inv init.
Proof. constructor; cbn; intros; try discriminate; try contradiction; auto. Qed.

Lemma in_munmap_live : forall (m : mat) lv x, In x (munmap_live m lv) <-> In x lv /\ (forall sz, m_mapped m <> Some (x, sz)).
Proof.
  intros m lv x. unfold munmap_live. destruct (m_mapped m) as [[r sz]|].
  - rewrite in_remove. split; intros [A B]; split; auto.
    + intros sz' E. inversion E. congruence.
    + intros E. subst. apply (B sz). reflexivity.
  - split; [intros A; split; auto; intros; discriminate|tauto].
Qed.

Lemma L_keep : forall (s : sys) h m m', Inv s -> get (mats s) h = Some m -> m_mapped m' = m_mapped m -> mat_ok m' ->
  Inv (with_mats s (put (mats s) h m') (live s)).
Proof.
  intros s h m m' I G Em Hok. constructor; cbn [with_mats mats live files next].
  - apply (I_files _ I).
  - intros k mk. rewrite get_put. destruct (Nat.eqb_spec k h) as [->|]; intros E; [inversion E; subst; auto|eapply I_ok; eauto].
  - intros k mk r sz. rewrite get_put. destruct (Nat.eqb_spec k h) as [->|]; intros E Er.
    + inversion E; subst. rewrite Em in Er. eapply I_live; eauto.
    + eapply I_live; eauto.
  - intros k k' mk mk' r sz sz'. rewrite !get_put.
    destruct (Nat.eqb_spec k h) as [->|Nk]; destruct (Nat.eqb_spec k' h) as [->|Nk']; intros E E' Er Er'; auto.
    + inversion E; subst. rewrite Em in Er. eapply (I_inj _ I); eauto.
    + inversion E'; subst. rewrite Em in Er'. eapply (I_inj _ I); eauto.
    + eapply (I_inj _ I); eauto.
  - intros r Hr. destruct (I_exact _ I r Hr) as [h0 [m0 [sz [G0 E0]]]].
    destruct (Nat.eq_dec h0 h) as [->|Ne].
    + exists h, m', sz. rewrite get_put, Nat.eqb_refl. split; auto. rewrite Em. congruence.
    + exists h0, m0, sz. rewrite get_put. destruct (Nat.eqb_spec h0 h); [contradiction|auto].
  - apply (I_fresh_live _ I).
  - intros k mk. rewrite get_put. destruct (Nat.eqb_spec k h) as [->|]; intros E; eapply I_fresh_h; eauto.
Qed.

Lemma L_release : forall (s : sys) h m m', Inv s -> get (mats s) h = Some m -> m_mapped m' = None -> mat_ok m' ->
  Inv (with_mats s (put (mats s) h m') (munmap_live m (live s))).
Proof.
  intros s h m m' I G Em Hok. constructor; cbn [with_mats mats live files next].
  - apply (I_files _ I).
  - intros k mk. rewrite get_put. destruct (Nat.eqb_spec k h) as [->|]; intros E; [inversion E; subst; auto|eapply I_ok; eauto].
  - intros k mk r sz. rewrite get_put. destruct (Nat.eqb_spec k h) as [->|Nk]; intros E Er.
    + inversion E; subst. congruence.
    + apply in_munmap_live. split; [eapply I_live; eauto|]. intros sz' Em'. apply Nk. eapply (I_inj _ I); eauto.
  - intros k k' mk mk' r sz sz'. rewrite !get_put.
    destruct (Nat.eqb_spec k h) as [->|Nk]; destruct (Nat.eqb_spec k' h) as [->|Nk']; intros E E' Er Er'; auto.
    + inversion E; subst. congruence.
    + inversion E'; subst. congruence.
    + eapply (I_inj _ I); eauto.
  - intros r Hr. apply in_munmap_live in Hr. destruct Hr as [Hr Hn].
    destruct (I_exact _ I r Hr) as [h0 [m0 [sz [G0 E0]]]].
    destruct (Nat.eq_dec h0 h) as [->|Ne].
    + exfalso. rewrite G in G0. inversion G0; subst. apply (Hn sz). exact E0.
    + exists h0, m0, sz. rewrite get_put. destruct (Nat.eqb_spec h0 h); [contradiction|auto].
  - intros r Hr. apply in_munmap_live in Hr. apply (I_fresh_live _ I). tauto.
  - intros k mk. rewrite get_put. destruct (Nat.eqb_spec k h) as [->|]; intros E; eapply I_fresh_h; eauto.
Qed.

Lemma L_drop : forall (s : sys) h m, Inv s -> get (mats s) h = Some m ->
  Inv (with_mats s (del (mats s) h) (munmap_live m (live s))).
Proof.
  intros s h m I G. constructor; cbn [with_mats mats live files next].
  - apply (I_files _ I).
  - intros k mk. rewrite get_del. destruct (Nat.eqb_spec k h) as [->|]; intros E; [discriminate|eapply I_ok; eauto].
  - intros k mk r sz. rewrite get_del. destruct (Nat.eqb_spec k h) as [->|Nk]; intros E Er; [discriminate|].
    apply in_munmap_live. split; [eapply I_live; eauto|]. intros sz' Em'. apply Nk. eapply (I_inj _ I); eauto.
  - intros k k' mk mk' r sz sz'. rewrite !get_del.
    destruct (Nat.eqb_spec k h) as [->|Nk]; destruct (Nat.eqb_spec k' h) as [->|Nk']; intros E E' Er Er'; try discriminate.
    eapply (I_inj _ I); eauto.
  - intros r Hr. apply in_munmap_live in Hr. destruct Hr as [Hr Hn].
    destruct (I_exact _ I r Hr) as [h0 [m0 [sz [G0 E0]]]].
    destruct (Nat.eq_dec h0 h) as [->|Ne].
    + exfalso. rewrite G in G0. inversion G0; subst. apply (Hn sz). exact E0.
    + exists h0, m0, sz. rewrite get_del. destruct (Nat.eqb_spec h0 h); [contradiction|auto].
  - intros r Hr. apply in_munmap_live in Hr. apply (I_fresh_live _ I). tauto.
  - intros k mk. rewrite get_del. destruct (Nat.eqb_spec k h) as [->|]; intros E; [discriminate|eapply I_fresh_h; eauto].
Qed.

Lemma L_new : forall (s : sys) m', Inv s -> m_mapped m' = None -> mat_ok m' ->
  Inv {| mats := put (mats s) (next s) m'; live := live s; files := files s; next := Datatypes.S (next s) |}.
Proof.
  intros s m' I Em Hok. constructor; cbn [mats live files next].
  - apply (I_files _ I).
  - intros k mk. rewrite get_put. destruct (Nat.eqb_spec k (next s)) as [->|]; intros E; [inversion E; subst; auto|eapply I_ok; eauto].
  - intros k mk r sz. rewrite get_put. destruct (Nat.eqb_spec k (next s)) as [->|Nk]; intros E Er.
    + inversion E; subst. congruence.
    + eapply I_live; eauto.
  - intros k k' mk mk' r sz sz'. rewrite !get_put.
    destruct (Nat.eqb_spec k (next s)) as [->|Nk]; destruct (Nat.eqb_spec k' (next s)) as [->|Nk']; intros E E' Er Er'; auto.
    + inversion E; subst. congruence.
    + inversion E'; subst. congruence.
    + eapply (I_inj _ I); eauto.
  - intros r Hr. destruct (I_exact _ I r Hr) as [h0 [m0 [sz [G0 E0]]]]. exists h0, m0, sz. rewrite get_put.
    pose proof (I_fresh_h _ I _ _ G0). destruct (Nat.eqb_spec h0 (next s)); [lia|auto].
  - intros r Hr. pose proof (I_fresh_live _ I r Hr). lia.
  - intros k mk. rewrite get_put. destruct (Nat.eqb_spec k (next s)) as [->|]; intros E; [lia|]. pose proof (I_fresh_h _ I _ _ E). lia.
Qed.

Lemma inv_next_mono : forall (s : sys) nx, Inv s -> next s <= nx ->
  Inv {| mats := mats s; live := live s; files := files s; next := nx |}.
Proof.
  intros s nx I Hn. constructor; cbn [mats live files next]; try apply I.
  - intros r Hr. pose proof (I_fresh_live _ I r Hr). lia.
  - intros k mk E. pose proof (I_fresh_h _ I _ _ E). lia.
Qed.

(** the possible outcomes of one Mmap call in a state satisfying the invariant *)
Definition lv_adopt (s : sys) (m : mat) (r : nat) : list nat :=
  match m_mapped m with Some (r0, _) => remove r0 (r :: live s) | None => r :: live s end.

Lemma mmap_op_cases : forall (s : sys) (m : mat) f, files s = [] -> (forall x, In x (live s) -> x < next s) ->
  let '(m', lv, fl, nx, ok) := mmap_op s m f in
  fl = files s /\ next s <= nx /\
  ((m' = m /\ lv = live s /\ (ok = true -> exists r sz, m_mapped m = Some (r, sz) /\ dirty m r = false)) \/
   (ok = true /\ nnz m <> 0 /\ m' = adopt m (Datatypes.S (next s)) /\ lv = lv_adopt s m (Datatypes.S (next s)) /\ nx = Datatypes.S (Datatypes.S (next s)))).
Proof.
  intros s m f Hf Hl.
  assert (Hrm : remove (next s) (next s :: files s) = files s). { rewrite Hf. unfold remove. simpl. rewrite Nat.eqb_refl. reflexivity. }
  assert (Hrl : remove (Datatypes.S (next s)) (Datatypes.S (next s) :: live s) = live s).
  { apply remove_head. intros Hin. apply Hl in Hin. lia. }
  assert (Fresh : let '(m', lv, fl, nx, ok) := mmap_fresh s m f in
    fl = files s /\ next s <= nx /\
    ((m' = m /\ lv = live s /\ ok = false) \/
     (ok = true /\ nnz m <> 0 /\ m' = adopt m (Datatypes.S (next s)) /\ lv = lv_adopt s m (Datatypes.S (next s)) /\ nx = Datatypes.S (Datatypes.S (next s))))).
  { unfold mmap_fresh. destruct f as [| | | |k]; try (repeat split; auto; left; auto).
    - destruct (Nat.eqb_spec (nnz m) 0) as [E|N]; [repeat split; auto; left; auto|].
      rewrite Hrm. repeat split; auto. right. repeat split; auto.
    - destruct (Nat.eqb_spec (nnz m) 0) as [E|N]; [repeat split; auto; left; auto|].
      destruct (k <? length (m_rows m)); rewrite Hrm, ?Hrl; repeat split; auto. right. repeat split; auto. }
  unfold mmap_op. destruct (m_mapped m) as [[r sz]|] eqn:Em.
  - destruct (dirty m r) eqn:Ed.
    + destruct (mmap_fresh s m f) as [[[[m' lv] fl] nx] ok]. destruct Fresh as [A [B [[C [D E]]|C]]]; repeat split; auto.
      left. repeat split; auto. intros; congruence.
    + repeat split; auto. left. repeat split; auto. intros _. exists r, sz. auto.
  - destruct (mmap_fresh s m f) as [[[[m' lv] fl] nx] ok]. destruct Fresh as [A [B [[C [D E]]|C]]]; repeat split; auto.
    left. repeat split; auto. intros; congruence.
Qed.

Lemma in_lv_adopt : forall (s : sys) (m : mat) r x, In x (lv_adopt s m r) <-> (x = r \/ In x (live s)) /\ (forall sz, m_mapped m <> Some (x, sz)).
Proof.
  intros s m r x. unfold lv_adopt. destruct (m_mapped m) as [[r0 sz0]|].
  - rewrite in_remove. simpl. split; intros [A B]; split.
    + destruct A; auto.
    + intros sz E. inversion E. congruence.
    + destruct A; auto.
    + intros E. subst. apply (B sz0). reflexivity.
  - simpl. split; [intros A; split; [destruct A; auto|intros; discriminate]|intros [[A|A] _]; auto].
Qed.

Lemma L_mmap : forall (s : sys) h m f, Inv s -> get (mats s) h = Some m -> Inv (step s (OMmap h f)).
Proof.
  intros s h m f I G. cbn [step]. rewrite G.
  pose proof (mmap_op_cases s m f (I_files _ I) (I_fresh_live _ I)) as H.
  destruct (mmap_op s m f) as [[[[m' lv] fl] nx] ok]. destruct H as [Hf [Hn [[-> [-> _]]|[Hok [Hnz [-> [-> ->]]]]]]]; subst fl.
  - apply (inv_next_mono (with_mats s (put (mats s) h m) (live s)) nx); [|exact Hn].
    eapply L_keep; eauto. eapply I_ok; eauto.
  - set (r := Datatypes.S (next s)).
    assert (Hr_fresh : forall x, In x (live s) -> x < r). { intros x Hx. pose proof (I_fresh_live _ I x Hx). unfold r. lia. }
    constructor; cbn [mats live files next].
    + apply (I_files _ I).
    + intros k mk. rewrite get_put. destruct (Nat.eqb_spec k h) as [->|]; intros E; [inversion E; subst; apply mat_ok_adopt|eapply I_ok; eauto].
    + intros k mk r1 sz. rewrite get_put. destruct (Nat.eqb_spec k h) as [->|Nk]; intros E Er.
      * inversion E; subst. cbn [adopt m_mapped] in Er. inversion Er; subst. apply in_lv_adopt. split; auto.
        intros sz' Em. pose proof (I_live _ I _ _ _ _ G Em) as Hin. apply Hr_fresh in Hin. lia.
      * apply in_lv_adopt. split; [right; eapply I_live; eauto|]. intros sz' Em'. apply Nk. eapply (I_inj _ I); eauto.
    + intros k k' mk mk' r1 sz sz'. rewrite !get_put.
      destruct (Nat.eqb_spec k h) as [->|Nk]; destruct (Nat.eqb_spec k' h) as [->|Nk']; intros E E' Er Er'; auto.
      * inversion E; subst. cbn [adopt m_mapped] in Er. inversion Er; subst.
        pose proof (I_live _ I _ _ _ _ E' Er') as Hin. apply Hr_fresh in Hin. lia.
      * inversion E'; subst. cbn [adopt m_mapped] in Er'. inversion Er'; subst.
        pose proof (I_live _ I _ _ _ _ E Er) as Hin. apply Hr_fresh in Hin. lia.
      * eapply (I_inj _ I); eauto.
    + intros x Hx. apply in_lv_adopt in Hx. destruct Hx as [[->|Hx] Hn'].
      * exists h, (adopt m r), (nnz m). rewrite get_put, Nat.eqb_refl. split; reflexivity.
      * destruct (I_exact _ I x Hx) as [h0 [m0 [sz [G0 E0]]]]. destruct (Nat.eq_dec h0 h) as [->|Ne].
        -- exfalso. rewrite G in G0. inversion G0; subst. apply (Hn' sz). exact E0.
        -- exists h0, m0, sz. rewrite get_put. destruct (Nat.eqb_spec h0 h); [contradiction|auto].
    + intros x Hx. apply in_lv_adopt in Hx. destruct Hx as [[->|Hx] _]; [unfold r; lia|]. apply Hr_fresh in Hx. lia.
    + intros k mk. rewrite get_put. destruct (Nat.eqb_spec k h) as [->|]; intros E.
      * pose proof (I_fresh_h _ I _ _ G). lia.
      * pose proof (I_fresh_h _ I _ _ E). lia.
Qed.

Lemma munmap_mat_ok : forall m : mat, mat_ok m -> mat_ok (munmap_mat m) /\ m_mapped (munmap_mat m) = None /\ heapish (munmap_mat m).
Proof.
  intros m Hok. assert (H : heapish (munmap_mat m)).
  { apply heapish_munmap. destruct (m_mapped m) eqn:E; [left; congruence|right; apply mat_ok_heapish_none; auto]. }
  split; [apply heapish_mat_ok; exact H|]. split; [|exact H]. unfold munmap_mat. destruct (m_mapped m) eqn:E; auto.
Qed.

Theorem step_inv : forall (s : sys) o, Inv s -> Inv (step s o).
Proof.
  intros s o I. destruct o as [h f|h|h h2|h d|h d|h|h|c|h].
  - destruct (get (mats s) h) as [m|] eqn:G; [eapply L_mmap; eauto|cbn [step]; rewrite G; exact I].
  - cbn [step]. destruct (get (mats s) h) as [m|] eqn:G; auto.
    destruct (munmap_mat_ok m (I_ok _ I _ _ G)) as [A [B _]]. eapply L_release; eauto.
  - cbn [step]. destruct (get (mats s) h) as [m|] eqn:G; auto. destruct (get (mats s) h2) as [m2|] eqn:G2; auto.
    destruct (Nat.eqb_spec h h2) as [->|Ne].
    + eapply L_release; eauto. apply heapish_mat_ok, heapish_empty.
    + destruct (munmap_mat_ok m2 (I_ok _ I _ _ G2)) as [A [B C]].
      assert (I1 : Inv (with_mats s (put (mats s) h (merge_r m (munmap_mat m2))) (live s))).
      { eapply L_keep; eauto. apply mat_ok_merge; auto. eapply I_ok; eauto. }
      assert (G2' : get (mats (with_mats s (put (mats s) h (merge_r m (munmap_mat m2))) (live s))) h2 = Some m2).
      { cbn [with_mats mats]. rewrite get_put. destruct (Nat.eqb_spec h2 h); [congruence|exact G2]. }
      pose proof (L_release _ h2 m2 empty_mat I1 G2' eq_refl (heapish_mat_ok _ heapish_empty)) as I2. exact I2.
  - cbn [step]. destruct (get (mats s) h) as [m|] eqn:G; auto. eapply L_keep; eauto. apply mat_ok_set_major. eapply I_ok; eauto.
  - cbn [step]. destruct (get (mats s) h) as [m|] eqn:G; auto. apply (L_keep s h m (set_minor_r d m) I G eq_refl). apply mat_ok_set_minor. eapply I_ok; eauto.
  - cbn [step]. destruct (get (mats s) h) as [m|] eqn:G; auto. eapply L_release; eauto. apply heapish_mat_ok, heapish_empty.
  - cbn [step]. destruct (get (mats s) h) as [m|] eqn:G; auto. apply L_new; auto. apply heapish_mat_ok, heapish_heap_mat.
  - cbn [step]. apply L_new; auto. apply heapish_mat_ok, heapish_heap_mat.
  - cbn [step]. destruct (get (mats s) h) as [m|] eqn:G; auto. eapply L_drop; eauto.
Qed.

Definition run (ops : list op) : sys := fold_left step ops init.

Theorem reachable_inv : forall ops, Inv (run ops).
Proof.
  intros ops. unfold run. generalize inv_init. generalize (@init S). induction ops as [|o t IH]; intros s I; simpl; auto.
  apply IH. apply step_inv. exact I.
Qed.

(** ** the clauses of the property *)

(** (a) contents: along any history the contents of every matrix are those of the pure
    model run on the same history with Mmap / Munmap / GC erased. *)
Theorem contents_history : forall ops o k,
  cget (run (ops ++ [o])) k = astep (cget (run ops)) (next (run ops)) o k.
Proof. intros. unfold run. rewrite fold_left_app. simpl. apply step_contents. Qed.

(** (b) no temporary file survives a call, whatever the fault *)
Theorem no_temp_files : forall ops, files (run ops) = [].
Proof. intros. apply (I_files _ (reachable_inv ops)). Qed.

(** (c) no dangling row, rows inside their matrix' own live mapping, spans disjoint *)
Theorem no_dangling : forall ops h m rw r off cap,
  get (mats (run ops)) h = Some m -> In rw (m_rows m) -> nonempty rw = true -> r_place rw = Mapped r off cap ->
  exists sz, m_mapped m = Some (r, sz) /\ In r (live (run ops)) /\ off + cap <= sz /\ length (r_ents rw) <= cap.
Proof.
  intros ops h m rw r off cap G Hin Hne Hp. pose proof (reachable_inv ops) as I.
  destruct (I_ok _ I _ _ G) as [HR _]. destruct (proj1 (Forall_forall _ _) HR rw Hin Hne r off cap Hp) as [sz [E [A B]]].
  exists sz. repeat split; auto. eapply I_live; eauto.
Qed.
Theorem spans_disjoint : forall ops h m, get (mats (run ops)) h = Some m -> chain (exts (m_rows m)).
Proof. intros ops h m G. destruct (I_ok _ (reachable_inv ops) _ _ G) as [_ HC]. exact HC. Qed.

(** (d) mappings are exactly the adopted mappings of reachable matrices: nothing leaks,
    and swap-in, reset and the finalizer release the mapping *)
Theorem mappings_exact : forall ops r,
  In r (live (run ops)) <-> exists h m sz, get (mats (run ops)) h = Some m /\ m_mapped m = Some (r, sz).
Proof.
  intros ops r. pose proof (reachable_inv ops) as I. split.
  - apply (I_exact _ I).
  - intros [h [m [sz [G E]]]]. eapply I_live; eauto.
Qed.
Definition releases (o : @op S) (h : nat) : Prop := o = OMunmap h \/ o = OReset h \/ o = ODrop h.
Theorem release_unmaps : forall ops o h m r sz, releases o h ->
  get (mats (run ops)) h = Some m -> m_mapped m = Some (r, sz) -> ~ In r (live (step (run ops) o)).
Proof.
  intros ops o h m r sz [->|[->| ->]] G E; cbn [step]; rewrite G; cbn [with_mats live]; intros Hin;
  apply in_munmap_live in Hin; destruct Hin as [_ Hn]; apply (Hn sz); exact E.
Qed.

(** (e) after a successful swap-out every non-empty row lives in the matrix' live mapping *)
Theorem swapout_offheap : forall ops h m f,
  get (mats (run ops)) h = Some m ->
  let '(m', lv, fl, nx, ok) := mmap_op (run ops) m f in
  ok = true -> forall rw, In rw (m_rows m') -> nonempty rw = true ->
  exists r off cap sz, r_place rw = Mapped r off cap /\ m_mapped m' = Some (r, sz) /\ In r lv /\ off + length (r_ents rw) <= sz.
Proof.
  intros ops h m f G. pose proof (reachable_inv ops) as I.
  pose proof (mmap_op_cases (run ops) m f (I_files _ I) (I_fresh_live _ I)) as H.
  destruct (mmap_op (run ops) m f) as [[[[m' lv] fl] nx] ok]. intros Hok rw Hin Hne.
  destruct H as [_ [_ [[-> [-> Hc]]|[_ [Hnz [-> [-> _]]]]]]].
  - destruct (Hc Hok) as [r [sz [Em Ed]]]. unfold dirty in Ed. apply negb_false_iff in Ed.
    pose proof (proj1 (forallb_forall _ _) Ed rw Hin) as Hc'. unfold row_clean in Hc'. unfold nonempty in Hne.
    destruct (r_ents rw) as [|e t] eqn:Ee; [discriminate|]. destruct (r_place rw) as [|r' off cap] eqn:Ep; [discriminate|].
    apply andb_true_iff in Hc'. destruct Hc' as [A B]. apply Nat.eqb_eq in A. apply Nat.leb_le in B. subst r'.
    exists r, off, cap, sz. repeat split; auto. { eapply I_live; eauto. }
    destruct (I_ok _ I _ _ G) as [HR _]. assert (Hne' : nonempty rw = true) by (unfold nonempty; rewrite Ee; reflexivity).
    destruct (proj1 (Forall_forall _ _) HR rw Hin Hne' r off cap Ep) as [sz' [E' [A' B']]]. rewrite Em in E'. inversion E'; subst. rewrite Ee in B'. lia.
  - destruct (adopt_offheap m _ rw Hin Hne) as [off Hp]. exists (Datatypes.S (next (run ops))), off, (length (r_ents rw)), (nnz m).
    repeat split; auto.
    + apply in_lv_adopt. split; auto. intros sz Em. pose proof (I_live _ I _ _ _ _ G Em) as Hl. apply (I_fresh_live _ I) in Hl. lia.
    + destruct (mat_ok_adopt m (Datatypes.S (next (run ops)))) as [HR _].
      destruct (proj1 (Forall_forall _ _) HR rw Hin Hne _ _ _ Hp) as [sz' [E' [A' B']]]. cbn [adopt m_mapped] in E'. inversion E'; subst. exact A'.
Qed.

(** (f) a failed or cancelled swap-out changes nothing: matrix, mappings and files are as before *)
Theorem swapout_failure_intact : forall ops h m f,
  get (mats (run ops)) h = Some m ->
  let '(m', lv, fl, nx, ok) := mmap_op (run ops) m f in
  ok = false -> m' = m /\ lv = live (run ops) /\ fl = files (run ops).
Proof.
  intros ops h m f G. pose proof (reachable_inv ops) as I.
  pose proof (mmap_op_cases (run ops) m f (I_files _ I) (I_fresh_live _ I)) as H.
  destruct (mmap_op (run ops) m f) as [[[[m' lv] fl] nx] ok]. intros Hok.
  destruct H as [Hf [_ [[-> [-> _]]|[Hc _]]]]; [auto|congruence].
Qed.

(** (g) which calls fail: exactly the injected faults, the zero-length mapping and a cancellation
    observed at one of the rows; everything else succeeds *)
Theorem swapout_outcome : forall (s : sys) (m : mat) f,
  m_mapped m = None ->
  snd (mmap_op s m f) = match f with
                        | NoFault => negb (nnz m =? 0)
                        | CancelAtRow k => negb (nnz m =? 0) && negb (k <? length (m_rows m))
                        | _ => false
                        end.
Proof.
  intros s m f Em. unfold mmap_op, mmap_fresh. rewrite Em. destruct f; cbn [snd]; auto.
  - destruct (nnz m =? 0); reflexivity.
  - destruct (nnz m =? 0); cbn [negb andb snd]; auto. destruct (k <? length (m_rows m)); reflexivity.
Qed.

End MmProofs.

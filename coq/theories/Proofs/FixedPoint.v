(** * C01: existence of the EigenTrust fixed point (over the reals), as the limit of the iteration. *)
From Coq Require Import List Arith Bool ZArith Lia Reals Lra.
From ET Require Import Model.Scalar Model.Sparse Model.Basic Proofs.SparseBase Proofs.RInst Proofs.BasicProofs Proofs.ComputeProofs
  Proofs.Analytic Proofs.AnalyticModel Proofs.AnalyticTop.
Import ListNotations.
Local Open Scope R_scope.

Section FixedPoint.
Variables (n : nat) (C : csm RR) (p : vec RR) (a : R).
Hypothesis HC : row_stochastic C.
Hypothesis Hn : major C = n.
Hypothesis Hp : distribution p.
Hypothesis Hpn : vdim p = n.
Hypothesis Ha0 : 0 < a.
Hypothesis Ha1 : a <= 1.

Let G := Gd n C p a.
Definition xk (k : nat) : nat -> R := Gk n C p a k (dv p).

Lemma xk_dist : forall k, (forall j, (j < n)%nat -> 0 <= xk k j) /\ rsum (xk k) n = 1.
Proof.
  induction k as [|k [IH1 IH2]]; unfold xk in *; cbn [Gk].
  - split; [intros j _; apply p_nonneg; exact Hp|apply p_sum; auto].
  - apply (Gd_distribution n C p a HC Hn Hp Hpn); auto; lra.
Qed.

Lemma coord_le_l1 : forall (f : nat -> R) m j, (j < m)%nat -> Rabs (f j) <= l1 m f.
Proof.
  intros f m. induction m as [|m IH]; intros j Hj; [lia|]. unfold l1 in *. rewrite rsum_S.
  assert (0 <= rsum (fun j0 => Rabs (f j0)) m) by (apply rsum_nonneg; intros; apply Rabs_pos).
  destruct (Nat.eq_dec j m) as [->|Ne]; [lra|]. assert (Hj' : (j < m)%nat) by lia. specialize (IH j Hj'). pose proof (Rabs_pos (f m)). lra.
Qed.

Lemma l1_dist_le_2 : forall x y, (forall j, (j < n)%nat -> 0 <= x j) -> rsum x n = 1 ->
  (forall j, (j < n)%nat -> 0 <= y j) -> rsum y n = 1 -> l1 n (fun j => x j - y j) <= 2.
Proof.
  intros x y Hx Sx Hy Sy. unfold l1.
  eapply Rle_trans; [apply (rsum_le _ (fun j => x j + y j))|rewrite rsum_plus; lra].
  intros j Hj. specialize (Hx j Hj). specialize (Hy j Hj). unfold Rabs. destruct (Rcase_abs (x j - y j)); lra.
Qed.

Lemma diff_bound : forall k m j, (j < n)%nat -> Rabs (xk (k + m) j - xk k j) <= 2 * (1 - a) ^ k.
Proof.
  intros k m j Hj. unfold xk. rewrite Gk_add.
  pose proof (coord_le_l1 (fun j0 => Gk n C p a k (Gk n C p a m (dv p)) j0 - Gk n C p a k (dv p) j0) n j Hj) as H1. cbv beta in H1.
  eapply Rle_trans; [exact H1|].
  eapply Rle_trans; [apply (Gk_contraction n C p a HC Hn Ha1)|].
  rewrite Rmult_comm. apply Rmult_le_compat_r; [apply pow_le; lra|].
  destruct (xk_dist m) as [A B]. destruct (xk_dist 0) as [A0 B0]. apply l1_dist_le_2; auto.
Qed.

Lemma small_power : forall eps, 0 < eps -> exists N, 4 * (1 - a) ^ N < eps.
Proof.
  intros eps He. destruct (pow_lt_1_zero (1 - a)) with (y := eps / 4) as [N HN]; [rewrite Rabs_pos_eq; lra|lra|].
  exists N. specialize (HN N (Nat.le_refl N)). rewrite Rabs_pos_eq in HN by (apply pow_le; lra). lra.
Qed.

Lemma coord_cauchy : forall j, (j < n)%nat -> Cauchy_crit (fun k => xk k j).
Proof.
  intros j Hj eps He. destruct (small_power eps He) as [N HN]. exists N. intros k m Hk Hm. unfold R_dist.
  replace (xk k j - xk m j) with ((xk k j - xk N j) - (xk m j - xk N j)) by ring.
  eapply Rle_lt_trans; [apply Rabs_triang|]. rewrite Rabs_Ropp.
  replace k with (N + (k - N))%nat at 1 by lia. replace m with (N + (m - N))%nat at 1 by lia.
  pose proof (diff_bound N (k - N) j Hj). pose proof (diff_bound N (m - N) j Hj). lra.
Qed.

Lemma coord_limit : forall j, (j < n)%nat -> exists l, Un_cv (fun k => xk k j) l.
Proof. intros j Hj. destruct (R_complete _ (coord_cauchy j Hj)) as [l Hl]. exists l. exact Hl. Qed.

(** finite choice *)
Lemma finite_choice : forall (P : nat -> R -> Prop) m, (forall j, (j < m)%nat -> exists l, P j l) ->
  exists f : nat -> R, forall j, (j < m)%nat -> P j (f j).
Proof.
  intros P m. induction m as [|m IH]; intros H.
  - exists (fun _ => 0). intros j Hj. lia.
  - destruct IH as [f Hf]; [intros j Hj; apply H; lia|]. destruct (H m (Nat.lt_succ_diag_r m)) as [l Hl].
    exists (fun j => if Nat.eq_dec j m then l else f j). intros j Hj. destruct (Nat.eq_dec j m) as [->|Ne]; auto. apply Hf. lia.
Qed.

Lemma cv_rsum : forall (f : nat -> nat -> R) (l : nat -> R) m,
  (forall i, (i < m)%nat -> Un_cv (fun k => f k i) (l i)) -> Un_cv (fun k => rsum (f k) m) (rsum l m).
Proof.
  intros f l m. induction m as [|m IH]; intros H.
  - intros eps He. exists 0%nat. intros k _. rewrite !rsum_0. unfold R_dist. rewrite Rminus_diag_eq, Rabs_R0; auto.
  - assert (E : forall k, rsum (f k) (Datatypes.S m) = rsum (f k) m + f k m) by (intros; apply rsum_S).
    intros eps He. rewrite rsum_S.
    assert (Hc : Un_cv (fun k => rsum (f k) m + f k m) (rsum l m + l m)).
    { apply (CV_plus (fun k => rsum (f k) m) (fun k => f k m)); [apply IH; intros i Hi; apply H; lia|apply H; lia]. }
    destruct (Hc eps He) as [N HN]. exists N. intros k Hk. rewrite E. apply HN. exact Hk.
Qed.

Lemma cv_const_mult : forall c (u : nat -> R) l, Un_cv u l -> Un_cv (fun k => c * u k) (c * l).
Proof. intros c u l H. apply (CV_mult (fun _ => c) u c l); auto. intros eps He. exists 0%nat. intros k _. unfold R_dist. rewrite Rminus_diag_eq, Rabs_R0; auto. Qed.
Lemma cv_const : forall c, Un_cv (fun _ : nat => c) c.
Proof. intros c eps He. exists 0%nat. intros k _. unfold R_dist. rewrite Rminus_diag_eq, Rabs_R0; auto. Qed.
Lemma cv_shift : forall (u : nat -> R) l, Un_cv u l -> Un_cv (fun k => u (Datatypes.S k)) l.
Proof. intros u l H eps He. destruct (H eps He) as [N HN]. exists N. intros k Hk. apply HN. lia. Qed.
Lemma cv_nonneg : forall (u : nat -> R) l, Un_cv u l -> (forall k, 0 <= u k) -> 0 <= l.
Proof.
  intros u l H Hu. destruct (Rle_or_lt 0 l) as [Hl|Hl]; auto. exfalso.
  destruct (H (- l)) as [N HN]; [lra|]. specialize (HN N (Nat.le_refl N)). unfold R_dist in HN.
  specialize (Hu N). rewrite Rabs_pos_eq in HN; lra.
Qed.

(** the limit of the iteration started at the pre-trust is a fixed point and a distribution *)
Theorem fixed_point_exists :
  exists ts, fixed_point n C p a ts /\ (forall j, (j < n)%nat -> 0 <= ts j) /\ rsum ts n = 1 /\
             forall j, (j < n)%nat -> Un_cv (fun k => xk k j) (ts j).
Proof.
  destruct (finite_choice (fun j l => Un_cv (fun k => xk k j) l) n coord_limit) as [ts Hts].
  exists ts. split; [|split; [|split; [|exact Hts]]].
  - intros j Hj.
    (* both ts j and Gd ts j are limits of k |-> xk (S k) j *)
    apply (UL_sequence (fun k => xk (Datatypes.S k) j)); [apply (cv_shift (fun k => xk k j) (ts j)); apply Hts; exact Hj|].
    unfold xk. cbn [Gk]. unfold Gd.
    apply (CV_plus (fun k => (1 - a) * rsum (fun i => dm C i j * Gk n C p a k (dv p) i) n) (fun _ => a * dv p j)); [|apply cv_const].
    apply cv_const_mult. apply (cv_rsum (fun k i => dm C i j * Gk n C p a k (dv p) i) (fun i => dm C i j * ts i)).
    intros i Hi. apply cv_const_mult. apply Hts. exact Hi.
  - intros j Hj. apply (cv_nonneg (fun k => xk k j)); [apply Hts; exact Hj|]. intros k. apply (proj1 (xk_dist k)). exact Hj.
  - apply (UL_sequence (fun k => rsum (xk k) n)).
    + apply (cv_rsum (fun k i => xk k i) ts). exact Hts.
    + intros eps He. exists 0%nat. intros k _. rewrite (proj2 (xk_dist k)). unfold R_dist. rewrite Rminus_diag_eq, Rabs_R0; auto.
Qed.

(** ... and it is the only one *)
Corollary fixed_point_exists_unique :
  exists ts, fixed_point n C p a ts /\ forall s, fixed_point n C p a s -> forall j, (j < n)%nat -> s j = ts j.
Proof.
  destruct fixed_point_exists as [ts [Hf _]]. exists ts. split; auto. intros s Hs j Hj.
  apply (fixed_point_unique n C p a HC Hn Hpn Ha1 Ha0 s ts Hs Hf j Hj).
Qed.

End FixedPoint.

(** the closed form of C01: a unique distribution solves the EigenTrust equation and every run that
    ended by its criteria returned a vector within the bound of it *)
Theorem compute_converges_to_eigentrust :
  forall (C : csm RR) (p : vec RR) (a e : RR) (o : opts RR),
    canonical C p a e o -> 0 < a ->
    exists ts, fixed_point (major C) C p a ts /\ (forall j, (j < major C)%nat -> 0 <= ts j) /\ rsum ts (major C) = 1 /\
      (forall s, fixed_point (major C) C p a s -> forall j, (j < major C)%nat -> s j = ts j) /\
      forall fuel t k st, compute fuel C p a e o = Done t k st -> eff_mx o <> Some k ->
        l1 (major C) (fun j => dv t j - ts j) <= ((1 - a) / a) * (sqrt (INR (major C)) * e).
Proof.
  intros C p a e o Hc Ha. pose proof Hc as Hc'. destruct Hc' as [HC Hp Hpd [Ha0 Ha1] Hv Wt0].
  destruct (fixed_point_exists (major C) C p a HC eq_refl Hp Hpd Ha Ha1) as [ts [Hf [Hn [Hs _]]]].
  exists ts. repeat split; auto.
  - intros s Hs' j Hj. exact (fixed_point_unique (major C) C p a HC eq_refl Hpd Ha1 Ha s ts Hs' Hf j Hj).
  - intros fuel t k st Hd Hk. exact (compute_converged_bound fuel C p a e o t k st Hc Ha Hd Hk ts Hf).
Qed.

(** * C16 / C17: the gRPC stores and BasicCompute. *)
From Coq Require Import List Arith Bool ZArith NArith Lia.
From ET Require Import Model.Scalar Model.Sparse Model.Basic Model.Grpc Proofs.SparseBase Proofs.MergeProofs.
Import ListNotations.

(** ** the qword codec: every timestamp survives *)
Lemma Q64_pos : (1 < Q64)%N. Proof. reflexivity. Qed.

Lemma to_qwords_fuel_value : forall f n acc, (n < 2 ^ N.of_nat f)%N ->
  fold_left (fun a w => (a * Q64 + w)%N) (to_qwords_fuel f n acc) 0%N = fold_left (fun a w => (a * Q64 + w)%N) acc n.
Proof.
  induction f as [|f IH]; intros n acc Hn.
  - simpl in Hn. assert (n = 0%N) by lia. subst. reflexivity.
  - cbn [to_qwords_fuel]. destruct (N.eqb_spec n 0) as [->|Hne]; [reflexivity|].
    rewrite IH.
    + cbn [fold_left]. f_equal. pose proof (N.div_mod n Q64 ltac:(discriminate)). lia.
    + rewrite Nat2N.inj_succ, N.pow_succ_r' in Hn.
      apply N.div_lt_upper_bound; [discriminate|]. unfold Q64.
      eapply N.lt_le_trans; [exact Hn|]. apply N.mul_le_mono_r. lia.
Qed.

Theorem qwords_roundtrip : forall n : N, of_qwords (to_qwords n) = n.
Proof.
  intros n. unfold of_qwords, to_qwords. rewrite to_qwords_fuel_value; [reflexivity|].
  rewrite Nat2N.inj_succ, N2Nat.id. eapply N.lt_trans; [apply N.size_gt|].
  apply N.pow_lt_mono_r; lia.
Qed.

(** ** the other direction: encode . decode drops leading zero qwords and changes nothing else *)
Definition strip0 (qs : list N) : list N := (fix go l := match l with 0%N :: t => go t | _ => l end) qs.
Definition digits_ok (qs : list N) : Prop := Forall (fun w => (w < Q64)%N) qs.

Lemma of_qwords_snoc : forall qs w, of_qwords (qs ++ [w]) = (of_qwords qs * Q64 + w)%N.
Proof. intros. unfold of_qwords. rewrite fold_left_app. reflexivity. Qed.

Lemma of_qwords_strip : forall qs, of_qwords (strip0 qs) = of_qwords qs.
Proof.
  induction qs as [|w t IH]; auto. destruct w as [|p].
  - change (strip0 (0%N :: t)) with (strip0 t). rewrite IH. unfold of_qwords. simpl. reflexivity.
  - reflexivity.
Qed.

(* fuel irrelevance: enough fuel *)
Lemma to_qwords_fuel_enough : forall f1 f2 n acc, (n < 2 ^ N.of_nat f1)%N -> (n < 2 ^ N.of_nat f2)%N ->
  to_qwords_fuel f1 n acc = to_qwords_fuel f2 n acc.
Proof.
  induction f1 as [|f1 IH]; intros f2 n acc H1 H2.
  - simpl in H1. assert (n = 0%N) by lia. subst. destruct f2; reflexivity.
  - destruct f2 as [|f2].
    + simpl in H2. assert (n = 0%N) by lia. subst. reflexivity.
    + cbn [to_qwords_fuel]. destruct (N.eqb_spec n 0); auto.
      assert (Hd : forall f, (n < 2 ^ N.of_nat (Datatypes.S f))%N -> (n / Q64 < 2 ^ N.of_nat f)%N).
      { intros f Hf. rewrite Nat2N.inj_succ, N.pow_succ_r' in Hf. apply N.div_lt_upper_bound; [discriminate|].
        unfold Q64. eapply N.lt_le_trans; [exact Hf|]. apply N.mul_le_mono_r. lia. }
      apply IH; apply Hd; auto.
Qed.
Lemma size_bound : forall n, (n < 2 ^ N.of_nat (Datatypes.S (N.to_nat (N.size n))))%N.
Proof.
  intros n. rewrite Nat2N.inj_succ, N2Nat.id. eapply N.lt_trans; [apply N.size_gt|]. apply N.pow_lt_mono_r; lia.
Qed.
Lemma to_qwords_step : forall a w, (w < Q64)%N -> (a * Q64 + w <> 0)%N ->
  forall f, (a * Q64 + w < 2 ^ N.of_nat (Datatypes.S f))%N ->
  to_qwords_fuel (Datatypes.S f) (a * Q64 + w) [] = to_qwords_fuel f a [w].
Proof.
  intros a w Hw Hnz f Hf. cbn [to_qwords_fuel]. destruct (N.eqb_spec (a * Q64 + w) 0); [contradiction|].
  assert (Hq : ((a * Q64 + w) / Q64 = a)%N). { rewrite N.div_add_l by discriminate. rewrite N.div_small by exact Hw. lia. }
  assert (Hm : ((a * Q64 + w) mod Q64 = w)%N). { rewrite N.add_comm, N.mod_add by discriminate. apply N.mod_small. exact Hw. }
  rewrite Hq, Hm. reflexivity.
Qed.
Lemma to_qwords_fuel_acc : forall f n acc, to_qwords_fuel f n acc = to_qwords_fuel f n [] ++ acc.
Proof.
  induction f as [|f IH]; intros n acc; cbn [to_qwords_fuel]; auto.
  destruct (n =? 0)%N; auto. rewrite IH, (IH _ [_]). rewrite <- app_assoc. reflexivity.
Qed.

(** canonical digit lists (no leading zero, every digit below 2^64) are fixed points of encode . decode *)
Lemma to_of_canonical : forall qs, digits_ok qs -> (match qs with 0%N :: _ => False | _ => True end) ->
  to_qwords (of_qwords qs) = qs.
Proof.
  intros qs. induction qs as [|w t IH] using rev_ind; intros Hd Hc.
  - reflexivity.
  - rewrite of_qwords_snoc. unfold digits_ok in Hd. apply Forall_app in Hd. destruct Hd as [Hdt Hdw]. inversion Hdw; subst.
    assert (Hct : match t with 0%N :: _ => False | _ => True end). { destruct t as [|x t']; simpl in *; auto. }
    specialize (IH Hdt Hct).
    assert (Hnz : (of_qwords t * Q64 + w <> 0)%N).
    { destruct t as [|x t'].
      - simpl in *. unfold of_qwords. simpl. destruct w; [contradiction|discriminate].
      - intros E. assert (Hz : of_qwords (x :: t') = 0%N) by (unfold Q64 in E; lia).
        rewrite Hz in IH. cbn in IH. discriminate. }
    unfold to_qwords.
    set (n := (of_qwords t * Q64 + w)%N) in *.
    rewrite (to_qwords_fuel_enough _ (Datatypes.S (Datatypes.S (N.to_nat (N.size n)))) n []); [|apply size_bound|].
    2:{ eapply N.lt_trans; [apply size_bound|]. apply N.pow_lt_mono_r; lia. }
    unfold n. rewrite to_qwords_step; auto.
    2:{ fold n. eapply N.lt_trans; [apply size_bound|]. apply N.pow_lt_mono_r; lia. }
    rewrite to_qwords_fuel_acc. f_equal.
    fold n. unfold to_qwords in IH. rewrite <- IH at 2.
    apply to_qwords_fuel_enough; [|apply size_bound].
    eapply N.le_lt_trans; [|apply size_bound]. unfold n.
    assert (of_qwords t <= of_qwords t * Q64 + w)%N. { unfold Q64. lia. } exact H.
Qed.

Lemma strip0_canonical : forall qs, digits_ok qs -> digits_ok (strip0 qs) /\ match strip0 qs with 0%N :: _ => False | _ => True end.
Proof.
  induction qs as [|w t IH]; intros H; [split; [constructor|exact I]|].
  inversion H; subst. simpl. destruct w.
  - apply IH. auto.
  - split; [exact H|exact I].
Qed.

(** encode . decode normalises: leading zero qwords are dropped, nothing else changes *)
Theorem qwords_normalise : forall qs, digits_ok qs -> to_qwords (of_qwords qs) = strip0 qs.
Proof.
  intros qs H. rewrite <- of_qwords_strip. destruct (strip0_canonical qs H) as [A B]. apply to_of_canonical; auto.
Qed.

Section Stores.
Context {S : ScalarOps}.
Notation entry := (nat * T S)%type.

Lemma aget_adel : forall {A} (l : list (nat * A)) id k, aget (adel l id) k = if k =? id then None else aget l k.
Proof.
  induction l as [|[j a] t IH]; intros id k; simpl.
  - destruct (k =? id); reflexivity.
  - destruct (Nat.eqb_spec j id) as [->|Ne].
    + rewrite IH. destruct (Nat.eqb_spec k id) as [->|Ne']; auto. destruct (Nat.eqb_spec id k); [congruence|reflexivity].
    + simpl. rewrite IH. destruct (Nat.eqb_spec j k) as [->|]; auto. destruct (Nat.eqb_spec k id); [congruence|reflexivity].
Qed.
Lemma aget_aset : forall {A} (l : list (nat * A)) id a k, aget (aset l id a) k = if k =? id then Some a else aget l k.
Proof. intros. unfold aset. simpl. rewrite aget_adel, (Nat.eqb_sym id k). destruct (k =? id); reflexivity. Qed.

(** the timestamp of a collection *)
Definition mts (s : gstate S) (id : nat) : option N := option_map snd (aget (g_mats s) id).
Definition vts (s : gstate S) (id : nat) : option N := option_map snd (aget (g_vecs s) id).

(** An accepted update moves the timestamp to max(old, update): it equals the
    largest update timestamp since the last flush and never moves backwards. *)
Theorem update_timestamp_max : forall (s : gstate S) id ts es m ts0 m',
  aget (g_mats s) id = Some (m, ts0) -> matrix_update m es = Some (inr m') ->
  snd (gstep s (MUpdate id ts es)) = GStatus GOk /\
  aget (g_mats (fst (gstep s (MUpdate id ts es)))) id = Some (m', N.max ts0 ts).
Proof.
  intros s id ts es m ts0 m' Hg Hu. cbn [gstep]. rewrite Hg, Hu. cbn [fst snd g_mats]. split; [reflexivity|].
  rewrite aget_aset, Nat.eqb_refl. reflexivity.
Qed.
Theorem vupdate_timestamp_max : forall (s : gstate S) id ts es v ts0 v',
  aget (g_vecs s) id = Some (v, ts0) -> vector_update v es = Some (inr v') ->
  snd (gstep s (VUpdate id ts es)) = GStatus GOk /\
  aget (g_vecs (fst (gstep s (VUpdate id ts es)))) id = Some (v', N.max ts0 ts).
Proof.
  intros s id ts es v ts0 v' Hg Hu. cbn [gstep]. rewrite Hg, Hu. cbn [fst snd g_vecs]. split; [reflexivity|].
  rewrite aget_aset, Nat.eqb_refl. reflexivity.
Qed.
(** a refused update changes nothing *)
Theorem update_refused_unchanged : forall (s : gstate S) id ts es m ts0 c,
  aget (g_mats s) id = Some (m, ts0) -> matrix_update m es = Some (inl c) ->
  gstep s (MUpdate id ts es) = (s, GStatus c).
Proof. intros s id ts es m ts0 c Hg Hu. cbn [gstep]. rewrite Hg, Hu. reflexivity. Qed.

(** no request other than Flush/Delete/Create of that id lowers a timestamp *)
Definition resets (r : greq S) (id : nat) : bool :=
  match r with
  | MFlush k | MDelete k | MCreate (Some k) _ | MCreate None k => k =? id
  | _ => false
  end.
Lemma mat_entry_after : forall (s : gstate S) (r : greq S) id, resets r id = false ->
  aget (g_mats (fst (gstep s r))) id = aget (g_mats s) id \/
  exists ts es m ts0 m', r = MUpdate id ts es /\ aget (g_mats s) id = Some (m, ts0) /\
                         aget (g_mats (fst (gstep s r))) id = Some (m', N.max ts0 ts).
Proof.
  intros s r id Hr. destruct r as [[k|] f|k|k ts es|k|k|[k|] f|k|k ts es|k|k]; cbn [gstep resets] in *.
  - destruct (aget (g_mats s) k); cbn [fst g_mats]; [left; reflexivity|]. left. rewrite aget_aset, (Nat.eqb_sym id k), Hr. reflexivity.
  - left. cbn [fst g_mats]. rewrite aget_aset, (Nat.eqb_sym id f), Hr. reflexivity.
  - destruct (aget (g_mats s) k) as [[? ?]|]; left; reflexivity.
  - destruct (aget (g_mats s) k) as [[mk tk]|] eqn:Ek; [|left; reflexivity].
    destruct (matrix_update mk es) as [[c|m']|]; cbn [fst g_mats]; try (left; reflexivity).
    destruct (Nat.eqb_spec id k) as [->|Ne].
    + right. exists ts, es, mk, tk, m'. repeat split; auto. rewrite aget_aset, Nat.eqb_refl. reflexivity.
    + left. rewrite aget_aset. destruct (Nat.eqb_spec id k); [contradiction|reflexivity].
  - destruct (aget (g_mats s) k); cbn [fst g_mats]; [|left; reflexivity]. left. rewrite aget_aset, (Nat.eqb_sym id k), Hr. reflexivity.
  - destruct (aget (g_mats s) k); cbn [fst g_mats]; [|left; reflexivity]. left. rewrite aget_adel, (Nat.eqb_sym id k), Hr. reflexivity.
  - destruct (aget (g_vecs s) k); left; reflexivity.
  - left; reflexivity.
  - destruct (aget (g_vecs s) k) as [[? ?]|]; left; reflexivity.
  - destruct (aget (g_vecs s) k) as [[vk tk]|]; [|left; reflexivity].
    destruct (vector_update vk es) as [[c|v']|]; left; reflexivity.
  - destruct (aget (g_vecs s) k); left; reflexivity.
  - destruct (aget (g_vecs s) k); left; reflexivity.
Qed.

Theorem timestamp_monotone : forall (s : gstate S) (r : greq S) id t0,
  resets r id = false -> mts s id = Some t0 ->
  exists t1, mts (fst (gstep s r)) id = Some t1 /\ (t0 <= t1)%N.
Proof.
  intros s r id t0 Hr Ht. unfold mts in *. destruct (mat_entry_after s r id Hr) as [He|(ts & es & m & ts0 & m' & _ & Hg & Ha)].
  - rewrite He. exists t0. split; [exact Ht|lia].
  - rewrite Hg in Ht. cbn in Ht. inversion Ht; subst. rewrite Ha. cbn. exists (N.max t0 ts). split; [reflexivity|lia].
Qed.

(** unknown ids are reported as NotFound and change nothing *)
Theorem unknown_id_not_found : forall (s : gstate S) id,
  aget (g_mats s) id = None ->
  (forall ts es, gstep s (MUpdate id ts es) = (s, GStatus GNotFound)) /\
  gstep s (MGet id) = (s, GStatus GNotFound) /\ gstep s (MFlush id) = (s, GStatus GNotFound) /\
  gstep s (MDelete id) = (s, GStatus GNotFound).
Proof. intros s id H. cbn [gstep]. rewrite H. repeat split; reflexivity. Qed.

(** naming an existing id in Create is an error and changes nothing *)
Theorem create_existing_refused : forall (s : gstate S) id f x,
  aget (g_mats s) id = Some x -> gstep s (MCreate (Some id) f) = (s, GStatus GUnknown).
Proof. intros s id f x H. cbn [gstep]. rewrite H. reflexivity. Qed.

(** an accepted update merges exactly the batch built from the parsed entries
    (zeros included, so that they erase), squared to the largest index + 1 *)
Fixpoint parsed_coos (es : list (pidx * pidx * T S)) : list (coo S) :=
  match es with
  | [] => []
  | (pi, pj, v) :: t => (Z.to_nat (zidx pi), Z.to_nat (zidx pj), v) :: parsed_coos t
  end.
Definition batch_dim (es : list (pidx * pidx * T S)) : nat :=
  fold_right (fun e d => let '(pi, pj, _) := e in Nat.max d (Nat.max (Datatypes.S (Z.to_nat (zidx pi))) (Datatypes.S (Z.to_nat (zidx pj))))) 0 es.
Definition all_valid (es : list (pidx * pidx * T S)) : Prop :=
  Forall (fun e => let '(pi, pj, _) := e in exists i j, pi = Some i /\ pj = Some j /\ (0 <= i)%Z /\ (0 <= j)%Z) es.

Theorem matrix_update_spec : forall (c : csm S) es, all_valid es ->
  exists d, matrix_update c es = Some (inr (fst (mmerge c (new_csr d d (parsed_coos es) true)))) /\ d = batch_dim es.
Proof.
  intros c es Hv. unfold matrix_update.
  assert (Hgen : forall l acc rows cols, all_valid l ->
    (fix go (l : list (pidx * pidx * T S)) (acc : list (coo S)) (rows cols : nat) : option (gcode + csm S) :=
       match l with
       | [] => let d := Nat.max rows cols in Some (inr (fst (mmerge c (new_csr d d (rev acc) true))))
       | (pi, pj, v) :: t =>
           match pi, pj with
           | Some i, Some j =>
               if (i <? 0)%Z || (j <? 0)%Z then Some (inl GInvalidArgument)
               else go t ((Z.to_nat i, Z.to_nat j, v) :: acc) (Nat.max rows (Datatypes.S (Z.to_nat i))) (Nat.max cols (Datatypes.S (Z.to_nat j)))
           | _, _ => Some (inl GInvalidArgument)
           end
       end) l acc rows cols =
    Some (inr (fst (mmerge c (new_csr (Nat.max (Nat.max rows cols) (batch_dim l)) (Nat.max (Nat.max rows cols) (batch_dim l)) (rev acc ++ parsed_coos l) true))))).
  { induction l as [|[[pi pj] v] t IH]; intros acc rows cols Hl.
    - cbn [batch_dim fold_right parsed_coos]. rewrite app_nil_r, Nat.max_0_r. reflexivity.
    - inversion Hl as [|? ? He Ht]; subst. cbn in He. destruct He as (i & j & -> & -> & Hi & Hj).
      destruct (Z.ltb_spec i 0); [lia|]. destruct (Z.ltb_spec j 0); [lia|]. cbn [orb].
      rewrite IH; auto. cbn [batch_dim fold_right parsed_coos zidx rev]. rewrite <- app_assoc. cbn [app].
      assert (Ed : Nat.max (Nat.max (Nat.max rows (Datatypes.S (Z.to_nat i))) (Nat.max cols (Datatypes.S (Z.to_nat j)))) (batch_dim t) =
                   Nat.max (Nat.max rows cols) (Nat.max (batch_dim t) (Nat.max (Datatypes.S (Z.to_nat i)) (Datatypes.S (Z.to_nat j))))) by lia.
      rewrite Ed. reflexivity. }
  specialize (Hgen es [] 0 0 Hv). cbn [rev app Nat.max] in Hgen. exists (batch_dim es). split; auto.
Qed.

End Stores.

(** ** BasicCompute (C17) *)
Section Compute.
Context {S : ScalarOps}.

Ltac bc_cases :=
  repeat match goal with
         | |- context [match ?x with _ => _ end] => destruct x; cbn [fst snd g_mats g_vecs]
         | |- context [if ?x then _ else _] => destruct x; cbn [fst snd g_mats g_vecs]
         | |- context [let '(_, _) := ?x in _] => destruct x; cbn [fst snd g_mats g_vecs]
         end.

(** the stored matrices (local trust) are never modified, whatever the outcome *)
Theorem basic_compute_preserves_matrices : forall fuel deps (s : gstate S) q,
  g_mats (fst (basic_compute fuel deps s q)) = g_mats s.
Proof. intros. unfold basic_compute. bc_cases; reflexivity. Qed.

(** every refusal leaves the whole state unchanged *)
Theorem basic_compute_refusal_unchanged : forall fuel deps (s : gstate S) q,
  snd (basic_compute fuel deps s q) <> GOk -> fst (basic_compute fuel deps s q) = s.
Proof. intros fuel deps s q. unfold basic_compute. bc_cases; intros H; try reflexivity; exfalso; apply H; reflexivity. Qed.

(** unknown ids are NotFound *)
Theorem basic_compute_unknown_local : forall fuel deps (s : gstate S) q,
  aget (g_mats s) (bc_local q) = None -> basic_compute fuel deps s q = (s, GNotFound).
Proof. intros fuel deps s q H. unfold basic_compute. rewrite H. reflexivity. Qed.

(** vectors other than the global-trust and positive-only outputs are untouched *)
Theorem basic_compute_other_vectors : forall fuel deps (s : gstate S) q k,
  k <> bc_global q -> (forall g, bc_positive q = Some g -> k <> g) ->
  aget (g_vecs (fst (basic_compute fuel deps s q))) k = aget (g_vecs s) k.
Proof.
  intros fuel deps s q k Hg Hp. unfold basic_compute.
  repeat match goal with
         | |- context [match bc_positive q with _ => _ end] => destruct (bc_positive q) as [gid|] eqn:Epos
         | |- context [match ?x with _ => _ end] => destruct x; cbn [fst snd g_mats g_vecs]
         | |- context [if ?x then _ else _] => destruct x; cbn [fst snd g_mats g_vecs]
         | |- context [let '(_, _) := ?x in _] => destruct x; cbn [fst snd g_mats g_vecs]
         end; try reflexivity;
  rewrite ?aget_aset;
  repeat match goal with
         | |- context [k =? ?x] => destruct (Nat.eqb_spec k x); [subst; try contradiction; try (exfalso; eapply Hp; eauto; fail)|]
         end; try reflexivity.
Qed.

End Compute.

(** ** timestamps of BasicCompute *)
Section ComputeStamps.
Context {S : ScalarOps}.

Ltac bc_cases' :=
  repeat match goal with
         | |- context [match ?x with _ => _ end] => destruct x eqn:?; cbn [fst snd g_mats g_vecs]
         | |- context [if ?x then _ else _] => destruct x eqn:?; cbn [fst snd g_mats g_vecs]
         | |- context [let '(_, _) := ?x in _] => destruct x eqn:?; cbn [fst snd g_mats g_vecs]
         end.

(** no timestamp of any stored vector is ever lowered by BasicCompute, whatever the outcome *)
Theorem basic_compute_timestamps_monotone : forall fuel deps (s : gstate S) q k v ts,
  aget (g_vecs s) k = Some (v, ts) ->
  exists v' ts', aget (g_vecs (fst (basic_compute fuel deps s q))) k = Some (v', ts') /\ (ts <= ts')%N.
Proof.
  intros fuel deps s q k v ts Hk. unfold basic_compute.
  bc_cases'; try (exists v, ts; split; [exact Hk|lia]);
  rewrite ?aget_aset;
  repeat match goal with
  | |- context [?a =? ?b] => destruct (Nat.eqb_spec a b); subst
  end;
  repeat match goal with
  | H : aget (aset _ _ _) _ = _ |- _ => rewrite aget_aset in H
  | H : context [?a =? ?a] |- _ => rewrite Nat.eqb_refl in H
  end;
  repeat match goal with
  | H : Some _ = Some _ |- _ => inversion H; clear H; subst
  | H1 : aget ?l ?k = Some _, H2 : aget ?l ?k = Some _ |- _ => rewrite H1 in H2
  | H1 : aget ?l ?k = Some _, H2 : aget ?l ?k = None |- _ => rewrite H1 in H2; discriminate
  end;
  try (eexists; eexists; split; [reflexivity|lia]);
  try (exists v, ts; split; [assumption|lia]).
Qed.

(*  an accepted BasicCompute stamps the global-trust vector with a timestamp at least as new as
    the local trust's and the pre-trust's (and, by the previous theorem, its own previous one) *)
Ltac inner_cases :=
  repeat match goal with
         | |- context [if ?x then _ else _] =>
             lazymatch x with
             | context [if _ then _ else _] => fail
             | context [match _ with _ => _ end] => fail
             | _ => destruct x eqn:?; cbn [fst snd g_mats g_vecs]
             end
         | |- context [match ?x with _ => _ end] =>
             lazymatch x with
             | context [if _ then _ else _] => fail
             | context [match _ with _ => _ end] => fail
             | _ => destruct x eqn:?; cbn [fst snd g_mats g_vecs]
             end
         end.

Theorem basic_compute_stamp : forall fuel deps (s : gstate S) q c tsc,
  snd (basic_compute fuel deps s q) = GOk -> aget (g_mats s) (bc_local q) = Some (c, tsc) ->
  exists v' ts', aget (g_vecs (fst (basic_compute fuel deps s q))) (bc_global q) = Some (v', ts') /\ (tsc <= ts')%N /\
    (forall pid p tsp, bc_pre q = Some pid -> aget (g_vecs s) pid = Some (p, tsp) -> (tsp <= ts')%N).
Proof.
  intros fuel deps s q c tsc. unfold basic_compute. intros Hok Hc. rewrite Hc in *.
  revert Hok. inner_cases; intros Hok; try discriminate;
  rewrite ?aget_aset, ?Nat.eqb_refl;
  (eexists; eexists; split; [reflexivity|]);
  (split; [lia|]); intros pidX pX tspX Hp Hg;
  repeat match goal with
  | H : Some _ = Some _ |- _ => inversion H; clear H; subst
  | H1 : aget ?l ?k = Some _, H2 : aget ?l ?k = Some _ |- _ => rewrite H1 in H2
  end; try discriminate; try lia.
Qed.
End ComputeStamps.

(** * Non-negativity under rounded arithmetic.

    For the instance [RND rnd] of the model (every operation = exact real
    operation followed by [rnd]) with a rounding of bounded relative error
    ([rnd x = x (1 + eps)], [|eps| <= u], as round-to-nearest in a format with
    unbounded exponents), the compensated sum of non-negative terms is
    non-negative: the compensation term, although it may be negative, stays
    below the running sum in magnitude.  Consequently every operation of the
    power iteration maps non-negative entries to non-negative entries. *)
From Coq Require Import List Arith Bool Lia Reals Lra Psatz.
From Flocq Require Import Raux Core Relative.
From ET Require Import Model.Scalar Model.Sparse Model.Basic Proofs.SparseBase Proofs.VectorProofs Proofs.MatrixProofs Proofs.RInst Proofs.ScaleRound.
Import ListNotations.
Local Open Scope R_scope.

Section RelErr.
Variable rnd : R -> R.
Variable u : R.
Hypothesis u_pos : 0 <= u.
Hypothesis u_small : u <= /1024.
Hypothesis rnd_rel : forall x, exists eps, Rabs eps <= u /\ rnd x = x * (1 + eps).

Lemma rnd_nonneg : forall x, 0 <= x -> 0 <= rnd x.
Proof.
  intros x Hx. destruct (rnd_rel x) as [e [He ->]]. apply Rabs_le_inv in He. nra.
Qed.

Lemma rnd_lower : forall x, 0 <= x -> x * (1 - u) <= rnd x.
Proof. intros x Hx. destruct (rnd_rel x) as [e [He ->]]. apply Rabs_le_inv in He. nra. Qed.

Lemma rnd_abs : forall x, Rabs (rnd x) <= Rabs x * (1 + u).
Proof.
  intros x. destruct (rnd_rel x) as [e [He ->]]. rewrite Rabs_mult.
  apply Rmult_le_compat_l; [apply Rabs_pos|]. apply Rabs_le_inv in He. apply Rabs_le. lra.
Qed.

Lemma rnd_err : forall x, Rabs (rnd x - x) <= u * Rabs x.
Proof.
  intros x. destruct (rnd_rel x) as [e [He ->]].
  replace (x * (1 + e) - x) with (e * x) by ring. rewrite Rabs_mult.
  apply Rmult_le_compat_r; [apply Rabs_pos|exact He].
Qed.

Notation K := (RND rnd).

(** one KBN step on non-negative data: the compensation stays within [(b + 8u)] of the new sum *)
Lemma kbn_step_bound : forall (k : kbn K) (v b : R),
  0 <= ksum k -> Rabs (kcomp k) <= b * ksum k -> 0 <= b <= /2 -> 0 <= v ->
  0 <= ksum (@kbn_add K k v) /\ Rabs (kcomp (@kbn_add K k v)) <= (b + 8 * u) * ksum (@kbn_add K k v).
Proof.
  intros k v b Hs Hc Hb Hv. unfold kbn_add. cbn [ksum kcomp].
  set (s := ksum k) in *. set (c := kcomp k) in *.
  change (ltb K (sabs K s) (sabs K v)) with (Rltb (Rabs s) (Rabs v)).
  change (add K) with (fun x y => rnd (x + y)). change (sub K) with (fun x y => rnd (x - y)). cbv beta.
  set (more := if Rltb (Rabs s) (Rabs v) then v else s).
  set (less := if Rltb (Rabs s) (Rabs v) then s else v).
  assert (Hml : more + less = s + v /\ 0 <= less /\ less <= s + v /\ 0 <= more).
  { unfold more, less. destruct (Rltb (Rabs s) (Rabs v)); lra. }
  destruct Hml as (Hsum & Hl0 & Hl1 & Hm0).
  set (s' := rnd (s + v)).
  assert (Hs'0 : 0 <= s') by (apply rnd_nonneg; lra).
  assert (Hs'l : (s + v) * (1 - u) <= s') by (apply rnd_lower; lra).
  assert (He1 : Rabs (s' - (s + v)) <= u * (s + v)).
  { unfold s'. eapply Rle_trans; [apply rnd_err|]. rewrite Rabs_pos_eq by lra. lra. }
  split; [exact Hs'0|].
  assert (Hsv : 0 <= s + v) by lra.
  set (X := u * (s + v)) in *.
  assert (HX : 0 <= X) by (unfold X; apply Rmult_le_pos; assumption).
  assert (HuX : u * X <= X / 1024) by (unfold Rdiv; rewrite Rmult_comm; apply Rmult_le_compat_l; assumption).
  assert (HuX0 : 0 <= u * X) by (apply Rmult_le_pos; assumption).
  (* tr = rnd (s' - more);  s' - more = less + (s' - (s+v)) *)
  set (tr := rnd (s' - more)).
  assert (Hx : Rabs (s' - more) <= (s + v) + X).
  { replace (s' - more) with (less + (s' - (s + v))) by lra.
    eapply Rle_trans; [apply Rabs_triang|]. rewrite (Rabs_pos_eq less) by lra. lra. }
  assert (He2 : Rabs (tr - (s' - more)) <= X + u * X).
  { unfold tr. eapply Rle_trans; [apply rnd_err|].
    apply Rle_trans with (u * ((s + v) + X)); [apply Rmult_le_compat_l; [exact u_pos|exact Hx]|].
    unfold X. lra. }
  (* d = less - tr = -(s' - (s+v)) - (tr - (s' - more)) *)
  assert (Hd : Rabs (less - tr) <= 3 * X).
  { replace (less - tr) with (- (s' - (s + v)) + - (tr - (s' - more))) by lra.
    eapply Rle_trans; [apply Rabs_triang|]. rewrite !Rabs_Ropp. lra. }
  set (r := rnd (less - tr)).
  assert (Hr : Rabs r <= 4 * X).
  { unfold r. eapply Rle_trans; [apply rnd_abs|].
    apply Rle_trans with (3 * X * (1 + u)); [apply Rmult_le_compat_r; [lra|exact Hd]|]. lra. }
  assert (Hc' : Rabs (rnd (c + r)) <= (b * s + 4 * X) * (1 + u)).
  { eapply Rle_trans; [apply rnd_abs|]. apply Rmult_le_compat_r; [lra|].
    eapply Rle_trans; [apply Rabs_triang|]. lra. }
  eapply Rle_trans; [exact Hc'|].
  (* (b s + 4X)(1+u) <= (b + 8u)(s+v)(1-u) <= (b + 8u) s' *)
  apply Rle_trans with ((b + 8 * u) * ((s + v) * (1 - u))).
  - (* with Y = b (s+v):  lhs <= (Y + 4X)(1+u) = Y + uY + 4X + 4uX;  rhs = Y - uY + 8X - 8uX *)
    assert (HY : 0 <= b * (s + v)) by (apply Rmult_le_pos; lra).
    assert (HbX : b * X <= X / 2) by (unfold Rdiv; rewrite Rmult_comm; apply Rmult_le_compat_l; lra).
    assert (Hbs : b * s <= b * (s + v)) by (apply Rmult_le_compat_l; lra).
    replace ((b + 8 * u) * ((s + v) * (1 - u))) with (b * (s + v) - b * X + 8 * X - 8 * (u * X)) by (unfold X; ring).
    apply Rle_trans with ((b * (s + v) + 4 * X) * (1 + u)).
    + apply Rmult_le_compat_r; lra.
    + replace ((b * (s + v) + 4 * X) * (1 + u)) with (b * (s + v) + b * X + 4 * X + 4 * (u * X)) by (unfold X; ring). lra.
  - apply Rmult_le_compat_l; [lra|exact Hs'l].
Qed.

Lemma kbn_fold_bound : forall (l : list R) (k : kbn K) (b : R),
  Forall (fun x => 0 <= x) l ->
  0 <= ksum k -> Rabs (kcomp k) <= b * ksum k -> 0 <= b -> b + INR (length l) * (8 * u) <= /2 ->
  let k' := fold_left (@kbn_add K) l k in
  0 <= ksum k' /\ Rabs (kcomp k') <= (b + INR (length l) * (8 * u)) * ksum k'.
Proof.
  induction l as [|v t IH]; intros k b HF Hs Hc Hb Hn.
  - cbn [fold_left length INR]. split; [exact Hs|]. rewrite Rmult_0_l, Rplus_0_r. exact Hc.
  - inversion HF as [|? ? Hv Ht]; subst. cbn [fold_left].
    assert (Hlen : INR (length (v :: t)) = INR (length t) + 1) by (cbn [length]; rewrite S_INR; reflexivity).
    rewrite Hlen in Hn |- *.
    assert (Hpos : 0 <= INR (length t)) by apply pos_INR.
    destruct (kbn_step_bound k v b Hs Hc) as [Hs1 Hc1]; [nra|exact Hv|].
    specialize (IH (@kbn_add K k v) (b + 8 * u) Ht Hs1 Hc1).
    destruct IH as [H1 H2]; [nra|nra|].
    split; [exact H1|]. replace (b + (INR (length t) + 1) * (8 * u)) with (b + 8 * u + INR (length t) * (8 * u)) by ring.
    exact H2.
Qed.

(** the compensated sum of non-negative terms is non-negative *)
Theorem kbn_total_nonneg : forall l : list R,
  Forall (fun x => 0 <= x) l -> INR (length l) * (8 * u) <= /2 -> 0 <= @kbn_total K l.
Proof.
  intros l HF Hn. unfold kbn_total, kbn_sum.
  destruct (kbn_fold_bound l (@kbn0 K) 0 HF) as [Hs Hc].
  - cbn. lra.
  - cbn. rewrite Rabs_R0. lra.
  - lra.
  - lra.
  - change (add K) with (fun x y => rnd (x + y)). cbv beta. apply rnd_nonneg.
    set (k' := fold_left (@kbn_add K) l (@kbn0 K)) in *.
    rewrite Rplus_0_l in Hc. apply Rabs_le_inv in Hc.
    assert (INR (length l) * (8 * u) * ksum k' <= ksum k') by nra. lra.
Qed.

(** ** every operation of the power iteration keeps entries non-negative *)
Definition nn (l : list (nat * R)) : Prop := Forall (fun e => 0 <= snd e) l.
Definition rowbound (m : csm K) : Prop := Forall (fun r : list (nat * R) => INR (length r) * (8 * u) <= /2) (rows m).

Lemma common_prods_nn : forall l1 l2 : list (nat * R), nn l1 -> nn l2 ->
  Forall (fun x => 0 <= x) (@common_prods K l1 l2) /\ (length (@common_prods K l1 l2) <= length l1)%nat.
Proof.
  induction l1 as [|[i1 x1] t1 IH1]; intros l2 H1 H2.
  - destruct l2; cbn; split; auto.
  - induction l2 as [|[i2 x2] t2 IH2].
    + change (@common_prods K ((i1, x1) :: t1) []) with (@nil R). cbn. split; [constructor|lia].
    + rewrite (@common_prods_eq K). inversion H1 as [|? ? Hx1 Ht1]; subst. inversion H2 as [|? ? Hx2 Ht2]; subst.
      cbn [snd] in *. destruct (i1 <? i2).
      * destruct (IH1 ((i2, x2) :: t2) Ht1 H2) as [A B]. split; [exact A|simpl length in *; lia].
      * destruct (i2 <? i1).
        -- apply IH2. exact Ht2.
        -- destruct (IH1 t2 Ht1 Ht2) as [A B]. split.
           ++ constructor; [|exact A]. change (mul K x1 x2) with (rnd (x1 * x2)). apply rnd_nonneg. nra.
           ++ simpl length in *. lia.
Qed.

Lemma vecdot_nn : forall v1 v2 : vec K, WFv v1 -> WFv v2 -> nn (vents v1) -> nn (vents v2) ->
  INR (length (vents v1)) * (8 * u) <= /2 -> 0 <= @vecdot K v1 v2.
Proof.
  intros v1 v2 W1 W2 N1 N2 Hb. rewrite (vecdot_struct v1 v2 W1 W2).
  destruct (common_prods_nn _ _ N1 N2) as [A B]. apply kbn_total_nonneg; [exact A|].
  apply Rle_trans with (INR (length (vents v1)) * (8 * u)); [|exact Hb].
  apply Rmult_le_compat_r; [lra|]. apply le_INR. exact B.
Qed.

Lemma merge_add_nn : forall e1 e2 : list (nat * R), nn e1 -> nn e2 -> nn (@merge_add K e1 e2).
Proof.
  induction e1 as [|[i1 x1] t1 IH1]; intros e2 H1 H2.
  - rewrite (@merge_add_nil_l K). exact H2.
  - induction e2 as [|[i2 x2] t2 IH2].
    + rewrite (@merge_add_nil_r K). exact H1.
    + rewrite (@merge_add_eq K). inversion H1 as [|? ? Hx1 Ht1]; subst. inversion H2 as [|? ? Hx2 Ht2]; subst.
      cbn [snd] in *. destruct (i1 <? i2).
      * constructor; [exact Hx1|]. apply IH1; assumption.
      * destruct (i2 <? i1).
        -- constructor; [exact Hx2|]. apply IH2. exact Ht2.
        -- constructor; [|apply IH1; assumption]. cbn [snd]. change (add K x1 x2) with (rnd (x1 + x2)).
           apply rnd_nonneg. lra.
Qed.

Lemma scalevec_nn : forall (a : R) (v : vec K), 0 <= a -> nn (vents v) -> nn (vents (@scalevec K a v)).
Proof.
  intros a v Ha Hv. unfold scalevec.
  destruct (eqb K a (zero K)); [constructor|]. destruct (eqb K a (one K)); [exact Hv|].
  cbn [vents]. unfold scale_entries. unfold nn. apply Forall_forall. intros e He.
  apply filter_In in He. destruct He as [He _]. apply in_map_iff in He. destruct He as [[j x] [<- Hin]].
  cbn [fst snd]. change (mul K x a) with (rnd (x * a)). apply rnd_nonneg.
  unfold nn in Hv. rewrite Forall_forall in Hv. specialize (Hv _ Hin). cbn in Hv. nra.
Qed.

Lemma row_vec_facts : forall (m : csm K) i, WFm m -> Forall nn (rows m) -> rowbound m ->
  WFv (row_vec m i) /\ nn (vents (row_vec m i)) /\ INR (length (vents (row_vec m i))) * (8 * u) <= /2.
Proof.
  intros m i [Hlen HF] Hnn Hrb. unfold row_vec, row. cbn [vents vdim].
  destruct (Nat.lt_ge_cases i (length (rows m))) as [Hi|Hi].
  - assert (Hin : In (nth i (rows m) []) (rows m)) by (apply nth_In; exact Hi).
    rewrite Forall_forall in HF, Hnn. unfold rowbound in Hrb. rewrite Forall_forall in Hrb.
    repeat split; [apply (HF _ Hin)|apply (HF _ Hin)|apply (Hnn _ Hin)|apply (Hrb _ Hin)].
  - rewrite nth_overflow by exact Hi. repeat split; try constructor. cbn. lra.
Qed.

Lemma mulvec_nn : forall (m : csm K) (v r : vec K), WFm m -> WFv v -> Forall nn (rows m) -> rowbound m ->
  nn (vents v) -> @mulvec K m v = Ok r -> nn (vents r) /\ WFv r /\ vdim r = major m.
Proof.
  intros m v r Wm Wv Hnn Hrb Hv H.
  pose proof (mulvec_spec m v) as Hs. rewrite H in Hs. destruct Hs as (_ & _ & Hd & Wr & _).
  split; [|split; assumption].
  unfold mulvec in H. destruct (mdim m) as [d| | |]; cbn [rbind] in H; try discriminate.
  destruct (d =? vdim v); [|discriminate]. inversion H; subst. cbn [vents].
  unfold nn. apply Forall_forall. intros e He. apply filter_In in He. destruct He as [He _].
  apply in_map_iff in He. destruct He as [k [<- _]]. cbn [snd].
  destruct (row_vec_facts m k Wm Hnn Hrb) as (W & N & B). exact (vecdot_nn (row_vec m k) v W Wv N Hv B).
Qed.

Lemma iter_step_nn : forall (ct : csm K) (ap t1 t' : vec K) (a : R),
  WFm ct -> Forall nn (rows ct) -> rowbound ct -> WFv ap -> nn (vents ap) -> 0 <= a <= 1 ->
  WFv t1 -> nn (vents t1) -> @iter_step K ct ap a t1 = Ok t' -> WFv t' /\ nn (vents t').
Proof.
  intros ct ap t1 t' a Wm Hnn Hrb Wap Nap Ha Wt Nt H. unfold iter_step in H.
  destruct (@mulvec K ct t1) as [mt| | |] eqn:Em; cbn [rbind] in H; try discriminate.
  destruct (mulvec_nn ct t1 mt Wm Wt Hnn Hrb Nt Em) as (Nmt & Wmt & _).
  set (sv := @scalevec K (sub K (one K) a) mt) in *.
  assert (Hsa : 0 <= sub K (one K) a) by (change (sub K (one K) a) with (rnd (1 - a)); apply rnd_nonneg; lra).
  assert (Nsv : nn (vents sv)) by (apply scalevec_nn; assumption).
  destruct (scalevec_spec (sub K (one K) a) mt Wmt) as (_ & Wsv & _). fold sv in Wsv.
  pose proof (addvec_spec sv ap Wsv Wap) as Hs. unfold addvec in H.
  destruct (vdim sv =? vdim ap) eqn:E; [|discriminate].
  destruct Hs as [r [Hr (_ & Wr & _)]]. unfold addvec in Hr. rewrite E in Hr. rewrite Hr in H. inversion H; subst t'.
  split; [exact Wr|]. inversion Hr; subst r. cbn [vents]. apply merge_add_nn; assumption.
Qed.

Theorem loop_nn : forall fuel (ct : csm K) (ap : vec K) (a e : R) mn fq mx ftl nl i (t1 : vec K) cv st (t : vec K) k st',
  WFm ct -> Forall nn (rows ct) -> rowbound ct -> WFv ap -> nn (vents ap) -> 0 <= a <= 1 ->
  WFv t1 -> nn (vents t1) ->
  @loop K fuel ct ap a e mn fq mx ftl nl i t1 cv st = Done t k st' -> nn (vents t).
Proof.
  induction fuel as [|fuel IH]; intros ct ap a e mn fq mx ftl nl i t1 cv st t k st' Wm Hnn Hrb Wap Nap Ha Wt Nt H;
    cbn [loop] in H; [discriminate|].
  destruct (match mx with Some m => m <=? i | None => false end); [inversion H; subst; exact Nt|].
  destruct ((mn <=? i) && ((i - mn) mod fq =? 0)).
  - destruct (conv_update cv t1) as [cv'| | |]; try discriminate.
    destruct (nl <? 0)%Z; [discriminate|].
    destruct (converged cv' && ft_reached _ ftl); [inversion H; subst; exact Nt|].
    destruct (@iter_step K ct ap a t1) as [t1'| | |] eqn:Ei; try discriminate.
    destruct (iter_step_nn _ _ _ _ _ Wm Hnn Hrb Wap Nap Ha Wt Nt Ei) as [W' N']. exact (IH _ _ _ _ _ _ _ _ _ _ _ _ _ _ _ _ Wm Hnn Hrb Wap Nap Ha W' N' H).
  - destruct (@iter_step K ct ap a t1) as [t1'| | |] eqn:Ei; try discriminate.
    destruct (iter_step_nn _ _ _ _ _ Wm Hnn Hrb Wap Nap Ha Wt Nt Ei) as [W' N']. exact (IH _ _ _ _ _ _ _ _ _ _ _ _ _ _ _ _ Wm Hnn Hrb Wap Nap Ha W' N' H).
Qed.

(** the whole of Compute, from the caller's (canonical or not) non-negative inputs *)
Lemma sorted_bounded_length_aux : forall (l : list (nat * R)) lo d,
  @sorted K l -> Forall (fun e => lo <= fst e < d)%nat l -> (length l <= d - lo)%nat.
Proof.
  induction l as [|[i x] t IH]; intros lo d Hs Hb; [cbn; lia|].
  inversion Hb as [|? ? Hi Ht]; subst. cbn [fst] in Hi.
  destruct (sorted_cons_inv _ _ _ Hs) as [Hst Hlt].
  assert (Ht' : Forall (fun e => (Datatypes.S i <= fst e < d)%nat) t).
  { apply Forall_forall. intros e He. rewrite Forall_forall in Ht. specialize (Ht e He).
    assert (i < fst e)%nat by (apply Hlt; apply in_map; exact He). lia. }
  specialize (IH (Datatypes.S i) d Hst Ht'). cbn [length]. lia.
Qed.
Lemma sorted_bounded_length : forall (l : list (nat * R)) d, @sorted K l -> @bounded K d l -> (length l <= d)%nat.
Proof.
  intros l d Hs Hb. pose proof (sorted_bounded_length_aux l 0 d Hs) as H. rewrite Nat.sub_0_r in H. apply H.
  unfold bounded in Hb. eapply Forall_impl; [|exact Hb]. intros e He. cbn in He. lia.
Qed.

Lemma col_of_nn : forall (rws : list (list (nat * R))) c r0, Forall nn rws -> nn (@col_of K c r0 rws).
Proof.
  induction rws as [|rw t IH]; intros c r0 HF; cbn [col_of]; [constructor|].
  inversion HF as [|? ? Hr Ht]; subst. unfold nn. apply Forall_app. split; [|apply IH; exact Ht].
  apply Forall_forall. intros e He. apply in_map_iff in He. destruct He as [e0 [<- He0]].
  apply filter_In in He0. destruct He0 as [He0 _]. unfold nn in Hr. rewrite Forall_forall in Hr. exact (Hr _ He0).
Qed.

Lemma transpose_nn : forall m : csm K, Forall nn (rows m) -> Forall nn (rows (@transpose K m)).
Proof.
  intros m H. unfold transpose. cbn [rows]. apply Forall_forall. intros r Hr.
  apply in_map_iff in Hr. destruct Hr as [c [<- _]]. apply col_of_nn. exact H.
Qed.

Lemma rowbound_of_dim : forall m : csm K, WFm m -> INR (minor m) * (8 * u) <= /2 -> rowbound m.
Proof.
  intros m [_ HF] Hb. unfold rowbound. apply Forall_forall. intros r Hr.
  rewrite Forall_forall in HF. destruct (HF _ Hr) as [Hs Hbd].
  apply Rle_trans with (INR (minor m) * (8 * u)); [|exact Hb].
  apply Rmult_le_compat_r; [lra|]. apply le_INR. apply sorted_bounded_length; assumption.
Qed.

Theorem compute_nn : forall fuel (c : csm K) (p : vec K) (a e : R) (o : opts K) (t : vec K) k st,
  WFm c -> Forall nn (rows c) -> WFv p -> nn (vents p) ->
  (forall t0, o_t0 o = Some t0 -> WFv t0 /\ nn (vents t0)) ->
  INR (major c) * (8 * u) <= /2 ->
  @compute K fuel c p a e o = Done t k st -> nn (vents t).
Proof.
  intros fuel c p a e o t k st Wc Nc Wp Np Ht0 Hdim H. unfold compute in H.
  destruct (mdim c) as [n| | |] eqn:Ed; try discriminate.
  destruct (n =? 0); [discriminate|].
  destruct (negb (vdim p =? n) || _ || _); [discriminate|].
  destruct (leb K (zero K) a && leb K a (one K)) eqn:Ea; cbn [negb] in H; [|discriminate].
  apply andb_true_iff in Ea. destruct Ea as [Ea0 Ea1].
  change (leb K (zero K) a) with (Rleb 0 a) in Ea0. change (leb K a (one K)) with (Rleb a 1) in Ea1.
  apply Rleb_true in Ea0. apply Rleb_true in Ea1.
  destruct (negb (ltb K (zero K) e)); [discriminate|].
  destruct (_ <? 1)%Z; [discriminate|]. destruct (_ <? 0)%Z; [discriminate|]. destruct (_ <=? 0)%Z; [discriminate|].
  destruct (transpose_spec c Wc) as (Wct & Hmaj & Hmin & _).
  assert (Hrb : rowbound (@transpose K c)) by (apply rowbound_of_dim; [exact Wct|rewrite Hmin; exact Hdim]).
  destruct (@scalevec_spec K a p Wp) as (_ & Wap & _).
  assert (Nap : nn (vents (@scalevec K a p))) by (apply scalevec_nn; assumption).
  assert (Wt0 : WFv (match o_t0 o with Some t0 => t0 | None => p end) /\ nn (vents (match o_t0 o with Some t0 => t0 | None => p end))).
  { destruct (o_t0 o) as [t0|] eqn:E0; [apply Ht0; reflexivity|split; assumption]. }
  destruct Wt0 as [Wt0 Nt0].
  eapply loop_nn; [exact Wct|apply transpose_nn; exact Nc|exact Hrb|exact Wap|exact Nap|split; eassumption|exact Wt0|exact Nt0|exact H].
Qed.

End RelErr.

(** ** binary64 without the exponent range *)
Definition u64 : R := /2 * Raux.bpow Zaux.radix2 (-52).

Lemma rnd64_rel : forall x, exists eps, Rabs eps <= u64 /\ rnd64 x = x * (1 + eps).
Proof.
  intros x. unfold rnd64, u64.
  exact (relative_error_N_FLX_ex radix2 53 eq_refl (fun z => negb (Z.even z)) x).
Qed.
Lemma u64_pos : 0 <= u64.
Proof. unfold u64. pose proof (Raux.bpow_gt_0 Zaux.radix2 (-52)). lra. Qed.
Lemma u64_small : u64 <= /1024.
Proof.
  unfold u64. assert (H : Raux.bpow Zaux.radix2 (-52) <= Raux.bpow Zaux.radix2 (-9)) by (apply Raux.bpow_le; lia).
  replace (Raux.bpow Zaux.radix2 (-9)) with (/512) in H by (simpl; lra). lra.
Qed.

(** every score that Compute returns on non-negative inputs is non-negative — for graphs of up to
    2^49 peers, in binary64 arithmetic absent overflow and underflow *)
Theorem compute_nonneg_B64 : forall fuel (c : csm B64) (p : vec B64) (a e : R) (o : opts B64) (t : vec B64) k st,
  WFm c -> Forall (nn) (rows c) -> WFv p -> nn (vents p) ->
  (forall t0, o_t0 o = Some t0 -> WFv t0 /\ nn (vents t0)) ->
  INR (major c) <= Raux.bpow Zaux.radix2 49 ->
  @compute B64 fuel c p a e o = Done t k st -> nn (vents t).
Proof.
  intros fuel c p a e o t k st Wc Nc Wp Np Ht0 Hdim H.
  apply (compute_nn rnd64 u64 u64_pos u64_small rnd64_rel fuel c p a e o t k st Wc Nc Wp Np Ht0); [|exact H].
  unfold u64. replace (8 * (/ 2 * Raux.bpow Zaux.radix2 (-52))) with (Raux.bpow Zaux.radix2 (-50)).
  - apply Rle_trans with (Raux.bpow Zaux.radix2 49 * Raux.bpow Zaux.radix2 (-50)).
    + apply Rmult_le_compat_r; [apply Raux.bpow_ge_0|exact Hdim].
    + rewrite <- Raux.bpow_plus. simpl. lra.
  - replace (-50)%Z with (2 + -52)%Z by reflexivity. rewrite Raux.bpow_plus. simpl. lra.
Qed.

(** non-vacuity: a one-peer graph meets every hypothesis of [compute_nonneg_B64] *)
Example compute_nonneg_B64_premises :
  let c : csm B64 := {| major := 1; minor := 1; rows := [[(0%nat, 1 : B64)]] |} in
  let p : vec B64 := {| vdim := 1; vents := [(0%nat, 1 : B64)] |} in
  WFm c /\ Forall (nn) (rows c) /\ WFv p /\ nn (vents p) /\ INR (major c) <= Raux.bpow Zaux.radix2 49.
Proof.
  cbv zeta. repeat split.
  - constructor; [|constructor]. split.
    + unfold sorted. cbn. repeat constructor.
    + unfold bounded. repeat constructor.
  - repeat constructor. cbn. lra.
  - unfold sorted. cbn. repeat constructor.
  - unfold bounded. repeat constructor.
  - repeat constructor. cbn. lra.
  - cbn [major INR]. replace 1 with (Raux.bpow Zaux.radix2 0) by reflexivity. apply Raux.bpow_le. lia.
Qed.

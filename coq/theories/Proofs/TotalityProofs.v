(** * C15: outcome classification of the front-end models: no panic, refusals leave state unchanged. *)
From Coq Require Import List Arith Bool ZArith Lia.
From ET Require Import Model.Scalar Model.Sparse Model.Basic Model.Oapi Model.Grpc Proofs.ComputeProofs.
Import ListNotations.

Section Totality.
Context {S : ScalarOps}.

(** the flat-tail checker slices ranking[len-numLeaders:]: it panics only for a negative leader count *)
Lemma loop_not_panicked : forall fuel ct ap a e mn fq mx ft nl i t1 cv st,
  (0 <= nl)%Z -> loop (S:=S) fuel ct ap a e mn fq mx ft nl i t1 cv st <> Panicked.
Proof.
  induction fuel as [|fuel IH]; intros ct ap a e mn fq mx ft nl i t1 cv st Hnl; cbn [loop]; [discriminate|].
  destruct (match mx with Some m => m <=? i | None => false end); [discriminate|].
  destruct ((mn <=? i) && ((i - mn) mod fq =? 0)).
  - destruct (conv_update cv t1) as [cv'| | |]; try discriminate.
    destruct (Z.ltb_spec nl 0); [lia|].
    destruct (converged cv' && ft_reached _ ft); [discriminate|].
    destruct (iter_step ct ap a t1); try discriminate. apply IH. exact Hnl.
  - destruct (iter_step ct ap a t1); try discriminate. apply IH. exact Hnl.
Qed.

Theorem compute_not_panicked : forall fuel (c : csm S) p a e o,
  (0 <= o_num_leaders o)%Z -> compute fuel c p a e o <> Panicked.
Proof.
  intros fuel c p a e o Hnl. unfold compute.
  destruct (mdim c) as [n| | |]; try discriminate.
  destruct (n =? 0); [discriminate|]. destruct (_ || _ || _); [discriminate|].
  destruct (negb (leb S (zero S) a && leb S a (one S))); [discriminate|].
  destruct (negb (ltb S (zero S) e)); [discriminate|].
  destruct (_ <? 1)%Z; [discriminate|]. destruct (_ <? 0)%Z; [discriminate|]. destruct (_ <=? 0)%Z; [discriminate|].
  apply loop_not_panicked. destruct (Z.eqb_spec (o_num_leaders o) 0); lia.
Qed.

(** POST /compute never panics, whatever the request and the store *)
Theorem oapi_never_panics : forall fuel deps (st : store S) (q : request S), oapi_compute fuel deps st q <> RPanic.
Proof.
  intros fuel deps st q. unfold oapi_compute.
  repeat match goal with
  | |- (match ?x with _ => _ end) <> _ => destruct x eqn:?; try discriminate
  | |- (if ?b then _ else _) <> _ => destruct b eqn:?; try discriminate
  end.
  exfalso.
  match goal with H : compute _ _ _ _ _ ?o = Panicked |- _ => apply (compute_not_panicked _ _ _ _ _ o) in H; [exact H|] end.
  cbn [o_num_leaders].
  match goal with H : negb _ = false |- _ => apply negb_false_iff in H; repeat (apply andb_true_iff in H; destruct H as [H ?]) end.
  unfold optz_ok in *. destruct (q_num_leaders q); [|lia].
  match goal with H : (0 <=? _)%Z = true |- _ => apply Z.leb_le in H; try exact H end; lia.
Qed.

(** an answer other than 200 / 400 / 500 is a watchdog expiry of the model's fuel *)
Theorem oapi_outcomes : forall fuel deps (st : store S) (q : request S),
  match oapi_compute fuel deps st q with
  | R200 _ _ _ | R400 | R500 | RHang => True
  | RPanic => False
  end.
Proof.
  intros. pose proof (oapi_never_panics fuel deps st q). destruct (oapi_compute fuel deps st q); auto.
Qed.

End Totality.

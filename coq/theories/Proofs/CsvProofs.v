(** * C19: the peer table is the order of first appearance, shared by the three files;
    loaded entries are exactly the CSV's arcs; indices map back to the names;
    the library readers build exactly the listed arcs or fail. *)
From Coq Require Import List Arith Bool ZArith NArith Lia.
From ET Require Import Model.Scalar Model.Sparse Model.Csv Proofs.SparseBase Proofs.MatrixProofs.
Import ListNotations.

Lemma name_eqb_eq : forall a b, name_eqb a b = true <-> a = b.
Proof.
  unfold name_eqb. induction a as [|x a IH]; intros [|y b]; split; intros H; try discriminate; auto.
  - apply andb_true_iff in H. destruct H as [H1 H2]. apply N.eqb_eq in H1. apply IH in H2. congruence.
  - inversion H; subst. apply andb_true_iff. split; [apply N.eqb_refl|apply IH; reflexivity].
Qed.
Lemma name_eqb_refl : forall a, name_eqb a a = true.
Proof. intros. apply name_eqb_eq. reflexivity. Qed.
Lemma name_eqb_neq : forall a b, name_eqb a b = false <-> a <> b.
Proof.
  intros a b. split; intros H.
  - intros E. apply name_eqb_eq in E. congruence.
  - destruct (name_eqb a b) eqn:E; auto. apply name_eqb_eq in E. contradiction.
Qed.

(** ** index_of = position of the first occurrence *)
Lemma index_of_some : forall x l i, index_of x l = Some i ->
  nth_error l i = Some x /\ (forall j, j < i -> nth_error l j <> Some x).
Proof.
  intros x l. induction l as [|y t IH]; intros i H; simpl in H; [discriminate|].
  destruct (name_eqb y x) eqn:E.
  - inversion H; subst. apply name_eqb_eq in E. subst. split; [reflexivity|intros j Hj; lia].
  - destruct (index_of x t) as [k|] eqn:Ek; simpl in H; [|discriminate]. inversion H; subst.
    destruct (IH k eq_refl) as [A B]. split; [exact A|]. intros [|j] Hj; simpl.
    + intros Hc. inversion Hc. subst. rewrite name_eqb_refl in E. discriminate.
    + apply B. lia.
Qed.
Lemma index_of_none : forall x l, index_of x l = None <-> ~ In x l.
Proof.
  intros x l. induction l as [|y t IH]; simpl; [tauto|].
  destruct (name_eqb y x) eqn:E.
  - apply name_eqb_eq in E. subst. split; [discriminate|intros H; exfalso; apply H; auto].
  - apply name_eqb_neq in E. destruct (index_of x t); simpl.
    + split; [discriminate|]. intros H. exfalso. apply H. right. apply Decidable.not_not; [|intros Hn; apply IH in Hn; discriminate].
      unfold Decidable.decidable. destruct (in_dec (list_eq_dec N.eq_dec) x t); auto.
    + split; auto. intros _ [Hc|Hc]; [contradiction|]. apply (proj1 IH); auto.
Qed.
Lemma index_of_lt : forall x l i, index_of x l = Some i -> i < length l.
Proof. intros x l i H. apply index_of_some in H. destruct H as [H _]. apply nth_error_Some. congruence. Qed.
Lemma index_of_app : forall x l s i, index_of x l = Some i -> index_of x (l ++ s) = Some i.
Proof.
  intros x l s. induction l as [|y t IH]; intros i H; simpl in *; [discriminate|].
  destruct (name_eqb y x); auto. destruct (index_of x t) as [k|]; simpl in *; [|discriminate]. rewrite (IH k eq_refl). exact H.
Qed.
Lemma index_of_app_new : forall x l, index_of x l = None -> index_of x (l ++ [x]) = Some (length l).
Proof.
  intros x l. induction l as [|y t IH]; intros H; simpl in *.
  - rewrite name_eqb_refl. reflexivity.
  - destruct (name_eqb y x); [discriminate|]. destruct (index_of x t); [discriminate|]. rewrite IH; auto.
Qed.
Lemma index_of_nodup : forall l i x, NoDup l -> nth_error l i = Some x -> index_of x l = Some i.
Proof.
  induction l as [|y t IH]; intros [|i] x Hn H; simpl in *; try discriminate.
  - inversion H; subst. rewrite name_eqb_refl. reflexivity.
  - inversion Hn; subst. destruct (name_eqb y x) eqn:E.
    + apply name_eqb_eq in E. subst. exfalso. apply H2. eapply nth_error_In; eauto.
    + rewrite (IH i x H3 H). reflexivity.
Qed.

(** ** the table after a stream of names: first appearance order *)
Definition see (t : list name) (x : name) : list name := match index_of x t with Some _ => t | None => t ++ [x] end.
Definition first_seen (t : list name) (xs : list name) : list name := fold_left see xs t.

Lemma nodup_snoc : forall (A : Type) (l : list A) x, NoDup l -> ~ In x l -> NoDup (l ++ [x]).
Proof.
  intros A l x H. induction H as [|y t Hy Ht IH]; intros Hx; simpl.
  - constructor; [intros []|constructor].
  - constructor.
    + rewrite in_app_iff. intros [Hc|[Hc|[]]]; [contradiction|]. subst. apply Hx. left. reflexivity.
    + apply IH. intros Hc. apply Hx. right. exact Hc.
Qed.
Lemma see_nodup : forall t x, NoDup t -> NoDup (see t x).
Proof.
  intros t x H. unfold see. destruct (index_of x t) eqn:E; auto.
  apply index_of_none in E. apply nodup_snoc; auto.
Qed.
Lemma see_prefix : forall t x, exists s, see t x = t ++ s.
Proof. intros t x. unfold see. destruct (index_of x t); [exists []; rewrite app_nil_r; auto|exists [x]; auto]. Qed.
Lemma see_in : forall t x y, In y (see t x) <-> In y t \/ y = x.
Proof.
  intros t x y. unfold see. destruct (index_of x t) eqn:E.
  - split; auto. intros [H|H]; auto. subst. apply index_of_some in E. destruct E as [E _]. eapply nth_error_In; eauto.
  - rewrite in_app_iff. simpl. intuition.
Qed.
Lemma first_seen_nodup : forall xs t, NoDup t -> NoDup (first_seen t xs).
Proof. induction xs as [|x xs IH]; intros t H; simpl; auto. apply IH. apply see_nodup. exact H. Qed.
Lemma first_seen_prefix : forall xs t, exists s, first_seen t xs = t ++ s.
Proof.
  induction xs as [|x xs IH]; intros t; simpl; [exists []; rewrite app_nil_r; auto|].
  destruct (see_prefix t x) as [s1 E1]. destruct (IH (see t x)) as [s2 E2]. exists (s1 ++ s2). unfold first_seen in *. rewrite E2, E1, app_assoc. reflexivity.
Qed.
Lemma first_seen_in : forall xs t y, In y (first_seen t xs) <-> In y t \/ In y xs.
Proof.
  induction xs as [|x xs IH]; intros t y; simpl; [tauto|]. unfold first_seen in *. rewrite IH, see_in. intuition.
Qed.
Lemma first_seen_app : forall t p q, first_seen t (p ++ q) = first_seen (first_seen t p) q.
Proof. intros. unfold first_seen. apply fold_left_app. Qed.

(** the index of a name = the number of distinct names seen before its first appearance *)
Theorem first_seen_index : forall t p x q, ~ In x t -> ~ In x p ->
  index_of x (first_seen t (p ++ x :: q)) = Some (length (first_seen t p)).
Proof.
  intros t p x q Ht Hp. rewrite first_seen_app. simpl.
  assert (Hn : index_of x (first_seen t p) = None). { apply index_of_none. rewrite first_seen_in. tauto. }
  unfold first_seen at 1. simpl. fold (first_seen (see (first_seen t p) x) q).
  destruct (first_seen_prefix q (see (first_seen t p) x)) as [s Es]. rewrite Es.
  apply index_of_app. unfold see. rewrite Hn. apply index_of_app_new. exact Hn.
Qed.

Lemma Forall2_impl : forall (A B : Type) (P Q : A -> B -> Prop) l1 l2, (forall a b, P a b -> Q a b) -> Forall2 P l1 l2 -> Forall2 Q l1 l2.
Proof. intros A B P Q l1 l2 H HF. induction HF; constructor; auto. Qed.

Section CsvProofs.
Context {S : ScalarOps}.
Notation field := (@field S).
Notation record := (@record S).

(** ** getPeerIndex / getPeerId *)
Lemma get_peer_index_spec : forall t (f : field) t' z, get_peer_index false t f = Some (t', z) ->
  t' = see t (f_raw f) /\ (0 <= z)%Z /\ index_of (f_raw f) t' = Some (Z.to_nat z).
Proof.
  intros t f t' z H. unfold get_peer_index in H. cbn [negb] in H. unfold see.
  destruct (index_of (f_raw f) t) as [i|] eqn:E; inversion H; subst; rewrite ?Nat2Z.id.
  - repeat split; auto. lia.
  - repeat split; [lia|]. apply index_of_app_new. exact E.
Qed.

(** the way back: the output CSV names the peer the index was assigned to, also after
    the table has grown by loading further files *)
Theorem peer_id_roundtrip : forall t (f : field) t' z s, get_peer_index false t f = Some (t', z) ->
  get_peer_id false (t' ++ s) (Z.to_nat z) = Some (IdName (f_raw f)).
Proof.
  intros t f t' z s H. apply get_peer_index_spec in H. destruct H as [_ [_ H]].
  apply (index_of_app _ _ s) in H. apply index_of_some in H. destruct H as [H _].
  unfold get_peer_id. cbn. rewrite H. reflexivity.
Qed.
Theorem peer_id_raw_roundtrip : forall t (f : field) t' z, get_peer_index true t f = Some (t', z) -> (0 <= z)%Z ->
  t' = t /\ f_pint f = Some z /\ get_peer_id true t' (Z.to_nat z) = Some (IdRaw (Z.to_nat z)).
Proof.
  intros t f t' z H Hz. unfold get_peer_index in H. cbn in H. destruct (f_pint f); inversion H; subst. auto.
Qed.

(** ** the record loop of the matrix loader *)
Definition rec_value (tl : list field) : option (T S) := match tl with [] => Some (one S) | f2 :: _ => f_float f2 end.
(** the data records: all but a skipped header *)
Definition data (rs : list record) (skip : bool) : list record := if skip then tl rs else rs.
Definition rec_names (r : record) : list name := match r with f0 :: f1 :: _ => [f_raw f0; f_raw f1] | _ => [] end.

Definition arc_ok (tbl : list name) (e : nat * nat * T S) (r : record) : Prop :=
  match r with
  | f0 :: f1 :: tl => nth_error tbl (fst (fst e)) = Some (f_raw f0) /\ nth_error tbl (snd (fst e)) = Some (f_raw f1) /\
                      rec_value tl = Some (snd e)
  | _ => False
  end.

Lemma nth_error_app_some : forall (A : Type) (l s : list A) i x, nth_error l i = Some x -> nth_error (l ++ s) i = Some x.
Proof. intros A l s i x H. rewrite nth_error_app1; auto. apply nth_error_Some. congruence. Qed.

Lemma arc_ok_ext : forall tbl s e r, arc_ok tbl e r -> arc_ok (tbl ++ s) e r.
Proof.
  intros tbl s e r H. unfold arc_ok in *. destruct r as [|f0 [|f1 tl]]; auto. destruct H as [A [B C]].
  repeat split; auto using nth_error_app_some.
Qed.

Lemma load_mat_go_spec : forall (rs : list record) t acc size l,
  load_mat_go false rs false t acc size = ROk l -> NoDup t ->
  ml_tbl l = first_seen t (flat_map rec_names rs) /\ NoDup (ml_tbl l) /\
  exists es, ml_entries l = rev acc ++ es /\ Forall2 (arc_ok (ml_tbl l)) es rs /\
    ml_size l = fold_left (fun d e => Nat.max (Nat.max d (Datatypes.S (fst (fst e)))) (Datatypes.S (snd (fst e)))) es size /\
    Forall (fun e => fst (fst e) < length (ml_tbl l) /\ snd (fst e) < length (ml_tbl l)) es.
Proof.
  induction rs as [|r rest IH]; intros t acc size l H Hnd; cbn [load_mat_go] in H.
  - inversion H; subst. cbn. repeat split; auto. exists []. rewrite app_nil_r. repeat split; constructor.
  - destruct (length r <? 2) eqn:L2; [discriminate|]. destruct (3 <? length r) eqn:L3; [discriminate|].
    destruct r as [|f0 [|f1 tl]]; try discriminate.
    destruct (get_peer_index false t f0) as [[t1 from]|] eqn:G0; [|discriminate].
    destruct (from <? 0)%Z eqn:N0; [discriminate|].
    destruct (get_peer_index false t1 f1) as [[t2 to]|] eqn:G1; [|discriminate].
    destruct (to <? 0)%Z eqn:N1; [discriminate|].
    destruct (match tl with [] => Some (one S) | f2 :: _ => f_float f2 end) as [v|] eqn:Ev; [|discriminate].
    apply get_peer_index_spec in G0. destruct G0 as [E1 [_ I0]]. apply get_peer_index_spec in G1. destruct G1 as [E2 [_ I1]].
    assert (Hnd2 : NoDup t2). { subst. apply see_nodup, see_nodup. exact Hnd. }
    destruct (IH _ _ _ _ H Hnd2) as [Ht [Hn [es [He [Hf [Hs Hb]]]]]].
    destruct (first_seen_prefix (flat_map rec_names rest) t2) as [s Es].
    destruct (see_prefix t1 (f_raw f1)) as [s1 Es1].
    assert (I0' : index_of (f_raw f0) (ml_tbl l) = Some (Z.to_nat from)).
    { rewrite Ht, Es, E2, Es1, <- app_assoc. apply index_of_app. exact I0. }
    assert (I1' : index_of (f_raw f1) (ml_tbl l) = Some (Z.to_nat to)).
    { rewrite Ht, Es. apply index_of_app. exact I1. }
    split; [|split; [exact Hn|]].
    + rewrite Ht. cbn [flat_map rec_names]. unfold first_seen. simpl. subst. reflexivity.
    + exists ((Z.to_nat from, Z.to_nat to, v) :: es). split; [|split; [|split]].
      * rewrite He. cbn [rev]. rewrite <- app_assoc. reflexivity.
      * constructor; auto. unfold arc_ok. cbn [fst snd]. repeat split; auto.
        -- apply index_of_some in I0'. tauto.
        -- apply index_of_some in I1'. tauto.
      * rewrite Hs. reflexivity.
      * constructor; auto. cbn [fst snd]. split; eapply index_of_lt; eauto.
Qed.

Lemma load_mat_go_header : forall (r : record) rest t l,
  load_mat_go false (r :: rest) true t [] 0 = ROk l -> load_mat_go false rest false t [] 0 = ROk l.
Proof.
  intros r rest t l H. cbn [load_mat_go] in H. destruct (length r <? 2); [discriminate|]. destruct (3 <? length r); [discriminate|]. exact H.
Qed.

(** exactly the CSV's arcs, values and size; table = first appearance order *)
Theorem load_matrix_csv_spec : forall header t (i : @csvin S) l,
  load_matrix_csv header false t i = ROk l -> NoDup t ->
  clean_eof i = true /\
  ml_tbl l = first_seen t (flat_map rec_names (data (recs i) header)) /\ NoDup (ml_tbl l) /\
  Forall2 (arc_ok (ml_tbl l)) (ml_entries l) (data (recs i) header) /\
  ml_size l = dim_of (map (fun e => fst (fst e)) (ml_entries l) ++ map (fun e => snd (fst e)) (ml_entries l)) /\
  0 < ml_size l <= length (ml_tbl l).
Proof.
  intros header t i l H Hnd. unfold load_matrix_csv in H.
  destruct (load_mat_go false (recs i) header t [] 0) as [l0|] eqn:E; [|discriminate].
  destruct (ml_size l0 =? 0) eqn:Z0; [discriminate|]. destruct (clean_eof i) eqn:C; [|discriminate]. cbn [negb] in H.
  destruct (existsb _ _); [discriminate|]. inversion H; subst l0. clear H.
  assert (E' : load_mat_go false (data (recs i) header) false t [] 0 = ROk l).
  { unfold data. destruct header; auto. destruct (recs i) as [|r rest]; [exact E|]. apply load_mat_go_header in E. exact E. }
  destruct (load_mat_go_spec _ _ _ _ _ E' Hnd) as [Ht [Hn [es [He [Hf [Hs Hb]]]]]]. cbn [rev app] in He. subst es.
  assert (Hmax : forall (ixs : list nat) d, fold_left (fun d i => Nat.max d (Datatypes.S i)) ixs d =
                     Nat.max d (fold_left (fun d i => Nat.max d (Datatypes.S i)) ixs 0)).
  { induction ixs as [|x xs IHx]; intros d; simpl; [lia|]. rewrite IHx, (IHx (Datatypes.S x)). lia. }
  assert (Hdim : forall (es : list (nat * nat * T S)) d0,
     fold_left (fun d e => Nat.max (Nat.max d (Datatypes.S (fst (fst e)))) (Datatypes.S (snd (fst e)))) es d0 =
     fold_left (fun d i => Nat.max d (Datatypes.S i)) (map (fun e => fst (fst e)) es ++ map (fun e => snd (fst e)) es) d0).
  { induction es as [|e es IHe]; intros d0; simpl; auto. rewrite IHe. rewrite !fold_left_app. simpl.
    set (A := map (fun e0 : nat * nat * T S => fst (fst e0)) es). set (B := map (fun e0 : nat * nat * T S => snd (fst e0)) es).
    rewrite (Hmax B), (Hmax A), (Hmax B (Nat.max _ _)), (Hmax A (Nat.max d0 _)). lia. }
  repeat split; auto.
  - rewrite Hs. unfold dim_of. apply Hdim.
  - apply Nat.eqb_neq in Z0. lia.
  - rewrite Hs. clear - Hb. assert (G : forall (es : list (nat * nat * T S)) d0 n, d0 <= n ->
      Forall (fun e => fst (fst e) < n /\ snd (fst e) < n) es ->
      fold_left (fun d e => Nat.max (Nat.max d (Datatypes.S (fst (fst e)))) (Datatypes.S (snd (fst e)))) es d0 <= n).
    { induction es as [|e es IHe]; intros d0 n Hd HF; simpl; auto. inversion HF; subst. apply IHe; auto. lia. }
    apply G; auto. lia.
Qed.

Lemma get_peer_index_total : forall t (f : field), exists t' z, get_peer_index false t f = Some (t', z) /\ (0 <= z)%Z.
Proof.
  intros t f. unfold get_peer_index. cbn [negb]. destruct (index_of (f_raw f) t); eexists; eexists; split; try reflexivity; lia.
Qed.

(** which local-trust files the CLI accepts (named mode): every record has 2 or 3 fields (the header
    too), every data record has a parsable, JSON-representable value, there is at least one data
    record, and the stream ends cleanly — everything else is reported as an error *)
Definition count_ok (r : record) : Prop := 2 <= length r <= 3.
Definition value_ok (r : record) : Prop :=
  match r with _ :: _ :: tl => exists v, rec_value tl = Some v | _ => False end.
Lemma load_mat_go_ok_iff : forall (rs : list record) skip t acc size,
  (exists l, load_mat_go false rs skip t acc size = ROk l) <-> Forall count_ok rs /\ Forall value_ok (data rs skip).
Proof.
  induction rs as [|r rest IH]; intros skip t acc size.
  - cbn [load_mat_go]. split; [intros _; split; [constructor|destruct skip; constructor]|intros _; eexists; reflexivity].
  - cbn [load_mat_go]. destruct (Nat.ltb_spec (length r) 2) as [L2|G2].
    + split; [intros [l H]; discriminate|]. intros [HC _]. inversion HC; subst. unfold count_ok in *. lia.
    + destruct (Nat.ltb_spec 3 (length r)) as [L3|G3].
      * split; [intros [l H]; discriminate|]. intros [HC _]. inversion HC; subst. unfold count_ok in *. lia.
      * destruct skip.
        -- rewrite (IH false t acc size). unfold data. cbn [tl]. split; intros [A B]; split; auto.
           ++ constructor; auto. unfold count_ok. lia.
           ++ inversion A; auto.
        -- destruct r as [|f0 [|f1 tl]]; try (simpl in G2; lia).
           destruct (get_peer_index_total t f0) as [t1 [z0 [G0 Hz0]]]. rewrite G0.
           destruct (Z.ltb_spec z0 0); [lia|].
           destruct (get_peer_index_total t1 f1) as [t2 [z1 [G1 Hz1]]]. rewrite G1.
           destruct (Z.ltb_spec z1 0); [lia|].
           fold (rec_value tl). unfold data. destruct (rec_value tl) as [v|] eqn:Ev.
           ++ rewrite IH. unfold data. split; intros [A B]; split.
              ** constructor; auto. unfold count_ok. simpl in *. lia.
              ** constructor; auto. unfold value_ok. eauto.
              ** inversion A; auto.
              ** inversion B; auto.
           ++ split; [intros [l Hd]; discriminate|]. intros [_ B]. inversion B as [|? ? Hv _]; subst.
              unfold value_ok in Hv. destruct Hv as [v Hv]. congruence.
Qed.

Theorem load_matrix_csv_ok_iff : forall header t (i : @csvin S), NoDup t ->
  (exists l, load_matrix_csv header false t i = ROk l) <->
  clean_eof i = true /\ Forall count_ok (recs i) /\ data (recs i) header <> [] /\
  Forall (fun r => match r with _ :: _ :: tl => exists v, rec_value tl = Some v /\ nonfinite S v = false | _ => False end) (data (recs i) header).
Proof.
  intros header t i Hnd. split.
  - intros [l H]. destruct (load_matrix_csv_spec _ _ _ _ H Hnd) as [C [_ [_ [HF [Hsz [Hpos _]]]]]].
    unfold load_matrix_csv in H.
    destruct (load_mat_go false (recs i) header t [] 0) as [l0|] eqn:E; [|discriminate].
    assert (Hex : exists l', load_mat_go false (recs i) header t [] 0 = ROk l') by eauto.
    apply load_mat_go_ok_iff in Hex. destruct Hex as [HC HV].
    destruct (ml_size l0 =? 0); [discriminate|]. rewrite C in H. cbn [negb] in H.
    destruct (existsb (fun e => nonfinite S (snd e)) (ml_entries l0)) eqn:En; [discriminate|]. inversion H; subst l0.
    split; [exact C|]. split; [exact HC|]. split.
    + intros Hd. rewrite Hd in HF. inversion HF as [He|]. rewrite <- He in Hsz. cbn in Hsz. lia.
    + clear - HF En. induction HF as [|e r es rs Hr _ IHf]; [constructor|].
      simpl in En. apply orb_false_iff in En. destruct En as [En1 En2]. constructor; auto.
      unfold arc_ok in Hr. destruct r as [|f0 [|f1 tl]]; try contradiction. destruct Hr as [_ [_ Hv]]. exists (snd e). auto.
  - intros [C [HC [Hne HV]]]. unfold load_matrix_csv.
    assert (HV' : Forall value_ok (data (recs i) header)).
    { eapply Forall_impl; [|exact HV]. intros r Hr. unfold value_ok. destruct r as [|f0 [|f1 tl]]; auto. destruct Hr as [v [A _]]. eauto. }
    destruct (proj2 (load_mat_go_ok_iff (recs i) header t [] 0) (conj HC HV')) as [l0 E]. rewrite E.
    assert (E' : load_mat_go false (data (recs i) header) false t [] 0 = ROk l0).
    { unfold data. destruct header; auto. destruct (recs i) as [|r rest]; [exact E|]. apply load_mat_go_header in E. exact E. }
    destruct (load_mat_go_spec _ _ _ _ _ E' Hnd) as [_ [_ [es [He [Hf [Hs _]]]]]]. cbn [rev app] in He. subst es.
    assert (Hsz : ml_size l0 <> 0).
    { rewrite Hs. destruct (ml_entries l0) as [|e es]; [inversion Hf; subst; congruence|]. simpl.
      assert (G : forall (xs : list (nat * nat * T S)) d0, 0 < d0 ->
        0 < fold_left (fun d e => Nat.max (Nat.max d (Datatypes.S (fst (fst e)))) (Datatypes.S (snd (fst e)))) xs d0).
      { induction xs as [|x xs IHx]; intros d0 Hd; simpl; auto. apply IHx. lia. }
      pose proof (G es (Datatypes.S (Nat.max (fst (fst e)) (snd (fst e)))) (Nat.lt_0_succ _)) as G'. lia. }
    destruct (Nat.eqb_spec (ml_size l0) 0); [contradiction|]. rewrite C. cbn [negb].
    assert (Hfin : existsb (fun e => nonfinite S (snd e)) (ml_entries l0) = false).
    { clear - Hf HV. revert HV. induction Hf as [|e r es rs Hr _ IHf]; intros HV; [reflexivity|].
      inversion HV as [|? ? Hv Hvs]; subst. simpl. rewrite (IHf Hvs), orb_false_r.
      unfold arc_ok in Hr. destruct r as [|f0 [|f1 tl]]; try contradiction. destruct Hr as [_ [_ Hval]]. destruct Hv as [v [A B]]. congruence. }
    rewrite Hfin. eexists. reflexivity.
Qed.

(** ** the vector loader *)
Definition vrec_names (r : record) : list name := match r with f0 :: _ => [f_raw f0] | _ => [] end.
Definition varc_ok (tbl : list name) (e : nat * T S) (r : record) : Prop :=
  match r with
  | f0 :: tl => nth_error tbl (fst e) = Some (f_raw f0) /\ rec_value tl = Some (snd e) /\ ltb S (snd e) (zero S) = false
  | _ => False
  end.
Lemma varc_ok_ext : forall tbl s e r, varc_ok tbl e r -> varc_ok (tbl ++ s) e r.
Proof.
  intros tbl s e r H. unfold varc_ok in *. destruct r as [|f0 tl]; auto. destruct H as [A B]. split; auto using nth_error_app_some.
Qed.
Lemma load_vec_go_spec : forall (rs : list record) t acc size l,
  load_vec_go false rs false t acc size = ROk l -> NoDup t ->
  vl_tbl l = first_seen t (flat_map vrec_names rs) /\ NoDup (vl_tbl l) /\
  exists es, vl_entries l = rev acc ++ es /\ Forall2 (varc_ok (vl_tbl l)) es rs /\
    vl_size l = fold_left (fun d i => Nat.max d (Datatypes.S i)) (map fst es) size /\
    Forall (fun e => fst e < length (vl_tbl l)) es.
Proof.
  induction rs as [|r rest IH]; intros t acc size l H Hnd; cbn [load_vec_go] in H.
  - inversion H; subst. cbn. repeat split; auto. exists []. rewrite app_nil_r. repeat split; constructor.
  - destruct (length r <? 1) eqn:L1; [discriminate|]. destruct (2 <? length r) eqn:L2; [discriminate|].
    destruct r as [|f0 tl]; try discriminate.
    destruct (get_peer_index false t f0) as [[t1 from]|] eqn:G0; [|discriminate].
    destruct (from <? 0)%Z eqn:N0; [discriminate|].
    destruct (match tl with [] => Some (one S) | f1 :: _ => f_float f1 end) as [v|] eqn:Ev; [|discriminate].
    destruct (ltb S v (zero S)) eqn:Neg; [discriminate|].
    apply get_peer_index_spec in G0. destruct G0 as [E1 [_ I0]].
    assert (Hnd1 : NoDup t1). { subst. apply see_nodup. exact Hnd. }
    destruct (IH _ _ _ _ H Hnd1) as [Ht [Hn [es [He [Hf [Hs Hb]]]]]].
    destruct (first_seen_prefix (flat_map vrec_names rest) t1) as [s Es].
    assert (I0' : index_of (f_raw f0) (vl_tbl l) = Some (Z.to_nat from)).
    { rewrite Ht, Es. apply index_of_app. exact I0. }
    split; [|split; [exact Hn|]].
    + rewrite Ht. cbn [flat_map vrec_names]. unfold first_seen. simpl. subst. reflexivity.
    + exists ((Z.to_nat from, v) :: es). split; [|split; [|split]].
      * rewrite He. cbn [rev]. rewrite <- app_assoc. reflexivity.
      * constructor; auto. unfold varc_ok. cbn [fst snd]. repeat split; auto. apply index_of_some in I0'. tauto.
      * rewrite Hs. reflexivity.
      * constructor; auto. cbn [fst]. eapply index_of_lt; eauto.
Qed.
Lemma load_vec_go_header : forall (r : record) rest t l,
  load_vec_go false (r :: rest) true t [] 0 = ROk l -> load_vec_go false rest false t [] 0 = ROk l.
Proof.
  intros r rest t l H. cbn [load_vec_go] in H. destruct (length r <? 1); [discriminate|]. destruct (2 <? length r); [discriminate|]. exact H.
Qed.
Theorem load_vector_csv_spec : forall header t (i : @csvin S) l,
  load_vector_csv header false t i = ROk l -> NoDup t ->
  clean_eof i = true /\
  vl_tbl l = first_seen t (flat_map vrec_names (data (recs i) header)) /\ NoDup (vl_tbl l) /\
  Forall2 (varc_ok (vl_tbl l)) (vl_entries l) (data (recs i) header) /\
  vl_size l = dim_of (map fst (vl_entries l)) /\ 0 < vl_size l <= length (vl_tbl l).
Proof.
  intros header t i l H Hnd. unfold load_vector_csv in H.
  destruct (load_vec_go false (recs i) header t [] 0) as [l0|] eqn:E; [|discriminate].
  destruct (vl_size l0 =? 0) eqn:Z0; [discriminate|]. destruct (clean_eof i) eqn:C; [|discriminate]. cbn [negb] in H.
  destruct (existsb _ _); [discriminate|]. inversion H; subst l0. clear H.
  assert (E' : load_vec_go false (data (recs i) header) false t [] 0 = ROk l).
  { unfold data. destruct header; auto. destruct (recs i) as [|r rest]; [exact E|]. apply load_vec_go_header in E. exact E. }
  destruct (load_vec_go_spec _ _ _ _ _ E' Hnd) as [Ht [Hn [es [He [Hf [Hs Hb]]]]]]. cbn [rev app] in He. subst es.
  repeat split; auto.
  - apply Nat.eqb_neq in Z0. lia.
  - rewrite Hs. clear - Hb. assert (G : forall (es : list (nat * T S)) d0 n, d0 <= n ->
      Forall (fun e => fst e < n) es -> fold_left (fun d i => Nat.max d (Datatypes.S i)) (map fst es) d0 <= n).
    { induction es as [|e es IHe]; intros d0 n Hd HF; simpl; auto. inversion HF; subst. apply IHe; auto. lia. }
    apply G; auto. lia.
Qed.

(** ** the whole request: one table for the three files, in order of first appearance over
    local trust, then pre-trust, then initial trust; every entry of every file names its peers
    through the final table [rq_ids] (what --print-request prints and the output pass uses) *)
Definition onames (f : record -> list name) (header : bool) (o : option (@csvin S)) : list name :=
  match o with Some i => flat_map f (data (recs i) header) | None => [] end.
Definition ovec_ok (header : bool) (ids : list name) (o : option (@csvin S)) (v : option (@vec_load S)) : Prop :=
  match o, v with
  | Some i, Some l => Forall2 (varc_ok ids) (vl_entries l) (data (recs i) header) /\
                      vl_size l = dim_of (map fst (vl_entries l)) /\ vl_size l <= length ids
  | None, None => True
  | _, _ => False
  end.
Theorem build_request_spec : forall header lt pt it (rq : @request S),
  build_request header false lt pt it = ROk rq ->
  rq_ids rq = first_seen [] (flat_map rec_names (data (recs lt) header) ++ onames vrec_names header pt ++ onames vrec_names header it) /\
  NoDup (rq_ids rq) /\
  Forall2 (arc_ok (rq_ids rq)) (ml_entries (rq_local rq)) (data (recs lt) header) /\
  ml_size (rq_local rq) = dim_of (map (fun e => fst (fst e)) (ml_entries (rq_local rq)) ++ map (fun e => snd (fst e)) (ml_entries (rq_local rq))) /\
  ml_size (rq_local rq) <= length (rq_ids rq) /\
  ovec_ok header (rq_ids rq) pt (rq_pre rq) /\ ovec_ok header (rq_ids rq) it (rq_init rq).
Proof.
  intros header lt pt it rq H. unfold build_request in H.
  destruct (load_matrix_csv header false [] lt) as [l|] eqn:EL; [|discriminate].
  destruct (load_matrix_csv_spec _ _ _ _ EL (NoDup_nil _)) as [_ [Lt [Ln [La [Ls Lb]]]]].
  (* pre-trust *)
  assert (HP : exists pv t1, (match pt with
             | None => ROk (None, ml_tbl l)
             | Some p => match load_vector_csv header false (ml_tbl l) p with
                         | ROk v => ROk (Some v, vl_tbl v) | RErr c => RErr (100 + c) end
             end) = ROk (pv, t1) /\ NoDup t1 /\ (exists s, t1 = ml_tbl l ++ s) /\
             t1 = first_seen (ml_tbl l) (onames vrec_names header pt) /\ ovec_ok header t1 pt pv).
  { destruct pt as [p|].
    - destruct (load_vector_csv header false (ml_tbl l) p) as [v|] eqn:EV; [|discriminate].
      destruct (load_vector_csv_spec _ _ _ _ EV Ln) as [_ [Vt [Vn [Va [Vs Vb]]]]].
      exists (Some v), (vl_tbl v). repeat split; auto; try lia. rewrite Vt. apply first_seen_prefix.
    - exists None, (ml_tbl l). repeat split; auto. exists []. rewrite app_nil_r. reflexivity. }
  destruct HP as [pv [t1 [EP [N1 [[s1 P1] [F1 O1]]]]]]. rewrite EP in H.
  assert (HI : exists iv t2, (match it with
                 | None => ROk (None, t1)
                 | Some p => match load_vector_csv header false t1 p with
                             | ROk v => ROk (Some v, vl_tbl v) | RErr c => RErr (200 + c) end
                 end) = ROk (iv, t2) /\ NoDup t2 /\ (exists s, t2 = t1 ++ s) /\
                 t2 = first_seen t1 (onames vrec_names header it) /\ ovec_ok header t2 it iv).
  { destruct it as [p|].
    - destruct (load_vector_csv header false t1 p) as [v|] eqn:EV; [|discriminate].
      destruct (load_vector_csv_spec _ _ _ _ EV N1) as [_ [Vt [Vn [Va [Vs Vb]]]]].
      exists (Some v), (vl_tbl v). repeat split; auto; try lia. rewrite Vt. apply first_seen_prefix.
    - exists None, t1. repeat split; auto. exists []. rewrite app_nil_r. reflexivity. }
  destruct HI as [iv [t2 [EI [N2 [[s2 P2] [F2 O2]]]]]]. rewrite EI in H. inversion H; subst rq. clear H. cbn [rq_ids rq_local rq_pre rq_init].
  split; [|split; [exact N2|split; [|split; [exact Ls|split; [|split]]]]].
  - rewrite F2, F1, Lt, !first_seen_app. reflexivity.
  - rewrite P2, P1. eapply Forall2_impl; [|exact La]. intros e r Hr. cbv beta. apply arc_ok_ext, arc_ok_ext. exact Hr.
  - rewrite P2, P1, !app_length. lia.
  - unfold ovec_ok in *. destruct pt, pv; auto. destruct O1 as [A [B C]]. rewrite P2. repeat split; auto.
    + eapply Forall2_impl; [|exact A]. intros e r Hr. apply varc_ok_ext. exact Hr.
    + rewrite app_length. lia.
  - exact O2.
Qed.

(** every index the request mentions maps back to a name in the output pass *)
Theorem output_names_total : forall header lt pt it (rq : @request S) i,
  build_request header false lt pt it = ROk rq -> i < length (rq_ids rq) ->
  exists n, get_peer_id false (rq_ids rq) i = Some (IdName n) /\ index_of n (rq_ids rq) = Some i.
Proof.
  intros header lt pt it rq i H Hi. destruct (build_request_spec _ _ _ _ _ H) as [_ [Hn _]].
  destruct (nth_error (rq_ids rq) i) as [n|] eqn:E; [|apply nth_error_None in E; lia].
  exists n. unfold get_peer_id. cbn. rewrite E. split; auto. apply index_of_nodup; auto.
Qed.

(** ** the library readers *)
Definition lt_wellformed (names : option (list name)) (r : record) : Prop :=
  match r with
  | f0 :: f1 :: tl => parse_peer_id names f0 <> None /\ parse_peer_id names f1 <> None /\ rec_value tl <> None
  | _ => False
  end.
Definition lt_arc (names : option (list name)) (e : nat * nat * T S) (r : record) : Prop :=
  match r with
  | f0 :: f1 :: tl => parse_peer_id names f0 = Some (fst (fst e)) /\ parse_peer_id names f1 = Some (snd (fst e)) /\ rec_value tl = Some (snd e)
  | _ => False
  end.
Lemma parse_lt_fields_ok : forall names r e, parse_lt_fields names r = ROk e <-> lt_arc names e r.
Proof.
  intros names r [[a b] v]. unfold parse_lt_fields, lt_arc, rec_value, parse_level. destruct r as [|f0 [|f1 tl]]; try (split; [discriminate|tauto]).
  destruct (parse_peer_id names f0) as [from|]; [|split; [discriminate|intros [H _]; discriminate]].
  destruct (parse_peer_id names f1) as [to|]; [|split; [discriminate|intros [_ [H _]]; discriminate]].
  cbn [fst snd]. destruct tl as [|f2 tl'].
  - split; [intros H; inversion H; subst; auto|intros [A [B C]]; inversion A; inversion B; inversion C; subst; reflexivity].
  - destruct (f_float f2) as [l|]; split; try discriminate.
    + intros H; inversion H; subst; auto.
    + intros [A [B C]]; inversion A; inversion B; inversion C; subst; reflexivity.
    + intros [_ [_ C]]. discriminate.
Qed.
Lemma parse_all_ok : forall (A : Type) (p : record -> rres A) rs es,
  parse_all p rs = ROk es <-> Forall2 (fun e r => p r = ROk e) es rs.
Proof.
  intros A p. induction rs as [|r t IH]; intros es; simpl.
  - split; [intros H; inversion H; constructor|intros H; inversion H; reflexivity].
  - destruct (p r) as [a|c] eqn:E.
    + destruct (parse_all p t) as [l|c] eqn:E2.
      * split; [intros H; inversion H; subst; constructor; auto; apply IH; reflexivity|].
        intros H. inversion H; subst. rewrite E in H3. inversion H3; subst. apply IH in H4. inversion H4; subst. reflexivity.
      * split; [discriminate|]. intros H. inversion H; subst. apply IH in H4. discriminate.
    + split; [discriminate|]. intros H. inversion H; subst. congruence.
Qed.
Lemma parse_all_err : forall (A : Type) (p : record -> rres A) rs c,
  parse_all p rs = RErr c -> exists r c', In r rs /\ p r = RErr c'.
Proof.
  intros A p. induction rs as [|r t IH]; intros c H; simpl in H; [discriminate|].
  destruct (p r) as [a|c'] eqn:E.
  - destruct (parse_all p t) as [l|c''] eqn:E2; [discriminate|]. destruct (IH _ eq_refl) as [r' [c3 [Hin Hp]]]. exists r', c3. split; [right|]; auto.
  - exists r, c'. split; [left|]; auto.
Qed.

Lemma dim_of_bound : forall ixs i, In i ixs -> i < dim_of ixs.
Proof.
  unfold dim_of. intros ixs i Hin.
  assert (G : forall l d, (In i l \/ i < d) -> i < fold_left (fun d i => Nat.max d (Datatypes.S i)) l d).
  { induction l as [|x l IHl]; intros d [H|H]; simpl; auto; try contradiction.
    - destruct H as [->|H]; apply IHl; [right; lia|left; exact H].
    - apply IHl. right. lia. }
  apply G. left. exact Hin.
Qed.

(** ReadLocalTrustFromCsv succeeds exactly on clean files whose records are all well-formed, and then
    builds the square matrix of dimension highest index + 1 holding exactly the listed arcs
    (level 1 where the column is missing, names resolved through the peer list) *)
Theorem read_local_trust_ok : forall names (i : @csvin S) m,
  read_local_trust names i = ROk m ->
  clean_eof i = true /\ exists es, Forall2 (lt_arc names) es (recs i) /\
    let d := dim_of (map (fun e => fst (fst e)) es ++ map (fun e => snd (fst e)) es) in
    m = new_csr d d es false /\ Forall (coo_in_range d d) es.
Proof.
  intros names i m H. unfold read_local_trust in H.
  destruct (parse_all (parse_lt_fields names) (recs i)) as [es|] eqn:E; [|discriminate].
  destruct (clean_eof i); [|discriminate]. inversion H; subst. split; auto. exists es. split.
  - apply parse_all_ok in E. eapply Forall2_impl; [|exact E]. intros e r Hr. apply parse_lt_fields_ok. exact Hr.
  - split; auto. apply Forall_forall. intros [[a b] v] Hin. unfold coo_in_range, coo_row, coo_col. cbn [fst snd]. split; apply dim_of_bound; apply in_or_app.
    + left. apply in_map_iff. exists (a, b, v). auto.
    + right. apply in_map_iff. exists (a, b, v). auto.
Qed.
Theorem read_local_trust_ok_iff : forall names (i : @csvin S),
  (exists m, read_local_trust names i = ROk m) <-> clean_eof i = true /\ Forall (lt_wellformed names) (recs i).
Proof.
  intros names i. split.
  - intros [m H]. destruct (read_local_trust_ok _ _ _ H) as [C [es [HF _]]]. split; auto.
    clear - HF. induction HF as [|e r es rs Hr _ IH]; constructor; auto.
    unfold lt_arc in Hr. unfold lt_wellformed. destruct r as [|f0 [|f1 tl]]; auto. destruct Hr as [A [B C]]. rewrite A, B, C. repeat split; discriminate.
  - intros [C HF]. unfold read_local_trust. destruct (parse_all (parse_lt_fields names) (recs i)) as [es|c] eqn:E.
    + rewrite C. eexists. reflexivity.
    + exfalso. apply parse_all_err in E. destruct E as [r [c' [Hin Hp]]]. pose proof (proj1 (Forall_forall _ _) HF r Hin) as Hw.
      unfold lt_wellformed in Hw. unfold parse_lt_fields, parse_level in Hp. destruct r as [|f0 [|f1 tl]]; auto. destruct Hw as [A [B D]].
      destruct (parse_peer_id names f0); [|congruence]. destruct (parse_peer_id names f1); [|congruence].
      unfold rec_value in D. destruct tl as [|f2 tl']; [discriminate|]. destruct (f_float f2); [discriminate|congruence].
Qed.
(** cell by cell, when no coordinate is listed twice: the listed level (0 levels are not stored) *)
Theorem read_local_trust_cells : forall names (i : @csvin S) m es,
  read_local_trust names i = ROk m -> Forall2 (lt_arc names) es (recs i) -> NoDup (coords es) ->
  WFm m /\ major m = minor m /\
  forall r c, r < major m ->
    lookup c (row m r) = match coo_lookup r c es with Some x => if nz x then Some x else None | None => None end.
Proof.
  intros names i m es H HF Hnd. destruct (read_local_trust_ok _ _ _ H) as [_ [es' [HF' [Hm Hr]]]].
  assert (es' = es).
  { clear - HF HF'. revert es' HF'. induction HF as [|e r es rs Hr _ IH]; intros es' HF'.
    - inversion HF'. reflexivity.
    - inversion HF' as [|x r' es'' rs' Hx Hrest]; subst. f_equal; [|apply IH; auto].
      unfold lt_arc in *. destruct r as [|f0 [|f1 tl]]; try contradiction.
      destruct Hr as [A [B C]]. destruct Hx as [A' [B' C']]. destruct e as [[a b] v], x as [[a' b'] v']. cbn [fst snd] in *. congruence. }
  subst es'. cbv zeta in Hm. set (d := dim_of _) in *. destruct (new_csr_cells d d es false Hnd Hr) as [W [M1 [M2 Hc]]].
  subst m. split; [exact W|]. split; [congruence|]. intros r c Hlt. rewrite M1 in Hlt. rewrite Hc; auto.
Qed.

Definition tv_wellformed (names : option (list name)) (r : record) : Prop :=
  match r with f0 :: tl => parse_peer_id names f0 <> None /\ rec_value tl <> None | [] => False end.
Definition tv_arc (names : option (list name)) (e : nat * T S) (r : record) : Prop :=
  match r with f0 :: tl => parse_peer_id names f0 = Some (fst e) /\ rec_value tl = Some (snd e) | [] => False end.
Lemma parse_tv_fields_ok : forall names r e, parse_tv_fields names r = ROk e <-> tv_arc names e r.
Proof.
  intros names r [a v]. unfold parse_tv_fields, tv_arc, rec_value, parse_level. destruct r as [|f0 tl]; [split; [discriminate|tauto]|].
  destruct (parse_peer_id names f0) as [peer|]; [|split; [discriminate|intros [H _]; discriminate]].
  cbn [fst snd]. destruct tl as [|f1 tl'].
  - split; [intros H; inversion H; subst; auto|intros [A C]; inversion A; inversion C; subst; reflexivity].
  - destruct (f_float f1) as [l|]; split; try discriminate.
    + intros H; inversion H; subst; auto.
    + intros [A C]; inversion A; inversion C; subst; reflexivity.
    + intros [_ C]. discriminate.
Qed.
Theorem read_trust_vector_ok : forall names (i : @csvin S) v,
  read_trust_vector names i = ROk v ->
  clean_eof i = true /\ exists es, Forall2 (tv_arc names) es (recs i) /\
    v = new_vec (dim_of (map fst es)) es /\ Forall (fun e => fst e < dim_of (map fst es)) es.
Proof.
  intros names i v H. unfold read_trust_vector in H.
  destruct (parse_all (parse_tv_fields names) (recs i)) as [es|] eqn:E; [|discriminate].
  destruct (clean_eof i); [|discriminate]. inversion H; subst. split; auto. exists es. split.
  - apply parse_all_ok in E. eapply Forall2_impl; [|exact E]. intros e r Hr. apply parse_tv_fields_ok. exact Hr.
  - split; auto. apply Forall_forall. intros [a x] Hin. cbn [fst]. apply dim_of_bound. apply in_map_iff. exists (a, x). auto.
Qed.
Theorem read_trust_vector_ok_iff : forall names (i : @csvin S),
  (exists v, read_trust_vector names i = ROk v) <-> clean_eof i = true /\ Forall (tv_wellformed names) (recs i).
Proof.
  intros names i. split.
  - intros [v H]. destruct (read_trust_vector_ok _ _ _ H) as [C [es [HF _]]]. split; auto.
    clear - HF. induction HF as [|e r es rs Hr _ IH]; constructor; auto.
    unfold tv_arc in Hr. unfold tv_wellformed. destruct r as [|f0 tl]; auto. destruct Hr as [A C]. rewrite A, C. split; discriminate.
  - intros [C HF]. unfold read_trust_vector. destruct (parse_all (parse_tv_fields names) (recs i)) as [es|c] eqn:E.
    + rewrite C. eexists. reflexivity.
    + exfalso. apply parse_all_err in E. destruct E as [r [c' [Hin Hp]]]. pose proof (proj1 (Forall_forall _ _) HF r Hin) as Hw.
      unfold tv_wellformed in Hw. unfold parse_tv_fields, parse_level in Hp. destruct r as [|f0 tl]; auto. destruct Hw as [A D].
      destruct (parse_peer_id names f0); [|congruence].
      unfold rec_value in D. destruct tl as [|f1 tl']; [discriminate|]. destruct (f_float f1); [discriminate|congruence].
Qed.

(** the peer list: names in file order, index = position; duplicates are refused *)
Lemma read_names_go_spec : forall (rs : list record) acc ns, read_names_go rs acc = ROk ns -> NoDup acc ->
  NoDup ns /\ ns = acc ++ map (fun r => match r with f :: _ => f_raw f | [] => [] end) rs /\ Forall (fun r => r <> []) rs.
Proof.
  induction rs as [|r t IH]; intros acc ns H Hn; simpl in H.
  - inversion H; subst. rewrite app_nil_r. auto.
  - destruct r as [|f tl]; [discriminate|]. destruct (index_of (f_raw f) acc) eqn:E; [discriminate|].
    apply index_of_none in E. destruct (IH _ _ H (nodup_snoc _ _ _ Hn E)) as [A [B C]].
    split; auto. split; [rewrite B, <- app_assoc; reflexivity|constructor; auto; discriminate].
Qed.
Theorem read_peer_names_ok : forall (i : @csvin S) ns, read_peer_names i = ROk ns ->
  clean_eof i = true /\ NoDup ns /\ ns = map (fun r => match r with f :: _ => f_raw f | [] => [] end) (recs i) /\
  forall k n, nth_error ns k = Some n -> index_of n ns = Some k.
Proof.
  intros i ns H. unfold read_peer_names in H. destruct (read_names_go (recs i) []) as [ns'|] eqn:E; [|discriminate].
  destruct (clean_eof i); [|discriminate]. inversion H; subst. destruct (read_names_go_spec _ _ _ E (NoDup_nil _)) as [A [B _]].
  repeat split; auto. intros k n Hk. apply index_of_nodup; auto.
Qed.

End CsvProofs.

(** * C18: flat-tail statistics as a function of the sequence of rankings seen at
    the checks of a run, and the ranking as the top-scored peers. *)
From Coq Require Import List Arith Bool ZArith Lia Sorted Permutation.
From ET Require Import Model.Scalar Model.Sparse Model.Basic.
Import ListNotations.

Section FlatTail.
Context {S : ScalarOps}.
Notation entry := (nat * T S)%type.

Lemma list_nat_eqb_spec : forall a b, list_nat_eqb a b = true <-> a = b.
Proof.
  unfold list_nat_eqb. induction a as [|x a IH]; intros [|y b]; simpl.
  - split; auto.
  - split; discriminate.
  - split; discriminate.
  - split; intros H.
    + apply andb_true_iff in H. destruct H as [Hl H]. apply andb_true_iff in H. destruct H as [Hxy H].
      apply Nat.eqb_eq in Hxy. subst y. f_equal. apply IH. apply andb_true_iff. split; auto.
    + inversion H; subst. destruct (IH b) as [_ IH']. specialize (IH' eq_refl).
      apply andb_true_iff in IH'. destruct IH' as [Hl Hf]. rewrite Hl, Hf, Nat.eqb_refl. reflexivity.
Qed.

(** ** run-length view of the history (most recent check first) *)
Definition hist := list (list nat * S).      (* (ranking, delta) of each check, most recent first *)

(** sizes of the maximal runs of identical consecutive rankings, most recent run first *)
Fixpoint runs (h : hist) : list nat :=
  match h with
  | [] => []
  | (r, _) :: t =>
      match t with
      | [] => [1]
      | (r', _) :: _ =>
          if list_nat_eqb r r'
          then match runs t with n :: ns => Datatypes.S n :: ns | [] => [1] end
          else 1 :: runs t
      end
  end.

Definition stats_of (h : hist) : ftstats S :=
  match h with
  | [] => ft_new
  | (r, _) :: _ =>
      let len := hd 1 (runs h) - 1 in
      {| ft_length := len;
         ft_threshold := fold_right Nat.max 1 (tl (runs h));
         ft_delta := snd (nth len h ([], one S));
         ft_ranking := Some r |}
  end.

Lemma runs_nonempty : forall h, h <> [] -> exists n ns, runs h = Datatypes.S n :: ns.
Proof.
  induction h as [|[r d] t IH]; intros Hne; [contradiction|]. simpl.
  destruct t as [|[r' d'] t']; [exists 0, []; reflexivity|].
  destruct (list_nat_eqb r r').
  - destruct (IH ltac:(discriminate)) as (n & ns & ->). exists (Datatypes.S n), ns. reflexivity.
  - exists 0, (runs ((r', d') :: t')). reflexivity.
Qed.

(** one update = one more check in the history *)
Theorem ft_update_stats : forall (h : hist) (nl : nat) (t : vec S) (d : S),
  ft_update (stats_of h) nl t d = stats_of ((ranking_of t nl, d) :: h).
Proof.
  intros h nl t d. unfold ft_update.
  destruct h as [|[r d0] h'].
  - reflexivity.
  - cbn [stats_of ft_ranking].
    destruct (runs_nonempty ((r, d0) :: h') ltac:(discriminate)) as (n & ns & Hr).
    change (runs ((ranking_of t nl, d) :: (r, d0) :: h')) with
      (if list_nat_eqb (ranking_of t nl) r
       then match runs ((r, d0) :: h') with n :: ns => Datatypes.S n :: ns | [] => [1] end
       else 1 :: runs ((r, d0) :: h')).
    destruct (list_nat_eqb (ranking_of t nl) r) eqn:E.
    + apply list_nat_eqb_spec in E. rewrite E. rewrite Hr. cbn [hd tl ft_length ft_threshold ft_delta].
      f_equal; try lia.
      replace (Datatypes.S (Datatypes.S n) - 1) with (Datatypes.S (n - 0)) by lia.
      replace (Datatypes.S n - 1) with (n - 0) by lia. reflexivity.
    + rewrite Hr. cbn [hd tl ft_length ft_threshold ft_delta fold_right nth snd].
      f_equal. replace (Datatypes.S n - 1) with n by lia.
      destruct (Nat.leb_spec (fold_right Nat.max 1 ns) n); lia.
Qed.

(** the statistics after any sequence of checks *)
Theorem ft_fold_stats : forall (nl : nat) (us : list (vec S * S)),
  fold_left (fun st u => ft_update st nl (fst u) (snd u)) us ft_new =
  stats_of (rev (map (fun u => (ranking_of (fst u) nl, snd u)) us)).
Proof.
  intros nl us.
  assert (H : forall h, fold_left (fun st u => ft_update st nl (fst u) (snd u)) us (stats_of h) =
                        stats_of (rev (map (fun u => (ranking_of (fst u) nl, snd u)) us) ++ h)).
  { induction us as [|[t d] us IH]; intros h; simpl; auto.
    rewrite ft_update_stats, IH. rewrite <- app_assoc. reflexivity. }
  specialize (H []). rewrite app_nil_r in H. exact H.
Qed.

(** reading the run-length view: the final run has [length+1] identical
    rankings, and it is maximal *)
Lemma runs_head_same : forall (h : hist) n ns, runs h = Datatypes.S n :: ns ->
  forall i, i <= n -> fst (nth i h ([], one S)) = fst (nth 0 h ([], one S)).
Proof.
  induction h as [|[r d] t IH]; intros n ns Hr i Hi; [discriminate|].
  destruct i as [|i]; auto. simpl in Hr. destruct t as [|[r' d'] t'].
  - inversion Hr; subst. lia.
  - destruct (list_nat_eqb r r') eqn:E.
    + apply list_nat_eqb_spec in E. subst r'.
      destruct (runs_nonempty ((r, d') :: t') ltac:(discriminate)) as (n' & ns' & Hr').
      rewrite Hr' in Hr. inversion Hr; subst.
      change (fst (nth (Datatypes.S i) ((r, d) :: (r, d') :: t') ([], one S))) with (fst (nth i ((r, d') :: t') ([], one S))).
      rewrite (IH _ _ Hr' i) by lia. reflexivity.
    + inversion Hr; subst. lia.
Qed.

Lemma runs_head_maximal : forall (h : hist) n ns, runs h = Datatypes.S n :: ns ->
  Datatypes.S n < length h -> fst (nth (Datatypes.S n) h ([], one S)) <> fst (nth 0 h ([], one S)).
Proof.
  induction h as [|[r d] t IH]; intros n ns Hr Hlen; [discriminate|].
  simpl in Hr. destruct t as [|[r' d'] t']; [simpl in Hlen; lia|].
  destruct (list_nat_eqb r r') eqn:E.
  - apply list_nat_eqb_spec in E. subst r'.
    destruct (runs_nonempty ((r, d') :: t') ltac:(discriminate)) as (n' & ns' & Hr').
    rewrite Hr' in Hr. inversion Hr; subst.
    change (fst (nth (Datatypes.S (Datatypes.S n')) ((r, d) :: (r, d') :: t') ([], one S)))
      with (fst (nth (Datatypes.S n') ((r, d') :: t') ([], one S))).
    apply (IH _ _ Hr'). simpl in *. lia.
  - inversion Hr; subst. simpl. intros Heq. subst r'.
    assert (list_nat_eqb r r = true) by (apply list_nat_eqb_spec; reflexivity). congruence.
Qed.

(** ** the ranking lists the top-scored peers *)
(** [ltb] behaves as a strict weak order on the values at hand (true for the
    reals, and for binary64 values that are not NaN) *)
Definition weak_order_on (vals : list S) : Prop :=
  (forall x y, In x vals -> In y vals -> ltb S x y = true -> ltb S y x = false) /\
  (forall x y z, In x vals -> In y vals -> In z vals -> ltb S x y = false -> ltb S y z = false -> ltb S x z = false).

Definition desc (l : list entry) : Prop := StronglySorted (fun a b => ltb S (snd a) (snd b) = false) l.

Lemma insert_rev_perm : forall (e : entry) rl, Permutation (insert_by_value_rev e rl) (e :: rl).
Proof.
  induction rl as [|h t IH]; simpl; auto. destruct (ltb S (snd e) (snd h)); auto.
  eapply perm_trans; [apply perm_skip, IH|apply perm_swap].
Qed.

Lemma insert_rev_desc : forall (e : entry) rl vals, weak_order_on vals ->
  In (snd e) vals -> (forall x, In x rl -> In (snd x) vals) ->
  desc rl -> desc (insert_by_value_rev e rl).
Proof.
  intros e rl vals [Hasym Hnt] He. induction rl as [|h t IH]; intros Hin Hd; simpl.
  - constructor; constructor.
  - inversion Hd as [|? ? Hdt Hall]; subst.
    destruct (ltb S (snd e) (snd h)) eqn:E.
    + constructor.
      * apply IH; auto. intros x Hx. apply Hin. right; auto.
      * apply Forall_forall. intros x Hx. apply (Permutation_in _ (insert_rev_perm e t)) in Hx.
        destruct Hx as [<-|Hx].
        -- apply Hasym; auto. apply Hin. left; reflexivity.
        -- rewrite Forall_forall in Hall. auto.
    + constructor; auto. constructor; auto.
      apply Forall_forall. intros x Hx. rewrite Forall_forall in Hall.
      apply (Hnt (snd e) (snd h) (snd x)); auto; apply Hin; [left|right]; auto.
Qed.

Lemma sort_by_value_perm : forall l : list entry, Permutation (sort_by_value l) l.
Proof.
  intros l. unfold sort_by_value. eapply perm_trans; [apply Permutation_sym, Permutation_rev|].
  assert (H : forall acc, Permutation (fold_left (fun a e => insert_by_value_rev e a) l acc) (l ++ acc)).
  { induction l as [|e t IH]; intros acc; simpl; auto.
    eapply perm_trans; [apply IH|]. eapply perm_trans; [apply Permutation_app_head, insert_rev_perm|].
    apply Permutation_sym, Permutation_middle. }
  specialize (H []). rewrite app_nil_r in H. exact H.
Qed.

Lemma sort_by_value_desc : forall (l : list entry), weak_order_on (map snd l) ->
  desc (rev (sort_by_value l)).
Proof.
  intros l Hw. unfold sort_by_value. rewrite rev_involutive.
  assert (H : forall acc, (forall x, In x acc -> In (snd x) (map snd l)) -> desc acc ->
              forall l', (forall x, In x l' -> In (snd x) (map snd l)) ->
              desc (fold_left (fun a e => insert_by_value_rev e a) l' acc)).
  { intros acc Hacc Hd l'. revert acc Hacc Hd. induction l' as [|e t IH]; intros acc Hacc Hd Hl'; simpl; auto.
    apply IH.
    - intros x Hx. apply (Permutation_in _ (insert_rev_perm e acc)) in Hx. destruct Hx as [<-|Hx]; auto.
      apply Hl'. left; reflexivity.
    - eapply insert_rev_desc; eauto. apply Hl'. left; reflexivity.
    - intros x Hx. apply Hl'. right; auto. }
  apply H; [intros x []|constructor|]. intros x Hx. apply in_map. auto.
Qed.

Lemma NoDup_app_r : forall {A} (l1 l2 : list A), NoDup (l1 ++ l2) -> NoDup l2.
Proof. induction l1 as [|a l1 IH]; simpl; auto. intros l2 H. inversion H; auto. Qed.

(** The ranking of a well-formed vector: exactly [min k nnz] distinct scored
    peers, and no peer left out of it has a score above a peer in it. *)
Theorem ranking_of_top : forall (t : vec S) (k : nat), weak_order_on (map snd (vents t)) ->
  NoDup (map fst (vents t)) ->
  let r := ranking_of t k in
  NoDup r /\ length r = Nat.min k (length (vents t)) /\
  (forall i, In i r -> In i (map fst (vents t))) /\
  (forall i j x y, In i r -> ~ In j r -> In (i, x) (vents t) -> In (j, y) (vents t) -> ltb S x y = false).
Proof.
  intros t k Hw Hnd r.
  set (s := sort_by_value (vents t)) in *.
  assert (HP : Permutation s (vents t)) by apply sort_by_value_perm.
  assert (Hlen : length (map fst s) = length (vents t)) by (rewrite map_length; apply Permutation_length; auto).
  assert (Hnds : NoDup (map fst s)) by (eapply Permutation_NoDup; [apply Permutation_map, Permutation_sym, HP|auto]).
  assert (Hr : r = skipn (length (map fst s) - k) (map fst s)).
  { unfold r, ranking_of. fold s. destruct (Nat.ltb_spec k (length (map fst s))); auto.
    replace (length (map fst s) - k) with 0 by lia. reflexivity. }
  assert (Hsplit : map fst s = firstn (length (map fst s) - k) (map fst s) ++ r).
  { rewrite Hr. symmetry. apply firstn_skipn. }
  repeat split.
  - rewrite Hsplit in Hnds. apply NoDup_app_r in Hnds. auto.
  - rewrite Hr, skipn_length. lia.
  - intros i Hi. apply (Permutation_in i (Permutation_map fst HP)). rewrite Hsplit. apply in_or_app. auto.
  - intros i j x y Hi Hj Hix Hjy.
    (* j sits in the dropped prefix, i in the kept suffix of the ascending order *)
    pose proof (sort_by_value_desc (vents t) Hw) as Hd. fold s in Hd.
    assert (Hjs : In (j, y) s) by (apply (Permutation_in _ (Permutation_sym HP)); auto).
    assert (His : In (i, x) s) by (apply (Permutation_in _ (Permutation_sym HP)); auto).
    set (c := length (map fst s) - k) in *.
    assert (Hs2 : s = firstn c s ++ skipn c s) by (symmetry; apply firstn_skipn).
    assert (Hskip : forall (l : list entry) c0, skipn c0 (map fst l) = map fst (skipn c0 l)).
    { induction l as [|a0 l IHl]; intros [|c0]; simpl; auto. }
    assert (Hrk : r = map fst (skipn c s)) by (rewrite Hr; apply Hskip).
    assert (Hj' : In (j, y) (firstn c s)).
    { rewrite Hs2 in Hjs. apply in_app_or in Hjs. destruct Hjs; auto.
      exfalso. apply Hj. rewrite Hrk. apply in_map_iff. exists (j, y). auto. }
    assert (Hi' : In (i, x) (skipn c s)).
    { rewrite Hs2 in His. apply in_app_or in His. destruct His as [His|]; auto. exfalso.
      (* i would occur twice in s *)
      rewrite Hrk in Hi. apply in_map_iff in Hi. destruct Hi as [[i' x'] [Hi1 Hi2]]. simpl in Hi1. subst i'.
      rewrite Hs2, map_app in Hnds. clear -Hnds His Hi2.
      induction (firstn c s) as [|a l IH]; simpl in *; [contradiction|].
      inversion Hnds; subst. destruct His as [->|His].
      - apply H1. apply in_or_app. right. apply in_map_iff. exists (i, x'). auto.
      - apply IH; auto. }
    (* in [rev s] (descending) the suffix comes first *)
    rewrite Hs2, rev_app_distr in Hd. unfold desc in Hd.
    assert (Hgen : forall (l1 l2 : list entry), StronglySorted (fun a b => ltb S (snd a) (snd b) = false) (l1 ++ l2) ->
               forall a b, In a l1 -> In b l2 -> ltb S (snd a) (snd b) = false).
    { induction l1 as [|h l1 IH]; intros l2 Hss a b Ha Hb; [contradiction|].
      simpl in Hss. inversion Hss as [|? ? Hss' Hall]; subst. destruct Ha as [->|Ha].
      - rewrite Forall_forall in Hall. apply Hall. apply in_or_app. auto.
      - eapply IH; eauto. }
    apply (Hgen _ _ Hd (i, x) (j, y)); apply in_rev; rewrite rev_involutive; auto.
Qed.

End FlatTail.

(** * Facts about the binary64 instance, from Coq's FloatAxioms specification. *)
From Coq Require Import List Arith Bool Lia Floats ZArith.
From ET Require Import Model.Scalar Model.Sparse Proofs.SparseBase Proofs.MergeProofs Proofs.VectorProofs.
Import ListNotations.

Lemma Prim2SF_inj : forall x y, Prim2SF x = Prim2SF y -> x = y.
Proof. intros x y H. rewrite <- (SF2Prim_Prim2SF x), <- (SF2Prim_Prim2SF y), H. reflexivity. Qed.

Definition is_zero (x : float) : bool := match Prim2SF x with S754_zero _ => true | _ => false end.

(** equal, or both zeros (the sign of a zero is not part of the dense value) *)
Definition feqP (x y : float) : Prop := x = y \/ (is_zero x = true /\ is_zero y = true).

Lemma f64_add_zero_r : forall x, feqP x (x + 0)%float.
Proof.
  intros x. unfold feqP, is_zero. rewrite add_spec. change (Prim2SF 0) with (S754_zero false).
  destruct (Prim2SF x) as [[|]| | |] eqn:E; simpl; auto; left; apply Prim2SF_inj; rewrite add_spec, E; reflexivity.
Qed.

Lemma f64_add_zero_l : forall y, feqP y (0 + y)%float.
Proof.
  intros y. unfold feqP, is_zero. rewrite add_spec. change (Prim2SF 0) with (S754_zero false).
  destruct (Prim2SF y) as [[|]| | |] eqn:E; simpl; auto; left; apply Prim2SF_inj; rewrite add_spec, E; reflexivity.
Qed.

Lemma f64_sub_zero_r : forall x, feqP x (x - 0)%float.
Proof.
  intros x. unfold feqP, is_zero. rewrite sub_spec. change (Prim2SF 0) with (S754_zero false).
  destruct (Prim2SF x) as [[|]| | |] eqn:E; simpl; auto; left; apply Prim2SF_inj; rewrite sub_spec, E; reflexivity.
Qed.

Lemma f64_zero_sub : forall y, feqP (- y)%float (0 - y)%float.
Proof.
  intros y. unfold feqP, is_zero. rewrite sub_spec, opp_spec. change (Prim2SF 0) with (S754_zero false).
  destruct (Prim2SF y) as [[|]| | |] eqn:E; simpl; auto; left; apply Prim2SF_inj; rewrite sub_spec, opp_spec, E; reflexivity.
Qed.

Lemma f64_mul_comm : forall x y, (x * y = y * x)%float.
Proof.
  intros x y. apply Prim2SF_inj. rewrite !mul_spec.
  destruct (Prim2SF x) as [sx|sx| |sx mx ex], (Prim2SF y) as [sy|sy| |sy my ey]; cbn;
    rewrite ?(Bool.xorb_comm sx sy); try reflexivity.
  rewrite (Pos.mul_comm mx my), (Z.add_comm ex ey). reflexivity.
Qed.

Notation fentry := (nat * T F64)%type.

(** The element-wise operations on binary64 vectors are the exact IEEE results
    on the dense vectors (up to the sign of a zero). *)
Theorem addvec_dense_f64 : forall v1 v2 r : vec F64, WFv v1 -> WFv v2 -> addvec v1 v2 = Ok r ->
  forall i, feqP (den (vents r) i) (den (vents v1) i + den (vents v2) i)%float.
Proof.
  intros v1 v2 r W1 W2 H i. pose proof (addvec_spec v1 v2 W1 W2) as Hs.
  destruct (vdim v1 =? vdim v2); [|rewrite H in Hs; discriminate].
  destruct Hs as (r' & Hr & _ & _ & Hl). rewrite H in Hr. inversion Hr; subst r'.
  unfold den. rewrite Hl. destruct (lookup i (vents v1)), (lookup i (vents v2)); cbn.
  - left; reflexivity.
  - apply f64_add_zero_r.
  - apply f64_add_zero_l.
  - left; reflexivity.
Qed.

Theorem subvec_dense_f64 : forall v1 v2 r : vec F64, WFv v1 -> WFv v2 -> subvec v1 v2 = Ok r ->
  forall i, feqP (den (vents r) i) (den (vents v1) i - den (vents v2) i)%float.
Proof.
  intros v1 v2 r W1 W2 H i. pose proof (subvec_spec v1 v2 W1 W2) as Hs.
  destruct (vdim v1 =? vdim v2); [|rewrite H in Hs; discriminate].
  destruct Hs as (r' & Hr & _ & _ & Hl). rewrite H in Hr. inversion Hr; subst r'.
  unfold den. rewrite Hl. destruct (lookup i (vents v1)), (lookup i (vents v2)); cbn.
  - left; reflexivity.
  - apply f64_sub_zero_r.
  - apply f64_zero_sub.
  - left; reflexivity.
Qed.

Theorem vecdot_sym_f64 : forall v1 v2 : vec F64, WFv v1 -> WFv v2 -> vecdot v1 v2 = vecdot v2 v1.
Proof. intros. apply vecdot_sym; auto. exact f64_mul_comm. Qed.

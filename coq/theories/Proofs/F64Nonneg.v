(** * The compensated sum on the binary64 instance is non-negative on non-negative data.

    [RoundNonneg.kbn_total_nonneg] is about rounded reals; [F64Scale.kbn_fold_sim] says that the
    primitive-float computation simulates the rounded-real one while every intermediate result is in
    range ([fold_ok]).  Together: the float returned by KBNSummer on finite non-negative floats is a
    finite float of non-negative value — the compensation term cannot drag the result below zero. *)
From Coq Require Import List Reals ZArith Lia Lra Floats Bool.
From Flocq Require Import Core BinarySingleNaN PrimFloat.
From ET Require Import Model.Scalar Model.Sparse Proofs.SparseBase Proofs.RInst
  Proofs.ScaleRound Proofs.F64Round Proofs.F64Scale Proofs.RoundNonneg Proofs.RoundAccuracy.
Import ListNotations.
Local Open Scope R_scope.

Lemma Forall2_sim_vals : forall l : list PrimFloat.float, Forall finite64 l -> Forall2 sim l (map val64 l).
Proof.
  intros l H. induction H as [|x t Hx _ IH]; constructor; [split; [exact Hx|reflexivity]|exact IH].
Qed.

Theorem kbn_total_nonneg_F64 : forall l : list PrimFloat.float,
  Forall finite64 l -> Forall (fun x => 0 <= val64 x) l ->
  fold_ok (@kbn0 B64) (map val64 l) ->
  INR (length l) <= bpow radix2 49 ->
  finite64 (@kbn_total F64 l) /\ 0 <= val64 (@kbn_total F64 l).
Proof.
  intros l Hf Hn Hok Hlen.
  pose proof (kbn_fold_sim l (map val64 l) (@kbn0 F64) (@kbn0 B64) (Forall2_sim_vals l Hf) kbn0_sim Hok) as [F V].
  split; [exact F|]. unfold kbn_total. rewrite V.
  change (@kbn_sum B64 (fold_left (@kbn_add B64) (map val64 l) (@kbn0 B64))) with (@kbn_total B64 (map val64 l)).
  apply (kbn_total_nonneg rnd64 u64 u64_pos u64_small rnd64_rel).
  - apply Forall_forall. intros x Hx. apply in_map_iff in Hx. destruct Hx as [y [<- Hy]].
    rewrite Forall_forall in Hn. exact (Hn _ Hy).
  - rewrite map_length. unfold u64.
    replace (8 * (/ 2 * bpow radix2 (-52))) with (bpow radix2 (-50)).
    + apply Rle_trans with (bpow radix2 49 * bpow radix2 (-50)).
      * apply Rmult_le_compat_r; [apply bpow_ge_0|exact Hlen].
      * rewrite <- bpow_plus. simpl. lra.
    + replace (-50)%Z with (2 + -52)%Z by reflexivity. rewrite bpow_plus. simpl. lra.
Qed.

(** first-order accuracy of the same sum: the float returned is within 14 n 2^-53 (relative) of the exact sum
    of the operands' values *)
Theorem kbn_total_accuracy_F64 : forall l : list PrimFloat.float,
  Forall finite64 l -> Forall (fun x => 0 <= val64 x) l ->
  fold_ok (@kbn0 B64) (map val64 l) ->
  INR (length l) <= bpow radix2 49 ->
  Rabs (val64 (@kbn_total F64 l) - lsum (map val64 l)) <= 14 * INR (length l) * u64 * lsum (map val64 l).
Proof.
  intros l Hf Hn Hok Hlen.
  pose proof (kbn_fold_sim l (map val64 l) (@kbn0 F64) (@kbn0 B64) (Forall2_sim_vals l Hf) kbn0_sim Hok) as [F V].
  unfold kbn_total. rewrite V.
  change (@kbn_sum B64 (fold_left (@kbn_add B64) (map val64 l) (@kbn0 B64))) with (@kbn_total B64 (map val64 l)).
  rewrite <- (map_length val64 l). apply kbn_total_accuracy_B64.
  - apply Forall_forall. intros x Hx. apply in_map_iff in Hx. destruct Hx as [y [<- Hy]].
    rewrite Forall_forall in Hn. exact (Hn _ Hy).
  - rewrite map_length. exact Hlen.
Qed.

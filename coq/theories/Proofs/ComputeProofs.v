(** * C05 / C18: what the Compute loop returns, for every schedule (all scalar instances).

    [X k] is the k-th iterate of the recurrence, [D k] the delta measured at a
    scheduled check [k] (norm of the change since the previous scheduled check,
    since the start vector for the first one), [FT k] the flat-tail statistics
    after the checks at all scheduled indices < k.  The loop returns [X k] for
    the least scheduled [k] at which both criteria hold, or for [k] = the
    iteration limit, whichever comes first. *)
From Coq Require Import List Arith Bool ZArith Lia.
From ET Require Import Model.Scalar Model.Sparse Model.Basic.
Import ListNotations.

Section Run.
Context {S : ScalarOps}.
Variables (ct : csm S) (ap : vec S) (a e : S).
Variables (mn fq : nat) (mx : option nat) (ftl nl : Z).
Variable t0 : vec S.
Hypothesis fq_pos : 0 < fq.

Definition step_tot (t : vec S) : vec S := match iter_step ct ap a t with Ok t' => t' | _ => t end.
Definition X (k : nat) : vec S := Nat.iter k step_tot t0.
Lemma X_S : forall k, X (Datatypes.S k) = step_tot (X k).
Proof. reflexivity. Qed.

Definition sched (k : nat) : bool := (mn <=? k) && ((k - mn) mod fq =? 0).
(** index of the iterate the checker holds when the loop is at iteration [i]:
    the last scheduled index below [i], or 0 (the start vector) *)
Definition last (i : nat) : nat := if i <=? mn then 0 else mn + ((i - 1 - mn) / fq) * fq.
Definition prev (k : nat) : nat := if k =? mn then 0 else k - fq.
Definition D (k : nat) : S :=
  match subvec (X k) (X (prev k)) with Ok td => norm2 td | _ => zero S end.
Definition checks_before (i : nat) : list nat := filter sched (seq 0 i).
Definition FT (i : nat) : ftstats S :=
  fold_left (fun st j => ft_update st (Z.to_nat nl) (X j) (D j)) (checks_before i) ft_new.
Definition stop_at (k : nat) : bool := leb S (D k) e && ft_reached (FT (Datatypes.S k)) ftl.

Lemma sched_inv : forall k, sched k = true -> exists q, k = mn + q * fq.
Proof.
  intros k H. unfold sched in H. apply andb_prop in H. destruct H as [H1 H2].
  apply Nat.leb_le in H1. apply Nat.eqb_eq in H2.
  exists ((k - mn) / fq). pose proof (Nat.div_mod (k - mn) fq ltac:(lia)). nia.
Qed.
Lemma div_pred : forall q, 0 < q -> (q * fq - 1) / fq = q - 1.
Proof.
  intros q Hq. symmetry. apply Nat.div_unique with (r := fq - 1); [lia|]. destruct q; [lia|]. nia.
Qed.
Lemma last_sched : forall k, sched k = true -> last k = prev k.
Proof.
  intros k H. destruct (sched_inv k H) as [q ->]. unfold last, prev.
  destruct q as [|q].
  - simpl. rewrite Nat.add_0_r, Nat.leb_refl, Nat.eqb_refl. reflexivity.
  - destruct (Nat.leb_spec (mn + Datatypes.S q * fq) mn); [nia|]. destruct (Nat.eqb_spec (mn + Datatypes.S q * fq) mn); [nia|].
    replace (mn + Datatypes.S q * fq - 1 - mn) with (Datatypes.S q * fq - 1) by nia. rewrite div_pred by lia. nia.
Qed.
Lemma last_succ_sched : forall k, sched k = true -> last (Datatypes.S k) = k.
Proof.
  intros k H. destruct (sched_inv k H) as [q ->]. unfold last.
  destruct (Nat.leb_spec (Datatypes.S (mn + q * fq)) mn); [lia|].
  replace (Datatypes.S (mn + q * fq) - 1 - mn) with (q * fq) by lia. rewrite Nat.div_mul by lia. reflexivity.
Qed.
Lemma last_succ_unsched : forall k, sched k = false -> last (Datatypes.S k) = last k.
Proof.
  intros k H. unfold sched in H. unfold last.
  destruct (Nat.leb_spec (Datatypes.S k) mn); destruct (Nat.leb_spec k mn); try lia.
  - assert (k = mn) by lia. subst. rewrite Nat.leb_refl, Nat.sub_diag, Nat.mod_0_l in H by lia. discriminate.
  - destruct (Nat.leb_spec mn k); [|lia]. simpl in H. apply Nat.eqb_neq in H.
    f_equal. f_equal. replace (Datatypes.S k - 1 - mn) with (k - mn) by lia.
    pose proof (Nat.div_mod (k - mn) fq ltac:(lia)) as E1.
    pose proof (Nat.mod_upper_bound (k - mn) fq ltac:(lia)) as B1.
    set (q := (k - mn) / fq) in *. set (r := (k - mn) mod fq) in *.
    apply Nat.div_unique with (r := r - 1); [lia|]. fold q. set (p := fq * q) in *. lia.
Qed.
Lemma checks_before_S : forall i, checks_before (Datatypes.S i) = checks_before i ++ (if sched i then [i] else []).
Proof.
  intros i. unfold checks_before. rewrite seq_S, filter_app. simpl. destruct (sched i); reflexivity.
Qed.

Lemma FT_S_sched : forall i, sched i = true -> FT (Datatypes.S i) = ft_update (FT i) (Z.to_nat nl) (X i) (D i).
Proof. intros i H. unfold FT. rewrite checks_before_S, H, fold_left_app. reflexivity. Qed.
Lemma FT_S_unsched : forall i, sched i = false -> FT (Datatypes.S i) = FT i.
Proof. intros i H. unfold FT. rewrite checks_before_S, H, app_nil_r. reflexivity. Qed.

(** the loop invariant *)
Definition Inv (i : nat) (t1 : vec S) (cv : conv S) (ft : ftstats S) : Prop :=
  t1 = X i /\ c_t cv = X (last i) /\ c_e cv = e /\ ft = FT i /\ (forall m, mx = Some m -> i <= m).

(** what a [Done] of the loop means *)
Definition Spec (i0 : nat) (t : vec S) (k : nat) (st : ftstats S) : Prop :=
  i0 <= k /\ t = X k /\
  (forall j, i0 <= j < k -> sched j = true -> stop_at j = false) /\
  (forall m, mx = Some m -> k <= m) /\
  ((mx = Some k /\ st = FT k) \/
   (sched k = true /\ stop_at k = true /\ st = FT (Datatypes.S k) /\ (0 <= nl)%Z)).

Lemma conv_update_ok : forall cv t cv', conv_update cv t = Ok cv' ->
  c_t cv' = t /\ c_e cv' = c_e cv /\
  c_d cv' = match subvec t (c_t cv) with Ok td => norm2 td | _ => zero S end.
Proof.
  intros cv t cv' H. unfold conv_update in H. destruct (subvec t (c_t cv)) as [td| | |]; cbn [rbind] in H; try discriminate.
  destruct (nonfinite S (norm2 td)); inversion H; subst; cbn. auto.
Qed.

Lemma Spec_step : forall i t k st,
  (sched i = true -> stop_at i = false) -> Spec (Datatypes.S i) t k st -> Spec i t k st.
Proof.
  intros i t k st Hi (Hle & Ht & Hns & Hmx & Hend). unfold Spec. split; [lia|]. split; [auto|]. split; [|split; auto].
  intros j Hj Hs. destruct (Nat.eq_dec j i) as [->|Ne]; auto. apply Hns; auto. lia.
Qed.

Theorem loop_spec : forall fuel i t1 cv ft t k st,
  Inv i t1 cv ft ->
  loop fuel ct ap a e mn fq mx ftl nl i t1 cv ft = Done t k st ->
  Spec i t k st.
Proof.
  induction fuel as [|fuel IH]; intros i t1 cv ft t k st HI H; [discriminate|].
  destruct HI as (Ht1 & Hct & Hce & Hft & Hlim).
  cbn [loop] in H.
  destruct (match mx with Some m => m <=? i | None => false end) eqn:Emx.
  - (* the iteration limit *)
    inversion H; subst t k st. destruct mx as [m|] eqn:Em; [|discriminate]. apply Nat.leb_le in Emx.
    assert (m = i) by (specialize (Hlim m eq_refl); lia). subst m.
    unfold Spec. split; [lia|]. split; [auto|]. split; [intros; lia|]. split.
    + intros m' Hm'. try rewrite Em in Hm'. inversion Hm'; subst. lia.
    + left. auto.
  - assert (Hlim' : forall m, mx = Some m -> Datatypes.S i <= m).
    { intros m Hm. rewrite Hm in Emx. apply Nat.leb_gt in Emx. lia. }
    fold (sched i) in H.
    destruct (sched i) eqn:Es.
    + destruct (conv_update cv t1) as [cv'| | |] eqn:Ecu; try discriminate.
      destruct (nl <? 0)%Z eqn:Enl; [discriminate|]. apply Z.ltb_ge in Enl.
      destruct (conv_update_ok _ _ _ Ecu) as (Hct' & Hce' & Hd').
      assert (HD : c_d cv' = D i).
      { rewrite Hd'. unfold D. rewrite Hct, Ht1, (last_sched i Es). reflexivity. }
      assert (HFT : ft_update ft (Z.to_nat nl) t1 (c_d cv') = FT (Datatypes.S i)).
      { rewrite (FT_S_sched i Es), HD, Hft, Ht1. reflexivity. }
      rewrite HFT in H.
      assert (Hstop : converged cv' && ft_reached (FT (Datatypes.S i)) ftl = stop_at i).
      { unfold stop_at, converged. rewrite HD, Hce', Hce. reflexivity. }
      rewrite Hstop in H.
      destruct (stop_at i) eqn:Est.
      * inversion H; subst t k st. unfold Spec. split; [lia|]. split; [auto|]. split; [intros; lia|]. split.
        -- intros m Hm. specialize (Hlim m Hm). lia.
        -- right. auto.
      * destruct (iter_step ct ap a t1) as [t1'| | |] eqn:Eit; try discriminate.
        apply Spec_step; [auto|]. eapply IH; [|exact H].
        unfold Inv. split; [|split; [|split; [|split]]]; auto.
        -- rewrite X_S. unfold step_tot. rewrite <- Ht1, Eit. reflexivity.
        -- rewrite (last_succ_sched i Es), Hct'. auto.
        -- congruence.
    + destruct (iter_step ct ap a t1) as [t1'| | |] eqn:Eit; try discriminate.
      apply Spec_step; [intros Hs; rewrite Es in Hs; discriminate|]. eapply IH; [|exact H].
      unfold Inv. split; [|split; [|split; [|split]]]; auto.
      * rewrite X_S. unfold step_tot. rewrite <- Ht1, Eit. reflexivity.
      * rewrite (last_succ_unsched i Es). auto.
      * rewrite (FT_S_unsched i Es). auto.
Qed.

(** bookkeeping of one scheduled check (used by the progress proofs) *)
Lemma check_step : forall i t1 cv ft cv', Inv i t1 cv ft -> sched i = true -> conv_update cv t1 = Ok cv' ->
  ft_update ft (Z.to_nat nl) t1 (c_d cv') = FT (Datatypes.S i) /\
  converged cv' && ft_reached (FT (Datatypes.S i)) ftl = stop_at i /\
  c_t cv' = t1 /\ c_e cv' = e.
Proof.
  intros i t1 cv ft cv' (Ht1 & Hct & Hce & Hft & _) Es Ecu.
  destruct (conv_update_ok _ _ _ Ecu) as (Hct' & Hce' & Hd').
  assert (HD : c_d cv' = D i).
  { rewrite Hd'. unfold D. rewrite Hct, Ht1, (last_sched i Es). reflexivity. }
  split; [|split; [|split]].
  - rewrite (FT_S_sched i Es), HD, Hft, Ht1. reflexivity.
  - unfold stop_at, converged. rewrite HD, Hce', Hce. reflexivity.
  - exact Hct'.
  - congruence.
Qed.

Lemma Inv_next_sched : forall i t1 cv ft cv' t1', Inv i t1 cv ft -> sched i = true -> conv_update cv t1 = Ok cv' ->
  iter_step ct ap a t1 = Ok t1' -> (forall m, mx = Some m -> Datatypes.S i <= m) ->
  Inv (Datatypes.S i) t1' cv' (FT (Datatypes.S i)).
Proof.
  intros i t1 cv ft cv' t1' HI Es Ecu Eit Hlim.
  destruct (check_step i t1 cv ft cv' HI Es Ecu) as (_ & _ & Hct' & Hce').
  destruct HI as (Ht1 & _). unfold Inv. split; [|split; [|split; [|split]]]; auto.
  - rewrite X_S. unfold step_tot. rewrite <- Ht1, Eit. reflexivity.
  - rewrite (last_succ_sched i Es), Hct'. auto.
Qed.

Lemma Inv_next_unsched : forall i t1 cv ft t1', Inv i t1 cv ft -> sched i = false ->
  iter_step ct ap a t1 = Ok t1' -> (forall m, mx = Some m -> Datatypes.S i <= m) ->
  Inv (Datatypes.S i) t1' cv ft.
Proof.
  intros i t1 cv ft t1' (Ht1 & Hct & Hce & Hft & _) Es Eit Hlim.
  unfold Inv. split; [|split; [|split; [|split]]]; auto.
  - rewrite X_S. unfold step_tot. rewrite <- Ht1, Eit. reflexivity.
  - rewrite (last_succ_unsched i Es). auto.
  - rewrite (FT_S_unsched i Es). auto.
Qed.

End Run.

(** ** Compute: validation, then the loop *)
Section Top.
Context {S : ScalarOps}.

(** effective schedule parameters of an accepted call *)
Definition eff_freq (o : opts S) : Z := match o_check_freq o with Some f => f | None => 1%Z end.
Definition eff_max (o : opts S) : Z := match o_max_iters o with Some m => m | None => 0%Z end.
Definition eff_min (o : opts S) : Z := match o_min_iters o with Some m => m | None => eff_freq o end.
Definition eff_leaders (o : opts S) (n : nat) : Z := if (o_num_leaders o =? 0)%Z then Z.of_nat n else o_num_leaders o.
Definition eff_t0 (o : opts S) (p : vec S) : vec S := match o_t0 o with Some t0 => t0 | None => p end.
Definition eff_mx (o : opts S) : option nat := if (eff_max o =? 0)%Z then None else Some (Z.to_nat (eff_max o)).

(** the documented preconditions *)
Definition valid (c : csm S) (p : vec S) (a e : S) (o : opts S) : Prop :=
  major c = minor c /\ major c <> 0 /\ vdim p = major c /\
  (forall t0, o_t0 o = Some t0 -> vdim t0 = major c) /\
  (forall d, o_result_dim o = Some d -> d = major c) /\
  leb S (zero S) a = true /\ leb S a (one S) = true /\ ltb S (zero S) e = true /\
  (1 <= eff_freq o)%Z /\ (0 <= eff_max o)%Z /\ (1 <= eff_min o)%Z.

Lemma compute_valid : forall fuel c p a e o, valid c p a e o ->
  compute fuel c p a e o =
  loop fuel (transpose c) (scalevec a p) a e (Z.to_nat (eff_min o)) (Z.to_nat (eff_freq o)) (eff_mx o)
       (o_flat_tail o) (eff_leaders o (major c)) 0 (eff_t0 o p) (conv_new (eff_t0 o p) e) ft_new.
Proof.
  intros fuel c p a e o (Hsq & Hn0 & Hp & Ht0 & Hrd & Ha0 & Ha1 & He & Hf & Hm & Hmin).
  unfold compute, mdim. rewrite Hsq, Nat.eqb_refl. rewrite <- Hsq.
  destruct (Nat.eqb_spec (major c) 0); [contradiction|].
  rewrite Hp, Nat.eqb_refl. cbn [negb orb].
  assert (E1 : match o_t0 o with Some t0 => negb (vdim t0 =? major c) | None => false end = false).
  { destruct (o_t0 o) as [t0|] eqn:E; auto. rewrite (Ht0 t0 eq_refl), Nat.eqb_refl. reflexivity. }
  assert (E2 : match o_result_dim o with Some d => negb (d =? major c) | None => false end = false).
  { destruct (o_result_dim o) as [d|] eqn:E; auto. rewrite (Hrd d eq_refl), Nat.eqb_refl. reflexivity. }
  rewrite E1, E2, Ha0, Ha1, He. cbn [orb andb negb].
  fold (eff_freq o). destruct (Z.ltb_spec (eff_freq o) 1); [lia|].
  fold (eff_max o). destruct (Z.ltb_spec (eff_max o) 0); [lia|].
  fold (eff_min o). destruct (Z.leb_spec (eff_min o) 0); [lia|].
  reflexivity.
Qed.

(** Rejection: out-of-range alpha or epsilon, a non-square or empty matrix,
    mismatched dimensions of p / t0 / the result vector, checkFreq < 1,
    maxIterations < 0, minIterations < 1 — each gives an error whatever the
    fuel, i.e. before the loop is entered (no iteration is performed). *)
Theorem compute_rejects : forall c p a e o, ~ valid c p a e o ->
  exists code, forall fuel, compute fuel c p a e o = Failed code.
Proof.
  intros c p a e o Hnv. unfold compute, mdim.
  destruct (Nat.eqb_spec (major c) (minor c)) as [Hsq|]; [|eexists; reflexivity].
  destruct (Nat.eqb_spec (major c) 0) as [|Hn0]; [eexists; reflexivity|].
  destruct (negb (vdim p =? major c)
            || match o_t0 o with Some t0 => negb (vdim t0 =? major c) | None => false end
            || match o_result_dim o with Some d => negb (d =? major c) | None => false end) eqn:Ed; [eexists; reflexivity|].
  destruct (leb S (zero S) a && leb S a (one S)) eqn:Ea; cbn [negb]; [|eexists; reflexivity].
  destruct (ltb S (zero S) e) eqn:Ee; cbn [negb]; [|eexists; reflexivity].
  fold (eff_freq o). destruct (Z.ltb_spec (eff_freq o) 1); [eexists; reflexivity|].
  fold (eff_max o). destruct (Z.ltb_spec (eff_max o) 0); [eexists; reflexivity|].
  fold (eff_min o). destruct (Z.leb_spec (eff_min o) 0); [eexists; reflexivity|].
  exfalso. apply Hnv. apply orb_false_iff in Ed. destruct Ed as [Ed Ed3]. apply orb_false_iff in Ed. destruct Ed as [Ed1 Ed2].
  apply andb_true_iff in Ea. destruct Ea as [Ea0 Ea1].
  apply negb_false_iff, Nat.eqb_eq in Ed1.
  unfold valid. repeat split; auto; try lia.
  - intros t0 Ht0. rewrite Ht0 in Ed2. apply negb_false_iff, Nat.eqb_eq in Ed2. auto.
  - intros d Hd. rewrite Hd in Ed3. apply negb_false_iff, Nat.eqb_eq in Ed3. auto.
Qed.

(** What an accepted call returns (the declarative iteration-control rule). *)
Theorem compute_done : forall fuel c p a e o t k st, valid c p a e o ->
  compute fuel c p a e o = Done t k st ->
  Spec (transpose c) (scalevec a p) a e (Z.to_nat (eff_min o)) (Z.to_nat (eff_freq o)) (eff_mx o)
       (o_flat_tail o) (eff_leaders o (major c)) (eff_t0 o p) 0 t k st.
Proof.
  intros fuel c p a e o t k st Hv H. rewrite (compute_valid fuel c p a e o Hv) in H.
  destruct Hv as (_ & _ & _ & _ & _ & _ & _ & _ & Hf & Hm & Hmin).
  eapply loop_spec; [lia| |exact H].
  unfold Inv. cbn [c_t c_e conv_new]. repeat split; auto.
  intros m Hm'. lia.
Qed.

(** exactly [n] iterations when a fixed count is requested; the limit wins when
    it is hit before the first scheduled check *)
Corollary with_iterations_exact : forall fuel c p a e o t k st n, valid c p a e o ->
  o_max_iters o = Some (Z.of_nat n) -> o_min_iters o = Some (Z.of_nat n) -> 0 < n ->
  compute fuel c p a e o = Done t k st -> k = n.
Proof.
  intros fuel c p a e o t k st n Hv Hmx Hmn Hn H.
  pose proof (compute_done _ _ _ _ _ _ _ _ _ Hv H) as (_ & _ & _ & Hle & Hend).
  assert (Em : eff_mx o = Some n).
  { unfold eff_mx, eff_max. rewrite Hmx. destruct (Z.eqb_spec (Z.of_nat n) 0); [lia|]. rewrite Nat2Z.id. reflexivity. }
  specialize (Hle n Em).
  destruct Hend as [[Hk _]|[Hs _]].
  - rewrite Em in Hk. inversion Hk. reflexivity.
  - unfold sched in Hs. apply andb_true_iff in Hs. destruct Hs as [Hs _]. apply Nat.leb_le in Hs.
    unfold eff_min in Hs. rewrite Hmn, Nat2Z.id in Hs. lia.
Qed.

Corollary limit_before_first_check : forall fuel c p a e o t k st, valid c p a e o ->
  (0 < eff_max o < eff_min o)%Z ->
  compute fuel c p a e o = Done t k st -> k = Z.to_nat (eff_max o).
Proof.
  intros fuel c p a e o t k st Hv Hlt H.
  pose proof (compute_done _ _ _ _ _ _ _ _ _ Hv H) as (_ & _ & _ & Hle & Hend).
  assert (Em : eff_mx o = Some (Z.to_nat (eff_max o))).
  { unfold eff_mx. destruct (Z.eqb_spec (eff_max o) 0); [lia|reflexivity]. }
  specialize (Hle _ Em).
  destruct Hend as [[Hk _]|[Hs _]].
  - rewrite Em in Hk. inversion Hk. auto.
  - unfold sched in Hs. apply andb_true_iff in Hs. destruct Hs as [Hs _]. apply Nat.leb_le in Hs. lia.
Qed.

End Top.

(** * C10: NewCSRMatrix, Transpose, SetDim/SetMajorDim/SetMinorDim against dense semantics. *)
From Coq Require Import List Arith Bool Lia Sorted Permutation.
From ET Require Import Model.Scalar Model.Sparse Proofs.SparseBase Proofs.MergeProofs.
Import ListNotations.

Section Matrix.
Context {S : ScalarOps}.
Notation entry := (nat * T S)%type.

(** ** sorting by index *)
Lemma insert_perm : forall (e : entry) l, Permutation (insert_by_index e l) (e :: l).
Proof.
  induction l as [|h t IH]; simpl; auto.
  destruct (fst e <? fst h); auto.
  eapply perm_trans; [apply perm_skip, IH|apply perm_swap].
Qed.

Lemma insert_fst : forall (e : entry) l j, In j (map fst (insert_by_index e l)) <-> j = fst e \/ In j (map fst l).
Proof.
  intros e l j. split; intros H.
  - apply (Permutation_in j (Permutation_map fst (insert_perm e l))) in H. simpl in H. intuition.
  - apply (Permutation_in j (Permutation_map fst (Permutation_sym (insert_perm e l)))). simpl. intuition.
Qed.

Lemma insert_sorted : forall (e : entry) l, sorted l -> ~ In (fst e) (map fst l) -> sorted (insert_by_index e l).
Proof.
  intros [i x]. induction l as [|[j y] t IH]; intros Hs Hn; cbn [insert_by_index fst] in *.
  - apply sorted_cons; [constructor|]. simpl. intros ? [].
  - destruct (sorted_cons_inv _ _ _ Hs) as [Hst Hlt].
    destruct (Nat.ltb_spec i j) as [L|G].
    + apply sorted_cons; auto. simpl in *. intros k [<-|Hk]; auto. apply Hlt in Hk. lia.
    + apply sorted_cons.
      * apply IH; auto. intros Hin. apply Hn. right; auto.
      * intros k Hk. apply insert_fst in Hk. destruct Hk as [->|Hk]; auto.
        simpl in *. assert (i <> j) by (intros ->; apply Hn; left; reflexivity). lia.
Qed.

Lemma sort_acc_perm : forall (l acc : list entry), Permutation (fold_left (fun a e => insert_by_index e a) l acc) (l ++ acc).
Proof.
  induction l as [|e t IH]; intros acc; simpl; auto.
  eapply perm_trans; [apply IH|]. eapply perm_trans; [apply Permutation_app_head, insert_perm|].
  apply Permutation_sym, Permutation_middle.
Qed.

Lemma sort_perm : forall l : list entry, Permutation (sort_by_index l) l.
Proof. intros. unfold sort_by_index. eapply perm_trans; [apply sort_acc_perm|]. rewrite app_nil_r. auto. Qed.

Lemma sort_acc_sorted : forall (l acc : list entry), sorted acc -> NoDup (map fst (l ++ acc)) ->
  sorted (fold_left (fun a e => insert_by_index e a) l acc).
Proof.
  induction l as [|e t IH]; intros acc Hs Hnd; simpl; auto.
  assert (Hnd2 : NoDup (map fst (e :: t ++ acc))) by exact Hnd.
  inversion Hnd2 as [|? ? Hnotin Hnd']; subst.
  apply IH.
  - apply insert_sorted; auto. intros Hin. apply Hnotin. rewrite map_app, in_app_iff. auto.
  - eapply Permutation_NoDup; [|exact Hnd2]. apply Permutation_map.
    eapply perm_trans; [apply Permutation_middle|]. apply Permutation_app_head, Permutation_sym, insert_perm.
Qed.

Theorem sort_sorted : forall l : list entry, NoDup (map fst l) -> sorted (sort_by_index l).
Proof. intros l H. apply sort_acc_sorted; [constructor|]. rewrite app_nil_r. auto. Qed.

(** sorted spans are determined by their lookup function *)
Lemma sorted_ext : forall l1 l2 : list entry, sorted l1 -> sorted l2 ->
  (forall i, lookup i l1 = lookup i l2) -> l1 = l2.
Proof.
  induction l1 as [|[i x] t1 IH]; intros l2 H1 H2 He.
  - destruct l2 as [|[j y] t2]; auto. specialize (He j). simpl in He. rewrite Nat.eqb_refl in He. discriminate.
  - destruct l2 as [|[j y] t2].
    + specialize (He i). simpl in He. rewrite Nat.eqb_refl in He. discriminate.
    + destruct (sorted_cons_inv _ _ _ H1) as [H1t H1lt]. destruct (sorted_cons_inv _ _ _ H2) as [H2t H2lt].
      assert (i = j).
      { destruct (Nat.lt_trichotomy i j) as [L|[E|G]]; auto.
        - pose proof (He i) as Hi. rewrite !lookup_cons, Nat.eqb_refl in Hi.
          destruct (Nat.eqb_spec i j); [lia|]. rewrite (lookup_lt_none t2 i) in Hi; [discriminate|].
          intros k Hk. apply H2lt in Hk. lia.
        - pose proof (He j) as Hj. rewrite !lookup_cons, Nat.eqb_refl in Hj.
          destruct (Nat.eqb_spec j i); [lia|]. rewrite (lookup_lt_none t1 j) in Hj; [discriminate|].
          intros k Hk. apply H1lt in Hk. lia. }
      subst j. pose proof (He i) as Hi. rewrite !lookup_cons, Nat.eqb_refl in Hi. inversion Hi; subst y.
      f_equal. apply IH; auto. intros k. pose proof (He k) as Hk. rewrite !lookup_cons in Hk.
      destruct (Nat.eqb_spec k i) as [E|Ne]; auto.
      rewrite E. rewrite (lookup_lt_none t1 i), (lookup_lt_none t2 i); auto.
Qed.

(** any function returning a sorted permutation agrees with [sort_by_index]
    on spans with distinct indices (Go's unstable sort.Sort is covered) *)
Theorem sort_unique : forall (l s : list entry), NoDup (map fst l) -> Permutation l s -> sorted s -> s = sort_by_index l.
Proof.
  intros l s Hnd HP Hs. apply sorted_ext; auto. apply sort_sorted; auto.
  intros i. rewrite <- (lookup_perm_nodup l s HP Hnd i).
  apply (lookup_perm_nodup l (sort_by_index l)); auto. apply Permutation_sym, sort_perm.
Qed.

(** ** NewCSRMatrix *)
Definition coo_in_range (nr nc : nat) (c : coo S) : Prop := coo_row c < nr /\ coo_col c < nc.
Definition coords (es : list (coo S)) : list (nat * nat) := map (fun c => (coo_row c, coo_col c)) es.

Fixpoint coo_lookup (r c : nat) (es : list (coo S)) : option S :=
  match es with
  | [] => None
  | e :: t => if (coo_row e =? r) && (coo_col e =? c) then Some (coo_val e) else coo_lookup r c t
  end.

Lemma nodup_coords_row : forall (es : list (coo S)) r,
  NoDup (coords es) -> NoDup (map fst (map (fun c => (coo_col c, coo_val c)) (filter (fun c => coo_row c =? r) es))).
Proof.
  induction es as [|[[a b] x] t IH]; intros r Hnd; simpl; [constructor|].
  inversion Hnd as [|? ? Hn Hnd']; subst. unfold coo_row at 1. simpl.
  destruct (Nat.eqb_spec a r) as [->|Ne]; simpl; auto.
  constructor; auto. intros Hin. apply Hn. unfold coo_col in *. simpl in *.
  rewrite map_map in Hin. apply in_map_iff in Hin. destruct Hin as [[[a' b'] y] [Hb Hf]]. simpl in *. subst b'.
  apply filter_In in Hf. destruct Hf as [Hin Hr]. unfold coo_row in Hr. simpl in Hr. apply Nat.eqb_eq in Hr. subst a'.
  apply in_map_iff. exists (r, b, y). auto.
Qed.

Lemma filter_keep_nodup : forall (f : coo S -> bool) es, NoDup (coords es) -> NoDup (coords (filter f es)).
Proof.
  induction es as [|e t IH]; intros Hnd; simpl; [constructor|].
  inversion Hnd as [|? ? Hn Hnd']; subst. destruct (f e); simpl; auto.
  constructor; auto. intros Hin. apply Hn. unfold coords in *. apply in_map_iff in Hin.
  destruct Hin as [e' [He Hf]]. apply filter_In in Hf. apply in_map_iff. exists e'. tauto.
Qed.

Lemma lookup_row_bucket : forall (es : list (coo S)) r c,
  lookup c (map (fun e => (coo_col e, coo_val e)) (filter (fun e => coo_row e =? r) es)) = coo_lookup r c es.
Proof.
  induction es as [|[[a b] x] t IH]; intros r c; simpl; auto.
  unfold coo_row, coo_col, coo_val. simpl.
  destruct (Nat.eqb_spec a r) as [->|Ne]; simpl.
  - rewrite (Nat.eqb_sym c b). destruct (b =? c); auto.
  - apply IH.
Qed.

Lemma coo_lookup_filter : forall (f : coo S -> bool) es r c, NoDup (coords es) ->
  coo_lookup r c (filter f es) = match coo_lookup r c es with Some x => if f (r, c, x) then Some x else None | None => None end.
Proof.
  induction es as [|[[a b] x] t IH]; intros r c Hnd; simpl; auto.
  inversion Hnd as [|? ? Hn Hnd']; subst.
  unfold coo_row, coo_col, coo_val. simpl.
  destruct ((a =? r) && (b =? c)) eqn:E.
  - apply andb_true_iff in E. destruct E as [Ea Eb]. apply Nat.eqb_eq in Ea, Eb. subst a b.
    destruct (f (r, c, x)) eqn:Ef; simpl.
    + unfold coo_row, coo_col, coo_val. simpl. rewrite !Nat.eqb_refl. reflexivity.
    + rewrite IH; auto. destruct (coo_lookup r c t) eqn:El; auto. exfalso. apply Hn.
      clear -El. induction t as [|[[a b] y] t IH]; simpl in *; [discriminate|].
      unfold coo_row, coo_col in *. simpl in *. destruct ((a =? r) && (b =? c)) eqn:E.
      * apply andb_true_iff in E. destruct E as [Ea Eb]. apply Nat.eqb_eq in Ea, Eb. subst. left; reflexivity.
      * right. auto.
  - destruct (f (a, b, x)); simpl; auto. unfold coo_row, coo_col, coo_val. simpl. rewrite E. auto.
Qed.

Lemma row_new_csr : forall nr nc es z r, r < nr ->
  row (new_csr nr nc es z) r =
  sort_by_index (map (fun c => (coo_col c, coo_val c))
                   (filter (fun c => coo_row c =? r) (filter (fun c : coo S => z || nz (coo_val c)) es))).
Proof.
  intros. unfold row, new_csr. cbn [rows].
  set (f := fun r0 => sort_by_index _).
  change (@nil entry) with (f nr) at 1 || idtac.
  rewrite nth_indep with (d' := f 0); [|rewrite map_length, seq_length; auto].
  rewrite map_nth. rewrite seq_nth; auto.
Qed.

(** Stored cells are exactly the listed ones (zeros kept only on request),
    every row strictly sorted by column and within range. *)
Theorem new_csr_cells : forall nr nc (es : list (coo S)) z,
  NoDup (coords es) -> Forall (coo_in_range nr nc) es ->
  WFm (new_csr nr nc es z) /\ major (new_csr nr nc es z) = nr /\ minor (new_csr nr nc es z) = nc /\
  forall r c, r < nr ->
    lookup c (row (new_csr nr nc es z) r) =
    match coo_lookup r c es with Some x => if z || nz x then Some x else None | None => None end.
Proof.
  intros nr nc es z Hnd Hrng.
  assert (Hkept : NoDup (coords (filter (fun c : coo S => z || nz (coo_val c)) es))) by (apply filter_keep_nodup; auto).
  assert (Hcells : forall r c, r < nr ->
    lookup c (row (new_csr nr nc es z) r) =
    match coo_lookup r c es with Some x => if z || nz x then Some x else None | None => None end).
  { intros r c Hr. rewrite row_new_csr; auto.
    set (X := map (fun c0 : coo S => (coo_col c0, coo_val c0)) _).
    assert (HX : NoDup (map fst X)) by (apply nodup_coords_row; auto).
    rewrite <- (lookup_perm_nodup X (sort_by_index X) (Permutation_sym (sort_perm X)) HX c).
    unfold X. rewrite lookup_row_bucket. rewrite coo_lookup_filter; auto. }
  repeat split; auto.
  - unfold new_csr. cbn. rewrite map_length, seq_length. reflexivity.
  - apply Forall_forall. intros x Hin. destruct (In_nth _ _ [] Hin) as [k [Hk Hx]].
    unfold new_csr in Hk. cbn in Hk. rewrite map_length, seq_length in Hk.
    fold (row (new_csr nr nc es z) k) in Hx. subst x. rewrite row_new_csr; auto. split.
    + apply sort_sorted. apply nodup_coords_row; auto.
    + unfold bounded. apply Forall_forall. intros [j y] Hj.
      apply (Permutation_in _ (sort_perm _)) in Hj. apply in_map_iff in Hj. destruct Hj as [[[a b] w] [Heq Hf]].
      inversion Heq; subst. apply filter_In in Hf. destruct Hf as [Hf _]. apply filter_In in Hf. destruct Hf as [Hf _].
      rewrite Forall_forall in Hrng. apply Hrng in Hf. destruct Hf as [_ Hc]. exact Hc.
Qed.

(** ** Transpose *)
Lemma filter_eq_sorted : forall (l : list entry) c, sorted l ->
  filter (fun e => fst e =? c) l = match lookup c l with Some y => [(c, y)] | None => [] end.
Proof.
  induction l as [|[j y] l IH]; intros c Hs; simpl; auto.
  destruct (sorted_cons_inv _ _ _ Hs) as [Hst Hlt].
  rewrite (Nat.eqb_sym c j). destruct (Nat.eqb_spec j c) as [->|Ne].
  - f_equal. rewrite IH; auto. rewrite (lookup_lt_none l c); auto.
  - apply IH; auto.
Qed.

Lemma lookup_col_of : forall (rws : list (list entry)) c r0 r,
  Forall sorted rws ->
  lookup r (col_of c r0 rws) = if (r0 <=? r) then lookup c (nth (r - r0) rws []) else None.
Proof.
  induction rws as [|rw t IH]; intros c r0 r HF; simpl.
  - destruct (r0 <=? r); destruct (r - r0); reflexivity.
  - inversion HF as [|? ? Hs HF']; subst. rewrite lookup_app.
    assert (Hhead : lookup r (map (fun e : entry => (r0, snd e)) (filter (fun e => fst e =? c) rw)) =
                    if r =? r0 then lookup c rw else None).
    { rewrite filter_eq_sorted; auto. destruct (lookup c rw); simpl; destruct (r =? r0); reflexivity. }
    rewrite Hhead. rewrite IH; auto.
    destruct (Nat.eqb_spec r r0) as [->|Ne].
    + rewrite Nat.leb_refl, Nat.sub_diag. destruct (lookup c rw); auto.
      destruct (Nat.leb_spec (Datatypes.S r0) r0); [lia|reflexivity].
    + destruct (Nat.leb_spec r0 r) as [L|G].
      * destruct (Nat.leb_spec (Datatypes.S r0) r); [|lia].
        replace (r - r0) with (Datatypes.S (r - Datatypes.S r0)) by lia. reflexivity.
      * destruct (Nat.leb_spec (Datatypes.S r0) r); [lia|reflexivity].
Qed.

Lemma col_of_fst : forall (rws : list (list entry)) c r0 k, In k (map fst (col_of c r0 rws)) -> r0 <= k < r0 + length rws.
Proof.
  induction rws as [|rw t IH]; intros c r0 k Hin; simpl in *; [contradiction|].
  rewrite map_app, in_app_iff in Hin. destruct Hin as [Hin|Hin].
  - rewrite map_map in Hin. simpl in Hin. apply in_map_iff in Hin. destruct Hin as [? [<- _]]. lia.
  - apply IH in Hin. lia.
Qed.

Lemma col_of_sorted : forall (rws : list (list entry)) c r0, Forall sorted rws -> sorted (col_of c r0 rws).
Proof.
  induction rws as [|rw t IH]; intros c r0 HF; simpl; [constructor|].
  inversion HF as [|? ? Hs HF']; subst.
  rewrite filter_eq_sorted; auto. destruct (lookup c rw); simpl; auto.
  apply sorted_cons; auto. intros k Hk. apply col_of_fst in Hk. lia.
Qed.

Lemma row_transpose : forall (m : csm S) c, c < minor m -> row (transpose m) c = col_of c 0 (rows m).
Proof.
  intros m c Hc. unfold row, transpose. cbn [rows].
  rewrite nth_indep with (d' := col_of 0 0 (rows m)); [|rewrite map_length, seq_length; auto].
  rewrite (map_nth (fun c0 => col_of c0 0 (rows m))). rewrite seq_nth; auto.
Qed.

Theorem transpose_spec : forall m : csm S, WFm m ->
  WFm (transpose m) /\ major (transpose m) = minor m /\ minor (transpose m) = major m /\
  forall r c, c < minor m -> lookup r (row (transpose m) c) = lookup c (row m r).
Proof.
  intros m [Hlen HF].
  assert (HFs : Forall sorted (rows m)) by (eapply Forall_impl; [|exact HF]; intros a [Ha _]; exact Ha).
  repeat split.
  - unfold transpose. cbn. rewrite map_length, seq_length. reflexivity.
  - apply Forall_forall. intros x Hin. destruct (In_nth _ _ [] Hin) as [k [Hk Hx]].
    unfold transpose in Hk. cbn in Hk. rewrite map_length, seq_length in Hk.
    fold (row (transpose m) k) in Hx. subst x. rewrite row_transpose; auto. split.
    + apply col_of_sorted; auto.
    + unfold bounded. apply Forall_forall. intros [j y] Hj. cbn [minor transpose fst].
      assert (In j (map fst (col_of k 0 (rows m)))) as Hj' by (apply in_map_iff; exists (j, y); auto).
      apply col_of_fst in Hj'. lia.
  - intros r c Hc. rewrite row_transpose; auto. rewrite lookup_col_of; auto. simpl. rewrite Nat.sub_0_r. reflexivity.
Qed.

Lemma rows_ext : forall (l1 l2 : list (list entry)), length l1 = length l2 ->
  (forall k, k < length l1 -> nth k l1 [] = nth k l2 []) -> l1 = l2.
Proof.
  induction l1 as [|a t IH]; intros l2 Hlen He; destruct l2 as [|b t2]; simpl in *; try lia; auto.
  f_equal. apply (He 0); lia. apply IH; [lia|]. intros k Hk. apply (He (Datatypes.S k)). lia.
Qed.

Lemma csm_ext : forall a b : csm S, major a = major b -> minor a = minor b -> rows a = rows b -> a = b.
Proof. intros [a1 a2 a3] [b1 b2 b3]; simpl; intros; subst; reflexivity. Qed.

Theorem transpose_involutive : forall m : csm S, WFm m -> transpose (transpose m) = m.
Proof.
  intros m W. destruct (transpose_spec m W) as (Wt & Hmaj & Hmin & Hcell).
  destruct (transpose_spec _ Wt) as (Wtt & Hmaj2 & Hmin2 & Hcell2).
  set (mtt := transpose (transpose m)) in *.
  apply csm_ext; try congruence.
  assert (Hlen : length (rows mtt) = length (rows m)).
  { destruct Wtt as [L _]. destruct W as [L' _]. rewrite L, L'. congruence. }
  apply rows_ext; auto.
  intros k Hk. change (row mtt k = row m k).
  assert (Hkm : k < major m). { destruct Wtt as [L _]. rewrite L in Hk. congruence. }
  apply sorted_ext.
  - apply (WFm_row mtt k Wtt).
  - apply (WFm_row m k W).
  - intros i. rewrite Hcell2; [|lia].
    destruct (Nat.lt_ge_cases i (minor m)) as [Li|Gi].
    + apply Hcell; auto.
    + rewrite (row_overflow (transpose m) i Wt); [|lia]. simpl. symmetry.
      destruct (lookup i (row m k)) eqn:E; auto.
      destruct (WFm_row m k W) as [_ Hb]. pose proof (bounded_lookup _ _ _ _ Hb E). lia.
Qed.

(** ** resizing as dense crop-and-zero-pad, for every history *)
Record dense := { dmajor : nat; dminor : nat; dcell : nat -> nat -> option S }.
Definition abs (m : csm S) : dense := {| dmajor := major m; dminor := minor m; dcell := fun r c => lookup c (row m r) |}.
Definition dense_eq (a b : dense) : Prop :=
  dmajor a = dmajor b /\ dminor a = dminor b /\ forall r c, dcell a r c = dcell b r c.

Inductive op :=
| OSetDim (r c : nat) | OSetMajor (d : nat) | OSetMinor (d : nat) | OTranspose | OMerge (b : csm S).

Definition apply_op (m : csm S) (o : op) : csm S :=
  match o with
  | OSetDim r c => set_dim r c m
  | OSetMajor d => set_major d m
  | OSetMinor d => set_minor d m
  | OTranspose => transpose m
  | OMerge b => fst (mmerge m b)
  end.

Definition crop (a : dense) (nr nc : nat) : dense :=
  {| dmajor := nr; dminor := nc;
     dcell := fun r c => if (r <? nr) && (c <? nc) then dcell a r c else None |}.
(** the overlay of CSMatrix.Merge on stored cells: the update's cell wins; a
    zero in the update erases, except that a zero landing beyond the end of the
    target's row is stored as an explicit zero (an unobservable representation
    detail: C11 speaks about non-zero content) — here cells are compared through
    [obs]-style projection [nzcell]. *)
Definition nzcell (a : dense) (r c : nat) : option S :=
  match dcell a r c with Some x => if nz x then Some x else None | None => None end.
Definition dense_apply (a : dense) (o : op) : dense :=
  match o with
  | OSetDim r c => crop a r c
  | OSetMajor d => crop a d (dminor a)
  | OSetMinor d => crop a (dmajor a) d
  | OTranspose => {| dmajor := dminor a; dminor := dmajor a; dcell := fun r c => dcell a c r |}
  | OMerge b => {| dmajor := Nat.max (dmajor a) (major b); dminor := Nat.max (dminor a) (minor b);
                   dcell := fun r c => match lookup c (row b r) with Some y => Some y | None => dcell a r c end |}
  end.
Definition nz_eq (a b : dense) : Prop :=
  dmajor a = dmajor b /\ dminor a = dminor b /\ forall r c, nzcell a r c = nzcell b r c.

Definition in_dims (m : csm S) : Prop :=
  forall r c x, lookup c (row m r) = Some x -> r < major m /\ c < minor m.

Lemma WFm_in_dims : forall m : csm S, WFm m -> in_dims m.
Proof.
  intros m W r c x Hl. split.
  - destruct (Nat.lt_ge_cases r (major m)); auto. rewrite (row_overflow m r W) in Hl; [discriminate|auto].
  - destruct (WFm_row m r W) as [_ Hb]. eapply bounded_lookup; eauto.
Qed.

Lemma set_major_WF : forall d (m : csm S), WFm m -> WFm (set_major d m).
Proof.
  intros d m [Hlen HF]. split.
  - rewrite set_major_length. reflexivity.
  - cbn. apply Forall_app. split.
    + apply Forall_forall. intros x Hin. rewrite Forall_forall in HF. apply HF.
      rewrite <- (firstn_skipn d (rows m)). apply in_or_app. auto.
    + apply Forall_forall. intros x Hin. apply repeat_spec in Hin. subst. split; constructor.
Qed.

Lemma set_minor_WF : forall d (m : csm S), WFm m -> WFm (set_minor d m).
Proof.
  intros d m [Hlen HF]. split.
  - unfold set_minor. cbn [rows major]. destruct (d <? minor m); [rewrite map_length|]; auto.
  - unfold set_minor. cbn [rows minor]. destruct (Nat.ltb_spec d (minor m)).
    + apply Forall_forall. intros x Hin. apply in_map_iff in Hin. destruct Hin as [y [<- Hy]].
      rewrite Forall_forall in HF. destruct (HF y Hy) as [Hs Hb]. split.
      apply take_lt_sorted; auto. apply take_lt_bounded.
    + eapply Forall_impl; [|exact HF]. intros a [Hs Hb]. split; auto. eapply bounded_weaken; eauto.
Qed.

Lemma set_major_abs : forall d (m : csm S), WFm m ->
  dense_eq (abs (set_major d m)) (crop (abs m) d (minor m)).
Proof.
  intros d m W. repeat split. intros r c. unfold abs, crop. cbn [dcell dmajor dminor]. rewrite row_set_major.
  destruct (Nat.ltb_spec r d); simpl; auto.
  destruct (Nat.ltb_spec c (minor m)); auto.
  destruct (lookup c (row m r)) eqn:E; auto. apply (WFm_in_dims m W) in E. lia.
Qed.

Lemma set_minor_abs : forall d (m : csm S), WFm m ->
  dense_eq (abs (set_minor d m)) (crop (abs m) (major m) d).
Proof.
  intros d m W. repeat split. intros r c. unfold abs, crop. cbn [dcell dmajor dminor]. rewrite row_set_minor.
  destruct (WFm_row m r W) as [Hs Hb].
  destruct (Nat.ltb_spec d (minor m)) as [L|G].
  - rewrite take_lt_lookup; auto. destruct (Nat.ltb_spec c d); simpl.
    + destruct (Nat.ltb_spec r (major m)); auto. rewrite (row_overflow m r W); auto.
    + rewrite andb_false_r. reflexivity.
  - destruct (lookup c (row m r)) eqn:E.
    + pose proof (WFm_in_dims m W _ _ _ E) as [Hr Hc].
      destruct (Nat.ltb_spec r (major m)); [|lia]. destruct (Nat.ltb_spec c d); [|lia]. reflexivity.
    + destruct ((r <? major m) && (c <? d)); reflexivity.
Qed.

Lemma dense_eq_crop : forall a b nr nc, dense_eq a b -> dense_eq (crop a nr nc) (crop b nr nc).
Proof.
  intros a b nr nc (H1 & H2 & H3). repeat split; cbn; auto. intros r c. rewrite H3. reflexivity.
Qed.

Lemma dense_eq_trans : forall a b c, dense_eq a b -> dense_eq b c -> dense_eq a c.
Proof.
  intros a b c (H1 & H2 & H3) (G1 & G2 & G3). split; [congruence|split; [congruence|]]. intros. rewrite H3. apply G3.
Qed.

(** One step: every operation preserves well-formedness (all stored column
    indices within the current dimension, one span per row) and acts on the
    stored cells as its dense counterpart.  Merge is stated on the non-zero
    content (C11). *)
Theorem apply_op_step : forall (m : csm S) (o : op),
  WFm m -> (forall b, o = OMerge b -> WFm b) ->
  WFm (apply_op m o) /\
  match o with
  | OMerge _ => nz_eq (abs (apply_op m o)) (dense_apply (abs m) o)
  | _ => dense_eq (abs (apply_op m o)) (dense_apply (abs m) o)
  end.
Proof.
  intros m o W Wb. destruct o as [r c|d|d| |b]; cbn [apply_op dense_apply].
  - split. apply set_minor_WF, set_major_WF; auto.
    unfold set_dim. eapply dense_eq_trans. apply set_minor_abs, set_major_WF; auto.
    cbn [major set_major].
    assert (E : dense_eq (crop (abs (set_major r m)) r c) (crop (crop (abs m) r (minor m)) r c)).
    { apply dense_eq_crop. apply set_major_abs; auto. }
    eapply dense_eq_trans; [exact E|]. split; [reflexivity|split; [reflexivity|]]. intros r0 c0.
    unfold crop, abs. cbn [dcell dmajor dminor].
    destruct (Nat.ltb_spec r0 r); cbn [andb]; auto. destruct (Nat.ltb_spec c0 c); cbn [andb]; auto.
    destruct (Nat.ltb_spec c0 (minor m)); auto.
    destruct (lookup c0 (row m r0)) eqn:E'; auto. apply (WFm_in_dims m W) in E'. lia.
  - split. apply set_major_WF; auto. apply set_major_abs; auto.
  - split. apply set_minor_WF; auto. apply set_minor_abs; auto.
  - destruct (transpose_spec m W) as (Wt & Hmaj & Hmin & Hcell). split; auto.
    split; [exact Hmaj|split; [exact Hmin|]]. intros r c. unfold abs. cbn [dcell dense_apply].
    destruct (Nat.lt_ge_cases r (minor m)) as [L|G].
    + apply Hcell; auto.
    + rewrite (row_overflow (transpose m) r Wt); [|lia]. simpl.
      destruct (lookup r (row m c)) eqn:E; auto. apply (WFm_in_dims m W) in E. lia.
  - specialize (Wb b eq_refl). pose proof (mmerge_spec m b W Wb) as Hs.
    destruct (mmerge m b) as [r a]. destruct Hs as (Hmaj & Hmin & _ & Wr & Hcell). cbn [fst].
    split; auto. split; [exact Hmaj|split; [exact Hmin|]]. intros i j. unfold nzcell, abs. cbn [dcell dense_apply].
    specialize (Hcell i j). unfold obs2, obs, overlay in Hcell.
    destruct (lookup j (row b i)) as [y|]; auto.
Qed.

(** The history theorem for resizes and transposes (exact stored cells): cells
    removed by a shrink never reappear, whatever follows. *)
Inductive resize_op : op -> Prop :=
| RSetDim r c : resize_op (OSetDim r c) | RSetMajor d : resize_op (OSetMajor d)
| RSetMinor d : resize_op (OSetMinor d) | RTranspose : resize_op OTranspose.

Lemma dense_apply_eq : forall a b o, resize_op o -> dense_eq a b -> dense_eq (dense_apply a o) (dense_apply b o).
Proof.
  intros a b o Ho (H1 & H2 & H3). destruct Ho; cbn [dense_apply]; try rewrite H1; try rewrite H2;
    try (apply dense_eq_crop; repeat split; auto).
  repeat split; cbn; auto.
Qed.

Theorem resize_history : forall (ops : list op) (m : csm S),
  WFm m -> Forall resize_op ops ->
  WFm (fold_left apply_op ops m) /\
  dense_eq (abs (fold_left apply_op ops m)) (fold_left dense_apply ops (abs m)).
Proof.
  induction ops as [|o ops IH]; intros m W HF; simpl.
  - split; auto. repeat split.
  - inversion HF as [|? ? Ho HF']; subst.
    assert (Hnm : forall b, o = OMerge b -> WFm b) by (intros b ->; inversion Ho).
    destruct (apply_op_step m o W Hnm) as [W' Hd].
    assert (Hd' : dense_eq (abs (apply_op m o)) (dense_apply (abs m) o)) by (destruct Ho; exact Hd).
    destruct (IH (apply_op m o) W' HF') as [W'' Hd'']. split; auto.
    eapply dense_eq_trans; [exact Hd''|].
    clear -Hd' HF'. revert Hd'. generalize (abs (apply_op m o)) (dense_apply (abs m) o).
    induction ops as [|o' ops IH]; intros a b Hab; simpl; auto.
    inversion HF'; subst. apply IH; auto. apply dense_apply_eq; auto.
Qed.

(** With merges in the history: well-formedness is an invariant of every
    reachable state (every stored column index within the current dimension). *)
Theorem history_wf : forall (ops : list op) (m : csm S),
  WFm m -> Forall (fun o => forall b, o = OMerge b -> WFm b) ops -> WFm (fold_left apply_op ops m).
Proof.
  induction ops as [|o ops IH]; intros m W HF; simpl; auto.
  inversion HF; subst. apply IH; auto. apply apply_op_step; auto.
Qed.

End Matrix.

(** * Scale invariance of canonicalisation under rounded arithmetic.

    [RND rnd] is the instance of the model in which every arithmetic operation
    is the exact real operation followed by a rounding function [rnd] — the
    IEEE-754 definition of a correctly rounded operation, without the exponent
    range (no overflow, no underflow, no NaN).  For every factor [c > 0] that
    the rounding commutes with ([rnd (x * c) = rnd x * c]: the powers of two for
    a radix-2 format with unbounded exponents, proved below for Flocq's
    [FLX_exp 53] with round-to-nearest-even, i.e. binary64 "absent overflow and
    underflow") the compensated sum scales exactly, and therefore the canonical
    form of a scaled row / vector is *identical* to that of the unscaled one:
    not within rounding, but the same numbers. *)
From Coq Require Import List Arith Bool Lia Reals Lra ZArith.
From Flocq Require Import Core.
From ET Require Import Model.Scalar Model.Sparse Model.Basic Proofs.SparseBase Proofs.RInst.
Import ListNotations.
Local Open Scope R_scope.

Section Rounded.
Variable rnd : R -> R.

Definition RND : ScalarOps := {|
  T := R; zero := 0; one := 1;
  add := fun x y => rnd (x + y); sub := fun x y => rnd (x - y);
  mul := fun x y => rnd (x * y); div := fun x y => rnd (x / y);
  opp := Ropp; sabs := Rabs; ssqrt := fun x => rnd (sqrt x);
  eqb := Reqb; ltb := Rltb; leb := Rleb;
  of_nat := fun n => rnd (INR n); nonfinite := fun _ => false |}.

Notation dentry := (nat * T RND)%type.

(** factors the rounding commutes with *)
Definition exact_factor (c : R) : Prop := 0 < c /\ forall x, rnd (x * c) = rnd x * c.

Definition kscale (c : R) (k : kbn RND) : kbn RND := @Build_kbn RND (ksum k * c : R) (kcomp k * c : R).
Definition escale (c : R) (l : list dentry) : list dentry := map (fun e => (fst e, snd e * c : RND)) l.

Lemma Rltb_scale : forall c x y, 0 < c -> Rltb (Rabs (x * c)) (Rabs (y * c)) = Rltb (Rabs x) (Rabs y).
Proof.
  intros c x y Hc. rewrite !Rabs_mult, (Rabs_pos_eq c) by lra.
  destruct (Rltb (Rabs x) (Rabs y)) eqn:E.
  - apply Rltb_true in E. apply Rltb_true. nra.
  - apply Rltb_false in E. apply Rltb_false. nra.
Qed.

Lemma minus_distr_r : forall a b c, a * c - b * c = (a - b) * c.
Proof. intros; ring. Qed.
Lemma plus_distr_r : forall a b c, a * c + b * c = (a + b) * c.
Proof. intros; ring. Qed.

Lemma kbn_add_scale : forall c k v, exact_factor c ->
  @kbn_add RND (kscale c k) (v * c) = kscale c (@kbn_add RND k v).
Proof.
  intros c k v [Hc Hr]. unfold kbn_add, kscale. cbn.
  rewrite Rltb_scale by exact Hc.
  destruct (Rltb (Rabs (ksum k)) (Rabs v)); f_equal;
    repeat (rewrite ?plus_distr_r, ?minus_distr_r; rewrite Hr); reflexivity.
Qed.

Lemma kbn_fold_scale : forall c l k, exact_factor c ->
  fold_left (@kbn_add RND) (map (fun x => x * c) l) (kscale c k) = kscale c (fold_left (@kbn_add RND) l k).
Proof.
  intros c l. induction l as [|x t IH]; intros k Hc; [reflexivity|].
  cbn [map fold_left]. rewrite kbn_add_scale by exact Hc. apply IH; exact Hc.
Qed.

Lemma kbn_total_scale : forall c l, exact_factor c ->
  @kbn_total RND (map (fun x => x * c) l) = @kbn_total RND l * c.
Proof.
  intros c l Hc. unfold kbn_total.
  replace (@kbn0 RND) with (kscale c (@kbn0 RND)) at 1
    by (unfold kscale, kbn0; cbn; f_equal; ring).
  rewrite kbn_fold_scale by exact Hc. unfold kbn_sum, kscale; cbn.
  destruct Hc as [_ Hr]. rewrite <- Rmult_plus_distr_r. apply Hr.
Qed.

Lemma map_snd_escale : forall c l, map snd (escale c l) = map (fun x => x * c) (map snd l).
Proof. intros. unfold escale. rewrite !map_map. reflexivity. Qed.

(** Canonicalize: the scaled span has the very same canonical form (and reports
    a zero sum exactly when the unscaled one does). *)
Theorem canon_scale_rnd : forall c l, exact_factor c -> @canon RND (escale c l) = @canon RND l.
Proof.
  intros c l Hc. unfold canon. rewrite map_snd_escale, kbn_total_scale by exact Hc.
  set (s := @kbn_total RND (map snd l)). cbn [eqb zero RND].
  destruct Hc as [Hc _].
  destruct (Reqb s 0) eqn:E.
  - apply Reqb_true in E. rewrite E, Rmult_0_l.
    replace (Reqb 0 0) with true by (symmetry; apply Reqb_true; reflexivity). reflexivity.
  - apply Reqb_false in E.
    replace (Reqb (s * c) 0) with false by (symmetry; apply Reqb_false; nra).
    f_equal. unfold escale. rewrite map_map. apply map_ext. intros [i x]. cbn [fst snd].
    f_equal. change (rnd (x * c / (s * c)) = rnd (x / s)). f_equal. field. split; lra.
Qed.

Lemma Forall2_impl_own : forall (A B : Type) (P Q : A -> B -> Prop) l1 l2,
  (forall a b, P a b -> Q a b) -> Forall2 P l1 l2 -> Forall2 Q l1 l2.
Proof. intros A B P Q l1 l2 H HF. induction HF; constructor; auto. Qed.

(** rows scaled by (possibly different) exact factors *)
Definition row_scaled (r r' : list dentry) : Prop := exists c, exact_factor c /\ r' = escale c r.

Lemma canon_row_scale : forall p r r', row_scaled r r' ->
  (@canon RND r = ErrZeroSum -> p <> None) -> @canon_row RND p r' = @canon_row RND p r.
Proof.
  intros p r r' [c [Hc ->]] Hz. unfold canon_row. rewrite canon_scale_rnd by exact Hc.
  destruct (@canon RND r) eqn:E; try reflexivity;
    destruct p; try reflexivity; try (exfalso; apply Hz; reflexivity).
  all: unfold canon in E; destruct (eqb RND _ _); discriminate.
Qed.

Lemma canon_only_zero_sum : forall (l : list dentry), match @canon RND l with Ok _ | ErrZeroSum => True | _ => False end.
Proof. intros. unfold canon. destruct (eqb RND _ _); exact I. Qed.

(** CanonicalizeLocalTrust with a pre-trust vector: every row may be scaled by
    its own exact factor, the result is the same matrix. *)
Theorem canon_lt_scale : forall (m m' : csm RND) (pv : vec RND),
  major m' = major m -> minor m' = minor m -> Forall2 row_scaled (rows m) (rows m') ->
  @canon_lt RND m' (Some pv) = @canon_lt RND m (Some pv).
Proof.
  intros m m' pv Hj Hn HF. unfold canon_lt, mdim. rewrite Hj, Hn.
  destruct (major m =? minor m); [|reflexivity]. cbn [rbind].
  destruct (major m =? vdim pv); [|reflexivity]. f_equal. f_equal.
  induction HF as [|r r' t t' Hr _ IH]; [reflexivity|].
  cbn [map]. rewrite IH. f_equal. apply canon_row_scale; [exact Hr|]. intros _; discriminate.
Qed.

(** ... and without one, provided no row sums to zero (such rows stay as they
    are, i.e. scaled). *)
Theorem canon_lt_scale_nop : forall (m m' : csm RND),
  major m' = major m -> minor m' = minor m -> Forall2 row_scaled (rows m) (rows m') ->
  Forall (fun r => @canon RND r <> ErrZeroSum) (rows m) ->
  @canon_lt RND m' None = @canon_lt RND m None.
Proof.
  intros m m' Hj Hn HF Hz. unfold canon_lt, mdim. rewrite Hj, Hn.
  destruct (major m =? minor m); [|reflexivity]. cbn [rbind]. f_equal. f_equal.
  induction HF as [|r r' t t' Hr _ IH]; [reflexivity|].
  cbn [map]. inversion Hz; subst. rewrite IH by assumption. f_equal.
  apply canon_row_scale; [exact Hr|]. intros E; contradiction.
Qed.

(** CanonicalizeTrustVector: a scaled pre-trust / initial-trust vector has the
    same canonical form (the uniform fallback is taken by both or by neither). *)
Theorem canon_tv_scale : forall c (v : vec RND), exact_factor c ->
  @canon_tv RND {| vdim := vdim v; vents := escale c (vents v) |} = @canon_tv RND v.
Proof.
  intros c v Hc. unfold canon_tv. cbn [vdim vents]. rewrite canon_scale_rnd by exact Hc.
  pose proof (canon_only_zero_sum (vents v)) as H.
  destruct (@canon RND (vents v)); try reflexivity; contradiction.
Qed.

Lemma exact_factor_1 : exact_factor 1.
Proof. split; [lra|]. intros. rewrite !Rmult_1_r. reflexivity. Qed.
Lemma exact_factor_mul : forall c d, exact_factor c -> exact_factor d -> exact_factor (c * d).
Proof.
  intros c d [Hc Hrc] [Hd Hrd]. split; [nra|]. intros x.
  rewrite <- Rmult_assoc, Hrd, Hrc. ring.
Qed.

End Rounded.

(** ** binary64 without the exponent range: Flocq's FLX format, precision 53,
    round to nearest, ties to even.  Every power of two is an exact factor. *)
Definition rnd64 : R -> R := round radix2 (FLX_exp 53) ZnearestE.
Definition B64 : ScalarOps := RND rnd64.

Lemma rnd_scale_bpow : forall (prec : Z) (Hp : Prec_gt_0 prec) x e,
  round radix2 (FLX_exp prec) ZnearestE (x * bpow radix2 e) =
  round radix2 (FLX_exp prec) ZnearestE x * bpow radix2 e.
Proof.
  intros prec Hp x e.
  destruct (Req_dec x 0) as [->|Hx].
  { now rewrite Rmult_0_l, round_0, Rmult_0_l; auto with typeclass_instances. }
  unfold round, F2R, scaled_mantissa, cexp; simpl.
  unfold FLX_exp. rewrite mag_mult_bpow by exact Hx.
  replace (- (mag radix2 x + e - prec))%Z with (-e + - (mag radix2 x - prec))%Z by ring.
  replace (mag radix2 x + e - prec)%Z with ((mag radix2 x - prec) + e)%Z by ring.
  rewrite !bpow_plus.
  replace (x * bpow radix2 e * (bpow radix2 (- e) * bpow radix2 (- (mag radix2 x - prec)))) with
     (x * bpow radix2 (- (mag radix2 x - prec)) * (bpow radix2 e * bpow radix2 (-e))) by ring.
  rewrite <- bpow_plus, Z.add_opp_diag_r. simpl. rewrite Rmult_1_r. ring.
Qed.

Lemma pow2_exact_factor : forall e : Z, exact_factor rnd64 (bpow radix2 e).
Proof.
  intros e. split; [apply bpow_gt_0|]. intros x. unfold rnd64.
  apply rnd_scale_bpow. reflexivity.
Qed.

(** the headline statements for binary64 arithmetic with unbounded exponents *)
Theorem canon_pow2_identical : forall (e : Z) (l : list (nat * B64)),
  @canon B64 (escale rnd64 (bpow radix2 e) l) = @canon B64 l.
Proof. intros. apply canon_scale_rnd, pow2_exact_factor. Qed.

Definition pow2_scaled (r r' : list (nat * B64)) : Prop :=
  exists e : Z, r' = escale rnd64 (bpow radix2 e) r.

Lemma pow2_scaled_row_scaled : forall r r', pow2_scaled r r' -> row_scaled rnd64 r r'.
Proof. intros r r' [e ->]. exists (bpow radix2 e). split; [apply pow2_exact_factor|reflexivity]. Qed.

Theorem canon_lt_pow2_identical : forall (m m' : csm B64) (pv : vec B64),
  major m' = major m -> minor m' = minor m -> Forall2 pow2_scaled (rows m) (rows m') ->
  @canon_lt B64 m' (Some pv) = @canon_lt B64 m (Some pv).
Proof.
  intros m m' pv Hj Hn HF. apply canon_lt_scale; auto.
  eapply Forall2_impl_own; [|exact HF]. apply pow2_scaled_row_scaled.
Qed.

Theorem canon_tv_pow2_identical : forall (e : Z) (v : vec B64),
  @canon_tv B64 {| vdim := vdim v; vents := escale rnd64 (bpow radix2 e) (vents v) |} = @canon_tv B64 v.
Proof. intros. apply canon_tv_scale, pow2_exact_factor. Qed.

(** non-vacuity: scaling the span (0,1),(1,3) by 2^10 *)
Example canon_pow2_example :
  @canon B64 [(0%nat, 1024 : B64); (1%nat, 3072 : B64)] = @canon B64 [(0%nat, 1 : B64); (1%nat, 3 : B64)].
Proof.
  replace [(0%nat, 1024 : B64); (1%nat, 3072 : B64)]
    with (escale rnd64 (bpow radix2 10) [(0%nat, 1 : B64); (1%nat, 3 : B64)]).
  - apply canon_pow2_identical.
  - unfold escale. cbn [map fst snd]. repeat f_equal; simpl; lra.
Qed.

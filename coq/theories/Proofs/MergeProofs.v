(** * C11: mergeSpan / Vector.Merge / CSMatrix.Merge are last-writer-wins overlays. *)
From Coq Require Import List Arith Bool Lia Sorted Permutation.
From ET Require Import Model.Scalar Model.Sparse Proofs.SparseBase.
Import ListNotations.

Section Merge.
Context {S : ScalarOps}.
Notation entry := (nat * T S)%type.

(** ** characterising equations *)
Lemma merge_span_nil_l : forall s2 : list entry, merge_span [] s2 = s2.
Proof. destruct s2; reflexivity. Qed.
Lemma merge_span_nil_r : forall s1 : list entry, merge_span s1 [] = s1.
Proof. destruct s1 as [|[? ?] ?]; reflexivity. Qed.
Lemma merge_span_cons : forall i1 (x1 : S) t1 i2 x2 t2,
  merge_span ((i1, x1) :: t1) ((i2, x2) :: t2) =
  if i1 <? i2 then (i1, x1) :: merge_span t1 ((i2, x2) :: t2)
  else if i2 <? i1 then keep_nz (i2, x2) ++ merge_span ((i1, x1) :: t1) t2
  else keep_nz (i2, x2) ++ merge_span t1 t2.
Proof. reflexivity. Qed.

(** the overlay of an update span on a partial map *)
Definition overlay (M : nat -> option S) (b : list entry) (i : nat) : option S :=
  match lookup i b with
  | Some y => if nz y then Some y else None
  | None => M i
  end.

Lemma keep_nz_fst : forall (e : entry) j, In j (map fst (keep_nz e)) -> j = fst e.
Proof.
  intros [i x] j. unfold keep_nz. simpl. destruct (nz x); simpl; intros H; [destruct H; auto; contradiction|contradiction].
Qed.

(** indices of the merge come from the operands *)
Lemma merge_span_fst : forall s1 s2 j,
  In j (map fst (merge_span s1 s2)) -> In j (map (@fst nat S) s1) \/ In j (map (@fst nat S) s2).
Proof.
  induction s1 as [|[i1 x1] t1 IH1]; intros s2 j.
  - rewrite merge_span_nil_l. auto.
  - induction s2 as [|[i2 x2] t2 IH2].
    + rewrite merge_span_nil_r. auto.
    + rewrite merge_span_cons.
      destruct (i1 <? i2).
      * simpl. intros [H|H]; auto. apply IH1 in H. simpl in H. tauto.
      * destruct (i2 <? i1).
        -- rewrite map_app, in_app_iff. intros [H|H].
           ++ apply keep_nz_fst in H. simpl in *. auto.
           ++ apply IH2 in H. simpl in *. tauto.
        -- rewrite map_app, in_app_iff. intros [H|H].
           ++ apply keep_nz_fst in H. simpl in *. auto.
           ++ apply IH1 in H. simpl in *. tauto.
Qed.

Lemma sorted_app_keep : forall (e : entry) (l : list entry), sorted l -> (forall j, In j (map fst l) -> fst e < j) ->
  sorted (keep_nz e ++ l).
Proof.
  intros [i x] l Hs Hlt. unfold keep_nz. simpl. destruct (nz x); simpl; auto.
  apply sorted_cons; auto.
Qed.

Theorem merge_span_sorted : forall s1 s2 : list entry, sorted s1 -> sorted s2 -> sorted (merge_span s1 s2).
Proof.
  induction s1 as [|[i1 x1] t1 IH1]; intros s2 H1 H2.
  - rewrite merge_span_nil_l. auto.
  - induction s2 as [|[i2 x2] t2 IH2].
    + rewrite merge_span_nil_r. auto.
    + rewrite merge_span_cons.
      destruct (sorted_cons_inv _ _ _ H1) as [H1t H1lt].
      destruct (sorted_cons_inv _ _ _ H2) as [H2t H2lt].
      destruct (Nat.ltb_spec i1 i2) as [L|G].
      * apply sorted_cons; auto. intros j Hj. apply merge_span_fst in Hj. destruct Hj as [Hj|Hj]; auto.
        simpl in Hj. destruct Hj as [<-|Hj]; auto. apply H2lt in Hj. lia.
      * destruct (Nat.ltb_spec i2 i1) as [L2|G2].
        -- apply sorted_app_keep; auto. cbn [fst]. intros j Hj. apply merge_span_fst in Hj. destruct Hj as [Hj|Hj]; auto.
           simpl in Hj. destruct Hj as [<-|Hj]; auto. apply H1lt in Hj. lia.
        -- assert (i1 = i2) by lia. subst i2.
           apply sorted_app_keep; auto. cbn [fst]. intros j Hj. apply merge_span_fst in Hj. destruct Hj as [Hj|Hj]; auto.
Qed.

Lemma lookup_keep_nz_app : forall i2 (x2 : S) l i,
  lookup i (keep_nz (i2, x2) ++ l) =
  if (i =? i2) && nz x2 then Some x2 else lookup i l.
Proof.
  intros. unfold keep_nz. simpl. destruct (nz x2); simpl.
  - destruct (i =? i2); reflexivity.
  - rewrite andb_false_r. reflexivity.
Qed.

Lemma obs_cons : forall j (x : S) t i,
  obs ((j, x) :: t) i = if i =? j then (if nz x then Some x else None) else obs t i.
Proof. intros. unfold obs. rewrite lookup_cons. destruct (i =? j); reflexivity. Qed.

Lemma obs_keep_app : forall j (x : S) l i,
  obs (keep_nz (j, x) ++ l) i = if (i =? j) && nz x then Some x else obs l i.
Proof.
  intros. unfold obs. rewrite lookup_keep_nz_app. destruct ((i =? j) && nz x) eqn:E; auto.
  apply andb_true_iff in E. destruct E as [_ ->]. reflexivity.
Qed.

Lemma overlay_cons : forall M j (y : S) t i,
  overlay M ((j, y) :: t) i = if i =? j then (if nz y then Some y else None) else overlay M t i.
Proof. intros. unfold overlay. rewrite lookup_cons. destruct (i =? j); reflexivity. Qed.

Lemma overlay_nil : forall M i, overlay M [] i = M i.
Proof. reflexivity. Qed.

Lemma obs_lt_none : forall (l : list entry) i, (forall j, In j (map fst l) -> i < j) -> obs l i = None.
Proof. intros. unfold obs. rewrite lookup_lt_none; auto. Qed.

Lemma overlay_lt : forall M (l : list entry) i, (forall j, In j (map fst l) -> i < j) -> overlay M l i = M i.
Proof. intros. unfold overlay. rewrite lookup_lt_none; auto. Qed.

(** The heart of C11: cell by cell, the update's value where the update has an
    entry (a zero erasing the cell), the target's value elsewhere. *)
Theorem merge_span_obs : forall (s1 s2 : list entry) i, sorted s1 -> sorted s2 ->
  obs (merge_span s1 s2) i = overlay (obs s1) s2 i.
Proof.
  induction s1 as [|[i1 x1] t1 IH1]; intros s2 i H1 H2.
  - rewrite merge_span_nil_l. unfold overlay, obs. simpl. destruct (lookup i s2); reflexivity.
  - induction s2 as [|[i2 x2] t2 IH2].
    + rewrite merge_span_nil_r. reflexivity.
    + rewrite merge_span_cons.
      destruct (sorted_cons_inv _ _ _ H1) as [H1t H1lt].
      destruct (sorted_cons_inv _ _ _ H2) as [H2t H2lt].
      assert (Hlt2 : forall k, i1 < i2 -> In k (map fst ((i2, x2) :: t2)) -> i1 < k).
      { intros k L [<-|Hk]; auto. apply H2lt in Hk. lia. }
      assert (Hlt1 : forall k, i2 < i1 -> In k (map fst ((i1, x1) :: t1)) -> i2 < k).
      { intros k L [<-|Hk]; auto. apply H1lt in Hk. lia. }
      destruct (Nat.ltb_spec i1 i2) as [L|G].
      * rewrite obs_cons. destruct (Nat.eqb_spec i i1) as [->|Ne].
        -- rewrite overlay_lt; auto. rewrite obs_cons, Nat.eqb_refl. reflexivity.
        -- rewrite IH1; auto. rewrite !overlay_cons.
           destruct (i =? i2); auto. unfold overlay. destruct (lookup i t2); auto.
           rewrite obs_cons. destruct (Nat.eqb_spec i i1); [contradiction|reflexivity].
      * destruct (Nat.ltb_spec i2 i1) as [L2|G2].
        -- rewrite obs_keep_app, overlay_cons, IH2; auto.
           destruct (Nat.eqb_spec i i2) as [->|Ne]; simpl; auto.
           destruct (nz x2); auto. rewrite overlay_lt; auto. apply obs_lt_none; auto.
        -- assert (i1 = i2) by lia. subst i2.
           rewrite obs_keep_app, overlay_cons, IH1; auto.
           destruct (Nat.eqb_spec i i1) as [->|Ne]; simpl.
           ++ destruct (nz x2); auto. rewrite overlay_lt; auto. apply obs_lt_none; auto.
           ++ unfold overlay. destruct (lookup i t2); auto.
              rewrite obs_cons. destruct (Nat.eqb_spec i i1); [contradiction|reflexivity].
Qed.

Lemma merge_span_bounded : forall d (s1 s2 : list entry), bounded d s1 -> bounded d s2 -> bounded d (merge_span s1 s2).
Proof.
  intros d s1 s2 B1 B2. unfold bounded in *. rewrite Forall_forall in *.
  intros [j x] Hin.
  assert (In j (map fst (merge_span s1 s2))) as Hj by (apply in_map_iff; exists (j, x); auto).
  apply merge_span_fst in Hj. simpl. destruct Hj as [Hj|Hj]; apply in_map_iff in Hj; destruct Hj as [[k y] [Hk Hin']]; simpl in *; subst.
  - apply (B1 (j, y)); auto.
  - apply (B2 (j, y)); auto.
Qed.

(** ** Vector.Merge *)
Theorem vmerge_spec : forall v v2 : vec S, WFv v -> WFv v2 ->
  let '(r, a) := vmerge v v2 in
  vdim r = Nat.max (vdim v) (vdim v2) /\ WFv r /\ a = vempty /\
  forall i, obs (vents r) i = overlay (obs (vents v)) (vents v2) i.
Proof.
  intros v v2 [Hs Hb] [Hs2 Hb2]. unfold vmerge. cbn [vdim vents vset_dim].
  assert (Hnot : (Nat.max (vdim v) (vdim v2) <? vdim v) = false) by (apply Nat.ltb_ge; lia).
  rewrite Hnot. repeat split; auto.
  - apply merge_span_sorted; auto.
  - cbn. apply merge_span_bounded; eapply bounded_weaken; try eassumption; lia.
  - intros i. apply merge_span_obs; auto.
Qed.

(** ** histories of merges on one span *)
Definition apply_update (M : nat -> option S) (u : entry) (i : nat) : option S :=
  if i =? fst u then (if nz (snd u) then Some (snd u) else None) else M i.
Definition apply_updates (us : list entry) (M : nat -> option S) : nat -> option S :=
  fold_left apply_update us M.

Lemma apply_updates_notin : forall (us : list entry) M i, ~ In i (map fst us) -> apply_updates us M i = M i.
Proof.
  induction us as [|[j y] t IH]; intros M i Hn; simpl; auto.
  rewrite IH. unfold apply_update. simpl. destruct (Nat.eqb_spec i j); auto. subst. exfalso. apply Hn. left; reflexivity.
  intros H. apply Hn. right; auto.
Qed.

(** a batch with distinct indices acts as the overlay of any of its permutations *)
Lemma apply_updates_overlay_nodup : forall (us : list entry) M i, NoDup (map fst us) ->
  apply_updates us M i = match lookup i us with Some y => if nz y then Some y else None | None => M i end.
Proof.
  induction us as [|[j y] t IH]; intros M i Hnd; simpl; auto.
  inversion Hnd as [|? ? Hnotin Hnd']; subst.
  destruct (Nat.eqb_spec i j) as [->|Ne].
  - rewrite apply_updates_notin; auto. unfold apply_update. simpl. rewrite Nat.eqb_refl. reflexivity.
  - rewrite IH; auto. destruct (lookup i t); auto. unfold apply_update. simpl.
    destruct (Nat.eqb_spec i j); [contradiction|reflexivity].
Qed.

Lemma lookup_perm_nodup : forall l l' : list entry, Permutation l l' -> NoDup (map fst l) ->
  forall i, lookup i l = lookup i l'.
Proof.
  intros l l' HP. induction HP as [|[j y] l l' HP IH|[j y] [k z] l|l l' l'' HP1 IH1 HP2 IH2]; intros Hnd i; simpl; auto.
  - inversion Hnd; subst. rewrite IH; auto.
  - inversion Hnd as [|? ? Hn Hnd']; subst. simpl in Hn.
    destruct (Nat.eqb_spec i k), (Nat.eqb_spec i j); subst; auto. exfalso. apply Hn. left; reflexivity.
  - rewrite IH1; auto. apply IH2. eapply Permutation_NoDup; [|exact Hnd]. apply Permutation_map. auto.
Qed.

(** [sorted_version us b]: [b] is [us] sorted by index (what NewVector /
    NewCSRMatrix hand to Merge). *)
Definition sorted_version (us b : list entry) : Prop := Permutation us b /\ sorted b.

Lemma overlay_sorted_version : forall (us b : list entry) M i, NoDup (map fst us) -> sorted_version us b ->
  overlay M b i = apply_updates us M i.
Proof.
  intros us b M i Hnd [HP Hs]. rewrite apply_updates_overlay_nodup; auto.
  unfold overlay. rewrite (lookup_perm_nodup us b HP Hnd). reflexivity.
Qed.

(** merging the batches one after the other *)
Definition merge_all (s : list entry) (bs : list (list entry)) : list entry :=
  fold_left merge_span bs s.

Lemma merge_all_sorted : forall bs (s : list entry), sorted s -> Forall sorted bs -> sorted (merge_all s bs).
Proof.
  induction bs as [|b bs IH]; intros s Hs Hbs; simpl; auto.
  inversion Hbs; subst. apply IH; auto. apply merge_span_sorted; auto.
Qed.

Lemma apply_updates_ext : forall (us : list entry) M M', (forall i, M i = M' i) -> forall i, apply_updates us M i = apply_updates us M' i.
Proof.
  induction us as [|u t IH]; intros M M' He i; simpl; auto.
  apply IH. intros k. unfold apply_update. destruct (k =? fst u); auto.
Qed.

Lemma apply_updates_app : forall (us1 us2 : list entry) M, apply_updates (us1 ++ us2) M = apply_updates us2 (apply_updates us1 M).
Proof. intros. unfold apply_updates. apply fold_left_app. Qed.

(** Main history theorem: for every sequence of update batches (each with
    distinct coordinates, handed to Merge in index order), the non-zero content
    after merging them in order is the map obtained by applying all the
    individual updates in order: it depends on the concatenation only. *)
Theorem merge_history : forall (uss bs : list (list entry)) s,
  sorted s -> Forall2 sorted_version uss bs -> Forall (fun us => NoDup (map fst us)) uss ->
  forall i, obs (merge_all s bs) i = apply_updates (concat uss) (obs s) i.
Proof.
  intros uss bs s Hs HF. revert s Hs.
  induction HF as [|us b uss bs Hsv HF IH]; intros s Hs Hnd i; simpl; auto.
  inversion Hnd as [|? ? Hnd1 Hnd']; subst.
  rewrite IH; auto.
  - rewrite apply_updates_app. apply apply_updates_ext. intros k.
    rewrite merge_span_obs; auto; [|apply Hsv]. apply overlay_sorted_version; auto.
  - apply merge_span_sorted; auto. apply Hsv.
Qed.

Corollary merge_rebatch : forall (uss uss' bs bs' : list (list entry)) s,
  sorted s -> Forall2 sorted_version uss bs -> Forall2 sorted_version uss' bs' ->
  Forall (fun us => NoDup (map fst us)) uss -> Forall (fun us => NoDup (map fst us)) uss' ->
  concat uss = concat uss' ->
  forall i, obs (merge_all s bs) i = obs (merge_all s bs') i.
Proof.
  intros. rewrite (merge_history uss bs), (merge_history uss' bs'); auto. congruence.
Qed.

(** ** CSMatrix.Merge *)
Definition obs2 (m : csm S) (r c : nat) : option S := obs (row m r) c.

Lemma nth_firstn_repeat : forall (l : list (list entry)) d r,
  nth r (firstn d l ++ repeat [] (d - length l)) [] = if r <? d then nth r l [] else [].
Proof.
  intros l d r. destruct (Nat.ltb_spec r d) as [L|G].
  - destruct (Nat.lt_ge_cases r (length (firstn d l))) as [L'|G'].
    + rewrite app_nth1; auto. rewrite <- (firstn_skipn d l) at 2. rewrite app_nth1; auto.
    + rewrite app_nth2; auto. rewrite firstn_length in G'.
      rewrite (nth_overflow l); [|lia]. destruct (nth_in_or_default (r - length (firstn d l)) (repeat (@nil entry) (d - length l)) []) as [Hin|Hd]; [apply repeat_spec in Hin; auto|rewrite Hd; auto].
  - apply nth_overflow. rewrite app_length, firstn_length, repeat_length. lia.
Qed.

Lemma row_set_major : forall d (m : csm S) r, row (set_major d m) r = if r <? d then row m r else [].
Proof. intros. unfold row, set_major. cbn [rows]. apply nth_firstn_repeat. Qed.

Lemma set_major_length : forall d (m : csm S), length (rows (set_major d m)) = d.
Proof. intros. unfold set_major. cbn. rewrite app_length, firstn_length, repeat_length. lia. Qed.

Lemma row_set_minor : forall d (m : csm S) r, row (set_minor d m) r =
  if d <? minor m then take_lt d (row m r) else row m r.
Proof.
  intros. unfold row, set_minor. cbn [rows]. destruct (d <? minor m); auto.
  change (@nil entry) with (take_lt d (@nil entry)) at 1. apply map_nth.
Qed.

Lemma merge_rows_nth : forall (r1 r2 : list (list entry)) r, length r2 <= length r1 ->
  nth r (merge_rows r1 r2) [] = if r <? length r2 then merge_span (nth r r1 []) (nth r r2 []) else nth r r1 [].
Proof.
  induction r1 as [|a t1 IH]; intros r2 r Hlen.
  - destruct r2; simpl in *; [|lia]. destruct r; reflexivity.
  - destruct r2 as [|b t2]; simpl.
    + destruct r; reflexivity.
    + destruct r as [|r]; simpl; auto. rewrite IH; [|simpl in Hlen; lia].
      change (Datatypes.S r <? Datatypes.S (length t2)) with (r <? length t2). reflexivity.
Qed.

Lemma merge_rows_length : forall r1 r2 : list (list entry), length r2 <= length r1 -> length (merge_rows r1 r2) = length r1.
Proof.
  induction r1 as [|a t1 IH]; intros r2 Hlen; destruct r2 as [|b t2]; simpl in *; auto; try lia.
  rewrite IH; auto. lia.
Qed.

Lemma WFm_row : forall (m : csm S) r, WFm m -> WFrow (minor m) (row m r).
Proof.
  intros m r [Hlen HF]. unfold row. destruct (nth_in_or_default r (rows m) []) as [Hin|Hd].
  - rewrite Forall_forall in HF. auto.
  - rewrite Hd. split; constructor.
Qed.

Lemma row_overflow : forall (m : csm S) r, WFm m -> major m <= r -> row m r = [].
Proof. intros m r [Hlen _] Hr. unfold row. apply nth_overflow. lia. Qed.

(** cell-wise overlay; dimensions become the maxima; the argument is reset *)
Theorem mmerge_spec : forall m m2 : csm S, WFm m -> WFm m2 ->
  let '(r, a) := mmerge m m2 in
  major r = Nat.max (major m) (major m2) /\ minor r = Nat.max (minor m) (minor m2) /\
  a = mempty /\ WFm r /\
  forall i j, obs2 r i j = overlay (obs2 m i) (row m2 i) j.
Proof.
  intros m m2 W1 W2. unfold mmerge.
  set (M := Nat.max (major m) (major m2)). set (N := Nat.max (minor m) (minor m2)).
  assert (HN : (N <? minor (set_major M m)) = false) by (apply Nat.ltb_ge; cbn; lia).
  assert (Hrows : rows (set_minor N (set_major M m)) = rows (set_major M m)).
  { unfold set_minor. cbn [rows]. rewrite HN. reflexivity. }
  cbn [major minor set_minor set_major]. rewrite Hrows.
  destruct W2 as [Hlen2 HF2]. pose proof (conj Hlen2 HF2) as W2.
  assert (Hf2 : firstn (major m2) (rows m2) = rows m2) by (apply firstn_all2; lia).
  rewrite Hf2.
  assert (Hl1 : length (rows (set_major M m)) = M) by apply set_major_length.
  assert (Hle : length (rows m2) <= length (rows (set_major M m))) by (rewrite Hl1; lia).
  repeat split; auto.
  - cbn [rows major]. rewrite merge_rows_length; auto.
  - cbn [rows minor]. apply Forall_forall. intros x Hin.
    destruct (In_nth _ _ [] Hin) as [k [Hk Hx]]. subst x. rewrite merge_rows_nth; auto.
    fold (row (set_major M m) k). fold (row m2 k). rewrite row_set_major.
    rewrite merge_rows_length in Hk; auto. rewrite Hl1 in Hk.
    destruct (Nat.ltb_spec k M); [|lia].
    pose proof (WFm_row m k W1) as [Hs1 Hb1]. pose proof (WFm_row m2 k W2) as [Hs2 Hb2].
    destruct (k <? length (rows m2)).
    + split. apply merge_span_sorted; auto. apply merge_span_bounded; eapply bounded_weaken; try eassumption; lia.
    + split; auto. eapply bounded_weaken; try eassumption; lia.
  - intros i j. unfold obs2 at 1. unfold row at 1. cbn [rows]. rewrite merge_rows_nth; auto.
    fold (row (set_major M m) i). fold (row m2 i). rewrite row_set_major.
    pose proof (WFm_row m i W1) as [Hs1 Hb1]. pose proof (WFm_row m2 i W2) as [Hs2 Hb2].
    destruct (Nat.ltb_spec i (length (rows m2))) as [L|G].
    + destruct (Nat.ltb_spec i M); [|lia]. rewrite merge_span_obs; auto.
    + rewrite (row_overflow m2 i W2); [|lia]. unfold overlay. simpl.
      destruct (Nat.ltb_spec i M); auto. unfold obs2. rewrite (row_overflow m i W1); [reflexivity|lia].
Qed.

End Merge.

(** * Tying the dense recurrence to the model's [iter_step] / [X] / [compute] over RR. *)
From Coq Require Import List Arith Bool ZArith Lia Reals Lra Sorted Permutation.
From ET Require Import Model.Scalar Model.Sparse Model.Basic Proofs.SparseBase Proofs.MergeProofs
  Proofs.VectorProofs Proofs.MatrixProofs Proofs.RInst Proofs.BasicProofs Proofs.ComputeProofs Proofs.Analytic.
Import ListNotations.
Local Open Scope R_scope.

Section Model.
Variables (n : nat) (C : csm RR) (p : vec RR) (a : R).
Hypothesis HC : row_stochastic C.
Hypothesis Hn : major C = n.
Hypothesis Hp : distribution p.
Hypothesis Hpn : vdim p = n.
Hypothesis Ha0 : 0 <= a.
Hypothesis Ha1 : a <= 1.

Let ct := transpose C.
Let ap := scalevec (a : RR) p.
Let HWC : WFm C := proj1 HC.
Let Hsq : major C = minor C := proj1 (proj2 HC).

Lemma ct_facts : WFm ct /\ major ct = n /\ minor ct = n /\ forall j i, (j < n)%nat -> dm ct j i = dm C i j.
Proof.
  destruct (transpose_spec C HWC) as (Wt & Hmaj & Hmin & Hcell). unfold ct.
  split; auto. split; [rewrite Hmaj, <- Hsq; auto|]. split; [rewrite Hmin; auto|].
  intros j i Hj. unfold dm, den. rewrite Hcell; auto. rewrite <- Hsq, Hn. auto.
Qed.

Lemma ap_facts : WFv ap /\ vdim ap = n /\ forall j, dv ap j = a * dv p j.
Proof.
  destruct Hp as (Wp & _ & _). destruct (scalevec_spec (a : RR) p Wp) as (Hd & Wa & _). unfold ap.
  split; auto. split; [rewrite Hd; auto|]. intros j. apply scalevec_exact; auto.
Qed.

(** one step of the model = one step of the dense recurrence *)
Theorem step_dense : forall t : vec RR, WFv t -> vdim t = n ->
  exists t', iter_step ct ap (a : RR) t = Ok t' /\ WFv t' /\ vdim t' = n /\
             forall j, (j < n)%nat -> dv t' j = Gd n C p a (dv t) j.
Proof.
  intros t Wt Hd. destruct ct_facts as (Wct & Hmaj & Hmin & Hcell). destruct ap_facts as (Wap & Hapd & Hapv).
  unfold iter_step.
  pose proof (mulvec_spec ct t) as Hm.
  destruct (mulvec ct t) as [mt| | |] eqn:Em.
  - destruct (mulvec_exact ct t mt Wct Wt Em) as (Hmd & Wmt & Hmv). cbn [rbind].
    destruct (scalevec_spec (sub RR (one RR) (a : RR)) mt Wmt) as (Hsd & Wsmt & _).
    remember (scalevec (sub RR (one RR) (a : RR)) mt) as smt eqn:Esmt.
    pose proof (addvec_spec smt ap Wsmt Wap) as Ha.
    assert (Edim : vdim smt = vdim ap) by (rewrite Hsd, Hmd, Hmaj, Hapd; auto).
    destruct (Nat.eqb_spec (vdim smt) (vdim ap)) as [_|Hne]; [|contradiction].
    destruct Ha as (r & Hr & Hrd & Wr & _).
    exists r. split; auto. split; auto. split; [rewrite Hrd, Hsd, Hmd, Hmaj; auto|].
    intros j Hj. rewrite (addvec_exact smt ap r Wsmt Wap Hr j). rewrite Esmt. rewrite (scalevec_exact _ mt Wmt j).
    rewrite Hmv by (rewrite Hmaj; auto). rewrite Hapv. unfold Gd. cbn [sub one RR]. rewrite Hmaj.
    f_equal. f_equal. apply rsum_ext. intros i Hi. rewrite Hcell; auto.
  - exfalso. destruct Hm as [H|H]; [rewrite Hmaj, Hmin in H; auto|rewrite Hmaj, Hd in H; auto].
  - contradiction.
  - contradiction.
Qed.

Variable t0 : vec RR.
Hypothesis Wt0 : WFv t0.
Hypothesis Ht0 : vdim t0 = n.

Notation Xk := (X ct ap (a : RR) t0).

Theorem X_dense : forall k, WFv (Xk k) /\ vdim (Xk k) = n /\
  (forall j, (j < n)%nat -> dv (Xk k) j = Gk n C p a k (dv t0) j) /\
  iter_step ct ap (a : RR) (Xk k) = Ok (Xk (Datatypes.S k)).
Proof.
  induction k as [|k IH].
  - destruct (step_dense t0 Wt0 Ht0) as (t' & Hs & _).
    change (Xk 0) with t0. split; [auto|]. split; [auto|]. split; [intros; reflexivity|].
    rewrite (X_S ct ap (a : RR) t0 0). unfold step_tot. change (Xk 0) with t0. rewrite Hs. auto.
  - destruct IH as (Wk & Hdk & Hvk & Hsk).
    destruct (step_dense (Xk k) Wk Hdk) as (t' & Hs & Wt' & Hd' & Hv').
    assert (E : Xk (Datatypes.S k) = t') by (rewrite Hs in Hsk; inversion Hsk; auto).
    rewrite E. destruct (step_dense t' Wt' Hd') as (t'' & Hs'' & _).
    split; [auto|]. split; [auto|]. split.
    + intros j Hj. rewrite Hv' by auto. cbn [Gk]. apply Gd_ext. intros i Hi. apply Hvk. auto.
    + rewrite (X_S ct ap (a : RR) t0 (Datatypes.S k)). unfold step_tot. rewrite E, Hs''. auto.
Qed.

(** C02: every iterate of a distribution is a distribution *)
Theorem iterate_distribution : distribution t0 -> forall k, distribution (Xk k).
Proof.
  intros (_ & Hnn0 & Hs0) k.
  assert (Hd : forall k, (forall j, (j < n)%nat -> 0 <= Gk n C p a k (dv t0) j) /\ rsum (Gk n C p a k (dv t0)) n = 1).
  { induction k0 as [|k0 IH]; cbn [Gk].
    - split; [|rewrite <- Ht0; auto]. intros j _. unfold dv, den. destruct (lookup j (vents t0)) as [x|] eqn:E; [|cbn; lra].
      unfold nonneg_entries in Hnn0. rewrite Forall_forall in Hnn0. pose proof (Hnn0 _ (lookup_some_in _ _ _ E)) as H0. exact H0.
    - destruct IH as [IH1 IH2]. eapply Gd_distribution; eauto. }
  destruct (X_dense k) as (Wk & Hdk & Hvk & _). destruct (Hd k) as [Hpos Hsum].
  split; auto. split.
  - unfold nonneg_entries. apply Forall_forall. intros [j x] Hin.
    destruct Wk as [Hs Hb]. pose proof (lookup_in_sorted _ _ _ Hs Hin) as Hl.
    assert (Hj : (j < n)%nat) by (rewrite <- Hdk; eapply bounded_lookup; eauto).
    specialize (Hpos j Hj). rewrite <- Hvk in Hpos by auto. unfold dv, den in Hpos. rewrite Hl in Hpos. exact Hpos.
  - rewrite Hdk. rewrite (rsum_ext _ (Gk n C p a k (dv t0))); auto.
Qed.

(** C01: distance of a checked iterate to any fixed point, from the measured delta *)
Theorem checked_iterate_bound : 0 < a -> forall (e : R) (k f : nat) (ts : nat -> R),
  (1 <= f <= k)%nat -> fixed_point n C p a ts ->
  (forall td, subvec (Xk k) (Xk (k - f)) = Ok td -> norm2 td <= e) ->
  a * l1 n (fun j => dv (Xk k) j - ts j) <= (1 - a) * (sqrt (INR n) * e).
Proof.
  intros Hapos e k f ts Hf Hfix Hdelta.
  destruct (X_dense k) as (Wk & Hdk & Hvk & _). destruct (X_dense (k - f)) as (Wp' & Hdp & Hvp & _).
  pose proof (subvec_spec (Xk k) (Xk (k - f)) Wk Wp') as Hsub. rewrite Hdk, Hdp, Nat.eqb_refl in Hsub.
  destruct Hsub as (td & Htd & Htdd & Wtd & _). specialize (Hdelta td Htd).
  rewrite norm2_exact in Hdelta by auto. rewrite Htdd in Hdelta.
  (* x_k = G^f x_{k-f} *)
  set (y := Gk n C p a (k - f) (dv t0)).
  assert (Hk : forall j, (j < n)%nat -> dv (Xk k) j = Gk n C p a f y j).
  { intros j Hj. rewrite Hvk by auto. replace k with (f + (k - f))%nat at 1 by lia. unfold y. apply Gk_add. }
  assert (Hb : a * l1 n (fun j => Gk n C p a f y j - ts j) <= (1 - a) * l1 n (fun j => Gk n C p a f y j - y j)).
  { eapply dist_from_delta; eauto. lia. }
  assert (E1 : l1 n (fun j => dv (Xk k) j - ts j) = l1 n (fun j => Gk n C p a f y j - ts j)).
  { unfold l1. apply rsum_ext. intros j Hj. rewrite Hk; auto. }
  assert (E2 : l1 n (fun j => Gk n C p a f y j - y j) = l1 n (fun j => dv td j)).
  { unfold l1. apply rsum_ext. intros j Hj. rewrite (subvec_exact _ _ td Wk Wp' Htd j), Hk, Hvp; auto. }
  rewrite E1. eapply Rle_trans; [exact Hb|]. apply Rmult_le_compat_l; [lra|]. rewrite E2.
  eapply Rle_trans; [apply l1_le_sqrt_n_l2|]. apply Rmult_le_compat_l; [apply sqrt_pos|]. exact Hdelta.
Qed.

(** ** progress: over the reals no step can fail, so the loop ends at the first
    scheduled check that meets the criteria (C05, termination) *)
Variables (e : R) (mn fq : nat) (mx : option nat) (ftl nl : Z).
Hypothesis fq_pos : (0 < fq)%nat.
Hypothesis nl_nonneg : (0 <= nl)%Z.

Notation InvR := (Inv ct ap (a : RR) (e : RR) mn fq mx nl t0).
Notation stopR := (stop_at ct ap (a : RR) (e : RR) mn fq ftl nl t0).
Notation loopR := (fun fuel i t1 cv ft => loop fuel ct ap (a : RR) (e : RR) mn fq mx ftl nl i t1 cv ft).

Lemma conv_update_total : forall (cv : conv RR) k j, c_t cv = Xk j -> exists cv', conv_update cv (Xk k) = Ok cv'.
Proof.
  intros cv k j Hc. destruct (X_dense k) as (Wk & Hdk & _). destruct (X_dense j) as (Wj & Hdj & _).
  unfold conv_update. rewrite Hc.
  pose proof (subvec_spec (Xk k) (Xk j) Wk Wj) as Hs. rewrite Hdk, Hdj, Nat.eqb_refl in Hs.
  destruct Hs as (td & Htd & _). rewrite Htd. cbn [rbind nonfinite RR]. eexists. reflexivity.
Qed.

Theorem loop_progress : forall d i cv ft fuel k0,
  (i + d = k0)%nat -> (d < fuel)%nat -> InvR i (Xk i) cv ft ->
  sched mn fq k0 = true -> stopR k0 = true -> (forall m, mx = Some m -> (k0 < m)%nat) ->
  exists t k st, loopR fuel i (Xk i) cv ft = Done t k st.
Proof.
  induction d as [|d IH]; intros i cv ft fuel k0 Hk Hfuel HI Hs Hstop Hlim;
    (destruct fuel as [|fuel]; [lia|]); cbn [loop].
  - (* i = k0: the stopping check *)
    assert (i = k0) by lia. subst i.
    assert (Emx : match mx with Some m => (m <=? k0)%nat | None => false end = false).
    { destruct mx as [m|] eqn:Em; auto. specialize (Hlim m eq_refl). apply Nat.leb_gt. lia. }
    rewrite Emx. fold (sched mn fq k0). rewrite Hs.
    destruct HI as (Ht1 & Hct & Hrest). destruct (conv_update_total cv k0 _ Hct) as [cv' Ecu]. rewrite Ecu.
    destruct (Z.ltb_spec nl 0); [lia|].
    destruct (check_step ct ap (a : RR) (e : RR) mn fq mx ftl nl t0 fq_pos k0 (Xk k0) cv ft cv' (conj Ht1 (conj Hct Hrest)) Hs Ecu) as (HFT & Hst & _).
    rewrite HFT, Hst, Hstop. eexists _, _, _. reflexivity.
  - assert (Hi : (i < k0)%nat) by lia.
    assert (Emx : match mx with Some m => (m <=? i)%nat | None => false end = false).
    { destruct mx as [m|] eqn:Em; auto. specialize (Hlim m eq_refl). apply Nat.leb_gt. lia. }
    assert (Hlim' : forall m, mx = Some m -> (Datatypes.S i <= m)%nat) by (intros m Hm; specialize (Hlim m Hm); lia).
    rewrite Emx. fold (sched mn fq i).
    destruct (X_dense i) as (_ & _ & _ & Hstep).
    destruct (sched mn fq i) eqn:Es.
    + destruct HI as (Ht1 & Hct & Hrest). destruct (conv_update_total cv i _ Hct) as [cv' Ecu]. rewrite Ecu.
      destruct (Z.ltb_spec nl 0); [lia|].
      pose proof (conj Ht1 (conj Hct Hrest)) as HI.
      destruct (check_step ct ap (a : RR) (e : RR) mn fq mx ftl nl t0 fq_pos i (Xk i) cv ft cv' HI Es Ecu) as (HFT & Hst & _).
      rewrite HFT, Hst.
      destruct (stopR i); [eexists _, _, _; reflexivity|].
      rewrite Hstep. apply (IH (Datatypes.S i) cv' _ fuel k0); auto; try lia.
      eapply Inv_next_sched; eauto.
    + rewrite Hstep. apply (IH (Datatypes.S i) cv ft fuel k0); auto; try lia.
      eapply Inv_next_unsched; eauto.
Qed.

End Model.

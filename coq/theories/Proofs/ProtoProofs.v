(** * C07: safety of the MulVec goroutine protocol. *)
From Coq Require Import List Arith Lia Bool Permutation.
From ET Require Import Model.Proto.
Import ListNotations.

Section ProtoProofs.
Variable dim W : nat.
Variable post_check : bool.
Hypothesis Wpos : 0 < W.
Notation step := (step W post_check).
Notation reach := (reach dim W post_check).
Notation init := (init dim W).

Definition cnt (r : nat) (s : st) : nat :=
  count_occ Nat.eq_dec (unsent s) r + count_occ Nat.eq_dec (jobs s) r + count_occ Nat.eq_dec (holding s) r +
  count_occ Nat.eq_dec (ents s) r + count_occ Nat.eq_dec (collected s) r + count_occ Nat.eq_dec (dropped s) r.

Record Inv (s : st) : Prop := {
  I_cnt : forall r, cnt r s = count_occ Nat.eq_dec (seq 0 dim) r;
  I_workers : idle s + length (holding s) + exited s = W;
  I_drop : dropped s <> [] -> cancelled s = true;
  I_prod : prod_live s = false -> jobs_closed s = true /\ unsent s = [];
  I_prod' : jobs_closed s = true -> prod_live s = false;
  I_exit : 0 < exited s -> cancelled s = true \/ (jobs_closed s = true /\ jobs s = []);
  I_close : ents_closed s = true -> exited s = W;
  I_loop : loop_done s = true -> ents s = [] /\ ents_closed s = true;
  I_ret : forall l, ret s = Some (Some l) -> l = collected s /\ loop_done s = true /\ (post_check = true -> 
            unsent s = [] /\ jobs s = [] /\ holding s = [] /\ ents s = [] /\ dropped s = []) }.

Lemma inv_init : Inv init.
Proof.
  constructor; cbn; try congruence; try lia; auto.
Qed.

Ltac cnt_solve :=
  unfold cnt in *; cbn [unsent jobs holding ents collected dropped] in *;
  repeat match goal with H : _ = _ :: _ |- _ => rewrite H in * | H : _ = _ ++ _ |- _ => rewrite H in * | H : _ = [] |- _ => rewrite H in * end;
  repeat rewrite ?count_occ_app in *; cbn [count_occ] in *;
  repeat match goal with |- context [Nat.eq_dec ?a ?b] => destruct (Nat.eq_dec a b) | H : context [Nat.eq_dec ?a ?b] |- _ => destruct (Nat.eq_dec a b) end;
  try lia.

Lemma inv_step : forall s s', Inv s -> step s s' -> Inv s'.
Proof.
  intros s s' I St. destruct I as [Ic Iw Id Ip Ip' Ie Icl Il Ir].
  destruct St; constructor; cbn [cancelled unsent prod_live jobs jobs_closed idle holding exited ents ents_closed collected loop_done dropped ret] in *;
    try (intros; first [congruence | lia | tauto]); auto.
  all: try (intros r0; specialize (Ic r0); cnt_solve; fail).
  all: try (rewrite ?app_length in *; cbn [length] in *; repeat match goal with H : holding _ = _ |- _ => rewrite H in *; rewrite ?app_length in *; cbn [length] in * end; lia).
  - (* ProdSend: jobs_closed -> false *) intros Hc. apply Ip' in Hc. rewrite H in Hc. discriminate.
  - intros He. destruct (Ie He) as [?|[Hc _]]; auto. apply Ip' in Hc. rewrite H in Hc. discriminate.
  - intros l Hl. destruct (Ir l Hl) as (? & ? & Hp). split; [auto|split; [auto|]]. intros Pc. destruct (Hp Pc) as (Hu & _). congruence.
  - (* ProdAbort *) intros l Hl. destruct (Ir l Hl) as (? & Hld & Hp). split; [auto|split; [auto|]]. intros Pc.
    destruct (Hp Pc) as (Hu & ? & ? & ? & Hd). rewrite Hu, Hd. auto.
  - (* ProdFinish *) intros l Hl. destruct (Ir l Hl) as (? & ? & Hp). split; [auto|split; [auto|]]. intros Pc. destruct (Hp Pc) as (? & ? & ? & ? & ?); auto.
  - (* WRecv *) intros He. destruct (Ie He) as [?|[Hc Hj]]; auto. congruence.
  - intros l Hl. destruct (Ir l Hl) as (? & ? & Hp). split; [auto|split; [auto|]]. intros Pc. destruct (Hp Pc) as (? & Hj & _). congruence.
  - (* WClosed *) intros Hc. apply Icl in Hc. lia.
  - intros l Hl. destruct (Ir l Hl) as (? & ? & Hp). split; [auto|split; [auto|]]. intros Pc. destruct (Hp Pc) as (? & ? & ? & ? & ?); auto.
  - (* WCancelIdle *) intros Hc. apply Icl in Hc. lia.
  - (* WSend *) intros Hl. destruct (Il Hl) as (_ & Hc). apply Icl in Hc. rewrite H, app_length in Iw. cbn in Iw. lia.
  - intros l Hl. destruct (Ir l Hl) as (? & ? & Hp). split; [auto|split; [auto|]]. intros Pc. destruct (Hp Pc) as (? & ? & Hh & _).
    rewrite H in Hh. destruct h1; discriminate.
  - (* WCancelHold *) intros Hc. apply Icl in Hc. rewrite H, app_length in Iw. cbn in Iw. lia.
  - intros l Hl. destruct (Ir l Hl) as (? & ? & Hp). split; [auto|split; [auto|]]. intros Pc. destruct (Hp Pc) as (? & ? & Hh & _).
    rewrite H in Hh. destruct h1; discriminate.
  - (* CReturn: the main case *)
    intros l Hl. destruct (Il H0) as (He & Hc).
    destruct post_check eqn:Pc; cbn in Hl.
    + destruct (cancelled s) eqn:Cn; [discriminate|]. inversion Hl; subst l. split; [auto|split; [auto|]]. intros _.
      pose proof (Icl Hc) as Hex.
      assert (0 < exited s) as Hpos by lia.
      destruct (Ie Hpos) as [?|[Hjc Hj]]; [congruence|].
      destruct (Ip (Ip' Hjc)) as (_ & Hu).
      assert (holding s = []) as Hh by (destruct (holding s); cbn in Iw; [reflexivity|lia]).
      assert (dropped s = []) as Hd.
      { destruct (dropped s) eqn:Ed; auto. exfalso. assert (false = true) as X by (apply Id; discriminate). discriminate X. }
      auto.
    + inversion Hl; subst l. split; [auto|split; [auto|]]. discriminate.
Qed.

Theorem proto_safe : post_check = true -> forall s, reach s -> forall l, ret s = Some (Some l) -> Permutation l (seq 0 dim).
Proof.
  intros Pc s R. assert (Inv s) as I by (induction R; [apply inv_init | eapply inv_step; eauto]).
  intros l Hl. destruct (I_ret _ I l Hl) as (-> & _ & Hp). destruct (Hp Pc) as (Hu & Hj & Hh & He & Hd).
  apply (Permutation_count_occ Nat.eq_dec). intros r. rewrite <- (I_cnt _ I r). unfold cnt. rewrite Hu, Hj, Hh, He, Hd. cbn. lia.
Qed.
(** ** termination: a measure that strictly decreases on every step *)
Definition b2n (b : bool) : nat := if b then 1 else 0.
Definition mu (s : st) : nat :=
  2 * (5 * length (unsent s) + 4 * length (jobs s) + 3 * length (holding s) + 2 * length (ents s) + length (collected s))
  + idle s + 2 * length (holding s)
  + b2n (prod_live s) + b2n (negb (cancelled s)) + b2n (negb (ents_closed s))
  + b2n (match ret s with None => true | Some _ => false end) + b2n (negb (loop_done s)).

Theorem step_decreases : forall s s', step s s' -> mu s' < mu s.
Proof.
  intros s s' H. destruct H; unfold mu;
    cbn [cancelled unsent prod_live jobs jobs_closed idle holding exited ents ents_closed collected loop_done dropped ret];
    repeat match goal with
           | H : _ = _ |- _ => rewrite H
           end;
    rewrite ?app_length; cbn [length b2n negb]; try lia.
  all: destruct post_check; destruct (cancelled s); cbn [andb b2n]; lia.
Qed.

(** every execution from the initial state has at most [mu init] steps *)
Inductive steps : nat -> st -> st -> Prop :=
| steps0 s : steps 0 s s
| stepsS n s s' s'' : step s s' -> steps n s' s'' -> steps (Datatypes.S n) s s''.

Theorem executions_bounded : forall n s s', steps n s s' -> n + mu s' <= mu s.
Proof.
  induction 1 as [|n s s' s'' Hst Hss IH]; [lia|]. pose proof (step_decreases _ _ Hst). lia.
Qed.

(** a state in which no step is enabled: everything has exited and the call has returned *)
Definition terminal (s : st) : Prop := forall s', ~ step s s'.

Theorem terminal_all_exited : forall s, reach s -> terminal s ->
  prod_live s = false /\ idle s = 0 /\ holding s = [] /\ exited s = W /\ ents_closed s = true /\ ret s <> None.
Proof.
  intros s R T. assert (I : Inv s) by (clear T; induction R; [apply inv_init | eapply inv_step; eauto]).
  destruct I as [Ic Iw Id Ip Ip' Ie Icl Il Ir].
  assert (Hp : prod_live s = false).
  { destruct (prod_live s) eqn:E; auto. exfalso. destruct (unsent s) as [|r u] eqn:Eu.
    - eapply T. apply ProdFinish; auto.
    - eapply T. eapply ProdSend; eauto. }
  destruct (Ip Hp) as [Hjc Hu].
  assert (Hi : idle s = 0).
  { destruct (idle s) as [|n] eqn:E; auto. exfalso. destruct (jobs s) as [|r j] eqn:Ej.
    - eapply T. eapply WClosed; eauto.
    - eapply T. eapply WRecv; eauto. }
  assert (Hh : holding s = []).
  { destruct (holding s) as [|r h] eqn:E; auto. exfalso. eapply T. apply (WSend W post_check s [] r h). auto. }
  assert (Hex : exited s = W) by (rewrite Hi, Hh in Iw; simpl in Iw; lia).
  assert (Hc : ents_closed s = true).
  { destruct (ents_closed s) eqn:E; auto. exfalso. eapply T. apply Close; auto. }
  repeat split; auto.
  intros Hr. destruct (loop_done s) eqn:El.
  - eapply T. apply CReturn; auto.
  - destruct (ents s) as [|r e] eqn:Ee.
    + eapply T. apply CClosed; auto.
    + eapply T. eapply CRecv; eauto.
Qed.

End ProtoProofs.

(** Without the post-loop context check the protocol is unsafe: a concrete
    reachable state with a successful return that misses a row (dim = 1, one
    worker: the row is sent, taken by the worker, the context is cancelled, the
    worker drops the row and exits, the channel is closed, the collector takes
    the "closed" case and returns success with an empty product). *)
Theorem proto_unsafe_without_check :
  exists s l, Proto.reach 1 1 false s /\ ret s = Some (Some l) /\ ~ Permutation l (seq 0 1).
Proof.
  set (mk := fun c u pl j jc i h ex e ec col ld dr r =>
     {| cancelled := c; unsent := u; prod_live := pl; jobs := j; jobs_closed := jc; idle := i; holding := h; exited := ex;
        ents := e; ents_closed := ec; collected := col; loop_done := ld; dropped := dr; ret := r |}).
  set (s0 := Proto.init 1 1).
  set (s1 := mk false [] true [0] false 1 [] 0 [] false [] false [] None).
  set (s2 := mk false [] false [0] true 1 [] 0 [] false [] false [] None).
  set (s3 := mk false [] false [] true 0 [0] 0 [] false [] false [] None).
  set (s4 := mk true [] false [] true 0 [0] 0 [] false [] false [] None).
  set (s5 := mk true [] false [] true 0 [] 1 [] false [] false [0] None).
  set (s6 := mk true [] false [] true 0 [] 1 [] true [] false [0] None).
  set (s7 := mk true [] false [] true 0 [] 1 [] true [] true [0] None).
  set (s8 := mk true [] false [] true 0 [] 1 [] true [] true [0] (Some (Some (@nil nat)))).
  exists s8, []. split; [|split; [reflexivity|]].
  - apply (reachS 1 1 false s7 s8); [|apply (CReturn 1 false s7); reflexivity].
    apply (reachS 1 1 false s6 s7); [|apply (CClosed 1 false s6); reflexivity].
    apply (reachS 1 1 false s5 s6); [|apply (Close 1 false s5); reflexivity].
    apply (reachS 1 1 false s4 s5); [|apply (WCancelHold 1 false s4 [] 0 []); reflexivity].
    apply (reachS 1 1 false s3 s4); [|apply (Cancel 1 false s3); reflexivity].
    apply (reachS 1 1 false s2 s3); [|apply (WRecv 1 false s2 0 [] 0); reflexivity].
    apply (reachS 1 1 false s1 s2); [|apply (ProdFinish 1 false s1); reflexivity].
    apply (reachS 1 1 false s0 s1); [apply reach0|apply (ProdSend 1 false s0 0 []); reflexivity].
  - intros HP. apply Permutation_length in HP. discriminate.
Qed.


Lemma executions_bounded_init : forall dim W pc, 0 < W -> forall n s, steps W pc n (Proto.init dim W) s -> n <= mu (Proto.init dim W).
Proof.
  intros dim W pc HW n s H. assert (Hb : n + mu s <= mu (Proto.init dim W)).
  { induction H as [|n s s' s'' Hst Hss IH]; [lia|]. pose proof (step_decreases W pc HW s s' Hst). lia. }
  lia.
Qed.

(** * binary64 operations are the rounded real operations of [B64] inside the normal range.

    The link between the [F64] instance (primitive floats, compared bit for bit
    with the Go code) and the [B64] instance of Proofs/ScaleRound.v (reals
    rounded to 53 bits, unbounded exponent): for finite operands, when the exact
    result is zero or at least 2^-1022 in magnitude (no underflow) and its
    rounding stays below 2^1024 (no overflow), the primitive operation returns a
    finite float whose value is exactly [rnd64] of the exact result.  Uses
    Flocq's specification of the primitive floats (which rests on the standard
    library's FloatAxioms). *)
From Coq Require Import Reals ZArith Lia Lra Floats Bool.
From Flocq Require Import Core BinarySingleNaN PrimFloat.
From ET Require Import Model.Scalar Proofs.RInst Proofs.ScaleRound.
Local Open Scope R_scope.

Definition val64 (x : PrimFloat.float) : R := B2R (Prim2B x).
Definition finite64 (x : PrimFloat.float) : Prop := is_finite (Prim2B x) = true.
(** exact result [r] neither underflows nor overflows *)
Definition in_range (r : R) : Prop :=
  (r = 0 \/ bpow radix2 (-1022) <= Rabs r) /\ Rabs (rnd64 r) < bpow radix2 1024.

Lemma flt_is_flx : forall r, (r = 0 \/ bpow radix2 (-1022) <= Rabs r) ->
  round radix2 (FLT_exp (3 - 1024 - 53) 53) ZnearestE r = rnd64 r.
Proof.
  intros r [->|H].
  - unfold rnd64. rewrite !round_0; auto with typeclass_instances.
  - unfold rnd64. apply round_FLT_FLX. exact H.
Qed.

Theorem f64_add_rounds : forall x y, finite64 x -> finite64 y -> in_range (val64 x + val64 y) ->
  finite64 (x + y)%float /\ val64 (x + y)%float = rnd64 (val64 x + val64 y).
Proof.
  intros x y Fx Fy [Hu Ho]. unfold val64, finite64 in *. rewrite add_equiv.
  pose proof (Bplus_correct 53 1024 eq_refl eq_refl mode_NE (Prim2B x) (Prim2B y) Fx Fy) as H.
  cbn [round_mode] in H. change (SpecFloat.fexp 53 1024) with (FLT_exp (3 - 1024 - 53) 53) in H.
  rewrite flt_is_flx in H by exact Hu.
  rewrite Rlt_bool_true in H by exact Ho. destruct H as [H1 [H2 _]]. split; assumption.
Qed.

Theorem f64_sub_rounds : forall x y, finite64 x -> finite64 y -> in_range (val64 x - val64 y) ->
  finite64 (x - y)%float /\ val64 (x - y)%float = rnd64 (val64 x - val64 y).
Proof.
  intros x y Fx Fy [Hu Ho]. unfold val64, finite64 in *. rewrite sub_equiv.
  pose proof (Bminus_correct 53 1024 eq_refl eq_refl mode_NE (Prim2B x) (Prim2B y) Fx Fy) as H.
  cbn [round_mode] in H. change (SpecFloat.fexp 53 1024) with (FLT_exp (3 - 1024 - 53) 53) in H.
  rewrite flt_is_flx in H by exact Hu.
  rewrite Rlt_bool_true in H by exact Ho. destruct H as [H1 [H2 _]]. split; assumption.
Qed.

Theorem f64_mul_rounds : forall x y, finite64 x -> finite64 y -> in_range (val64 x * val64 y) ->
  finite64 (x * y)%float /\ val64 (x * y)%float = rnd64 (val64 x * val64 y).
Proof.
  intros x y Fx Fy [Hu Ho]. unfold val64, finite64 in *. rewrite mul_equiv.
  pose proof (Bmult_correct 53 1024 eq_refl eq_refl mode_NE (Prim2B x) (Prim2B y)) as H.
  cbn [round_mode] in H. change (SpecFloat.fexp 53 1024) with (FLT_exp (3 - 1024 - 53) 53) in H.
  rewrite flt_is_flx in H by exact Hu.
  rewrite Rlt_bool_true in H by exact Ho. destruct H as [H1 [H2 _]].
  split; [|exact H1]. etransitivity; [exact H2|]. apply andb_true_intro; split; assumption.
Qed.

Theorem f64_div_rounds : forall x y, finite64 x -> val64 y <> 0 -> in_range (val64 x / val64 y) ->
  finite64 (x / y)%float /\ val64 (x / y)%float = rnd64 (val64 x / val64 y).
Proof.
  intros x y Fx Hy [Hu Ho]. unfold val64, finite64 in *. rewrite div_equiv.
  pose proof (Bdiv_correct 53 1024 eq_refl eq_refl mode_NE (Prim2B x) (Prim2B y) Hy) as H.
  cbn [round_mode] in H. change (SpecFloat.fexp 53 1024) with (FLT_exp (3 - 1024 - 53) 53) in H.
  rewrite flt_is_flx in H by exact Hu.
  rewrite Rlt_bool_true in H by exact Ho. destruct H as [H1 [H2 _]].
  split; [|exact H1]. etransitivity; [exact H2|]. assumption.
Qed.

(** comparisons and |.| are exact on finite floats *)
Theorem f64_abs_exact : forall x, val64 (PrimFloat.abs x) = Rabs (val64 x).
Proof. intros. unfold val64. rewrite abs_equiv. apply B2R_Babs. Qed.

Theorem f64_ltb_exact : forall x y, finite64 x -> finite64 y ->
  PrimFloat.ltb x y = Rltb (val64 x) (val64 y).
Proof.
  intros x y Fx Fy. unfold val64, finite64 in *. rewrite ltb_equiv.
  rewrite Bltb_correct by assumption. unfold Rltb, Raux.Rlt_bool.
  destruct (Rlt_dec _ _) as [H|H]; [rewrite Rcompare_Lt; auto|].
  destruct (Rcompare_spec (B2R (Prim2B x)) (B2R (Prim2B y))); auto; lra.
Qed.

Theorem f64_eqb_exact : forall x y, finite64 x -> finite64 y ->
  PrimFloat.eqb x y = Reqb (val64 x) (val64 y).
Proof.
  intros x y Fx Fy. unfold val64, finite64 in *. rewrite eqb_equiv.
  rewrite Beqb_correct by assumption. unfold Reqb, Raux.Req_bool.
  destruct (Req_EM_T _ _) as [H|H]; [rewrite Rcompare_Eq; auto|].
  destruct (Rcompare_spec (B2R (Prim2B x)) (B2R (Prim2B y))); auto; lra.
Qed.

(** * C20: the playground's result page lists every peer once, in descending score order,
    with the pipeline's scores, the right names and exactly the pre-trusted peers flagged;
    unusable uploads are the 400 page; no slice access is out of range. *)
From Coq Require Import List Arith Bool ZArith NArith Lia Sorted Permutation.
From ET Require Import Model.Scalar Model.Sparse Model.Basic Model.Csv Model.Playground
  Proofs.SparseBase Proofs.MatrixProofs Proofs.CsvProofs.
Import ListNotations.

Section PlaygroundProofs.
Context {S : ScalarOps}.
Notation entry := (nat * T S)%type.
Notation prow := (@prow S).

(** ** checked accesses *)
Lemma set_nth_spec : forall (A : Type) (l : list A) i x l', set_nth l i x = Some l' ->
  length l' = length l /\ nth_error l' i = Some x /\ forall j, j <> i -> nth_error l' j = nth_error l j.
Proof.
  induction l as [|y t IH]; intros [|i] x l' H; simpl in H; try discriminate.
  - inversion H; subst. repeat split; auto. intros [|j] Hj; [contradiction|reflexivity].
  - destruct (set_nth t i x) as [t'|] eqn:E; simpl in H; [|discriminate]. inversion H; subst.
    destruct (IH _ _ _ E) as [A1 [A2 A3]]. repeat split; simpl; auto. intros [|j] Hj; simpl; auto.
Qed.
Lemma set_nth_total : forall (A : Type) (l : list A) i x, i < length l -> exists l', set_nth l i x = Some l'.
Proof.
  induction l as [|y t IH]; intros [|i] x H; simpl in *; try lia; eauto.
  destruct (IH i x) as [t' E]; [lia|]. rewrite E. simpl. eauto.
Qed.
Lemma set_nth_none : forall (A : Type) (l : list A) i x, set_nth l i x = None -> length l <= i.
Proof.
  induction l as [|y t IH]; intros [|i] x H; simpl in *; try lia; try discriminate.
  destruct (set_nth t i x) eqn:E; [discriminate|]. apply IH in E. lia.
Qed.

Lemma nth_of_nth_error : forall (l : list bool) i, nth i l false = match nth_error l i with Some b => b | None => false end.
Proof. induction l as [|y t IH]; intros [|i]; simpl; auto. Qed.

Lemma nth_error_ext' : forall (A : Type) (l1 l2 : list A), (forall j, nth_error l1 j = nth_error l2 j) -> l1 = l2.
Proof.
  induction l1 as [|a t IH]; intros [|b t2] H; auto.
  - specialize (H 0). discriminate.
  - specialize (H 0). discriminate.
  - pose proof (H 0) as H0. simpl in H0. inversion H0; subst. f_equal. apply IH. intros j. apply (H (Datatypes.S j)).
Qed.

(** the flags: true exactly at the indices listed in the pre-trust vector *)
Lemma set_flags_spec : forall (es : list entry) f f', set_flags f es = Some f' ->
  length f' = length f /\ forall i, nth i f' false = nth i f false || existsb (Nat.eqb i) (map fst es).
Proof.
  induction es as [|e t IH]; intros f f' H; simpl in H.
  - inversion H; subst. split; auto. intros i. simpl. rewrite orb_false_r. reflexivity.
  - destruct (set_nth f (fst e) true) as [f1|] eqn:E; [|discriminate].
    destruct (set_nth_spec _ _ _ _ _ E) as [A1 [A2 A3]]. destruct (IH _ _ H) as [B1 B2].
    split; [congruence|]. intros i. rewrite B2. simpl. rewrite !nth_of_nth_error.
    destruct (Nat.eqb_spec i (fst e)) as [->|Ne].
    + rewrite A2. simpl. destruct (nth_error f (fst e)) as [[|]|]; reflexivity.
    + rewrite (A3 i Ne). simpl. reflexivity.
Qed.
Lemma set_flags_total : forall (es : list entry) f, Forall (fun e => fst e < length f) es -> exists f', set_flags f es = Some f'.
Proof.
  induction es as [|e t IH]; intros f H; simpl; eauto. inversion H; subst.
  destruct (set_nth_total _ f (fst e) true H2) as [f1 E]. rewrite E.
  apply IH. destruct (set_nth_spec _ _ _ _ _ E) as [A1 _]. rewrite A1. exact H3.
Qed.
Lemma set_flags_none : forall (es : list entry) f, set_flags f es = None -> exists e, In e es /\ length f <= fst e.
Proof.
  induction es as [|e t IH]; intros f H; simpl in H; [discriminate|].
  destruct (set_nth f (fst e) true) as [f1|] eqn:E.
  - destruct (IH _ H) as [e' [Hin Hl]]. exists e'. split; [right; auto|]. destruct (set_nth_spec _ _ _ _ _ E) as [A1 _]. lia.
  - exists e. split; [left; auto|]. eapply set_nth_none; eauto.
Qed.

(** the initial rows: index k at position k, score 0, the name of peer k *)
Definition name_for (names : option (list name)) (i : nat) : option pname :=
  match names with Some ns => option_map Named (nth_error ns i) | None => Some (Anon i) end.
Lemma init_rows_spec : forall names is (rows : list prow), init_rows names is = Some rows ->
  map p_index rows = is /\ Forall (fun r => p_score r = zero S /\ name_for names (p_index r) = Some (p_name r)) rows.
Proof.
  intros names. induction is as [|i t IH]; intros rows H; simpl in H.
  - inversion H; subst. split; constructor.
  - fold (name_for names i) in H. destruct (name_for names i) as [nmv|] eqn:En; [|discriminate].
    destruct (init_rows names t) as [rt|] eqn:Et; simpl in H; [|discriminate]. inversion H; subst.
    destruct (IH _ eq_refl) as [A B]. split; simpl; [congruence|]. constructor; auto.
Qed.
Lemma init_rows_total : forall names is, (forall i, In i is -> name_for names i <> None) -> exists rows : list prow, init_rows names is = Some rows.
Proof.
  intros names. induction is as [|i t IH]; intros H; simpl; eauto.
  fold (name_for names i). destruct (name_for names i) as [nmv|] eqn:En; [|exfalso; apply (H i); [left; auto|exact En]].
  destruct IH as [rt Et]; [intros j Hj; apply H; right; auto|]. rewrite Et. simpl. eauto.
Qed.

(** filling in the scores: indices and names stay, the score of row k becomes the vector's entry k *)
Lemma set_scores_spec : forall (es : list entry) rows rows', set_scores rows es = Some rows' ->
  map p_index rows' = map p_index rows /\ map p_name rows' = map p_name rows /\
  (NoDup (map fst es) -> forall k, option_map p_score (nth_error rows' k) =
     match lookup k es with Some x => option_map (fun _ => x) (nth_error rows k) | None => option_map p_score (nth_error rows k) end).
Proof.
  induction es as [|e t IH]; intros rows rows' H; simpl in H.
  - inversion H; subst. repeat split; auto.
  - destruct (nth_error rows (fst e)) as [r|] eqn:Er; [|discriminate].
    destruct (set_nth rows (fst e) _) as [rows1|] eqn:E1; [|discriminate].
    destruct (set_nth_spec _ _ _ _ _ E1) as [A1 [A2 A3]]. destruct (IH _ _ H) as [B1 [B2 B3]].
    assert (Hmap : forall (B : Type) (g : prow -> B), g {| p_index := p_index r; p_name := p_name r; p_score := snd e |} = g r -> map g rows1 = map g rows).
    { intros B g Hg. apply nth_error_ext'. intros j. rewrite !nth_error_map. destruct (Nat.eq_dec j (fst e)) as [->|Ne].
      - rewrite A2, Er. simpl. rewrite Hg. reflexivity.
      - rewrite (A3 j Ne). reflexivity. }
    split; [rewrite B1; apply Hmap; reflexivity|]. split; [rewrite B2; apply Hmap; reflexivity|].
    intros Hnd k. inversion Hnd as [|a l Hnotin Hnd']; subst. rewrite (B3 Hnd' k). destruct e as [i x]. cbn [fst snd] in *.
    rewrite lookup_cons. destruct (Nat.eqb_spec k i) as [->|Ne].
    + rewrite (lookup_none_notin t i Hnotin). rewrite A2, Er. reflexivity.
    + rewrite (A3 k Ne). reflexivity.
Qed.
Lemma set_scores_total : forall (es : list entry) rows, Forall (fun e => fst e < length rows) es -> exists rows', set_scores rows es = Some rows'.
Proof.
  induction es as [|e t IH]; intros rows H; simpl; eauto. inversion H; subst.
  destruct (nth_error rows (fst e)) as [r|] eqn:Er; [|apply nth_error_None in Er; lia].
  destruct (set_nth_total _ rows (fst e) {| p_index := p_index r; p_name := p_name r; p_score := snd e |} H2) as [rows1 E1]. rewrite E1.
  apply IH. destruct (set_nth_spec _ _ _ _ _ E1) as [A1 _]. rewrite A1. exact H3.
Qed.

(** ** the sort *)
Lemma insert_desc_perm : forall (x : prow) l, Permutation (insert_desc x l) (x :: l).
Proof.
  intros x l. induction l as [|y t IH]; simpl; auto. destruct (ltb S (p_score y) (p_score x)); auto.
  eapply perm_trans; [apply perm_skip, IH|]. apply perm_swap.
Qed.
Lemma sort_desc_perm : forall l : list prow, Permutation (sort_desc l) l.
Proof.
  induction l as [|x t IH]; simpl; auto. eapply perm_trans; [apply insert_desc_perm|]. apply perm_skip. exact IH.
Qed.
Definition not_below (a b : prow) : Prop := ltb S (p_score a) (p_score b) = false.
(** only asymmetry of the comparison is needed: no row is followed by a strictly greater one *)
Hypothesis ltb_asym : forall x y : T S, ltb S x y = true -> ltb S y x = false.
Lemma insert_desc_sorted : forall (x : prow) l, LocallySorted not_below l -> LocallySorted not_below (insert_desc x l).
Proof.
  intros x l H. induction H as [|y|y z t Ht IH Hyz]; simpl.
  - constructor.
  - destruct (ltb S (p_score y) (p_score x)) eqn:E; constructor; try constructor; unfold not_below; auto.
  - destruct (ltb S (p_score y) (p_score x)) eqn:E.
    + constructor; [constructor; auto|]. unfold not_below. auto.
    + simpl in IH. destruct (ltb S (p_score z) (p_score x)) eqn:E2.
      * constructor; [exact IH|]. exact E.
      * constructor; [exact IH|]. exact Hyz.
Qed.
Lemma sort_desc_sorted : forall l : list prow, LocallySorted not_below (sort_desc l).
Proof. induction l as [|x t IH]; simpl; [constructor|]. apply insert_desc_sorted. exact IH. Qed.

Lemma nth_error_seq_from : forall n a k x, nth_error (seq a n) k = Some x -> x = a + k /\ k < n.
Proof.
  induction n as [|n IH]; intros a [|k] x H; simpl in H; try discriminate.
  - inversion H. lia.
  - apply IH in H. lia.
Qed.
Lemma nth_error_seq0 : forall n k x, nth_error (seq 0 n) k = Some x -> x = k /\ k < n.
Proof. intros n k x H. apply nth_error_seq_from in H. lia. Qed.

(** ** the rendered page *)
Theorem render_spec : forall names (lt1 : csm S) (pt1 t' : vec S) flags rows arcs,
  render names lt1 pt1 t' = PResult flags rows arcs ->
  Permutation (map p_index rows) (seq 0 (vdim pt1)) /\
  LocallySorted not_below rows /\
  length flags = vdim pt1 /\
  (forall i, nth i flags false = existsb (Nat.eqb i) (map fst (vents pt1))) /\
  (forall r, In r rows -> name_for names (p_index r) = Some (p_name r)) /\
  (NoDup (map fst (vents t')) -> forall r, In r rows -> p_score r = den (vents t') (p_index r)) /\
  arcs = mnnz lt1.
Proof.
  intros names lt1 pt1 t' flags rows arcs H. unfold render in H.
  destruct (set_flags (repeat false (vdim pt1)) (vents pt1)) as [fl|] eqn:Ef; [|discriminate].
  destruct (init_rows names (seq 0 (vdim pt1))) as [rows0|] eqn:Ei; [|discriminate].
  destruct (set_scores rows0 (vents t')) as [rows1|] eqn:Es; [|discriminate].
  inversion H; subst. clear H.
  destruct (set_flags_spec _ _ _ Ef) as [F1 F2]. destruct (init_rows_spec _ _ _ Ei) as [I1 I2].
  destruct (set_scores_spec _ _ _ Es) as [S1 [S2 S3]].
  assert (Hidx : forall k r, nth_error rows1 k = Some r -> p_index r = k /\ k < vdim pt1).
  { intros k r Hk. assert (Hm : nth_error (map p_index rows1) k = Some (p_index r)) by (rewrite nth_error_map, Hk; reflexivity).
    rewrite S1, I1 in Hm. apply nth_error_seq0 in Hm. exact Hm. }
  split; [|split; [apply sort_desc_sorted|split; [rewrite F1, repeat_length; reflexivity|split; [|split; [|split; [|reflexivity]]]]]].
  - rewrite <- I1, <- S1. apply Permutation_map. apply sort_desc_perm.
  - intros i. rewrite F2. replace (nth i (repeat false (vdim pt1)) false) with false; [reflexivity|].
    clear. generalize (vdim pt1). intros n. revert i. induction n as [|n IH]; intros [|i]; simpl; auto.
  - intros r Hin. apply (Permutation_in _ (sort_desc_perm rows1)) in Hin. apply In_nth_error in Hin. destruct Hin as [k Hk].
    assert (Hn : nth_error (map p_name rows1) k = Some (p_name r)) by (rewrite nth_error_map, Hk; reflexivity).
    rewrite S2 in Hn. rewrite nth_error_map in Hn. destruct (nth_error rows0 k) as [r0|] eqn:E0; [|discriminate]. simpl in Hn. inversion Hn as [Hn'].
    pose proof (proj1 (Forall_forall _ _) I2 r0 (nth_error_In _ _ E0)) as [_ Hnm].
    assert (Hi0 : p_index r0 = k).
    { assert (Hm : nth_error (map p_index rows0) k = Some (p_index r0)) by (rewrite nth_error_map, E0; reflexivity).
      rewrite I1 in Hm. apply nth_error_seq0 in Hm. tauto. }
    destruct (Hidx k r Hk) as [Hir _]. rewrite Hir, <- Hi0. exact Hnm.
  - intros Hnd r Hin. apply (Permutation_in _ (sort_desc_perm rows1)) in Hin. apply In_nth_error in Hin. destruct Hin as [k Hk].
    pose proof (S3 Hnd k) as Hs. rewrite Hk in Hs. simpl in Hs. destruct (Hidx k r Hk) as [Hir Hl]. rewrite Hir.
    assert (E0 : exists r0, nth_error rows0 k = Some r0).
    { destruct (nth_error rows0 k) eqn:E; eauto. exfalso. apply nth_error_None in E.
      assert (length rows0 = vdim pt1) by (rewrite <- (map_length p_index), I1, seq_length; reflexivity). lia. }
    destruct E0 as [r0 E0]. rewrite E0 in Hs. unfold den. destruct (lookup k (vents t')) as [x|]; simpl in Hs; inversion Hs; auto.
    pose proof (proj1 (Forall_forall _ _) I2 r0 (nth_error_In _ _ E0)) as [Hz _]. congruence.
Qed.

(** no slice access of the rendering is out of range when the vectors are in range and the peer
    list covers the dimension *)
Theorem render_total : forall names (lt1 : csm S) (pt1 t' : vec S),
  bounded (vdim pt1) (vents pt1) -> bounded (vdim pt1) (vents t') ->
  (forall ns, names = Some ns -> vdim pt1 <= length ns) ->
  exists flags rows arcs, render names lt1 pt1 t' = PResult flags rows arcs.
Proof.
  intros names lt1 pt1 t' Hp Ht Hn. unfold render.
  destruct (set_flags_total (vents pt1) (repeat false (vdim pt1))) as [fl Ef]; [rewrite repeat_length; exact Hp|]. rewrite Ef.
  destruct (init_rows_total names (seq 0 (vdim pt1))) as [rows0 Ei].
  { intros i Hi. apply in_seq in Hi. unfold name_for. destruct names as [ns|]; [|discriminate].
    destruct (nth_error ns i) eqn:E; [discriminate|]. apply nth_error_None in E. specialize (Hn ns eq_refl). lia. }
  rewrite Ei. destruct (init_rows_spec _ _ _ Ei) as [I1 _].
  destruct (set_scores_total (vents t') rows0) as [rows1 Es].
  { rewrite <- (map_length p_index), I1, seq_length. exact Ht. }
  rewrite Es. eauto.
Qed.

(** ** upload parsing and alignment *)
Lemma bounded_mono : forall d d' (l : list entry), d <= d' -> bounded d l -> bounded d' l.
Proof. intros d d' l H HB. eapply Forall_impl; [|exact HB]. intros e He. cbv beta in *. lia. Qed.

Lemma index_of_bound : forall ns (f : @field S) a, parse_peer_id (Some ns) f = Some a -> a < length ns.
Proof. intros ns f a H. simpl in H. eapply index_of_lt; eauto. Qed.

Theorem prepare_spec : forall (u : @upload S) names lt1 pt1 h,
  prepare u = inr (names, lt1, pt1, h) ->
  (0 <= h <= 100)%Z /\ major lt1 = vdim pt1 /\ minor lt1 = vdim pt1 /\ bounded (vdim pt1) (vents pt1) /\
  (forall ns, names = Some ns -> vdim pt1 = length ns) /\
  (exists ltf ptf, u_lt u = Some ltf /\ u_pt u = Some ptf /\
     exists lt pt, read_local_trust names ltf = ROk lt /\ read_trust_vector names ptf = ROk pt /\
       (names = None -> vdim pt1 = Nat.max (major lt) (vdim pt)) /\
       (forall i, existsb (Nat.eqb i) (map fst (vents pt1)) = existsb (Nat.eqb i) (map fst (vents pt)))).
Proof.
  intros u names lt1 pt1 h H. unfold prepare in H.
  destruct (u_lt u) as [ltf|]; [|discriminate]. destruct (u_pt u) as [ptf|]; [|discriminate].
  destruct (match u_hunch u with HAbsent => Some 10%Z | HBad => None | HVal z => Some z end) as [h0|]; [|discriminate].
  destruct ((h0 <? 0)%Z || (100 <? h0)%Z) eqn:Eh; [discriminate|].
  destruct (match u_names u with None => ROk None | Some f => match read_peer_names f with ROk ns => ROk (Some ns) | RErr c => RErr c end end) as [names0|]; [|discriminate].
  destruct (read_local_trust names0 ltf) as [lt|] eqn:El; [|discriminate].
  destruct (read_trust_vector names0 ptf) as [pt|] eqn:Ep; [|discriminate].
  destruct (read_local_trust_ok _ _ _ El) as [_ [es [_ [Hm _]]]]. cbv zeta in Hm.
  destruct (read_trust_vector_ok _ _ _ Ep) as [_ [ves [_ [Hv Hvb]]]].
  assert (Hsq : major lt = minor lt) by (rewrite Hm; reflexivity).
  assert (Hpb : bounded (vdim pt) (vents pt)).
  { rewrite Hv. cbn [vdim vents new_vec]. unfold bounded. apply Forall_forall. intros e He.
    apply (Permutation_in _ (sort_perm ves)) in He. apply (proj1 (Forall_forall _ _) Hvb e He). }
  unfold mdim in H. rewrite Hsq, Nat.eqb_refl in H.
  apply orb_false_iff in Eh. destruct Eh as [Eh1 Eh2]. apply Z.ltb_ge in Eh1. apply Z.ltb_ge in Eh2.
  assert (Hset : forall n, major (set_dim n n lt) = n /\ minor (set_dim n n lt) = n) by (intros n; split; reflexivity).
  assert (Hvs : forall n, vdim pt <= n -> vdim (vset_dim n pt) = n /\ vents (vset_dim n pt) = vents pt).
  { intros n Hn. unfold vset_dim. cbn [vdim vents]. destruct (n <? vdim pt) eqn:E; [apply Nat.ltb_lt in E; lia|]. auto. }
  destruct names0 as [ns|].
  - destruct ((length ns <? minor lt) || (length ns <? vdim pt)) eqn:Eb; [discriminate|].
    apply orb_false_iff in Eb. destruct Eb as [Eb1 Eb2]. apply Nat.ltb_ge in Eb1. apply Nat.ltb_ge in Eb2.
    inversion H; subst names lt1 pt1 h. clear H.
    assert (Hd : vdim (if vdim pt <? length ns then vset_dim (length ns) pt else pt) = length ns /\
                 vents (if vdim pt <? length ns then vset_dim (length ns) pt else pt) = vents pt).
    { destruct (vdim pt <? length ns) eqn:E; [apply Hvs; lia|]. apply Nat.ltb_ge in E. split; [lia|reflexivity]. }
    destruct Hd as [Hd1 Hd2]. rewrite Hd1, Hd2.
    repeat split; try lia.
    + destruct (minor lt <? length ns) eqn:E; [reflexivity|]. apply Nat.ltb_ge in E. lia.
    + destruct (minor lt <? length ns) eqn:E; [reflexivity|]. apply Nat.ltb_ge in E. lia.
    + eapply bounded_mono; [|exact Hpb]. lia.
    + intros ns' E. inversion E. reflexivity.
    + exists ltf, ptf. repeat split; auto. exists lt, pt. repeat split; auto. discriminate.
  - rewrite <- Hsq in H. destruct (major lt <? vdim pt) eqn:E1.
    + apply Nat.ltb_lt in E1. inversion H; subst names lt1 pt1 h. repeat split; auto; try lia; try discriminate.
      exists ltf, ptf. repeat split; auto. exists lt, pt. repeat split; auto. intros _. lia.
    + apply Nat.ltb_ge in E1. destruct (vdim pt <? major lt) eqn:E2.
      * apply Nat.ltb_lt in E2. inversion H; subst names lt1 pt1 h. destruct (Hvs (major lt)) as [Hd1 Hd2]; [lia|]. rewrite Hd1, Hd2.
        repeat split; auto; try lia; try discriminate. { eapply bounded_mono; [|exact Hpb]. lia. }
        exists ltf, ptf. repeat split; auto. exists lt, pt. repeat split; auto. intros _. lia.
      * apply Nat.ltb_ge in E2. inversion H; subst names lt1 pt1 h. repeat split; auto; try lia; try discriminate.
        exists ltf, ptf. repeat split; auto. exists lt, pt. repeat split; auto. intros _. lia.
Qed.

(** ** the handler *)
Theorem calculate_result : forall fuel eps (u : @upload S) flags rows arcs,
  calculate fuel eps u = PResult flags rows arcs ->
  exists names lt1 pt1 h t',
    prepare u = inr (names, lt1, pt1, h) /\ pipeline fuel eps lt1 pt1 h = PipeOk t' /\
    render names lt1 pt1 t' = PResult flags rows arcs.
Proof.
  intros fuel eps u flags rows arcs H. unfold calculate in H.
  destruct (prepare u) as [c|[[[names lt1] pt1] h]] eqn:Ep; [discriminate|].
  destruct (set_flags _ _); [|discriminate].
  destruct (pipeline fuel eps lt1 pt1 h) as [t'| | |] eqn:Epi; try discriminate.
  exists names, lt1, pt1, h, t'. auto.
Qed.

Theorem calculate_refusals : forall fuel eps (u : @upload S) c,
  prepare u = inl c -> calculate fuel eps u = P400 c.
Proof. intros fuel eps u c H. unfold calculate. rewrite H. reflexivity. Qed.

(** the handler panics only if the pipeline itself does or returns an out-of-range entry *)
Theorem calculate_crash_only_from_pipeline : forall fuel eps (u : @upload S),
  calculate fuel eps u = PCrash ->
  exists names lt1 pt1 h, prepare u = inr (names, lt1, pt1, h) /\
    (pipeline fuel eps lt1 pt1 h = PipeCrash \/
     exists t', pipeline fuel eps lt1 pt1 h = PipeOk t' /\ ~ bounded (vdim pt1) (vents t')).
Proof.
  intros fuel eps u H. unfold calculate in H.
  destruct (prepare u) as [c|[[[names lt1] pt1] h]] eqn:Ep; [discriminate|].
  destruct (prepare_spec _ _ _ _ _ Ep) as [_ [_ [_ [Hb [Hn _]]]]].
  exists names, lt1, pt1, h. split; auto.
  destruct (set_flags (repeat false (vdim pt1)) (vents pt1)) as [fl|] eqn:Ef.
  - destruct (pipeline fuel eps lt1 pt1 h) as [t'| | |] eqn:Epi; try discriminate; auto.
    right. exists t'. split; auto. intros Hbt.
    assert (Hn' : forall ns, names = Some ns -> vdim pt1 <= length ns) by (intros ns En; rewrite (Hn ns En); lia).
    destruct (render_total names lt1 pt1 t' Hb Hbt Hn') as [f [r [a E]]]. congruence.
  - exfalso. apply set_flags_none in Ef. destruct Ef as [e [Hin Hl]]. rewrite repeat_length in Hl.
    pose proof (proj1 (Forall_forall _ _) Hb e Hin) as Hlt. cbv beta in Hlt. lia.
Qed.

End PlaygroundProofs.

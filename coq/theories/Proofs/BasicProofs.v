(** * C04 / C08: canonicalisation, distrust extraction and discount. *)
From Coq Require Import List Arith Bool Lia Reals Lra Sorted Permutation.
From ET Require Import Model.Scalar Model.Sparse Model.Basic Proofs.SparseBase Proofs.MergeProofs
  Proofs.VectorProofs Proofs.RInst.
Import ListNotations.

(** ** structure (every scalar instance) *)
Section Generic.
Context {S : ScalarOps}.
Notation entry := (nat * T S)%type.

(** Canonicalize: a zero compensated sum is reported and nothing is changed
    (the model returns no new list); otherwise every entry is divided by it,
    indices untouched *)
Theorem canon_spec : forall l : list entry,
  let s := kbn_total (map snd l) in
  if eqb S s (zero S) then canon l = ErrZeroSum
  else canon l = Ok (map (fun e => (fst e, div S (snd e) s)) l).
Proof. intros l s. unfold canon. fold s. destruct (eqb S s (zero S)); reflexivity. Qed.

Lemma canon_ok_fst : forall (l l' : list entry), canon l = Ok l' -> map fst l' = map fst l.
Proof.
  intros l l' H. unfold canon in H. destruct (eqb S _ _); inversion H; subst.
  rewrite map_map. reflexivity.
Qed.

Lemma canon_not_other : forall (l : list entry) c, canon l <> ErrOther c /\ canon l <> ErrDim.
Proof. intros. unfold canon. destruct (eqb S _ _); split; discriminate. Qed.

(** canonicalisation of a row: canonical form, or the substitute on zero sum,
    or untouched when there is no substitute *)
Theorem canon_row_spec : forall (p : option (vec S)) (r : list entry),
  match canon r with
  | Ok r' => canon_row p r = r'
  | _ => canon_row p r = match p with Some pv => vents pv | None => r end
  end.
Proof. intros. unfold canon_row. destruct (canon r); reflexivity. Qed.

Theorem canon_lt_spec : forall (m : csm S) (p : option (vec S)),
  match canon_lt m p with
  | Ok m' => major m = minor m /\ (forall pv, p = Some pv -> vdim pv = major m) /\
             major m' = major m /\ minor m' = minor m /\ rows m' = map (canon_row p) (rows m)
  | ErrDim => major m <> minor m \/ exists pv, p = Some pv /\ vdim pv <> major m
  | _ => False
  end.
Proof.
  intros m p. unfold canon_lt, mdim. destruct (Nat.eqb_spec (major m) (minor m)) as [E|Ne]; cbn [rbind]; auto.
  destruct p as [pv|].
  - destruct (Nat.eqb_spec (major m) (vdim pv)) as [E2|Ne2].
    + cbn. repeat split; auto. intros pv' H. inversion H; subst. auto.
    + right. exists pv. split; auto.
  - cbn. repeat split; auto. intros pv H. discriminate.
Qed.

(** CanonicalizeTrustVector: zero sum -> uniform 1/n on all n indices *)
Theorem canon_tv_spec : forall v : vec S,
  vdim (canon_tv v) = vdim v /\
  match canon (vents v) with
  | Ok l => vents (canon_tv v) = l
  | ErrZeroSum => vents (canon_tv v) = map (fun i => (i, div S (one S) (of_nat S (vdim v)))) (seq 0 (vdim v))
  | _ => canon_tv v = v
  end.
Proof. intros v. unfold canon_tv, uniform. destruct (canon (vents v)); split; reflexivity. Qed.

(** ExtractDistrust: each row is partitioned by sign, order preserved *)
Lemma pos_part_lookup : forall (r : list entry) c, sorted r ->
  lookup c (pos_part r) = match lookup c r with Some x => if leb S (zero S) x then Some x else None | None => None end.
Proof. intros. unfold pos_part. rewrite lookup_filter_sorted; auto. Qed.

Lemma neg_part_lookup : forall (r : list entry) c, sorted r ->
  lookup c (neg_part r) = match lookup c r with Some x => if leb S (zero S) x then None else Some (opp S x) | None => None end.
Proof.
  intros r c Hs. unfold neg_part. rewrite (lookup_map_val (fun e => opp S (snd e))).
  rewrite lookup_filter_sorted; auto. destruct (lookup c r) as [x|]; auto. cbn [snd].
  destruct (leb S (zero S) x); reflexivity.
Qed.

Lemma pos_part_WF : forall d (r : list entry), WFrow d r -> WFrow d (pos_part r).
Proof. intros d r [Hs Hb]. split. apply sorted_filter; auto. apply bounded_filter; auto. Qed.
Lemma neg_part_WF : forall d (r : list entry), WFrow d r -> WFrow d (neg_part r).
Proof.
  intros d r [Hs Hb]. unfold neg_part. split.
  - apply (sorted_map_val (fun e => opp S (snd e))). apply sorted_filter; auto.
  - apply (bounded_map_val d (fun e => opp S (snd e))). apply bounded_filter; auto.
Qed.

Theorem extract_spec : forall m : csm S, WFm m ->
  match extract_distrust m with
  | Ok (P, D) =>
      major m = minor m /\ WFm P /\ WFm D /\
      major P = major m /\ minor P = minor m /\ major D = major m /\ minor D = major m /\
      forall r c,
        lookup c (row P r) = match lookup c (row m r) with Some x => if leb S (zero S) x then Some x else None | None => None end /\
        lookup c (row D r) = match lookup c (row m r) with Some x => if leb S (zero S) x then None else Some (opp S x) | None => None end
  | ErrDim => major m <> minor m
  | _ => False
  end.
Proof.
  intros m [Hlen HF]. unfold extract_distrust, mdim.
  destruct (Nat.eqb_spec (major m) (minor m)) as [E|Ne]; cbn [rbind]; auto.
  assert (Hfn : firstn (major m) (rows m) = rows m) by (apply firstn_all2; lia). rewrite Hfn.
  split; auto. split; [|split].
  - split; cbn [rows major minor]. rewrite map_length; auto.
    apply Forall_forall. intros x Hx. apply in_map_iff in Hx. destruct Hx as [y [<- Hy]].
    rewrite Forall_forall in HF. apply pos_part_WF; auto.
  - split; cbn [rows major minor]. rewrite map_length; auto.
    apply Forall_forall. intros x Hx. apply in_map_iff in Hx. destruct Hx as [y [<- Hy]].
    rewrite Forall_forall in HF. apply neg_part_WF. rewrite E. auto.
  - cbn [major minor]. repeat split; auto.
    + unfold row. cbn [rows]. change (@nil entry) with (pos_part (@nil entry)) at 1. rewrite map_nth.
      apply pos_part_lookup. fold (row m r). apply (WFm_row m r). split; auto.
    + unfold row. cbn [rows]. change (@nil entry) with (neg_part (@nil entry)) at 1. rewrite map_nth.
      apply neg_part_lookup. fold (row m r). apply (WFm_row m r). split; auto.
Qed.

(** DiscountTrustVector only consults the rows of peers that have an entry in
    the score vector: distrust voiced by peers without reputation has no effect
    (bit for bit). *)
Lemma skip_lt_incl : forall k (l : list entry) e, In e (skip_lt k l) -> In e l.
Proof.
  induction l as [|[i x] t IH]; intros e H; simpl in *; auto.
  destruct (i <? k); auto.
Qed.

Theorem discount_ignores_unscored : forall (rws rws' : list (list entry)) (t : vec S) (t1 : list entry) k,
  length rws = length rws' ->
  (forall i x, In (i, x) t1 -> nth (i - k) rws [] = nth (i - k) rws' [] \/ i < k) ->
  discount_go t t1 rws k = discount_go t t1 rws' k.
Proof.
  induction rws as [|rw rest IH]; intros [|rw' rest'] t t1 k Hlen Hagree; simpl in Hlen; try lia; auto.
  cbn [discount_go].
  destruct (skip_lt k t1) as [|[i x] t1'] eqn:Es; auto.
  assert (Hin : In (i, x) t1) by (apply (skip_lt_incl k); rewrite Es; left; reflexivity).
  assert (Hik : k <= i).
  { clear -Es. revert Es. induction t1 as [|[j y] t IH]; simpl; intros Es; [discriminate|].
    destruct (Nat.ltb_spec j k); auto. inversion Es; subst. auto. }
  assert (Hrec : forall t' l, (forall e, In e l -> In e ((i, x) :: t1')) ->
           discount_go t' l rest (Datatypes.S k) = discount_go t' l rest' (Datatypes.S k)).
  { intros t' l Hl. apply IH; [lia|]. intros j y Hj.
    assert (Hj1 : In (j, y) t1) by (apply (skip_lt_incl k); rewrite Es; auto).
    destruct (Hagree j y Hj1) as [Hn|Hlt]; [|right; lia].
    destruct (Nat.lt_ge_cases j (Datatypes.S k)); [right; auto|left].
    replace (j - k) with (Datatypes.S (j - Datatypes.S k)) in Hn by lia. exact Hn. }
  destruct (Nat.eqb_spec i k) as [->|Ne].
  - destruct (Hagree k x Hin) as [Hn|Hlt]; [|lia]. rewrite Nat.sub_diag in Hn. simpl in Hn. subst rw'.
    destruct (subvec t (scalevec x {| vdim := vdim t; vents := rw |})); cbn [rbind]; auto.
    apply Hrec. intros e He. right; auto.
  - apply Hrec. auto.
Qed.

End Generic.

(** ** exact statements over the reals *)
Local Open Scope R_scope.

Lemma lsum_map_div : forall (l : list R) s, s <> 0 -> lsum (map (fun x => x / s) l) = lsum l / s.
Proof.
  induction l as [|x l IH]; intros s Hs.
  - unfold lsum. simpl. field. auto.
  - cbn [map lsum fold_right]. fold (lsum (map (fun x0 => x0 / s) l)). fold (lsum l). rewrite IH; auto. field; auto.
Qed.

(** Canonicalisation makes the entries sum to 1 and preserves their ratios. *)
Theorem canon_sum_one : forall (l l' : list rentry), canon l = Ok l' ->
  lsum (map snd l') = 1 /\ map fst l' = map fst l /\
  exists s, s <> 0 /\ s = lsum (map snd l) /\ map snd l' = map (fun x => x / s) (map snd l).
Proof.
  intros l l' H. unfold canon in H. rewrite kbn_total_exact in H. cbn [eqb RR zero] in H.
  destruct (Reqb (lsum (map snd l)) 0) eqn:E; [discriminate|]. apply Reqb_false in E.
  inversion H; subst l'. rewrite !map_map. cbn [fst snd div RR].
  split; [|split; [reflexivity|]].
  - rewrite <- (map_map snd (fun x => x / lsum (map snd l))). rewrite lsum_map_div; auto. unfold Rdiv. apply Rinv_r. auto.
  - exists (lsum (map snd l)). repeat split; auto. rewrite map_map. reflexivity.
Qed.

Theorem canon_zero_iff : forall l : list rentry, canon l = ErrZeroSum <-> lsum (map snd l) = 0.
Proof.
  intros l. unfold canon. rewrite kbn_total_exact. cbn [eqb RR zero].
  destruct (Reqb (lsum (map snd l)) 0) eqn:E.
  - apply Reqb_true in E. tauto.
  - apply Reqb_false in E. split; [discriminate|contradiction].
Qed.

(** scale invariance: only relative magnitudes matter *)
Theorem canon_scale_invariant : forall (l : list rentry) (s : R), s <> 0 ->
  canon (map (fun e : rentry => (fst e, (s * snd e : T RR))) l) = canon l.
Proof.
  intros l s Hs.
  set (l2 := map (fun e : rentry => (fst e, (s * snd e : T RR))) l).
  assert (Hsum : lsum (map snd l2) = s * lsum (map snd l)).
  { unfold l2. clear. induction l as [|[i x] l IH]; cbn [map lsum fold_right fst snd]; [lra|].
    fold (lsum (map snd (map (fun e : rentry => (fst e, (s * snd e : T RR))) l))). fold (lsum (map snd l)).
    rewrite IH. lra. }
  unfold canon. rewrite !kbn_total_exact. rewrite Hsum. cbn [eqb RR zero].
  destruct (Reqb (lsum (map snd l)) 0) eqn:E.
  - apply Reqb_true in E. rewrite E, Rmult_0_r. rewrite (proj2 (Reqb_true 0 0) eq_refl). reflexivity.
  - apply Reqb_false in E. assert (Hne : s * lsum (map snd l) <> 0) by (apply Rmult_integral_contrapositive; auto).
    rewrite (proj2 (Reqb_false _ _) Hne).
    (* the canonical forms agree entry by entry; stated on the lists of (index, value) pairs *)
    f_equal. unfold l2. rewrite map_map. apply map_ext. intros [i x]. cbn [fst snd div RR]. f_equal.
    unfold Rdiv. rewrite Rinv_mult. rewrite (Rmult_comm s x), Rmult_assoc, <- (Rmult_assoc s), Rinv_r by auto. lra.
Qed.

(** distributions and row-stochastic matrices *)
Definition nonneg_entries (l : list rentry) : Prop := Forall (fun e => 0 <= snd e) l.
Definition distribution (v : vec RR) : Prop :=
  WFv v /\ nonneg_entries (vents v) /\ rsum (dv v) (vdim v) = 1.
Definition row_stochastic (m : csm RR) : Prop :=
  WFm m /\ major m = minor m /\ forall r, (r < major m)%nat ->
    nonneg_entries (row m r) /\ rsum (dm m r) (minor m) = 1.

Lemma rsum_den_lsum : forall (l : list rentry) d, sorted l -> bounded d l -> rsum (den l) d = lsum (map snd l).
Proof.
  intros l d Hs Hb. rewrite (rsum_ext (den l) (fun i => den l i * 1)); [|intros; symmetry; apply Rmult_1_r].
  rewrite (sparse_sum l (fun _ => 1) d); auto. f_equal. apply map_ext. intros. apply Rmult_1_r.
Qed.

Lemma canon_preserves_wf : forall d (l l' : list rentry), canon l = Ok l' -> WFrow d l -> WFrow d l'.
Proof.
  intros d l l' H [Hs Hb]. pose proof (canon_ok_fst l l' H) as Hf. split.
  - unfold sorted. rewrite Hf. exact Hs.
  - unfold bounded in *. rewrite Forall_forall in *. intros [i x] Hin.
    assert (In i (map fst l')) by (apply in_map_iff; exists (i, x); auto). rewrite Hf in H0.
    apply in_map_iff in H0. destruct H0 as [[j y] [Hj Hin']]. simpl in *. subst j. apply (Hb (i, y)); auto.
Qed.

Lemma canon_nonneg : forall (l l' : list rentry), canon l = Ok l' -> nonneg_entries l -> nonneg_entries l'.
Proof.
  intros l l' H Hn. unfold canon in H. rewrite kbn_total_exact in H. cbn [eqb RR zero] in H.
  destruct (Reqb (lsum (map snd l)) 0) eqn:E; [discriminate|]. apply Reqb_false in E. inversion H; subst l'.
  assert (Hpos : 0 <= lsum (map snd l)).
  { clear -Hn. induction l as [|[i x] l IH]; simpl; [lra|]. inversion Hn; subst. simpl in *. specialize (IH H2). lra. }
  unfold nonneg_entries in *. rewrite Forall_forall in *. intros e He. apply in_map_iff in He.
  destruct He as [[i x] [<- Hin]]. cbn [fst snd div RR]. specialize (Hn (i, x) Hin). simpl in Hn.
  apply Rmult_le_pos; auto. apply Rlt_le, Rinv_0_lt_compat.
  destruct Hpos as [Hlt|Heq]; [exact Hlt|exfalso; apply E; symmetry; exact Heq].
Qed.

(** CanonicalizeTrustVector yields a distribution (dimension > 0, non-negative entries) *)
Theorem canon_tv_distribution : forall v : vec RR, WFv v -> nonneg_entries (vents v) -> (0 < vdim v)%nat ->
  distribution (canon_tv v).
Proof.
  intros v [Hs Hb] Hn Hd. unfold canon_tv. destruct (canon (vents v)) as [l| | |c] eqn:E.
  - destruct (canon_preserves_wf (vdim v) _ _ E (conj Hs Hb)) as [Hs' Hb'].
    split; [split; auto|]. split; [eapply canon_nonneg; eauto|].
    cbn [vdim vents]. unfold dv. cbn [vents]. rewrite rsum_den_lsum; auto. apply (canon_sum_one _ _ E).
  - destruct (canon_not_other (vents v) 0) as [_ H]. congruence.
  - (* uniform *)
    assert (Hu : sorted (uniform (S:=RR) (vdim v)) /\ bounded (vdim v) (uniform (S:=RR) (vdim v))).
    { unfold uniform. split. apply (sorted_rows_map (fun _ => div RR (one RR) (of_nat RR (vdim v)))).
      unfold bounded. apply Forall_forall. intros x Hx. apply in_map_iff in Hx. destruct Hx as [i [<- Hi]].
      apply in_seq in Hi. simpl. lia. }
    destruct Hu as [Hus Hub].
    split; [split; auto|]. split.
    + unfold nonneg_entries, uniform. cbn [vents]. apply Forall_forall. intros x Hx. apply in_map_iff in Hx.
      destruct Hx as [i [<- _]]. cbn. apply Rmult_le_pos; [lra|]. apply Rlt_le, Rinv_0_lt_compat. apply lt_0_INR. auto.
    + cbn [vdim vents]. unfold dv. cbn [vents]. rewrite rsum_den_lsum; auto. unfold uniform. rewrite map_map. cbn [snd].
      assert (Hc : forall n s, lsum (map (fun _ : nat => div RR (one RR) (of_nat RR (vdim v))) (seq s n)) = INR n * (1 / INR (vdim v))).
      { induction n as [|n IH]; intros s; [simpl; lra|]. cbn [seq map lsum fold_right]. fold (lsum (map (fun _ : nat => div RR (one RR) (of_nat RR (vdim v))) (seq (Datatypes.S s) n))).
        rewrite IH. rewrite S_INR. cbn. lra. }
      rewrite Hc. field. apply not_0_INR. lia.
  - destruct (canon_not_other (vents v) c) as [H _]. congruence.
Qed.

(** discount: t_j - sum_i t_i * D_ij *)
Lemma rsum_shift : forall (f : nat -> R) n, rsum f (Datatypes.S n) = f 0%nat + rsum (fun i => f (Datatypes.S i)) n.
Proof.
  intros f n. induction n as [|n IH]; [unfold rsum; simpl; lra|].
  rewrite rsum_S, IH, rsum_S. lra.
Qed.

Lemma skip_lt_sorted : forall k (l : list rentry), sorted l -> sorted (skip_lt k l).
Proof.
  induction l as [|[i x] t IH]; intros Hs; simpl; auto.
  destruct (i <? k); auto. apply IH. eapply sorted_tail; eauto.
Qed.

Lemma skip_lt_den : forall k (l : list rentry) i, sorted l -> (k <= i)%nat -> den (skip_lt k l) i = den l i.
Proof.
  induction l as [|[j x] t IH]; intros i Hs Hi; cbn [skip_lt]; auto.
  destruct (Nat.ltb_spec j k).
  - rewrite IH; auto; [|eapply sorted_tail; eauto]. rewrite den_cons. destruct (Nat.eqb_spec i j); [lia|reflexivity].
  - reflexivity.
Qed.

Lemma skip_lt_head : forall k (l : list rentry) i x t, skip_lt k l = (i, x) :: t -> (k <= i)%nat.
Proof.
  induction l as [|[j y] l IH]; intros i x t H; simpl in H; [discriminate|].
  destruct (Nat.ltb_spec j k); eauto. inversion H; subst. auto.
Qed.

Theorem discount_go_exact : forall (rws : list (list rentry)) (t : vec RR) (t1 : list rentry) k r,
  WFv t -> sorted t1 -> Forall (WFrow (vdim t)) rws ->
  discount_go t t1 rws k = Ok r ->
  vdim r = vdim t /\ WFv r /\
  forall j, dv r j = dv t j - rsum (fun i => den t1 (k + i) * den (nth i rws []) j) (length rws).
Proof.
  induction rws as [|rw rest IH]; intros t t1 k r Wt Hs1 HF H; cbn [discount_go] in H.
  - inversion H; subst. repeat split; auto; try apply Wt. intros j. unfold rsum. simpl. lra.
  - inversion HF as [|? ? Hrw HFr]; subst.
    destruct (skip_lt k t1) as [|[i x] t1'] eqn:Es.
    + inversion H; subst. repeat split; auto; try apply Wt. intros j.
      rewrite (rsum_ext _ (fun _ => 0)); [rewrite rsum_zero; lra|]. intros i Hi.
      rewrite <- (skip_lt_den k t1 (k + i)); auto; [|lia]. rewrite Es. unfold den. simpl. lra.
    + pose proof (skip_lt_head _ _ _ _ _ Es) as Hik.
      pose proof (skip_lt_sorted k t1 Hs1) as Hss. rewrite Es in Hss.
      assert (Hden : forall n, (k <= n)%nat -> den t1 n = den ((i, x) :: t1') n).
      { intros n Hn. rewrite <- Es. symmetry. apply skip_lt_den; auto. }
      destruct (Nat.eqb_spec i k) as [->|Ne].
      * set (sv := scalevec x {| vdim := vdim t; vents := rw |}) in *.
        assert (Wrow : WFv {| vdim := vdim t; vents := rw |}) by (destruct Hrw; split; auto).
        destruct (scalevec_spec x _ Wrow) as (Hsd & Wsv & _). fold sv in Hsd, Wsv. cbn [vdim] in Hsd.
        destruct (subvec t sv) as [t'| | |] eqn:Esub; cbn [rbind] in H; try discriminate.
        pose proof (subvec_spec t sv Wt Wsv) as Hsp. rewrite Hsd, Nat.eqb_refl in Hsp.
        destruct Hsp as (t'' & Ht'' & Hd' & Wt' & _). rewrite Esub in Ht''. inversion Ht''; subst t''.
        assert (HFr' : Forall (WFrow (vdim t')) rest) by (rewrite Hd'; auto).
        destruct (IH t' t1' (Datatypes.S k) r Wt' (sorted_tail _ _ Hss) HFr' H) as (Hrd & Wr & Hval).
        split; [congruence|]. split; [auto|]. intros j. rewrite Hval.
        rewrite (subvec_exact t sv t' Wt Wsv Esub j). unfold sv. rewrite (scalevec_exact x _ Wrow j).
        cbn [length]. rewrite rsum_shift. cbn [nth]. rewrite Nat.add_0_r.
        rewrite (Hden k) by lia. rewrite den_cons, Nat.eqb_refl. unfold dv. cbn [vents].
        assert (Hrest : rsum (fun i0 => den t1' (Datatypes.S k + i0) * den (nth i0 rest []) j) (length rest) =
                        rsum (fun i0 => den t1 (k + Datatypes.S i0) * den (nth i0 rest []) j) (length rest)).
        { apply rsum_ext. intros n _. rewrite (Hden (k + Datatypes.S n)%nat) by lia. rewrite den_cons.
          destruct (Nat.eqb_spec (k + Datatypes.S n) k); [lia|]. replace (Datatypes.S k + n)%nat with (k + Datatypes.S n)%nat by lia. reflexivity. }
        rewrite Hrest. lra.
      * assert (Hk : (k < i)%nat) by lia.
        destruct (IH t ((i, x) :: t1') (Datatypes.S k) r Wt Hss HFr H) as (Hrd & Wr & Hval).
        split; [auto|]. split; [auto|]. intros j. rewrite Hval.
        cbn [length]. rewrite rsum_shift. cbn [nth]. rewrite Nat.add_0_r.
        rewrite (Hden k) by lia. rewrite den_cons. destruct (Nat.eqb_spec k i); [lia|].
        rewrite (den_none t1' k); [|apply lookup_lt_none; intros n' Hn'; pose proof (sorted_head_lt _ _ _ _ Hss Hn'); lia].
        assert (Hrest : rsum (fun i0 => den ((i, x) :: t1') (Datatypes.S k + i0) * den (nth i0 rest []) j) (length rest) =
                        rsum (fun i0 => den t1 (k + Datatypes.S i0) * den (nth i0 rest []) j) (length rest)).
        { apply rsum_ext. intros n' _. rewrite (Hden (k + Datatypes.S n')%nat) by lia.
          replace (Datatypes.S k + n')%nat with (k + Datatypes.S n')%nat by lia. reflexivity. }
        rewrite Hrest. lra.
Qed.

(** Discounting a score vector by a distrust matrix with [vdim t] rows. *)
Theorem discount_exact : forall (t r : vec RR) (d : csm RR),
  WFv t -> WFm d -> minor d = vdim t -> (major d <= vdim t)%nat -> discount t d = Ok r ->
  vdim r = vdim t /\ WFv r /\
  forall j, dv r j = dv t j - rsum (fun i => dv t i * dm d i j) (vdim t).
Proof.
  intros t r d Wt [Hlen HF] Hmin Hmaj H. unfold discount in H.
  assert (HF' : Forall (WFrow (vdim t)) (rows d)) by (rewrite <- Hmin; auto).
  destruct (discount_go_exact (rows d) t (vents t) 0 r Wt (proj1 Wt) HF' H) as (Hd & Wr & Hval).
  split; auto. split; auto. intros j. rewrite Hval. f_equal.
  (* the sum over the rows of d extends to all peers: missing rows are empty *)
  rewrite Hlen.
  assert (Hext : forall n, (major d <= n)%nat -> rsum (fun i => dv t i * dm d i j) n = rsum (fun i => dv t i * dm d i j) (major d)).
  { induction n as [|n IHn]; intros Hn.
    - replace (major d) with 0%nat by lia. reflexivity.
    - destruct (Nat.eq_dec (major d) (Datatypes.S n)) as [->|Hne]; auto.
      rewrite rsum_S, IHn by lia. unfold dm, row. rewrite (nth_overflow (rows d)) by lia. unfold den. simpl. lra. }
  rewrite (Hext (vdim t) Hmaj). apply rsum_ext. intros i _. reflexivity.
Qed.

Theorem extract_exact_R :
  forall (m P D : csm RR), WFm m -> extract_distrust m = Ok (P, D) ->
    forall r c, (dm m r c = dm P r c - dm D r c)%R /\ (0 <= dm P r c)%R /\ (0 <= dm D r c)%R /\
                (forall z, lookup c (row D r) = Some z -> (0 < z)%R) /\
                (lookup c (row P r) = None \/ lookup c (row D r) = None).
Proof.
  intros m P D W H r c. pose proof (extract_spec m W) as Hs. rewrite H in Hs.
  destruct Hs as (_ & _ & _ & _ & _ & _ & _ & Hc). destruct (Hc r c) as [HP HD].
  unfold dm, den. rewrite HP, HD. destruct (lookup c (row m r)) as [x|].
  - cbn [leb RR zero opp]. destruct (Rleb 0 x) eqn:E.
    + apply Rleb_true in E. split; [lra|]. split; [lra|]. split; [lra|]. split; [intros z Hz; discriminate|right; reflexivity].
    + apply Rleb_false in E. split; [lra|]. split; [lra|]. split; [lra|]. split; [intros z Hz; inversion Hz; lra|left; reflexivity].
  - cbn. split; [lra|]. split; [lra|]. split; [lra|]. split; [intros z Hz; discriminate|left; reflexivity].
Qed.

Theorem discount_ignores_unscored_rows :
  forall (S : ScalarOps) (t : vec S) (d d' : csm S),
    length (rows d) = length (rows d') ->
    (forall i x, In (i, x) (vents t) -> row d i = row d' i) ->
    discount t d = discount t d'.
Proof.
  intros S t d d' Hlen Hrows. unfold discount. apply discount_ignores_unscored; auto.
  intros i x Hin. left. rewrite Nat.sub_0_r. apply (Hrows i x Hin).
Qed.

(** * C01 / C02 / C05 (analytic part): the recurrence over the reals.

    [Gd x j = (1-a) * sum_i C_ij * x_i + a * p_j].  For a row-stochastic [C] and
    a distribution [p]: every iterate of a distribution is a distribution
    (C02); [Gd] is a contraction of factor (1-a) in the L1 norm, so the vector
    returned by a run that ended by convergence is within
    ((1-a)/a) * sqrt n * e of every fixed point (C01); and the default schedule
    stops as soon as 2(1-a)^(k-1) <= e (C05). *)
From Coq Require Import List Arith Bool ZArith Lia Reals Lra Sorted Permutation.
From ET Require Import Model.Scalar Model.Sparse Model.Basic Proofs.SparseBase Proofs.MergeProofs
  Proofs.VectorProofs Proofs.MatrixProofs Proofs.RInst Proofs.BasicProofs Proofs.ComputeProofs.
Import ListNotations.
Local Open Scope R_scope.

(** ** L1 / L2 norms of dense vectors on indices < n *)
Definition l1 (n : nat) (x : nat -> R) : R := rsum (fun j => Rabs (x j)) n.
Definition sq2 (n : nat) (x : nat -> R) : R := rsum (fun j => x j * x j) n.

Lemma l1_nonneg : forall n x, 0 <= l1 n x.
Proof. intros. apply rsum_nonneg. intros. apply Rabs_pos. Qed.

Lemma sq2_nonneg : forall n x, 0 <= sq2 n x.
Proof. intros. apply rsum_nonneg. intros. nra. Qed.

Lemma l1_triangle : forall n x y z, l1 n (fun j => x j - z j) <= l1 n (fun j => x j - y j) + l1 n (fun j => y j - z j).
Proof.
  intros. unfold l1. rewrite <- rsum_plus. apply rsum_le. intros i _.
  replace (x i - z i) with ((x i - y i) + (y i - z i)) by lra. apply Rabs_triang.
Qed.

Lemma l1_sym : forall n x y, l1 n (fun j => x j - y j) = l1 n (fun j => y j - x j).
Proof. intros. unfold l1. apply rsum_ext. intros. apply Rabs_minus_sym. Qed.

(** (sum |d_i|)^2 <= n * sum d_i^2 *)
Lemma am_gm_sum : forall (f : nat -> R) n c, 2 * c * rsum f n <= INR n * (c * c) + rsum (fun i => f i * f i) n.
Proof.
  induction n as [|n IH]; intros c.
  - unfold rsum. simpl. lra.
  - rewrite !rsum_S, S_INR. specialize (IH c). pose proof (Rle_0_sqr (c - f n)) as Hsq. unfold Rsqr in Hsq. nra.
Qed.

Lemma cauchy_schwarz_1 : forall (f : nat -> R) n, rsum f n * rsum f n <= INR n * rsum (fun i => f i * f i) n.
Proof.
  induction n as [|n IH].
  - unfold rsum. simpl. lra.
  - rewrite !rsum_S, S_INR. pose proof (am_gm_sum f n (f n)). nra.
Qed.

Lemma l1_le_sqrt_n_l2 : forall n x, l1 n x <= sqrt (INR n) * sqrt (sq2 n x).
Proof.
  intros n x. rewrite <- sqrt_mult; [|apply pos_INR|apply sq2_nonneg].
  apply Rsqr_incr_0_var; [|apply sqrt_pos].
  rewrite Rsqr_sqrt; [|apply Rmult_le_pos; [apply pos_INR|apply sq2_nonneg]].
  unfold Rsqr, l1, sq2. eapply Rle_trans; [apply cauchy_schwarz_1|].
  apply Rmult_le_compat_l; [apply pos_INR|]. apply Req_le. apply rsum_ext. intros i _.
  rewrite <- Rabs_mult. apply Rabs_pos_eq. nra.
Qed.

(** ** the dense recurrence *)
Section Rec.
Variables (n : nat) (C : csm RR) (p : vec RR) (a : R).
Hypothesis HC : row_stochastic C.
Hypothesis Hn : major C = n.
Hypothesis Hp : distribution p.
Hypothesis Hpn : vdim p = n.
Hypothesis Ha0 : 0 <= a.
Hypothesis Ha1 : a <= 1.

Definition Gd (x : nat -> R) (j : nat) : R := (1 - a) * rsum (fun i => dm C i j * x i) n + a * dv p j.

Let HWC : WFm C := proj1 HC.
Let Hsq : major C = minor C := proj1 (proj2 HC).

Lemma C_nonneg : forall i j, 0 <= dm C i j.
Proof.
  intros i j. unfold dm, den. destruct (lookup j (row C i)) as [x|] eqn:E; [|cbn; lra].
  destruct (Nat.lt_ge_cases i (major C)) as [Hi|Hi].
  - destruct (proj2 (proj2 HC) i Hi) as [Hnn _]. unfold nonneg_entries in Hnn. rewrite Forall_forall in Hnn.
    pose proof (Hnn _ (lookup_some_in _ _ _ E)) as H0. exact H0.
  - rewrite (row_overflow C i HWC Hi) in E. discriminate.
Qed.

Lemma C_row_sum : forall i, (i < n)%nat -> rsum (dm C i) n = 1.
Proof. intros i Hi. rewrite <- Hn in Hi. destruct (proj2 (proj2 HC) i Hi) as [_ Hs]. rewrite <- Hsq, Hn in Hs. exact Hs. Qed.

Lemma p_nonneg : forall j, 0 <= dv p j.
Proof.
  intros j. unfold dv, den. destruct (lookup j (vents p)) as [x|] eqn:E; [|cbn; lra].
  destruct Hp as (_ & Hnn & _). unfold nonneg_entries in Hnn. rewrite Forall_forall in Hnn.
  pose proof (Hnn _ (lookup_some_in _ _ _ E)) as H0. exact H0.
Qed.
Lemma p_sum : rsum (dv p) n = 1.
Proof. destruct Hp as (_ & _ & Hs). rewrite Hpn in Hs. exact Hs. Qed.

(** mass conservation and positivity (C02) *)
Theorem Gd_distribution : forall x, (forall i, (i < n)%nat -> 0 <= x i) -> rsum x n = 1 ->
  (forall j, (j < n)%nat -> 0 <= Gd x j) /\ rsum (Gd x) n = 1.
Proof.
  intros x Hx Hs. split.
  - intros j Hj. unfold Gd. apply Rplus_le_le_0_compat.
    + apply Rmult_le_pos; [lra|]. apply rsum_nonneg. intros i Hi. apply Rmult_le_pos; [apply C_nonneg|auto].
    + apply Rmult_le_pos; [auto|apply p_nonneg].
  - unfold Gd. rewrite rsum_plus, !rsum_scal, p_sum.
    rewrite (rsum_swap (fun j i => dm C i j * x i) n n).
    rewrite (rsum_ext _ x).
    + rewrite Hs. lra.
    + intros i Hi. rewrite (rsum_ext _ (fun j => x i * dm C i j)) by (intros; lra).
      rewrite rsum_scal, C_row_sum; auto. lra.
Qed.

(** L1 contraction with factor (1-a) *)
Theorem Gd_contraction : forall x y,
  l1 n (fun j => Gd x j - Gd y j) <= (1 - a) * l1 n (fun j => x j - y j).
Proof.
  intros x y. unfold l1.
  assert (E : forall j, Gd x j - Gd y j = (1 - a) * rsum (fun i => dm C i j * (x i - y i)) n).
  { intros j. unfold Gd. rewrite (rsum_ext (fun i => dm C i j * (x i - y i)) (fun i => dm C i j * x i + (-1) * (dm C i j * y i))) by (intros; lra).
    rewrite rsum_plus, rsum_scal. lra. }
  rewrite (rsum_ext _ (fun j => (1 - a) * Rabs (rsum (fun i => dm C i j * (x i - y i)) n))).
  2:{ intros j _. rewrite E, Rabs_mult, (Rabs_pos_eq (1 - a)) by lra. reflexivity. }
  rewrite rsum_scal. apply Rmult_le_compat_l; [lra|].
  eapply Rle_trans.
  - apply rsum_le. intros j _. apply rsum_abs.
  - cbv beta. rewrite (rsum_swap (fun j i => Rabs (dm C i j * (x i - y i))) n n).
    apply Req_le. apply rsum_ext. intros i Hi.
    rewrite (rsum_ext _ (fun j => Rabs (x i - y i) * dm C i j)).
    + rewrite rsum_scal, C_row_sum; auto. lra.
    + intros j _. rewrite Rabs_mult, (Rabs_pos_eq (dm C i j)) by apply C_nonneg. lra.
Qed.

Fixpoint Gk (k : nat) (x : nat -> R) : nat -> R := match k with O => x | Datatypes.S k' => Gd (Gk k' x) end.

Lemma Gk_contraction : forall k x y,
  l1 n (fun j => Gk k x j - Gk k y j) <= (1 - a) ^ k * l1 n (fun j => x j - y j).
Proof.
  induction k as [|k IH]; intros x y; cbn [Gk pow]; [lra|].
  eapply Rle_trans; [apply Gd_contraction|]. rewrite Rmult_assoc. apply Rmult_le_compat_l; [lra|]. apply IH.
Qed.

Lemma pow_le_base : forall q f, 0 <= q <= 1 -> (1 <= f)%nat -> q ^ f <= q.
Proof.
  intros q f Hq Hf. destruct f as [|f]; [lia|]. clear Hf.
  assert (H1 : q ^ f <= 1).
  { induction f as [|f IHf]; [simpl; lra|]. cbn [pow]. assert (0 <= q ^ f) by (apply pow_le; lra). nra. }
  cbn [pow]. assert (0 <= q ^ f) by (apply pow_le; lra). nra.
Qed.

Lemma Gk_add : forall f m x j, Gk (f + m) x j = Gk f (Gk m x) j.
Proof.
  induction f as [|f IH]; intros m x j; cbn [Gk Nat.add]; auto.
  unfold Gd. f_equal. f_equal. apply rsum_ext. intros i _. rewrite IH. reflexivity.
Qed.

(** the fixed points *)
Definition fixed_point (ts : nat -> R) : Prop := forall j, (j < n)%nat -> ts j = Gd ts j.

Lemma Gd_ext : forall x y, (forall i, (i < n)%nat -> x i = y i) -> forall j, Gd x j = Gd y j.
Proof. intros x y H j. unfold Gd. f_equal. f_equal. apply rsum_ext. intros i Hi. rewrite H; auto. Qed.

Lemma Gk_fixed : forall k ts, fixed_point ts -> forall j, (j < n)%nat -> Gk k ts j = ts j.
Proof.
  induction k as [|k IH]; intros ts Hf j Hj; cbn [Gk]; auto.
  rewrite (Gd_ext (Gk k ts) ts) by (intros; apply IH; auto). symmetry. apply Hf. auto.
Qed.

Theorem fixed_point_unique : 0 < a -> forall s t, fixed_point s -> fixed_point t ->
  forall j, (j < n)%nat -> s j = t j.
Proof.
  intros Hapos s t Hs Ht.
  assert (Hz : l1 n (fun j => s j - t j) <= 0).
  { pose proof (Gd_contraction s t) as Hc.
    assert (E : l1 n (fun j => Gd s j - Gd t j) = l1 n (fun j => s j - t j)).
    { unfold l1. apply rsum_ext. intros j Hj. rewrite <- (Hs j Hj), <- (Ht j Hj). reflexivity. }
    rewrite E in Hc. pose proof (l1_nonneg n (fun j => s j - t j)). nra. }
  assert (Hall : forall m, (m <= n)%nat -> forall j, (j < m)%nat -> s j = t j).
  { unfold l1 in Hz. induction m as [|m IHm]; intros Hm j Hj; [lia|].
    assert (Hpart : forall m', (m' <= n)%nat -> rsum (fun j0 => Rabs (s j0 - t j0)) m' <= rsum (fun j0 => Rabs (s j0 - t j0)) n).
    { intros m' Hm'. replace n with (m' + (n - m'))%nat by lia. generalize (n - m')%nat. intros d. induction d as [|d IHd].
      - rewrite Nat.add_0_r. lra.
      - replace (m' + Datatypes.S d)%nat with (Datatypes.S (m' + d)) by lia. rewrite rsum_S. pose proof (Rabs_pos (s (m' + d)%nat - t (m' + d)%nat)). lra. }
    destruct (Nat.eq_dec j m) as [->|Ne]; [|apply IHm; lia].
    pose proof (Hpart (Datatypes.S m) Hm) as H1. rewrite rsum_S in H1.
    assert (0 <= rsum (fun j0 => Rabs (s j0 - t j0)) m) by (apply rsum_nonneg; intros; apply Rabs_pos).
    pose proof (Rabs_pos (s m - t m)).
    assert (Rabs (s m - t m) = 0) by lra.
    destruct (Req_dec (s m - t m) 0) as [E|E]; [lra|]. apply Rabs_no_R0 in E. contradiction. }
  intros j Hj. apply (Hall n); auto.
Qed.

(** distance to a fixed point from the change over f >= 1 steps *)
Theorem dist_from_delta : 0 < a -> forall f x ts, (1 <= f)%nat -> fixed_point ts ->
  a * l1 n (fun j => Gk f x j - ts j) <= (1 - a) * l1 n (fun j => Gk f x j - x j).
Proof.
  intros Hapos f x ts Hf Hfix.
  set (d := l1 n (fun j => Gk f x j - ts j)). set (dl := l1 n (fun j => Gk f x j - x j)).
  assert (H1 : d <= (1 - a) ^ f * l1 n (fun j => x j - ts j)).
  { unfold d, l1. rewrite (rsum_ext (fun j => Rabs (Gk f x j - ts j)) (fun j => Rabs (Gk f x j - Gk f ts j))).
    - apply (Gk_contraction f x ts).
    - intros j Hj. rewrite (Gk_fixed f ts Hfix j Hj). reflexivity. }
  assert (H2 : l1 n (fun j => x j - ts j) <= dl + d).
  { unfold dl, d. rewrite (l1_sym n (Gk f x) x). apply (l1_triangle n x (Gk f x) ts). }
  assert (Hq : (1 - a) ^ f <= 1 - a) by (apply pow_le_base; [lra|auto]).
  assert (Hq0 : 0 <= (1 - a) ^ f) by (apply pow_le; lra).
  assert (Hd0 : 0 <= d) by apply l1_nonneg. assert (Hdl0 : 0 <= dl) by apply l1_nonneg.
  assert (H3 : d <= (1 - a) ^ f * (dl + d)) by (eapply Rle_trans; [exact H1|]; apply Rmult_le_compat_l; auto).
  assert (H4 : (1 - a) ^ f * (dl + d) <= (1 - a) * (dl + d)) by (apply Rmult_le_compat_r; lra).
  lra.
Qed.

End Rec.

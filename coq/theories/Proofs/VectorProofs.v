(** * C09: sparse vector algebra against the dense denotation (all scalar instances). *)
From Coq Require Import List Arith Bool Lia Sorted Permutation.
From ET Require Import Model.Scalar Model.Sparse Proofs.SparseBase Proofs.MergeProofs Proofs.MatrixProofs.
Import ListNotations.

Section Vector.
Context {S : ScalarOps}.
Notation entry := (nat * T S)%type.

(** ** generic facts on sorted spans *)
Lemma sorted_filter : forall (f : entry -> bool) (l : list entry), sorted l -> sorted (filter f l).
Proof.
  induction l as [|[i x] t IH]; intros Hs; simpl; auto.
  destruct (sorted_cons_inv _ _ _ Hs) as [Hst Hlt].
  destruct (f (i, x)); auto. apply sorted_cons; auto.
  intros j Hj. apply Hlt. apply in_map_iff in Hj. destruct Hj as [e [He Hin]]. apply filter_In in Hin.
  apply in_map_iff. exists e. tauto.
Qed.

Lemma sorted_map_val : forall (g : entry -> S) (l : list entry), sorted l -> sorted (map (fun e => (fst e, g e)) l).
Proof.
  intros g l Hs. unfold sorted in *. rewrite map_map. simpl.
  replace (map (fun x : entry => fst x) l) with (map fst l); auto.
Qed.

Lemma bounded_filter : forall d (f : entry -> bool) (l : list entry), bounded d l -> bounded d (filter f l).
Proof.
  intros d f l Hb. unfold bounded in *. rewrite Forall_forall in *. intros x Hx. apply filter_In in Hx. apply Hb. tauto.
Qed.

Lemma bounded_map_val : forall d (g : entry -> S) (l : list entry), bounded d l -> bounded d (map (fun e => (fst e, g e)) l).
Proof.
  intros d g l Hb. unfold bounded in *. rewrite Forall_forall in *. intros x Hx. apply in_map_iff in Hx.
  destruct Hx as [e [<- He]]. simpl. apply Hb. auto.
Qed.

Lemma lookup_map_val : forall (g : entry -> S) (l : list entry) i,
  lookup i (map (fun e => (fst e, g e)) l) = match lookup i l with Some x => Some (g (i, x)) | None => None end.
Proof.
  induction l as [|[j y] t IH]; intros i; simpl; auto.
  destruct (Nat.eqb_spec i j) as [->|Ne]; auto.
Qed.

Lemma lookup_filter_sorted : forall (f : entry -> bool) (l : list entry) i, sorted l ->
  lookup i (filter f l) = match lookup i l with Some x => if f (i, x) then Some x else None | None => None end.
Proof.
  induction l as [|[j y] t IH]; intros i Hs; simpl; auto.
  destruct (sorted_cons_inv _ _ _ Hs) as [Hst Hlt].
  destruct (f (j, y)) eqn:Ef; simpl.
  - destruct (Nat.eqb_spec i j) as [->|Ne]; [rewrite Ef; reflexivity|auto].
  - destruct (Nat.eqb_spec i j) as [->|Ne]; auto. rewrite Ef. rewrite IH; auto.
    rewrite (lookup_lt_none t j); auto.
Qed.

(** ** AddVec / SubVec *)
Lemma merge_add_eq : forall i1 (x1 : S) t1 i2 x2 t2,
  merge_add ((i1, x1) :: t1) ((i2, x2) :: t2) =
  if i1 <? i2 then (i1, x1) :: merge_add t1 ((i2, x2) :: t2)
  else if i2 <? i1 then (i2, x2) :: merge_add ((i1, x1) :: t1) t2
  else (i1, add S x1 x2) :: merge_add t1 t2.
Proof. reflexivity. Qed.
Lemma merge_add_nil_l : forall e2 : list entry, merge_add [] e2 = e2.
Proof. destruct e2; reflexivity. Qed.
Lemma merge_add_nil_r : forall e1 : list entry, merge_add e1 [] = e1.
Proof. destruct e1 as [|[? ?] ?]; reflexivity. Qed.

Lemma merge_sub_eq : forall i1 (x1 : S) t1 i2 x2 t2,
  merge_sub ((i1, x1) :: t1) ((i2, x2) :: t2) =
  if i1 <? i2 then (i1, x1) :: merge_sub t1 ((i2, x2) :: t2)
  else if i2 <? i1 then (i2, opp S x2) :: merge_sub ((i1, x1) :: t1) t2
  else (i1, sub S x1 x2) :: merge_sub t1 t2.
Proof. reflexivity. Qed.
Lemma merge_sub_nil_l : forall e2 : list entry, merge_sub [] e2 = map (fun e => (fst e, opp S (snd e))) e2.
Proof. destruct e2; reflexivity. Qed.
Lemma merge_sub_nil_r : forall e1 : list entry, merge_sub e1 [] = e1.
Proof. destruct e1 as [|[? ?] ?]; reflexivity. Qed.

(** a generic two-pointer merge lemma, instantiated for add and sub *)
Section GenMerge.
Variable mg : list entry -> list entry -> list entry.
Variable both : S -> S -> S.
Variable right : S -> S.
Hypothesis mg_nil_l : forall e2, mg [] e2 = map (fun e => (fst e, right (snd e))) e2.
Hypothesis mg_nil_r : forall e1, mg e1 [] = e1.
Hypothesis mg_eq : forall i1 x1 t1 i2 x2 t2,
  mg ((i1, x1) :: t1) ((i2, x2) :: t2) =
  if i1 <? i2 then (i1, x1) :: mg t1 ((i2, x2) :: t2)
  else if i2 <? i1 then (i2, right x2) :: mg ((i1, x1) :: t1) t2
  else (i1, both x1 x2) :: mg t1 t2.

Lemma gen_lookup : forall e1 e2 i, sorted e1 -> sorted e2 ->
  lookup i (mg e1 e2) =
    match lookup i e1, lookup i e2 with
    | Some x, Some y => Some (both x y)
    | Some x, None => Some x
    | None, Some y => Some (right y)
    | None, None => None
    end.
Proof.
  induction e1 as [|[i1 x1] t1 IH1]; intros e2 i H1 H2.
  - rewrite mg_nil_l. rewrite (lookup_map_val (fun e => right (snd e))). simpl. destruct (lookup i e2); reflexivity.
  - induction e2 as [|[i2 x2] t2 IH2].
    + rewrite mg_nil_r. simpl (lookup i []). destruct (lookup i ((i1, x1) :: t1)); reflexivity.
    + rewrite mg_eq.
      destruct (sorted_cons_inv _ _ _ H1) as [H1t H1lt]. destruct (sorted_cons_inv _ _ _ H2) as [H2t H2lt].
      destruct (Nat.ltb_spec i1 i2) as [L12|G12].
      * rewrite lookup_cons, (lookup_cons i i1 x1 t1).
        destruct (Nat.eqb_spec i i1) as [->|Ne1].
        -- rewrite (lookup_lt_none ((i2, x2) :: t2) i1); auto.
           intros j [<-|Hj]; simpl; auto. apply H2lt in Hj. lia.
        -- rewrite IH1; auto.
      * destruct (Nat.ltb_spec i2 i1) as [L21|G21].
        -- rewrite lookup_cons, (lookup_cons i i2 x2 t2).
           destruct (Nat.eqb_spec i i2) as [->|Ne2].
           ++ rewrite (lookup_lt_none ((i1, x1) :: t1) i2); auto.
              intros j [<-|Hj]; simpl; auto. apply H1lt in Hj. lia.
           ++ rewrite IH2; auto.
        -- assert (i1 = i2) by lia. subst i2. rewrite !lookup_cons.
           destruct (Nat.eqb_spec i i1) as [->|Ne]; auto.
Qed.

Lemma gen_fst : forall e1 e2 j, In j (map fst (mg e1 e2)) -> In j (map fst e1) \/ In j (map fst e2).
Proof.
  induction e1 as [|[i1 x1] t1 IH1]; intros e2 j.
  - rewrite mg_nil_l, map_map. simpl. auto.
  - induction e2 as [|[i2 x2] t2 IH2].
    + rewrite mg_nil_r. auto.
    + rewrite mg_eq. destruct (i1 <? i2); [|destruct (i2 <? i1)]; simpl; intros [H|H]; auto.
      * apply IH1 in H. simpl in H. tauto.
      * apply IH2 in H. simpl in H. tauto.
      * apply IH1 in H. tauto.
Qed.

Lemma gen_sorted : forall e1 e2, sorted e1 -> sorted e2 -> sorted (mg e1 e2).
Proof.
  induction e1 as [|[i1 x1] t1 IH1]; intros e2 H1 H2.
  - rewrite mg_nil_l. apply (sorted_map_val (fun e => right (snd e))). auto.
  - induction e2 as [|[i2 x2] t2 IH2].
    + rewrite mg_nil_r. auto.
    + rewrite mg_eq.
      destruct (sorted_cons_inv _ _ _ H1) as [H1t H1lt]. destruct (sorted_cons_inv _ _ _ H2) as [H2t H2lt].
      destruct (Nat.ltb_spec i1 i2) as [L|G]; [|destruct (Nat.ltb_spec i2 i1) as [L2|G2]].
      * apply sorted_cons; auto. intros j Hj. apply gen_fst in Hj. destruct Hj as [Hj|Hj]; auto.
        simpl in Hj. destruct Hj as [<-|Hj]; auto. apply H2lt in Hj. lia.
      * apply sorted_cons; auto. intros j Hj. apply gen_fst in Hj. destruct Hj as [Hj|Hj]; auto.
        simpl in Hj. destruct Hj as [<-|Hj]; auto. apply H1lt in Hj. lia.
      * assert (i1 = i2) by lia. subst i2. apply sorted_cons; auto.
        intros j Hj. apply gen_fst in Hj. destruct Hj as [Hj|Hj]; auto.
Qed.

Lemma gen_bounded : forall d e1 e2, bounded d e1 -> bounded d e2 -> bounded d (mg e1 e2).
Proof.
  intros d e1 e2 B1 B2. unfold bounded in *. rewrite Forall_forall in *. intros [j x] Hin.
  assert (In j (map fst (mg e1 e2))) as Hj by (apply in_map_iff; exists (j, x); auto).
  apply gen_fst in Hj. simpl.
  destruct Hj as [Hj|Hj]; apply in_map_iff in Hj; destruct Hj as [[k y] [Hk Hin']]; simpl in *; subst.
  - apply (B1 (j, y)); auto.
  - apply (B2 (j, y)); auto.
Qed.
End GenMerge.

Lemma merge_add_nil_l' : forall e2 : list entry, merge_add [] e2 = map (fun e => (fst e, (fun x : S => x) (snd e))) e2.
Proof. intros. rewrite merge_add_nil_l. induction e2 as [|[? ?] ? IH]; simpl; [reflexivity|f_equal; auto]. Qed.

(** element-wise: the exact IEEE sum where both operands have an entry, the
    operand's own value where only one has *)
Theorem merge_add_lookup : forall (e1 e2 : list entry) i, sorted e1 -> sorted e2 ->
  lookup i (merge_add e1 e2) =
    match lookup i e1, lookup i e2 with
    | Some x, Some y => Some (add S x y)
    | Some x, None => Some x
    | None, Some y => Some y
    | None, None => None
    end.
Proof.
  intros. apply (gen_lookup merge_add (add S) (fun x => x) merge_add_nil_l' merge_add_nil_r merge_add_eq); auto.
Qed.

Theorem merge_sub_lookup : forall (e1 e2 : list entry) i, sorted e1 -> sorted e2 ->
  lookup i (merge_sub e1 e2) =
    match lookup i e1, lookup i e2 with
    | Some x, Some y => Some (sub S x y)
    | Some x, None => Some x
    | None, Some y => Some (opp S y)
    | None, None => None
    end.
Proof.
  intros. apply (gen_lookup merge_sub (sub S) (opp S) merge_sub_nil_l merge_sub_nil_r merge_sub_eq); auto.
Qed.

Theorem addvec_spec : forall v1 v2 : vec S, WFv v1 -> WFv v2 ->
  if vdim v1 =? vdim v2 then
    exists r, addvec v1 v2 = Ok r /\ vdim r = vdim v1 /\ WFv r /\
      forall i, lookup i (vents r) =
        match lookup i (vents v1), lookup i (vents v2) with
        | Some x, Some y => Some (add S x y) | Some x, None => Some x
        | None, Some y => Some y | None, None => None end
  else addvec v1 v2 = ErrDim.
Proof.
  intros v1 v2 [S1 B1] [S2 B2]. unfold addvec. destruct (Nat.eqb_spec (vdim v1) (vdim v2)) as [E|Ne]; auto.
  eexists. split; [reflexivity|]. cbn [vdim vents]. split; auto. split.
  - split; cbn [vdim vents].
    + apply (gen_sorted merge_add (add S) (fun x => x) merge_add_nil_l' merge_add_nil_r merge_add_eq); auto.
    + apply (gen_bounded merge_add (add S) (fun x => x) merge_add_nil_l' merge_add_nil_r merge_add_eq); auto.
      rewrite E. auto.
  - intros i. apply merge_add_lookup; auto.
Qed.

Theorem subvec_spec : forall v1 v2 : vec S, WFv v1 -> WFv v2 ->
  if vdim v1 =? vdim v2 then
    exists r, subvec v1 v2 = Ok r /\ vdim r = vdim v1 /\ WFv r /\
      forall i, lookup i (vents r) =
        match lookup i (vents v1), lookup i (vents v2) with
        | Some x, Some y => Some (sub S x y) | Some x, None => Some x
        | None, Some y => Some (opp S y) | None, None => None end
  else subvec v1 v2 = ErrDim.
Proof.
  intros v1 v2 [S1 B1] [S2 B2]. unfold subvec. destruct (Nat.eqb_spec (vdim v1) (vdim v2)) as [E|Ne]; auto.
  eexists. split; [reflexivity|]. cbn [vdim vents]. split; auto. split.
  - split; cbn [vdim vents].
    + apply (gen_sorted merge_sub (sub S) (opp S) merge_sub_nil_l merge_sub_nil_r merge_sub_eq); auto.
    + apply (gen_bounded merge_sub (sub S) (opp S) merge_sub_nil_l merge_sub_nil_r merge_sub_eq); auto.
      rewrite E. auto.
  - intros i. apply merge_sub_lookup; auto.
Qed.

(** ** ScaleVec *)
Theorem scalevec_spec : forall (a : S) (v : vec S), WFv v ->
  vdim (scalevec a v) = vdim v /\ WFv (scalevec a v) /\
  forall i, lookup i (vents (scalevec a v)) =
    if eqb S a (zero S) then None
    else if eqb S a (one S) then lookup i (vents v)
    else match lookup i (vents v) with
         | Some x => if nz (mul S x a) then Some (mul S x a) else None
         | None => None
         end.
Proof.
  intros a v [Hs Hb]. unfold scalevec.
  destruct (eqb S a (zero S)); [|destruct (eqb S a (one S))]; cbn [vdim vents].
  - repeat split; constructor.
  - repeat split; auto.
  - assert (Hs' : sorted (map (fun e : entry => (fst e, mul S (snd e) a)) (vents v))).
    { apply (sorted_map_val (fun e => mul S (snd e) a)). auto. }
    repeat split.
    + unfold scale_entries. apply sorted_filter. auto.
    + unfold scale_entries. apply bounded_filter. apply (bounded_map_val _ (fun e => mul S (snd e) a)). auto.
    + intros i. unfold scale_entries. rewrite lookup_filter_sorted; auto.
      rewrite (lookup_map_val (fun e => mul S (snd e) a)). destruct (lookup i (vents v)); reflexivity.
Qed.

(** ** VecDot: the compensated sum of the IEEE products of the matching
    entries, in increasing index order *)
Fixpoint common_prods (l1 : list entry) : list entry -> list S :=
  fix inner (l2 : list entry) : list S :=
  match l1, l2 with
  | [], _ => []
  | _, [] => []
  | (i1, x1) :: t1, (i2, x2) :: t2 =>
      if i1 <? i2 then common_prods t1 l2
      else if i2 <? i1 then inner t2
      else mul S x1 x2 :: common_prods t1 t2
  end.

Lemma common_prods_eq : forall i1 (x1 : S) t1 i2 x2 t2,
  common_prods ((i1, x1) :: t1) ((i2, x2) :: t2) =
  if i1 <? i2 then common_prods t1 ((i2, x2) :: t2)
  else if i2 <? i1 then common_prods ((i1, x1) :: t1) t2
  else mul S x1 x2 :: common_prods t1 t2.
Proof. reflexivity. Qed.
Lemma common_prods_nil_r : forall l1 : list entry, common_prods l1 [] = [].
Proof. destruct l1 as [|[? ?] ?]; reflexivity. Qed.

Lemma vecdot_go_eq : forall i1 (x1 : S) t1 i2 x2 t2 k,
  vecdot_go ((i1, x1) :: t1) ((i2, x2) :: t2) k =
  if i2 <=? i1 then vecdot_go ((i1, x1) :: t1) t2 (if i1 =? i2 then kbn_add k (mul S x1 x2) else k)
  else vecdot_go t1 ((i2, x2) :: t2) k.
Proof. reflexivity. Qed.
Lemma vecdot_go_nil_l : forall (l2 : list entry) k, vecdot_go [] l2 k = k.
Proof. destruct l2; reflexivity. Qed.
Lemma vecdot_go_nil_r : forall (l1 : list entry) k, vecdot_go l1 [] k = k.
Proof. destruct l1 as [|[? ?] ?]; reflexivity. Qed.

Lemma vecdot_go_struct : forall (l1 l2 : list entry) k, sorted l1 -> sorted l2 ->
  vecdot_go l1 l2 k = fold_left kbn_add (common_prods l1 l2) k.
Proof.
  induction l1 as [|[i1 x1] t1 IH1]; intros l2 k H1 H2.
  - rewrite vecdot_go_nil_l. destruct l2; reflexivity.
  - revert k. induction l2 as [|[i2 x2] t2 IH2]; intros k.
    + rewrite vecdot_go_nil_r, common_prods_nil_r. reflexivity.
    + rewrite vecdot_go_eq, common_prods_eq.
      destruct (sorted_cons_inv _ _ _ H1) as [H1t H1lt]. destruct (sorted_cons_inv _ _ _ H2) as [H2t H2lt].
      destruct (Nat.ltb_spec i1 i2) as [L|G].
      * destruct (Nat.leb_spec i2 i1); [lia|]. apply IH1; auto.
      * destruct (Nat.leb_spec i2 i1); [|lia].
        destruct (Nat.ltb_spec i2 i1) as [L2|G2].
        -- destruct (Nat.eqb_spec i1 i2); [lia|]. apply IH2; auto.
        -- assert (i1 = i2) by lia. subst i2. rewrite Nat.eqb_refl.
           (* after the match, e2 advances; the next e2 (if any) is beyond i1, so the
              outer loop advances e1 *)
           rewrite IH2; auto. cbn [fold_left]. f_equal.
           destruct t2 as [|[j y] t2']; [rewrite !common_prods_nil_r; reflexivity|].
           rewrite common_prods_eq.
           assert (i1 < j). { apply H2lt. left; reflexivity. }
           destruct (Nat.ltb_spec i1 j); [reflexivity|lia].
Qed.

Theorem vecdot_struct : forall v1 v2 : vec S, WFv v1 -> WFv v2 ->
  vecdot v1 v2 = kbn_total (common_prods (vents v1) (vents v2)).
Proof.
  intros v1 v2 [S1 _] [S2 _]. unfold vecdot, kbn_total. rewrite vecdot_go_struct; auto.
Qed.

(** the products are exactly those of the matching entries: for each entry of
    the first operand, in index order, its IEEE product with the second
    operand's entry at the same index, if there is one *)
Definition matching_prods (l1 l2 : list entry) : list S :=
  flat_map (fun e => match lookup (fst e) l2 with Some y => [mul S (snd e) y] | None => [] end) l1.

Lemma matching_prods_cons : forall i1 (x1 : S) t1 l2,
  matching_prods ((i1, x1) :: t1) l2 =
  (match lookup i1 l2 with Some y => [mul S x1 y] | None => [] end) ++ matching_prods t1 l2.
Proof. reflexivity. Qed.

Lemma matching_prods_skip : forall (t1 : list entry) i2 (x2 : S) t2,
  (forall k, In k (map fst t1) -> k <> i2) ->
  matching_prods t1 ((i2, x2) :: t2) = matching_prods t1 t2.
Proof.
  induction t1 as [|[k x] t1 IH]; intros i2 x2 t2 Hne; auto.
  rewrite !matching_prods_cons. rewrite IH; [|intros k' Hk'; apply Hne; right; auto].
  rewrite lookup_cons. destruct (Nat.eqb_spec k i2) as [->|Ne]; auto. exfalso. apply (Hne i2); auto. left; reflexivity.
Qed.

Lemma common_prods_dense : forall (l1 l2 : list entry), sorted l1 -> sorted l2 ->
  common_prods l1 l2 = matching_prods l1 l2.
Proof.
  induction l1 as [|[i1 x1] t1 IH1]; intros l2 H1 H2.
  - destruct l2; reflexivity.
  - induction l2 as [|[i2 x2] t2 IH2].
    + rewrite common_prods_nil_r. unfold matching_prods. simpl.
      clear. induction t1 as [|[? ?] ? IH]; simpl; auto.
    + rewrite common_prods_eq.
      destruct (sorted_cons_inv _ _ _ H1) as [H1t H1lt]. destruct (sorted_cons_inv _ _ _ H2) as [H2t H2lt].
      rewrite matching_prods_cons.
      destruct (Nat.ltb_spec i1 i2) as [L|G].
      * rewrite (lookup_lt_none ((i2, x2) :: t2) i1).
        -- simpl. apply IH1; auto.
        -- intros j [<-|Hj]; simpl; auto. apply H2lt in Hj. lia.
      * destruct (Nat.ltb_spec i2 i1) as [L2|G2].
        -- rewrite IH2; auto. rewrite lookup_cons. destruct (Nat.eqb_spec i1 i2); [lia|].
           rewrite matching_prods_skip; [reflexivity|]. intros k Hk. apply H1lt in Hk. lia.
        -- assert (i1 = i2) by lia. subst i2. rewrite lookup_cons, Nat.eqb_refl. simpl. f_equal.
           rewrite IH1; auto. rewrite matching_prods_skip; [reflexivity|]. intros k Hk. apply H1lt in Hk. lia.
Qed.

(** symmetry, given a commutative product *)
Lemma common_prods_sym : forall (l1 l2 : list entry),
  (forall x y : S, mul S x y = mul S y x) -> common_prods l1 l2 = common_prods l2 l1.
Proof.
  intros l1 l2 Hc. revert l2. induction l1 as [|[i1 x1] t1 IH1]; intros l2.
  - rewrite common_prods_nil_r. destruct l2; reflexivity.
  - induction l2 as [|[i2 x2] t2 IH2].
    + rewrite common_prods_nil_r. reflexivity.
    + rewrite !common_prods_eq.
      destruct (Nat.ltb_spec i1 i2); destruct (Nat.ltb_spec i2 i1); try lia; auto.
      rewrite Hc. f_equal. apply IH1.
Qed.

Theorem vecdot_sym : forall v1 v2 : vec S, (forall x y : S, mul S x y = mul S y x) ->
  WFv v1 -> WFv v2 -> vecdot v1 v2 = vecdot v2 v1.
Proof.
  intros v1 v2 Hc W1 W2. rewrite !vecdot_struct; auto. f_equal. apply common_prods_sym; auto.
Qed.

(** ** MulVec (sequential specification) *)
Lemma lookup_rows_map : forall (f : nat -> S) n i,
  lookup i (map (fun r => (r, f r)) (seq 0 n)) = if i <? n then Some (f i) else None.
Proof.
  intros f n i.
  assert (H : forall s, lookup i (map (fun r => (r, f r)) (seq s n)) = if (s <=? i) && (i <? s + n) then Some (f i) else None).
  { induction n as [|n IH]; intros s; simpl.
    - destruct (Nat.leb_spec s i); destruct (Nat.ltb_spec i (s + 0)); simpl; auto; lia.
    - destruct (Nat.eqb_spec i s) as [->|Ne].
      + rewrite Nat.leb_refl. destruct (Nat.ltb_spec s (s + Datatypes.S n)); [reflexivity|lia].
      + rewrite IH. destruct (Nat.leb_spec (Datatypes.S s) i); destruct (Nat.leb_spec s i);
          destruct (Nat.ltb_spec i (Datatypes.S s + n)); destruct (Nat.ltb_spec i (s + Datatypes.S n)); simpl; auto; lia. }
  rewrite H. simpl. reflexivity.
Qed.

Lemma sorted_rows_map : forall (f : nat -> S) s n, sorted (map (fun r => (r, f r)) (seq s n)).
Proof.
  intros f s n. unfold sorted. rewrite map_map. simpl. rewrite map_id.
  revert s. induction n as [|n IH]; intros s; simpl; constructor; auto.
  apply Forall_forall. intros x Hx. apply in_seq in Hx. lia.
Qed.

Theorem mulvec_spec : forall (m : csm S) (v1 : vec S),
  match mulvec m v1 with
  | Ok r => major m = minor m /\ major m = vdim v1 /\ vdim r = major m /\ WFv r /\
            forall i, lookup i (vents r) =
              if i <? major m
              then (if nz (vecdot (row_vec m i) v1) then Some (vecdot (row_vec m i) v1) else None)
              else None
  | ErrDim => major m <> minor m \/ major m <> vdim v1
  | _ => False
  end.
Proof.
  intros m v1. unfold mulvec, mdim. destruct (Nat.eqb_spec (major m) (minor m)) as [E|Ne]; cbn [rbind]; auto.
  destruct (Nat.eqb_spec (major m) (vdim v1)) as [E2|Ne2]; auto.
  cbn [vdim vents]. repeat split; auto.
  - apply sorted_filter. apply sorted_rows_map.
  - cbn [vdim vents]. apply bounded_filter. unfold bounded. apply Forall_forall. intros x Hx.
    apply in_map_iff in Hx. destruct Hx as [r [<- Hr]]. apply in_seq in Hr. simpl. lia.
  - intros i. rewrite lookup_filter_sorted; [|apply sorted_rows_map]. rewrite lookup_rows_map.
    destruct (i <? major m); reflexivity.
Qed.

(** ** the arrival order of the workers' results is irrelevant (C06) *)
Lemma lookup_perm_map : forall (f : nat -> S) (pi : list nat) n i, Permutation pi (seq 0 n) ->
  lookup i (map (fun r => (r, f r)) pi) = if i <? n then Some (f i) else None.
Proof.
  intros f pi n i HP.
  assert (Hnd : NoDup (map fst (map (fun r => (r, f r)) pi))).
  { rewrite map_map. simpl. rewrite map_id. eapply Permutation_NoDup; [apply Permutation_sym, HP|apply seq_NoDup]. }
  rewrite <- lookup_rows_map.
  apply lookup_perm_nodup; auto. apply Permutation_map; auto.
Qed.

(** ** C06: the order in which the collector receives the workers' results
    does not matter — sorting any arrival order gives the sequential product *)
Theorem mulvec_arrival_independent : forall (m : csm S) (v1 r : vec S) (pi : list nat),
  mulvec m v1 = Ok r -> Permutation pi (seq 0 (major m)) ->
  mulvec_arrival m v1 pi = vents r.
Proof.
  intros m v1 r pi H HP. unfold mulvec, mdim in H.
  destruct (Nat.eqb_spec (major m) (minor m)) as [E|Ne]; cbn [rbind] in H; [|discriminate].
  destruct (Nat.eqb_spec (major m) (vdim v1)) as [E2|Ne2]; [|discriminate].
  inversion H; subst r. cbn [vents]. unfold mulvec_arrival.
  set (f := fun r0 : nat => (r0, vecdot (row_vec m r0) v1)).
  set (g := fun e : entry => nz (snd e)).
  symmetry. apply sort_unique.
  - assert (Hnd : NoDup (map fst (map f pi))).
    { rewrite map_map. unfold f. cbn [fst]. rewrite map_id. eapply Permutation_NoDup; [apply Permutation_sym, HP|apply seq_NoDup]. }
    clear -Hnd. induction (map f pi) as [|a l IH]; simpl; [constructor|].
    inversion Hnd as [|? ? Hn Hnd']; subst. destruct (g a); simpl; auto.
    constructor; auto. intros Hin. apply Hn. apply in_map_iff in Hin. destruct Hin as [x [Hx Hf]].
    apply filter_In in Hf. apply in_map_iff. exists x. tauto.
  - assert (HPm : Permutation (map f pi) (map f (seq 0 (major m)))) by (apply Permutation_map; auto).
    clear -HPm. induction HPm as [|x l l' HPm IH|x y l|l l' l'' H1 IH1 H2 IH2]; simpl; auto.
    + destruct (g x); auto.
    + destruct (g x), (g y); auto. apply perm_swap.
    + eapply perm_trans; eauto.
  - apply sorted_filter. unfold f. apply (sorted_rows_map (fun r0 => vecdot (row_vec m r0) v1)).
Qed.

Lemma mulvec_shape : forall (m : csm S) (v1 r : vec S), mulvec m v1 = Ok r -> vdim r = major m /\ WFv r.
Proof.
  intros m v1 r H. pose proof (mulvec_spec m v1) as Hs. rewrite H in Hs.
  destruct Hs as (_ & _ & Hd & W & _). split; assumption.
Qed.

End Vector.

(** * The translated float64 kernels are the model's.

    [Generated/KbnGen.v] is produced on every run by the harness's Go-to-Gallina
    translator (harness/translate.go) from /repo/pkg/sparse/util.go: the bodies of
    [KBNSummer.Add] and [KBNSummer.Sum], statement by statement, and from
    /repo/pkg/basic/eigentrust.go the body of [Canonicalize].  The lemmas below
    identify that rendering with the hand-written [kbn_add] / [kbn_sum] that every
    theorem about sums, dot products and canonicalisation is stated over, for every
    scalar instance.  A change of the arithmetic in the source changes the generated
    file and these proofs no longer go through. *)
From Coq Require Import Bool.
From Coq Require Import List.
From ET Require Import Model.Scalar Model.Sparse Model.Basic Generated.KbnGen.

Lemma kbn_translated_ok : kbn_translated = true.
Proof. reflexivity. Qed.

Lemma gen_kbn_add_is_model : forall (S : ScalarOps) (k : kbn S) (v : S),
  gen_kbn_add (ksum k) (kcomp k) v = (ksum (kbn_add k v), kcomp (kbn_add k v)).
Proof.
  intros. unfold gen_kbn_add, kbn_add. cbv zeta. cbn [ksum kcomp].
  destruct (ltb S _ _); reflexivity.
Qed.

Lemma gen_kbn_sum_is_model : forall (S : ScalarOps) (k : kbn S),
  gen_kbn_sum (ksum k) (kcomp k) = kbn_sum k.
Proof. reflexivity. Qed.

(** summing a whole list with the translated step and the translated read-out *)
Definition gen_kbn_total {S : ScalarOps} (l : list S) : S :=
  let r := List.fold_left (fun k v => gen_kbn_add (fst k) (snd k) v) l (zero S, zero S) in
  gen_kbn_sum (fst r) (snd r).

Lemma gen_kbn_total_is_model : forall (S : ScalarOps) (l : list S), gen_kbn_total l = kbn_total l.
Proof.
  intros S l. unfold gen_kbn_total, kbn_total.
  assert (H : forall k : kbn S,
    List.fold_left (fun k v => gen_kbn_add (fst k) (snd k) v) l (ksum k, kcomp k) =
    (ksum (List.fold_left kbn_add l k), kcomp (List.fold_left kbn_add l k))).
  { induction l as [|v t IH]; intros k; [reflexivity|]. cbn [List.fold_left fst snd].
    rewrite gen_kbn_add_is_model. apply IH. }
  change (zero S, zero S) with (ksum (@kbn0 S), kcomp (@kbn0 S)). rewrite H. cbn [fst snd].
  apply gen_kbn_sum_is_model.
Qed.

(** ** basic.Canonicalize *)
Lemma canon_translated_ok : canon_translated = true.
Proof. reflexivity. Qed.

Lemma fold_gen_is_model : forall (S : ScalarOps) (l : list (nat * S)) (k : kbn S),
  List.fold_left (fun st entry => gen_kbn_add (fst st) (snd st) (snd entry)) l (ksum k, kcomp k) =
  (ksum (List.fold_left kbn_add (map snd l) k), kcomp (List.fold_left kbn_add (map snd l) k)).
Proof.
  intros S l. induction l as [|e t IH]; intros k; [reflexivity|]. cbn [List.fold_left map fst snd].
  rewrite gen_kbn_add_is_model. apply IH.
Qed.

Lemma gen_canon_is_model : forall (S : ScalarOps) (l : list (nat * S)), gen_canon l = canon l.
Proof.
  intros S l. unfold gen_canon, canon, kbn_total.
  change (zero S, zero S) with (ksum (@kbn0 S), kcomp (@kbn0 S)). rewrite fold_gen_is_model.
  cbv zeta. rewrite gen_kbn_sum_is_model. reflexivity.
Qed.

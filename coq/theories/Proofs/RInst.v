(** * The real-number instance [RR] and the exactness theorems of the sparse algebra.

    Over [R] the compensated summation is exact and every sparse operation is
    the dense operation on the denotation.  These are the statements the
    analytic theorems (C01, C02, C04, C05, C08) build on. *)
From Coq Require Import List Arith Bool Lia Reals Lra Sorted Permutation.
From ET Require Import Model.Scalar Model.Sparse Proofs.SparseBase Proofs.MergeProofs Proofs.VectorProofs.
Import ListNotations.
Local Open Scope R_scope.

Definition Reqb (x y : R) : bool := if Req_EM_T x y then true else false.
Definition Rltb (x y : R) : bool := if Rlt_dec x y then true else false.
Definition Rleb (x y : R) : bool := if Rle_dec x y then true else false.

Definition RR : ScalarOps := {|
  T := R; zero := 0; one := 1;
  add := Rplus; sub := Rminus; mul := Rmult; div := Rdiv;
  opp := Ropp; sabs := Rabs; ssqrt := sqrt;
  eqb := Reqb; ltb := Rltb; leb := Rleb;
  of_nat := INR; nonfinite := fun _ => false |}.

Notation rentry := (nat * T RR)%type.

Lemma Reqb_true : forall x y, Reqb x y = true <-> x = y.
Proof. intros. unfold Reqb. destruct (Req_EM_T x y); split; auto; discriminate. Qed.
Lemma Reqb_false : forall x y, Reqb x y = false <-> x <> y.
Proof. intros. unfold Reqb. destruct (Req_EM_T x y); split; auto; try discriminate; contradiction. Qed.
Lemma Rltb_true : forall x y, Rltb x y = true <-> x < y.
Proof. intros. unfold Rltb. destruct (Rlt_dec x y); split; auto; discriminate. Qed.
Lemma Rleb_true : forall x y, Rleb x y = true <-> x <= y.
Proof. intros. unfold Rleb. destruct (Rle_dec x y); split; auto; discriminate. Qed.
Lemma Rleb_false : forall x y, Rleb x y = false <-> y < x.
Proof. intros. unfold Rleb. destruct (Rle_dec x y); split; intros; try discriminate; try lra; auto. Qed.
Lemma Rltb_false : forall x y, Rltb x y = false <-> y <= x.
Proof. intros. unfold Rltb. destruct (Rlt_dec x y); split; intros; try discriminate; try lra; auto. Qed.

Lemma nz_R : forall x : RR, nz x = true <-> x <> 0.
Proof. intros. unfold nz. cbn. rewrite negb_true_iff. apply Reqb_false. Qed.
Lemma nz_R_false : forall x : RR, nz x = false <-> x = 0.
Proof. intros. unfold nz. cbn. rewrite negb_false_iff. apply Reqb_true. Qed.

(** ** sums *)
Definition lsum (l : list R) : R := fold_right Rplus 0 l.
Definition rsum (f : nat -> R) (n : nat) : R := lsum (map f (seq 0 n)).

Lemma lsum_app : forall l1 l2, lsum (l1 ++ l2) = lsum l1 + lsum l2.
Proof. induction l1 as [|a t IH]; intros; simpl; [lra|rewrite IH; lra]. Qed.

Lemma rsum_S : forall f n, rsum f (S n) = rsum f n + f n.
Proof.
  intros. unfold rsum. rewrite seq_S, map_app, lsum_app. simpl. lra.
Qed.
Lemma rsum_0 : forall f, rsum f 0 = 0.
Proof. reflexivity. Qed.

Lemma rsum_ext : forall f g n, (forall i, (i < n)%nat -> f i = g i) -> rsum f n = rsum g n.
Proof.
  induction n as [|n IH]; intros H; auto. rewrite !rsum_S. rewrite IH; auto. rewrite H; auto.
Qed.
Lemma rsum_plus : forall f g n, rsum (fun i => f i + g i) n = rsum f n + rsum g n.
Proof. induction n as [|n IH]; [unfold rsum; simpl; lra|rewrite !rsum_S, IH; lra]. Qed.
Lemma rsum_scal : forall c f n, rsum (fun i => c * f i) n = c * rsum f n.
Proof. induction n as [|n IH]; [unfold rsum; simpl; lra|rewrite !rsum_S, IH; lra]. Qed.
Lemma rsum_zero : forall n, rsum (fun _ => 0) n = 0.
Proof. induction n as [|n IH]; [reflexivity|rewrite rsum_S, IH; lra]. Qed.
Lemma rsum_le : forall f g n, (forall i, (i < n)%nat -> f i <= g i) -> rsum f n <= rsum g n.
Proof.
  induction n as [|n IH]; intros H; [unfold rsum; simpl; lra|]. rewrite !rsum_S.
  assert (rsum f n <= rsum g n) by (apply IH; auto). assert (f n <= g n) by (apply H; lia). lra.
Qed.
Lemma rsum_nonneg : forall f n, (forall i, (i < n)%nat -> 0 <= f i) -> 0 <= rsum f n.
Proof. intros. rewrite <- (rsum_zero n). apply rsum_le; auto. Qed.
Lemma rsum_abs : forall f n, Rabs (rsum f n) <= rsum (fun i => Rabs (f i)) n.
Proof.
  induction n as [|n IH]; [unfold rsum; simpl; rewrite Rabs_R0; lra|]. rewrite !rsum_S.
  eapply Rle_trans; [apply Rabs_triang|]. lra.
Qed.
(** exchange of two finite sums *)
Lemma rsum_swap : forall (f : nat -> nat -> R) n m,
  rsum (fun i => rsum (fun j => f i j) m) n = rsum (fun j => rsum (fun i => f i j) n) m.
Proof.
  induction n as [|n IH]; intros m.
  - unfold rsum at 1. simpl. symmetry. rewrite (rsum_ext _ (fun _ => 0)); [apply rsum_zero|reflexivity].
  - rewrite rsum_S, IH. rewrite <- rsum_plus. apply rsum_ext. intros j _. rewrite rsum_S. reflexivity.
Qed.
(** a sum with a single non-zero term *)
Lemma rsum_single : forall (f : nat -> R) n k, (k < n)%nat -> (forall i, (i < n)%nat -> i <> k -> f i = 0) -> rsum f n = f k.
Proof.
  induction n as [|n IH]; intros k Hk H; [lia|]. rewrite rsum_S.
  destruct (Nat.eq_dec k n) as [->|Ne].
  - rewrite (rsum_ext f (fun _ => 0)); [rewrite rsum_zero; lra|]. intros i Hi. apply H; lia.
  - rewrite (IH k); [|lia|intros; apply H; lia]. rewrite (H n); [lra|lia|lia].
Qed.

(** ** KBN summation is exact over R *)
Lemma kbn_add_exact : forall (s : kbn RR) (v : RR),
  ksum (kbn_add s v) + kcomp (kbn_add s v) = ksum s + kcomp s + v.
Proof.
  intros [a c] v. unfold kbn_add. cbn. destruct (Rltb (Rabs a) (Rabs v)); lra.
Qed.
Lemma kbn_fold_exact : forall (l : list RR) (s : kbn RR),
  kbn_sum (fold_left kbn_add l s) = ksum s + kcomp s + lsum l.
Proof.
  induction l as [|x l IH]; intros s; cbn [fold_left lsum fold_right].
  - unfold kbn_sum. cbn. lra.
  - rewrite IH. pose proof (kbn_add_exact s x). unfold lsum. lra.
Qed.
Theorem kbn_total_exact : forall l : list RR, kbn_total l = lsum l.
Proof. intros l. unfold kbn_total. rewrite kbn_fold_exact. cbn. lra. Qed.

(** ** dense denotation *)
Definition dv (v : vec RR) (i : nat) : R := den (vents v) i.

Lemma den_none : forall (l : list rentry) i, lookup i l = None -> den l i = 0.
Proof. intros. unfold den. rewrite H. reflexivity. Qed.
Lemma den_some : forall (l : list rentry) i x, lookup i l = Some x -> den l i = x.
Proof. intros. unfold den. rewrite H. reflexivity. Qed.

Lemma den_out_of_range : forall (l : list rentry) d i, bounded d l -> (d <= i)%nat -> den l i = 0.
Proof.
  intros l d i Hb Hi. apply den_none. destruct (lookup i l) eqn:E; auto.
  pose proof (bounded_lookup _ _ _ _ Hb E). lia.
Qed.

(** sum of a sparse span against any dense weight *)
Lemma sparse_sum : forall (l : list rentry) (g : nat -> R) d, sorted l -> bounded d l ->
  rsum (fun i => den l i * g i) d = lsum (map (fun e => snd e * g (fst e)) l).
Proof.
  induction l as [|[j x] t IH]; intros g d Hs Hb.
  - simpl. rewrite (rsum_ext _ (fun _ => 0)); [apply rsum_zero|]. intros. unfold den. simpl. lra.
  - destruct (sorted_cons_inv _ _ _ Hs) as [Hst Hlt]. inversion Hb as [|? ? Hj Hbt]; subst. simpl in Hj.
    cbn [map lsum fold_right fst snd].
    rewrite (rsum_ext _ (fun i => (if i =? j then x else 0) * g i + den t i * g i)).
    + rewrite rsum_plus. rewrite IH; auto. f_equal.
      rewrite (rsum_single _ d j); auto.
      * rewrite Nat.eqb_refl. reflexivity.
      * intros i _ Hne. destruct (Nat.eqb_spec i j); [contradiction|lra].
    + intros i _. rewrite den_cons. destruct (Nat.eqb_spec i j) as [->|Ne]; [|lra].
      rewrite (den_none t j); [lra|]. apply lookup_lt_none; auto.
Qed.

Theorem vsum_exact : forall v : vec RR, WFv v -> vsum v = rsum (dv v) (vdim v).
Proof.
  intros v [Hs Hb]. unfold vsum. rewrite kbn_total_exact.
  rewrite (rsum_ext (dv v) (fun i => den (vents v) i * 1)); [|intros; unfold dv; lra].
  rewrite (sparse_sum (vents v) (fun _ => 1) (vdim v)); auto. f_equal.
  clear. induction (vents v) as [|[? ?] ? IH]; simpl; auto. f_equal; auto. lra.
Qed.

Theorem addvec_exact : forall v1 v2 r : vec RR, WFv v1 -> WFv v2 -> addvec v1 v2 = Ok r ->
  forall i, dv r i = dv v1 i + dv v2 i.
Proof.
  intros v1 v2 r W1 W2 H i. pose proof (addvec_spec v1 v2 W1 W2) as Hs.
  destruct (vdim v1 =? vdim v2); [|rewrite H in Hs; discriminate].
  destruct Hs as (r' & Hr & _ & _ & Hl). rewrite H in Hr. inversion Hr; subst r'.
  unfold dv, den. rewrite Hl. destruct (lookup i (vents v1)), (lookup i (vents v2)); cbn; lra.
Qed.

Theorem subvec_exact : forall v1 v2 r : vec RR, WFv v1 -> WFv v2 -> subvec v1 v2 = Ok r ->
  forall i, dv r i = dv v1 i - dv v2 i.
Proof.
  intros v1 v2 r W1 W2 H i. pose proof (subvec_spec v1 v2 W1 W2) as Hs.
  destruct (vdim v1 =? vdim v2); [|rewrite H in Hs; discriminate].
  destruct Hs as (r' & Hr & _ & _ & Hl). rewrite H in Hr. inversion Hr; subst r'.
  unfold dv, den. rewrite Hl. destruct (lookup i (vents v1)), (lookup i (vents v2)); cbn; lra.
Qed.

Theorem scalevec_exact : forall (a : RR) (v : vec RR), WFv v -> forall i, dv (scalevec a v) i = a * dv v i.
Proof.
  intros a v W i. destruct (scalevec_spec a v W) as (_ & _ & Hl). unfold dv, den. rewrite Hl. cbn [eqb RR zero one].
  destruct (Reqb a 0) eqn:E0; [apply Reqb_true in E0; subst; lra|].
  destruct (Reqb a 1) eqn:E1; [apply Reqb_true in E1; subst; destruct (lookup i (vents v)); lra|].
  destruct (lookup i (vents v)) as [x|]; [|lra].
  destruct (nz (mul RR x a)) eqn:En.
  - cbn. lra.
  - apply nz_R_false in En. cbn in En. lra.
Qed.

Lemma lsum_matching : forall (l1 l2 : list rentry),
  lsum (matching_prods l1 l2) = lsum (map (fun e => snd e * den l2 (fst e)) l1).
Proof.
  induction l1 as [|[j x] t IH]; intros l2; [reflexivity|].
  rewrite matching_prods_cons, lsum_app, IH. cbn [map lsum fold_right fst snd].
  unfold den. destruct (lookup j l2); cbn; unfold lsum; lra.
Qed.

Theorem vecdot_exact : forall v1 v2 : vec RR, WFv v1 -> WFv v2 -> vdim v1 = vdim v2 ->
  vecdot v1 v2 = rsum (fun i => dv v1 i * dv v2 i) (vdim v1).
Proof.
  intros v1 v2 W1 W2 Hd. rewrite vecdot_struct; auto. destruct W1 as [S1 B1], W2 as [S2 B2].
  rewrite kbn_total_exact, common_prods_dense; auto.
  unfold dv. rewrite (sparse_sum (vents v1) (den (vents v2)) (vdim v1)); auto.
  apply lsum_matching.
Qed.

Theorem norm2_exact : forall v : vec RR, WFv v -> norm2 v = sqrt (rsum (fun i => dv v i * dv v i) (vdim v)).
Proof.
  intros v [Hs Hb]. unfold norm2. cbn [ssqrt RR]. f_equal. rewrite kbn_total_exact.
  unfold dv. rewrite (sparse_sum (vents v) (den (vents v)) (vdim v)); auto. f_equal.
  assert (H : forall l : list rentry, sorted l ->
            map (fun e => mul RR (snd e) (snd e)) l = map (fun e => snd e * den l (fst e)) l).
  { induction l as [|[j x] t IH]; intros Hs'; [reflexivity|]. cbn [map fst snd].
    destruct (sorted_cons_inv _ _ _ Hs') as [Hst Hlt]. f_equal.
    - rewrite den_cons, Nat.eqb_refl. reflexivity.
    - rewrite IH; auto. apply map_ext_in. intros [k y] Hin. cbn [fst snd]. rewrite den_cons.
      destruct (Nat.eqb_spec k j) as [->|]; auto.
      assert (j < j)%nat by (apply Hlt; apply in_map_iff; exists (j, y); auto). lia. }
  apply H; auto.
Qed.

(** matrix-vector product = dense product *)
Definition dm (m : csm RR) (r c : nat) : R := den (row m r) c.

Theorem mulvec_exact : forall (m : csm RR) (v r : vec RR), WFm m -> WFv v -> mulvec m v = Ok r ->
  vdim r = major m /\ WFv r /\
  forall i, (i < major m)%nat -> dv r i = rsum (fun c => dm m i c * dv v c) (major m).
Proof.
  intros m v r Wm Wv H. pose proof (mulvec_spec m v) as Hs. rewrite H in Hs.
  destruct Hs as (Hsq & Hdim & Hrd & Wr & Hl). split; [exact Hrd|split; [exact Wr|]].
  intros i Hi. unfold dv at 1. unfold den. rewrite Hl. destruct (Nat.ltb_spec i (major m)); [|lia].
  assert (Hdot : vecdot (row_vec m i) v = rsum (fun c => dm m i c * dv v c) (major m)).
  { assert (Wrow : WFv (row_vec m i)) by (destruct (WFm_row m i Wm); split; auto).
    assert (Hdd : vdim (row_vec m i) = vdim v) by (unfold row_vec; cbn [vdim]; lia).
    rewrite (vecdot_exact _ _ Wrow Wv Hdd).
    unfold row_vec, dv, dm. cbn [vdim vents]. rewrite <- Hsq. reflexivity. }
  destruct (nz (vecdot (row_vec m i) v)) eqn:En; [exact Hdot|].
  apply nz_R_false in En. rewrite <- Hdot, En. reflexivity.
Qed.

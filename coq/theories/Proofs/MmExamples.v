(** * C12: non-vacuity of the hypotheses of the swap-out theorems on a concrete history. *)
From Coq Require Import List Arith Bool Floats.
From ET Require Import Model.Scalar Model.Sparse Model.Mm Proofs.MmProofs.
Import ListNotations.

Definition ex_c : csm F64 :=
  @Build_csm F64 3 3 [[(0, 1%float : T F64); (2, 4%float : T F64)]; []; [(1, 5%float : T F64)]].
Definition ex_c2 : csm F64 := @Build_csm F64 2 4 [[(3, 2%float : T F64)]; [(0, 7%float : T F64)]].

(** new, swap out, a cancelled re-swap, merge a second matrix in (row 0 becomes a heap span: dirty),
    swap out again (remap, the old mapping is released), truncate, swap in *)
Definition ex_ops : list (@op F64) :=
  [ONew ex_c; OMmap 0 NoFault; OMmap 0 (CancelAtRow 1); ONew ex_c2; OMmap 3 CreateTempFails;
   OMerge 0 3; OMmap 0 (CancelAtRow 0); OMmap 0 NoFault; OSetMinor 0 3; OTranspose 0; ODrop 3].

Definition places (m : @mat F64) := map (fun rw => r_place rw) (m_rows m).

Example ex_after_first_swapout :
  let s := run (firstn 2 ex_ops) in
  live s = [2] /\ files s = [] /\ option_map places (get (mats s) 0) = Some [Mapped 2 0 2; Heap; Mapped 2 2 1].
Proof. vm_compute. repeat split. Qed.

Example ex_cancelled_remap_is_a_real_failure :
  let s := run (firstn 6 ex_ops) in
  match get (mats s) 0 with
  | Some m => dirty m 2 = true /\ snd (mmap_op s m (CancelAtRow 0)) = false /\ snd (mmap_op s m NoFault) = true
  | None => False
  end.
Proof. vm_compute. repeat split. Qed.

Example ex_final :
  let s := run ex_ops in
  length (live s) = 1 /\ files s = [] /\ length (mats s) = 2 /\
  option_map places (get (mats s) 0) = Some [Mapped 7 0 3; Mapped 7 3 1; Mapped 7 4 1].
Proof. vm_compute. repeat split. Qed.

(** * Basic lemmas on sorted entry lists, [lookup] and the non-zero content [obs]. *)
From Coq Require Import List Arith Bool Lia Sorted Permutation.
From ET Require Import Model.Scalar Model.Sparse.
Import ListNotations.

Section Base.
Context {S : ScalarOps}.
Notation entry := (nat * T S)%type.

Definition sorted (l : list entry) : Prop := StronglySorted lt (map fst l).
Definition bounded (d : nat) (l : list entry) : Prop := Forall (fun e => fst e < d) l.
Definition WFv (v : vec S) : Prop := sorted (vents v) /\ bounded (vdim v) (vents v).
Definition WFrow (d : nat) (r : list entry) : Prop := sorted r /\ bounded d r.
Definition WFm (m : csm S) : Prop :=
  length (rows m) = major m /\ Forall (WFrow (minor m)) (rows m).

(** non-zero content of a span, as a partial map *)
Definition obs (l : list entry) (i : nat) : option S :=
  match lookup i l with
  | Some x => if nz x then Some x else None
  | None => None
  end.

Lemma sorted_nil : sorted [].
Proof. constructor. Qed.

Lemma sorted_tail : forall a l, sorted (a :: l) -> sorted l.
Proof. intros a l H; inversion H; auto. Qed.

Lemma sorted_head_lt : forall i x l j, sorted ((i, x) :: l) -> In j (map fst l) -> i < j.
Proof.
  intros i x l j H Hin. inversion H as [|? ? ? Hall]; subst.
  rewrite Forall_forall in Hall. auto.
Qed.

Lemma sorted_cons : forall i x l, sorted l -> (forall j, In j (map fst l) -> i < j) -> sorted ((i, x) :: l).
Proof.
  intros i x l Hs Hlt. constructor; auto. apply Forall_forall. auto.
Qed.

Lemma sorted_cons_inv : forall i x l, sorted ((i, x) :: l) -> sorted l /\ (forall j, In j (map fst l) -> i < j).
Proof.
  intros i x l H. split. eapply sorted_tail; eauto. intros j Hj. eapply sorted_head_lt; eauto.
Qed.

Lemma lookup_cons : forall i j (x : S) t, lookup i ((j, x) :: t) = if i =? j then Some x else lookup i t.
Proof. reflexivity. Qed.

Lemma lookup_none_notin : forall l i, ~ In i (map fst l) -> lookup (S:=S) i l = None.
Proof.
  induction l as [|[j x] t IH]; intros i Hn; simpl; auto.
  destruct (Nat.eqb_spec i j) as [->|Hne].
  - exfalso. apply Hn. left; reflexivity.
  - apply IH. intros Hin. apply Hn. right; auto.
Qed.

Lemma lookup_some_in : forall l i x, lookup (S:=S) i l = Some x -> In (i, x) l.
Proof.
  induction l as [|[j y] t IH]; intros i x H; simpl in *; try discriminate.
  destruct (Nat.eqb_spec i j) as [->|Hne].
  - inversion H; subst. left; reflexivity.
  - right. auto.
Qed.

Lemma lookup_some_in_fst : forall l i x, lookup (S:=S) i l = Some x -> In i (map fst l).
Proof.
  intros l i x H. apply lookup_some_in in H. apply in_map_iff. exists (i, x). auto.
Qed.

Lemma lookup_lt_none : forall l i, (forall j, In j (map fst l) -> i < j) -> lookup (S:=S) i l = None.
Proof.
  intros l i H. apply lookup_none_notin. intros Hin. apply H in Hin. lia.
Qed.

Lemma lookup_in_sorted : forall l i x, sorted l -> In (i, x) l -> lookup i l = Some x.
Proof.
  induction l as [|[j y] t IH]; intros i x Hs Hin; simpl in *; [contradiction|].
  destruct Hin as [Heq|Hin].
  - inversion Heq; subst. rewrite Nat.eqb_refl. reflexivity.
  - destruct (Nat.eqb_spec i j) as [->|Hne].
    + exfalso. apply sorted_cons_inv in Hs. destruct Hs as [_ Hlt].
      assert (j < j). { apply Hlt. apply in_map_iff. exists (j, x). auto. } lia.
    + apply IH; auto. eapply sorted_tail; eauto.
Qed.

Lemma lookup_app : forall l1 l2 i, lookup (S:=S) i (l1 ++ l2) =
  match lookup i l1 with Some x => Some x | None => lookup i l2 end.
Proof.
  induction l1 as [|[j x] t IH]; intros l2 i; simpl; auto.
  destruct (i =? j); auto.
Qed.

Lemma den_cons : forall i j (x : S) t, den ((j, x) :: t) i = if i =? j then x else den t i.
Proof. intros. unfold den. rewrite lookup_cons. destruct (i =? j); reflexivity. Qed.

Lemma obs_nil : forall i, obs [] i = None.
Proof. reflexivity. Qed.

Lemma bounded_tail : forall d a l, bounded d (a :: l) -> bounded d l.
Proof. intros d a l H; inversion H; auto. Qed.

Lemma bounded_lookup : forall d l i x, bounded d l -> lookup (S:=S) i l = Some x -> i < d.
Proof.
  intros d l i x Hb Hl. apply lookup_some_in in Hl. unfold bounded in Hb.
  rewrite Forall_forall in Hb. apply (Hb (i, x)); auto.
Qed.

Lemma bounded_weaken : forall d d' l, d <= d' -> bounded d l -> bounded d' l.
Proof.
  intros d d' l Hle Hb. unfold bounded in *. eapply Forall_impl; [|exact Hb].
  intros a Ha; simpl in *. lia.
Qed.

(** [take_lt] on a sorted span is the restriction to indices below [d]. *)
Lemma take_lt_lookup : forall d l i, sorted l ->
  lookup i (take_lt d l) = if i <? d then lookup i l else None.
Proof.
  induction l as [|[j x] t IH]; intros i Hs; simpl.
  - destruct (i <? d); reflexivity.
  - destruct (Nat.ltb_spec j d) as [Hjd|Hjd]; simpl.
    + destruct (Nat.eqb_spec i j) as [->|Hne].
      * destruct (Nat.ltb_spec j d); [reflexivity|lia].
      * apply IH. eapply sorted_tail; eauto.
    + destruct (Nat.ltb_spec i d) as [Hid|Hid]; auto.
      destruct (Nat.eqb_spec i j) as [->|Hne]; [lia|].
      symmetry. apply lookup_lt_none. intros k Hk.
      pose proof (sorted_head_lt _ _ _ _ Hs Hk). lia.
Qed.

Lemma take_lt_sorted : forall d l, sorted l -> sorted (take_lt d l).
Proof.
  induction l as [|[j x] t IH]; intros Hs; simpl; [constructor|].
  destruct (j <? d); [|constructor].
  apply sorted_cons_inv in Hs. destruct Hs as [Hst Hlt].
  apply sorted_cons; auto. intros k Hk. apply Hlt.
  clear -Hk. induction t as [|[a b] t IH]; simpl in *; [contradiction|].
  destruct (a <? d); simpl in *; [|contradiction]. destruct Hk; auto.
Qed.

Lemma take_lt_bounded : forall d l, bounded d (take_lt d l).
Proof.
  induction l as [|[j x] t IH]; simpl; [constructor|].
  destruct (Nat.ltb_spec j d); constructor; auto.
Qed.

Lemma take_lt_id : forall d l, bounded d l -> take_lt d l = l.
Proof.
  induction l as [|[j x] t IH]; intros Hb; simpl; auto.
  inversion Hb; subst. simpl in *. destruct (Nat.ltb_spec j d); [|lia]. f_equal; auto.
Qed.

End Base.

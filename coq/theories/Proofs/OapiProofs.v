(** * C03 / C13 / C14: the OpenAPI pipeline and store against their specifications. *)
From Coq Require Import List Arith Bool ZArith Lia Sorted Permutation.
From ET Require Import Model.Scalar Model.Sparse Model.Basic Model.Oapi Proofs.SparseBase Proofs.MergeProofs
  Proofs.MatrixProofs Proofs.OapiSpec.
Import ListNotations.

Section Oapi.
Context {S : ScalarOps}.
Notation entry := (nat * T S)%type.

(** ** the store is a map from ids to matrices *)
Lemma st_get_del : forall (st : store S) id k, st_get (st_del st id) k = if k =? id then None else st_get st k.
Proof.
  induction st as [|[j m] t IH]; intros id k; simpl.
  - destruct (k =? id); reflexivity.
  - destruct (Nat.eqb_spec j id) as [->|Ne].
    + rewrite IH. destruct (Nat.eqb_spec k id) as [->|Ne']; auto. destruct (Nat.eqb_spec id k); [congruence|reflexivity].
    + simpl. rewrite IH. destruct (Nat.eqb_spec j k) as [->|]; auto.
      destruct (Nat.eqb_spec k id); [congruence|reflexivity].
Qed.

Lemma st_get_set : forall (st : store S) id m k, st_get (st_set st id m) k = if k =? id then Some m else st_get st k.
Proof.
  intros. unfold st_set. simpl. rewrite st_get_del. rewrite (Nat.eqb_sym id k). destruct (k =? id); reflexivity.
Qed.

(** the sequential map specification: the same requests on a function id -> option matrix *)
Definition mspec := nat -> option (csm S).
Definition mload (f : mspec) (r : mref S) : option (csm S) :=
  match r with MInline m => load_inline_mat m | MStored id => f id
  | MObject o => option_map (fun p => new_csr (fst p) (fst p) (snd p) false) o end.
Definition mupd (f : mspec) (id : nat) (v : option (csm S)) : mspec := fun k => if k =? id then v else f k.
Definition mspec_step (f : mspec) (r : sreq S) : mspec * sresp S :=
  match r with
  | SPut id body merge =>
      match mload f body with
      | None => (f, S400)
      | Some c =>
          match f id with
          | None => (mupd f id (Some c), S201)
          | Some old => if merge then (mupd f id (Some (fst (mmerge old c))), S200) else (mupd f id (Some c), S200)
          end
      end
  | SGet id => match f id with Some m => (f, SBody (major m) (mat_entries m)) | None => (f, S404) end
  | SHead id => match f id with Some _ => (f, S204) | None => (f, S404) end
  | SDelete id => match f id with Some _ => (mupd f id None, S204) | None => (f, S404) end
  end.

Definition abs_store (st : store S) : mspec := fun id => st_get st id.

Lemma load_abs : forall st r, load_mat st r = mload (abs_store st) r.
Proof. intros st [m|id|o]; reflexivity. Qed.

Theorem store_step_refines : forall (st : store S) (r : sreq S),
  snd (store_step st r) = snd (mspec_step (abs_store st) r) /\
  forall k, abs_store (fst (store_step st r)) k = fst (mspec_step (abs_store st) r) k.
Proof.
  intros st r. destruct r as [id body mg|id|id|id]; cbn [store_step mspec_step].
  - rewrite <- load_abs. destruct (load_mat st body) as [c|]; [|split; auto].
    change (abs_store st id) with (st_get st id). destruct (st_get st id) as [old|].
    + destruct mg; cbn [fst snd]; (split; [reflexivity|]); intros k; unfold abs_store, mupd; apply st_get_set.
    + cbn [fst snd]. split; [reflexivity|]. intros k; unfold abs_store, mupd; apply st_get_set.
  - change (abs_store st id) with (st_get st id). destruct (st_get st id); split; auto.
  - change (abs_store st id) with (st_get st id). destruct (st_get st id); split; auto.
  - change (abs_store st id) with (st_get st id). destruct (st_get st id); cbn [fst snd]; split; auto.
    intros k. unfold abs_store, mupd. apply st_get_del.
Qed.

(** for every finite request history the responses equal those of the sequential map *)
Fixpoint run_store (st : store S) (rs : list (sreq S)) : list (sresp S) :=
  match rs with [] => [] | r :: t => snd (store_step st r) :: run_store (fst (store_step st r)) t end.
Fixpoint run_mspec (f : mspec) (rs : list (sreq S)) : list (sresp S) :=
  match rs with [] => [] | r :: t => snd (mspec_step f r) :: run_mspec (fst (mspec_step f r)) t end.

Lemma mspec_step_ext : forall f g r, (forall k, f k = g k) ->
  snd (mspec_step f r) = snd (mspec_step g r) /\ forall k, fst (mspec_step f r) k = fst (mspec_step g r) k.
Proof.
  intros f g r He. destruct r as [id body mg|id|id|id]; cbn [mspec_step].
  - assert (Hl : mload f body = mload g body) by (destruct body; simpl; auto). rewrite Hl.
    destruct (mload g body) as [c|]; [|split; auto]. rewrite (He id).
    destruct (g id) as [old|]; [destruct mg|]; cbn [fst snd]; (split; [reflexivity|]); intros k; unfold mupd; destruct (k =? id); auto.
  - rewrite (He id). destruct (g id); split; auto.
  - rewrite (He id). destruct (g id); split; auto.
  - rewrite (He id). destruct (g id); cbn [fst snd]; split; auto. intros k; unfold mupd; destruct (k =? id); auto.
Qed.

Theorem store_refines_map : forall (rs : list (sreq S)) (st : store S) (f : mspec),
  (forall k, abs_store st k = f k) -> run_store st rs = run_mspec f rs.
Proof.
  induction rs as [|r rs IH]; intros st f He; cbn [run_store run_mspec]; auto.
  destruct (store_step_refines st r) as [H1 H2]. destruct (mspec_step_ext (abs_store st) f r He) as [H3 H4].
  f_equal; [congruence|]. apply IH. intros k. rewrite H2. apply H4.
Qed.

(** an invalid body is refused with 400 and the store is unchanged *)
Theorem put_invalid_unchanged : forall (st : store S) id body mg,
  load_mat st body = None -> store_step st (SPut id body mg) = (st, S400).
Proof. intros st id body mg H. cbn [store_step]. rewrite H. reflexivity. Qed.

Theorem invalid_inline_refused : forall (m : inline_mat S),
  (im_size m <= 0)%Z \/ (exists i j v, In (i, j, v) (im_entries m) /\ (i < 0 \/ im_size m <= i \/ j < 0 \/ im_size m <= j)%Z) ->
  load_inline_mat m = None.
Proof.
  intros m [Hs|(i & j & v & Hin & Hr)]; unfold load_inline_mat.
  - destruct (Z.leb_spec (im_size m) 0); [reflexivity|lia].
  - destruct (Z.leb_spec (im_size m) 0); [reflexivity|].
    destruct (forallb _ (im_entries m)) eqn:E; [|reflexivity]. exfalso.
    rewrite forallb_forall in E. specialize (E _ Hin). cbn in E.
    repeat (apply andb_true_iff in E; destruct E as [E ?]).
    apply Z.leb_le in E. apply Z.ltb_lt in H0. apply Z.leb_le in H1. apply Z.ltb_lt in H2. lia.
Qed.

(** a compute never alters the store *)
Theorem compute_preserves_store : forall fuel deps (st : store S) q, fst (oapi_compute_st fuel deps st q) = st.
Proof. reflexivity. Qed.

(** ** alignment to the maximum dimension *)
Definition square_wf (c : csm S) : Prop := length (rows c) = major c /\ minor c = major c.

Lemma set_dim_id : forall (c : csm S), square_wf c -> set_dim (major c) (major c) c = c.
Proof.
  intros [ma mi rs] [Hl Hm]. cbn in *. subst mi. unfold set_dim, set_minor, set_major. cbn [major minor rows].
  rewrite Nat.ltb_irrefl. f_equal. rewrite Hl, Nat.sub_diag. cbn [repeat]. rewrite app_nil_r. apply firstn_all2. lia.
Qed.

Lemma set_dim_grow : forall n (c : csm S), square_wf c -> major c <= n ->
  set_dim n n c = {| major := n; minor := n; rows := rows c ++ repeat [] (n - major c) |}.
Proof.
  intros n [ma mi rs] [Hl Hm] Hle. cbn in *. subst mi. unfold set_dim, set_minor, set_major. cbn [major minor rows].
  destruct (Nat.ltb_spec n ma); [lia|]. f_equal. rewrite firstn_all2 by lia. rewrite Hl. reflexivity.
Qed.

Lemma set_dim_grow_square : forall n (c : csm S), square_wf c -> major c <= n -> square_wf (set_dim n n c).
Proof.
  intros n c W Hle. rewrite set_dim_grow; auto. destruct W as [Hl Hm]. split; cbn; auto.
  rewrite app_length, repeat_length. lia.
Qed.

Lemma set_dim_grow_grow : forall n1 n2 (c : csm S), square_wf c -> major c <= n1 -> n1 <= n2 ->
  set_dim n2 n2 (set_dim n1 n1 c) = set_dim n2 n2 c.
Proof.
  intros n1 n2 c W H1 H2. pose proof (set_dim_grow_square n1 c W H1) as W1.
  rewrite (set_dim_grow n2 (set_dim n1 n1 c)); auto.
  rewrite (set_dim_grow n1 c W H1). cbn [major rows]. rewrite (set_dim_grow n2 c W) by lia.
  f_equal. rewrite <- app_assoc, <- repeat_app. f_equal. f_equal. lia.
Qed.

Lemma vset_dim_grow : forall n (v : vec S), vdim v <= n -> vset_dim n v = pad_vec n v.
Proof.
  intros n v H. unfold vset_dim, pad_vec. destruct (Nat.ltb_spec n (vdim v)); [lia|reflexivity].
Qed.
Lemma pad_vec_id : forall v : vec S, pad_vec (vdim v) v = v.
Proof. destruct v; reflexivity. Qed.
Lemma pad_pad : forall n m (v : vec S), pad_vec n (pad_vec m v) = pad_vec n v.
Proof. reflexivity. Qed.

Definition store_square (st : store S) : Prop := forall id m, st_get st id = Some m -> square_wf m.

Lemma new_csr_square : forall n es z, square_wf (new_csr (S:=S) n n es z).
Proof. intros. split; cbn; auto. rewrite map_length, seq_length. reflexivity. Qed.

Lemma load_mat_square : forall (st : store S) r c, store_square st -> load_mat st r = Some c -> square_wf c.
Proof.
  intros st [m|id|[[n es]|]] c Hst H; cbn in H; try discriminate.
  3:{ inversion H; subst. apply new_csr_square. }
  - unfold load_inline_mat in H. destruct (im_size m <=? 0)%Z; [discriminate|].
    destruct (forallb _ _); [|discriminate]. inversion H; subst. apply new_csr_square.
  - eapply Hst; eauto.
Qed.

(** The staged alignment of the handler (pre-trust against the matrix, then the
    initial trust against both) is the alignment of all three to the largest
    given size; with that, the handler is the declarative specification. *)
Theorem oapi_compute_is_spec : forall fuel deps (st : store S) (q : request S),
  store_square st -> oapi_compute fuel deps st q = oapi_spec fuel deps st q.
Proof.
  intros fuel deps st q Hst. unfold oapi_compute, oapi_spec.
  destruct (load_mat st (q_local q)) as [c|] eqn:Ec; [|reflexivity].
  pose proof (load_mat_square st _ c Hst Ec) as Wc.
  assert (Hgoal : forall (po t0o : option (vec S)) (p1 : vec S) (c1 : csm S) (cd1 : nat),
    (* after the first stage *)
    p1 = pad_vec (Nat.max (major c) (match po with Some p => vdim p | None => 0 end)) (match po with Some p => p | None => new_vec 0 [] end) ->
    c1 = set_dim (Nat.max (major c) (match po with Some p => vdim p | None => 0 end)) (Nat.max (major c) (match po with Some p => vdim p | None => 0 end)) c ->
    cd1 = Nat.max (major c) (match po with Some p => vdim p | None => 0 end) ->
    True) by auto.
  clear Hgoal.
  (* first stage *)
  set (n1 := Nat.max (major c) (match load_opt_vec (q_pre q) with Some (Some p) => vdim p | _ => 0 end)).
  destruct (q_pre q) as [rp|] eqn:Eqp; cbn [load_opt_vec option_map].
  - destruct (load_vec rp) as [p|] eqn:Elp; cbn [option_map]; [|destruct (load_opt_vec (q_initial q)); reflexivity].
    assert (Hstage1 : (if vdim p <? major c then Some (vset_dim (major c) p, c, major c)
                       else if major c <? vdim p then Some (p, set_dim (vdim p) (vdim p) c, vdim p)
                       else Some (p, c, major c)) =
                      Some (pad_vec (Nat.max (major c) (vdim p)) p, set_dim (Nat.max (major c) (vdim p)) (Nat.max (major c) (vdim p)) c, Nat.max (major c) (vdim p))).
    { destruct (Nat.ltb_spec (vdim p) (major c)) as [L|G].
      - rewrite Nat.max_l by lia. rewrite vset_dim_grow by lia. rewrite set_dim_id; auto.
      - destruct (Nat.ltb_spec (major c) (vdim p)) as [L2|G2].
        + rewrite Nat.max_r by lia. rewrite pad_vec_id. reflexivity.
        + assert (vdim p = major c) by lia. rewrite Nat.max_l by lia.
          replace (pad_vec (major c) p) with p by (rewrite <- H; symmetry; apply pad_vec_id). rewrite set_dim_id; auto. }
    rewrite Hstage1. clear Hstage1.
    set (m1 := Nat.max (major c) (vdim p)).
    assert (Wc1 : square_wf (set_dim m1 m1 c)) by (apply set_dim_grow_square; auto; unfold m1; lia).
    assert (Hm1 : major (set_dim m1 m1 c) = m1) by reflexivity.
    destruct (q_initial q) as [rt|] eqn:Eqt; cbn [load_opt_vec option_map].
    + destruct (load_vec rt) as [t0|] eqn:Elt; cbn [option_map]; [|reflexivity].
      assert (Hstage2 : (if vdim t0 <? m1 then Some (Some (vset_dim m1 t0), pad_vec m1 p, set_dim m1 m1 c, m1)
                         else if m1 <? vdim t0 then Some (Some t0, vset_dim (vdim t0) (pad_vec m1 p), set_dim (vdim t0) (vdim t0) (set_dim m1 m1 c), vdim t0)
                         else Some (Some t0, pad_vec m1 p, set_dim m1 m1 c, m1)) =
                        Some (Some (pad_vec (Nat.max m1 (vdim t0)) t0), pad_vec (Nat.max m1 (vdim t0)) p,
                              set_dim (Nat.max m1 (vdim t0)) (Nat.max m1 (vdim t0)) c, Nat.max m1 (vdim t0))).
      { destruct (Nat.ltb_spec (vdim t0) m1) as [L|G].
        - rewrite Nat.max_l by lia. rewrite vset_dim_grow by lia. reflexivity.
        - destruct (Nat.ltb_spec m1 (vdim t0)) as [L2|G2].
          + rewrite Nat.max_r by lia. rewrite pad_vec_id. rewrite vset_dim_grow by (cbn; lia). rewrite pad_pad.
            rewrite set_dim_grow_grow; auto; unfold m1; lia.
          + assert (vdim t0 = m1) by lia. rewrite Nat.max_l by lia.
            replace (pad_vec m1 t0) with t0 by (rewrite <- H; symmetry; apply pad_vec_id). reflexivity. }
      rewrite Hstage2. clear Hstage2.
      replace (Nat.max (major c) (Nat.max (vdim p) (vdim t0))) with (Nat.max m1 (vdim t0)) by (unfold m1; lia).
      reflexivity.
    + replace (Nat.max (major c) (Nat.max (vdim p) 0)) with m1 by (unfold m1; lia). reflexivity.
  - (* no pre-trust: zero vector of the matrix' dimension *)
    assert (Hp0 : new_vec (major c) [] = pad_vec (major c) (new_vec (S:=S) 0 [])) by reflexivity.
    destruct (q_initial q) as [rt|] eqn:Eqt; cbn [load_opt_vec option_map].
    + destruct (load_vec rt) as [t0|] eqn:Elt; cbn [option_map]; [|reflexivity].
      set (m1 := major c).
      assert (Hstage2 : (if vdim t0 <? m1 then Some (Some (vset_dim m1 t0), new_vec m1 [], c, m1)
                         else if m1 <? vdim t0 then Some (Some t0, vset_dim (vdim t0) (new_vec m1 []), set_dim (vdim t0) (vdim t0) c, vdim t0)
                         else Some (Some t0, new_vec m1 [], c, m1)) =
                        Some (Some (pad_vec (Nat.max m1 (vdim t0)) t0), pad_vec (Nat.max m1 (vdim t0)) (new_vec (S:=S) 0 []),
                              set_dim (Nat.max m1 (vdim t0)) (Nat.max m1 (vdim t0)) c, Nat.max m1 (vdim t0))).
      { destruct (Nat.ltb_spec (vdim t0) m1) as [L|G].
        - rewrite Nat.max_l by lia. rewrite vset_dim_grow by lia. unfold m1. rewrite set_dim_id; auto.
        - destruct (Nat.ltb_spec m1 (vdim t0)) as [L2|G2].
          + rewrite Nat.max_r by lia. rewrite pad_vec_id. rewrite vset_dim_grow by (cbn; lia). reflexivity.
          + assert (vdim t0 = m1) by lia. rewrite Nat.max_l by lia.
            replace (pad_vec m1 t0) with t0 by (rewrite <- H; symmetry; apply pad_vec_id). unfold m1. rewrite set_dim_id; auto. }
      rewrite Hstage2. clear Hstage2.
      replace (Nat.max (major c) (Nat.max 0 (vdim t0))) with (Nat.max m1 (vdim t0)) by (unfold m1; lia).
      reflexivity.
    + replace (Nat.max (major c) (Nat.max 0 0)) with (major c) by lia. rewrite set_dim_id; auto.
Qed.

Lemma NoDup_app_intro : forall {A} (l1 l2 : list A), NoDup l1 -> NoDup l2 -> (forall x, In x l1 -> In x l2 -> False) -> NoDup (l1 ++ l2).
Proof.
  induction l1 as [|a l1 IH]; intros l2 H1 H2 Hd; simpl; auto.
  inversion H1; subst. constructor.
  - intros Hin. apply in_app_or in Hin. destruct Hin; [contradiction|]. apply (Hd a); auto. left; reflexivity.
  - apply IH; auto. intros x Hx1 Hx2. apply (Hd x); auto. right; auto.
Qed.

(** ** a GET body is a valid inline reference that reproduces the matrix *)
Definition body_of (m : csm S) : inline_mat S :=
  {| im_size := Z.of_nat (major m);
     im_entries := map (fun e => let '(i, j, v) := e in (Z.of_nat i, Z.of_nat j, v)) (mat_entries m) |}.

Definition entries_from (s : nat) (rws : list (list entry)) : list (coo S) :=
  concat (map (fun ir => map (fun e : entry => (fst ir, fst e, snd e)) (snd ir)) (combine (seq s (length rws)) rws)).

Lemma entries_from_cons : forall s rw rws,
  entries_from s (rw :: rws) = map (fun e : entry => (s, fst e, snd e)) rw ++ entries_from (Datatypes.S s) rws.
Proof. reflexivity. Qed.

Lemma coo_lookup_app : forall (l1 l2 : list (coo S)) r c,
  coo_lookup r c (l1 ++ l2) = match coo_lookup r c l1 with Some x => Some x | None => coo_lookup r c l2 end.
Proof.
  induction l1 as [|e l1 IH]; intros; simpl; auto. destruct ((coo_row e =? r) && (coo_col e =? c)); auto.
Qed.

Lemma coo_lookup_block : forall (rw : list entry) s r c,
  coo_lookup r c (map (fun e : entry => (s, fst e, snd e)) rw) = if r =? s then lookup c rw else None.
Proof.
  induction rw as [|[j x] rw IH]; intros s r c; simpl.
  - destruct (r =? s); reflexivity.
  - unfold coo_row, coo_col, coo_val. cbn [fst snd]. rewrite IH. rewrite (Nat.eqb_sym s r), (Nat.eqb_sym j c).
    destruct (r =? s), (c =? j); reflexivity.
Qed.

Lemma coo_lookup_entries : forall (rws : list (list entry)) s r c,
  coo_lookup r c (entries_from s rws) = if s <=? r then lookup c (nth (r - s) rws []) else None.
Proof.
  induction rws as [|rw rws IH]; intros s r c.
  - cbn. destruct (s <=? r); destruct (r - s); reflexivity.
  - rewrite entries_from_cons, coo_lookup_app, coo_lookup_block, IH.
    destruct (Nat.eqb_spec r s) as [->|Ne].
    + rewrite Nat.leb_refl, Nat.sub_diag. cbn [nth]. destruct (lookup c rw); auto.
      destruct (Nat.leb_spec (Datatypes.S s) s); [lia|reflexivity].
    + destruct (Nat.leb_spec s r), (Nat.leb_spec (Datatypes.S s) r); try lia; auto.
      replace (r - s) with (Datatypes.S (r - Datatypes.S s)) by lia. reflexivity.
Qed.

Lemma entries_from_rows : forall (rws : list (list entry)) s e, In e (entries_from s rws) ->
  s <= coo_row e < s + length rws /\ In (coo_col e, coo_val e) (nth (coo_row e - s) rws []).
Proof.
  induction rws as [|rw rws IH]; intros s e Hin; [contradiction|].
  rewrite entries_from_cons in Hin. apply in_app_or in Hin. destruct Hin as [Hin|Hin].
  - apply in_map_iff in Hin. destruct Hin as [[j x] [<- Hj]]. unfold coo_row, coo_col, coo_val. cbn [fst snd length].
    rewrite Nat.sub_diag. split; [lia|exact Hj].
  - destruct (IH _ _ Hin) as [Hr Hc]. cbn [length]. split; [lia|].
    replace (coo_row e - s) with (Datatypes.S (coo_row e - Datatypes.S s)) by lia. exact Hc.
Qed.

Lemma entries_from_nodup : forall (rws : list (list entry)) s, Forall sorted rws -> NoDup (coords (entries_from s rws)).
Proof.
  induction rws as [|rw rws IH]; intros s HF; [constructor|].
  inversion HF as [|? ? Hs HF']; subst. rewrite entries_from_cons. unfold coords. rewrite map_app.
  apply NoDup_app_intro.
  - rewrite map_map. unfold coo_row, coo_col. cbn [fst snd].
    clear -Hs. induction rw as [|[j x] rw IHr]; [constructor|]. destruct (sorted_cons_inv _ _ _ Hs) as [Hst Hlt].
    cbn [map fst snd]. constructor; auto. intros Hin. apply in_map_iff in Hin. destruct Hin as [[j' x'] [Heq Hin]].
    inversion Heq; subst. assert (j < j) by (apply Hlt; apply in_map_iff; exists (j, x'); auto). lia.
  - apply IH; auto.
  - intros [a b] H1 H2. rewrite map_map in H1. apply in_map_iff in H1. destruct H1 as [e1 [He1 _]].
    unfold coo_row, coo_col in He1. cbn [fst snd] in He1. assert (Ha : a = s) by (inversion He1; auto).
    apply in_map_iff in H2. destruct H2 as [e2 [He2 Hin2]]. assert (Ha2 : coo_row e2 = a) by (inversion He2; auto).
    destruct (entries_from_rows _ _ _ Hin2) as [Hr _]. lia.
Qed.

Definition no_zero_entries (m : csm S) : Prop := Forall (fun rw => Forall (fun e : entry => nz (snd e) = true) rw) (rows m).

Theorem new_csr_of_entries : forall m : csm S, WFm m -> no_zero_entries m ->
  new_csr (major m) (minor m) (entries_from 0 (rows m)) false = m.
Proof.
  intros m W Hnz. destruct W as [Hlen HF]. pose proof (conj Hlen HF) as W.
  assert (HFs : Forall sorted (rows m)) by (eapply Forall_impl; [|exact HF]; intros a [Ha _]; exact Ha).
  assert (Hnd : NoDup (coords (entries_from 0 (rows m)))) by (apply entries_from_nodup; auto).
  assert (Hrng : Forall (coo_in_range (major m) (minor m)) (entries_from 0 (rows m))).
  { apply Forall_forall. intros e Hin. destruct (entries_from_rows _ _ _ Hin) as [Hr Hc]. rewrite Nat.sub_0_r in Hc.
    split; [lia|]. fold (row m (coo_row e)) in Hc. destruct (WFm_row m (coo_row e) W) as [_ Hb].
    unfold bounded in Hb. rewrite Forall_forall in Hb. apply (Hb _ Hc). }
  destruct (new_csr_cells (major m) (minor m) (entries_from 0 (rows m)) false Hnd Hrng) as (Wn & Hmaj & Hmin & Hcell).
  apply csm_ext; auto.
  apply rows_ext.
  - destruct Wn as [Ln _]. rewrite Ln, Hmaj. auto.
  - intros k Hk. destruct Wn as [Ln HFn]. pose proof (conj Ln HFn) as Wn. rewrite Ln, Hmaj in Hk.
    change (row (new_csr (major m) (minor m) (entries_from 0 (rows m)) false) k = row m k).
    apply sorted_ext.
    + apply (WFm_row _ k Wn).
    + apply (WFm_row m k W).
    + intros c. rewrite Hcell; auto. rewrite coo_lookup_entries. simpl. rewrite Nat.sub_0_r. fold (row m k).
      destruct (lookup c (row m k)) as [x|] eqn:E; auto.
      unfold no_zero_entries in Hnz. rewrite Forall_forall in Hnz.
      assert (Hin : In (row m k) (rows m)) by (unfold row; apply nth_In; lia).
      specialize (Hnz _ Hin). rewrite Forall_forall in Hnz. pose proof (Hnz _ (lookup_some_in _ _ _ E)) as Hx. cbn [snd] in Hx. rewrite Hx. reflexivity.
Qed.

Lemma mat_entries_from : forall m : csm S, mat_entries m = entries_from 0 (rows m).
Proof. reflexivity. Qed.

Theorem get_put_roundtrip : forall m : csm S, WFm m -> minor m = major m -> 0 < major m -> no_zero_entries m ->
  load_inline_mat (body_of m) = Some m.
Proof.
  intros m W Hsq Hpos Hnz. unfold load_inline_mat, body_of. cbn [im_size im_entries].
  destruct (Z.leb_spec (Z.of_nat (major m)) 0); [lia|].
  rewrite mat_entries_from.
  assert (Hrng : forallb (fun e : Z * Z * T S => let '(i, j, _) := e in
            (0 <=? i)%Z && (i <? Z.of_nat (major m))%Z && (0 <=? j)%Z && (j <? Z.of_nat (major m))%Z)
            (map (fun e : coo S => let '(i, j, v) := e in (Z.of_nat i, Z.of_nat j, v)) (entries_from 0 (rows m))) = true).
  { apply forallb_forall. intros e Hin. apply in_map_iff in Hin. destruct Hin as [[[i j] v] [<- Hin]].
    destruct (entries_from_rows _ _ _ Hin) as [Hr Hc]. unfold coo_row, coo_col, coo_val in *. cbn [fst snd] in *.
    rewrite Nat.sub_0_r in Hc. destruct W as [Hlen HF]. fold (row m i) in Hc.
    destruct (WFm_row m i (conj Hlen HF)) as [_ Hb]. unfold bounded in Hb. rewrite Forall_forall in Hb. specialize (Hb _ Hc). cbn in Hb.
    repeat (apply andb_true_iff; split); try apply Z.leb_le; try apply Z.ltb_lt; lia. }
  match goal with |- (if ?b then _ else _) = _ => replace b with true by (symmetry; exact Hrng) end.
  f_equal. rewrite Nat2Z.id. rewrite map_map.
  rewrite (map_ext _ (fun e => e)); [rewrite map_id|].
  - rewrite <- Hsq at 2. apply new_csr_of_entries; auto.
  - intros [[i j] v]. rewrite !Nat2Z.id. reflexivity.
Qed.

(** a stored reference and the inline reference returned by GET for that id give the same compute *)
Theorem stored_equals_inline : forall fuel deps (st : store S) id m (q : request S),
  st_get st id = Some m -> WFm m -> minor m = major m -> 0 < major m -> no_zero_entries m ->
  q_local q = MStored id ->
  oapi_compute fuel deps st q =
  oapi_compute fuel deps st {| q_local := MInline (body_of m); q_initial := q_initial q; q_pre := q_pre q;
                               q_alpha := q_alpha q; q_epsilon := q_epsilon q; q_flat_tail := q_flat_tail q;
                               q_num_leaders := q_num_leaders q; q_max := q_max q; q_min := q_min q; q_freq := q_freq q |}.
Proof.
  intros fuel deps st id m q Hg W Hsq Hpos Hnz Hq. unfold oapi_compute. cbn [q_local q_initial q_pre q_alpha q_epsilon q_flat_tail q_num_leaders q_max q_min q_freq].
  rewrite Hq. cbn [load_mat]. rewrite Hg, (get_put_roundtrip m W Hsq Hpos Hnz). reflexivity.
Qed.

End Oapi.

(** * Index ranges are preserved by the whole pipeline (no sortedness needed): every entry index
    of Compute's and DiscountTrustVector's results is below the dimension.  This closes the
    "no index panic" theorems of the playground (C20 / C15). *)
From Coq Require Import List Arith Bool ZArith Lia Permutation.
From ET Require Import Model.Scalar Model.Sparse Model.Basic Model.Csv Model.Playground
  Proofs.SparseBase Proofs.MatrixProofs Proofs.VectorProofs Proofs.CsvProofs Proofs.PlaygroundProofs Proofs.TotalityProofs.
Import ListNotations.

Section Bounded.
Context {S : ScalarOps}.
Notation entry := (nat * T S)%type.

Definition rows_bounded (d : nat) (m : csm S) : Prop := Forall (bounded d) (rows m).

Lemma in_firstn' : forall (A : Type) n (l : list A) x, In x (firstn n l) -> In x l.
Proof. intros A n l x H. rewrite <- (firstn_skipn n l). apply in_or_app. left. exact H. Qed.

Lemma bounded_perm : forall d (l l' : list entry), Permutation l l' -> bounded d l -> bounded d l'.
Proof. intros d l l' HP HB. unfold bounded in *. eapply Permutation_Forall; eauto. Qed.

Lemma bounded_nil : forall d, bounded d ([] : list entry).
Proof. intros. constructor. Qed.

Lemma bounded_merge_add : forall d (e1 e2 : list entry), bounded d e1 -> bounded d e2 -> bounded d (merge_add e1 e2).
Proof. intros. apply (gen_bounded merge_add (add S) (fun x => x) merge_add_nil_l' merge_add_nil_r merge_add_eq); auto. Qed.
Lemma bounded_merge_sub : forall d (e1 e2 : list entry), bounded d e1 -> bounded d e2 -> bounded d (merge_sub e1 e2).
Proof. intros. apply (gen_bounded merge_sub (sub S) (opp S) merge_sub_nil_l merge_sub_nil_r merge_sub_eq); auto. Qed.

Lemma bounded_scale : forall d a (v : vec S), bounded d (vents v) -> bounded d (vents (scalevec a v)).
Proof.
  intros d a v H. unfold scalevec. destruct (eqb S a (zero S)); [apply bounded_nil|]. destruct (eqb S a (one S)); auto.
  cbn [vents]. unfold scale_entries. apply bounded_filter. apply (bounded_map_val d (fun e => mul S (snd e) a)). exact H.
Qed.
Lemma vdim_scale : forall a (v : vec S), vdim (scalevec a v) = vdim v.
Proof. intros a v. unfold scalevec. destruct (eqb S a (zero S)); auto. destruct (eqb S a (one S)); auto. Qed.

Lemma mulvec_bounded : forall (m : csm S) v r, mulvec m v = Ok r -> vdim r = major m /\ bounded (major m) (vents r).
Proof.
  intros m v r H. unfold mulvec, mdim in H. destruct (major m =? minor m) eqn:E; cbn [rbind] in H; [|discriminate].
  destruct (major m =? vdim v); [|discriminate]. inversion H; subst. cbn [vdim vents]. split; auto.
  apply bounded_filter. unfold bounded. apply Forall_forall. intros e Hin. apply in_map_iff in Hin.
  destruct Hin as [k [<- Hk]]. apply in_seq in Hk. simpl. lia.
Qed.

Lemma iter_step_bounded : forall (ct : csm S) ap a t1 t', iter_step ct ap a t1 = Ok t' ->
  bounded (major ct) (vents ap) -> vdim t' = major ct /\ bounded (major ct) (vents t').
Proof.
  intros ct ap a t1 t' H Hap. unfold iter_step in H. destruct (mulvec ct t1) as [mt| | |] eqn:Em; cbn [rbind] in H; try discriminate.
  destruct (mulvec_bounded _ _ _ Em) as [Hd Hb]. unfold addvec in H. rewrite vdim_scale in H.
  destruct (vdim mt =? vdim ap); [|discriminate]. inversion H; subst. cbn [vdim vents]. split; auto.
  apply bounded_merge_add; auto. apply bounded_scale. exact Hb.
Qed.

Lemma loop_bounded : forall fuel (ct : csm S) ap a e mn fq mx ft nl i t1 cv st t k st',
  loop fuel ct ap a e mn fq mx ft nl i t1 cv st = Done t k st' ->
  bounded (major ct) (vents ap) -> vdim t1 = major ct -> bounded (major ct) (vents t1) ->
  vdim t = major ct /\ bounded (major ct) (vents t).
Proof.
  induction fuel as [|fuel IH]; intros ct ap a e mn fq mx ft nl i t1 cv st t k st' H Hap Hd Hb; cbn [loop] in H; [discriminate|].
  destruct (match mx with Some m => m <=? i | None => false end); [inversion H; subst; auto|].
  destruct ((mn <=? i) && ((i - mn) mod fq =? 0)).
  - destruct (conv_update cv t1) as [cv'| | |]; try discriminate.
    destruct (nl <? 0)%Z; [discriminate|].
    destruct (converged cv' && ft_reached _ ft); [inversion H; subst; auto|].
    destruct (iter_step ct ap a t1) as [t1'| | |] eqn:Ei; try discriminate.
    destruct (iter_step_bounded _ _ _ _ _ Ei Hap) as [Hd' Hb']. eapply IH; eauto.
  - destruct (iter_step ct ap a t1) as [t1'| | |] eqn:Ei; try discriminate.
    destruct (iter_step_bounded _ _ _ _ _ Ei Hap) as [Hd' Hb']. eapply IH; eauto.
Qed.

Lemma transpose_major : forall m : csm S, major (transpose m) = minor m.
Proof. reflexivity. Qed.

(** Compute: the result has the dimension of the matrix and in-range entries, provided the
    pre-trust and the start vector have *)
Theorem compute_bounded : forall fuel (c : csm S) p a e o t k st,
  compute fuel c p a e o = Done t k st ->
  bounded (vdim p) (vents p) -> (forall t0, o_t0 o = Some t0 -> bounded (vdim t0) (vents t0)) ->
  vdim t = major c /\ bounded (major c) (vents t).
Proof.
  intros fuel c p a e o t k st H Hp Ht0. unfold compute in H.
  unfold mdim in H. destruct (major c =? minor c) eqn:Esq; [|discriminate]. apply Nat.eqb_eq in Esq.
  destruct (major c =? 0); [discriminate|].
  destruct (negb (vdim p =? major c)) eqn:Ep; [discriminate|]. apply negb_false_iff, Nat.eqb_eq in Ep. cbn [orb] in H.
  destruct (match o_t0 o with Some t0 => negb (vdim t0 =? major c) | None => false end) eqn:Et; [discriminate|]. cbn [orb] in H.
  destruct (match o_result_dim o with Some d => negb (d =? major c) | None => false end); [discriminate|].
  destruct (negb (leb S (zero S) a && leb S a (one S))); [discriminate|].
  destruct (negb (ltb S (zero S) e)); [discriminate|].
  destruct (_ <? 1)%Z; [discriminate|]. destruct (_ <? 0)%Z; [discriminate|]. destruct (_ <=? 0)%Z; [discriminate|].
  assert (Hmaj : major (transpose c) = major c) by (rewrite transpose_major; auto).
  rewrite <- Hmaj. eapply loop_bounded; [exact H| | |].
  - rewrite Hmaj, <- Ep. apply bounded_scale. exact Hp.
  - rewrite Hmaj. destruct (o_t0 o) as [t0|]; auto. apply negb_false_iff, Nat.eqb_eq in Et. exact Et.
  - rewrite Hmaj. destruct (o_t0 o) as [t0|] eqn:E0.
    + apply negb_false_iff, Nat.eqb_eq in Et. rewrite <- Et. apply Ht0. reflexivity.
    + rewrite <- Ep. exact Hp.
Qed.

(** DiscountTrustVector *)
Lemma discount_go_bounded : forall (rws : list (list entry)) (t : vec S) t1 k r d,
  discount_go t t1 rws k = Ok r -> vdim t = d -> bounded d (vents t) -> Forall (bounded d) rws ->
  vdim r = d /\ bounded d (vents r).
Proof.
  induction rws as [|rw rest IH]; intros t t1 k r d H Hd Hb Hr; cbn [discount_go] in H.
  - inversion H; subst. auto.
  - inversion Hr as [|? ? Hrw Hrest]; subst.
    destruct (skip_lt k t1) as [|[i x] t1'] eqn:Es; [inversion H; subst; auto|].
    destruct (i =? k).
    + unfold subvec in H. rewrite vdim_scale in H. cbn [vdim] in H. rewrite Nat.eqb_refl in H. cbn [rbind] in H.
      eapply IH in H; eauto. cbn [vents]. apply bounded_merge_sub; auto.
      apply (bounded_scale (vdim t) x {| vdim := vdim t; vents := rw |}). exact Hrw.
    + eapply IH in H; eauto.
Qed.
Theorem discount_bounded : forall (t : vec S) (dc : csm S) r,
  discount t dc = Ok r -> bounded (vdim t) (vents t) -> rows_bounded (vdim t) dc -> vdim r = vdim t /\ bounded (vdim t) (vents r).
Proof. intros t dc r H Hb Hr. unfold discount in H. eapply discount_go_bounded; eauto. Qed.

(** canonicalisation and distrust extraction keep the index ranges *)
Lemma canon_bounded : forall d (l l' : list entry), canon l = Ok l' -> bounded d l -> bounded d l'.
Proof.
  intros d l l' H Hb. unfold canon in H. destruct (eqb S _ (zero S)); [discriminate|]. inversion H; subst.
  apply (bounded_map_val d (fun e => div S (snd e) (kbn_total (map snd l)))). exact Hb.
Qed.
Lemma uniform_bounded : forall n, bounded n (uniform (S:=S) n).
Proof. intros n. unfold uniform, bounded. apply Forall_forall. intros e Hin. apply in_map_iff in Hin. destruct Hin as [k [<- Hk]]. apply in_seq in Hk. simpl. lia. Qed.
Lemma canon_tv_bounded : forall v : vec S, bounded (vdim v) (vents v) -> vdim (canon_tv v) = vdim v /\ bounded (vdim v) (vents (canon_tv v)).
Proof.
  intros v Hb. unfold canon_tv. destruct (canon (vents v)) as [l| | |] eqn:E; cbn [vdim vents]; split; auto.
  - eapply canon_bounded; eauto.
  - apply uniform_bounded.
Qed.
Lemma canon_row_bounded : forall d p (r : list entry), bounded d r -> (forall pv, p = Some pv -> bounded d (vents pv)) -> bounded d (canon_row p r).
Proof.
  intros d p r Hr Hp. unfold canon_row. destruct (canon r) as [r'| | |] eqn:E.
  - eapply canon_bounded; eauto.
  - destruct p; auto.
  - destruct p; auto.
  - destruct p; auto.
Qed.
Lemma canon_lt_bounded : forall d (m m' : csm S) p, canon_lt m p = Ok m' -> rows_bounded d m ->
  (forall pv, p = Some pv -> bounded d (vents pv)) -> major m' = major m /\ minor m' = minor m /\ rows_bounded d m'.
Proof.
  intros d m m' p H Hr Hp. unfold canon_lt, mdim in H. destruct (major m =? minor m); cbn [rbind] in H; [|discriminate].
  assert (G : rows_bounded d {| major := major m; minor := minor m; rows := map (canon_row p) (rows m) |}).
  { unfold rows_bounded in *. cbn [rows]. apply Forall_forall. intros r Hin. apply in_map_iff in Hin. destruct Hin as [r0 [<- Hin]].
    apply canon_row_bounded; auto. apply (proj1 (Forall_forall _ _) Hr r0 Hin). }
  destruct p as [pv|].
  - destruct (major m =? vdim pv); [|discriminate]. inversion H; subst. auto.
  - inversion H; subst. auto.
Qed.
Lemma extract_bounded : forall d (m cpos disc : csm S), extract_distrust m = Ok (cpos, disc) -> rows_bounded d m ->
  major cpos = major m /\ minor cpos = minor m /\ rows_bounded d cpos /\ rows_bounded d disc /\ major disc = major m.
Proof.
  intros d m cpos disc H Hr. unfold extract_distrust, mdim in H. destruct (major m =? minor m); cbn [rbind] in H; [|discriminate].
  inversion H; subst. cbn [major minor]. repeat split; auto; unfold rows_bounded in *; cbn [rows]; apply Forall_forall; intros r Hin;
  apply in_map_iff in Hin; destruct Hin as [r0 [<- Hin]].
  - unfold pos_part. apply bounded_filter. apply (proj1 (Forall_forall _ _) Hr r0 Hin).
  - unfold neg_part. apply (bounded_map_val d (fun e => opp S (snd e))). apply bounded_filter.
    apply (proj1 (Forall_forall _ _) Hr r0). eapply in_firstn'; eauto.
Qed.

(** the matrices the readers build, and their resizing *)
Lemma new_csr_rows_bounded : forall nr nc (es : list (coo S)) z, Forall (coo_in_range nr nc) es -> rows_bounded nc (new_csr nr nc es z).
Proof.
  intros nr nc es z H. unfold rows_bounded, new_csr. cbn [rows]. apply Forall_forall. intros r Hin.
  apply in_map_iff in Hin. destruct Hin as [k [<- _]].
  eapply bounded_perm; [apply Permutation_sym, sort_perm|]. unfold bounded. apply Forall_forall. intros e He.
  apply in_map_iff in He. destruct He as [c [<- Hc]]. apply filter_In in Hc. destruct Hc as [Hc _]. apply filter_In in Hc. destruct Hc as [Hc _].
  pose proof (proj1 (Forall_forall _ _) H c Hc) as [_ Hcol]. simpl. exact Hcol.
Qed.
Lemma take_lt_bounded : forall d (l : list entry), bounded d (take_lt d l).
Proof.
  intros d l. induction l as [|[i x] t IH]; simpl; [constructor|]. destruct (Nat.ltb_spec i d); [|constructor].
  constructor; auto.
Qed.
Lemma set_dim_rows_bounded : forall r c (m : csm S), rows_bounded (minor m) m -> rows_bounded c (set_dim r c m).
Proof.
  intros r c m H. unfold set_dim, set_minor, set_major, rows_bounded in *. cbn [rows minor].
  assert (H1 : Forall (bounded (minor m)) (firstn r (rows m) ++ repeat [] (r - length (rows m)))).
  { apply Forall_app. split.
    - apply Forall_forall. intros x Hx. apply (proj1 (Forall_forall _ _) H x). eapply in_firstn'; eauto.
    - apply Forall_forall. intros x Hx. apply repeat_spec in Hx. subst. constructor. }
  destruct (Nat.ltb_spec c (minor m)).
  - apply Forall_forall. intros x Hx. apply in_map_iff in Hx. destruct Hx as [x0 [<- _]]. apply take_lt_bounded.
  - eapply Forall_impl; [|exact H1]. intros x Hx. eapply bounded_weaken; eauto.
Qed.

(** ** the playground's pipeline returns in-range entries, hence the handler never panics *)
Theorem pipeline_bounded : forall fuel eps (lt1 : csm S) (pt1 : vec S) h t',
  pipeline fuel eps lt1 pt1 h = PipeOk t' ->
  major lt1 = vdim pt1 -> rows_bounded (vdim pt1) lt1 -> bounded (vdim pt1) (vents pt1) ->
  bounded (vdim pt1) (vents t').
Proof.
  intros fuel eps lt1 pt1 h t' H Hmaj Hrows Hpt. unfold pipeline in H.
  destruct (canon_tv_bounded pt1 Hpt) as [Pd Pb].
  destruct (extract_distrust lt1) as [[cpos disc]| | |] eqn:Ee; try discriminate.
  destruct (extract_bounded _ _ _ _ Ee Hrows) as [E1 [E2 [E3 [E4 E5]]]].
  destruct (canon_lt cpos (Some (canon_tv pt1))) as [cc| | |] eqn:Ec; try discriminate.
  destruct (canon_lt_bounded (vdim pt1) _ _ _ Ec E3) as [C1 [C2 C3]]; [intros pv Epv; inversion Epv; subst; exact Pb|].
  destruct (canon_lt disc None) as [dc| | |] eqn:Ed; try discriminate.
  destruct (canon_lt_bounded (vdim pt1) _ _ _ Ed E4) as [D1 [D2 D3]]; [intros pv Epv; discriminate|].
  destruct (compute fuel cc (canon_tv pt1) (alpha_of h) eps default_opts) as [t k st| | |] eqn:Eco; try discriminate.
  destruct (compute_bounded _ _ _ _ _ _ _ _ _ Eco) as [Td Tb]; [rewrite Pd; exact Pb|intros t0 E0; discriminate|].
  destruct (discount t dc) as [r| | |] eqn:Edi; try discriminate. inversion H; subst r.
  assert (Edim : vdim t = vdim pt1) by (rewrite Td, C1, E1; exact Hmaj).
  assert (Tb' : bounded (vdim t) (vents t)) by (rewrite Td; exact Tb).
  assert (Db : rows_bounded (vdim t) dc) by (rewrite Edim; exact D3).
  destruct (discount_bounded _ _ _ Edi Tb' Db) as [_ Rb]. rewrite <- Edim. exact Rb.
Qed.

Lemma rows_bounded_mono : forall d d' (m : csm S), d <= d' -> rows_bounded d m -> rows_bounded d' m.
Proof. intros d d' m H Hr. unfold rows_bounded in *. eapply Forall_impl; [|exact Hr]. intros x Hx. eapply bounded_weaken; eauto. Qed.

Lemma prepare_rows_bounded : forall (u : @upload S) names lt1 pt1 h,
  prepare u = inr (names, lt1, pt1, h) -> rows_bounded (vdim pt1) lt1.
Proof.
  intros u names lt1 pt1 h H. pose proof (prepare_spec _ _ _ _ _ H) as [_ [Hmaj [Hmin _]]]. unfold prepare in H.
  destruct (u_lt u) as [ltf|]; [|discriminate]. destruct (u_pt u) as [ptf|]; [|discriminate].
  destruct (match u_hunch u with HAbsent => Some 10%Z | HBad => None | HVal z => Some z end) as [h0|]; [|discriminate].
  destruct ((h0 <? 0)%Z || (100 <? h0)%Z); [discriminate|].
  destruct (match u_names u with None => ROk None | Some f => match read_peer_names f with ROk ns => ROk (Some ns) | RErr c => RErr c end end) as [names0|]; [|discriminate].
  destruct (read_local_trust names0 ltf) as [lt|] eqn:El; [|discriminate].
  destruct (read_trust_vector names0 ptf) as [pt|] eqn:Ep; [|discriminate].
  destruct (read_local_trust_ok _ _ _ El) as [_ [es [_ [Hm Hr]]]]. cbv zeta in Hm.
  set (d := dim_of _) in *.
  assert (Hlt : rows_bounded (minor lt) lt) by (rewrite Hm; cbn [minor new_csr]; apply new_csr_rows_bounded; exact Hr).
  assert (Hsq : major lt = minor lt) by (rewrite Hm; reflexivity).
  unfold mdim in H. rewrite Hsq, Nat.eqb_refl in H.
  destruct names0 as [ns|].
  - destruct ((length ns <? minor lt) || (length ns <? vdim pt)) eqn:Eb; [discriminate|].
    apply orb_false_iff in Eb. destruct Eb as [Eb1 Eb2]. apply Nat.ltb_ge in Eb1.
    inversion H; subst names lt1 pt1 h. clear H. rewrite <- Hmin.
    destruct (minor lt <? length ns) eqn:E.
    + apply set_dim_rows_bounded. exact Hlt.
    + exact Hlt.
  - destruct (minor lt <? vdim pt) eqn:E1.
    + inversion H; subst names lt1 pt1 h. apply set_dim_rows_bounded. exact Hlt.
    + destruct (vdim pt <? minor lt) eqn:E2; inversion H; subst names lt1 pt1 h; rewrite <- Hmin; exact Hlt.
Qed.

Lemma pipeline_never_crashes : forall fuel eps (lt1 : csm S) (pt1 : vec S) h, pipeline fuel eps lt1 pt1 h <> PipeCrash.
Proof.
  intros fuel eps lt1 pt1 h. unfold pipeline.
  destruct (extract_distrust lt1) as [[cpos disc]| | |]; try discriminate.
  destruct (canon_lt cpos _) as [cc| | |]; try discriminate.
  destruct (canon_lt disc None) as [dc| | |]; try discriminate.
  destruct (compute fuel cc (canon_tv pt1) (alpha_of h) eps default_opts) as [t k st| | |] eqn:E; try discriminate.
  - destruct (discount t dc); discriminate.
  - exfalso. eapply (compute_not_panicked fuel cc (canon_tv pt1) (alpha_of h) eps default_opts); [|exact E]. cbn. lia.
Qed.

(** no upload makes the handler panic: every slice access of calculate is in range, Compute's
    flat-tail slice is unreachable with the default options *)
Theorem calculate_never_crashes : forall fuel eps (u : @upload S), calculate fuel eps u <> PCrash.
Proof.
  intros fuel eps u Hc. destruct (calculate_crash_only_from_pipeline fuel eps u Hc) as [names [lt1 [pt1 [h [Hp [Hpc|[t' [Hpo Hnb]]]]]]]].
  - eapply pipeline_never_crashes; eauto.
  - apply Hnb. destruct (prepare_spec _ _ _ _ _ Hp) as [_ [Hmaj [_ [Hb _]]]].
    eapply pipeline_bounded; eauto. eapply prepare_rows_bounded; eauto.
Qed.

(** every upload is answered by the result page, the 400 page, or the exhaustion of the model's fuel *)
Theorem calculate_outcomes : forall fuel eps (u : @upload S),
  match calculate fuel eps u with PResult _ _ _ | P400 _ | PHang => True | PCrash => False end.
Proof. intros. pose proof (calculate_never_crashes fuel eps u). destruct (calculate fuel eps u); auto. Qed.

End Bounded.

(** * The canonical form sums to 1 within rounding (rounded arithmetic, non-negative data).

    Consequence of [RoundAccuracy.kbn_total_accuracy_nonneg]: Canonicalize divides every entry by the
    compensated sum, which is within [14 n u] of the exact sum, and each quotient is rounded once: the
    canonical entries are non-negative and their exact sum is within [30 n u] of 1. *)
From Coq Require Import List Arith Bool Lia Reals Lra Psatz.
From Flocq Require Import Raux.
From ET Require Import Model.Scalar Model.Sparse Model.Basic Proofs.SparseBase Proofs.RInst Proofs.ScaleRound
  Proofs.RoundNonneg Proofs.RoundAccuracy.
Import ListNotations.
Local Open Scope R_scope.

Section CanonSum.
Variable rnd : R -> R.
Variable u : R.
Hypothesis u_pos : 0 <= u.
Hypothesis u_small : u <= /1024.
Hypothesis rnd_rel : forall x, exists eps, Rabs eps <= u /\ rnd x = x * (1 + eps).
Notation K := (RND rnd).

(** a sum of non-negative terms, each rounded once *)
Lemma lsum_rounded_terms : forall (f : R -> R) (l : list R),
  (forall x, 0 <= x -> 0 <= f x) ->
  Forall (fun x => 0 <= x) l ->
  lsum (map f l) * (1 - u) <= lsum (map (fun x => rnd (f x)) l) <= lsum (map f l) * (1 + u).
Proof.
  intros f l Hf HF. induction HF as [|x t Hx _ IH].
  - unfold lsum. simpl. lra.
  - replace (lsum (map f (x :: t))) with (f x + lsum (map f t)) by reflexivity.
    replace (lsum (map (fun x0 => rnd (f x0)) (x :: t))) with (rnd (f x) + lsum (map (fun x0 => rnd (f x0)) t)) by reflexivity.
    destruct (rnd_rel (f x)) as [e [He ->]]. apply Rabs_le_inv in He. specialize (Hf x Hx). nra.
Qed.

Lemma lsum_scal_r : forall (l : list R) (c : R), lsum (map (fun x => x / c) l) = lsum l / c.
Proof.
  induction l as [|x t IH]; intros c.
  - unfold lsum. simpl. unfold Rdiv. ring.
  - replace (lsum (map (fun x0 => x0 / c) (x :: t))) with (x / c + lsum (map (fun x0 => x0 / c) t)) by reflexivity.
    replace (lsum (x :: t)) with (x + lsum t) by reflexivity. rewrite IH. unfold Rdiv. ring.
Qed.

Theorem canon_sum_rounded : forall (l l' : list (nat * R)),
  nn l -> l <> [] -> 14 * INR (length l) * u <= /2 ->
  @canon K l = Ok l' ->
  nn l' /\ Rabs (lsum (map snd l') - 1) <= 30 * INR (length l) * u.
Proof.
  intros l l' Hnn Hne Hn Hc. unfold canon in Hc.
  match type of Hc with context [if ?c then _ else _] => destruct c eqn:Es end; [discriminate|].
  inversion Hc; subst l'. clear Hc.
  set (xs := map snd l : list R) in *. set (s := @kbn_total K xs) in *.
  change (Reqb s 0 = false) in Es. apply Reqb_false in Es.
  assert (HF : Forall (fun x => 0 <= x) xs).
  { unfold xs. apply Forall_forall. intros x Hx. apply in_map_iff in Hx. destruct Hx as [e [<- He]].
    unfold nn in Hnn. rewrite Forall_forall in Hnn. exact (Hnn _ He). }
  assert (Hlen : length xs = length l) by (unfold xs; apply map_length).
  set (n := INR (length l)) in *.
  assert (Hn1 : 1 <= n).
  { unfold n. destruct l; [contradiction|]. cbn [length]. rewrite S_INR. pose proof (pos_INR (length l)). lra. }
  assert (Hacc := kbn_total_accuracy_nonneg rnd u u_pos u_small rnd_rel xs HF).
  rewrite Hlen in Hacc. fold n in Hacc. fold s in Hacc.
  assert (H8 : n * (8 * u) <= /2) by nra. specialize (Hacc H8). apply Rabs_le_inv in Hacc.
  assert (Hs0 : 0 <= s) by (apply (kbn_total_nonneg rnd u u_pos u_small rnd_rel xs HF); rewrite Hlen; exact H8).
  set (S := lsum xs) in *.
  assert (HS0 : 0 <= S).
  { unfold S. clear -HF. induction HF as [|x t Hx _ IH]; [unfold lsum; simpl; lra|].
    replace (lsum (x :: t)) with (x + lsum t) by reflexivity. lra. }
  set (w := n * u) in *.
  assert (Hw : 0 <= w) by (unfold w; apply Rmult_le_pos; lra).
  assert (Hs_lo : S * (1 - 14 * w) <= s) by (unfold w; nra).
  assert (Hs_hi : s <= S * (1 + 14 * w)) by (unfold w; nra).
  assert (Hw2 : 14 * w <= /2) by (unfold w; lra).
  assert (Hsp : 0 < s) by lra.
  assert (HSw : 0 <= S * w) by (apply Rmult_le_pos; assumption).
  assert (HSp : 0 < S) by nra.
  split.
  - (* entries *)
    unfold nn. apply Forall_forall. intros e He. apply in_map_iff in He. destruct He as [[i x] [<- Hin]]. cbn [snd fst].
    change (div K x s) with (rnd (x / s)). apply rnd_nonneg with (u := u); try assumption.
    unfold nn in Hnn. rewrite Forall_forall in Hnn. specialize (Hnn _ Hin). cbn in Hnn.
    apply Rmult_le_pos; [exact Hnn|]. left. apply Rinv_0_lt_compat. exact Hsp.
  - (* the sum *)
    match goal with |- Rabs (lsum ?t - 1) <= _ => replace t with (map (fun x => rnd (x / s)) xs) end;
      [|unfold xs; rewrite !map_map; apply map_ext; intros [i x]; reflexivity].
    pose proof (lsum_rounded_terms (fun x => x / s) xs) as Hb.
    destruct Hb as [Hlo Hhi]; [intros x Hx; apply Rmult_le_pos; [exact Hx|left; apply Rinv_0_lt_compat; exact Hsp]|exact HF|].
    rewrite lsum_scal_r in Hlo, Hhi. fold S in Hlo, Hhi.
    (* S/s within [1 - 14 w, 1 + 28 w] *)
    assert (Hq_hi : S / s <= 1 + 28 * w).
    { apply Rmult_le_reg_r with s; [exact Hsp|]. unfold Rdiv. rewrite Rmult_assoc, Rinv_l, Rmult_1_r by lra.
      (* S <= (1 + 28 w) s, with s >= S (1 - 14 w) *)
      apply Rle_trans with ((1 + 28 * w) * (S * (1 - 14 * w))); [|apply Rmult_le_compat_l; lra].
      assert (Hw28 : w <= /28) by lra.
      assert (Hsww : S * w * w <= S * w * / 28) by (apply Rmult_le_compat_l; assumption).
      replace ((1 + 28 * w) * (S * (1 - 14 * w))) with (S + 14 * (S * w) - 392 * (S * w * w)) by ring. lra. }
    assert (Hq_lo : 1 - 14 * w <= S / s).
    { apply Rmult_le_reg_r with s; [exact Hsp|]. unfold Rdiv. rewrite Rmult_assoc, Rinv_l, Rmult_1_r by lra.
      apply Rle_trans with ((1 - 14 * w) * (S * (1 + 14 * w))); [apply Rmult_le_compat_l; lra|].
      assert (Hsww : 0 <= S * w * w) by (apply Rmult_le_pos; assumption).
      replace ((1 - 14 * w) * (S * (1 + 14 * w))) with (S - 196 * (S * w * w)) by ring. lra. }
    assert (Hu_w : u <= w) by (unfold w; nra).
    assert (Hq0 : 0 <= S / s) by lra.
    apply Rabs_le. replace (30 * n * u) with (30 * w) by (unfold w; ring).
    split; nra.
Qed.

End CanonSum.

Theorem canon_sum_B64 : forall (l l' : list (nat * R)),
  nn l -> l <> [] -> INR (length l) <= Raux.bpow Zaux.radix2 47 ->
  @canon B64 l = Ok l' ->
  nn l' /\ Rabs (lsum (map snd l') - 1) <= 30 * INR (length l) * u64.
Proof.
  intros l l' Hnn Hne Hlen Hc.
  apply (canon_sum_rounded rnd64 u64 u64_pos u64_small rnd64_rel l l' Hnn Hne); [|exact Hc].
  unfold u64. pose proof (pos_INR (length l)).
  assert (Hb : Raux.bpow Zaux.radix2 47 * Raux.bpow Zaux.radix2 (-52) = Raux.bpow Zaux.radix2 (-5)) by (rewrite <- Raux.bpow_plus; reflexivity).
  assert (Hp := Raux.bpow_gt_0 Zaux.radix2 (-52)).
  assert (INR (length l) * Raux.bpow Zaux.radix2 (-52) <= Raux.bpow Zaux.radix2 (-5)) by (rewrite <- Hb; apply Rmult_le_compat_r; lra).
  replace (Raux.bpow Zaux.radix2 (-5)) with (/32) in * by (simpl; lra). lra.
Qed.

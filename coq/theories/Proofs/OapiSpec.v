(** * Declarative specification of the OpenAPI compute (effective inputs) and an
    abstract map specification of the local-trust store.  Definitions only
    (they are evaluated as oracles by the correspondence check); the refinement
    proofs are in Proofs/OapiProofs.v. *)
From Coq Require Import List Arith Bool ZArith Lia.
From ET Require Import Model.Scalar Model.Sparse Model.Basic Model.Oapi.
Import ListNotations.

Section Spec.
Context {S : ScalarOps}.
Notation entry := (nat * T S)%type.

(** ** effective inputs of a compute request *)
Definition pad_vec (n : nat) (v : vec S) : vec S := {| vdim := n; vents := vents v |}.

Definition alpha_of (q : request S) : option (T S) :=
  match q_alpha q with
  | None => Some (div S (one S) (add S (one S) (one S)))
  | Some a => if ltb S a (zero S) || ltb S (one S) a then None else Some a
  end.
Definition eps_of (default_eps : nat -> T S) (q : request S) (n : nat) : option (T S) :=
  match q_epsilon q with
  | None => Some (default_eps n)
  | Some e => if leb S e (zero S) || ltb S (one S) e then None else Some e
  end.
Definition ints_ok (q : request S) : bool :=
  optz_ok (q_flat_tail q) 0 && optz_ok (q_num_leaders q) 0 && optz_ok (q_max q) 0 && optz_ok (q_min q) 1 && optz_ok (q_freq q) 1.

(** [Some None] = field absent, [None] = reference could not be loaded *)
Definition load_opt_vec (o : option (vref S)) : option (option (vec S)) :=
  match o with None => Some None | Some r => option_map Some (load_vec r) end.

Definition oapi_spec (fuel : nat) (default_eps : nat -> T S) (st : store S) (q : request S) : response S :=
  match load_mat st (q_local q), load_opt_vec (q_pre q), load_opt_vec (q_initial q) with
  | Some c, Some po, Some t0o =>
      (* dimension = the largest given size *)
      let n := Nat.max (major c) (Nat.max (match po with Some p => vdim p | None => 0 end)
                                          (match t0o with Some t => vdim t | None => 0 end)) in
      match alpha_of q, eps_of default_eps q n with
      | Some a, Some e =>
          if negb (ints_ok q) then R400
          else
            (* absent or all-zero pre-trust = uniform; absent initial trust = pre-trust *)
            let p_eff := canon_tv (pad_vec n (match po with Some p => p | None => new_vec 0 [] end)) in
            let t0_eff := option_map (fun t => canon_tv (pad_vec n t)) t0o in
            let c_n := set_dim n n c in
            match extract_distrust c_n with
            | Ok (cpos, disc) =>
                (* every peer without positive outgoing trust trusts according to pre-trust *)
                match canon_lt cpos (Some p_eff), canon_lt disc None with
                | Ok c_eff, Ok d_eff =>
                    let o := {| o_t0 := t0_eff; o_result_dim := None;
                                o_flat_tail := match q_flat_tail q with Some z => z | None => 0%Z end;
                                o_num_leaders := match q_num_leaders q with Some z => z | None => 0%Z end;
                                o_max_iters := q_max q; o_min_iters := q_min q; o_check_freq := q_freq q |} in
                    match compute fuel c_eff p_eff a e o with
                    | Done t k fs => match discount t d_eff with
                                    | Ok t' => if existsb (fun e => nonfinite S (snd e)) (vents t') then R500 else R200 t' k fs
                                    | _ => R500 end
                    | Failed _ => R500
                    | OutOfFuel => RHang
                    | Panicked => RPanic
                    end
                | _, _ => R400
                end
            | _ => R400
            end
      | _, _ => R400
      end
  | _, _, _ => R400
  end.

(** ** abstract map specification of /local-trust/{id}: id -> (size, cells) *)
Definition cells := list ((nat * nat) * T S).          (* association list, newest binding first *)
Definition amat := (nat * cells)%type.
Definition astore := nat -> option amat.

Fixpoint cell_get (c : cells) (i j : nat) : option (T S) :=
  match c with
  | [] => None
  | ((a, b), v) :: t => if (a =? i) && (b =? j) then Some v else cell_get t i j
  end.
Definition cells_of_inline (m : inline_mat S) : cells :=
  (* includeZero = false: zero values are not stored *)
  rev (map (fun e => let '(i, j, v) := e in ((Z.to_nat i, Z.to_nat j), v))
           (filter (fun e => let '(_, _, v) := e in nz v) (im_entries m))).
Definition inline_valid (m : inline_mat S) : bool :=
  (0 <? im_size m)%Z
  && forallb (fun e => let '(i, j, _) := e in (0 <=? i)%Z && (i <? im_size m)%Z && (0 <=? j)%Z && (j <? im_size m)%Z) (im_entries m).

(** the matrix a reference denotes, abstractly *)
Definition aload (st : astore) (r : mref S) : option amat :=
  match r with
  | MInline m => if inline_valid m then Some (Z.to_nat (im_size m), cells_of_inline m) else None
  | MStored id => st id
  | MObject o => option_map (fun p => (fst p, rev (map (fun e : nat * nat * T S => ((fst (fst e), snd (fst e)), snd e))
                                                     (filter (fun e : nat * nat * T S => nz (snd e)) (snd p))))) o
  end.
Definition aset (st : astore) (id : nat) (m : option amat) : astore := fun k => if k =? id then m else st k.

Inductive aresp := A200 | A201 | A204 | A404 | A400 | ABody (size : nat) (c : cells).

Definition aspec_step (st : astore) (r : sreq S) : astore * aresp :=
  match r with
  | SPut id body merge =>
      match aload st body with
      | None => (st, A400)
      | Some (n, c) =>
          match st id with
          | None => (aset st id (Some (n, c)), A201)
          | Some (n0, c0) => if merge then (aset st id (Some (Nat.max n0 n, c ++ c0)), A200)
                             else (aset st id (Some (n, c)), A200)
          end
      end
  | SGet id => match st id with Some (n, c) => (st, ABody n c) | None => (st, A404) end
  | SHead id => match st id with Some _ => (st, A204) | None => (st, A404) end
  | SDelete id => match st id with Some _ => (aset st id None, A204) | None => (st, A404) end
  end.

End Spec.

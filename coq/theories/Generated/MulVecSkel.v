(* GENERATED on every run by `harness -skeleton` from /repo/pkg/sparse/vector.go — do not edit. *)
(* Structural facts of Vector.MulVec the goroutine-protocol model is parameterised by. *)
Definition skel_recognised : bool := false.
(* unrecognised statement: numWorkers := 32 *)
Definition skel_post_check : bool := false.   (* ctx.Err() is re-checked after the collect loop, before the result is published *)
Definition skel_final_sort : bool := false.   (* sort.Sort(EntriesByIndex(...)) before publication *)
Definition skel_workers : nat := 0.
(* recognised, hence assumed by the model: both channels have capacity dim (sends never block);
   producer, workers (both selects) and collector poll ctx.Done(); one VecDot per received row;
   jobs is closed by the producer on exit; entries is closed after wg.Wait(). *)

(* GENERATED on every run by `harness -skeleton` from /repo/pkg/sparse/vector.go — do not edit. *)
(* Structural facts of Vector.MulVec the goroutine-protocol model is parameterised by. *)
Definition skel_recognised : bool := true.
(*  *)
Definition skel_post_check : bool := true.   (* ctx.Err() is re-checked after the collect loop, before the result is published *)
Definition skel_final_sort : bool := true.   (* sort.Sort(EntriesByIndex(...)) before publication *)
Definition skel_workers : nat := 32.
(* recognised, hence assumed by the model: both channels have capacity dim (sends never block);
   producer, workers (both selects) and collector poll ctx.Done(); one VecDot per received row;
   jobs is closed by the producer on exit; entries is closed after wg.Wait(). *)

(* GENERATED on every run by `harness -translate` from /repo/pkg/sparse/util.go and /repo/pkg/basic/eigentrust.go — do not edit. *)
(* Gallina rendering of KBNSummer.Add / KBNSummer.Sum and basic.Canonicalize, statement by statement (SSA lets). *)
From Coq Require Import Bool List.
From ET Require Import Model.Scalar Model.Sparse.

Definition gen_kbn_add {S : ScalarOps} (s_sum s_compensation value : S) : S * S :=
  let moreSig_1 := s_sum in
  let lessSig_1 := value in
  let c_1 := (ltb S (sabs S moreSig_1) (sabs S lessSig_1)) in
  let moreSig_2 := lessSig_1 in
  let lessSig_2 := moreSig_1 in
  let lessSig_3 := if c_1 then lessSig_2 else lessSig_1 in
  let moreSig_3 := if c_1 then moreSig_2 else moreSig_1 in
  let s_sum_1 := add S s_sum value in
  let truncatedLessSig_1 := (sub S s_sum_1 moreSig_3) in
  let s_compensation_1 := add S s_compensation (sub S lessSig_3 truncatedLessSig_1) in
  (s_sum_1, s_compensation_1).

Definition gen_kbn_sum {S : ScalarOps} (s_sum s_compensation : S) : S :=
  (add S s_sum s_compensation).

Definition kbn_translated : bool := true.

Definition gen_canon {S : ScalarOps} (entries : list (nat * S)) : res (list (nat * S)) :=
  let '(summer_sum_1, summer_compensation_1) := List.fold_left (fun st entry => gen_kbn_add (fst st) (snd st) (snd entry)) entries ((zero S), (zero S)) in
  let s_1 := (gen_kbn_sum summer_sum_1 summer_compensation_1) in
  if (eqb S s_1 (zero S)) then ErrZeroSum else
  let entries_2 := List.map (fun e => (fst e, div S (snd e) s_1)) entries in
  Ok entries_2.

Definition canon_translated : bool := true.

(* GENERATED on every run by `harness -translate` from /repo/pkg/sparse/util.go — do not edit. *)
(* Gallina rendering of the float64 kernels KBNSummer.Add / KBNSummer.Sum, statement by statement (SSA lets). *)
From Coq Require Import Bool.
From ET Require Import Model.Scalar.

Definition gen_kbn_add {S : ScalarOps} (s_sum s_compensation value : S) : S * S :=
  let sum_1 := (add S s_sum value) in
  let c_1 := (leb S value (sabs S s_sum)) in
  let s_compensation_1 := add S s_compensation (add S (sub S s_sum sum_1) value) in
  let s_compensation_2 := add S s_compensation (add S (sub S value sum_1) s_sum) in
  let s_compensation_3 := if c_1 then s_compensation_1 else s_compensation_2 in
  let s_sum_1 := sum_1 in
  (s_sum_1, s_compensation_3).

Definition gen_kbn_sum {S : ScalarOps} (s_sum s_compensation : S) : S :=
  (add S s_sum s_compensation).

Definition kbn_translated : bool := true.

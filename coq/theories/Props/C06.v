(** * C06 — Results are bit-for-bit deterministic and schedule independent. *)
From Coq Require Import List Arith Bool Permutation.
From ET Require Import Model.Scalar Model.Sparse Model.Basic Model.Proto Proofs.SparseBase Proofs.VectorProofs Proofs.ProtoProofs
  Generated.MulVecSkel.
Import ListNotations.

(** the source still has the shape the protocol model was written for *)
Theorem C06_skeleton_recognised : skel_recognised = true /\ skel_final_sort = true /\ 0 < skel_workers.
Proof. repeat split; try reflexivity. unfold skel_workers. apply Nat.lt_0_succ. Qed.
Print Assumptions C06_skeleton_recognised.

(** (G) For every order [pi] in which the collector may receive the workers'
    results (a permutation of the rows, each computed by one sequential VecDot),
    sorting by index gives exactly the row-by-row sequential product. *)
Theorem C06_arrival_independent :
  forall (S : ScalarOps) (m : csm S) (v1 r : vec S) (pi : list nat),
    mulvec m v1 = Ok r -> Permutation pi (seq 0 (major m)) -> mulvec_arrival m v1 pi = vents r.
Proof. exact @mulvec_arrival_independent. Qed.
Print Assumptions C06_arrival_independent.

(** the protocol delivers every row exactly once to the collector on success
    (for the skeleton extracted from the current source) *)
Theorem C06_all_rows_arrive_once :
  forall dim s, Proto.reach dim skel_workers skel_post_check s ->
    forall l, ret s = Some (Some l) -> Permutation l (seq 0 dim).
Proof.
  intros dim s R l H.
  exact (proto_safe dim skel_workers skel_post_check (Nat.lt_0_succ _) (eq_refl : skel_post_check = true) s R l H).
Qed.
Print Assumptions C06_all_rows_arrive_once.

(** Scores are a pure function of the inputs: the model of Compute takes no
    schedule, heap or history argument — [compute] is a Gallina function; that
    this model is faithful under every sampled schedule is what the
    correspondence check validates (PARTIAL: the real scheduler is sampled). *)
Theorem C06_compute_pure :
  forall (S : ScalarOps) fuel (c : csm S) (p : vec S) (a e : S) (o : opts S) r1 r2,
    compute fuel c p a e o = r1 -> compute fuel c p a e o = r2 -> r1 = r2.
Proof. intros; congruence. Qed.
Print Assumptions C06_compute_pure.

(** * C01 — Converged scores are the EigenTrust fixed point, within the epsilon bound.

    Over the reals ([RR] instance of the same model that is compared with the
    code at the binary64 instance).  Rounding enters the property only through
    the "+ 1e-14/a" term, which is decided per run by an exact rational
    certificate (Corr/C01.v). *)
From Coq Require Import List Arith Bool ZArith Reals.
From ET Require Import Model.Scalar Model.Sparse Model.Basic Proofs.SparseBase Proofs.RInst Proofs.BasicProofs Proofs.FixedPoint
  Proofs.ComputeProofs Proofs.Analytic Proofs.AnalyticModel Proofs.AnalyticTop.
Import ListNotations.
Local Open Scope R_scope.

(** L1 contraction of one step, factor (1-a), for row-stochastic C *)
Theorem C01_contraction :
  forall (n : nat) (C : csm RR) (p : vec RR) (a : R), row_stochastic C -> major C = n -> 0 <= a -> a <= 1 ->
    forall x y, l1 n (fun j => Gd n C p a x j - Gd n C p a y j) <= (1 - a) * l1 n (fun j => x j - y j).
Proof. intros n C p a HC Hn Ha0 Ha1. exact (Gd_contraction n C p a HC Hn Ha1). Qed.
Print Assumptions C01_contraction.

(** the solution of t = (1-a) C^T t + a p is unique (a > 0) *)
Theorem C01_fixed_point_unique :
  forall (n : nat) (C : csm RR) (p : vec RR) (a : R), row_stochastic C -> major C = n -> vdim p = n -> a <= 1 -> 0 < a ->
    forall s t, fixed_point n C p a s -> fixed_point n C p a t -> forall j, (j < n)%nat -> s j = t j.
Proof. exact fixed_point_unique. Qed.
Print Assumptions C01_fixed_point_unique.

(** one model step is one step of the dense recurrence *)
Theorem C01_step_is_recurrence :
  forall (n : nat) (C : csm RR) (p : vec RR) (a : R), row_stochastic C -> major C = n -> distribution p -> vdim p = n ->
    forall t : vec RR, WFv t -> vdim t = n ->
      exists t', iter_step (transpose C) (scalevec (a : RR) p) (a : RR) t = Ok t' /\ WFv t' /\ vdim t' = n /\
                 forall j, (j < n)%nat -> dv t' j = Gd n C p a (dv t) j.
Proof. exact step_dense. Qed.
Print Assumptions C01_step_is_recurrence.

(** Main theorem: for all dimensions, all sparse row-stochastic C, all
    distributions p, all a in (0,1], all e, every check schedule, every flat-tail
    setting and every (well-formed) initial vector: a run that ended by its
    criteria returns a vector within ((1-a)/a) * sqrt n * e of every fixed point,
    in the L1 norm. *)
Theorem C01_converged_bound :
  forall fuel (C : csm RR) (p : vec RR) (a e : RR) (o : opts RR) t k st,
    canonical C p a e o -> 0 < a ->
    compute fuel C p a e o = Done t k st -> eff_mx o <> Some k ->
    forall ts, fixed_point (major C) C p a ts ->
      l1 (major C) (fun j => dv t j - ts j) <= ((1 - a) / a) * (sqrt (INR (major C)) * e).
Proof. exact compute_converged_bound. Qed.
Print Assumptions C01_converged_bound.

(** Existence: the iteration started at the pre-trust converges coordinate-wise (geometric Cauchy
    bound from the contraction, completeness of R) to a fixed point, which is a distribution; by
    uniqueness it is THE EigenTrust vector of (C, p, a). *)
Theorem C01_fixed_point_exists :
  forall (n : nat) (C : csm RR) (p : vec RR) (a : R),
    row_stochastic C -> major C = n -> distribution p -> vdim p = n -> 0 < a -> a <= 1 ->
    exists ts, fixed_point n C p a ts /\ (forall j, (j < n)%nat -> 0 <= ts j) /\ rsum ts n = 1 /\
               forall j, (j < n)%nat -> Un_cv (fun k => xk n C p a k j) (ts j).
Proof. exact fixed_point_exists. Qed.
Print Assumptions C01_fixed_point_exists.

(** Main theorem, closed form: there is a distribution ts, the unique solution of
    t = (1-a) C^T t + a p, such that every run that ended by its criteria returned a vector within
    ((1-a)/a) * sqrt n * e of it. *)
Theorem C01_converged_to_the_eigentrust_vector :
  forall (C : csm RR) (p : vec RR) (a e : RR) (o : opts RR),
    canonical C p a e o -> 0 < a ->
    exists ts, fixed_point (major C) C p a ts /\ (forall j, (j < major C)%nat -> 0 <= ts j) /\ rsum ts (major C) = 1 /\
      (forall s, fixed_point (major C) C p a s -> forall j, (j < major C)%nat -> s j = ts j) /\
      forall fuel t k st, compute fuel C p a e o = Done t k st -> eff_mx o <> Some k ->
        l1 (major C) (fun j => dv t j - ts j) <= ((1 - a) / a) * (sqrt (INR (major C)) * e).
Proof. exact compute_converges_to_eigentrust. Qed.
Print Assumptions C01_converged_to_the_eigentrust_vector.


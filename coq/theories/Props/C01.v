(** * C01 — Converged scores are the EigenTrust fixed point, within the epsilon bound.

    Over the reals ([RR] instance of the same model that is compared with the
    code at the binary64 instance).  Rounding enters the property only through
    the "+ 1e-14/a" term, which is decided per run by an exact rational
    certificate (Corr/C01.v). *)
From Coq Require Import List Arith Bool ZArith Reals.
From ET Require Import Model.Scalar Model.Sparse Model.Basic Proofs.SparseBase Proofs.RInst Proofs.BasicProofs
  Proofs.ComputeProofs Proofs.Analytic Proofs.AnalyticModel Proofs.AnalyticTop.
Import ListNotations.
Local Open Scope R_scope.

(** L1 contraction of one step, factor (1-a), for row-stochastic C *)
Theorem C01_contraction :
  forall (n : nat) (C : csm RR) (p : vec RR) (a : R), row_stochastic C -> major C = n -> 0 <= a -> a <= 1 ->
    forall x y, l1 n (fun j => Gd n C p a x j - Gd n C p a y j) <= (1 - a) * l1 n (fun j => x j - y j).
Proof. intros n C p a HC Hn Ha0 Ha1. exact (Gd_contraction n C p a HC Hn Ha1). Qed.
Print Assumptions C01_contraction.

(** the solution of t = (1-a) C^T t + a p is unique (a > 0) *)
Theorem C01_fixed_point_unique :
  forall (n : nat) (C : csm RR) (p : vec RR) (a : R), row_stochastic C -> major C = n -> vdim p = n -> a <= 1 -> 0 < a ->
    forall s t, fixed_point n C p a s -> fixed_point n C p a t -> forall j, (j < n)%nat -> s j = t j.
Proof. exact fixed_point_unique. Qed.
Print Assumptions C01_fixed_point_unique.

(** one model step is one step of the dense recurrence *)
Theorem C01_step_is_recurrence :
  forall (n : nat) (C : csm RR) (p : vec RR) (a : R), row_stochastic C -> major C = n -> distribution p -> vdim p = n ->
    forall t : vec RR, WFv t -> vdim t = n ->
      exists t', iter_step (transpose C) (scalevec (a : RR) p) (a : RR) t = Ok t' /\ WFv t' /\ vdim t' = n /\
                 forall j, (j < n)%nat -> dv t' j = Gd n C p a (dv t) j.
Proof. exact step_dense. Qed.
Print Assumptions C01_step_is_recurrence.

(** Main theorem: for all dimensions, all sparse row-stochastic C, all
    distributions p, all a in (0,1], all e, every check schedule, every flat-tail
    setting and every (well-formed) initial vector: a run that ended by its
    criteria returns a vector within ((1-a)/a) * sqrt n * e of every fixed point,
    in the L1 norm. *)
Theorem C01_converged_bound :
  forall fuel (C : csm RR) (p : vec RR) (a e : RR) (o : opts RR) t k st,
    canonical C p a e o -> 0 < a ->
    compute fuel C p a e o = Done t k st -> eff_mx o <> Some k ->
    forall ts, fixed_point (major C) C p a ts ->
      l1 (major C) (fun j => dv t j - ts j) <= ((1 - a) / a) * (sqrt (INR (major C)) * e).
Proof. exact compute_converged_bound. Qed.
Print Assumptions C01_converged_bound.

(** PARTIAL (existence): the theorem bounds the distance to *every* fixed
    point and proves there is at most one; existence of the fixed point over R
    is not proved here (no Banach fixed-point theorem in the installed
    libraries); for each concrete run the correspondence check receives an exact
    rational fixed point and verifies it in the kernel. *)

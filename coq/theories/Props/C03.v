(** * C03 — OpenAPI compute applies the documented defaults, alignment and substitution. *)
From Coq Require Import List Arith Bool ZArith.
From ET Require Import Model.Scalar Model.Sparse Model.Basic Model.Oapi Proofs.SparseBase Proofs.OapiSpec Proofs.OapiProofs.
Import ListNotations.

(** The handler (implementation-shaped: staged alignment switches, in-place
    steps in code order) equals the declarative specification [oapi_spec] for
    every request and every store of square matrices: dimension n = the largest
    given size; pre-trust padded to n and canonicalised (absent or all-zero =
    uniform); start vector = canonicalised padded initial trust or the pre-trust;
    alpha default 0.5; epsilon default 1e-6/n; negative entries extracted at
    dimension n, every row without positive trust replaced by the pre-trust,
    discounts row-normalised and applied after the compute. *)
Theorem C03_handler_is_spec :
  forall (S : ScalarOps) fuel deps (st : store S) (q : request S),
    store_square st -> oapi_compute fuel deps st q = oapi_spec fuel deps st q.
Proof. exact @oapi_compute_is_spec. Qed.
Print Assumptions C03_handler_is_spec.

(** the store invariant assumed above is established by every loader *)
Theorem C03_loaded_matrices_square :
  forall (S : ScalarOps) (st : store S) r c, store_square st -> load_mat st r = Some c -> square_wf c.
Proof. exact @load_mat_square. Qed.
Print Assumptions C03_loaded_matrices_square.

(** growing to the largest size in two stages is growing once *)
Theorem C03_alignment_to_max :
  forall (S : ScalarOps) n1 n2 (c : csm S), square_wf c -> major c <= n1 -> n1 <= n2 ->
    set_dim n2 n2 (set_dim n1 n1 c) = set_dim n2 n2 c.
Proof. exact @set_dim_grow_grow. Qed.
Print Assumptions C03_alignment_to_max.

(** Both endpoints run the same function in the model; that they return the
    same size and entries is compared on every case.  The scores of [oapi_spec]
    are those of [compute] on the effective inputs, for which C01/C02 hold. *)

(** * C10 — Matrix construction, transpose and resize equal their dense counterparts.

    Statements only; proofs are [exact] of lemmas in Proofs/MatrixProofs.v.
    All theorems are for every scalar instance (no arithmetic is involved). *)
From Coq Require Import List Arith Bool Permutation Floats.
From ET Require Import Model.Scalar Model.Sparse Proofs.SparseBase Proofs.MergeProofs Proofs.MatrixProofs.
Import ListNotations.

(** Building from coordinate entries (distinct coordinates, in range, any
    order): exactly the listed cells, zeros kept only on request, rows strictly
    sorted by column and within the dimension. *)
Theorem C10_new_csr_cells :
  forall (S : ScalarOps) nr nc (es : list (coo S)) z,
    NoDup (coords es) -> Forall (coo_in_range nr nc) es ->
    WFm (new_csr nr nc es z) /\ major (new_csr nr nc es z) = nr /\ minor (new_csr nr nc es z) = nc /\
    forall r c, r < nr ->
      lookup c (row (new_csr nr nc es z) r) =
      match coo_lookup r c es with Some x => if z || nz x then Some x else None | None => None end.
Proof. exact @new_csr_cells. Qed.
Print Assumptions C10_new_csr_cells.

(** Any function returning a sorted permutation of a row with distinct columns
    yields the same row: Go's unstable sort.Sort is covered. *)
Theorem C10_sort_irrelevant :
  forall (S : ScalarOps) (l s : list (nat * S)),
    NoDup (map fst l) -> Permutation l s -> sorted s -> s = sort_by_index l.
Proof. exact @sort_unique. Qed.
Print Assumptions C10_sort_irrelevant.

(** Transpose equals the dense transpose, preserves well-formedness ... *)
Theorem C10_transpose_dense :
  forall (S : ScalarOps) (m : csm S), WFm m ->
    WFm (transpose m) /\ major (transpose m) = minor m /\ minor (transpose m) = major m /\
    forall r c, c < minor m -> lookup r (row (transpose m) c) = lookup c (row m r).
Proof. exact @transpose_spec. Qed.
Print Assumptions C10_transpose_dense.

(** ... and is an involution. *)
Theorem C10_transpose_involutive :
  forall (S : ScalarOps) (m : csm S), WFm m -> transpose (transpose m) = m.
Proof. exact @transpose_involutive. Qed.
Print Assumptions C10_transpose_involutive.

(** The shared CSC view of a CSR matrix (same spans, major = columns of the
    view) agrees with the copying transpose: same shape, same cells. *)
Theorem C10_view_agrees :
  forall (S : ScalarOps) (m : csm S), WFm m ->
    csc_dims m = csr_dims (transpose m) /\
    forall i j, i < minor m -> lookup i (row m j) = lookup j (row (transpose m) i).
Proof.
  intros S m W. destruct (transpose_spec m W) as (_ & Hmaj & Hmin & Hcell).
  split. unfold csc_dims, csr_dims. congruence.
  intros i j Hi. symmetry. apply Hcell; auto.
Qed.
Print Assumptions C10_view_agrees.

(** Resizing equals dense crop-and-zero-pad for every sequence of SetDim /
    SetMajorDim / SetMinorDim calls interleaved with transposes: the stored
    cells after the history are those of the dense history (so cells removed by
    a shrink never reappear), and well-formedness holds in every reachable
    state. *)
Theorem C10_resize_history :
  forall (S : ScalarOps) (ops : list op) (m : csm S),
    WFm m -> Forall resize_op ops ->
    WFm (fold_left apply_op ops m) /\
    dense_eq (abs (fold_left apply_op ops m)) (fold_left dense_apply ops (abs m)).
Proof. exact @resize_history. Qed.
Print Assumptions C10_resize_history.

(** One step of any operation, merges included (merges on the non-zero content, cf. C11). *)
Theorem C10_step :
  forall (S : ScalarOps) (m : csm S) (o : op),
    WFm m -> (forall b, o = OMerge b -> WFm b) ->
    WFm (apply_op m o) /\
    match o with
    | OMerge _ => nz_eq (abs (apply_op m o)) (dense_apply (abs m) o)
    | _ => dense_eq (abs (apply_op m o)) (dense_apply (abs m) o)
    end.
Proof. exact @apply_op_step. Qed.
Print Assumptions C10_step.

(** Every stored column index stays within the current dimension, for every
    history including merges. *)
Theorem C10_history_wf :
  forall (S : ScalarOps) (ops : list op) (m : csm S),
    WFm m -> Forall (fun o => forall b, o = OMerge b -> WFm b) ops -> WFm (fold_left apply_op ops m).
Proof. exact @history_wf. Qed.
Print Assumptions C10_history_wf.

(** Non-vacuity: shrink-then-grow on a concrete binary64 matrix. *)
Example C10_nonvacuous :
  let m : csm F64 := @new_csr F64 3 3 [(2, 1, 5%float); (0, 2, 1%float)] false in
  lookup 1 (row m 2) = Some 5%float /\
  lookup 1 (row (fold_left apply_op [OSetDim 1 1; OSetDim 3 3] m) 2) = None /\
  major (fold_left apply_op [OSetDim 1 1; OSetDim 3 3] m) = 3.
Proof. repeat split. Qed.

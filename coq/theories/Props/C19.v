(** * C19 — CLI and CSV ingestion preserve peer identity and values end to end.

    Statements only; every proof is [exact] of a lemma in Proofs/CsvProofs.v.  A CSV file is
    the list of records encoding/csv delivers plus the way the stream ends; every field carries
    what strconv makes of it (see Model/Csv.v).  All theorems hold for every scalar instance. *)
From Coq Require Import List Arith Bool ZArith NArith.
From ET Require Import Model.Scalar Model.Sparse Model.Csv Proofs.SparseBase Proofs.MatrixProofs Proofs.CsvProofs.
Import ListNotations.

(** The peer table after any stream of names is duplicate-free, extends what was there, contains
    exactly the names seen, and a name's index is the number of distinct names seen before its
    first appearance. *)
Theorem C19_table_first_appearance :
  forall (t p : list name) (x : name) (q : list name), ~ In x t -> ~ In x p ->
    index_of x (first_seen t (p ++ x :: q)) = Some (length (first_seen t p)).
Proof. exact first_seen_index. Qed.
Print Assumptions C19_table_first_appearance.

Theorem C19_table_nodup : forall xs t, NoDup t -> NoDup (first_seen t xs).
Proof. exact first_seen_nodup. Qed.
Print Assumptions C19_table_nodup.

Theorem C19_table_members : forall xs t y, In y (first_seen t xs) <-> In y t \/ In y xs.
Proof. exact first_seen_in. Qed.
Print Assumptions C19_table_members.

(** The request the CLI assembles from the three files (named mode): one table, in order of first
    appearance over local trust, pre-trust, initial trust; entry k of each file is record k with its
    peers named through the FINAL table and its value (1 when the column is missing); the sizes are
    highest index + 1 and never exceed the table. *)
Theorem C19_request_is_the_csv :
  forall (S : ScalarOps) header (lt : @csvin S) (pt it : option (@csvin S)) (rq : @request S),
    build_request header false lt pt it = ROk rq ->
    rq_ids rq = first_seen [] (flat_map rec_names (data (recs lt) header) ++ onames vrec_names header pt ++ onames vrec_names header it) /\
    NoDup (rq_ids rq) /\
    Forall2 (arc_ok (rq_ids rq)) (ml_entries (rq_local rq)) (data (recs lt) header) /\
    ml_size (rq_local rq) = dim_of (map (fun e => fst (fst e)) (ml_entries (rq_local rq)) ++ map (fun e => snd (fst e)) (ml_entries (rq_local rq))) /\
    ml_size (rq_local rq) <= length (rq_ids rq) /\
    ovec_ok header (rq_ids rq) pt (rq_pre rq) /\ ovec_ok header (rq_ids rq) it (rq_init rq).
Proof. exact @build_request_spec. Qed.
Print Assumptions C19_request_is_the_csv.

(** The output pass maps an index back to the name it was assigned to, also after the table has
    grown; every index below the table length has a name (the output never fails on a response of
    the request's size), and that name's index is the row's index. *)
Theorem C19_index_maps_back :
  forall (S : ScalarOps) t (f : @field S) t' z s, get_peer_index false t f = Some (t', z) ->
    get_peer_id false (t' ++ s) (Z.to_nat z) = Some (IdName (f_raw f)).
Proof. exact @peer_id_roundtrip. Qed.
Print Assumptions C19_index_maps_back.

Theorem C19_output_names_total :
  forall (S : ScalarOps) header lt pt it (rq : @request S) i,
    build_request header false lt pt it = ROk rq -> i < length (rq_ids rq) ->
    exists n, get_peer_id false (rq_ids rq) i = Some (IdName n) /\ index_of n (rq_ids rq) = Some i.
Proof. exact @output_names_total. Qed.
Print Assumptions C19_output_names_total.

Theorem C19_raw_mode_is_the_literal :
  forall (S : ScalarOps) t (f : @field S) t' z, get_peer_index true t f = Some (t', z) -> (0 <= z)%Z ->
    t' = t /\ f_pint f = Some z /\ get_peer_id true t' (Z.to_nat z) = Some (IdRaw (Z.to_nat z)).
Proof. exact @peer_id_raw_roundtrip. Qed.
Print Assumptions C19_raw_mode_is_the_literal.

(** Library readers: success exactly on clean files whose records are all well-formed; the result
    is the square matrix of dimension highest index + 1 holding exactly the listed arcs. *)
Theorem C19_read_local_trust_ok_iff :
  forall (S : ScalarOps) names (i : @csvin S),
    (exists m, read_local_trust names i = ROk m) <-> clean_eof i = true /\ Forall (lt_wellformed names) (recs i).
Proof. exact @read_local_trust_ok_iff. Qed.
Print Assumptions C19_read_local_trust_ok_iff.

Theorem C19_read_local_trust_cells :
  forall (S : ScalarOps) names (i : @csvin S) m es,
    read_local_trust names i = ROk m -> Forall2 (lt_arc names) es (recs i) -> NoDup (coords es) ->
    WFm m /\ major m = minor m /\
    forall r c, r < major m ->
      lookup c (row m r) = match coo_lookup r c es with Some x => if nz x then Some x else None | None => None end.
Proof. exact @read_local_trust_cells. Qed.
Print Assumptions C19_read_local_trust_cells.

Theorem C19_read_local_trust_dim :
  forall (S : ScalarOps) names (i : @csvin S) m,
    read_local_trust names i = ROk m ->
    clean_eof i = true /\ exists es, Forall2 (lt_arc names) es (recs i) /\
      let d := dim_of (map (fun e => fst (fst e)) es ++ map (fun e => snd (fst e)) es) in
      m = new_csr d d es false /\ Forall (coo_in_range d d) es.
Proof. exact @read_local_trust_ok. Qed.
Print Assumptions C19_read_local_trust_dim.

Theorem C19_read_trust_vector_ok_iff :
  forall (S : ScalarOps) names (i : @csvin S),
    (exists v, read_trust_vector names i = ROk v) <-> clean_eof i = true /\ Forall (tv_wellformed names) (recs i).
Proof. exact @read_trust_vector_ok_iff. Qed.
Print Assumptions C19_read_trust_vector_ok_iff.

Theorem C19_read_trust_vector :
  forall (S : ScalarOps) names (i : @csvin S) v,
    read_trust_vector names i = ROk v ->
    clean_eof i = true /\ exists es, Forall2 (tv_arc names) es (recs i) /\
      v = new_vec (dim_of (map fst es)) es /\ Forall (fun e => fst e < dim_of (map fst es)) es.
Proof. exact @read_trust_vector_ok. Qed.
Print Assumptions C19_read_trust_vector.

Theorem C19_read_peer_names :
  forall (S : ScalarOps) (i : @csvin S) ns, read_peer_names i = ROk ns ->
    clean_eof i = true /\ NoDup ns /\ ns = map (fun r => match r with f :: _ => f_raw f | [] => [] end) (recs i) /\
    forall k n, nth_error ns k = Some n -> index_of n ns = Some k.
Proof. exact @read_peer_names_ok. Qed.
Print Assumptions C19_read_peer_names.

(** Which local-trust files the CLI accepts (named mode): exactly those whose records all have 2 or
    3 fields (the header too), whose data records carry a parsable and JSON-representable value,
    with at least one data record and a clean end of stream; everything else is an error. *)
Theorem C19_cli_matrix_accepts_iff :
  forall (S : ScalarOps) header t (i : @csvin S), NoDup t ->
    (exists l, load_matrix_csv header false t i = ROk l) <->
    clean_eof i = true /\ Forall count_ok (recs i) /\ data (recs i) header <> [] /\
    Forall (fun r => match r with _ :: _ :: tl => exists v, rec_value tl = Some v /\ nonfinite S v = false | _ => False end) (data (recs i) header).
Proof. exact @load_matrix_csv_ok_iff. Qed.
Print Assumptions C19_cli_matrix_accepts_iff.

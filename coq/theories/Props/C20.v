(** * C20 — the playground's result page equals the reference for every upload.

    Statements only; every proof is [exact] of a lemma in Proofs/PlaygroundProofs.v.  The handler
    is [calculate] = [prepare] (upload parsing, dimension alignment) ; [pipeline] (canonicalise,
    split off distrust, Compute with alpha = confidence/100 and the hard-coded epsilon, discount:
    the same composition as the API server's, whose Compute is the subject of C01/C05) ; [render].
    [ltb_asym] (x < y -> not y < x) is the only fact about the score comparison that is used; it
    holds for binary64 (NaN included) and for the reals. *)
From Coq Require Import List Arith Bool ZArith Sorted Permutation.
From ET Require Import Model.Scalar Model.Sparse Model.Basic Model.Csv Model.Playground
  Proofs.SparseBase Proofs.PlaygroundProofs Proofs.BoundedProofs.
Import ListNotations.

(** A result page is produced exactly through the three stages. *)
Theorem C20_result_is_pipeline :
  forall (S : ScalarOps) fuel eps (u : @upload S) flags rows arcs,
    calculate fuel eps u = PResult flags rows arcs ->
    exists names lt1 pt1 h t',
      prepare u = inr (names, lt1, pt1, h) /\ pipeline fuel eps lt1 pt1 h = PipeOk t' /\
      render names lt1 pt1 t' = PResult flags rows arcs.
Proof. exact @calculate_result. Qed.
Print Assumptions C20_result_is_pipeline.

(** The page: every peer exactly once (the row indices are a permutation of 0..dim-1), no row is
    followed by a strictly greater score, the flags mark exactly the peers with an entry in the
    pre-trust vector, every row carries its peer's name (from the names file, else "Peer i") and
    the pipeline's score for that peer (0 for peers the sparse result omits). *)
Theorem C20_page_contents :
  forall (S : ScalarOps), (forall x y : T S, ltb S x y = true -> ltb S y x = false) ->
  forall names (lt1 : csm S) (pt1 t' : vec S) flags rows arcs,
    render names lt1 pt1 t' = PResult flags rows arcs ->
    Permutation (map p_index rows) (seq 0 (vdim pt1)) /\
    LocallySorted not_below rows /\
    length flags = vdim pt1 /\
    (forall i, nth i flags false = existsb (Nat.eqb i) (map fst (vents pt1))) /\
    (forall r, In r rows -> name_for names (p_index r) = Some (p_name r)) /\
    (NoDup (map fst (vents t')) -> forall r, In r rows -> p_score r = den (vents t') (p_index r)) /\
    arcs = mnnz lt1.
Proof. exact @render_spec. Qed.
Print Assumptions C20_page_contents.

(** Dimension: the names file is authoritative, otherwise the larger of the two inputs; the
    aligned pre-trust has the uploaded file's entries (so the flags are the file's peers). *)
Theorem C20_dimension_and_alignment :
  forall (S : ScalarOps) (u : @upload S) names lt1 pt1 h,
    prepare u = inr (names, lt1, pt1, h) ->
    (0 <= h <= 100)%Z /\ major lt1 = vdim pt1 /\ minor lt1 = vdim pt1 /\ bounded (vdim pt1) (vents pt1) /\
    (forall ns, names = Some ns -> vdim pt1 = length ns) /\
    (exists ltf ptf, u_lt u = Some ltf /\ u_pt u = Some ptf /\
       exists lt pt, read_local_trust names ltf = ROk lt /\ read_trust_vector names ptf = ROk pt /\
         (names = None -> vdim pt1 = Nat.max (major lt) (vdim pt)) /\
         (forall i, existsb (Nat.eqb i) (map fst (vents pt1)) = existsb (Nat.eqb i) (map fst (vents pt)))).
Proof. exact @prepare_spec. Qed.
Print Assumptions C20_dimension_and_alignment.

(** Unusable uploads (missing file, bad confidence, unreadable CSV, larger than the peer list)
    are the 400 error page. *)
Theorem C20_unusable_is_400 :
  forall (S : ScalarOps) fuel eps (u : @upload S) c, prepare u = inl c -> calculate fuel eps u = P400 c.
Proof. exact @calculate_refusals. Qed.
Print Assumptions C20_unusable_is_400.

(** No upload makes the handler panic: every slice access of calculate ([preTrusted[e.Index]],
    [entries[e.Index]], [peerNames[i]]) is in range because every entry index the readers, the
    alignment, Compute and DiscountTrustVector produce stays below the dimension
    (Proofs/BoundedProofs.v), and Compute's flat-tail slice is unreachable with the default options.
    Every upload is answered by the result page, the 400 page, or the exhaustion of the fuel. *)
Theorem C20_never_panics :
  forall (S : ScalarOps) fuel eps (u : @upload S), calculate fuel eps u <> PCrash.
Proof. exact @calculate_never_crashes. Qed.
Print Assumptions C20_never_panics.

Theorem C20_pipeline_in_range :
  forall (S : ScalarOps) fuel eps (lt1 : csm S) (pt1 : vec S) h t',
    pipeline fuel eps lt1 pt1 h = PipeOk t' ->
    major lt1 = vdim pt1 -> rows_bounded (vdim pt1) lt1 -> bounded (vdim pt1) (vents pt1) ->
    bounded (vdim pt1) (vents t').
Proof. exact @pipeline_bounded. Qed.
Print Assumptions C20_pipeline_in_range.

Theorem C20_render_total :
  forall (S : ScalarOps) names (lt1 : csm S) (pt1 t' : vec S),
    bounded (vdim pt1) (vents pt1) -> bounded (vdim pt1) (vents t') ->
    (forall ns, names = Some ns -> vdim pt1 <= length ns) ->
    exists flags rows arcs, render names lt1 pt1 t' = PResult flags rows arcs.
Proof. exact @render_total. Qed.
Print Assumptions C20_render_total.

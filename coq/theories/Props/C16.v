(** * C16 — gRPC trust stores follow map semantics with monotone timestamps. *)
From Coq Require Import List Arith Bool ZArith NArith.
From ET Require Import Model.Scalar Model.Sparse Model.Basic Model.Grpc Proofs.SparseBase Proofs.MergeProofs Proofs.GrpcProofs.
Import ListNotations.

(** timestamps of any size survive the qword encoding unchanged *)
Theorem C16_qwords_roundtrip : forall n : N, of_qwords (to_qwords n) = n.
Proof. exact qwords_roundtrip. Qed.
Print Assumptions C16_qwords_roundtrip.

(** an accepted update merges the batch and moves the timestamp to
    max(current, update): the largest update timestamp since the last flush *)
Theorem C16_update_timestamp_max :
  forall (S : ScalarOps) (s : gstate S) id ts es m ts0 m',
    aget (g_mats s) id = Some (m, ts0) -> matrix_update m es = Some (inr m') ->
    snd (gstep s (MUpdate id ts es)) = GStatus GOk /\
    aget (g_mats (fst (gstep s (MUpdate id ts es)))) id = Some (m', N.max ts0 ts).
Proof. exact @update_timestamp_max. Qed.
Print Assumptions C16_update_timestamp_max.

Theorem C16_vector_update_timestamp_max :
  forall (S : ScalarOps) (s : gstate S) id ts es v ts0 v',
    aget (g_vecs s) id = Some (v, ts0) -> vector_update v es = Some (inr v') ->
    snd (gstep s (VUpdate id ts es)) = GStatus GOk /\
    aget (g_vecs (fst (gstep s (VUpdate id ts es)))) id = Some (v', N.max ts0 ts).
Proof. exact @vupdate_timestamp_max. Qed.
Print Assumptions C16_vector_update_timestamp_max.

(** it never moves backwards: no request other than Flush / Delete / Create of
    that id lowers a matrix timestamp *)
Theorem C16_timestamp_monotone :
  forall (S : ScalarOps) (s : gstate S) (r : greq S) id t0,
    resets r id = false -> mts s id = Some t0 ->
    exists t1, mts (fst (gstep s r)) id = Some t1 /\ (t0 <= t1)%N.
Proof. exact @timestamp_monotone. Qed.
Print Assumptions C16_timestamp_monotone.

(** the content after an accepted update is the C11 merge of the batch built
    from the parsed entries with zeros included (so that a zero erases), squared
    to the largest index + 1 *)
Theorem C16_update_is_merge :
  forall (S : ScalarOps) (c : csm S) es, all_valid es ->
    exists d, matrix_update c es = Some (inr (fst (mmerge c (new_csr d d (parsed_coos es) true)))) /\ d = batch_dim es.
Proof. exact @matrix_update_spec. Qed.
Print Assumptions C16_update_is_merge.

(** a refused update (unparsable or negative index) changes nothing *)
Theorem C16_update_refused_unchanged :
  forall (S : ScalarOps) (s : gstate S) id ts es m ts0 c,
    aget (g_mats s) id = Some (m, ts0) -> matrix_update m es = Some (inl c) -> gstep s (MUpdate id ts es) = (s, GStatus c).
Proof. exact @update_refused_unchanged. Qed.
Print Assumptions C16_update_refused_unchanged.

(** calls on unknown ids report NotFound; naming an existing id in Create is an error *)
Theorem C16_unknown_id_not_found :
  forall (S : ScalarOps) (s : gstate S) id, aget (g_mats s) id = None ->
    (forall ts es, gstep s (MUpdate id ts es) = (s, GStatus GNotFound)) /\
    gstep s (MGet id) = (s, GStatus GNotFound) /\ gstep s (MFlush id) = (s, GStatus GNotFound) /\
    gstep s (MDelete id) = (s, GStatus GNotFound).
Proof. exact @unknown_id_not_found. Qed.
Print Assumptions C16_unknown_id_not_found.

Theorem C16_create_existing_refused :
  forall (S : ScalarOps) (s : gstate S) id f x, aget (g_mats s) id = Some x -> gstep s (MCreate (Some id) f) = (s, GStatus GUnknown).
Proof. exact @create_existing_refused. Qed.
Print Assumptions C16_create_existing_refused.

(** PARTIAL: uniqueness of server-drawn ids rests on crypto/rand plus the
    LoadOrStore retry loop (the model takes the drawn id as an input and the
    oracle checks freshness of every observed id); concurrent clients are
    sampled, not proved. *)

(** The codec normalises: decoding any qword list (every qword below 2^64) and encoding the value
    again gives the same list without its leading zero qwords. *)
Theorem C16_qwords_normalise :
  forall qs : list N, Forall (fun w => (w < Q64)%N) qs -> to_qwords (of_qwords qs) = strip0 qs.
Proof. exact qwords_normalise. Qed.
Print Assumptions C16_qwords_normalise.

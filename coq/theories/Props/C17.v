(** * C17 — gRPC BasicCompute stores the EigenTrust result with correct provenance. *)
From Coq Require Import List Arith Bool ZArith NArith.
From ET Require Import Model.Scalar Model.Sparse Model.Basic Model.Grpc Proofs.GrpcProofs.
Import ListNotations.

(** local trust is never modified, whatever the outcome *)
Theorem C17_preserves_matrices :
  forall (S : ScalarOps) fuel deps (s : gstate S) q, g_mats (fst (basic_compute fuel deps s q)) = g_mats s.
Proof. exact @basic_compute_preserves_matrices. Qed.
Print Assumptions C17_preserves_matrices.

(** every vector other than the named outputs (global trust, positive-only) is
    untouched — in particular the pre-trust *)
Theorem C17_other_vectors_untouched :
  forall (S : ScalarOps) fuel deps (s : gstate S) q k,
    k <> bc_global q -> (forall g, bc_positive q = Some g -> k <> g) ->
    aget (g_vecs (fst (basic_compute fuel deps s q))) k = aget (g_vecs s) k.
Proof. exact @basic_compute_other_vectors. Qed.
Print Assumptions C17_other_vectors_untouched.

(** a refused request (NotFound, InvalidArgument, failed compute) writes nothing *)
Theorem C17_refusal_unchanged :
  forall (S : ScalarOps) fuel deps (s : gstate S) q,
    snd (basic_compute fuel deps s q) <> GOk -> fst (basic_compute fuel deps s q) = s.
Proof. exact @basic_compute_refusal_unchanged. Qed.
Print Assumptions C17_refusal_unchanged.

Theorem C17_unknown_local_not_found :
  forall (S : ScalarOps) fuel deps (s : gstate S) q,
    aget (g_mats s) (bc_local q) = None -> basic_compute fuel deps s q = (s, GNotFound).
Proof. exact @basic_compute_unknown_local. Qed.
Print Assumptions C17_unknown_local_not_found.

(** PARTIAL: that the stored result is the discounted EigenTrust vector of the
    effective inputs (warm start, uniform pre-trust default, alpha / epsilon /
    max_iterations honoured) and the timestamp rule max(own, inputs) are the
    *definition* of [basic_compute] (a hand-copied variant of the OpenAPI
    pipeline, as in the code); their agreement with the OpenAPI specification
    [oapi_spec] of C03 on the same inputs is decided per run by the oracle of
    Corr/C17.v, not proved as a theorem. *)

(** No timestamp of any stored vector is ever lowered by BasicCompute, whatever the outcome. *)
Theorem C17_timestamps_never_lowered :
  forall (S : ScalarOps) fuel deps (s : gstate S) q k v ts,
    aget (g_vecs s) k = Some (v, ts) ->
    exists v' ts', aget (g_vecs (fst (basic_compute fuel deps s q))) k = Some (v', ts') /\ (ts <= ts')%N.
Proof. exact @basic_compute_timestamps_monotone. Qed.
Print Assumptions C17_timestamps_never_lowered.

(** An accepted BasicCompute stamps the global-trust vector with a timestamp at least as new as
    the local trust's and the pre-trust's. *)
Theorem C17_result_stamped_with_newest_input :
  forall (S : ScalarOps) fuel deps (s : gstate S) q c tsc,
    snd (basic_compute fuel deps s q) = GOk -> aget (g_mats s) (bc_local q) = Some (c, tsc) ->
    exists v' ts', aget (g_vecs (fst (basic_compute fuel deps s q))) (bc_global q) = Some (v', ts') /\ (tsc <= ts')%N /\
      (forall pid p tsp, bc_pre q = Some pid -> aget (g_vecs s) pid = Some (p, tsp) -> (tsp <= ts')%N).
Proof. exact @basic_compute_stamp. Qed.
Print Assumptions C17_result_stamped_with_newest_input.

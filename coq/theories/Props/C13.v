(** * C13 — Stored local trust (OpenAPI) is a key-to-matrix store. *)
From Coq Require Import List Arith Bool ZArith.
From ET Require Import Model.Scalar Model.Sparse Model.Basic Model.Oapi Proofs.SparseBase Proofs.MergeProofs Proofs.OapiSpec Proofs.OapiProofs.
Import ListNotations.

(** For every finite request history (PUT, PUT?merge, GET, HEAD, DELETE over any
    ids) the responses equal those of the sequential map from id to matrix:
    201 when the PUT created the id and 200 otherwise, merge = Merge of C11 onto
    the existing matrix, GET = current size and entries or 404, HEAD/DELETE
    204/404 by existence, unloadable bodies 400. *)
Theorem C13_store_refines_map :
  forall (S : ScalarOps) (rs : list (sreq S)) (st : store S) (f : mspec),
    (forall k, abs_store st k = f k) -> run_store st rs = run_mspec f rs.
Proof. exact @store_refines_map. Qed.
Print Assumptions C13_store_refines_map.

(** invalid bodies are refused with 400, leaving the store unchanged *)
Theorem C13_invalid_unchanged :
  forall (S : ScalarOps) (st : store S) id body mg,
    load_mat st body = None -> store_step st (SPut id body mg) = (st, S400).
Proof. exact @put_invalid_unchanged. Qed.
Print Assumptions C13_invalid_unchanged.

Theorem C13_invalid_inline :
  forall (S : ScalarOps) (m : inline_mat S),
    (im_size m <= 0)%Z \/ (exists i j v, In (i, j, v) (im_entries m) /\ (i < 0 \/ im_size m <= i \/ j < 0 \/ im_size m <= j)%Z) ->
    load_inline_mat m = None.
Proof. exact @invalid_inline_refused. Qed.
Print Assumptions C13_invalid_inline.

(** merge overlays onto the existing matrix and enlarges it as needed (C11) *)
Theorem C13_merge_overlays :
  forall (S : ScalarOps) (m m2 : csm S), WFm m -> WFm m2 ->
    let '(r, a) := mmerge m m2 in
    major r = Nat.max (major m) (major m2) /\ minor r = Nat.max (minor m) (minor m2) /\
    a = mempty /\ WFm r /\ forall i j, obs2 r i j = overlay (obs2 m i) (row m2 i) j.
Proof. exact @mmerge_spec. Qed.
Print Assumptions C13_merge_overlays.

(** a GET body is itself a valid inline reference that reproduces the matrix *)
Theorem C13_get_put_roundtrip :
  forall (S : ScalarOps) (m : csm S), WFm m -> minor m = major m -> 0 < major m -> no_zero_entries m ->
    load_inline_mat (body_of m) = Some m.
Proof. exact @get_put_roundtrip. Qed.
Print Assumptions C13_get_put_roundtrip.

(** PARTIAL (concurrency): "concurrent requests behave as some sequential order,
    without data races" is not a theorem here: every run records concurrent
    client histories against the real handlers under the Go race detector and
    checks them for linearizability w.r.t. the sequential specification
    (porcupine) — sampled schedules. *)

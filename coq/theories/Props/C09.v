(** * C09 — Sparse vector algebra equals dense arithmetic, with compensated sums.

    G = for every scalar instance, R = real-number instance, F = binary64.
    Statements only; proofs are [exact] of lemmas in Proofs/. *)
From Coq Require Import List Arith Bool Permutation Floats Reals.
From ET Require Import Model.Scalar Model.Sparse Proofs.SparseBase Proofs.MergeProofs Proofs.VectorProofs
  Proofs.RInst Proofs.F64Lemmas Generated.KbnGen Proofs.KbnGenProofs
  Proofs.ScaleRound Proofs.F64Round Proofs.F64Scale Proofs.RoundNonneg Proofs.RoundAccuracy Proofs.F64Nonneg.
From Flocq Require Core.
Import ListNotations.

(** (G) Sum: equal dimensions give a well-formed result (strictly increasing,
    in-range indices) whose element at [i] is the IEEE sum where both operands
    have an entry and the operand's own value where only one has; unequal
    dimensions are an error and nothing is computed. *)
Theorem C09_addvec :
  forall (S : ScalarOps) (v1 v2 : vec S), WFv v1 -> WFv v2 ->
    if vdim v1 =? vdim v2 then
      exists r, addvec v1 v2 = Ok r /\ vdim r = vdim v1 /\ WFv r /\
        forall i, lookup i (vents r) =
          match lookup i (vents v1), lookup i (vents v2) with
          | Some x, Some y => Some (add S x y) | Some x, None => Some x
          | None, Some y => Some y | None, None => None end
    else addvec v1 v2 = ErrDim.
Proof. exact @addvec_spec. Qed.
Print Assumptions C09_addvec.

Theorem C09_subvec :
  forall (S : ScalarOps) (v1 v2 : vec S), WFv v1 -> WFv v2 ->
    if vdim v1 =? vdim v2 then
      exists r, subvec v1 v2 = Ok r /\ vdim r = vdim v1 /\ WFv r /\
        forall i, lookup i (vents r) =
          match lookup i (vents v1), lookup i (vents v2) with
          | Some x, Some y => Some (sub S x y) | Some x, None => Some x
          | None, Some y => Some (opp S y) | None, None => None end
    else subvec v1 v2 = ErrDim.
Proof. exact @subvec_spec. Qed.
Print Assumptions C09_subvec.

(** (G) Scaling: a = 0 clears, a = 1 is the identity, otherwise every entry is
    multiplied and entries that became zero are dropped; result well-formed. *)
Theorem C09_scalevec :
  forall (S : ScalarOps) (a : S) (v : vec S), WFv v ->
    vdim (scalevec a v) = vdim v /\ WFv (scalevec a v) /\
    forall i, lookup i (vents (scalevec a v)) =
      if eqb S a (zero S) then None
      else if eqb S a (one S) then lookup i (vents v)
      else match lookup i (vents v) with
           | Some x => if nz (mul S x a) then Some (mul S x a) else None
           | None => None
           end.
Proof. exact @scalevec_spec. Qed.
Print Assumptions C09_scalevec.

(** (G) Dot product: the compensated (KBN) sum of the IEEE products of the
    matching entries, in increasing index order. *)
Theorem C09_vecdot_struct :
  forall (S : ScalarOps) (v1 v2 : vec S), WFv v1 -> WFv v2 ->
    vecdot v1 v2 = kbn_total (matching_prods (vents v1) (vents v2)).
Proof.
  intros S v1 v2 W1 W2. rewrite vecdot_struct; auto. f_equal.
  apply common_prods_dense; [apply W1|apply W2].
Qed.
Print Assumptions C09_vecdot_struct.

(** (G) symmetric whenever the product is commutative; (F) it is for binary64 *)
Theorem C09_vecdot_sym :
  forall (S : ScalarOps) (v1 v2 : vec S), (forall x y : S, mul S x y = mul S y x) ->
    WFv v1 -> WFv v2 -> vecdot v1 v2 = vecdot v2 v1.
Proof. exact @vecdot_sym. Qed.
Print Assumptions C09_vecdot_sym.

Theorem C09_vecdot_sym_f64 : forall v1 v2 : vec F64, WFv v1 -> WFv v2 -> vecdot v1 v2 = vecdot v2 v1.
Proof. exact vecdot_sym_f64. Qed.
Print Assumptions C09_vecdot_sym_f64.

(** (G) Matrix-vector product (sequential specification): square matrix of the
    vector's dimension, else an error; entry [i] is the dot product of row [i]
    with the vector unless that is zero; result well-formed. *)
Theorem C09_mulvec :
  forall (S : ScalarOps) (m : csm S) (v1 : vec S),
    match mulvec m v1 with
    | Ok r => major m = minor m /\ major m = vdim v1 /\ vdim r = major m /\ WFv r /\
              forall i, lookup i (vents r) =
                if i <? major m
                then (if nz (vecdot (row_vec m i) v1) then Some (vecdot (row_vec m i) v1) else None)
                else None
    | ErrDim => major m <> minor m \/ major m <> vdim v1
    | _ => False
    end.
Proof. exact @mulvec_spec. Qed.
Print Assumptions C09_mulvec.

(** (F) binary64: element-wise results are the exact IEEE results on the dense
    vectors (the sign of a zero is not part of the dense value). *)
Theorem C09_addvec_dense_f64 :
  forall v1 v2 r : vec F64, WFv v1 -> WFv v2 -> addvec v1 v2 = Ok r ->
    forall i, feqP (den (vents r) i) (den (vents v1) i + den (vents v2) i)%float.
Proof. exact addvec_dense_f64. Qed.
Print Assumptions C09_addvec_dense_f64.

Theorem C09_subvec_dense_f64 :
  forall v1 v2 r : vec F64, WFv v1 -> WFv v2 -> subvec v1 v2 = Ok r ->
    forall i, feqP (den (vents r) i) (den (vents v1) i - den (vents v2) i)%float.
Proof. exact subvec_dense_f64. Qed.
Print Assumptions C09_subvec_dense_f64.

(** (source tie, G) the compensated-summation kernel is the one in the source:
    [Generated/KbnGen.v] is translated from KBNSummer.Add / KBNSummer.Sum of
    pkg/sparse/util.go on every run (harness/translate.go); step, read-out and the
    sum of a whole list coincide with the model's for every scalar instance. *)
Theorem C09_kbn_source_is_the_model :
  kbn_translated = true /\
  (forall (S : ScalarOps) (k : kbn S) (v : S),
     gen_kbn_add (ksum k) (kcomp k) v = (ksum (kbn_add k v), kcomp (kbn_add k v))) /\
  (forall (S : ScalarOps) (k : kbn S), gen_kbn_sum (ksum k) (kcomp k) = kbn_sum k) /\
  (forall (S : ScalarOps) (l : list S), gen_kbn_total l = kbn_total l).
Proof. exact (conj kbn_translated_ok (conj gen_kbn_add_is_model (conj gen_kbn_sum_is_model gen_kbn_total_is_model))). Qed.
Print Assumptions C09_kbn_source_is_the_model.

(** (F, compensated sums) on the binary64 instance: for finite non-negative floats, while every
    intermediate result stays in range ([fold_ok]: no overflow, no underflow) and for up to 2^49 terms,
    KBNSummer returns a finite float of non-negative value: the (possibly negative) compensation term
    never outweighs the running sum. *)
Theorem C09_kbn_nonneg_f64 :
  forall l : list PrimFloat.float,
    Forall finite64 l -> Forall (fun x => (0 <= val64 x)%R) l ->
    fold_ok (@kbn0 B64) (map val64 l) ->
    (INR (length l) <= Flocq.Core.Raux.bpow Flocq.Core.Zaux.radix2 49)%R ->
    finite64 (@kbn_total F64 l) /\ (0 <= val64 (@kbn_total F64 l))%R.
Proof. exact kbn_total_nonneg_F64. Qed.
Print Assumptions C09_kbn_nonneg_f64.

(** (rounded arithmetic / F) first-order accuracy of the compensated sum on non-negative data: under
    any rounding of relative error at most [u <= 2^-10], for [8 u n <= 1/2], the returned sum is within
    [14 n u] (relative) of the exact sum; instantiated for the binary64 instance under [fold_ok] (no
    overflow / underflow) with u = 2^-53.  (The second-order accuracy that the compensation buys — the
    design-time statement quoted at [C09_kbn_step_partial] — is still not proved.) *)
Theorem C09_kbn_accuracy_rounded :
  forall (rnd : R -> R) (u : R), (0 <= u)%R -> (u <= /1024)%R ->
    (forall x, exists eps, (Rabs eps <= u)%R /\ rnd x = (x * (1 + eps))%R) ->
    forall l : list R, Forall (fun x => (0 <= x)%R) l -> (INR (length l) * (8 * u) <= /2)%R ->
      (Rabs (@kbn_total (RND rnd) l - lsum l) <= 14 * INR (length l) * u * lsum l)%R.
Proof. exact kbn_total_accuracy_nonneg. Qed.
Print Assumptions C09_kbn_accuracy_rounded.

Theorem C09_kbn_accuracy_f64 :
  forall l : list PrimFloat.float,
    Forall finite64 l -> Forall (fun x => (0 <= val64 x)%R) l ->
    fold_ok (@kbn0 B64) (map val64 l) ->
    (INR (length l) <= Flocq.Core.Raux.bpow Flocq.Core.Zaux.radix2 49)%R ->
    (Rabs (val64 (@kbn_total F64 l) - lsum (map val64 l)) <= 14 * INR (length l) * u64 * lsum (map val64 l))%R.
Proof. exact kbn_total_accuracy_F64. Qed.
Print Assumptions C09_kbn_accuracy_f64.

(** (R) Over the reals the compensated sum is the sum, and every operation is
    the dense operation. *)
Theorem C09_kbn_exact_R : forall l : list RR, kbn_total l = lsum l.
Proof. exact kbn_total_exact. Qed.
Print Assumptions C09_kbn_exact_R.

Theorem C09_exact_R :
  (forall v : vec RR, WFv v -> vsum v = rsum (dv v) (vdim v)) /\
  (forall v : vec RR, WFv v -> norm2 v = sqrt (rsum (fun i => dv v i * dv v i) (vdim v))%R) /\
  (forall v1 v2 r : vec RR, WFv v1 -> WFv v2 -> addvec v1 v2 = Ok r -> forall i, dv r i = (dv v1 i + dv v2 i)%R) /\
  (forall v1 v2 r : vec RR, WFv v1 -> WFv v2 -> subvec v1 v2 = Ok r -> forall i, dv r i = (dv v1 i - dv v2 i)%R) /\
  (forall (a : RR) (v : vec RR), WFv v -> forall i, dv (scalevec a v) i = (a * dv v i)%R) /\
  (forall v1 v2 : vec RR, WFv v1 -> WFv v2 -> vdim v1 = vdim v2 ->
     vecdot v1 v2 = rsum (fun i => dv v1 i * dv v2 i)%R (vdim v1)) /\
  (forall (m : csm RR) (v r : vec RR), WFm m -> WFv v -> mulvec m v = Ok r ->
     vdim r = major m /\ WFv r /\
     forall i, (i < major m)%nat -> dv r i = rsum (fun c => dm m i c * dv v c)%R (major m)).
Proof.
  split; [exact vsum_exact|]. split; [exact norm2_exact|]. split; [exact addvec_exact|].
  split; [exact subvec_exact|]. split; [exact scalevec_exact|]. split; [exact vecdot_exact|].
  exact mulvec_exact.
Qed.
Print Assumptions C09_exact_R.

(** (F) accuracy of the compensated sum on binary64 — PARTIAL.
    Full statement (not proved here): for finite inputs without intermediate
    overflow, |kbn_total l - Σ l| <= u·|Σ l| + c·n²·u²·Σ|l_i|.
    What is proved: exactness of the algorithm over R (above) and the algebraic
    identity each step maintains (sum + compensation = previous + v when the
    two subtractions are exact), stated over R; the bound itself is decided per
    run by the exact-integer oracle Corr.Exact.kbn_bound_ok. *)
Theorem C09_kbn_step_partial :
  forall (s : kbn RR) (v : RR),
    (ksum (kbn_add s v) + kcomp (kbn_add s v) = ksum s + kcomp s + v)%R.
Proof. exact kbn_add_exact. Qed.
Print Assumptions C09_kbn_step_partial.

(** Non-vacuity: a concrete binary64 computation through the theorems' functions. *)
Example C09_nonvacuous :
  let v1 : vec F64 := @Build_vec F64 4%nat [(0%nat, 1%float); (2%nat, 3%float)] in
  let v2 : vec F64 := @Build_vec F64 4%nat [(2%nat, 0.5%float); (3%nat, 2%float)] in
  WFv v1 /\ WFv v2 /\ vecdot v1 v2 = 1.5%float /\
  addvec v1 v2 = Ok (@Build_vec F64 4%nat [(0%nat, 1%float); (2%nat, 3.5%float); (3%nat, 2%float)]).
Proof.
  repeat split; try (repeat constructor; fail).
Qed.

(** * C18 — Flat-tail termination and statistics track the top-ranked peers.

    The statistics are a function of the sequence of (ranking, delta) pairs seen
    at the scheduled checks of a run; [runs] is the run-length view of that
    sequence (most recent first). *)
From Coq Require Import List Arith Bool ZArith Permutation.
From ET Require Import Model.Scalar Model.Sparse Model.Basic Proofs.ComputeProofs Proofs.FlatTailProofs.
Import ListNotations.

(** After any sequence of checks the statistics are: length = size of the
    final run of identical rankings minus one; threshold = max(1, sizes of the
    earlier, broken runs) i.e. one more than the longest broken run length;
    deltaNorm = the delta at the head of the final run; ranking = the last one. *)
Theorem C18_stats_of_history :
  forall (S : ScalarOps) (nl : nat) (us : list (vec S * S)),
    fold_left (fun st u => ft_update st nl (fst u) (snd u)) us ft_new =
    stats_of (rev (map (fun u => (ranking_of (fst u) nl, snd u)) us)).
Proof. exact @ft_fold_stats. Qed.
Print Assumptions C18_stats_of_history.

(** the final run really consists of identical rankings and is maximal *)
Theorem C18_final_run :
  forall (S : ScalarOps) (h : @hist S) n ns, runs h = Datatypes.S n :: ns ->
    (forall i, i <= n -> fst (nth i h ([], one S)) = fst (nth 0 h ([], one S))) /\
    (Datatypes.S n < length h -> fst (nth (Datatypes.S n) h ([], one S)) <> fst (nth 0 h ([], one S))).
Proof.
  intros S h n ns H. split. exact (runs_head_same h n ns H). exact (runs_head_maximal h n ns H).
Qed.
Print Assumptions C18_final_run.

(** The statistics returned by Compute are those of the checks of the run
    ([FT] is exactly that fold), and a run that ends by its criteria ends at the
    first scheduled check at which delta <= epsilon and length >= L hold. *)
Theorem C18_compute_stats :
  forall (S : ScalarOps) fuel (c : csm S) (p : vec S) (a e : S) (o : opts S) t k st,
    valid c p a e o -> compute fuel c p a e o = Done t k st ->
    let ct := transpose c in let ap := scalevec a p in
    let mn := Z.to_nat (eff_min o) in let fq := Z.to_nat (eff_freq o) in
    let t0 := eff_t0 o p in
    let nl := eff_leaders o (major c) in
    (eff_mx o = Some k /\ st = FT ct ap a mn fq nl t0 k) \/
    (sched mn fq k = true /\ st = FT ct ap a mn fq nl t0 (Datatypes.S k) /\
     leb S (D ct ap a mn fq t0 k) e = true /\ (o_flat_tail o <= Z.of_nat (ft_length st))%Z /\
     forall j, j < k -> sched mn fq j = true -> stop_at ct ap a e mn fq (o_flat_tail o) nl t0 j = false).
Proof.
  intros S fuel c p a e o t k st Hv H. pose proof (compute_done fuel c p a e o t k st Hv H) as (_ & _ & Hns & _ & Hend).
  cbv zeta. destruct Hend as [Hm|(Hs & Hst & Hft & Hnl)]; [left; exact Hm|right].
  unfold stop_at in Hst. apply andb_true_iff in Hst. destruct Hst as [Hd Hr].
  split; [exact Hs|]. split; [exact Hft|]. split; [exact Hd|]. split.
  - rewrite Hft. unfold ft_reached in Hr. apply Z.leb_le in Hr. exact Hr.
  - intros j Hj. apply Hns. split; [apply Nat.le_0_l|exact Hj].
Qed.
Print Assumptions C18_compute_stats.

(** The ranking lists the top-scored peers: [min k nnz] distinct scored peers,
    and no scored peer outside it has a higher score than one inside
    (for values on which < is a strict weak order: reals, non-NaN binary64). *)
Theorem C18_ranking_top :
  forall (S : ScalarOps) (t : vec S) (k : nat), weak_order_on (map snd (vents t)) ->
    NoDup (map fst (vents t)) ->
    let r := ranking_of t k in
    NoDup r /\ length r = Nat.min k (length (vents t)) /\
    (forall i, In i r -> In i (map fst (vents t))) /\
    (forall i j x y, In i r -> ~ In j r -> In (i, x) (vents t) -> In (j, y) (vents t) -> ltb S x y = false).
Proof. exact @ranking_of_top. Qed.
Print Assumptions C18_ranking_top.

(** and it is in ascending score order (a sorted permutation of the entries) *)
Theorem C18_ranking_sorted :
  forall (S : ScalarOps) (l : list (nat * S)), weak_order_on (map snd l) ->
    Permutation (sort_by_value l) l /\ desc (rev (sort_by_value l)).
Proof. intros S l H. split. apply sort_by_value_perm. apply sort_by_value_desc. exact H. Qed.
Print Assumptions C18_ranking_sorted.

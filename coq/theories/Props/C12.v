(** * C12 — Swap-out (mmap) is transparent, really off-heap, and leak-free.

    Statements only; every proof is [exact] of a lemma in Proofs/MmProofs.v.
    [run ops] is the state reached from the empty process by an arbitrary history
    [ops] of Mmap (with an arbitrary fault: temp-file creation, truncation or mapping
    failing, cancellation observed at an arbitrary row, and the zero-length mapping,
    which fails by itself), Munmap, Merge, SetMajorDim, SetMinorDim, Reset, Transpose,
    construction and garbage collection (the finalizer), on arbitrary matrices. *)
From Coq Require Import List Arith Bool Sorted.
From ET Require Import Model.Scalar Model.Sparse Model.Mm Proofs.MmProofs Generated.MmapSkel.
Import ListNotations.

(** Transparency: the contents of every matrix evolve exactly as in the pure matrix model
    (Sparse.csm: set_major, set_minor, mmerge, transpose) with every swap-out, swap-in and
    finalizer run erased — whatever the outcome of the swap-outs. *)
Theorem C12_contents_transparent :
  forall (S : ScalarOps) (ops : list (@op S)) (o : @op S) (k : nat),
    cget (run (ops ++ [o])) k = astep (cget (run ops)) (next (run ops)) o k.
Proof. exact @contents_history. Qed.
Print Assumptions C12_contents_transparent.

Theorem C12_swapout_keeps_contents :
  forall (S : ScalarOps) (s : @sys S) (m : @mat S) (f : fault),
    contents (fst (fst (fst (fst (mmap_op s m f))))) = contents m.
Proof. exact @mmap_op_contents. Qed.
Print Assumptions C12_swapout_keeps_contents.

(** No temporary file exists in any reachable state: each call removed its own. *)
Theorem C12_no_temp_file :
  forall (S : ScalarOps) (ops : list (@op S)), files (run ops) = [].
Proof. exact @no_temp_files. Qed.
Print Assumptions C12_no_temp_file.

(** Off-heap: after a successful swap-out every non-empty row is a span of the matrix' own
    mapping, that mapping is live, and the span lies inside it. *)
Theorem C12_swapout_offheap :
  forall (S : ScalarOps) (ops : list (@op S)) (h : nat) (m : @mat S) (f : fault),
    get (mats (run ops)) h = Some m ->
    let '(m', lv, fl, nx, ok) := mmap_op (run ops) m f in
    ok = true -> forall rw, In rw (m_rows m') -> nonempty rw = true ->
    exists r off cap sz, r_place rw = Mapped r off cap /\ m_mapped m' = Some (r, sz) /\ In r lv /\
                         off + length (r_ents rw) <= sz.
Proof. exact @swapout_offheap. Qed.
Print Assumptions C12_swapout_offheap.

(** A failed or cancelled swap-out leaves the matrix, the mappings and TMPDIR as they were. *)
Theorem C12_failure_leaves_intact :
  forall (S : ScalarOps) (ops : list (@op S)) (h : nat) (m : @mat S) (f : fault),
    get (mats (run ops)) h = Some m ->
    let '(m', lv, fl, nx, ok) := mmap_op (run ops) m f in
    ok = false -> m' = m /\ lv = live (run ops) /\ fl = files (run ops).
Proof. exact @swapout_failure_intact. Qed.
Print Assumptions C12_failure_leaves_intact.

(** Which first swap-outs fail: the injected faults, the zero-length mapping, a cancellation
    observed at one of the rows — nothing else. *)
Theorem C12_swapout_outcome :
  forall (S : ScalarOps) (s : @sys S) (m : @mat S) (f : fault),
    m_mapped m = None ->
    snd (mmap_op s m f) = match f with
                          | NoFault => negb (nnz m =? 0)
                          | CancelAtRow k => negb (nnz m =? 0) && negb (k <? length (m_rows m))
                          | _ => false
                          end.
Proof. exact @swapout_outcome. Qed.
Print Assumptions C12_swapout_outcome.

(** No dangling row, ever: a non-empty row that is not on the heap is a span of its own
    matrix' current mapping, which is live and large enough; the spans of one matrix never overlap. *)
Theorem C12_no_dangling_row :
  forall (S : ScalarOps) (ops : list (@op S)) (h : nat) (m : @mat S) (rw : @mrow S) (r off cap : nat),
    get (mats (run ops)) h = Some m -> In rw (m_rows m) -> nonempty rw = true -> r_place rw = Mapped r off cap ->
    exists sz, m_mapped m = Some (r, sz) /\ In r (live (run ops)) /\ off + cap <= sz /\ length (r_ents rw) <= cap.
Proof. exact @no_dangling. Qed.
Print Assumptions C12_no_dangling_row.

Theorem C12_spans_disjoint :
  forall (S : ScalarOps) (ops : list (@op S)) (h : nat) (m : @mat S),
    get (mats (run ops)) h = Some m ->
    StronglySorted (fun a b : nat * nat => fst a + snd a <= fst b) (exts (m_rows m)).
Proof. exact @spans_disjoint. Qed.
Print Assumptions C12_spans_disjoint.

(** Leak-freedom: the live mappings of the process are exactly the mappings adopted by the
    reachable matrices; swap-in, reset and the finalizer release the matrix' mapping. *)
Theorem C12_mappings_exact :
  forall (S : ScalarOps) (ops : list (@op S)) (r : nat),
    In r (live (run ops)) <-> exists h m sz, get (mats (run ops)) h = Some m /\ m_mapped m = Some (r, sz).
Proof. exact @mappings_exact. Qed.
Print Assumptions C12_mappings_exact.

Theorem C12_release_unmaps :
  forall (S : ScalarOps) (ops : list (@op S)) (o : @op S) (h : nat) (m : @mat S) (r sz : nat),
    (o = OMunmap h \/ o = OReset h \/ o = ODrop h) ->
    get (mats (run ops)) h = Some m -> m_mapped m = Some (r, sz) -> ~ In r (live (step (run ops) o)).
Proof. exact @release_unmaps. Qed.
Print Assumptions C12_release_unmaps.

(** The full invariant, for every history. *)
Theorem C12_invariant : forall (S : ScalarOps) (ops : list (@op S)), Inv (run ops).
Proof. exact @reachable_inv. Qed.
Print Assumptions C12_invariant.

(** The source has the shape the resource model was written for.  [Generated/MmapSkel.v] is
    re-extracted from pkg/sparse/matrix.go on every run (harness -mmap-shape): Mmap has a copy loop
    that polls the context once per row and a separate adoption loop that cannot fail; adopted spans
    are full slice expressions; the temp file is removed on every exit; the new mapping is released
    on failure and the old one only after adoption; Merge swaps its operand in first and resets it
    last.  These are exactly the assumptions built into [mmap_op], [place_rows] and [step]. *)
Theorem C12_source_has_the_modelled_shape :
  mm_two_row_loops = true /\ mm_copy_loop_polls = true /\ mm_adoption_loop_cannot_fail = true /\
  mm_full_slice_expr = true /\ mm_temp_removed_on_every_exit = true /\
  mm_new_mapping_released_on_failure = true /\ mm_old_mapping_released_after_adoption = true /\
  merge_swaps_operand_in_first = true /\ merge_resets_operand_last = true.
Proof. repeat split; reflexivity. Qed.
Print Assumptions C12_source_has_the_modelled_shape.

(** * C04 — Only relative trust magnitudes matter (canonicalisation, scale invariance). *)
From Coq Require Import List Arith Bool Reals.
From ET Require Import Model.Scalar Model.Sparse Model.Basic Proofs.SparseBase Proofs.RInst Proofs.BasicProofs.
Import ListNotations.

(** (G) Canonicalize divides every entry by the compensated sum, indices
    untouched; a zero sum is reported and nothing is produced (entries untouched). *)
Theorem C04_canon :
  forall (S : ScalarOps) (l : list (nat * S)),
    let s := kbn_total (map snd l) in
    if eqb S s (zero S) then canon l = ErrZeroSum
    else canon l = Ok (map (fun e => (fst e, div S (snd e) s)) l).
Proof. exact @canon_spec. Qed.
Print Assumptions C04_canon.

(** (G) per row: canonical form; rows reporting a zero sum become the pre-trust
    when one is given and stay untouched otherwise (every row, also the last) *)
Theorem C04_canon_lt :
  forall (S : ScalarOps) (m : csm S) (p : option (vec S)),
    match canon_lt m p with
    | Ok m' => major m = minor m /\ (forall pv, p = Some pv -> vdim pv = major m) /\
               major m' = major m /\ minor m' = minor m /\ rows m' = map (canon_row p) (rows m)
    | ErrDim => major m <> minor m \/ exists pv, p = Some pv /\ vdim pv <> major m
    | _ => False
    end.
Proof. exact @canon_lt_spec. Qed.
Print Assumptions C04_canon_lt.

Theorem C04_canon_row :
  forall (S : ScalarOps) (p : option (vec S)) (r : list (nat * S)),
    match canon r with
    | Ok r' => canon_row p r = r'
    | _ => canon_row p r = match p with Some pv => vents pv | None => r end
    end.
Proof. exact @canon_row_spec. Qed.
Print Assumptions C04_canon_row.

(** (G) zero vector -> uniform 1/n on all n indices *)
Theorem C04_canon_tv :
  forall (S : ScalarOps) (v : vec S),
    vdim (canon_tv v) = vdim v /\
    match canon (vents v) with
    | Ok l => vents (canon_tv v) = l
    | ErrZeroSum => vents (canon_tv v) = map (fun i => (i, div S (one S) (of_nat S (vdim v)))) (seq 0 (vdim v))
    | _ => canon_tv v = v
    end.
Proof. exact @canon_tv_spec. Qed.
Print Assumptions C04_canon_tv.

(** (R) the canonical form sums to 1 and preserves the ratios (x'_i = x_i / s) *)
Theorem C04_canon_sum_one_R :
  forall (l l' : list (nat * RR)), canon l = Ok l' ->
    lsum (map snd l') = 1%R /\ map fst l' = map fst l /\
    exists s, s <> 0%R /\ s = lsum (map snd l) /\ map snd l' = map (fun x => (x / s)%R) (map snd l).
Proof. exact canon_sum_one. Qed.
Print Assumptions C04_canon_sum_one_R.

Theorem C04_canon_zero_iff_R : forall l : list (nat * RR), canon l = ErrZeroSum <-> lsum (map snd l) = 0%R.
Proof. exact canon_zero_iff. Qed.
Print Assumptions C04_canon_zero_iff_R.

(** (R) scale invariance: multiplying all values by any non-zero constant does
    not change the canonical form (hence not the scores computed from it). *)
Theorem C04_scale_invariant_R :
  forall (l : list (nat * RR)) (s : R), s <> 0%R ->
    canon (map (fun e : nat * RR => (fst e, (s * snd e)%R : RR)) l) = canon l.
Proof. exact canon_scale_invariant. Qed.
Print Assumptions C04_scale_invariant_R.

(** (R) canonicalised vectors are distributions *)
Theorem C04_canon_tv_distribution_R :
  forall v : vec RR, WFv v -> nonneg_entries (vents v) -> 0 < vdim v -> distribution (canon_tv v).
Proof. exact canon_tv_distribution. Qed.
Print Assumptions C04_canon_tv_distribution_R.

(** (F) PARTIAL: "bit-identical for power-of-two factors (absent overflow /
    underflow)" is not proved as a theorem for binary64 (it needs the Flocq
    scaling lemmas for every operation of the compensated sum and the
    division); it is decided per run by the correspondence cases [Scaled],
    which compare the canonical forms of scaled and unscaled inputs bit for bit. *)

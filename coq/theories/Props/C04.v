(** * C04 — Only relative trust magnitudes matter (canonicalisation, scale invariance). *)
From Coq Require Import List Arith Bool Reals ZArith Floats.
From Flocq Require Import Core.
From ET Require Import Model.Scalar Model.Sparse Model.Basic Proofs.SparseBase Proofs.RInst Proofs.BasicProofs
  Proofs.ScaleRound Proofs.F64Round Proofs.F64Scale Proofs.F64ScaleEq Proofs.RoundNonneg Proofs.RoundCanon
  Generated.KbnGen Proofs.KbnGenProofs.
Import ListNotations.

(** (G) Canonicalize divides every entry by the compensated sum, indices
    untouched; a zero sum is reported and nothing is produced (entries untouched). *)
Theorem C04_canon :
  forall (S : ScalarOps) (l : list (nat * S)),
    let s := kbn_total (map snd l) in
    if eqb S s (zero S) then canon l = ErrZeroSum
    else canon l = Ok (map (fun e => (fst e, div S (snd e) s)) l).
Proof. exact @canon_spec. Qed.
Print Assumptions C04_canon.

(** (G) per row: canonical form; rows reporting a zero sum become the pre-trust
    when one is given and stay untouched otherwise (every row, also the last) *)
Theorem C04_canon_lt :
  forall (S : ScalarOps) (m : csm S) (p : option (vec S)),
    match canon_lt m p with
    | Ok m' => major m = minor m /\ (forall pv, p = Some pv -> vdim pv = major m) /\
               major m' = major m /\ minor m' = minor m /\ rows m' = map (canon_row p) (rows m)
    | ErrDim => major m <> minor m \/ exists pv, p = Some pv /\ vdim pv <> major m
    | _ => False
    end.
Proof. exact @canon_lt_spec. Qed.
Print Assumptions C04_canon_lt.

Theorem C04_canon_row :
  forall (S : ScalarOps) (p : option (vec S)) (r : list (nat * S)),
    match canon r with
    | Ok r' => canon_row p r = r'
    | _ => canon_row p r = match p with Some pv => vents pv | None => r end
    end.
Proof. exact @canon_row_spec. Qed.
Print Assumptions C04_canon_row.

(** (G) zero vector -> uniform 1/n on all n indices *)
Theorem C04_canon_tv :
  forall (S : ScalarOps) (v : vec S),
    vdim (canon_tv v) = vdim v /\
    match canon (vents v) with
    | Ok l => vents (canon_tv v) = l
    | ErrZeroSum => vents (canon_tv v) = map (fun i => (i, div S (one S) (of_nat S (vdim v)))) (seq 0 (vdim v))
    | _ => canon_tv v = v
    end.
Proof. exact @canon_tv_spec. Qed.
Print Assumptions C04_canon_tv.

(** (R) the canonical form sums to 1 and preserves the ratios (x'_i = x_i / s) *)
Theorem C04_canon_sum_one_R :
  forall (l l' : list (nat * RR)), canon l = Ok l' ->
    lsum (map snd l') = 1%R /\ map fst l' = map fst l /\
    exists s, s <> 0%R /\ s = lsum (map snd l) /\ map snd l' = map (fun x => (x / s)%R) (map snd l).
Proof. exact canon_sum_one. Qed.
Print Assumptions C04_canon_sum_one_R.

Theorem C04_canon_zero_iff_R : forall l : list (nat * RR), canon l = ErrZeroSum <-> lsum (map snd l) = 0%R.
Proof. exact canon_zero_iff. Qed.
Print Assumptions C04_canon_zero_iff_R.

(** (R) scale invariance: multiplying all values by any non-zero constant does
    not change the canonical form (hence not the scores computed from it). *)
Theorem C04_scale_invariant_R :
  forall (l : list (nat * RR)) (s : R), s <> 0%R ->
    canon (map (fun e : nat * RR => (fst e, (s * snd e)%R : RR)) l) = canon l.
Proof. exact canon_scale_invariant. Qed.
Print Assumptions C04_scale_invariant_R.

(** (R) canonicalised vectors are distributions *)
Theorem C04_canon_tv_distribution_R :
  forall v : vec RR, WFv v -> nonneg_entries (vents v) -> 0 < vdim v -> distribution (canon_tv v).
Proof. exact canon_tv_distribution. Qed.
Print Assumptions C04_canon_tv_distribution_R.

(** (B64 = binary64 arithmetic with unbounded exponent: every operation is the
    exact real operation rounded to 53 bits, nearest-even)  multiplying a span,
    every row of a matrix (each by its own factor) or a whole vector by a power of
    two gives *the same* canonical form — equality, not closeness. *)
Theorem C04_pow2_scaling_identical_rounded :
  forall (e : Z) (l : list (nat * B64)),
    @canon B64 (escale rnd64 (bpow radix2 e) l) = @canon B64 l.
Proof. exact canon_pow2_identical. Qed.
Print Assumptions C04_pow2_scaling_identical_rounded.

Theorem C04_pow2_row_scaling_identical_rounded :
  forall (m m' : csm B64) (pv : vec B64),
    major m' = major m -> minor m' = minor m -> Forall2 pow2_scaled (rows m) (rows m') ->
    @canon_lt B64 m' (Some pv) = @canon_lt B64 m (Some pv).
Proof. exact canon_lt_pow2_identical. Qed.
Print Assumptions C04_pow2_row_scaling_identical_rounded.

Theorem C04_pow2_vector_scaling_identical_rounded :
  forall (e : Z) (v : vec B64),
    @canon_tv B64 {| vdim := vdim v; vents := escale rnd64 (bpow radix2 e) (vents v) |} = @canon_tv B64 v.
Proof. exact canon_tv_pow2_identical. Qed.
Print Assumptions C04_pow2_vector_scaling_identical_rounded.

(** the same for any rounding function and any factor it commutes with *)
Theorem C04_scaling_identical_any_rounding :
  forall (rnd : R -> R) (c : R) (l : list (nat * RND rnd)),
    exact_factor rnd c -> @canon (RND rnd) (escale rnd c l) = @canon (RND rnd) l.
Proof. exact canon_scale_rnd. Qed.
Print Assumptions C04_scaling_identical_any_rounding.

(** (F64 vs B64) on finite operands whose exact result neither underflows nor
    overflows, the primitive binary64 operation returns exactly the rounded
    real result (Flocq's specification of Coq's primitive floats). *)
Theorem C04_f64_add_is_rounded_add :
  forall x y, finite64 x -> finite64 y -> in_range (val64 x + val64 y) ->
    finite64 (x + y)%float /\ val64 (x + y)%float = rnd64 (val64 x + val64 y).
Proof. exact f64_add_rounds. Qed.
Print Assumptions C04_f64_add_is_rounded_add.
Theorem C04_f64_div_is_rounded_div :
  forall x y, finite64 x -> val64 y <> 0%R -> in_range (val64 x / val64 y) ->
    finite64 (x / y)%float /\ val64 (x / y)%float = rnd64 (val64 x / val64 y).
Proof. exact f64_div_rounds. Qed.
Print Assumptions C04_f64_div_is_rounded_div.

(** (F64) the whole of Canonicalize on the binary64 instance simulates the
    rounded-real computation while every intermediate result is in range ... *)
Theorem C04_canon_f64_simulates_rounded :
  forall (l : list (nat * F64)) (l' : list (nat * B64)),
    Forall2 esim l l' -> canon_ok (map snd l') ->
    match @canon F64 l, @canon B64 l' with
    | Ok r, Ok r' => Forall2 esim r r'
    | ErrZeroSum, ErrZeroSum => True
    | _, _ => False
    end.
Proof. exact canon_sim. Qed.
Print Assumptions C04_canon_f64_simulates_rounded.

(** ... hence (F64, the instance compared bit for bit with the Go code): two
    float spans whose values differ by a factor 2^e, both canonicalised without
    overflow/underflow ([canon_ok]), report a zero sum together or yield, position
    by position, finite floats of the same value — the same float whenever the
    value is not zero.  Likewise for every row of a matrix with its own factor. *)
Theorem C04_pow2_scaling_bit_identical_F64 :
  forall (e : Z) (l l2 : list (nat * F64)),
    Forall2 (scaled_by e) l l2 ->
    canon_ok (map snd (vals l)) -> canon_ok (map snd (vals l2)) ->
    match @canon F64 l, @canon F64 l2 with
    | Ok r, Ok r2 => Forall2 same_float r r2
    | ErrZeroSum, ErrZeroSum => True
    | _, _ => False
    end.
Proof. exact canon_pow2_bits_F64. Qed.
Print Assumptions C04_pow2_scaling_bit_identical_F64.

Theorem C04_pow2_row_scaling_bit_identical_F64 :
  forall (m m2 : csm F64) (pv : vec F64),
    major m2 = major m -> minor m2 = minor m ->
    Forall (fun a => finite64 (snd a)) (vents pv) ->
    Forall2 row_pow2_ok (rows m) (rows m2) ->
    match @canon_lt F64 m (Some pv), @canon_lt F64 m2 (Some pv) with
    | Ok c, Ok c2 => major c = major c2 /\ minor c = minor c2 /\
                     Forall2 (Forall2 same_float) (rows c) (rows c2)
    | ErrDim, ErrDim => True
    | _, _ => False
    end.
Proof. exact canon_lt_pow2_bits_F64. Qed.
Print Assumptions C04_pow2_row_scaling_bit_identical_F64.

(** non-vacuity of the side conditions *)
Theorem C04_canon_ok_example : canon_ok (map snd (vals [(0%nat, 1%float : F64)])).
Proof. exact canon_ok_example. Qed.
Theorem C04_pow2_example :
  @canon B64 [(0%nat, 1024%R : B64); (1%nat, 3072%R : B64)] = @canon B64 [(0%nat, 1%R : B64); (1%nat, 3%R : B64)].
Proof. exact canon_pow2_example. Qed.

(** (F64, full strength) when the scaled twin also keeps every entry's sign bit —
    as multiplication by a power of two does — the canonical forms are EQUAL as
    lists of floats (zeros and their signs included); rows of a matrix each with
    its own factor, with or without a substitute pre-trust; vectors; and the
    scores that Compute derives from them. *)
Theorem C04_pow2_scaling_equal_F64 :
  forall (e : Z) (l l2 : list (nat * F64)),
    Forall2 (scaled_signed e) l l2 ->
    canon_ok (map snd (vals l)) -> canon_ok (map snd (vals l2)) ->
    @canon F64 l2 = @canon F64 l.
Proof. exact canon_pow2_equal_F64. Qed.
Print Assumptions C04_pow2_scaling_equal_F64.

Theorem C04_pow2_row_scaling_equal_F64 :
  forall (m m2 : csm F64) (p : option (vec F64)),
    major m2 = major m -> minor m2 = minor m ->
    Forall2 row_pow2_signed_ok (rows m) (rows m2) ->
    (p = None -> Forall (fun r => @canon F64 r <> ErrZeroSum) (rows m)) ->
    @canon_lt F64 m2 p = @canon_lt F64 m p.
Proof. exact canon_lt_pow2_equal_F64. Qed.
Print Assumptions C04_pow2_row_scaling_equal_F64.

Theorem C04_pow2_vector_scaling_equal_F64 :
  forall (e : Z) (v v2 : vec F64),
    vdim v2 = vdim v -> Forall2 (scaled_signed e) (vents v) (vents v2) ->
    canon_ok (map snd (vals (vents v))) -> canon_ok (map snd (vals (vents v2))) ->
    @canon_tv F64 v2 = @canon_tv F64 v.
Proof. exact canon_tv_pow2_equal_F64. Qed.
Print Assumptions C04_pow2_vector_scaling_equal_F64.

Theorem C04_pow2_scaling_same_scores_F64 :
  forall (fuel : nat) (m m2 : csm F64) (p : option (vec F64)) (pt : vec F64) (a e : F64) (o : opts F64),
    major m2 = major m -> minor m2 = minor m ->
    Forall2 row_pow2_signed_ok (rows m) (rows m2) ->
    (p = None -> Forall (fun r => @canon F64 r <> ErrZeroSum) (rows m)) ->
    match @canon_lt F64 m2 p with Ok c => Some (compute fuel c pt a e o) | _ => None end =
    match @canon_lt F64 m p with Ok c => Some (compute fuel c pt a e o) | _ => None end.
Proof. exact scores_pow2_equal_F64. Qed.
Print Assumptions C04_pow2_scaling_same_scores_F64.

Theorem C04_scaled_signed_example :
  Forall2 (scaled_signed 0) [(0%nat, 1%float : F64)] [(0%nat, 1%float : F64)].
Proof. exact scaled_signed_example. Qed.

(** (rounded arithmetic) "makes every non-empty row and vector sum to 1" beyond the reals: under any
    rounding of relative error at most [u <= 2^-10], for a non-empty span of non-negative entries with
    [14 n u <= 1/2], the canonical entries are non-negative and their exact sum is within [30 n u] of 1;
    instance: binary64 without the exponent range, up to 2^47 entries, u = 2^-53. *)
Theorem C04_canon_sums_to_one_rounded :
  forall (rnd : R -> R) (u : R), (0 <= u)%R -> (u <= /1024)%R ->
    (forall x, exists eps, (Rabs eps <= u)%R /\ rnd x = (x * (1 + eps))%R) ->
    forall (l l' : list (nat * R)),
      nn l -> l <> [] -> (14 * INR (length l) * u <= /2)%R ->
      @canon (RND rnd) l = Ok l' ->
      nn l' /\ (Rabs (lsum (map snd l') - 1) <= 30 * INR (length l) * u)%R.
Proof. exact canon_sum_rounded. Qed.
Print Assumptions C04_canon_sums_to_one_rounded.

Theorem C04_canon_sums_to_one_rounded_binary64 :
  forall (l l' : list (nat * R)),
    nn l -> l <> [] -> (INR (length l) <= Raux.bpow Zaux.radix2 47)%R ->
    @canon B64 l = Ok l' ->
    nn l' /\ (Rabs (lsum (map snd l') - 1) <= 30 * INR (length l) * u64)%R.
Proof. exact canon_sum_B64. Qed.
Print Assumptions C04_canon_sums_to_one_rounded_binary64.

(** (source tie) the compensated sum that all of the above is stated over is the one in the source:
    [Generated/KbnGen.v] is translated from pkg/sparse/util.go on every run. *)
Theorem C04_kbn_source_is_the_model :
  kbn_translated = true /\
  forall (S : ScalarOps) (l : list S), gen_kbn_total l = kbn_total l.
Proof. exact (conj kbn_translated_ok gen_kbn_total_is_model). Qed.
Print Assumptions C04_kbn_source_is_the_model.

(** ... and so is Canonicalize itself: [gen_canon] is translated from the body of basic.Canonicalize
    (the summation loop, the zero test, the early ErrZeroSum return, the in-place division loop). *)
Theorem C04_canonicalize_source_is_the_model :
  canon_translated = true /\
  forall (S : ScalarOps) (l : list (nat * S)), gen_canon l = canon l.
Proof. exact (conj canon_translated_ok gen_canon_is_model). Qed.
Print Assumptions C04_canonicalize_source_is_the_model.

(** (F) what stays decided per run rather than proved: that the concrete runs
    meet [canon_ok] (the "absent overflow/underflow" clause is a hypothesis
    here) — the correspondence cases [Scaled] compare the canonical forms of
    scaled and unscaled inputs, and the scores computed from them, bit for bit. *)

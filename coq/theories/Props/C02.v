(** * C02 — Scores form a probability distribution after any number of iterations. *)
From Coq Require Import List Arith Bool ZArith Reals.
From ET Require Import Model.Scalar Model.Sparse Model.Basic Proofs.SparseBase Proofs.VectorProofs Proofs.RInst Proofs.BasicProofs
  Proofs.ComputeProofs Proofs.Analytic Proofs.AnalyticModel Proofs.AnalyticTop Proofs.ScaleRound Proofs.RoundNonneg.
From Flocq Require Raux Zaux.
Import ListNotations.
Local Open Scope R_scope.

(** one step preserves "non-negative, sums to 1" *)
Theorem C02_step_distribution :
  forall (n : nat) (C : csm RR) (p : vec RR) (a : R),
    row_stochastic C -> major C = n -> distribution p -> vdim p = n -> 0 <= a -> a <= 1 ->
    forall x, (forall i, (i < n)%nat -> 0 <= x i) -> rsum x n = 1 ->
      (forall j, (j < n)%nat -> 0 <= Gd n C p a x j) /\ rsum (Gd n C p a x) n = 1.
Proof. exact Gd_distribution. Qed.
Print Assumptions C02_step_distribution.

(** every iterate of a distribution is a distribution (well-formed: each peer at
    most once, increasing in-range indices; non-negative; sum 1), a in [0,1] *)
Theorem C02_iterate_distribution :
  forall (n : nat) (C : csm RR) (p : vec RR) (a : R),
    row_stochastic C -> major C = n -> distribution p -> vdim p = n -> 0 <= a -> a <= 1 ->
    forall t0 : vec RR, WFv t0 -> vdim t0 = n -> distribution t0 ->
      forall k, distribution (X (transpose C) (scalevec (a : RR) p) (a : RR) t0 k).
Proof. exact iterate_distribution. Qed.
Print Assumptions C02_iterate_distribution.

(** hence whatever Compute returns — converged or cut off by an iteration
    limit, any schedule, any canonical start vector — is a distribution of the
    input dimension *)
Theorem C02_compute_returns_distribution :
  forall fuel (C : csm RR) (p : vec RR) (a e : RR) (o : opts RR) t k st,
    canonical C p a e o -> distribution (eff_t0 o p) ->
    compute fuel C p a e o = Done t k st ->
    distribution t /\ vdim t = major C.
Proof. exact compute_returns_distribution. Qed.
Print Assumptions C02_compute_returns_distribution.

(** canonicalisation establishes the hypotheses (vectors) *)
Theorem C02_canon_tv_distribution :
  forall v : vec RR, WFv v -> nonneg_entries (vents v) -> (0 < vdim v)%nat -> distribution (canon_tv v).
Proof. exact canon_tv_distribution. Qed.
Print Assumptions C02_canon_tv_distribution.

(** (G) shape of the product that builds every iterate: input dimension,
    strictly increasing in-range indices, zero products dropped *)
Theorem C02_mulvec_shape :
  forall (S : ScalarOps) (m : csm S) (v1 r : vec S), mulvec m v1 = Ok r -> vdim r = major m /\ WFv r.
Proof. exact @mulvec_shape. Qed.
Print Assumptions C02_mulvec_shape.

(** (rounded arithmetic) "finite non-negative entries" beyond the reals.  In the instance [RND rnd] of the
    same model — every operation is the exact operation followed by a rounding of relative error at most
    [u <= 2^-10] — the compensated sum of non-negative terms is non-negative as long as [8 u] times the
    number of terms stays below 1/2 (the compensation term may be negative, but never outweighs the sum) *)
Theorem C02_kbn_nonneg_rounded :
  forall (rnd : R -> R) (u : R), 0 <= u -> u <= /1024 ->
    (forall x, exists eps, Rabs eps <= u /\ rnd x = x * (1 + eps)) ->
    forall l : list R, Forall (fun x => 0 <= x) l -> INR (length l) * (8 * u) <= /2 ->
      0 <= @kbn_total (RND rnd) l.
Proof. exact kbn_total_nonneg. Qed.
Print Assumptions C02_kbn_nonneg_rounded.

(** ... hence every score that Compute returns is non-negative, for every non-negative local trust,
    pre-trust and start vector (canonical or not), every alpha, epsilon, schedule, iteration limit and
    flat-tail setting, on graphs of up to 2^49 peers: in binary64 arithmetic without the exponent range
    ([B64], round-to-nearest-even to 53 bits), i.e. absent overflow and underflow.  [Proofs/F64Round.v]
    relates [B64] to the primitive floats operation by operation. *)
Theorem C02_scores_nonneg_rounded_binary64 :
  forall fuel (c : csm B64) (p : vec B64) (a e : R) (o : opts B64) (t : vec B64) k st,
    WFm c -> Forall (nn) (rows c) -> WFv p -> nn (vents p) ->
    (forall t0, o_t0 o = Some t0 -> WFv t0 /\ nn (vents t0)) ->
    INR (major c) <= Raux.bpow Zaux.radix2 49 ->
    @compute B64 fuel c p a e o = Done t k st -> nn (vents t).
Proof. exact compute_nonneg_B64. Qed.
Print Assumptions C02_scores_nonneg_rounded_binary64.

Theorem C02_scores_nonneg_premises_example :
  let c : csm B64 := {| major := 1; minor := 1; rows := [[(0%nat, 1 : B64)]] |} in
  let p : vec B64 := {| vdim := 1; vents := [(0%nat, 1 : B64)] |} in
  WFm c /\ Forall (nn) (rows c) /\ WFv p /\ nn (vents p) /\ INR (major c) <= Raux.bpow Zaux.radix2 49.
Proof. exact compute_nonneg_B64_premises. Qed.

(** PARTIAL: the API-level clause ("every accepted request without negative
    trust values yields scores that sum to 1") needs distinct coordinates: a
    request with a duplicated (i,j) is accepted and leaks mass (known finding);
    for binary64 non-negativity is now a theorem (above, absent overflow/underflow); "sums to 1
    within rounding" is decided per run by an exact-integer sum. *)

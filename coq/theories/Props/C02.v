(** * C02 — Scores form a probability distribution after any number of iterations. *)
From Coq Require Import List Arith Bool ZArith Reals.
From ET Require Import Model.Scalar Model.Sparse Model.Basic Proofs.SparseBase Proofs.VectorProofs Proofs.RInst Proofs.BasicProofs
  Proofs.ComputeProofs Proofs.Analytic Proofs.AnalyticModel Proofs.AnalyticTop.
Import ListNotations.
Local Open Scope R_scope.

(** one step preserves "non-negative, sums to 1" *)
Theorem C02_step_distribution :
  forall (n : nat) (C : csm RR) (p : vec RR) (a : R),
    row_stochastic C -> major C = n -> distribution p -> vdim p = n -> 0 <= a -> a <= 1 ->
    forall x, (forall i, (i < n)%nat -> 0 <= x i) -> rsum x n = 1 ->
      (forall j, (j < n)%nat -> 0 <= Gd n C p a x j) /\ rsum (Gd n C p a x) n = 1.
Proof. exact Gd_distribution. Qed.
Print Assumptions C02_step_distribution.

(** every iterate of a distribution is a distribution (well-formed: each peer at
    most once, increasing in-range indices; non-negative; sum 1), a in [0,1] *)
Theorem C02_iterate_distribution :
  forall (n : nat) (C : csm RR) (p : vec RR) (a : R),
    row_stochastic C -> major C = n -> distribution p -> vdim p = n -> 0 <= a -> a <= 1 ->
    forall t0 : vec RR, WFv t0 -> vdim t0 = n -> distribution t0 ->
      forall k, distribution (X (transpose C) (scalevec (a : RR) p) (a : RR) t0 k).
Proof. exact iterate_distribution. Qed.
Print Assumptions C02_iterate_distribution.

(** hence whatever Compute returns — converged or cut off by an iteration
    limit, any schedule, any canonical start vector — is a distribution of the
    input dimension *)
Theorem C02_compute_returns_distribution :
  forall fuel (C : csm RR) (p : vec RR) (a e : RR) (o : opts RR) t k st,
    canonical C p a e o -> distribution (eff_t0 o p) ->
    compute fuel C p a e o = Done t k st ->
    distribution t /\ vdim t = major C.
Proof. exact compute_returns_distribution. Qed.
Print Assumptions C02_compute_returns_distribution.

(** canonicalisation establishes the hypotheses (vectors) *)
Theorem C02_canon_tv_distribution :
  forall v : vec RR, WFv v -> nonneg_entries (vents v) -> (0 < vdim v)%nat -> distribution (canon_tv v).
Proof. exact canon_tv_distribution. Qed.
Print Assumptions C02_canon_tv_distribution.

(** (G) shape of the product that builds every iterate: input dimension,
    strictly increasing in-range indices, zero products dropped *)
Theorem C02_mulvec_shape :
  forall (S : ScalarOps) (m : csm S) (v1 r : vec S), mulvec m v1 = Ok r -> vdim r = major m /\ WFv r.
Proof.
  intros S m v1 r H. pose proof (mulvec_spec m v1) as Hs. rewrite H in Hs.
  destruct Hs as (_ & _ & Hd & W & _). split; assumption.
Qed.
Print Assumptions C02_mulvec_shape.

(** PARTIAL: the API-level clause ("every accepted request without negative
    trust values yields scores that sum to 1") needs distinct coordinates: a
    request with a duplicated (i,j) is accepted and leaks mass (known finding);
    for binary64 "within rounding" is decided per run by an exact-integer sum. *)

(** * C08 — Negative trust is split off and applied as reputation-weighted discount. *)
From Coq Require Import List Arith Bool Reals.
From ET Require Import Model.Scalar Model.Sparse Model.Basic Proofs.SparseBase Proofs.MergeProofs Proofs.RInst Proofs.BasicProofs.
Import ListNotations.

(** (G) Extraction: for a well-formed square matrix every cell with a value
    x >= 0 stays in the trust part unchanged, every other cell moves to the
    distrust part with its sign reversed; supports are disjoint, index order is
    preserved (both parts well-formed), dimensions unchanged; a non-square matrix
    is an error. *)
Theorem C08_extract_split :
  forall (S : ScalarOps) (m : csm S), WFm m ->
    match extract_distrust m with
    | Ok (P, D) =>
        major m = minor m /\ WFm P /\ WFm D /\
        major P = major m /\ minor P = minor m /\ major D = major m /\ minor D = major m /\
        forall r c,
          lookup c (row P r) = match lookup c (row m r) with Some x => if leb S (zero S) x then Some x else None | None => None end /\
          lookup c (row D r) = match lookup c (row m r) with Some x => if leb S (zero S) x then None else Some (opp S x) | None => None end
    | ErrDim => major m <> minor m
    | _ => False
    end.
Proof. exact @extract_spec. Qed.
Print Assumptions C08_extract_split.

(** (R) hence L = P - D entry by entry, P >= 0 and D > 0 on its support. *)
Theorem C08_extract_exact_R :
  forall (m P D : csm RR), WFm m -> extract_distrust m = Ok (P, D) ->
    forall r c, (dm m r c = dm P r c - dm D r c)%R /\ (0 <= dm P r c)%R /\ (0 <= dm D r c)%R /\
                (forall z, lookup c (row D r) = Some z -> (0 < z)%R) /\
                (lookup c (row P r) = None \/ lookup c (row D r) = None).
Proof. exact extract_exact_R. Qed.
Print Assumptions C08_extract_exact_R.

(** (R) Discount: t_j - sum_i t_i * D_ij for every peer j. *)
Theorem C08_discount_exact_R :
  forall (t r : vec RR) (d : csm RR),
    WFv t -> WFm d -> minor d = vdim t -> major d <= vdim t -> discount t d = Ok r ->
    vdim r = vdim t /\ WFv r /\
    forall j, dv r j = (dv t j - rsum (fun i => dv t i * dm d i j) (vdim t))%R.
Proof. exact discount_exact. Qed.
Print Assumptions C08_discount_exact_R.

(** (G) Distrust voiced by peers without reputation has no effect: two distrust
    matrices that agree on the rows of the peers having an entry in the score
    vector give bit-identical results. *)
Theorem C08_discount_ignores_unscored :
  forall (S : ScalarOps) (t : vec S) (d d' : csm S),
    length (rows d) = length (rows d') ->
    (forall i x, In (i, x) (vents t) -> row d i = row d' i) ->
    discount t d = discount t d'.
Proof. exact @discount_ignores_unscored_rows. Qed.
Print Assumptions C08_discount_ignores_unscored.

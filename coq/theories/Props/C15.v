(** * C15 — no input crashes or hangs a front-end; invalid input is reported as such.

    Statements only; every proof is [exact] of a lemma in Proofs/.  What a theorem can say here is
    about the models of the front-ends after decoding: their outcome classes, that refusals leave
    the state alone, that the Go code's panicking operations (slice expressions and indexings) are
    unreachable.  The decoders themselves and the binary64 termination are decided per run
    (see Corr/C15.v and DESIGN.md). *)
From Coq Require Import List Arith Bool ZArith Reals.
From ET Require Import Model.Scalar Model.Sparse Model.Basic Model.Oapi Model.Grpc Model.Csv Model.Playground
  Proofs.SparseBase Proofs.RInst Proofs.BasicProofs Proofs.ComputeProofs Proofs.OapiProofs Proofs.GrpcProofs Proofs.CsvProofs
  Proofs.PlaygroundProofs Proofs.TotalityProofs Proofs.BoundedProofs Proofs.AnalyticTop.
Import ListNotations.

(** OpenAPI compute: never a panic, whatever the request and the store; the only outcomes are
    200, 400, 500 and the exhaustion of the model's fuel. *)
Theorem C15_oapi_never_panics :
  forall (S : ScalarOps) fuel deps (st : store S) (q : Oapi.request S), oapi_compute fuel deps st q <> RPanic.
Proof. exact @oapi_never_panics. Qed.
Print Assumptions C15_oapi_never_panics.

Theorem C15_compute_never_panics :
  forall (S : ScalarOps) fuel (c : csm S) p a e o, (0 <= o_num_leaders o)%Z -> compute fuel c p a e o <> Panicked.
Proof. exact @compute_not_panicked. Qed.
Print Assumptions C15_compute_never_panics.

(** Invalid sizes and out-of-range indices are refused; a refused PUT changes nothing; a compute
    never alters the store. *)
Theorem C15_oapi_invalid_inline_refused :
  forall (S : ScalarOps) (m : inline_mat S),
    (im_size m <= 0)%Z \/ (exists i j v, In (i, j, v) (im_entries m) /\ (i < 0 \/ im_size m <= i \/ j < 0 \/ im_size m <= j)%Z) ->
    load_inline_mat m = None.
Proof. exact @invalid_inline_refused. Qed.
Print Assumptions C15_oapi_invalid_inline_refused.

Theorem C15_oapi_refused_put_unchanged :
  forall (S : ScalarOps) (st : store S) id body mg,
    load_mat st body = None -> store_step st (SPut id body mg) = (st, S400).
Proof. exact @put_invalid_unchanged. Qed.
Print Assumptions C15_oapi_refused_put_unchanged.

Theorem C15_oapi_compute_preserves_store :
  forall (S : ScalarOps) fuel deps (st : store S) q, fst (oapi_compute_st fuel deps st q) = st.
Proof. exact @compute_preserves_store. Qed.
Print Assumptions C15_oapi_compute_preserves_store.

(** gRPC: a refused Update, any request on an unknown id and every refused BasicCompute leave the
    state exactly as it was; unknown ids are NotFound. *)
Theorem C15_grpc_refused_update_unchanged :
  forall (S : ScalarOps) (s : gstate S) id ts es m ts0 c,
    aget (g_mats s) id = Some (m, ts0) -> matrix_update m es = Some (inl c) ->
    gstep s (MUpdate id ts es) = (s, GStatus c).
Proof. exact @update_refused_unchanged. Qed.
Print Assumptions C15_grpc_refused_update_unchanged.

Theorem C15_grpc_unknown_id :
  forall (S : ScalarOps) (s : gstate S) id,
    aget (g_mats s) id = None ->
    (forall ts es, gstep s (MUpdate id ts es) = (s, GStatus GNotFound)) /\
    gstep s (MGet id) = (s, GStatus GNotFound) /\ gstep s (MFlush id) = (s, GStatus GNotFound) /\
    gstep s (MDelete id) = (s, GStatus GNotFound).
Proof. exact @unknown_id_not_found. Qed.
Print Assumptions C15_grpc_unknown_id.

Theorem C15_grpc_compute_refusal_unchanged :
  forall (S : ScalarOps) fuel deps (s : gstate S) q,
    snd (basic_compute fuel deps s q) <> GOk -> fst (basic_compute fuel deps s q) = s.
Proof. exact @basic_compute_refusal_unchanged. Qed.
Print Assumptions C15_grpc_compute_refusal_unchanged.

(** Compute: parameters outside the documented ranges are rejected before the loop, whatever the fuel. *)
Theorem C15_compute_rejects_invalid :
  forall (S : ScalarOps) (c : csm S) p a e o, ~ valid c p a e o ->
    exists code, forall fuel, compute fuel c p a e o = Failed code.
Proof. exact @compute_rejects. Qed.
Print Assumptions C15_compute_rejects_invalid.

(** No unbounded computation for positive alpha, over the reals: an accepted canonical call with the
    default schedule returns within K iterations as soon as 2(1-a)^(K-1) <= e.
    (For binary64 this is PARTIAL: decided per run; false for unattainable e — known findings.) *)
Theorem C15_terminates_for_positive_alpha_R :
  forall fuel (C : csm RR) (p : vec RR) (a e : RR) (o : opts RR) (K : nat),
    canonical C p a e o -> distribution (eff_t0 o p) ->
    o_check_freq o = None -> o_min_iters o = None -> eff_mx o = None ->
    (o_flat_tail o <= 0)%Z -> (0 <= o_num_leaders o)%Z ->
    (1 <= K)%nat -> (2 * (1 - a) ^ (K - 1) <= e)%R -> (K < fuel)%nat ->
    exists t k st, compute fuel C p a e o = Done t k st /\ (k <= K)%nat.
Proof. exact compute_terminates_bound. Qed.
Print Assumptions C15_terminates_for_positive_alpha_R.

(** CSV readers: total, and an error exactly for unclean files or malformed records. *)
Theorem C15_csv_local_trust_error_iff :
  forall (S : ScalarOps) names (i : @csvin S),
    (exists m, read_local_trust names i = ROk m) <-> clean_eof i = true /\ Forall (lt_wellformed names) (recs i).
Proof. exact @read_local_trust_ok_iff. Qed.
Print Assumptions C15_csv_local_trust_error_iff.

Theorem C15_csv_trust_vector_error_iff :
  forall (S : ScalarOps) names (i : @csvin S),
    (exists v, read_trust_vector names i = ROk v) <-> clean_eof i = true /\ Forall (tv_wellformed names) (recs i).
Proof. exact @read_trust_vector_ok_iff. Qed.
Print Assumptions C15_csv_trust_vector_error_iff.

(** Playground: every refusal is the 400 page; no upload makes the handler panic. *)
Theorem C15_playground_refusals_are_400 :
  forall (S : ScalarOps) fuel eps (u : @upload S) c, prepare u = inl c -> calculate fuel eps u = P400 c.
Proof. exact @calculate_refusals. Qed.
Print Assumptions C15_playground_refusals_are_400.

Theorem C15_playground_never_panics :
  forall (S : ScalarOps) fuel eps (u : @upload S), calculate fuel eps u <> PCrash.
Proof. exact @calculate_never_crashes. Qed.
Print Assumptions C15_playground_never_panics.

(** Compute and DiscountTrustVector return in-range entries (so no consumer indexing by them
    can go out of range). *)
Theorem C15_compute_result_in_range :
  forall (S : ScalarOps) fuel (c : csm S) p a e o t k st,
    compute fuel c p a e o = Done t k st ->
    bounded (vdim p) (vents p) -> (forall t0, o_t0 o = Some t0 -> bounded (vdim t0) (vents t0)) ->
    vdim t = major c /\ bounded (major c) (vents t).
Proof. exact @compute_bounded. Qed.
Print Assumptions C15_compute_result_in_range.

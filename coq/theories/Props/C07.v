(** * C07 — Cancellation yields the context error or the full result, never a partial one. *)
From Coq Require Import List Arith Bool ZArith Permutation.
From ET Require Import Model.Scalar Model.Sparse Model.Basic Model.Proto Proofs.ProtoProofs Proofs.CancelProofs
  Generated.MulVecSkel.
Import ListNotations.

(** The skeleton of MulVec extracted from /repo on this run is the one the
    protocol model was written for, and it re-checks the context after the
    collect loop. *)
Theorem C07_skeleton : skel_recognised = true /\ skel_post_check = true.
Proof. split; reflexivity. Qed.
Print Assumptions C07_skeleton.

(** Safety, for every dimension, every interleaving of producer, workers, closer
    and collector, and cancellation at any moment: a successful return carries
    every row exactly once. *)
Theorem C07_proto_safe :
  forall dim s, Proto.reach dim skel_workers skel_post_check s ->
    forall l, ret s = Some (Some l) -> Permutation l (seq 0 dim).
Proof.
  intros dim s R l H.
  exact (proto_safe dim skel_workers skel_post_check (Nat.lt_0_succ _) (eq_refl : skel_post_check = true) s R l H).
Qed.
Print Assumptions C07_proto_safe.

(** Promptness and no goroutine left behind: every step decreases a measure
    bounded by 10*dim + W + 5, and a state without enabled step has all
    goroutines exited and the call returned. *)
Theorem C07_proto_terminates :
  forall dim n s, steps skel_workers skel_post_check n (Proto.init dim skel_workers) s ->
    n <= mu (Proto.init dim skel_workers).
Proof. intros dim. exact (executions_bounded_init dim skel_workers skel_post_check (Nat.lt_0_succ _)). Qed.
Print Assumptions C07_proto_terminates.

Theorem C07_proto_all_exit :
  forall dim s, Proto.reach dim skel_workers skel_post_check s -> terminal skel_workers skel_post_check s ->
    prod_live s = false /\ idle s = 0 /\ holding s = [] /\ exited s = skel_workers /\ ents_closed s = true /\ ret s <> None.
Proof. intros dim. exact (terminal_all_exited dim skel_workers skel_post_check (Nat.lt_0_succ _)). Qed.
Print Assumptions C07_proto_all_exit.

(** without the post-loop check the protocol admits a partial success (the
    defect repaired by the "fix:" commit; kept as a theorem so that the check
    knows a concrete unsafe schedule if the check is ever removed again) *)
Theorem C07_unsafe_without_post_check :
  exists s l, Proto.reach 1 1 false s /\ ret s = Some (Some l) /\ ~ Permutation l (seq 0 1).
Proof. exact proto_unsafe_without_check. Qed.
Print Assumptions C07_unsafe_without_post_check.

(** Compute: whichever poll finds the context cancelled (top of any iteration,
    or inside the product of any iteration), the outcome is the context error
    with no result, or exactly the outcome of the undisturbed run. *)
Theorem C07_compute_cancel_outcomes :
  forall (S : ScalarOps) (cx cm : nat -> bool) fuel ct ap (a e : S) mn fq mx ftl nl i t1 cv ft,
    loop_c cx cm fuel ct ap a e mn fq mx ftl nl i t1 cv ft = Failed E_CTX \/
    loop_c cx cm fuel ct ap a e mn fq mx ftl nl i t1 cv ft = loop fuel ct ap a e mn fq mx ftl nl i t1 cv ft.
Proof. exact @loop_c_outcomes. Qed.
Print Assumptions C07_compute_cancel_outcomes.

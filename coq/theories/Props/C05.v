(** * C05 — Iteration control: stops at the documented iteration, rejects bad parameters.

    [X k] = k-th iterate, [D k] = norm of the change since the previous
    scheduled check, [sched k] = "k >= minIterations and (k - minIterations) is
    a multiple of checkFreq".  All statements are for every scalar instance and
    every fuel; [Spec] is defined in Proofs/ComputeProofs.v. *)
From Coq Require Import List Arith Bool ZArith Floats.
From Coq Require Import Reals.
From ET Require Import Model.Scalar Model.Sparse Model.Basic Proofs.ComputeProofs Proofs.RInst Proofs.BasicProofs Proofs.AnalyticTop.
Import ListNotations.

(** Out-of-range alpha or epsilon, non-square or empty matrix, mismatched
    dimensions, checkFreq < 1, maxIterations < 0, minIterations < 1: an error
    for every fuel (also fuel 0), i.e. before the loop is entered. *)
Theorem C05_compute_rejects :
  forall (S : ScalarOps) (c : csm S) (p : vec S) (a e : S) (o : opts S),
    ~ valid c p a e o -> exists code, forall fuel, compute fuel c p a e o = Failed code.
Proof. exact @compute_rejects. Qed.
Print Assumptions C05_compute_rejects.

(** An accepted call that returns [t] after [k] iterations: [t] is the k-th
    iterate; no scheduled check before [k] met the stopping criteria; [k] never
    exceeds maxIterations; and either [k] is the limit, or [k] is a scheduled
    check at which delta <= epsilon and the flat-tail criterion hold. *)
Theorem C05_compute_done :
  forall (S : ScalarOps) fuel (c : csm S) (p : vec S) (a e : S) (o : opts S) t k st,
    valid c p a e o -> compute fuel c p a e o = Done t k st ->
    let ct := transpose c in let ap := scalevec a p in
    let mn := Z.to_nat (eff_min o) in let fq := Z.to_nat (eff_freq o) in
    let t0 := eff_t0 o p in
    let nl := eff_leaders o (major c) in
    t = X ct ap a t0 k /\
    (forall j, j < k -> sched mn fq j = true -> stop_at ct ap a e mn fq (o_flat_tail o) nl t0 j = false) /\
    (forall m, eff_mx o = Some m -> k <= m) /\
    ((eff_mx o = Some k /\ st = FT ct ap a mn fq nl t0 k) \/
     (sched mn fq k = true /\ stop_at ct ap a e mn fq (o_flat_tail o) nl t0 k = true /\
      st = FT ct ap a mn fq nl t0 (Datatypes.S k) /\ (0 <= nl)%Z)).
Proof.
  intros S fuel c p a e o t k st Hv H. pose proof (compute_done fuel c p a e o t k st Hv H) as (_ & Ht & Hns & Hmx & Hend).
  cbv zeta. split; [exact Ht|]. split; [|split; [exact Hmx|exact Hend]].
  intros j Hj. apply Hns. split; [apply Nat.le_0_l|exact Hj].
Qed.
Print Assumptions C05_compute_done.

(** exactly n iterations for WithIterations(n) *)
Theorem C05_with_iterations_exact :
  forall (S : ScalarOps) fuel (c : csm S) (p : vec S) (a e : S) (o : opts S) t k st n,
    valid c p a e o -> o_max_iters o = Some (Z.of_nat n) -> o_min_iters o = Some (Z.of_nat n) -> 0 < n ->
    compute fuel c p a e o = Done t k st -> k = n.
Proof. exact @with_iterations_exact. Qed.
Print Assumptions C05_with_iterations_exact.

(** a limit below the first check wins *)
Theorem C05_limit_before_first_check :
  forall (S : ScalarOps) fuel (c : csm S) (p : vec S) (a e : S) (o : opts S) t k st,
    valid c p a e o -> (0 < eff_max o < eff_min o)%Z ->
    compute fuel c p a e o = Done t k st -> k = Z.to_nat (eff_max o).
Proof. exact @limit_before_first_check. Qed.
Print Assumptions C05_limit_before_first_check.

(** the previous scheduled check of a scheduled [k] is [k - checkFreq] (the start vector for the first) *)
Theorem C05_previous_check :
  forall mn fq k, 0 < fq -> sched mn fq k = true -> last mn fq k = prev mn fq k.
Proof. intros mn fq k H. exact (last_sched mn fq H k). Qed.
Print Assumptions C05_previous_check.

(** (R) Termination under the default schedule: on canonical inputs the exact
    recurrence stops within K iterations as soon as 2(1-a)^(K-1) <= e, whatever
    the trust values; K = ceil(ln(e/2)/ln(1-a)) + 1 satisfies the premise, which
    is within the documented ceil(ln(e/4)/ln(1-a)) + 2.  For binary64 the same
    bound is checked per run (PARTIAL: no theorem about rounded iterates). *)
Theorem C05_terminates_bound_R :
  forall fuel (C : csm RR) (p : vec RR) (a e : RR) (o : opts RR) (K : nat),
    canonical C p a e o -> distribution (eff_t0 o p) ->
    o_check_freq o = None -> o_min_iters o = None -> eff_mx o = None ->
    (o_flat_tail o <= 0)%Z -> (0 <= o_num_leaders o)%Z ->
    1 <= K -> (2 * (1 - a) ^ (K - 1) <= e)%R -> K < fuel ->
    exists t k st, compute fuel C p a e o = Done t k st /\ k <= K.
Proof. exact compute_terminates_bound. Qed.
Print Assumptions C05_terminates_bound_R.

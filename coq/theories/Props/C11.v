(** * C11 — Merge is a last-writer-wins overlay for every update history.

    Statements only; every proof is [exact] of a lemma in Proofs/MergeProofs.v.
    All theorems hold for every scalar instance, in particular for [F64], the
    instance the correspondence check compares with pkg/sparse. *)
From Coq Require Import List Arith Bool Permutation Floats.
From ET Require Import Model.Scalar Model.Sparse Proofs.SparseBase Proofs.MergeProofs.
Import ListNotations.

(** Cell by cell: the update's value where the update has an entry (a zero
    value erasing the cell), the target's value elsewhere; the result is sorted. *)
Theorem C11_merge_span_overlay :
  forall (S : ScalarOps) (s1 s2 : list (nat * S)) (i : nat),
    sorted s1 -> sorted s2 ->
    obs (merge_span s1 s2) i = overlay (obs s1) s2 i.
Proof. exact @merge_span_obs. Qed.
Print Assumptions C11_merge_span_overlay.

Theorem C11_merge_span_sorted :
  forall (S : ScalarOps) (s1 s2 : list (nat * S)), sorted s1 -> sorted s2 -> sorted (merge_span s1 s2).
Proof. exact @merge_span_sorted. Qed.
Print Assumptions C11_merge_span_sorted.

(** Vector.Merge: dimension = max, well-formed, argument left empty, overlay. *)
Theorem C11_vector_merge :
  forall (S : ScalarOps) (v v2 : vec S), WFv v -> WFv v2 ->
    let '(r, a) := vmerge v v2 in
    vdim r = Nat.max (vdim v) (vdim v2) /\ WFv r /\ a = vempty /\
    forall i, obs (vents r) i = overlay (obs (vents v)) (vents v2) i.
Proof. exact @vmerge_spec. Qed.
Print Assumptions C11_vector_merge.

(** CSMatrix.Merge: both dimensions = max, argument reset to 0x0, cell-wise overlay. *)
Theorem C11_matrix_merge :
  forall (S : ScalarOps) (m m2 : csm S), WFm m -> WFm m2 ->
    let '(r, a) := mmerge m m2 in
    major r = Nat.max (major m) (major m2) /\ minor r = Nat.max (minor m) (minor m2) /\
    a = mempty /\ WFm r /\
    forall i j, obs2 r i j = overlay (obs2 m i) (row m2 i) j.
Proof. exact @mmerge_spec. Qed.
Print Assumptions C11_matrix_merge.

(** Histories: for every sequence of update batches [uss] (each with distinct
    indices; [bs] are the same batches sorted by index, as NewVector /
    NewCSRMatrix hand them to Merge) the non-zero content after merging them in
    order is the map obtained by applying the individual updates of the
    concatenation in order — hence independent of the batching. *)
Theorem C11_merge_history :
  forall (S : ScalarOps) (uss bs : list (list (nat * S))) (s : list (nat * S)),
    sorted s -> Forall2 sorted_version uss bs -> Forall (fun us => NoDup (map fst us)) uss ->
    forall i, obs (merge_all s bs) i = apply_updates (concat uss) (obs s) i.
Proof. exact @merge_history. Qed.
Print Assumptions C11_merge_history.

Theorem C11_merge_rebatch :
  forall (S : ScalarOps) (uss uss' bs bs' : list (list (nat * S))) (s : list (nat * S)),
    sorted s -> Forall2 sorted_version uss bs -> Forall2 sorted_version uss' bs' ->
    Forall (fun us => NoDup (map fst us)) uss -> Forall (fun us => NoDup (map fst us)) uss' ->
    concat uss = concat uss' ->
    forall i, obs (merge_all s bs) i = obs (merge_all s bs') i.
Proof. exact @merge_rebatch. Qed.
Print Assumptions C11_merge_rebatch.

(** Non-vacuity: a concrete binary64 history meeting the hypotheses, with a
    zero in the update erasing a cell. *)
Example C11_nonvacuous :
  let s  : list (nat * F64) := [(0, 1%float); (2, 3%float)] in
  let b1 : list (nat * F64) := [(1, 5%float); (2, 0%float)] in
  sorted s /\ sorted b1 /\
  map (obs (merge_span s b1)) [0; 1; 2] = [Some 1%float; Some 5%float; None].
Proof.
  repeat split; try (repeat constructor; fail).
Qed.

(** * C14 — Compute never alters stored inputs; stored and inline references agree. *)
From Coq Require Import List Arith Bool ZArith.
From ET Require Import Model.Scalar Model.Sparse Model.Basic Model.Oapi Proofs.SparseBase Proofs.OapiSpec Proofs.OapiProofs.
Import ListNotations.

(** the store after a compute is the store before it, for every request *)
Theorem C14_compute_preserves_store :
  forall (S : ScalarOps) fuel deps (st : store S) q, fst (oapi_compute_st fuel deps st q) = st.
Proof. exact @compute_preserves_store. Qed.
Print Assumptions C14_compute_preserves_store.

(** a stored reference gives the same response as the inline reference that GET
    returns for that id (whatever alignment, canonicalisation or extraction the
    compute performs) *)
Theorem C14_stored_equals_inline :
  forall (S : ScalarOps) fuel deps (st : store S) id m (q : request S),
    st_get st id = Some m -> WFm m -> minor m = major m -> 0 < major m -> no_zero_entries m ->
    q_local q = MStored id ->
    oapi_compute fuel deps st q =
    oapi_compute fuel deps st {| q_local := MInline (body_of m); q_initial := q_initial q; q_pre := q_pre q;
                                 q_alpha := q_alpha q; q_epsilon := q_epsilon q; q_flat_tail := q_flat_tail q;
                                 q_num_leaders := q_num_leaders q; q_max := q_max q; q_min := q_min q; q_freq := q_freq q |}.
Proof. exact @stored_equals_inline. Qed.
Print Assumptions C14_stored_equals_inline.

(** PARTIAL: that the Go handler really works on a disposable deep copy (an
    aliasing fact the functional model cannot express) and the concurrent clause
    are decided by correspondence: GET before/after every compute, repeated
    computes, stored vs inline responses, and computes concurrent with
    PUT/DELETE/GET under the race detector whose results must equal the
    sequential result on one of the versions that existed. *)

(** * Model of internal/playground/engine.go: POST /calculate.

    The uploaded files are CSV streams as in Model/Csv.v; the form field hunchPercent is
    absent (default "10"), not an integer, or an integer.  Every indexing the Go code performs
    on a slice ([preTrusted[e.Index]], [entries[e.Index]], [peerNames[i]]) is a checked access
    here: out of range is the outcome [PCrash], so that "the handler never panics" is a
    statement about this model and not an artefact of total functions. *)
From Coq Require Import List Arith Bool ZArith NArith Lia.
From ET Require Import Model.Scalar Model.Sparse Model.Basic Model.Csv.
Import ListNotations.

Section Playground.
Context {S : ScalarOps}.
Notation entry := (nat * T S)%type.

Inductive hunch := HAbsent | HBad | HVal (z : Z).
Record upload := {
  u_names : option (@csvin S);           (* peerNamesFile: optional *)
  u_lt : option (@csvin S);              (* localTrustFile: required *)
  u_pt : option (@csvin S);              (* preTrustFile: required *)
  u_hunch : hunch }.

Inductive pname := Named (n : name) | Anon (i : nat).     (* "Peer %d" *)
Record prow := { p_index : nat; p_name : pname; p_score : T S }.

Inductive page :=
| PResult (flags : list bool) (rows : list prow) (arcs : nat)    (* 200, result.html *)
| P400 (code : nat)                                              (* 400, error.html *)
| PHang                                                          (* the model's fuel ran out *)
| PCrash.                                                        (* the Go code would panic *)
(* codes: 1 missing local trust, 2 missing pre-trust, 3 hunch not an integer, 4 hunch out of range,
   5 names unreadable, 6 local trust unreadable, 7 pre-trust unreadable, 8 larger than names,
   9 pipeline error (canonicalise / extract / compute / discount), 10 not square *)

(** checked slice accesses *)
Fixpoint set_nth {A} (l : list A) (i : nat) (x : A) : option (list A) :=
  match l, i with
  | [], _ => None
  | _ :: t, O => Some (x :: t)
  | y :: t, Datatypes.S i' => option_map (cons y) (set_nth t i' x)
  end.
Fixpoint set_flags (flags : list bool) (es : list entry) : option (list bool) :=
  match es with
  | [] => Some flags
  | e :: t => match set_nth flags (fst e) true with Some f' => set_flags f' t | None => None end
  end.
Fixpoint set_scores (rows : list prow) (es : list entry) : option (list prow) :=
  match es with
  | [] => Some rows
  | e :: t => match nth_error rows (fst e) with
              | Some r => match set_nth rows (fst e) {| p_index := p_index r; p_name := p_name r; p_score := snd e |} with
                          | Some rows' => set_scores rows' t
                          | None => None end
              | None => None
              end
  end.
Fixpoint init_rows (names : option (list name)) (is : list nat) : option (list prow) :=
  match is with
  | [] => Some []
  | i :: t =>
      match (match names with Some ns => option_map Named (nth_error ns i) | None => Some (Anon i) end) with
      | None => None
      | Some nmv => option_map (cons {| p_index := i; p_name := nmv; p_score := zero S |}) (init_rows names t)
      end
  end.

(** sort.Sort(ByScore): descending by score.  The model sorts stably; the order among equal
    scores is not part of what is compared with the implementation. *)
Fixpoint insert_desc (x : prow) (l : list prow) : list prow :=
  match l with
  | [] => [x]
  | y :: t => if ltb S (p_score y) (p_score x) then x :: l else y :: insert_desc x t
  end.
Definition sort_desc (l : list prow) : list prow := fold_right insert_desc [] l.

Definition alpha_of (h : Z) : T S := div S (of_nat S (Z.to_nat h)) (of_nat S 100).

(** upload parsing and dimension alignment: the peer list (if any), the aligned local trust and
    pre-trust, the confidence; or the code of the refusal *)
Definition prepare (u : upload) : nat + (option (list name) * csm S * vec S * Z) :=
  match u_lt u with None => inl 1 | Some ltf =>
  match u_pt u with None => inl 2 | Some ptf =>
  match (match u_hunch u with HAbsent => Some 10%Z | HBad => None | HVal z => Some z end) with None => inl 3 | Some h =>
  if (h <? 0)%Z || (100 <? h)%Z then inl 4 else
  match (match u_names u with
         | None => ROk None
         | Some f => match read_peer_names f with ROk ns => ROk (Some ns) | RErr c => RErr c end
         end) with RErr _ => inl 5 | ROk names =>
  match read_local_trust names ltf with RErr _ => inl 6 | ROk lt =>
  match read_trust_vector names ptf with RErr _ => inl 7 | ROk pt =>
  match mdim lt with
  | Ok ltdim =>
    match names with
    | Some ns =>
        let n := length ns in
        if (n <? ltdim) || (n <? vdim pt) then inl 8
        else inr (names, (if ltdim <? n then set_dim n n lt else lt), (if vdim pt <? n then vset_dim n pt else pt), h)
    | None =>
        if ltdim <? vdim pt then inr (names, set_dim (vdim pt) (vdim pt) lt, pt, h)
        else if vdim pt <? ltdim then inr (names, lt, vset_dim ltdim pt, h)
        else inr (names, lt, pt, h)
    end
  | _ => inl 10
  end end end end end end end.

(** canonicalise, split off the distrust, compute with alpha = confidence/100, discount *)
Inductive pipe := PipeOk (t : vec S) | PipeErr | PipeHang | PipeCrash.
Definition pipeline (fuel : nat) (eps : T S) (lt1 : csm S) (pt1 : vec S) (h : Z) : pipe :=
  let p := canon_tv pt1 in
  match extract_distrust lt1 with
  | Ok (cpos, disc) =>
    match canon_lt cpos (Some p) with
    | Ok cc =>
      match canon_lt disc None with
      | Ok dc =>
        match compute fuel cc p (alpha_of h) eps default_opts with
        | Done t _ _ => match discount t dc with Ok t' => PipeOk t' | _ => PipeErr end
        | Failed _ => PipeErr
        | OutOfFuel => PipeHang
        | Panicked => PipeCrash
        end
      | _ => PipeErr
      end
    | _ => PipeErr
    end
  | _ => PipeErr
  end.

(** the result table: one row per peer, scores filled in from the sparse result, sorted; the
    flags of the pre-trusted peers (those with an entry in the pre-trust file) *)
Definition render (names : option (list name)) (lt1 : csm S) (pt1 : vec S) (t' : vec S) : page :=
  let dim := vdim pt1 in
  match set_flags (repeat false dim) (vents pt1) with
  | None => PCrash
  | Some flags =>
      match init_rows names (seq 0 dim) with
      | None => PCrash
      | Some rows0 =>
          match set_scores rows0 (vents t') with
          | None => PCrash
          | Some rows => PResult flags (sort_desc rows) (mnnz lt1)
          end
      end
  end.

Definition calculate (fuel : nat) (eps : T S) (u : upload) : page :=
  match prepare u with
  | inl c => P400 c
  | inr (names, lt1, pt1, h) =>
      (* preTrusted[e.Index] = true happens before the pipeline *)
      match set_flags (repeat false (vdim pt1)) (vents pt1) with
      | None => PCrash
      | Some _ =>
          match pipeline fuel eps lt1 pt1 h with
          | PipeOk t' => render names lt1 pt1 t'
          | PipeErr => P400 9
          | PipeHang => PHang
          | PipeCrash => PCrash
          end
      end
  end.

End Playground.

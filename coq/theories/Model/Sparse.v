(** * Model of pkg/sparse: entries, KBN summation, sparse vectors, CSR/CSC matrices.

    Every function mirrors the control flow of the Go function named in its
    comment, branch for branch.  Definitions only; proofs live in Proofs/. *)
From Coq Require Import List Arith Bool Lia.
From ET Require Import Model.Scalar.
Import ListNotations.

Inductive res (A : Type) :=
| Ok (a : A)
| ErrDim                      (* sparse.ErrDimensionMismatch *)
| ErrZeroSum                  (* sparse.ErrZeroSum *)
| ErrOther (code : nat).      (* any other error; the code names the site *)
Arguments Ok {A}. Arguments ErrDim {A}. Arguments ErrZeroSum {A}. Arguments ErrOther {A}.

Definition rbind {A B} (r : res A) (f : A -> res B) : res B :=
  match r with Ok a => f a | ErrDim => ErrDim | ErrZeroSum => ErrZeroSum | ErrOther c => ErrOther c end.

Section Sparse.
Context {S : ScalarOps}.
Notation entry := (nat * T S)%type.

(** ** util.go: KBNSummer *)
Record kbn := { ksum : S; kcomp : S }.
Definition kbn0 : kbn := {| ksum := zero S; kcomp := zero S |}.
Definition kbn_add (s : kbn) (v : S) : kbn :=
  let more := if ltb S (sabs S (ksum s)) (sabs S v) then v else ksum s in
  let less := if ltb S (sabs S (ksum s)) (sabs S v) then ksum s else v in
  let sum' := add S (ksum s) v in
  let trunc := sub S sum' more in
  {| ksum := sum'; kcomp := add S (kcomp s) (sub S less trunc) |}.
Definition kbn_sum (s : kbn) : S := add S (ksum s) (kcomp s).
Definition kbn_total (l : list S) : S := kbn_sum (fold_left kbn_add l kbn0).

(** ** vector.go *)
Record vec := { vdim : nat; vents : list entry }.

(** longest prefix with index < d  (sort.Search on a sorted span, then re-slice) *)
Fixpoint take_lt (d : nat) (l : list entry) : list entry :=
  match l with
  | [] => []
  | (i, x) :: t => if i <? d then (i, x) :: take_lt d t else []
  end.

(** Vector.SetDim *)
Definition vset_dim (d : nat) (v : vec) : vec :=
  {| vdim := d; vents := if d <? vdim v then take_lt d (vents v) else vents v |}.

(** Vector.Sum *)
Definition vsum (v : vec) : S := kbn_total (map snd (vents v)).

(** AddVec's merge loop *)
Fixpoint merge_add (e1 : list entry) : list entry -> list entry :=
  fix inner (e2 : list entry) : list entry :=
  match e1, e2 with
  | [], _ => e2
  | _, [] => e1
  | (i1, x1) :: t1, (i2, x2) :: t2 =>
      if i1 <? i2 then (i1, x1) :: merge_add t1 e2
      else if i2 <? i1 then (i2, x2) :: inner t2
      else (i1, add S x1 x2) :: merge_add t1 t2
  end.

(** SubVec's merge loop *)
Fixpoint merge_sub (e1 : list entry) : list entry -> list entry :=
  fix inner (e2 : list entry) : list entry :=
  match e1, e2 with
  | [], _ => map (fun e => (fst e, opp S (snd e))) e2
  | _, [] => e1
  | (i1, x1) :: t1, (i2, x2) :: t2 =>
      if i1 <? i2 then (i1, x1) :: merge_sub t1 e2
      else if i2 <? i1 then (i2, opp S x2) :: inner t2
      else (i1, sub S x1 x2) :: merge_sub t1 t2
  end.

Definition addvec (v1 v2 : vec) : res vec :=
  if vdim v1 =? vdim v2
  then Ok {| vdim := vdim v1; vents := merge_add (vents v1) (vents v2) |}
  else ErrDim.

Definition subvec (v1 v2 : vec) : res vec :=
  if vdim v1 =? vdim v2
  then Ok {| vdim := vdim v1; vents := merge_sub (vents v1) (vents v2) |}
  else ErrDim.

(** ScaleVec / scaleInPlace: a==0 clears, a==1 is the identity, otherwise
    multiply ([Value *= a]) and compact the entries that became zero. *)
Definition scale_entries (a : S) (l : list entry) : list entry :=
  filter (fun e => nz (snd e)) (map (fun e => (fst e, mul S (snd e) a)) l).
Definition scalevec (a : S) (v : vec) : vec :=
  if eqb S a (zero S) then {| vdim := vdim v; vents := [] |}
  else if eqb S a (one S) then v
  else {| vdim := vdim v; vents := scale_entries a (vents v) |}.

(** VecDot: outer loop over e1, inner "while e2.Index <= e1.Index", early exit
    when e2 is exhausted. *)
Fixpoint vecdot_go (l1 : list entry) : list entry -> kbn -> kbn :=
  fix inner (l2 : list entry) (k : kbn) : kbn :=
  match l1 with
  | [] => k
  | (i1, x1) :: t1 =>
      match l2 with
      | [] => k
      | (i2, x2) :: t2 =>
          if i2 <=? i1
          then inner t2 (if i1 =? i2 then kbn_add k (mul S x1 x2) else k)
          else vecdot_go t1 l2 k
      end
  end.
Definition vecdot (v1 v2 : vec) : S := kbn_sum (vecdot_go (vents v1) (vents v2) kbn0).

(** Norm2 *)
Definition norm2 (v : vec) : S :=
  ssqrt S (kbn_total (map (fun e => mul S (snd e) (snd e)) (vents v))).

(** ** matrix.go *)
Record csm := { major : nat; minor : nat; rows : list (list entry) }.

Definition row (m : csm) (r : nat) : list entry := nth r (rows m) [].
Definition row_vec (m : csm) (r : nat) : vec := {| vdim := minor m; vents := row m r |}.

(** CSMatrix.Dim *)
Definition mdim (m : csm) : res nat := if major m =? minor m then Ok (major m) else ErrDim.

Definition mnnz (m : csm) : nat := fold_right (fun r n => length r + n) 0 (rows m).

(** SetMajorDim (after the fix: rows exposed by a grow are empty) *)
Definition set_major (d : nat) (m : csm) : csm :=
  {| major := d; minor := minor m;
     rows := firstn d (rows m) ++ repeat [] (d - length (rows m)) |}.

(** SetMinorDim *)
Definition set_minor (d : nat) (m : csm) : csm :=
  {| major := major m; minor := d;
     rows := if d <? minor m then map (take_lt d) (rows m) else rows m |}.

(** CSRMatrix.SetDim(rows, cols) *)
Definition set_dim (r c : nat) (m : csm) : csm := set_minor c (set_major r m).

(** mergeSpan: s2 wins ties, a zero in s2 deletes (or is dropped) except in the
    exhaustion branches, which copy the remainder verbatim. *)
Definition keep_nz (e : entry) : list entry := if nz (snd e) then [e] else [].
Fixpoint merge_span (s1 : list entry) : list entry -> list entry :=
  fix inner (s2 : list entry) : list entry :=
  match s1, s2 with
  | [], _ => s2
  | _, [] => s1
  | (i1, x1) :: t1, (i2, x2) :: t2 =>
      if i1 <? i2 then (i1, x1) :: merge_span t1 s2
      else if i2 <? i1 then keep_nz (i2, x2) ++ inner t2
      else keep_nz (i2, x2) ++ merge_span t1 t2
  end.

(** Vector.Merge: returns (receiver', argument') *)
Definition vempty : vec := {| vdim := 0; vents := [] |}.
Definition vmerge (v v2 : vec) : vec * vec :=
  let v' := vset_dim (Nat.max (vdim v) (vdim v2)) v in
  ({| vdim := vdim v'; vents := merge_span (vents v') (vents v2) |}, vempty).

(** CSMatrix.Merge *)
Definition mempty : csm := {| major := 0; minor := 0; rows := [] |}.
Fixpoint merge_rows (r1 r2 : list (list entry)) : list (list entry) :=
  match r1, r2 with
  | a :: t1, b :: t2 => merge_span a b :: merge_rows t1 t2
  | _, [] => r1
  | [], _ => []      (* unreachable: the receiver was grown to max major *)
  end.
Definition mmerge (m m2 : csm) : csm * csm :=
  let m' := set_minor (Nat.max (minor m) (minor m2)) (set_major (Nat.max (major m) (major m2)) m) in
  ({| major := major m'; minor := minor m';
      rows := merge_rows (rows m') (firstn (major m2) (rows m2)) |}, mempty).

(** CSMatrix.Transpose: counting transpose; row [c] of the result lists, in
    increasing [r], the entries [(r, x)] with [(c, x)] in row [r]. *)
Fixpoint col_of (c : nat) (r : nat) (rws : list (list entry)) : list entry :=
  match rws with
  | [] => []
  | rw :: t => map (fun e => (r, snd e)) (filter (fun e => fst e =? c) rw) ++ col_of c (Datatypes.S r) t
  end.
Definition transpose (m : csm) : csm :=
  {| major := minor m; minor := major m;
     rows := map (fun c => col_of c 0 (rows m)) (seq 0 (minor m)) |}.

(** NewCSRMatrix: bucket by row (input order), sort each row by column. *)
Fixpoint insert_by_index (e : entry) (l : list entry) : list entry :=
  match l with
  | [] => [e]
  | h :: t => if fst e <? fst h then e :: l else h :: insert_by_index e t
  end.
Definition sort_by_index (l : list entry) : list entry := fold_left (fun acc e => insert_by_index e acc) l [].

Definition coo := (nat * nat * T S)%type.
Definition coo_row (c : coo) := fst (fst c).
Definition coo_col (c : coo) := snd (fst c).
Definition coo_val (c : coo) := snd c.
Definition new_csr (nr nc : nat) (es : list coo) (include_zero : bool) : csm :=
  let kept := filter (fun c => include_zero || nz (coo_val c)) es in
  {| major := nr; minor := nc;
     rows := map (fun r => sort_by_index
                    (map (fun c => (coo_col c, coo_val c)) (filter (fun c => coo_row c =? r) kept)))
                 (seq 0 nr) |}.

(** NewVector: copy and sort by index *)
Definition new_vec (d : nat) (es : list entry) : vec := {| vdim := d; vents := sort_by_index es |}.

(** TransposeToCSC / TransposeToCSR share the spans: as a model value the view
    *is* the same [csm]; only the reading of (rows, cols) differs. *)
Definition csr_dims (m : csm) : nat * nat := (major m, minor m).
Definition csc_dims (m : csm) : nat * nat := (minor m, major m).

(** MulVec: the sequential specification (one VecDot per row, zero products
    dropped, increasing row order).  The goroutine protocol is Model/Proto.v. *)
Definition mulvec (m : csm) (v1 : vec) : res vec :=
  rbind (mdim m) (fun d =>
  if d =? vdim v1
  then Ok {| vdim := d;
             vents := filter (fun e => nz (snd e))
                        (map (fun r => (r, vecdot (row_vec m r) v1)) (seq 0 d)) |}
  else ErrDim).

(** The same product for an arbitrary arrival order [pi] of the rows at the
    collector, followed by sort.Sort(EntriesByIndex). *)
Definition mulvec_arrival (m : csm) (v1 : vec) (pi : list nat) : list entry :=
  sort_by_index (filter (fun e => nz (snd e)) (map (fun r => (r, vecdot (row_vec m r) v1)) pi)).

(** ** Denotation and well-formedness *)
Fixpoint lookup (i : nat) (l : list entry) : option S :=
  match l with
  | [] => None
  | (j, x) :: t => if i =? j then Some x else lookup i t
  end.
Definition den (l : list entry) (i : nat) : S :=
  match lookup i l with Some x => x | None => zero S end.
Definition den2 (m : csm) (r c : nat) : S := den (row m r) c.

End Sparse.

Arguments kbn : clear implicits.
Arguments vec : clear implicits.
Arguments csm : clear implicits.
Arguments coo : clear implicits.

(** * Resource model of CSMatrix.Mmap / Munmap / Merge / SetMajorDim / SetMinorDim /
    Reset / Transpose and the finalizer (C12).

    A row is a span of entries that lives either on the Go heap or inside a file
    mapping [r], at entry offset [off] with capacity [cap]; a matrix remembers the
    mapping it adopted ([m_mapped], with its size in entries); the process has a set
    of live mappings and a set of temporary files in TMPDIR.  The contents of the
    rows are the ones of the pure model (Sparse.csm): [contents] projects a resource
    matrix onto it, and Proofs/MmProofs.v shows that every operation here is the pure
    operation on the contents (swap-out and swap-in being the identity). *)
From Coq Require Import List Arith Bool Lia.
From ET Require Import Model.Scalar Model.Sparse.
Import ListNotations.

Section Mm.
Context {S : ScalarOps}.
Notation entry := (nat * T S)%type.

Inductive place := Heap | Mapped (r off cap : nat).
Record mrow := { r_place : place; r_ents : list entry }.
Record mat := { m_major : nat; m_minor : nat; m_rows : list mrow;
                m_mapped : option (nat * nat) }.            (* mapping name, size in entries *)

Definition contents (m : mat) : csm S :=
  {| major := m_major m; minor := m_minor m; rows := map r_ents (m_rows m) |}.

Record sys := {
  mats : list (nat * mat);               (* reachable matrices by handle *)
  live : list nat;                       (* live mappings of the process *)
  files : list nat;                      (* temporary files present in TMPDIR *)
  next : nat }.                          (* fresh names *)

Inductive fault := NoFault | CreateTempFails | TruncateFails | MmapFails | CancelAtRow (k : nat).

Definition nonempty (rw : mrow) : bool := match r_ents rw with [] => false | _ => true end.
Definition nnz (m : mat) : nat := fold_right (fun rw n => length (r_ents rw) + n) 0 (m_rows m).

Fixpoint get (l : list (nat * mat)) (h : nat) : option mat :=
  match l with [] => None | (k, m) :: t => if k =? h then Some m else get t h end.
Fixpoint del (l : list (nat * mat)) (h : nat) : list (nat * mat) :=
  match l with [] => [] | (k, m) :: t => if k =? h then del t h else (k, m) :: del t h end.
Definition put (l : list (nat * mat)) (h : nat) (m : mat) : list (nat * mat) := (h, m) :: del l h.
Definition remove (x : nat) (l : list nat) : list nat := filter (fun y => negb (y =? x)) l.

(** the pointer-range test of Mmap: a non-empty span is clean when it lies in
    [start, start + nnz*sizeof(Entry)) of the current mapping, nnz being the CURRENT count *)
Definition row_clean (r n : nat) (rw : mrow) : bool :=
  match r_ents rw with
  | [] => true
  | _ => match r_place rw with
         | Mapped r' off _ => (r' =? r) && (off + length (r_ents rw) <=? n)
         | Heap => false
         end
  end.
Definition dirty (m : mat) (r : nat) : bool := negb (forallb (row_clean r (nnz m)) (m_rows m)).

(** the adoption loop: consecutive spans, full slice expressions (cap = len); empty rows keep their slice *)
Fixpoint place_rows (r start : nat) (l : list mrow) : list mrow :=
  match l with
  | [] => []
  | rw :: t => let n := length (r_ents rw) in
      (if n =? 0 then rw else {| r_place := Mapped r start n; r_ents := r_ents rw |}) :: place_rows r (start + n) t
  end.

Definition adopt (m : mat) (r : nat) : mat :=
  {| m_major := m_major m; m_minor := m_minor m; m_rows := place_rows r 0 (m_rows m); m_mapped := Some (r, nnz m) |}.

(** Mmap, written with its deferred clean-ups: the temp file [f] is created first and
    removed on every exit (by the deferred os.Remove on failure paths, explicitly after
    the mapping exists on the success path).  Result: (matrix', live', files', next', ok). *)
Definition mmap_fresh (s : sys) (m : mat) (f : fault) : mat * list nat * list nat * nat * bool :=
  match f with
  | CreateTempFails => (m, live s, files s, next s, false)
  | _ =>
    let tf := next s in                                   (* os.CreateTemp *)
    let fl1 := tf :: files s in
    let nx1 := Datatypes.S (next s) in
    match f with
    | TruncateFails => (m, live s, remove tf fl1, nx1, false)
    | MmapFails => (m, live s, remove tf fl1, nx1, false)
    | _ =>
      if nnz m =? 0 then (m, live s, remove tf fl1, nx1, false)       (* mmap of length 0: EINVAL *)
      else
        let r := nx1 in                                   (* syscall.Mmap *)
        let lv1 := r :: live s in
        let nx2 := Datatypes.S nx1 in
        let fl2 := remove tf fl1 in                       (* os.Remove right after mapping *)
        let cancelled := match f with CancelAtRow k => k <? length (m_rows m) | _ => false end in
        if cancelled then (m, remove r lv1, fl2, nx2, false)          (* deferred syscall.Munmap(mapped) *)
        else
          let lv2 := match m_mapped m with Some (r0, _) => remove r0 lv1 | None => lv1 end in
          (adopt m r, lv2, fl2, nx2, true)
    end
  end.

Definition mmap_op (s : sys) (m : mat) (f : fault) : mat * list nat * list nat * nat * bool :=
  match m_mapped m with
  | Some (r, _) => if dirty m r then mmap_fresh s m f else (m, live s, files s, next s, true)
  | None => mmap_fresh s m f
  end.

(** Munmap: copy every row back to the heap, then release the mapping *)
Definition munmap_mat (m : mat) : mat :=
  match m_mapped m with
  | None => m
  | Some _ => {| m_major := m_major m; m_minor := m_minor m;
                 m_rows := map (fun rw => {| r_place := Heap; r_ents := r_ents rw |}) (m_rows m); m_mapped := None |}
  end.
Definition munmap_live (m : mat) (lv : list nat) : list nat :=
  match m_mapped m with None => lv | Some (r, _) => remove r lv end.

Definition empty_mat : mat := {| m_major := 0; m_minor := 0; m_rows := []; m_mapped := None |}.
Definition heap_row (l : list entry) : mrow := {| r_place := Heap; r_ents := l |}.
Definition heap_mat (c : csm S) : mat :=
  {| m_major := major c; m_minor := minor c; m_rows := map heap_row (rows c); m_mapped := None |}.

(** SetMajorDim / SetMinorDim: re-slicing keeps the place (and the capacity) of a span *)
Definition set_major_r (d : nat) (m : mat) : mat :=
  {| m_major := d; m_minor := m_minor m;
     m_rows := firstn d (m_rows m) ++ repeat (heap_row []) (d - length (m_rows m)); m_mapped := m_mapped m |}.
Definition set_minor_r (d : nat) (m : mat) : mat :=
  {| m_major := m_major m; m_minor := d;
     m_rows := if d <? m_minor m then map (fun rw => {| r_place := r_place rw; r_ents := take_lt d (r_ents rw) |}) (m_rows m)
               else m_rows m;
     m_mapped := m_mapped m |}.

(** one row of Merge: mergeSpan returns s2 / s1 themselves when the other is empty, a fresh heap span otherwise *)
Definition merge_row (r1 r2 : mrow) : mrow :=
  match r_ents r1, r_ents r2 with
  | [], [] => heap_row []
  | [], _ => r2
  | _, [] => r1
  | a, b => heap_row (merge_span a b)
  end.
Fixpoint merge_rows_r (l1 l2 : list mrow) : list mrow :=
  match l1, l2 with
  | a :: t1, b :: t2 => merge_row a b :: merge_rows_r t1 t2
  | _, [] => l1
  | [], _ => []
  end.
Definition merge_r (m m2u : mat) : mat :=
  let m' := set_minor_r (Nat.max (m_minor m) (m_minor m2u)) (set_major_r (Nat.max (m_major m) (m_major m2u)) m) in
  {| m_major := m_major m'; m_minor := m_minor m';
     m_rows := merge_rows_r (m_rows m') (firstn (m_major m2u) (m_rows m2u)); m_mapped := m_mapped m' |}.

Inductive op :=
| OMmap (h : nat) (f : fault)
| OMunmap (h : nat)
| OMerge (h h2 : nat)
| OSetMajor (h : nat) (d : nat)
| OSetMinor (h : nat) (d : nat)
| OReset (h : nat)
| OTranspose (h : nat)
| ONew (c : csm S)
| ODrop (h : nat).                                     (* last reference dropped + GC: the finalizer runs *)

Definition with_mats (s : sys) (ms : list (nat * mat)) (lv : list nat) : sys :=
  {| mats := ms; live := lv; files := files s; next := next s |}.

Definition step (s : sys) (o : op) : sys :=
  match o with
  | OMmap h f =>
      match get (mats s) h with
      | None => s
      | Some m => let '(m', lv, fl, nx, _) := mmap_op s m f in
                  {| mats := put (mats s) h m'; live := lv; files := fl; next := nx |}
      end
  | OMunmap h =>
      match get (mats s) h with
      | None => s
      | Some m => with_mats s (put (mats s) h (munmap_mat m)) (munmap_live m (live s))
      end
  | OMerge h h2 =>
      match get (mats s) h, get (mats s) h2 with
      | Some m, Some m2 =>
          if h =? h2 then with_mats s (put (mats s) h empty_mat) (munmap_live m (live s))     (* m.Merge(m) ends in m.Reset() *)
          else with_mats s (put (put (mats s) h (merge_r m (munmap_mat m2))) h2 empty_mat) (munmap_live m2 (live s))
      | _, _ => s
      end
  | OSetMajor h d =>
      match get (mats s) h with
      | None => s
      | Some m => with_mats s (put (mats s) h (set_major_r d m)) (live s)
      end
  | OSetMinor h d =>
      match get (mats s) h with
      | None => s
      | Some m => with_mats s (put (mats s) h (set_minor_r d m)) (live s)
      end
  | OReset h =>
      match get (mats s) h with
      | None => s
      | Some m => with_mats s (put (mats s) h empty_mat) (munmap_live m (live s))
      end
  | OTranspose h =>
      match get (mats s) h with
      | None => s
      | Some m => {| mats := put (mats s) (next s) (heap_mat (transpose (contents m)));
                     live := live s; files := files s; next := Datatypes.S (next s) |}
      end
  | ONew c =>
      {| mats := put (mats s) (next s) (heap_mat c); live := live s; files := files s; next := Datatypes.S (next s) |}
  | ODrop h =>
      match get (mats s) h with
      | None => s
      | Some m => with_mats s (del (mats s) h) (munmap_live m (live s))
      end
  end.

Definition init : sys := {| mats := []; live := []; files := []; next := 0 |}.

End Mm.

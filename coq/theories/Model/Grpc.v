(** * Model of pkg/basic/server/grpc: trust matrix / trust vector stores with
    timestamps, the big-endian qword codec, and BasicCompute. *)
From Coq Require Import List Arith Bool ZArith NArith Lia.
From ET Require Import Model.Scalar Model.Sparse Model.Basic.
Import ListNotations.

(** ** biguintqwords.go *)
Definition Q64 : N := 18446744073709551616%N.   (* 2^64 *)

Fixpoint to_qwords_fuel (fuel : nat) (n : N) (acc : list N) : list N :=
  match fuel with
  | O => acc
  | Datatypes.S f => if (n =? 0)%N then acc else to_qwords_fuel f (n / Q64)%N ((n mod Q64)%N :: acc)
  end.
(** BigUint2Qwords: the base-2^64 digits, most significant first, no leading zero qword *)
Definition to_qwords (n : N) : list N := to_qwords_fuel (Datatypes.S (N.to_nat (N.size n))) n [].
(** Qwords2BigUint *)
Definition of_qwords (qs : list N) : N := fold_left (fun acc w => (acc * Q64 + w)%N) qs 0%N.

Section Grpc.
Context {S : ScalarOps}.
Notation entry := (nat * T S)%type.

(** ** stores: id -> (collection, timestamp) *)
Record gstate := { g_mats : list (nat * (csm S * N)); g_vecs : list (nat * (vec S * N)) }.
Definition g0 : gstate := {| g_mats := []; g_vecs := [] |}.

Fixpoint aget {A} (l : list (nat * A)) (id : nat) : option A :=
  match l with [] => None | (k, a) :: t => if k =? id then Some a else aget t id end.
Fixpoint adel {A} (l : list (nat * A)) (id : nat) : list (nat * A) :=
  match l with [] => [] | (k, a) :: t => if k =? id then adel t id else (k, a) :: adel t id end.
Definition aset {A} (l : list (nat * A)) (id : nat) (a : A) : list (nat * A) := (id, a) :: adel l id.

(** a parsed index string: [None] = strconv.Atoi failed *)
Definition pidx := option Z.

Inductive gcode := GOk | GNotFound | GInvalidArgument | GAlreadyExists | GUnknown | GUnavailable | GInternal.

Inductive greq :=
| MCreate (id : option nat) (fresh : nat)      (* id given, or [fresh]: the random id the server draws *)
| MGet (id : nat)
| MUpdate (id : nat) (ts : N) (es : list (pidx * pidx * T S))
| MFlush (id : nat)
| MDelete (id : nat)
| VCreate (id : option nat) (fresh : nat)
| VGet (id : nat)
| VUpdate (id : nat) (ts : N) (es : list (pidx * T S))
| VFlush (id : nat)
| VDelete (id : nat).

Inductive gresp :=
| GStatus (c : gcode)
| GCreated (id : nat)
| GMatrix (ts : list N) (es : list (nat * nat * T S))     (* header qwords, non-zero entries row-major *)
| GVector (ts : list N) (es : list entry).

Definition all_parsed {A} (es : list (pidx * A)) : bool := forallb (fun e => match fst e with Some _ => true | None => false end) es.
Definition zidx (p : pidx) : Z := match p with Some z => z | None => 0%Z end.

Definition mat_nonzero (m : csm S) : list (nat * nat * T S) :=
  concat (map (fun ir => map (fun e => (fst ir, fst e, snd e)) (filter (fun e => nz (snd e)) (snd ir)))
              (combine (seq 0 (length (rows m))) (rows m))).

Definition matrix_update (c : csm S) (es : list (pidx * pidx * T S)) : option (gcode + csm S) :=
  (* entries are parsed in order; the first unparsable index or negative index aborts *)
  (fix go (l : list (pidx * pidx * T S)) (acc : list (coo S)) (rows cols : nat) : option (gcode + csm S) :=
     match l with
     | [] => let d := Nat.max rows cols in
             Some (inr (fst (mmerge c (new_csr d d (rev acc) true))))
     | (pi, pj, v) :: t =>
         match pi, pj with
         | Some i, Some j =>
             if (i <? 0)%Z || (j <? 0)%Z then Some (inl GInvalidArgument)
             else go t ((Z.to_nat i, Z.to_nat j, v) :: acc)
                     (Nat.max rows (Datatypes.S (Z.to_nat i))) (Nat.max cols (Datatypes.S (Z.to_nat j)))
         | _, _ => Some (inl GInvalidArgument)     (* an index string that is not an integer *)
         end
     end) es [] 0 0.

Definition vector_update (v : vec S) (es : list (pidx * T S)) : option (gcode + vec S) :=
  (fix go (l : list (pidx * T S)) (acc : list entry) (size : nat) : option (gcode + vec S) :=
     match l with
     | [] => Some (inr (fst (vmerge v (new_vec size (rev acc)))))
     | (pi, x) :: t =>
         match pi with
         | Some i => if (i <? 0)%Z then Some (inl GInvalidArgument)
                     else go t ((Z.to_nat i, x) :: acc) (Nat.max size (Datatypes.S (Z.to_nat i)))
         | None => Some (inl GInvalidArgument)
         end
     end) es [] 0.

Definition gstep (s : gstate) (r : greq) : gstate * gresp :=
  match r with
  | MCreate (Some id) _ =>
      match aget (g_mats s) id with
      | Some _ => (s, GStatus GUnknown)                    (* "already have a trust matrix": a plain Go error *)
      | None => ({| g_mats := aset (g_mats s) id (mempty, 0%N); g_vecs := g_vecs s |}, GCreated id)
      end
  | MCreate None fresh => ({| g_mats := aset (g_mats s) fresh (mempty, 0%N); g_vecs := g_vecs s |}, GCreated fresh)
  | MGet id =>
      match aget (g_mats s) id with
      | Some (m, ts) => (s, GMatrix (to_qwords ts) (mat_nonzero m))
      | None => (s, GStatus GNotFound)
      end
  | MUpdate id ts es =>
      match aget (g_mats s) id with
      | None => (s, GStatus GNotFound)
      | Some (m, ts0) =>
          match matrix_update m es with
          | Some (inr m') => ({| g_mats := aset (g_mats s) id (m', N.max ts0 ts); g_vecs := g_vecs s |}, GStatus GOk)
          | Some (inl c) => (s, GStatus c)
          | None => (s, GStatus GInternal)
          end
      end
  | MFlush id =>
      match aget (g_mats s) id with
      | None => (s, GStatus GNotFound)
      | Some _ => ({| g_mats := aset (g_mats s) id (mempty, 0%N); g_vecs := g_vecs s |}, GStatus GOk)
      end
  | MDelete id =>
      match aget (g_mats s) id with
      | None => (s, GStatus GNotFound)
      | Some _ => ({| g_mats := adel (g_mats s) id; g_vecs := g_vecs s |}, GStatus GOk)
      end
  | VCreate (Some id) _ =>
      match aget (g_vecs s) id with
      | Some _ => (s, GStatus GUnknown)
      | None => ({| g_mats := g_mats s; g_vecs := aset (g_vecs s) id (vempty, 0%N) |}, GCreated id)
      end
  | VCreate None fresh => ({| g_mats := g_mats s; g_vecs := aset (g_vecs s) fresh (vempty, 0%N) |}, GCreated fresh)
  | VGet id =>
      match aget (g_vecs s) id with
      | Some (v, ts) => (s, GVector (to_qwords ts) (filter (fun e => nz (snd e)) (vents v)))
      | None => (s, GStatus GNotFound)
      end
  | VUpdate id ts es =>
      match aget (g_vecs s) id with
      | None => (s, GStatus GNotFound)
      | Some (v, ts0) =>
          match vector_update v es with
          | Some (inr v') => ({| g_mats := g_mats s; g_vecs := aset (g_vecs s) id (v', N.max ts0 ts) |}, GStatus GOk)
          | Some (inl c) => (s, GStatus c)
          | None => (s, GStatus GInternal)
          end
      end
  | VFlush id =>
      match aget (g_vecs s) id with
      | None => (s, GStatus GNotFound)
      | Some _ => ({| g_mats := g_mats s; g_vecs := aset (g_vecs s) id (vempty, 0%N) |}, GStatus GOk)
      end
  | VDelete id =>
      match aget (g_vecs s) id with
      | None => (s, GStatus GNotFound)
      | Some _ => ({| g_mats := g_mats s; g_vecs := adel (g_vecs s) id |}, GStatus GOk)
      end
  end.

(** ** compute.go: BasicCompute *)
Record bc_params := {
  bc_local : nat; bc_pre : option nat; bc_global : nat; bc_positive : option nat;
  bc_alpha : option (T S); bc_epsilon : option (T S); bc_max : N }.

Definition basic_compute (fuel : nat) (default_eps : nat -> T S) (s : gstate) (q : bc_params) : gstate * gcode :=
  match aget (g_mats s) (bc_local q) with
  | None => (s, GNotFound)
  | Some (c0, tsc) =>
    match mdim c0 with
    | Ok cdim0 =>
      (* pre-trust *)
      match (match bc_pre q with
             | None => Some (new_vec cdim0 [], c0, cdim0, tsc)
             | Some pid => match aget (g_vecs s) pid with
                           | None => None
                           | Some (p, tsp) =>
                               let ts := N.max tsc tsp in
                               if vdim p <? cdim0 then Some (vset_dim cdim0 p, c0, cdim0, ts)
                               else if cdim0 <? vdim p then Some (p, set_dim (vdim p) (vdim p) c0, vdim p, ts)
                               else Some (p, c0, cdim0, ts)
                           end
             end) with
      | None => (s, GNotFound)
      | Some (p1, c1, cdim1, ts1) =>
        match aget (g_vecs s) (bc_global q) with
        | None => (s, GNotFound)
        | Some (t00, tsg) =>
          let ts := N.max ts1 tsg in
          let '(t1, p2, c2, cdim2) :=
            if vdim t00 <? vdim p1 then (vset_dim (vdim p1) t00, p1, c1, cdim1)
            else if vdim p1 <? vdim t00 then (t00, vset_dim (vdim t00) p1, set_dim (vdim t00) (vdim t00) c1, vdim t00)
            else (t00, p1, c1, cdim1) in
          match (match bc_positive q with
                 | Some gid => match aget (g_vecs s) gid with Some _ => true | None => false end
                 | None => true end) with
          | false => (s, GNotFound)
          | true =>
            match (match bc_alpha q with
                   | None => Some (div S (one S) (add S (one S) (one S)))
                   | Some a => if ltb S a (zero S) || ltb S (one S) a then None else Some a end),
                  (match bc_epsilon q with
                   | None => Some (default_eps cdim2)
                   | Some e => if leb S e (zero S) || ltb S (one S) e then None else Some e end) with
            | Some a, Some e =>
              let p3 := canon_tv p2 in
              let t3 := canon_tv t1 in
              match extract_distrust c2 with
              | Ok (cpos, disc) =>
                match canon_lt cpos (Some p3), canon_lt disc None with
                | Ok cc, Ok dc =>
                  let o := {| o_t0 := Some t3; o_result_dim := Some (vdim t3); o_flat_tail := 0%Z; o_num_leaders := 0%Z;
                              o_max_iters := if (bc_max q =? 0)%N then None else Some (Z.of_N (bc_max q));
                              o_min_iters := None; o_check_freq := None |} in
                  match compute fuel cc p3 a e o with
                  | Done t _ _ =>
                      let vecs1 :=
                        match bc_positive q with
                        | Some gid => match aget (g_vecs s) gid with
                                      | Some (_, tsq) => aset (g_vecs s) gid (t, N.max tsq ts)
                                      | None => g_vecs s end
                        | None => g_vecs s end in
                      let t' := match discount t dc with Ok t' => t' | _ => t end in
                      let tsg' := match aget vecs1 (bc_global q) with Some (_, x) => x | None => 0%N end in
                      ({| g_mats := g_mats s; g_vecs := aset vecs1 (bc_global q) (t', N.max tsg' ts) |}, GOk)
                  | Failed _ => (s, GUnavailable)
                  | OutOfFuel => (s, GUnknown)
                  | Panicked => (s, GUnknown)
                  end
                | _, _ => (s, GInternal)
                end
              | _ => (s, GInternal)
              end
            | _, _ => (s, GInvalidArgument)
            end
          end
        end
      end
    | _ => (s, GInternal)
    end
  end.

End Grpc.

Arguments gstate : clear implicits.
Arguments greq : clear implicits.
Arguments gresp : clear implicits.
Arguments bc_params : clear implicits.

(** * Model of the CSV ingestion paths: the library readers of pkg/basic
    (peernames.go, localtrust.go, trustvector.go) and the CLI's loaders and peer
    table (cmd/eigentrust/cmd/basiccompute.go).

    The model starts where encoding/csv and strconv end: a file is the list of
    records csv.Reader delivers, followed by a clean EOF or by a read error; every
    field carries, next to its bytes, what strconv makes of it (Atoi, ParseInt base 0,
    ParseFloat).  These annotations are computed by the harness with the same library
    calls the code makes (trusted oracle, see DESIGN.md). *)
From Coq Require Import List Arith Bool ZArith NArith Lia.
From ET Require Import Model.Scalar Model.Sparse.
Import ListNotations.

Definition name := list N.                    (* the bytes of a peer name *)
Definition name_eqb (a b : name) : bool :=
  (fix go (a b : list N) : bool :=
     match a, b with [], [] => true | x :: a', y :: b' => N.eqb x y && go a' b' | _, _ => false end) a b.

Section Csv.
Context {S : ScalarOps}.

Record field := F { f_raw : name; f_atoi : option Z; f_pint : option Z; f_float : option (T S) }.
Definition record := list field.
Record csvin := CSV { recs : list record; clean_eof : bool }.

Inductive rres (A : Type) := ROk (a : A) | RErr (code : nat).
Arguments ROk {A}. Arguments RErr {A}.
(* codes: 1 too few fields, 2 bad from, 3 bad to, 4 bad level, 5 read error, 6 too many fields,
   7 negative index, 8 empty, 9 duplicate name, 10 negative value, 11 value not representable in JSON *)

(** position of the first occurrence *)
Fixpoint index_of (x : name) (l : list name) : option nat :=
  match l with
  | [] => None
  | y :: t => if name_eqb y x then Some 0 else option_map Datatypes.S (index_of x t)
  end.

(** ** pkg/basic/peernames.go *)
Fixpoint read_names_go (rs : list record) (acc : list name) : rres (list name) :=
  match rs with
  | [] => ROk acc
  | r :: t => match r with
              | [] => RErr 1
              | f :: _ => match index_of (f_raw f) acc with
                          | Some _ => RErr 9
                          | None => read_names_go t (acc ++ [f_raw f])
                          end
              end
  end.
Definition read_peer_names (i : csvin) : rres (list name) :=
  match read_names_go (recs i) [] with
  | ROk ns => if clean_eof i then ROk ns else RErr 5
  | RErr c => RErr c
  end.

(** ParsePeerId: through the peer list when there is one, else a non-negative decimal literal *)
Definition parse_peer_id (names : option (list name)) (f : field) : option nat :=
  match names with
  | Some ns => index_of (f_raw f) ns
  | None => match f_atoi f with Some z => if (z <? 0)%Z then None else Some (Z.to_nat z) | None => None end
  end.

(** ParseTrustLevel: every ParseFloat error is an error (the "negative" test only renames one) *)
Definition parse_level (f : field) : option (T S) := f_float f.

(** ** pkg/basic/localtrust.go ReadLocalTrustFromCsv *)
Definition parse_lt_fields (names : option (list name)) (r : record) : rres (nat * nat * T S) :=
  match r with
  | f0 :: f1 :: rest =>
      match parse_peer_id names f0 with
      | None => RErr 2
      | Some from =>
          match parse_peer_id names f1 with
          | None => RErr 3
          | Some to =>
              match rest with
              | [] => ROk (from, to, one S)
              | f2 :: _ => match parse_level f2 with Some l => ROk (from, to, l) | None => RErr 4 end
              end
          end
      end
  | _ => RErr 1
  end.
Fixpoint parse_all {A} (p : record -> rres A) (rs : list record) : rres (list A) :=
  match rs with
  | [] => ROk []
  | r :: t => match p r with
              | RErr c => RErr c
              | ROk a => match parse_all p t with ROk l => ROk (a :: l) | RErr c => RErr c end
              end
  end.
(** dimension = highest index + 1 (0 for no record) *)
Definition dim_of (ixs : list nat) : nat := fold_left (fun d i => Nat.max d (Datatypes.S i)) ixs 0.
Definition read_local_trust (names : option (list name)) (i : csvin) : rres (csm S) :=
  match parse_all (parse_lt_fields names) (recs i) with
  | RErr c => RErr c
  | ROk es => if clean_eof i
              then let d := dim_of (map (fun e => fst (fst e)) es ++ map (fun e => snd (fst e)) es) in
                   ROk (new_csr d d es false)
              else RErr 5
  end.

(** ** pkg/basic/trustvector.go ReadTrustVectorFromCsv *)
Definition parse_tv_fields (names : option (list name)) (r : record) : rres (nat * T S) :=
  match r with
  | f0 :: rest =>
      match parse_peer_id names f0 with
      | None => RErr 2
      | Some peer =>
          match rest with
          | [] => ROk (peer, one S)
          | f1 :: _ => match parse_level f1 with Some l => ROk (peer, l) | None => RErr 4 end
          end
      end
  | [] => RErr 1
  end.
Definition read_trust_vector (names : option (list name)) (i : csvin) : rres (vec S) :=
  match parse_all (parse_tv_fields names) (recs i) with
  | RErr c => RErr c
  | ROk es => if clean_eof i then ROk (new_vec (dim_of (map fst es)) es) else RErr 5
  end.

(** ** cmd/eigentrust/cmd/basiccompute.go: the peer table and the CSV loaders *)

(** getPeerIndex: raw mode parses an integer literal (base prefix allowed, may be negative);
    otherwise the name is looked up and, when new, appended *)
Definition get_peer_index (raw : bool) (t : list name) (f : field) : option (list name * Z) :=
  if raw then option_map (fun z => (t, z)) (f_pint f)
  else match index_of (f_raw f) t with
       | Some i => Some (t, Z.of_nat i)
       | None => Some (t ++ [f_raw f], Z.of_nat (length t))
       end.

(** getPeerId: the way back, for the output CSV *)
Inductive peer_id := IdName (n : name) | IdRaw (i : nat).
Definition get_peer_id (raw : bool) (t : list name) (i : nat) : option peer_id :=
  if raw then Some (IdRaw i) else option_map IdName (nth_error t i).

Record mat_load := { ml_tbl : list name; ml_entries : list (nat * nat * T S); ml_size : nat }.

(** the record loop of loadInlineTrustMatrixCsv; [skip] = a header line is still to be skipped *)
Fixpoint load_mat_go (raw : bool) (rs : list record) (skip : bool) (t : list name)
                     (acc : list (nat * nat * T S)) (size : nat) : rres mat_load :=
  match rs with
  | [] => ROk {| ml_tbl := t; ml_entries := rev acc; ml_size := size |}
  | r :: rest =>
      if length r <? 2 then RErr 1 else if 3 <? length r then RErr 6 else
      if skip then load_mat_go raw rest false t acc size else
      match r with
      | f0 :: f1 :: tl =>
          match get_peer_index raw t f0 with
          | None => RErr 2
          | Some (t1, from) =>
              if (from <? 0)%Z then RErr 7 else
              match get_peer_index raw t1 f1 with
              | None => RErr 3
              | Some (t2, to) =>
                  if (to <? 0)%Z then RErr 7 else
                  match (match tl with [] => Some (one S) | f2 :: _ => f_float f2 end) with
                  | None => RErr 4
                  | Some v =>
                      let i := Z.to_nat from in let j := Z.to_nat to in
                      load_mat_go raw rest false t2 ((i, j, v) :: acc)
                                  (Nat.max (Nat.max size (Datatypes.S i)) (Datatypes.S j))
                  end
              end
          end
      | _ => RErr 1
      end
  end.
Definition load_matrix_csv (header raw : bool) (t : list name) (i : csvin) : rres mat_load :=
  match load_mat_go raw (recs i) header t [] 0 with
  | RErr c => RErr c
  | ROk l => if ml_size l =? 0 then RErr 8
             else if negb (clean_eof i) then RErr 5
             else if existsb (fun e => nonfinite S (snd e)) (ml_entries l) then RErr 11   (* json.Marshal refuses NaN / Inf *)
             else ROk l
  end.

Record vec_load := { vl_tbl : list name; vl_entries : list (nat * T S); vl_size : nat }.
Fixpoint load_vec_go (raw : bool) (rs : list record) (skip : bool) (t : list name)
                     (acc : list (nat * T S)) (size : nat) : rres vec_load :=
  match rs with
  | [] => ROk {| vl_tbl := t; vl_entries := rev acc; vl_size := size |}
  | r :: rest =>
      if length r <? 1 then RErr 1 else if 2 <? length r then RErr 6 else
      if skip then load_vec_go raw rest false t acc size else
      match r with
      | f0 :: tl =>
          match get_peer_index raw t f0 with
          | None => RErr 2
          | Some (t1, from) =>
              if (from <? 0)%Z then RErr 7 else
              match (match tl with [] => Some (one S) | f1 :: _ => f_float f1 end) with
              | None => RErr 4
              | Some v =>
                  if ltb S v (zero S) then RErr 10 else
                  let i := Z.to_nat from in
                  load_vec_go raw rest false t1 ((i, v) :: acc) (Nat.max size (Datatypes.S i))
              end
          end
      | [] => RErr 1
      end
  end.
Definition load_vector_csv (header raw : bool) (t : list name) (i : csvin) : rres vec_load :=
  match load_vec_go raw (recs i) header t [] 0 with
  | RErr c => RErr c
  | ROk l => if vl_size l =? 0 then RErr 8
             else if negb (clean_eof i) then RErr 5
             else if existsb (fun e => nonfinite S (snd e)) (vl_entries l) then RErr 11
             else ROk l
  end.

(** the request runBasicCompute assembles: local trust first, then pre-trust, then initial trust,
    all through the same table; [peerIds] is the table at the end *)
Record request := { rq_local : mat_load; rq_pre : option vec_load; rq_init : option vec_load; rq_ids : list name }.
Definition build_request (header raw : bool) (lt : csvin) (pt it : option csvin) : rres request :=
  match load_matrix_csv header raw [] lt with
  | RErr c => RErr c
  | ROk l =>
      match (match pt with
             | None => ROk (None, ml_tbl l)
             | Some p => match load_vector_csv header raw (ml_tbl l) p with
                         | ROk v => ROk (Some v, vl_tbl v) | RErr c => RErr (100 + c) end
             end) with
      | RErr c => RErr c
      | ROk (pv, t1) =>
          match (match it with
                 | None => ROk (None, t1)
                 | Some p => match load_vector_csv header raw t1 p with
                             | ROk v => ROk (Some v, vl_tbl v) | RErr c => RErr (200 + c) end
                 end) with
          | RErr c => RErr c
          | ROk (iv, t2) => ROk {| rq_local := l; rq_pre := pv; rq_init := iv; rq_ids := t2 |}
          end
      end
  end.

(** ** pkg/basic/server/oapi/openapi.go: the server-side CSV loaders behind objectstorage references
    (loadCsvTrustMatrix / loadCsvTrustVector): a header line "i,j,v" / "i,v", decimal indices that
    must not be negative, every read error is an error, a matrix without records is refused.
    The result is the (size, coordinate list) the loader hands to NewCSRMatrix / NewVector. *)
Definition header_is (r : record) (cols : list name) : bool :=
  (fix eq (a : list field) (b : list name) : bool :=
     match a, b with [], [] => true | f :: a', c :: b' => name_eqb (f_raw f) c && eq a' b' | _, _ => false end) r cols.
Definition nat_idx (f : field) : option nat :=
  match f_atoi f with Some z => if (z <? 0)%Z then None else Some (Z.to_nat z) | None => None end.
Definition parse_csv_mat_rec (r : record) : rres (nat * nat * T S) :=
  match r with
  | [fi; fj; fv] => match nat_idx fi, nat_idx fj, f_float fv with
                    | Some i, Some j, Some v => ROk (i, j, v)
                    | _, _, _ => RErr 2
                    end
  | _ => RErr 1
  end.
Definition load_csv_mat (c : csvin) : option (nat * list (nat * nat * T S)) :=
  match recs c with
  | [] => None                                         (* cannot read the header *)
  | h :: rs =>
      if negb (header_is h [[105%N]; [106%N]; [118%N]]) then None else
      match parse_all parse_csv_mat_rec rs with
      | RErr _ => None
      | ROk es => if negb (clean_eof c) then None
                  else let size := dim_of (map (fun e => fst (fst e)) es ++ map (fun e => snd (fst e)) es) in
                       if size =? 0 then None else Some (size, es)
      end
  end.
Definition parse_csv_vec_rec (r : record) : rres (nat * T S) :=
  match r with
  | [fi; fv] => match nat_idx fi, f_float fv with Some i, Some v => ROk (i, v) | _, _ => RErr 2 end
  | _ => RErr 1
  end.
Definition load_csv_vec (c : csvin) : option (nat * list (nat * T S)) :=
  match recs c with
  | [] => None
  | h :: rs =>
      if negb (header_is h [[105%N]; [118%N]]) then None else
      match parse_all parse_csv_vec_rec rs with
      | RErr _ => None
      | ROk es => if negb (clean_eof c) then None else Some (dim_of (map fst es), es)
      end
  end.

End Csv.
Arguments ROk {A}. Arguments RErr {A}.

(** * Scalar arithmetic: the model is parametric in it.

    [F64] (primitive binary64 floats, bit-exact with Go's float64 on amd64) is
    the instance compared with the implementation; [RR] (Proofs/RInst.v) is the
    instance of the analytic theorems.  Structural theorems are proved once for
    every [ScalarOps]. *)
From Coq Require Import List Arith Bool Floats ZArith.
Import ListNotations.

Record ScalarOps := {
  T :> Type;
  zero : T; one : T;
  add : T -> T -> T; sub : T -> T -> T; mul : T -> T -> T; div : T -> T -> T;
  opp : T -> T; sabs : T -> T; ssqrt : T -> T;
  eqb : T -> T -> bool; ltb : T -> T -> bool; leb : T -> T -> bool;
  of_nat : nat -> T;
  nonfinite : T -> bool          (* math.IsNaN(x) || math.IsInf(x, 0) *)
}.

(** Go's [x != 0] (true for NaN), [x == 0] (true for -0). *)
Definition nz {S : ScalarOps} (x : S) : bool := negb (eqb S x (zero S)).
Definition isz {S : ScalarOps} (x : S) : bool := eqb S x (zero S).

(** ** The binary64 instance *)
Definition f64_of_nat (n : nat) : float := PrimFloat.of_uint63 (Uint63.of_Z (Z.of_nat n)).
Definition f64_nonfinite (x : float) : bool := PrimFloat.is_nan x || PrimFloat.is_infinity x.

Definition F64 : ScalarOps := {|
  T := float; zero := 0%float; one := 1%float;
  add := PrimFloat.add; sub := PrimFloat.sub; mul := PrimFloat.mul; div := PrimFloat.div;
  opp := PrimFloat.opp; sabs := PrimFloat.abs; ssqrt := PrimFloat.sqrt;
  eqb := PrimFloat.eqb; ltb := PrimFloat.ltb; leb := PrimFloat.leb;
  of_nat := f64_of_nat; nonfinite := f64_nonfinite |}.

(** Equality of observations: same bits, all NaNs identified. *)
Definition fbits_eqb (x y : float) : bool :=
  (PrimFloat.is_nan x && PrimFloat.is_nan y)
  || (PrimFloat.eqb x y && Bool.eqb (PrimFloat.get_sign x) (PrimFloat.get_sign y)).

(** * Small-step model of the goroutine protocol of Vector.MulVec (C06/C07).

    Producer, W symmetric workers, closer and collector over two buffered
    channels of capacity dim (sends never block); a [select] with several ready
    cases may take any of them; [Cancel] may happen at any time.  The rows are
    represented by their indices; [dropped] is a ghost list of rows abandoned
    because of cancellation.  [post_check] says whether the collector re-checks
    the context after its loop (extracted from the source on every run). *)
From Coq Require Import List Arith Lia Bool Permutation.
Import ListNotations.

Record st := {
  cancelled : bool;
  unsent : list nat; prod_live : bool;
  jobs : list nat; jobs_closed : bool;
  idle : nat; holding : list nat; exited : nat;
  ents : list nat; ents_closed : bool;
  collected : list nat; loop_done : bool;
  dropped : list nat;                       (* ghost *)
  ret : option (option (list nat)) }.       (* None | Some None = ctx.Err | Some (Some l) = success *)

Section Proto.
Variable dim W : nat.
Variable post_check : bool.                  (* extracted from the source *)

Definition init : st := {|
  cancelled := false; unsent := seq 0 dim; prod_live := true;
  jobs := []; jobs_closed := false; idle := W; holding := []; exited := 0;
  ents := []; ents_closed := false; collected := []; loop_done := false;
  dropped := []; ret := None |}.

Inductive step : st -> st -> Prop :=
| Cancel s : cancelled s = false ->
    step s {| cancelled := true; unsent := unsent s; prod_live := prod_live s; jobs := jobs s; jobs_closed := jobs_closed s;
              idle := idle s; holding := holding s; exited := exited s; ents := ents s; ents_closed := ents_closed s;
              collected := collected s; loop_done := loop_done s; dropped := dropped s; ret := ret s |}
| ProdSend s r u : prod_live s = true -> unsent s = r :: u ->
    step s {| cancelled := cancelled s; unsent := u; prod_live := true; jobs := jobs s ++ [r]; jobs_closed := jobs_closed s;
              idle := idle s; holding := holding s; exited := exited s; ents := ents s; ents_closed := ents_closed s;
              collected := collected s; loop_done := loop_done s; dropped := dropped s; ret := ret s |}
| ProdAbort s : prod_live s = true -> cancelled s = true ->
    step s {| cancelled := true; unsent := []; prod_live := false; jobs := jobs s; jobs_closed := true;
              idle := idle s; holding := holding s; exited := exited s; ents := ents s; ents_closed := ents_closed s;
              collected := collected s; loop_done := loop_done s; dropped := unsent s ++ dropped s; ret := ret s |}
| ProdFinish s : prod_live s = true -> unsent s = [] ->
    step s {| cancelled := cancelled s; unsent := []; prod_live := false; jobs := jobs s; jobs_closed := true;
              idle := idle s; holding := holding s; exited := exited s; ents := ents s; ents_closed := ents_closed s;
              collected := collected s; loop_done := loop_done s; dropped := dropped s; ret := ret s |}
| WRecv s r j n : idle s = S n -> jobs s = r :: j ->
    step s {| cancelled := cancelled s; unsent := unsent s; prod_live := prod_live s; jobs := j; jobs_closed := jobs_closed s;
              idle := n; holding := r :: holding s; exited := exited s; ents := ents s; ents_closed := ents_closed s;
              collected := collected s; loop_done := loop_done s; dropped := dropped s; ret := ret s |}
| WClosed s n : idle s = S n -> jobs s = [] -> jobs_closed s = true ->
    step s {| cancelled := cancelled s; unsent := unsent s; prod_live := prod_live s; jobs := []; jobs_closed := true;
              idle := n; holding := holding s; exited := S (exited s); ents := ents s; ents_closed := ents_closed s;
              collected := collected s; loop_done := loop_done s; dropped := dropped s; ret := ret s |}
| WCancelIdle s n : idle s = S n -> cancelled s = true ->
    step s {| cancelled := true; unsent := unsent s; prod_live := prod_live s; jobs := jobs s; jobs_closed := jobs_closed s;
              idle := n; holding := holding s; exited := S (exited s); ents := ents s; ents_closed := ents_closed s;
              collected := collected s; loop_done := loop_done s; dropped := dropped s; ret := ret s |}
| WSend s h1 r h2 : holding s = h1 ++ r :: h2 ->
    step s {| cancelled := cancelled s; unsent := unsent s; prod_live := prod_live s; jobs := jobs s; jobs_closed := jobs_closed s;
              idle := S (idle s); holding := h1 ++ h2; exited := exited s; ents := ents s ++ [r]; ents_closed := ents_closed s;
              collected := collected s; loop_done := loop_done s; dropped := dropped s; ret := ret s |}
| WCancelHold s h1 r h2 : holding s = h1 ++ r :: h2 -> cancelled s = true ->
    step s {| cancelled := true; unsent := unsent s; prod_live := prod_live s; jobs := jobs s; jobs_closed := jobs_closed s;
              idle := idle s; holding := h1 ++ h2; exited := S (exited s); ents := ents s; ents_closed := ents_closed s;
              collected := collected s; loop_done := loop_done s; dropped := r :: dropped s; ret := ret s |}
| Close s : exited s = W -> ents_closed s = false ->
    step s {| cancelled := cancelled s; unsent := unsent s; prod_live := prod_live s; jobs := jobs s; jobs_closed := jobs_closed s;
              idle := idle s; holding := holding s; exited := exited s; ents := ents s; ents_closed := true;
              collected := collected s; loop_done := loop_done s; dropped := dropped s; ret := ret s |}
| CRecv s r e : ret s = None -> loop_done s = false -> ents s = r :: e ->
    step s {| cancelled := cancelled s; unsent := unsent s; prod_live := prod_live s; jobs := jobs s; jobs_closed := jobs_closed s;
              idle := idle s; holding := holding s; exited := exited s; ents := e; ents_closed := ents_closed s;
              collected := collected s ++ [r]; loop_done := false; dropped := dropped s; ret := None |}
| CCancel s : ret s = None -> loop_done s = false -> cancelled s = true ->
    step s {| cancelled := true; unsent := unsent s; prod_live := prod_live s; jobs := jobs s; jobs_closed := jobs_closed s;
              idle := idle s; holding := holding s; exited := exited s; ents := ents s; ents_closed := ents_closed s;
              collected := collected s; loop_done := false; dropped := dropped s; ret := Some None |}
| CClosed s : ret s = None -> loop_done s = false -> ents s = [] -> ents_closed s = true ->
    step s {| cancelled := cancelled s; unsent := unsent s; prod_live := prod_live s; jobs := jobs s; jobs_closed := jobs_closed s;
              idle := idle s; holding := holding s; exited := exited s; ents := []; ents_closed := true;
              collected := collected s; loop_done := true; dropped := dropped s; ret := None |}
| CReturn s : ret s = None -> loop_done s = true ->
    step s {| cancelled := cancelled s; unsent := unsent s; prod_live := prod_live s; jobs := jobs s; jobs_closed := jobs_closed s;
              idle := idle s; holding := holding s; exited := exited s; ents := ents s; ents_closed := ents_closed s;
              collected := collected s; loop_done := true; dropped := dropped s;
              ret := if post_check && cancelled s then Some None else Some (Some (collected s)) |}.

Inductive reach : st -> Prop :=
| reach0 : reach init
| reachS s s' : reach s -> step s s' -> reach s'.

End Proto.

(** * Model of pkg/basic/server/oapi (and the stores of pkg/basic/server):
    decoded requests in, status + projected body out; the store is threaded
    explicitly.  JSON decoding/encoding, echo routing and the strict-handler
    glue are modelled around (exercised by the harness through the real router). *)
From Coq Require Import List Arith Bool ZArith Lia.
From ET Require Import Model.Scalar Model.Sparse Model.Basic.
Import ListNotations.

Section Oapi.
Context {S : ScalarOps}.
Notation entry := (nat * T S)%type.

(** ** references as decoded from JSON *)
Record inline_mat := { im_size : Z; im_entries : list (Z * Z * T S) }.
Record inline_vec := { iv_size : Z; iv_entries : list (Z * T S) }.
Inductive mref :=
| MInline (m : inline_mat)
| MStored (id : nat)
| MObject (o : option (nat * list (nat * nat * T S))).
    (* an objectstorage reference: what the server-side CSV loader made of the object (size and
       coordinate list; Model/Csv.v [load_csv_mat]), [None] when it refused it, when file references
       are disabled, or for an unknown scheme *)
Inductive vref :=
| VInline (v : inline_vec)
| VObject (o : option (nat * list entry)).
Notation MOther := (MObject None).
Notation VOther := (VObject None).

(** loadInlineTrustMatrix: size > 0, every index in [0, size) *)
Definition load_inline_mat (m : inline_mat) : option (csm S) :=
  if (im_size m <=? 0)%Z then None
  else if forallb (fun e => let '(i, j, _) := e in
                     (0 <=? i)%Z && (i <? im_size m)%Z && (0 <=? j)%Z && (j <? im_size m)%Z) (im_entries m)
  then let n := Z.to_nat (im_size m) in
       Some (new_csr n n (map (fun e => let '(i, j, v) := e in (Z.to_nat i, Z.to_nat j, v)) (im_entries m)) false)
  else None.

(** loadInlineTrustVector: every index in [0, size), every value > 0 (a NaN passes [v <= 0]) *)
Definition load_inline_vec (v : inline_vec) : option (vec S) :=
  if forallb (fun e => (0 <=? fst e)%Z && (fst e <? iv_size v)%Z && negb (leb S (snd e) (zero S))) (iv_entries v)
  then Some (new_vec (Z.to_nat (iv_size v)) (map (fun e => (Z.to_nat (fst e), snd e)) (iv_entries v)))
  else None.

(** ** the store: id -> matrix *)
Definition store := list (nat * csm S).
Fixpoint st_get (st : store) (id : nat) : option (csm S) :=
  match st with [] => None | (k, m) :: t => if k =? id then Some m else st_get t id end.
Fixpoint st_del (st : store) (id : nat) : store :=
  match st with [] => [] | (k, m) :: t => if k =? id then st_del t id else (k, m) :: st_del t id end.
Definition st_set (st : store) (id : nat) (m : csm S) : store := (id, m) :: st_del st id.

Definition load_mat (st : store) (r : mref) : option (csm S) :=
  match r with
  | MInline m => load_inline_mat m
  | MStored id => st_get st id         (* a disposable deep copy: the functional model copies by construction *)
  | MObject o => option_map (fun p => new_csr (fst p) (fst p) (snd p) false) o
  end.
Definition load_vec (r : vref) : option (vec S) :=
  match r with VInline v => load_inline_vec v | VObject o => option_map (fun p => new_vec (fst p) (snd p)) o end.

(** ** POST /compute, /compute-with-stats *)
Record request := {
  q_local : mref; q_initial : option vref; q_pre : option vref;
  q_alpha : option (T S); q_epsilon : option (T S);
  q_flat_tail : option Z; q_num_leaders : option Z;
  q_max : option Z; q_min : option Z; q_freq : option Z }.

Inductive response :=
| R200 (t : vec S) (iters : nat) (st : ftstats S)
| R400
| R500
| RPanic
| RHang.           (* model fuel exhausted: the handler would still be iterating *)

Definition optz_ok (o : option Z) (mn : Z) : bool := match o with Some z => (mn <=? z)%Z | None => true end.

Definition oapi_compute (fuel : nat) (default_eps : nat -> T S) (st : store) (q : request) : response :=
  match load_mat st (q_local q) with
  | None => R400
  | Some c0 =>
    let cdim0 := major c0 in
    (* pre-trust and alignment *)
    match (match q_pre q with
           | None => Some (new_vec cdim0 [], c0, cdim0)
           | Some r => match load_vec r with
                       | None => None
                       | Some p => if vdim p <? cdim0 then Some (vset_dim cdim0 p, c0, cdim0)
                                   else if cdim0 <? vdim p then Some (p, set_dim (vdim p) (vdim p) c0, vdim p)
                                   else Some (p, c0, cdim0)
                       end
           end) with
    | None => R400
    | Some (p1, c1, cdim1) =>
      match (match q_initial q with
             | None => Some (None, p1, c1, cdim1)
             | Some r => match load_vec r with
                         | None => None
                         | Some t0 => if vdim t0 <? cdim1 then Some (Some (vset_dim cdim1 t0), p1, c1, cdim1)
                                      else if cdim1 <? vdim t0
                                      then Some (Some t0, vset_dim (vdim t0) p1, set_dim (vdim t0) (vdim t0) c1, vdim t0)
                                      else Some (Some t0, p1, c1, cdim1)
                         end
             end) with
      | None => R400
      | Some (t0o, p2, c2, cdim2) =>
        match (match q_alpha q with
               | None => Some (div S (one S) (add S (one S) (one S)))      (* 0.5 *)
               | Some a => if ltb S a (zero S) || ltb S (one S) a then None else Some a
               end) with
        | None => R400
        | Some a =>
          match (match q_epsilon q with
                 | None => Some (default_eps cdim2)                         (* 1e-6 / float64(cDim) *)
                 | Some e => if leb S e (zero S) || ltb S (one S) e then None else Some e
                 end) with
          | None => R400
          | Some e =>
            if negb (optz_ok (q_flat_tail q) 0 && optz_ok (q_num_leaders q) 0 && optz_ok (q_max q) 0
                     && optz_ok (q_min q) 1 && optz_ok (q_freq q) 1) then R400
            else
              let p3 := canon_tv p2 in
              let t0' := option_map canon_tv t0o in
              match extract_distrust c2 with
              | Ok (cpos, disc) =>
                match canon_lt cpos (Some p3) with
                | Ok cc =>
                  match canon_lt disc None with
                  | Ok dc =>
                    let o := {| o_t0 := t0'; o_result_dim := None;
                                o_flat_tail := match q_flat_tail q with Some z => z | None => 0%Z end;
                                o_num_leaders := match q_num_leaders q with Some z => z | None => 0%Z end;
                                o_max_iters := q_max q; o_min_iters := q_min q; o_check_freq := q_freq q |} in
                    match compute fuel cc p3 a e o with
                    | Done t k fs =>
                        match discount t dc with
                        | Ok t' => if existsb (fun e => nonfinite S (snd e)) (vents t') then R500   (* json.Marshal refuses NaN / Inf *)
                                   else R200 t' k fs
                        | _ => R500
                        end
                    | Failed _ => R500
                    | OutOfFuel => RHang
                    | Panicked => RPanic
                    end
                  | _ => R400
                  end
                | _ => R400
                end
              | _ => R400
              end
          end
        end
      end
    end
  end.

(** ** /local-trust/{id} *)
Inductive sreq :=
| SPut (id : nat) (body : mref) (merge : bool)
| SGet (id : nat)
| SHead (id : nat)
| SDelete (id : nat).
Inductive sresp :=
| S200 | S201 | S204 | S404 | S400
| SBody (size : nat) (entries : list (nat * nat * T S)).     (* GET 200 *)

Definition mat_entries (m : csm S) : list (nat * nat * T S) :=
  concat (map (fun ir => map (fun e => (fst ir, fst e, snd e)) (snd ir)) (combine (seq 0 (length (rows m))) (rows m))).

Definition store_step (st : store) (r : sreq) : store * sresp :=
  match r with
  | SPut id body merge =>
      match load_mat st body with
      | None => (st, S400)
      | Some c =>
          match st_get st id with
          | None => (st_set st id c, S201)
          | Some old => if merge then (st_set st id (fst (mmerge old c)), S200) else (st_set st id c, S200)
          end
      end
  | SGet id => match st_get st id with Some m => (st, SBody (major m) (mat_entries m)) | None => (st, S404) end
  | SHead id => match st_get st id with Some _ => (st, S204) | None => (st, S404) end
  | SDelete id => match st_get st id with Some _ => (st_del st id, S204) | None => (st, S404) end
  end.

(** a compute never alters the store: the model threads it to make that a theorem *)
Definition oapi_compute_st (fuel : nat) (default_eps : nat -> T S) (st : store) (q : request) : store * response :=
  (st, oapi_compute fuel default_eps st q).

End Oapi.

Arguments inline_mat : clear implicits.
Arguments inline_vec : clear implicits.
Arguments mref : clear implicits.
Arguments vref : clear implicits.
Arguments store : clear implicits.
Arguments request : clear implicits.
Arguments response : clear implicits.
Arguments sreq : clear implicits.
Arguments sresp : clear implicits.

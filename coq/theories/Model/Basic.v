(** * Model of pkg/basic: canonicalisation, distrust extraction and discount,
    convergence / flat-tail checkers and the Compute loop. *)
From Coq Require Import List Arith Bool ZArith Lia.
From ET Require Import Model.Scalar Model.Sparse.
Import ListNotations.

Section Basic.
Context {S : ScalarOps}.
Notation entry := (nat * T S)%type.

(** ** eigentrust.go: Canonicalize — in-place division by the compensated sum;
    a zero sum is reported and the entries are left untouched. *)
Definition canon (l : list entry) : res (list entry) :=
  let s := kbn_total (map snd l) in
  if eqb S s (zero S) then ErrZeroSum
  else Ok (map (fun e => (fst e, div S (snd e) s)) l).

(** ** localtrust.go: CanonicalizeLocalTrust (pre-trust [p] substitutes rows
    that report a zero sum; without [p] they stay untouched) *)
Definition canon_row (p : option (vec S)) (r : list entry) : list entry :=
  match canon r with
  | Ok r' => r'
  | _ => match p with Some pv => vents pv | None => r end
  end.
Definition canon_lt (m : csm S) (p : option (vec S)) : res (csm S) :=
  rbind (mdim m) (fun n =>
  match p with
  | Some pv => if n =? vdim pv
               then Ok {| major := major m; minor := minor m; rows := map (canon_row p) (rows m) |}
               else ErrDim
  | None => Ok {| major := major m; minor := minor m; rows := map (canon_row None) (rows m) |}
  end).

(** ** trustvector.go: CanonicalizeTrustVector (zero vector -> uniform) *)
Definition uniform (n : nat) : list entry :=
  map (fun i => (i, div S (one S) (of_nat S n))) (seq 0 n).
Definition canon_tv (v : vec S) : vec S :=
  match canon (vents v) with
  | Ok l => {| vdim := vdim v; vents := l |}
  | ErrZeroSum => {| vdim := vdim v; vents := uniform (vdim v) |}
  | _ => v
  end.

(** ** localtrust.go: ExtractDistrust — partition of every row by [Value >= 0],
    order preserved, negative values sign-reversed *)
Definition pos_part (r : list entry) : list entry := filter (fun e => leb S (zero S) (snd e)) r.
Definition neg_part (r : list entry) : list entry :=
  map (fun e => (fst e, opp S (snd e))) (filter (fun e => negb (leb S (zero S) (snd e))) r).
Definition extract_distrust (m : csm S) : res (csm S * csm S) :=
  rbind (mdim m) (fun n =>
  Ok ({| major := major m; minor := minor m; rows := map pos_part (rows m) |},
      {| major := n; minor := n; rows := map neg_part (firstn n (rows m)) |})).

(** ** eigentrust.go: DiscountTrustVector — merge-matching of the distrusters
    (rows of [d], in increasing row index) against the entries of the
    undiscounted clone [t1]; each match subtracts score * row. *)
Fixpoint skip_lt (k : nat) (l : list entry) : list entry :=
  match l with
  | (i, x) :: t => if i <? k then skip_lt k t else l
  | [] => []
  end.
Fixpoint discount_go (t : vec S) (t1 : list entry) (rws : list (list entry)) (k : nat) : res (vec S) :=
  match rws with
  | [] => Ok t
  | rw :: rest =>
      match skip_lt k t1 with
      | [] => Ok t
      | (i, x) :: t1' =>
          if i =? k
          then rbind (subvec t (scalevec x {| vdim := vdim t; vents := rw |}))
                     (fun t' => discount_go t' t1' rest (Datatypes.S k))
          else discount_go t ((i, x) :: t1') rest (Datatypes.S k)
      end
  end.
Definition discount (t : vec S) (d : csm S) : res (vec S) := discount_go t (vents t) (rows d) 0.

(** ** ConvergenceChecker *)
Record conv := { c_t : vec S; c_d : S; c_e : S }.
Definition conv_new (t0 : vec S) (e : S) : conv := {| c_t := t0; c_d := mul S (add S (one S) (one S)) e; c_e := e |}.
Definition conv_update (c : conv) (t : vec S) : res conv :=
  rbind (subvec t (c_t c)) (fun td =>
  let d := norm2 td in
  if nonfinite S d then ErrOther 6    (* non-finite delta: divergence is an error *)
  else Ok {| c_t := t; c_d := d; c_e := c_e c |}).
Definition converged (c : conv) : bool := leb S (c_d c) (c_e c).

(** ** FlatTailChecker *)
Record ftstats := { ft_length : nat; ft_threshold : nat; ft_delta : S; ft_ranking : option (list nat) }.
Definition ft_new : ftstats := {| ft_length := 0; ft_threshold := 1; ft_delta := one S; ft_ranking := None |}.

(** sort.Sort(EntriesByValue): for at most 12 elements Go runs a (stable)
    insertion sort, reproduced here; any sort agrees when values are distinct. *)
Fixpoint insert_by_value_rev (e : entry) (rl : list entry) : list entry :=
  (* [rl] is the sorted prefix in reverse order (largest first) *)
  match rl with
  | [] => [e]
  | h :: t => if ltb S (snd e) (snd h) then h :: insert_by_value_rev e t else e :: rl
  end.
Definition sort_by_value (l : list entry) : list entry :=
  rev (fold_left (fun acc e => insert_by_value_rev e acc) l []).

Definition list_nat_eqb (a b : list nat) : bool :=
  (length a =? length b) && forallb (fun p => fst p =? snd p) (combine a b).

(** the leaders are the last [k] of the ascending order (top-scored peers) *)
Definition ranking_of (t : vec S) (num_leaders : nat) : list nat :=
  let r := map fst (sort_by_value (vents t)) in
  if num_leaders <? length r then skipn (length r - num_leaders) r else r.

Definition ft_update (st : ftstats) (num_leaders : nat) (t : vec S) (d : S) : ftstats :=
  let ranking := ranking_of t num_leaders in
  let same := match ft_ranking st with Some r => list_nat_eqb ranking r | None => false end in
  if same then {| ft_length := Datatypes.S (ft_length st); ft_threshold := ft_threshold st;
                  ft_delta := ft_delta st; ft_ranking := ft_ranking st |}
  else {| ft_length := 0;
          ft_threshold := if ft_threshold st <=? ft_length st then Datatypes.S (ft_length st) else ft_threshold st;
          ft_delta := d; ft_ranking := Some ranking |}.
Definition ft_reached (st : ftstats) (len : Z) : bool := (len <=? Z.of_nat (ft_length st))%Z.

(** ** Compute *)
Record opts := {
  o_t0 : option (vec S);            (* WithInitialTrust *)
  o_result_dim : option nat;        (* WithResultIn: only the dimension of the caller's vector matters *)
  o_flat_tail : Z;                  (* WithFlatTail (an int: may be negative) *)
  o_num_leaders : Z;                (* WithFlatTailNumLeaders *)
  o_max_iters : option Z;           (* WithMaxIterations / WithIterations *)
  o_min_iters : option Z;           (* WithMinIterations / WithIterations *)
  o_check_freq : option Z }.        (* WithCheckFreq *)
Definition default_opts : opts :=
  {| o_t0 := None; o_result_dim := None; o_flat_tail := 0; o_num_leaders := 0;
     o_max_iters := None; o_min_iters := None; o_check_freq := None |}.

Inductive outcome :=
| Done (t : vec S) (iters : nat) (st : ftstats)
| Failed (code : nat)       (* an error return; no result *)
| OutOfFuel                 (* the model's fuel ran out: corresponds to a watchdog firing *)
| Panicked.                 (* the Go code would panic (negative numLeaders reaching the flat-tail checker) *)

(** error codes of [Failed] *)
Definition E_DIM := 1. Definition E_EMPTY := 2. Definition E_ALPHA := 3. Definition E_EPS := 4.
Definition E_FREQ := 5. Definition E_NONFINITE := 6. Definition E_MAXIT := 7. Definition E_MINIT := 8.
Definition E_ZEROSUM := 9. Definition E_OTHER := 10.

Definition code_of {A} (r : res A) : nat :=
  match r with Ok _ => 0 | ErrDim => E_DIM | ErrZeroSum => E_ZEROSUM | ErrOther c => c end.

(** one power-iteration step: t <- (1-a) * (C^T t) + a*p *)
Definition iter_step (ct : csm S) (ap : vec S) (a : S) (t1 : vec S) : res (vec S) :=
  rbind (mulvec ct t1) (fun mt =>
  addvec (scalevec (sub S (one S) a) mt) ap).

(** the loop; [iter] counts completed iterations, [fuel] bounds the model *)
Fixpoint loop (fuel : nat) (ct : csm S) (ap : vec S) (a e : S)
         (min_iters check_freq : nat) (max_iters : option nat) (flat_tail num_leaders : Z)
         (iter : nat) (t1 : vec S) (cv : conv) (ft : ftstats) : outcome :=
  match fuel with
  | O => OutOfFuel
  | Datatypes.S fuel' =>
      if (match max_iters with Some mx => mx <=? iter | None => false end)
      then Done t1 iter ft
      else
        let scheduled := (min_iters <=? iter) && ((iter - min_iters) mod check_freq =? 0) in
        let continue_with cv' ft' :=
          match iter_step ct ap a t1 with
          | Ok t1' => loop fuel' ct ap a e min_iters check_freq max_iters flat_tail num_leaders (Datatypes.S iter) t1' cv' ft'
          | r => Failed (code_of r)
          end in
        if scheduled then
          match conv_update cv t1 with
          | Ok cv' =>
              if (num_leaders <? 0)%Z then Panicked   (* ranking[len-numLeaders:] is out of range *)
              else
              let ft' := ft_update ft (Z.to_nat num_leaders) t1 (c_d cv') in
              if converged cv' && ft_reached ft' flat_tail then Done t1 iter ft'
              else continue_with cv' ft'
          | r => Failed (code_of r)
          end
        else continue_with cv ft
  end.

Definition compute (fuel : nat) (c : csm S) (p : vec S) (a e : S) (o : opts) : outcome :=
  match mdim c with
  | Ok n =>
    if n =? 0 then Failed E_EMPTY
    else if negb (vdim p =? n)
         || (match o_t0 o with Some t0 => negb (vdim t0 =? n) | None => false end)
         || (match o_result_dim o with Some d => negb (d =? n) | None => false end)
    then Failed E_DIM
    else if negb (leb S (zero S) a && leb S a (one S)) then Failed E_ALPHA    (* !(a >= 0 && a <= 1): also NaN *)
    else if negb (ltb S (zero S) e) then Failed E_EPS                        (* !(e > 0): also NaN *)
    else
      let num_leaders := if (o_num_leaders o =? 0)%Z then Z.of_nat n else o_num_leaders o in
      let t0 := match o_t0 o with Some t0 => t0 | None => p end in
      let ct := transpose c in
      let ap := scalevec a p in
      let check_freq := match o_check_freq o with Some f => f | None => 1%Z end in
      if (check_freq <? 1)%Z then Failed E_FREQ
      else
        let max_iters := match o_max_iters o with Some m => m | None => 0%Z end in
        if (max_iters <? 0)%Z then Failed E_MAXIT
        else
          let min_iters := match o_min_iters o with Some m => m | None => check_freq end in
          if (min_iters <=? 0)%Z then Failed E_MINIT
          else
            loop fuel ct ap a e (Z.to_nat min_iters) (Z.to_nat check_freq)
                 (if (max_iters =? 0)%Z then None else Some (Z.to_nat max_iters))
                 (o_flat_tail o) num_leaders
                 0 t0 (conv_new t0 e) ft_new
  | _ => Failed E_DIM
  end.

End Basic.

Arguments conv : clear implicits.
Arguments ftstats : clear implicits.
Arguments opts : clear implicits.
Arguments outcome : clear implicits.

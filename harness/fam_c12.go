package main

import (
	"context"
	"fmt"
	"os"
	"path/filepath"
	"reflect"
	"runtime"
	"runtime/debug"
	"sort"
	"strings"
	"time"
	"unsafe"

	"k3l.io/go-eigentrust/pkg/sparse"
)

// C12: histories of Mmap / Munmap / Merge / SetDim / Reset / Transpose / GC with injected
// faults, observed on the real process: row addresses and capacities, the matrix' own
// mapping (unexported field, read by reflection), /proc/self/maps and a private TMPDIR.

type c12Op struct {
	Op    string `json:"op"` // mmap munmap merge setmajor setminor reset transpose new drop
	H     int    `json:"h"`
	H2    int    `json:"h2,omitempty"`
	D     int    `json:"d,omitempty"`
	Fault int    `json:"fault,omitempty"` // 0 none, 1 TMPDIR missing, 4 cancellation at poll K
	K     int    `json:"k,omitempty"`
	M     *Mat   `json:"m,omitempty"`
}
type c12In struct {
	Ops   []c12Op `json:"ops"`
	Probe bool    `json:"probe"`
}

type c12Row struct {
	Kind int   `json:"kind"`
	Off  int   `json:"off"`
	Cap  int   `json:"cap"`
	Ents []Ent `json:"ents"`
}
type c12Mat struct {
	H      int      `json:"h"`
	Major  int      `json:"major"`
	Minor  int      `json:"minor"`
	Rows   []c12Row `json:"rows"`
	Mapped int      `json:"mapped"` // -1: not mapped, else size in entries
}
type c12Obs struct {
	OK    bool     `json:"ok"`
	Err   string   `json:"err,omitempty"`
	Files int      `json:"files"`
	Maps  int      `json:"maps"`
	Mats  []c12Mat `json:"mats"`
}

// pollCtx reports cancellation from its k-th Done() poll on (Mmap polls once per row).
type pollCtx struct {
	context.Context
	k, n int
}

var closedChan = func() chan struct{} { c := make(chan struct{}); close(c); return c }()

func (c *pollCtx) Done() <-chan struct{} {
	i := c.n
	c.n++
	if i >= c.k {
		return closedChan
	}
	return nil
}
func (c *pollCtx) Err() error {
	if c.n > c.k {
		return context.Canceled
	}
	return nil
}

const entrySize = int(unsafe.Sizeof(sparse.Entry{}))

func mappedOf(m *sparse.CSMatrix) (base uintptr, n int) {
	f := reflect.ValueOf(m).Elem().FieldByName("mapped")
	if f.IsNil() || f.Len() == 0 {
		if f.IsNil() {
			return 0, -1
		}
		return f.Pointer(), 0
	}
	return f.Pointer(), f.Len()
}

func observeMat(h int, m *sparse.CSMatrix, all [][2]uintptr) c12Mat {
	base, n := mappedOf(m)
	o := c12Mat{H: h, Major: m.MajorDim, Minor: m.MinorDim, Mapped: -1, Rows: make([]c12Row, len(m.Entries))}
	if n >= 0 {
		o.Mapped = n / entrySize
	}
	for i, row := range m.Entries {
		r := c12Row{Ents: fromEntries(row)}
		if len(row) > 0 {
			p := uintptr(unsafe.Pointer(unsafe.SliceData(row)))
			switch {
			case n > 0 && p >= base && p < base+uintptr(n):
				r.Kind, r.Off, r.Cap = 1, int(p-base)/entrySize, cap(row)
			default:
				for _, rg := range all {
					if p >= rg[0] && p < rg[1] {
						r.Kind = 2
					}
				}
			}
		}
		o.Rows[i] = r
	}
	return o
}

func gcUntil(cond func() bool) {
	for i := 0; i < 300; i++ {
		runtime.GC()
		if cond() {
			return
		}
		time.Sleep(time.Millisecond)
	}
}

func genC12(r *Rng, tier string) []*Case {
	var cs []*Case
	hist, maxLen := 150, 40
	switch tier {
	case "thorough":
		hist, maxLen = 1500, 60
	case "search":
		hist, maxLen = 600, 50
	}
	gen := func(n int) c12In {
		in := c12In{Probe: r.Chance(70)}
		var alive []int
		next := 0
		newOp := func() c12Op {
			m := randMat(r, r.Intn(6), r.Intn(6), r.Pick(0, 30, 60, 100), r.Pick(0, 0, 15))
			alive = append(alive, next)
			next++
			return c12Op{Op: "new", M: &m}
		}
		if r.Chance(8) {
			// a matrix born 0x0 (as the servers create their collections), grown by a merge, swapped out and
			// dropped: the collector must release its mapping like any other matrix's
			z := Mat{}
			m := randMat(r, 1+r.Intn(5), 1+r.Intn(5), r.Pick(60, 100), 0)
			in.Ops = append(in.Ops, c12Op{Op: "new", M: &z}, c12Op{Op: "new", M: &m},
				c12Op{Op: "merge", H: 0, H2: 1}, c12Op{Op: "mmap", H: 0}, c12Op{Op: "drop", H: 0})
			alive, next = []int{1}, 2
		}
		for len(in.Ops) < n {
			if len(alive) == 0 || (len(alive) < 5 && r.Chance(12)) {
				in.Ops = append(in.Ops, newOp())
				continue
			}
			h := alive[r.Intn(len(alive))]
			switch w := r.Intn(100); {
			case w < 38:
				op := c12Op{Op: "mmap", H: h}
				switch f := r.Intn(100); {
				case f < 12:
					op.Fault = 1
				case f < 35:
					op.Fault, op.K = 4, r.Intn(8)
				}
				in.Ops = append(in.Ops, op)
			case w < 46:
				in.Ops = append(in.Ops, c12Op{Op: "munmap", H: h})
			case w < 60:
				h2 := alive[r.Intn(len(alive))]
				if h2 == h && !r.Chance(10) {
					continue
				}
				in.Ops = append(in.Ops, c12Op{Op: "merge", H: h, H2: h2})
			case w < 68:
				in.Ops = append(in.Ops, c12Op{Op: "setmajor", H: h, D: r.Intn(8)})
			case w < 76:
				in.Ops = append(in.Ops, c12Op{Op: "setminor", H: h, D: r.Intn(8)})
			case w < 80:
				in.Ops = append(in.Ops, c12Op{Op: "reset", H: h})
			case w < 86:
				if len(alive) < 6 {
					in.Ops = append(in.Ops, c12Op{Op: "transpose", H: h})
					alive = append(alive, next)
					next++
				}
			case w < 94:
				in.Ops = append(in.Ops, c12Op{Op: "drop", H: h})
				for i, a := range alive {
					if a == h {
						alive = append(alive[:i], alive[i+1:]...)
						break
					}
				}
			default:
				if len(alive) < 5 {
					in.Ops = append(in.Ops, newOp())
				}
			}
		}
		return in
	}
	for i := 0; i < hist; i++ {
		cs = append(cs, mk("Hist", gen(3+r.Intn(maxLen))))
	}
	if tier == "thorough" {
		// leak accounting: long histories
		for i := 0; i < 12; i++ {
			cs = append(cs, mk("Hist", gen(2000+r.Intn(2000))))
		}
	} else {
		cs = append(cs, mk("Hist", gen(600)))
	}
	return cs
}

func cC12Mat(o c12Mat) string {
	var rows []string
	for _, r := range o.Rows {
		rows = append(rows, fmt.Sprintf("CR %d %d %d %s", r.Kind, r.Off, r.Cap, cEnts(r.Ents)))
	}
	mp := "None"
	if o.Mapped >= 0 {
		mp = fmt.Sprintf("(sn %d)", o.Mapped)
	}
	return fmt.Sprintf("COM %d %d %d %s %s", o.H, o.Major, o.Minor, cList(rows), mp)
}

func runC12(c *Case) error {
	var in c12In
	c.decode(&in)
	defer debug.SetPanicOnFault(debug.SetPanicOnFault(true))
	dir, err := os.MkdirTemp(gOutDir, "c12-tmpdir-")
	if err != nil {
		return err
	}
	oldTmp, hadTmp := os.LookupEnv("TMPDIR")
	defer func() {
		if hadTmp {
			os.Setenv("TMPDIR", oldTmp)
		} else {
			os.Unsetenv("TMPDIR")
		}
		os.RemoveAll(dir)
	}()
	os.Setenv("TMPDIR", dir)
	// no mapping of an earlier case may be left (they would be leaks of that case)
	gcUntil(func() bool { return len(allCsmMappings()) == 0 })
	baseline := len(allCsmMappings())

	mats := map[int]*sparse.CSRMatrix{}
	next := 0
	var steps []string
	var obsAll []c12Obs
	tags := map[string]bool{}
	observe := func(ok bool, e error) c12Obs {
		all := allCsmMappings()
		o := c12Obs{OK: ok, Maps: len(all) - baseline}
		if e != nil {
			o.Err = e.Error()
		}
		ents, _ := os.ReadDir(dir)
		o.Files = len(ents)
		hs := make([]int, 0, len(mats))
		for h := range mats {
			hs = append(hs, h)
		}
		sort.Ints(hs)
		for _, h := range hs {
			o.Mats = append(o.Mats, observeMat(h, &mats[h].CSMatrix, all))
		}
		return o
	}
	for _, op := range in.Ops {
		ok := true
		var opErr error
		var term string
		switch op.Op {
		case "new":
			mats[next] = op.M.csr()
			next++
			term = fmt.Sprintf("CNew %s", cMat(*op.M))
		case "mmap":
			var ctx context.Context = context.Background()
			switch op.Fault {
			case 1:
				os.Setenv("TMPDIR", filepath.Join(dir, "missing"))
			case 4:
				ctx = &pollCtx{Context: context.Background(), k: op.K}
			}
			_, wasMapped := mappedOf(&mats[op.H].CSMatrix)
			opErr = mats[op.H].Mmap(ctx)
			os.Setenv("TMPDIR", dir)
			ok = opErr == nil
			term = fmt.Sprintf("CMmap %d %d %d", op.H, op.Fault, op.K)
			switch {
			case !ok && op.Fault == 0:
				tags["mmap:zero-length"] = true
			case !ok:
				tags[fmt.Sprintf("mmap:fault%d-failed", op.Fault)] = true
			case wasMapped >= 0:
				tags["mmap:on-mapped"] = true
			default:
				tags["mmap:fresh"] = true
			}
		case "munmap":
			opErr = mats[op.H].Munmap()
			ok = opErr == nil
			term = fmt.Sprintf("CMunmap %d", op.H)
		case "merge":
			mats[op.H].Merge(&mats[op.H2].CSMatrix)
			term = fmt.Sprintf("CMerge %d %d", op.H, op.H2)
		case "setmajor":
			mats[op.H].SetMajorDim(op.D)
			term = fmt.Sprintf("CSetMajor %d %d", op.H, op.D)
		case "setminor":
			mats[op.H].SetMinorDim(op.D)
			term = fmt.Sprintf("CSetMinor %d %d", op.H, op.D)
		case "reset":
			mats[op.H].Reset()
			term = fmt.Sprintf("CReset %d", op.H)
		case "transpose":
			mt, e := mats[op.H].Transpose(context.Background())
			if e != nil {
				return fmt.Errorf("transpose: %v", e)
			}
			mats[next] = mt
			next++
			term = fmt.Sprintf("CTranspose %d", op.H)
		case "drop":
			_, n := mappedOf(&mats[op.H].CSMatrix)
			want := len(allCsmMappings())
			if n >= 0 {
				want--
				tags["drop:mapped"] = true
			}
			delete(mats, op.H)
			gcUntil(func() bool { return len(allCsmMappings()) <= want })
			term = fmt.Sprintf("CDrop %d", op.H)
		default:
			return fmt.Errorf("unknown op %q", op.Op)
		}
		o := observe(ok, opErr)
		obsAll = append(obsAll, o)
		var ms []string
		for _, m := range o.Mats {
			ms = append(ms, cC12Mat(m))
		}
		steps = append(steps, fmt.Sprintf("(%s, CO %s %d %d %s)", term, cBool(o.OK), o.Files, o.Maps, cList(ms)))
	}
	// probe: appending to a row through the public Entries field touches no other row
	probeOK := true
	if in.Probe {
		hs := make([]int, 0, len(mats))
		for h := range mats {
			hs = append(hs, h)
		}
		sort.Ints(hs)
		snap := func() string {
			var sb strings.Builder
			for _, h := range hs {
				fmt.Fprintf(&sb, "%d:%v;", h, mats[h].Entries)
			}
			return sb.String()
		}
		for _, h := range hs {
			m := mats[h]
			for i := range m.Entries {
				if len(m.Entries[i]) == 0 {
					continue
				}
				row := m.Entries[i]
				saved := append([]sparse.Entry(nil), row...)
				m.Entries[i] = nil
				before := snap()
				grown := append(row, sparse.Entry{Index: row[len(row)-1].Index + 1, Value: 9.5})
				after := snap()
				m.Entries[i] = grown[:len(row)]
				if before != after || fmt.Sprint(grown[:len(row)]) != fmt.Sprint(saved) {
					probeOK = false
				}
			}
		}
	}
	c.setObs(struct {
		Steps []c12Obs `json:"steps"`
		Probe bool     `json:"probe_ok"`
	}{obsAll, probeOK})
	c.coq = fmt.Sprintf("Hist %s %s", cList(steps), cBool(probeOK))
	c.Nontrivial = tags["mmap:fresh"] || tags["mmap:on-mapped"]
	for t := range tags {
		c.Tags = append(c.Tags, t)
	}
	sort.Strings(c.Tags)
	c.Tags = append(c.Tags, fmt.Sprintf("ops:%d", bucket(len(in.Ops))))
	// release everything this case mapped
	for h := range mats {
		delete(mats, h)
	}
	// run the finalizers now, so that a fault in one of them is attributed to this history
	gcUntil(func() bool { return len(allCsmMappings()) <= baseline })
	return nil
}

func init() { register(&Family{ID: "C12", Import: "Corr.C12", Gen: genC12, Run: runC12}) }

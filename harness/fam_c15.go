package main

import (
	"bytes"
	"context"
	"encoding/csv"
	"encoding/json"
	"fmt"
	"math"
	"mime/multipart"
	"net/http/httptest"
	"os"
	"os/exec"
	"path/filepath"
	"regexp"
	"strconv"
	"strings"
	"syscall"

	"github.com/labstack/echo/v4"
	"k3l.io/go-eigentrust/pkg/api/openapi"
	computepb "k3l.io/go-eigentrust/pkg/api/pb/compute"
	tmpb "k3l.io/go-eigentrust/pkg/api/pb/trustmatrix"
	tvpb "k3l.io/go-eigentrust/pkg/api/pb/trustvector"
	"k3l.io/go-eigentrust/pkg/basic"
	oapiserver "k3l.io/go-eigentrust/pkg/basic/server/oapi"
)

// C15: adversarial and byte-level input to every front-end; nothing may panic, hang (for
// positive alpha) or answer with anything but a well-formed success or client error, and a
// refusal leaves the stored state unchanged.

const c15Fuel = 1500

func httpDoFuel(e *echo.Echo, method, path, body, ctype string, fuel int) (r httpResp) {
	fc := newFuelCtx(context.Background(), fuel)
	defer func() {
		if p := recover(); p != nil {
			r.Panic = fmt.Sprint(p)
		}
		r.Hang = fc.fired.Load()
	}()
	req := httptest.NewRequest(method, path, strings.NewReader(body)).WithContext(fc)
	if ctype != "" {
		req.Header.Set("Content-Type", ctype)
	}
	rec := httptest.NewRecorder()
	e.ServeHTTP(rec, req)
	return httpResp{Code: rec.Code, Body: rec.Body.String()}
}

type c15Raw struct {
	Endpoint int    `json:"endpoint"` // 0 compute, 1 compute-with-stats, 2 PUT local-trust/x, 3 other
	Method   string `json:"method"`
	Path     string `json:"path"`
	CType    string `json:"ctype"`
	Body     string `json:"body"`
}
type c15Bytes struct {
	What  int      `json:"what"` // 0 names, 1 local trust, 2 trust vector, 3 CLI, 4 playground
	Text  string   `json:"text"`
	Names bool     `json:"names,omitempty"`
	Args  []string `json:"args,omitempty"`
	Hunch string   `json:"hunch,omitempty"`
}
type c15Huge struct {
	What int `json:"what"` // 0 oapi inline size, 1 oapi inline vector size, 2 grpc matrix index, 3 grpc vector index, 4 csv local trust index, 5 csv trust vector index, 6 playground upload
}

var c15Sentinel = IMat{Size: 3, Es: []Coo{{R: 0, C: 1, V: 1}, {R: 1, C: 2, V: 0.5}, {R: 2, C: 0, V: 2}}}

func advNumber(r *Rng) float64 {
	return []float64{0, math.Copysign(0, -1), 1, -1, math.MaxFloat64, -math.MaxFloat64, math.MaxFloat64 / 2, 5e-324, 1e-300, 1e300, 0.1, 3}[r.Intn(12)]
}

func advReq(r *Rng) OReq {
	n := 1 + r.Intn(6)
	lm := reqMat(r, n)
	q := OReq{Local: MRef{Kind: "inline", M: &lm}}
	if r.Chance(20) {
		q.Setup = []IMat{lm}
		q.Local = MRef{Kind: "stored", ID: 0}
	}
	if r.Chance(60) {
		v := reqVec(r, []int{n, n, r.Intn(n + 1), n + 1 + r.Intn(3)}[r.Intn(4)])
		q.Pre = &VRef{Kind: "inline", V: &v}
	}
	if r.Chance(30) {
		v := reqVec(r, []int{n, n, r.Intn(n + 1), n + 1 + r.Intn(3)}[r.Intn(4)])
		q.Initial = &VRef{Kind: "inline", V: &v}
	}
	a := JFloat([]float64{0.1, 0.5, 0.85, 1, 0.05}[r.Intn(5)])
	q.Alpha = &a
	// adversarial mutations (1-3 of them)
	for k := 1 + r.Intn(2); k > 0; k-- {
		switch r.Intn(16) {
		case 0:
			if q.Local.M != nil {
				q.Local.M.Size = []int{0, -1, -1 << 40, n - 1, n + 1, 60}[r.Intn(6)]
			}
		case 1:
			if q.Local.M != nil && len(q.Local.M.Es) > 0 {
				e := &q.Local.M.Es[r.Intn(len(q.Local.M.Es))]
				switch r.Intn(4) {
				case 0:
					e.R = []int{-1, n, n + 1, math.MaxInt64, math.MinInt64}[r.Intn(5)]
				case 1:
					e.C = []int{-1, n, n + 1, math.MaxInt64, math.MinInt64}[r.Intn(5)]
				default:
					e.V = JFloat(advNumber(r))
				}
			}
		case 2:
			if q.Local.M != nil && len(q.Local.M.Es) > 0 { // duplicate coordinate
				e := q.Local.M.Es[r.Intn(len(q.Local.M.Es))]
				e.V = JFloat(1 + float64(r.Intn(5)))
				q.Local.M.Es = append(q.Local.M.Es, e)
			}
		case 3:
			if q.Local.M != nil { // a whole row of huge values: the row sum overflows
				i := r.Intn(n)
				for j := 0; j < n; j++ {
					q.Local.M.Es = append(q.Local.M.Es, Coo{R: i, C: j, V: JFloat(math.MaxFloat64)})
				}
			}
		case 4:
			if q.Pre != nil && q.Pre.V != nil {
				switch r.Intn(4) {
				case 0:
					q.Pre.V.Size = []int{0, -1, 60}[r.Intn(3)]
				case 1:
					q.Pre.V.Es = append(q.Pre.V.Es, Ent{I: []int{-1, q.Pre.V.Size, math.MaxInt64}[r.Intn(3)], V: 1})
				case 2:
					q.Pre.V.Es = append(q.Pre.V.Es, Ent{I: r.Intn(q.Pre.V.Size + 1), V: JFloat(advNumber(r))})
				default:
					for i := range q.Pre.V.Es {
						q.Pre.V.Es[i].V = JFloat(math.MaxFloat64)
					}
				}
			}
		case 5:
			if q.Initial != nil && q.Initial.V != nil {
				q.Initial.V.Es = append(q.Initial.V.Es, Ent{I: r.Intn(q.Initial.V.Size + 2), V: JFloat(advNumber(r))})
			}
		case 6:
			a := JFloat([]float64{0, -0.0, 1e-300, 1, math.Nextafter(1, 2), -1e-9, 5e-324, 2}[r.Intn(8)])
			q.Alpha = &a
			if float64(a) == 0 && r.Chance(70) {
				q.Max = ip(1 + r.Intn(20))
			}
		case 7:
			e := JFloat([]float64{0, 1, math.Nextafter(1, 2), -1, 5e-324, 1e-300, 1e-14, 1e-9}[r.Intn(8)])
			q.Eps = &e
		case 8:
			q.Max = ip([]int{-1, 0, 1, 50000, math.MinInt64}[r.Intn(5)])
		case 9:
			q.Min = ip([]int{-1, 0, 1, 7, 50000}[r.Intn(5)])
			if *q.Min == 50000 {
				q.Max = ip(3)
			}
		case 10:
			q.Freq = ip([]int{-1, 0, 1, 3, 50000}[r.Intn(5)])
			if *q.Freq == 50000 {
				q.Max = ip(3)
			}
		case 11:
			q.FT = ip([]int{-1, 0, 1, 2, 4}[r.Intn(5)])
		case 12:
			q.NL = ip([]int{-1, 0, 1, n, n + 5, 500}[r.Intn(6)])
		case 13:
			q.Local = MRef{Kind: []string{"other", "stored"}[r.Intn(2)], ID: 9}
		case 14:
			q.Pre = &VRef{Kind: "other"}
		default:
			if q.Local.M != nil {
				q.Local.M.Es = nil // nobody trusts anybody
			}
		}
	}
	// a request that itself asks for more iterations than the watchdog allows is given a small cap
	// (the limit wins over minIterations / checkFreq), so that a watchdog expiry always means "unbounded"
	if (q.Min != nil && *q.Min > 1000) || (q.Freq != nil && *q.Freq > 1000) {
		q.Max = ip(3)
	}
	return q
}

// mutateJSON: byte-level damage to a valid body
func mutateJSON(r *Rng, body string) string {
	b := []byte(body)
	switch r.Intn(14) {
	case 0:
		return ""
	case 1:
		return body[:r.Intn(len(body)+1)]
	case 2:
		if len(b) > 0 {
			b[r.Intn(len(b))] = byte(r.Intn(256))
		}
		return string(b)
	case 3:
		return strings.Replace(body, `"inline"`, []string{`"stored"`, `"objectstorage"`, `""`, `null`, `7`, `"Inline"`}[r.Intn(6)], 1)
	case 4:
		return strings.Replace(body, `"size":`, `"size":`+[]string{`-`, `1e3`, `"3"`, `null,"x":`, `9223372036854775808,"x":`, `[`}[r.Intn(6)], 1)
	case 5:
		return strings.Replace(body, `"i":`, `"i":`+[]string{`-`, `0.5,"x":`, `"0","x":`, `1e2,"x":`, `18446744073709551616,"x":`}[r.Intn(5)], 1)
	case 6:
		return strings.Replace(body, `"v":`, `"v":`+[]string{`1e999,"x":`, `-1e999,"x":`, `NaN,"x":`, `"1","x":`, `null,"x":`, `[],"x":`}[r.Intn(6)], 1)
	case 7:
		return strings.Replace(body, `"entries":[`, `"entries":`+[]string{`null,"x":[`, `{},"x":[`, `"x","y":[`, `[[]],"x":[`, `[null],"x":[`}[r.Intn(5)], 1)
	case 8:
		return strings.Repeat("[", 1+r.Intn(5000)) + body
	case 9:
		return `{"localTrust":` + strings.Repeat(`{"a":`, 1+r.Intn(300)) + `1` + "}"
	case 10:
		return strings.Replace(body, `"alpha":`, `"alpha":`+[]string{`"0.5","x":`, `null,"x":`, `1e999,"x":`, `[0.5],"x":`, `true,"x":`}[r.Intn(5)], 1)
	case 11:
		return body + body
	case 12:
		return "\xef\xbb\xbf" + body
	default:
		return strings.Replace(body, `{`, `{"localTrust":null,`, 1)
	}
}

// bodyDemandsLong: the (possibly damaged) body still decodes to a request that itself asks for at least as many
// iterations as the watchdog allows (minIterations or, without it, checkFreq >= 1000, and no smaller maxIterations).
func bodyDemandsLong(body string) bool {
	var m map[string]json.RawMessage
	if json.Unmarshal([]byte(strings.TrimPrefix(body, "\xef\xbb\xbf")), &m) != nil {
		return false
	}
	num := func(k string) (float64, bool) {
		var f float64
		if raw, ok := m[k]; ok && json.Unmarshal(raw, &f) == nil {
			return f, true
		}
		return 0, false
	}
	if mx, ok := num("maxIterations"); ok && mx > 0 && mx < 1000 {
		return false
	}
	if mn, ok := num("minIterations"); ok {
		return mn >= 1000
	}
	fq, ok := num("checkFreq")
	return ok && fq >= 1000
}

func advIdx(r *Rng, n int) string {
	switch r.Intn(13) {
	case 0:
		return "-1"
	case 1:
		return "abc"
	case 2:
		return ""
	case 3:
		return "1.5"
	case 4:
		return "-9223372036854775808"
	case 5:
		return "99999999999999999999"
	case 6:
		return " 2"
	case 7:
		return "0x2"
	case 8: // between 2^63 and 2^64: not an int, though it is a uint64
		return []string{"9223372036854775808", "18446744073709551615", "9223372036854775809"}[r.Intn(3)]
	}
	return strconv.Itoa(r.Intn(n))
}

func genC15(r *Rng, tier string) []*Case {
	var cs []*Case
	reps := 220
	if tier != "quick" {
		reps = 4000
	}
	for k := 0; k < reps; k++ {
		q := advReq(r)
		cs = append(cs, mk("OComp", q))
		// raw bytes derived from a (mostly valid) request
		base := advReq(r).json()
		if r.Chance(50) {
			m := reqMat(r, 1+r.Intn(4))
			base = (OReq{Local: MRef{Kind: "inline", M: &m}}).json()
		}
		ep := r.Intn(4)
		raw := c15Raw{Endpoint: ep, CType: "application/json", Body: mutateJSON(r, base)}
		switch ep {
		case 0:
			raw.Method, raw.Path = "POST", "/basic/v1/compute"
		case 1:
			raw.Method, raw.Path = "POST", "/basic/v1/compute-with-stats"
		case 2:
			m := reqMat(r, 1+r.Intn(4))
			raw.Method, raw.Path, raw.Body = "PUT", "/basic/v1/local-trust/x", mutateJSON(r, m.json())
			if r.Chance(30) {
				raw.Path += "?merge=" + []string{"true", "false", "maybe", "1", ""}[r.Intn(5)]
			}
		default:
			raw.Method = []string{"GET", "HEAD", "DELETE", "POST", "PATCH", "PUT"}[r.Intn(6)]
			raw.Path = []string{"/basic/v1/local-trust/x", "/basic/v1/local-trust/", "/basic/v1/local-trust/s", "/basic/v1/status", "/basic/v1/compute", "/basic/v1/nope", "/basic/v1/local-trust/%00"}[r.Intn(7)]
		}
		if r.Chance(10) {
			raw.CType = []string{"", "text/plain", "application/xml", "application/json; charset=utf-16"}[r.Intn(4)]
		}
		cs = append(cs, mk("ORaw", raw))
	}
	// gRPC: adversarial histories, every update bracketed by gets
	greps := 60
	if tier != "quick" {
		greps = 1200
	}
	for k := 0; k < greps; k++ {
		var h gHist
		if r.Chance(85) {
			h.Ops = append(h.Ops, GOp{Op: "mcreate", ID: 0}, GOp{Op: "vcreate", ID: 0}, GOp{Op: "mcreate", ID: 1}, GOp{Op: "vcreate", ID: 1})
		}
		for i, n := 0, 2+r.Intn(12); i < n; i++ {
			id := r.Intn(3) // id 2 is never created
			if r.Chance(70) {
				id = r.Intn(2)
			}
			switch r.Intn(9) {
			case 0:
				h.Ops = append(h.Ops, GOp{Op: "mcreate", ID: id})
			case 1:
				h.Ops = append(h.Ops, GOp{Op: "vcreate", ID: id})
			case 2:
				h.Ops = append(h.Ops, GOp{Op: []string{"mflush", "vflush", "mdelete", "vdelete"}[r.Intn(4)], ID: id})
			case 3, 4, 5:
				o := GOp{Op: "mupdate", ID: id, TS: randTS(r)}
				seen := map[string]bool{}
				for j, m := 0, r.Intn(5); j < m; j++ {
					a, b := advIdx(r, 4), advIdx(r, 4)
					if seen[a+","+b] {
						continue
					}
					seen[a+","+b] = true
					o.Es = append(o.Es, GEntry{I: a, J: b, V: JFloat(advNumber(r))})
				}
				h.Ops = append(h.Ops, GOp{Op: "mget", ID: id}, o, GOp{Op: "mget", ID: id})
			case 6, 7:
				o := GOp{Op: "vupdate", ID: id, TS: randTS(r)}
				seen := map[string]bool{}
				for j, m := 0, r.Intn(5); j < m; j++ {
					a := advIdx(r, 4)
					if seen[a] {
						continue
					}
					seen[a] = true
					o.Es = append(o.Es, GEntry{I: a, V: JFloat(advNumber(r))})
				}
				h.Ops = append(h.Ops, GOp{Op: "vget", ID: id}, o, GOp{Op: "vget", ID: id})
			default:
				o := GOp{Op: "compute", ID: r.Intn(3), Global: r.Intn(3)}
				if r.Chance(60) {
					o.Pre = ip(r.Intn(3))
				}
				if r.Chance(30) {
					o.Positive = ip(r.Intn(3))
				}
				if r.Chance(60) {
					a := JFloat([]float64{0.5, 0.1, 1, 0, -0.1, 1.5, 1e-300}[r.Intn(7)])
					o.Alpha = &a
					if float64(a) == 0 || float64(a) == 1e-300 {
						o.Max = uint32(1 + r.Intn(10))
					}
				}
				if r.Chance(40) {
					e := JFloat([]float64{1e-6, 1, 0, -1, 2, 1e-9}[r.Intn(6)])
					o.Eps = &e
				}
				if r.Chance(30) {
					o.Max = uint32(r.Intn(12))
				}
				if r.Chance(35) {
					// every referenced collection exists except (possibly) the positive-only target
					h.Ops = append(h.Ops, GOp{Op: "mcreate", ID: o.ID}, GOp{Op: "vcreate", ID: o.Global})
					if o.Pre != nil {
						h.Ops = append(h.Ops, GOp{Op: "vcreate", ID: *o.Pre})
					}
					o.Positive = ip(3 + r.Intn(2)) // ids 3, 4 are never created
				}
				// a refused compute leaves the global trust exactly as it was: bracket it with Gets (and give the
				// vector contents that do not sum to 1 and a dimension of its own now and then)
				if r.Chance(50) {
					h.Ops = append(h.Ops, GOp{Op: "mcreate", ID: o.ID},
						GOp{Op: "mupdate", ID: o.ID, TS: []uint64{1}, Es: []GEntry{{I: "0", J: "1", V: 1}, {I: "1", J: "0", V: 1}, {I: "3", J: "2", V: 2}}},
						GOp{Op: "vcreate", ID: o.Global},
						GOp{Op: "vupdate", ID: o.Global, TS: []uint64{uint64(1 + r.Intn(9))}, Es: []GEntry{{I: "0", V: JFloat(2 + r.Pos())}, {I: strconv.Itoa(r.Intn(7)), V: JFloat(r.Pos())}}})
				}
				if r.Chance(40) { // fails only inside the iteration, after the inputs were loaded, aligned and canonicalised
					pre := 2
					o.Pre, o.Alpha, o.Eps = &pre, nil, nil
					h.Ops = append(h.Ops, GOp{Op: "vcreate", ID: pre},
						GOp{Op: "vupdate", ID: pre, TS: []uint64{3}, Es: []GEntry{{I: "1", V: JFloat(math.Inf(1))}}})
				}
				h.Ops = append(h.Ops, GOp{Op: "vget", ID: o.Global}, o, GOp{Op: "vget", ID: o.Global})
				continue
			}
		}
		cs = append(cs, mk("GAdv", h))
	}
	// raw bytes into the CSV readers, the CLI and the playground
	breps := 120
	if tier != "quick" {
		breps = 2500
	}
	for k := 0; k < breps; k++ {
		rows := [][]string{}
		for i, n := 0, r.Intn(6); i < n; i++ {
			rows = append(rows, []string{advIdx(r, 4), advIdx(r, 4), c19Value(r)}[:1+r.Intn(3)])
		}
		t := csvText(rows)
		switch r.Intn(6) {
		case 0:
			b := []byte(t)
			if len(b) > 0 {
				b[r.Intn(len(b))] = byte(r.Intn(256))
			}
			t = string(b)
		case 1:
			t = t[:r.Intn(len(t)+1)]
		case 2:
			t += "\"open,1\n2,3"
		case 3:
			t = strings.Repeat(",", r.Intn(50)) + "\n" + t
		}
		// indices of 7-19 digits are valid and make the readers allocate O(index) memory (known finding,
		// exercised in the child process under an address-space limit): keep them out of the in-process stream
		t = longDigits.ReplaceAllStringFunc(t, func(d string) string {
			if len(d) >= 20 {
				return d
			}
			return d[:3]
		})
		what := r.Intn(6)
		if what == 5 {
			what = 6
		}
		bc := c15Bytes{What: what, Text: t}
		switch what {
		case 3:
			bc.Args = []string{"--csv-header=" + strconv.FormatBool(r.Bool())}
			if r.Bool() {
				bc.Args = append(bc.Args, "--raw-peer-ids")
			}
		case 4:
			bc.Names = r.Chance(30)
			bc.Hunch = []string{"10", "50", "100", "0", "-5", "x", "", "1e1", "999999999999999999999"}[r.Intn(9)]
		}
		cs = append(cs, mk("Bytes", bc))
	}
	cs = append(cs, mk("Bytes", c15Bytes{What: 5}))
	for w := 0; w <= 6; w++ {
		cs = append(cs, mk("Huge", c15Huge{What: w}))
	}
	return cs
}

func getSentinel(e *echo.Echo) string {
	r := httpDo(e, "GET", "/basic/v1/local-trust/s", "")
	return fmt.Sprintf("%d %s", r.Code, r.Body)
}

func runC15(c *Case) error {
	switch c.Kind {
	case "OComp":
		var q OReq
		c.decode(&q)
		e := newOapiServer()
		if err := putSetup(e, q.Setup); err != nil {
			return err
		}
		if r := httpDo(e, "PUT", "/basic/v1/local-trust/s", c15Sentinel.json()); r.Code != 201 {
			return fmt.Errorf("sentinel PUT -> %d", r.Code)
		}
		before := getSentinel(e)
		var setupBefore string
		if len(q.Setup) > 0 {
			setupBefore = httpDo(e, "GET", "/basic/v1/local-trust/m0", "").Body
		}
		body := q.json()
		r1 := httpDoFuel(e, "POST", "/basic/v1/compute", body, "application/json", c15Fuel)
		same := getSentinel(e) == before
		if len(q.Setup) > 0 {
			same = same && httpDo(e, "GET", "/basic/v1/local-trust/m0", "").Body == setupBefore
		}
		s1, _ := coqScores(r1, false)
		c.setObs(map[string]interface{}{"resp": r1, "store_same": same})
		c.coq = fmt.Sprintf("OComp %s %s %s %s", coqSetup(q.Setup), q.coq(), s1, cBool(same))
		c.Nontrivial = true
		c.Tags = []string{"ocomp:" + strings.Fields(strings.Trim(s1, "()"))[0]}
		if r1.Hang {
			switch {
			case q.Eps != nil && float64(*q.Eps) < 1e-12 && float64(*q.Eps) > 0:
				c.Known = "oapi.compute:tiny-epsilon-binary64-2-cycle"
			case q.FT != nil && *q.FT > 0:
				c.Known = "oapi.compute:flat-tail-tied-scores-never-stable"
			case q.Alpha != nil && float64(*q.Alpha) > 0 && 1-float64(*q.Alpha) == 1:
				c.Known = "oapi.compute:alpha-below-rounding-undamped-iteration"
			}
		}
	case "ORaw":
		var in c15Raw
		c.decode(&in)
		e := newOapiServer()
		if r := httpDo(e, "PUT", "/basic/v1/local-trust/s", c15Sentinel.json()); r.Code != 201 {
			return fmt.Errorf("sentinel PUT -> %d", r.Code)
		}
		before := getSentinel(e)
		xBefore := httpDo(e, "GET", "/basic/v1/local-trust/x", "").Code
		r1 := httpDoFuel(e, in.Method, in.Path, in.Body, in.CType, c15Fuel)
		same := true
		touchesS := strings.HasSuffix(in.Path, "/s") && (in.Method == "DELETE" || in.Method == "PUT")
		if !touchesS {
			same = getSentinel(e) == before
		}
		if in.Endpoint == 2 && r1.Code >= 400 { // a refused PUT creates nothing
			same = same && httpDo(e, "GET", "/basic/v1/local-trust/x", "").Code == xBefore
		}
		js := true
		if len(strings.TrimSpace(r1.Body)) > 0 && in.Method != "HEAD" {
			js = json.Valid([]byte(r1.Body))
		}
		c.setObs(map[string]interface{}{"resp": r1, "store_same": same, "json": js})
		c.coq = fmt.Sprintf("ORaw %d %d %s %s %s %s %s %s", in.Endpoint, r1.Code, cBool(js), cBool(r1.Panic != ""), cBool(r1.Hang), cBool(same), cBool(hasHugeNumber(in.Body)), cBool(bodyDemandsLong(in.Body)))
		c.Nontrivial = true
		c.Tags = []string{fmt.Sprintf("oraw:ep%d:%d", in.Endpoint, r1.Code)}
		if r1.Hang && strings.Contains(in.Body, "epsilon") {
			c.Known = "oapi.compute:tiny-epsilon-binary64-2-cycle"
		}
		if r1.Hang {
			// the damaged body may still carry an alpha so small that 1 - alpha rounds to 1 (the same listed
			// finding as for the structured requests: an undamped iteration need not converge)
			var m map[string]json.RawMessage
			var a float64
			if json.Unmarshal([]byte(strings.TrimPrefix(in.Body, "\xef\xbb\xbf")), &m) == nil && json.Unmarshal(m["alpha"], &a) == nil && a > 0 && 1-a == 1 {
				c.Known = "oapi.compute:alpha-below-rounding-undamped-iteration"
			}
		}
	case "GAdv":
		var h gHist
		c.decode(&h)
		g := newGrpc()
		var reqs, resps []string
		codes := map[string]bool{}
		for _, o := range h.Ops {
			rq, rs, _ := g.exec(o)
			if negIndex.MatchString(rs) {
				// a stored entry with a negative index: not expressible in the model's vocabulary, and a
				// violation by itself (an out-of-range index was accepted)
				panic(fmt.Sprintf("response of %s carries a negative index: %s", rq, head(rs, 300)))
			}
			reqs = append(reqs, rq)
			resps = append(resps, rs)
			if strings.HasPrefix(rs, "RStatus") || strings.HasPrefix(rs, "(RStatus") || strings.HasPrefix(rs, "RPanicked") {
				codes["grpc:"+strings.Trim(rs, "()")] = true
			}
		}
		c.setObs(resps)
		c.coq = fmt.Sprintf("GAdv %s %s", cList(reqs), cList(resps))
		c.Nontrivial = len(h.Ops) > 2
		for k := range codes {
			c.Tags = append(c.Tags, k)
		}
	case "Bytes":
		var in c15Bytes
		c.decode(&in)
		returned, panicked := true, false
		func() {
			defer func() {
				if p := recover(); p != nil {
					panicked = true
					c.setObs(map[string]interface{}{"panic": fmt.Sprint(p)})
				}
			}()
			rd := func() *csv.Reader { return csv.NewReader(strings.NewReader(in.Text)) }
			switch in.What {
			case 0:
				_, _, _ = basic.ReadPeerNamesFromCsv(rd())
			case 1:
				_, _ = basic.ReadLocalTrustFromCsv(rd(), nil)
				_, _ = basic.ReadLocalTrustFromCsv(rd(), map[string]int{"0": 0, "1": 1, "abc": 2})
			case 2:
				_, _ = basic.ReadTrustVectorFromCsv(rd(), nil)
				_, _ = basic.ReadTrustVectorFromCsv(rd(), map[string]int{"0": 0, "1": 1, "abc": 2})
			case 3:
				dir, _ := os.MkdirTemp(gOutDir, "c15-")
				defer os.RemoveAll(dir)
				_ = os.WriteFile(filepath.Join(dir, "lt.csv"), []byte(in.Text), 0o644)
				_ = os.WriteFile(filepath.Join(dir, "pt.csv"), []byte(in.Text), 0o644)
				_, stderr, err := runCLI(dir, append([]string{"basic", "compute", "--print-request", "-l", "lt.csv", "-p", "pt.csv"}, in.Args...)...)
				returned = err == nil
				panicked = strings.Contains(stderr, "panic:") || strings.Contains(stderr, "goroutine ")
				c.setObs(map[string]interface{}{"stderr": tail(stderr, 500), "err": fmt.Sprint(err)})
			case 6:
				// server-side CSV behind objectstorage file:// references (a server started with --use-file-uri)
				dir, _ := os.MkdirTemp(gOutDir, "c15-")
				defer os.RemoveAll(dir)
				lt := filepath.Join(dir, "lt.csv")
				pt := filepath.Join(dir, "pt.csv")
				_ = os.WriteFile(lt, []byte("i,j,v\n"+in.Text), 0o644)
				_ = os.WriteFile(pt, []byte("i,v\n"+in.Text), 0o644)
				e := echo.New()
				e.HideBanner = true
				srv, err := oapiserver.NewStrictServerImpl(context.Background())
				if err != nil {
					panic(err)
				}
				srv.UseFileURI = true
				openapi.RegisterHandlersWithBaseURL(e, openapi.NewStrictHandler(srv, nil), "/basic/v1")
				for _, body := range []string{
					`{"localTrust":{"scheme":"objectstorage","url":"file://` + lt + `"},"maxIterations":50}`,
					`{"localTrust":{"scheme":"inline","size":3,"entries":[{"i":0,"j":1,"v":1}]},"preTrust":{"scheme":"objectstorage","url":"file://` + pt + `"},"maxIterations":50}`,
					`{"localTrust":{"scheme":"objectstorage","url":"file://` + lt + `.missing"}}`,
				} {
					r := httpDoFuel(e, "POST", "/basic/v1/compute", body, "application/json", c15Fuel)
					if r.Panic != "" {
						panicked = true
					}
					if r.Hang || !(r.Code == 200 || r.Code == 400 || (r.Code == 500 && hasHugeNumber(in.Text))) || !json.Valid([]byte(r.Body)) {
						returned = false
					}
					if r.Code == 200 && strings.Contains(r.Body, `"i":-`) {
						returned = false // a score for a negative peer index
					}
				}
			case 5:
				// every gRPC handler on the empty message and on messages whose sub-messages are absent
				// (what a client that leaves fields out puts on the wire)
				g := newGrpc()
				ctx := context.Background()
				id := "x"
				_, _ = g.ms.Create(ctx, &tmpb.CreateRequest{Id: id})
				_, _ = g.vs.Create(ctx, &tvpb.CreateRequest{Id: id})
				_, _ = g.ms.Create(ctx, &tmpb.CreateRequest{})
				_, _ = g.vs.Create(ctx, &tvpb.CreateRequest{})
				_, _ = g.ms.Update(ctx, &tmpb.UpdateRequest{})
				_, _ = g.ms.Update(ctx, &tmpb.UpdateRequest{Header: &tmpb.Header{}})
				_, _ = g.ms.Update(ctx, &tmpb.UpdateRequest{Header: &tmpb.Header{Id: &id}})
				_, _ = g.ms.Update(ctx, &tmpb.UpdateRequest{Header: &tmpb.Header{Id: &id}, Entries: []*tmpb.Entry{{}}})
				_, _ = g.vs.Update(ctx, &tvpb.UpdateRequest{})
				_, _ = g.vs.Update(ctx, &tvpb.UpdateRequest{Header: &tvpb.Header{}})
				_, _ = g.vs.Update(ctx, &tvpb.UpdateRequest{Header: &tvpb.Header{Id: &id}, Entries: []*tvpb.Entry{{}}})
				_ = g.ms.Get(&tmpb.GetRequest{}, &gmStream{})
				_ = g.vs.Get(&tvpb.GetRequest{}, &gvStream{})
				_, _ = g.ms.Flush(ctx, &tmpb.FlushRequest{})
				_, _ = g.vs.Flush(ctx, &tvpb.FlushRequest{})
				_, _ = g.ms.Delete(ctx, &tmpb.DeleteRequest{})
				_, _ = g.vs.Delete(ctx, &tvpb.DeleteRequest{})
				_, _ = g.cs.BasicCompute(ctx, &computepb.BasicComputeRequest{})
				_, _ = g.cs.BasicCompute(ctx, &computepb.BasicComputeRequest{Params: &computepb.Params{}})
				_, _ = g.cs.BasicCompute(ctx, &computepb.BasicComputeRequest{Params: &computepb.Params{LocalTrustId: id, GlobalTrustId: id}})
				_, _ = g.cs.CreateJob(ctx, &computepb.CreateJobRequest{})
				_, _ = g.cs.DeleteJob(ctx, &computepb.DeleteJobRequest{})
			case 4:
				pin := c20In{LT: &in.Text, PT: &in.Text, Hunch: &in.Hunch, Fuel: 3000}
				if in.Names {
					pin.Names = &in.Text
				}
				r := pgPost(&pin)
				panicked = r.Panic != ""
				returned = !r.Hang && ((r.Code == 200 && strings.Contains(r.Body, "</html>")) || (r.Code == 400 && strings.Contains(r.Body, "<title>Error</title>")))
				c.setObs(map[string]interface{}{"status": r.Code, "panic": r.Panic, "hang": r.Hang})
			}
		}()
		c.coq = fmt.Sprintf("Bytes %d %s %s", in.What, cBool(returned), cBool(panicked))
		c.Nontrivial = true
		c.Tags = []string{fmt.Sprintf("bytes:%d", in.What)}
	case "Huge":
		var in c15Huge
		c.decode(&in)
		if os.Getenv("VERIF_HUGE_CHILD") != "" {
			runHugeChild(in.What) // does not return
		}
		cmd := exec.Command(os.Args[0], "-property", "C15", "-huge", strconv.Itoa(in.What), "-out", gOutDir)
		cmd.Env = append(os.Environ(), "VERIF_HUGE_CHILD=1", "GOGC=50")
		var ob, eb bytes.Buffer
		cmd.Stdout, cmd.Stderr = &ob, &eb
		err := cmd.Run()
		survived := err == nil
		c.setObs(map[string]interface{}{"err": fmt.Sprint(err), "stdout": tail(ob.String(), 300), "stderr_head": head(eb.String(), 400)})
		c.coq = fmt.Sprintf("Huge %d %s", in.What, cBool(survived))
		c.Nontrivial = true
		c.Tags = []string{fmt.Sprintf("huge:%d:survived=%v", in.What, survived)}
		if !survived && (strings.Contains(eb.String(), "out of memory") || strings.Contains(eb.String(), "cannot allocate") || strings.Contains(eb.String(), "makeslice")) {
			c.Known = []string{"oapi.loadInlineTrustMatrix:huge-size-allocation", "oapi.loadInlineTrustVector:huge-size-allocation",
				"grpc.Update:huge-index-allocation", "grpc.Update:huge-index-allocation",
				"basic.ReadCsv:huge-index-allocation", "basic.ReadCsv:huge-index-allocation", "basic.ReadCsv:huge-index-allocation"}[in.What]
		}
	default:
		return fmt.Errorf("unknown kind %s", c.Kind)
	}
	return nil
}

var negIndex = regexp.MustCompile(`(^|[^0-9A-Za-z_])(e|g3)( [0-9]+)? -[0-9]`)

var longDigits = regexp.MustCompile(`[0-9]{7,}`)

var numRe = regexp.MustCompile(`-?[0-9]+(\.[0-9]+)?([eE][-+]?[0-9]+)?`)

// hasHugeNumber: the text carries a numeral of magnitude >= 1e150 (sums and products may overflow)
func hasHugeNumber(s string) bool {
	for _, m := range numRe.FindAllString(s, -1) {
		if v, err := strconv.ParseFloat(m, 64); err == nil && math.Abs(v) >= 1e150 {
			return true
		}
	}
	return false
}

func head(s string, n int) string {
	if len(s) > n {
		return s[:n]
	}
	return s
}

// runHugeChild runs one huge-size scenario under an address-space limit and exits:
// 0 = the front-end answered (whatever the answer), otherwise the runtime's own exit status.
func runHugeChild(what int) {
	lim := uint64(3) << 30
	_ = syscall.Setrlimit(syscall.RLIMIT_AS, &syscall.Rlimit{Cur: lim, Max: lim})
	const big = 4000000000
	switch what {
	case 0:
		e := newOapiServer()
		r := httpDo(e, "POST", "/basic/v1/compute", fmt.Sprintf(`{"localTrust":{"scheme":"inline","size":%d,"entries":[{"i":0,"j":1,"v":1}]}}`, big))
		fmt.Println("status", r.Code, r.Panic)
	case 1:
		e := newOapiServer()
		r := httpDo(e, "POST", "/basic/v1/compute", fmt.Sprintf(`{"localTrust":{"scheme":"inline","size":2,"entries":[{"i":0,"j":1,"v":1}]},"preTrust":{"scheme":"inline","size":%d,"entries":[{"i":0,"v":1}]}}`, big))
		fmt.Println("status", r.Code, r.Panic)
	case 2, 3:
		g := newGrpc()
		kind := []string{"m", "v"}[what-2]
		g.exec(GOp{Op: kind + "create", ID: 0})
		_, rs, _ := g.exec(GOp{Op: kind + "update", ID: 0, TS: []uint64{1}, Es: []GEntry{{I: strconv.Itoa(big), J: "0", V: 1}}})
		fmt.Println("resp", rs)
	case 4:
		_, err := basic.ReadLocalTrustFromCsv(csv.NewReader(strings.NewReader(fmt.Sprintf("0,%d,1\n", big))), nil)
		fmt.Println("err", err)
	case 5:
		_, err := basic.ReadTrustVectorFromCsv(csv.NewReader(strings.NewReader(fmt.Sprintf("%d,1\n", big))), nil)
		fmt.Println("err", err)
	case 6:
		lt, pt, h := fmt.Sprintf("0,%d,1\n", big), "0,1\n", "50"
		r := pgPost(&c20In{LT: &lt, PT: &pt, Hunch: &h, Fuel: 100})
		fmt.Println("status", r.Code, r.Panic)
	}
	os.Exit(0)
}

var _ = multipart.ErrMessageTooLarge

func init() { register(&Family{ID: "C15", Import: "Corr.C15", Gen: genC15, Run: runC15}) }

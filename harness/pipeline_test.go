package main

// End-to-end tests of the README pipeline: the CLI binary against `eigentrust serve` on loopback.

import (
	"bytes"
	"fmt"
	"math"
	"net"
	"net/http"
	"os"
	"os/exec"
	"path/filepath"
	"strconv"
	"strings"
	"testing"
	"time"
)

func startServe(t *testing.T, bin string) string {
	t.Helper()
	l, err := net.Listen("tcp", "127.0.0.1:0")
	if err != nil {
		t.Fatal(err)
	}
	addr := l.Addr().String()
	l.Close()
	srv := exec.Command(bin, "serve", "--listen_address", addr)
	srv.Dir = t.TempDir()
	if err := srv.Start(); err != nil {
		t.Fatal(err)
	}
	t.Cleanup(func() { _ = srv.Process.Kill(); _, _ = srv.Process.Wait() })
	for i := 0; i < 3000; i++ { // up to a minute on a loaded machine
		if r, err := http.Get("http://" + addr + "/basic/v1/status"); err == nil {
			r.Body.Close()
			return "http://" + addr + "/basic/v1"
		}
		time.Sleep(20 * time.Millisecond)
	}
	t.Fatal("eigentrust serve did not come up")
	return ""
}

// fixed point of t = (1-a) C^T t + a p for the README example (peers ek, sd, vm)
func readmeReference(a float64) [3]float64 {
	p := [3]float64{1.0 / 3, 0, 2.0 / 3}
	c := [3][3]float64{{0, 100.0 / 175, 75.0 / 175}, {1.0 / 3, 0, 2.0 / 3}, {0, 1, 0}}
	t := p
	for k := 0; k < 200000; k++ {
		var n [3]float64
		for j := 0; j < 3; j++ {
			for i := 0; i < 3; i++ {
				n[j] += c[i][j] * t[i]
			}
			n[j] = (1-a)*n[j] + a*p[j]
		}
		t = n
	}
	return t
}

func TestC19ReadmePipeline(t *testing.T) {
	bin := buildCLI(t)
	ep := startServe(t, bin)
	dir := t.TempDir()
	_ = os.WriteFile(filepath.Join(dir, "lt.csv"), []byte("from,to,value\nek,sd,100\nvm,sd,100\nek,vm,75\n"), 0o644)
	_ = os.WriteFile(filepath.Join(dir, "pt.csv"), []byte("peer_id,value\nek,50\nvm,100\n"), 0o644)
	run := func(extra ...string) string {
		cmd := exec.Command(bin, append([]string{"basic", "compute", "-H", ep, "-l", "lt.csv", "-p", "pt.csv"}, extra...)...)
		cmd.Dir = dir
		var out, eb bytes.Buffer
		cmd.Stdout, cmd.Stderr = &out, &eb
		if err := cmd.Run(); err != nil {
			t.Fatalf("CLI: %v\n%s", err, eb.String())
		}
		return out.String()
	}
	// the transcript of the README, to the digit
	if got, want := run(), "ek,0.21705427907166472\nsd,0.3023255429103218\nvm,0.4806201780180134\n"; got != want {
		t.Fatalf("README pipeline prints\n%s\nwant\n%s", got, want)
	}
	// every alpha: names in first-appearance order, scores = the reference fixed point within the
	// convergence bound e(1-a)/a of C01 (e = 1e-6/3), decimals parse back
	for _, a := range []float64{0.5, 0.2, 0.01} {
		ref := readmeReference(a)
		lines := strings.Split(strings.TrimSpace(run("-a", strconv.FormatFloat(a, 'g', -1, 64))), "\n")
		if len(lines) != 3 {
			t.Fatalf("alpha=%v: %d lines", a, len(lines))
		}
		for i, name := range []string{"ek", "sd", "vm"} {
			f := strings.Split(lines[i], ",")
			v, err := strconv.ParseFloat(f[1], 64)
			if f[0] != name || err != nil {
				t.Fatalf("alpha=%v: line %d is %q", a, i, lines[i])
			}
			if bound := (1e-6 / 3) * (1 - a) / a; math.Abs(v-ref[i]) > bound+1e-12 {
				t.Fatalf("alpha=%v: %s=%v, reference %v (bound %g)", a, name, v, ref[i], bound)
			}
		}
	}
}

// every float64 class through the output formatter: the decimal text parses to the identical bits
func TestC19FormatRoundTrip(t *testing.T) {
	r := NewRng(19)
	check := func(x float64) {
		s := strconv.FormatFloat(x, 'f', -1, 64)
		y, err := strconv.ParseFloat(s, 64)
		if err != nil || math.Float64bits(x) != math.Float64bits(y) {
			t.Fatalf("%x prints as %q which parses to %x (%v)", math.Float64bits(x), s, math.Float64bits(y), err)
		}
	}
	for _, x := range []float64{0, math.Copysign(0, -1), 1, 0.1, 1.0 / 3, math.SmallestNonzeroFloat64, math.MaxFloat64, 0x1p-1022, 0x1.fffffffffffffp-1023, 1e22, 1e23, 5e-324, 0.21705427907166472} {
		check(x)
	}
	for i := 0; i < 200000; i++ {
		b := r.U64()
		x := math.Float64frombits(b)
		if math.IsNaN(x) || math.IsInf(x, 0) {
			continue
		}
		check(x)
		check(r.F01())
	}
	_ = fmt.Sprint()
}

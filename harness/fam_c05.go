package main

import (
	"context"
	"fmt"
	"k3l.io/go-eigentrust/pkg/sparse"
	"math"
)

// C05: iteration control (schedule, limits, validation) and termination.

func genC05(r *Rng, tier string) []*Case {
	var cs []*Case
	mins := []*int{nil, ip(-1), ip(0), ip(1), ip(2), ip(3), ip(5), ip(7)}
	maxs := []*int{nil, ip(-1), ip(0), ip(1), ip(2), ip(3), ip(6), ip(10)}
	freqs := []*int{nil, ip(-1), ip(0), ip(1), ip(2), ip(3), ip(5)}
	if tier != "quick" {
		mins = append(mins, ip(4), ip(6), ip(12))
		maxs = append(maxs, ip(4), ip(5), ip(7), ip(13), ip(40))
		freqs = append(freqs, ip(4), ip(7))
	}
	graphs := 2
	if tier != "quick" {
		graphs = 6
	}
	for g := 0; g < graphs; g++ {
		n := 3 + r.Intn(4)
		c, p, _ := randGraph(r, n)
		cc, pc, err := canonInputs(c, p)
		if err != nil {
			continue
		}
		a, e := 0.5, 1e-3
		if g%2 == 1 {
			a, e = 0.2, 1e-2 // slower: more scheduled checks before convergence
		}
		for _, mn := range mins {
			for _, mx := range maxs {
				for _, fq := range freqs {
					in := ComputeIn{C: cc, P: pc, A: JFloat(a), E: JFloat(e), Min: mn, Max: mx, Freq: fq, Fuel: 400, WatchdogMs: 20000}
					if mn != nil && mx != nil && *mn == *mx && r.Bool() {
						in.UseWithIt = true
					}
					cs = append(cs, mk("Compute", in))
				}
			}
		}
	}
	// epsilon equal, bit for bit, to the delta observed at a scheduled check (the criterion is "<="): the run must
	// stop at that check.  The delta is recomputed here with the library's own SubVec/Norm2 from two bounded runs.
	eqs := 8
	if tier != "quick" {
		eqs = 80
	}
	for g := 0; g < eqs; g++ {
		n := 2 + r.Intn(6)
		c, p, _ := randGraph(r, n)
		cc, pc, err := canonInputs(c, p)
		if err != nil {
			continue
		}
		a := []float64{0.5, 0.3, 0.15}[r.Intn(3)]
		k := 2 + r.Intn(5)
		prev := runCompute(context.Background(), &ComputeIn{C: cc, P: pc, A: JFloat(a), E: 1e-300, Max: ip(k - 1), Fuel: 400, WatchdogMs: 20000})
		cur := runCompute(context.Background(), &ComputeIn{C: cc, P: pc, A: JFloat(a), E: 1e-300, Max: ip(k), Fuel: 400, WatchdogMs: 20000})
		if prev.Kind != "done" || cur.Kind != "done" || prev.T == nil || cur.T == nil {
			continue
		}
		var td sparse.Vector
		if td.SubVec(cur.T.sparse(), prev.T.sparse()) != nil {
			continue
		}
		d := td.Norm2()
		if !(d > 0) {
			continue
		}
		cs = append(cs, mk("Compute", ComputeIn{C: cc, P: pc, A: JFloat(a), E: JFloat(d), Fuel: 400, WatchdogMs: 20000}))
	}
	// validation: every invalid parameter value, one at a time and combined
	n := 4
	c, p, _ := randGraph(r, n)
	cc, pc, _ := canonInputs(c, p)
	bad := []func(in *ComputeIn){
		func(in *ComputeIn) { in.A = -0.1 }, func(in *ComputeIn) { in.A = 1.5 }, func(in *ComputeIn) { in.A = JFloat(math.Inf(1)) },
		func(in *ComputeIn) { in.E = 0 }, func(in *ComputeIn) { in.E = -1e-9 },
		func(in *ComputeIn) { in.C = Mat{Major: 0, Minor: 0}; in.P = Vec{Dim: 0} },
		func(in *ComputeIn) { in.C = Mat{Major: n, Minor: n + 1, Rows: cc.Rows} },
		func(in *ComputeIn) { in.P = Vec{Dim: n + 1, Ents: pc.Ents} },
		func(in *ComputeIn) { in.T0 = &Vec{Dim: n - 1} },
		func(in *ComputeIn) { in.ResultDim = ip(n + 2) },
		func(in *ComputeIn) { in.Freq = ip(0) }, func(in *ComputeIn) { in.Max = ip(-3) }, func(in *ComputeIn) { in.Min = ip(0) },
		func(in *ComputeIn) { in.A = 0; in.Max = ip(9) }, func(in *ComputeIn) { in.A = 1 },
	}
	for i := range bad {
		for j := i; j < len(bad); j++ {
			in := ComputeIn{C: cc, P: pc, A: 0.5, E: 1e-3, Fuel: 400, WatchdogMs: 20000}
			bad[i](&in)
			if j != i {
				bad[j](&in)
			}
			cs = append(cs, mk("Compute", in))
		}
	}
	// termination within the documented bound, default schedule, a>=0.001, e>=1e-9; incl. overflowing row sums
	reps := 30
	if tier != "quick" {
		reps = 400
	}
	for k := 0; k < reps; k++ {
		n := 1 + r.Intn(12)
		c, p, _ := randGraph(r, n)
		if r.Chance(15) && n >= 2 { // finite values whose row sum overflows
			c.Rows[0] = []Ent{{I: 0, V: 1e308}, {I: 1, V: 1e308}}
		}
		cc, pc, err := canonInputs(c, p)
		if err != nil {
			continue
		}
		a := []float64{1, 0.9, 0.5, 0.3, 0.15, 0.1}[r.Intn(6)]
		e := math.Pow(10, -float64(1+r.Intn(9)))
		in := ComputeIn{C: cc, P: pc, A: JFloat(a), E: JFloat(e), Fuel: 400, WatchdogMs: 20000}
		if r.Chance(30) {
			t0 := canonVec(Vec{Dim: n, Ents: sortedSpan(r, n, 60, 0, r.Pos)}) // the bound is for canonical inputs
			in.T0 = &t0
		}
		cs = append(cs, mk("Bound", in))
	}
	return cs
}

func runC05(c *Case) error {
	var in ComputeIn
	c.decode(&in)
	obs := runCompute(context.Background(), &in)
	c.setObs(obs)
	if c.Kind == "Bound" {
		// ceil(ln(e/4)/ln(1-a)) + 2, the documented worst-case iteration count
		a, e := float64(in.A), float64(in.E)
		b := 2.0
		if a < 1 {
			b = math.Ceil(math.Log(e/4)/math.Log(1-a)) + 2
		}
		c.coq = fmt.Sprintf("Bound (%s) %d", coqCompute(&in, &obs), int(b))
	} else {
		c.coq = fmt.Sprintf("Compute (%s)", coqCompute(&in, &obs))
	}
	c.Nontrivial = obs.Kind == "done" && obs.Iters > 0
	c.Tags = []string{"outcome:" + obs.Kind}
	if obs.Kind == "failed" {
		c.Tags = append(c.Tags, fmt.Sprintf("error-code:%d", obs.Code))
	}
	if obs.Kind == "done" {
		c.Tags = append(c.Tags, fmt.Sprintf("iterations:%d", bucket(obs.Iters)))
	}
	return nil
}

func init() { register(&Family{ID: "C05", Import: "Corr.C05", Gen: genC05, Run: runC05}) }

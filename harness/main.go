// Command harness drives the real go-eigentrust code (module replaced by /repo's
// working tree) on generated inputs, histories and schedules and writes what it
// observed as Coq terms for the correspondence check (see ../DESIGN.md section 4).
package main

import (
	"bytes"
	"context"
	"encoding/json"
	"flag"
	"fmt"
	"os"
	"os/exec"
	"path/filepath"
	"runtime/debug"
	"sort"
	"strings"
	"time"

	"github.com/rs/zerolog"
)

// Case is one correspondence case: the input fed to the implementation (JSON,
// replayable), what was observed, and the Coq term stating both.
type Case struct {
	ID         int             `json:"id"`
	Shard      int             `json:"shard"`
	Idx        int             `json:"idx"`
	Kind       string          `json:"kind"`
	In         json.RawMessage `json:"in"`
	Obs        json.RawMessage `json:"obs,omitempty"`
	Nontrivial bool            `json:"nontrivial"`
	Tags       []string        `json:"tags,omitempty"`
	Known      string          `json:"known,omitempty"` // signature of a known finding this case reproduces
	Panic      string          `json:"panic,omitempty"` // the implementation panicked on this input (always a failing input)
	Coq        string          `json:"coq,omitempty"`   // only in -only (child) output
	coq        string
}

// Family is the per-property generator/runner.
type Family struct {
	ID     string
	Import string // Coq module defining case/check/holds
	Gen    func(r *Rng, tier string) []*Case
	Run    func(c *Case) error // runs the implementation on c.In; fills Obs, coq, Nontrivial, Tags
}

var families = map[string]*Family{}

// gOutDir is the -out directory (scratch space for families that need files).
var gOutDir string

func register(f *Family) { families[f.ID] = f }

func mk(kind string, in interface{}) *Case {
	b, err := json.Marshal(in)
	if err != nil {
		panic(err)
	}
	return &Case{Kind: kind, In: b}
}

func (c *Case) decode(v interface{}) {
	if err := json.Unmarshal(c.In, v); err != nil {
		panic(fmt.Sprintf("decode %s: %v", c.Kind, err))
	}
}
func (c *Case) setObs(v interface{}) {
	b, err := json.Marshal(v)
	if err != nil {
		panic(err)
	}
	c.Obs = b
}

// runRecovered runs one case; a panic of the implementation is recorded on the case.
func runRecovered(f *Family, c *Case) (err error) {
	defer func() {
		if r := recover(); r != nil {
			c.Panic = fmt.Sprintf("%v\n%s", r, debug.Stack())
			if len(c.Panic) > 1500 {
				c.Panic = c.Panic[:1500]
			}
			c.coq = ""
		}
	}()
	return f.Run(c)
}

// runIsolated runs case i in a child process; a crash, a non-zero exit or a hang of the
// child is recorded as the case's panic (a failing input by itself).
func runIsolated(c *Case, i int, prop, tier string, seed uint64, replay, out string) {
	dir := filepath.Join(out, fmt.Sprintf("iso-%d", i))
	_ = os.MkdirAll(dir, 0o755)
	defer os.RemoveAll(dir)
	args := []string{"-property", prop, "-tier", tier, "-seed", fmt.Sprint(seed), "-only", fmt.Sprint(i), "-out", dir}
	if replay != "" {
		args = append(args, "-replay", replay)
	}
	ctx, cancel := context.WithTimeout(context.Background(), 180*time.Second)
	defer cancel()
	cmd := exec.CommandContext(ctx, os.Args[0], args...)
	var eb bytes.Buffer
	cmd.Stderr = &eb
	err := cmd.Run()
	if err == nil {
		if b, e := os.ReadFile(filepath.Join(dir, "only.json")); e == nil {
			var cc Case
			if json.Unmarshal(b, &cc) == nil {
				*c = cc
				c.coq, c.Coq = cc.Coq, ""
				return
			}
		}
		err = fmt.Errorf("child wrote no result")
	}
	msg := eb.String()
	if ctx.Err() != nil {
		msg = "the process did not finish within 180 s\n" + msg
	}
	// keep the first lines (signal, fault address) and the top of the first stack
	if len(msg) > 1500 {
		msg = msg[:1500]
	}
	c.Panic = fmt.Sprintf("process crashed (%v): %s", err, msg)
	c.coq = ""
}

func main() {
	prop := flag.String("property", "", "property id (C01..C20)")
	tier := flag.String("tier", "quick", "quick|thorough|search")
	seed := flag.Uint64("seed", 1, "PRNG seed")
	out := flag.String("out", "", "output directory")
	replay := flag.String("replay", "", "replay file (JSON with a case)")
	maxShard := flag.Int("shard-bytes", 700000, "approximate shard size")
	isolate := flag.Bool("isolate", false, "run every case in its own child process (used after a crash of the in-process run): a crash or hang becomes the case's panic")
	only := flag.Int("only", -1, "child mode of -isolate: run only this case index and write it to <out>/only.json")
	huge := flag.Int("huge", -1, "C15 child mode: run one huge-size scenario under an address-space limit and exit")
	mmShape := flag.String("mmap-shape", "", "extract the shape of CSMatrix.Mmap / Merge from this Go source file into -out (a .v file)")
	transl := flag.String("translate", "", "translate the float64 kernels (KBNSummer.Add/Sum, basic.Canonicalize) of the repository at this root into Gallina, written to -out (a .v file)")
	skel := flag.String("skeleton", "", "extract the MulVec protocol skeleton from this Go source file into -out (a .v file)")
	flag.Parse()
	if *mmShape != "" {
		if err := extractMmapShape(*mmShape, *out); err != nil {
			fmt.Fprintln(os.Stderr, err)
			os.Exit(2)
		}
		return
	}
	if *transl != "" {
		if err := translateKernels(*transl, *out); err != nil {
			fmt.Fprintln(os.Stderr, err)
			os.Exit(2)
		}
		return
	}
	if *skel != "" {
		if err := extractSkeleton(*skel, *out); err != nil {
			fmt.Fprintln(os.Stderr, err)
			os.Exit(2)
		}
		return
	}
	if *huge >= 0 {
		gOutDir = *out
		runHugeChild(*huge)
	}
	zerolog.SetGlobalLevel(zerolog.DebugLevel) // finalizers log at trace level to stderr
	f := families[*prop]
	if f == nil {
		fmt.Fprintf(os.Stderr, "unknown property %q\n", *prop)
		os.Exit(2)
	}
	if err := os.MkdirAll(*out, 0o755); err != nil {
		panic(err)
	}
	gOutDir = *out
	var cases []*Case
	if *replay != "" {
		b, err := os.ReadFile(*replay)
		if err != nil {
			panic(err)
		}
		var rp struct {
			Case *Case `json:"case"`
		}
		if err := json.Unmarshal(b, &rp); err != nil || rp.Case == nil {
			fmt.Fprintf(os.Stderr, "replay file has no case: %v\n", err)
			os.Exit(2)
		}
		cases = []*Case{rp.Case}
	} else {
		r := NewRng(*seed)
		cases = f.Gen(r, *tier)
	}
	tagHist := map[string]int{}
	distinct := map[string]bool{}
	nontrivial := 0
	if *only >= 0 {
		if *only >= len(cases) {
			os.Exit(2)
		}
		c := cases[*only]
		c.ID = *only
		c.Obs = nil
		if err := runRecovered(f, c); err != nil {
			fmt.Fprintf(os.Stderr, "case %d (%s): %v\n", *only, c.Kind, err)
			os.Exit(3)
		}
		c.Coq = c.coq
		b, _ := json.Marshal(c)
		if err := os.WriteFile(filepath.Join(*out, "only.json"), b, 0o644); err != nil {
			panic(err)
		}
		return
	}
	for i, c := range cases {
		c.ID = i
		c.Obs = nil
		if *isolate {
			runIsolated(c, i, *prop, *tier, *seed, *replay, *out)
		} else if err := runRecovered(f, c); err != nil {
			fmt.Fprintf(os.Stderr, "case %d (%s): %v\n", i, c.Kind, err)
			os.Exit(3)
		}
		for _, t := range c.Tags {
			tagHist[t]++
		}
		tagHist["kind:"+c.Kind]++
		key := c.Kind + string(c.In)
		if c.Nontrivial && !distinct[key] {
			distinct[key] = true
			nontrivial++
		}
	}
	// shards
	shard, idx, size := 0, 0, 0
	var sb strings.Builder
	flush := func() {
		if idx == 0 {
			return
		}
		name := filepath.Join(*out, fmt.Sprintf("obs_%03d.v", shard))
		hdr := fmt.Sprintf("From ET Require Import Corr.Common %s.\nDefinition cases : list case := [\n", f.Import)
		ftr := "\n].\nDefinition bad := Eval vm_compute in find_bad check cases.\nDefinition viol := Eval vm_compute in find_bad holds cases.\nPrint bad.\nPrint viol.\n"
		if err := os.WriteFile(name, []byte(hdr+sb.String()+ftr), 0o644); err != nil {
			panic(err)
		}
		sb.Reset()
		shard++
		idx, size = 0, 0
	}
	for _, c := range cases {
		if c.Panic != "" {
			c.Shard, c.Idx = -1, -1
			continue
		}
		if size > *maxShard {
			flush()
		}
		if idx > 0 {
			sb.WriteString(";\n")
		}
		sb.WriteString(c.coq)
		c.Shard, c.Idx = shard, idx
		idx++
		size += len(c.coq)
	}
	flush()
	cf, err := os.Create(filepath.Join(*out, "cases.jsonl"))
	if err != nil {
		panic(err)
	}
	enc := json.NewEncoder(cf)
	for _, c := range cases {
		_ = enc.Encode(c)
	}
	cf.Close()
	var samples []*Case
	for i, c := range cases {
		if c.Nontrivial && len(samples) < 3 && len(c.In) < 1500 {
			samples = append(samples, cases[i])
		}
	}
	if len(samples) == 0 && len(cases) > 0 {
		samples = cases[:1]
	}
	keys := make([]string, 0, len(tagHist))
	for k := range tagHist {
		keys = append(keys, k)
	}
	sort.Strings(keys)
	hist := map[string]int{}
	for _, k := range keys {
		hist[k] = tagHist[k]
	}
	meta := map[string]interface{}{
		"property": f.ID, "tier": *tier, "seed": *seed, "shards": shard,
		"evaluations": len(cases), "distinct_nontrivial": nontrivial,
		"histogram": hist, "samples": samples,
	}
	mb, _ := json.MarshalIndent(meta, "", " ")
	if err := os.WriteFile(filepath.Join(*out, "meta.json"), mb, 0o644); err != nil {
		panic(err)
	}
}

package main

import (
	"context"
	"fmt"
)

// C18: flat-tail termination and statistics.

func genC18(r *Rng, tier string) []*Case {
	var cs []*Case
	reps := 400
	if tier != "quick" {
		reps = 6000
	}
	for k := 0; k < reps; k++ {
		n := 2 + r.Intn(9)
		c, p, _ := randGraph(r, n)
		cc, pc, err := canonInputs(c, p)
		if err != nil {
			continue
		}
		a := []float64{0.5, 0.3, 0.15, 0.1, 0.05}[r.Intn(5)]
		e := []float64{1, 1e-2, 1e-4, 1e-6}[r.Intn(4)]
		in := ComputeIn{C: cc, P: pc, A: JFloat(a), E: JFloat(e), Fuel: 600, WatchdogMs: 20000}
		in.FlatTail = ip(r.Intn(5))
		in.NumLeaders = ip(r.Intn(n + 2))
		if r.Chance(70) { // a start vector far from the fixed point makes the ranking change between checks
			t0 := canonVec(Vec{Dim: n, Ents: sortedSpan(r, n, 80, 0, r.Pos)})
			in.T0 = &t0
		}
		switch r.Intn(5) {
		case 0:
			in.Max = ip(1 + r.Intn(12)) // cut by the limit
		case 1:
			in.Freq = ip(1 + r.Intn(3))
			in.Min = ip(1 + r.Intn(5))
		case 2:
			in.Freq = ip(2)
			in.Max = ip(3 + r.Intn(20))
		}
		if r.Chance(40) {
			in.Repeat = 1 // the same stats struct was used by an earlier identical call: it must be reset
		}
		cs = append(cs, mk("Compute", in))
	}
	return cs
}

func runC18(c *Case) error {
	var in ComputeIn
	c.decode(&in)
	obs := runCompute(context.Background(), &in)
	c.setObs(obs)
	c.coq = coqCompute(&in, &obs)
	c.Nontrivial = obs.Kind == "done" && obs.Iters > 1 && (obs.Thr > 1 || obs.Len > 0)
	c.Tags = []string{"outcome:" + obs.Kind}
	if obs.Kind == "done" {
		c.Tags = append(c.Tags, fmt.Sprintf("length:%d", bucket(obs.Len)), fmt.Sprintf("threshold:%d", bucket(obs.Thr)),
			fmt.Sprintf("leaders<n:%v", in.NumLeaders != nil && *in.NumLeaders > 0 && *in.NumLeaders < in.C.Major))
	}
	return nil
}

func init() { register(&Family{ID: "C18", Import: "Corr.C18", Gen: genC18, Run: runC18}) }

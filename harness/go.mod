module k3l.io/go-eigentrust/verifharness

go 1.21

require (
	github.com/anishathalye/porcupine v1.3.0
	github.com/gin-gonic/gin v1.9.1
	github.com/labstack/echo/v4 v4.11.4
	github.com/rs/zerolog v1.28.0
	google.golang.org/grpc v1.46.2
	k3l.io/go-eigentrust v0.0.0
)

require (
	github.com/apapsch/go-jsonmerge/v2 v2.0.0 // indirect
	github.com/aws/aws-sdk-go-v2 v1.30.1 // indirect
	github.com/aws/aws-sdk-go-v2/aws/protocol/eventstream v1.6.3 // indirect
	github.com/aws/aws-sdk-go-v2/config v1.27.24 // indirect
	github.com/aws/aws-sdk-go-v2/credentials v1.17.24 // indirect
	github.com/aws/aws-sdk-go-v2/feature/ec2/imds v1.16.9 // indirect
	github.com/aws/aws-sdk-go-v2/feature/s3/manager v1.17.5 // indirect
	github.com/aws/aws-sdk-go-v2/internal/configsources v1.3.13 // indirect
	github.com/aws/aws-sdk-go-v2/internal/endpoints/v2 v2.6.13 // indirect
	github.com/aws/aws-sdk-go-v2/internal/ini v1.8.0 // indirect
	github.com/aws/aws-sdk-go-v2/internal/v4a v1.3.13 // indirect
	github.com/aws/aws-sdk-go-v2/service/internal/accept-encoding v1.11.3 // indirect
	github.com/aws/aws-sdk-go-v2/service/internal/checksum v1.3.15 // indirect
	github.com/aws/aws-sdk-go-v2/service/internal/presigned-url v1.11.15 // indirect
	github.com/aws/aws-sdk-go-v2/service/internal/s3shared v1.17.13 // indirect
	github.com/aws/aws-sdk-go-v2/service/s3 v1.58.0 // indirect
	github.com/aws/aws-sdk-go-v2/service/sso v1.22.1 // indirect
	github.com/aws/aws-sdk-go-v2/service/ssooidc v1.26.2 // indirect
	github.com/aws/aws-sdk-go-v2/service/sts v1.30.1 // indirect
	github.com/aws/smithy-go v1.20.3 // indirect
	github.com/gabriel-vasile/mimetype v1.4.2 // indirect
	github.com/getkin/kin-openapi v0.110.0 // indirect
	github.com/gin-contrib/sse v0.1.0 // indirect
	github.com/go-openapi/jsonpointer v0.19.5 // indirect
	github.com/go-openapi/swag v0.21.1 // indirect
	github.com/go-playground/locales v0.14.1 // indirect
	github.com/go-playground/universal-translator v0.18.1 // indirect
	github.com/go-playground/validator/v10 v10.14.1 // indirect
	github.com/golang-jwt/jwt v3.2.2+incompatible // indirect
	github.com/golang/protobuf v1.5.2 // indirect
	github.com/google/uuid v1.5.0 // indirect
	github.com/invopop/yaml v0.1.0 // indirect
	github.com/jmespath/go-jmespath v0.4.0 // indirect
	github.com/josharian/intern v1.0.0 // indirect
	github.com/labstack/gommon v0.4.2 // indirect
	github.com/leodido/go-urn v1.2.4 // indirect
	github.com/mailru/easyjson v0.7.7 // indirect
	github.com/mattn/go-colorable v0.1.13 // indirect
	github.com/mattn/go-isatty v0.0.20 // indirect
	github.com/mohae/deepcopy v0.0.0-20170929034955-c48cc78d4826 // indirect
	github.com/oapi-codegen/runtime v1.1.1 // indirect
	github.com/pelletier/go-toml/v2 v2.0.9 // indirect
	github.com/ugorji/go/codec v1.2.11 // indirect
	github.com/valyala/bytebufferpool v1.0.0 // indirect
	github.com/valyala/fasttemplate v1.2.2 // indirect
	golang.org/x/crypto v0.21.0 // indirect
	golang.org/x/net v0.23.0 // indirect
	golang.org/x/sys v0.18.0 // indirect
	golang.org/x/text v0.14.0 // indirect
	golang.org/x/time v0.5.0 // indirect
	google.golang.org/genproto v0.0.0-20220519153652-3a47de7e79bd // indirect
	google.golang.org/protobuf v1.33.0 // indirect
	gopkg.in/yaml.v2 v2.4.0 // indirect
	gopkg.in/yaml.v3 v3.0.1 // indirect
)

replace k3l.io/go-eigentrust => /repo

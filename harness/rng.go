package main

import "math"

// Rng is SplitMix64: every random choice of a run derives from one state.
type Rng struct{ s uint64 }

func NewRng(seed uint64) *Rng { return &Rng{s: seed*0x9E3779B97F4A7C15 + 0x1234567} }

func (r *Rng) U64() uint64 {
	r.s += 0x9E3779B97F4A7C15
	z := r.s
	z = (z ^ (z >> 30)) * 0xBF58476D1CE4E5B9
	z = (z ^ (z >> 27)) * 0x94D049BB133111EB
	return z ^ (z >> 31)
}
func (r *Rng) Intn(n int) int {
	if n <= 0 {
		return 0
	}
	return int(r.U64() % uint64(n))
}
func (r *Rng) Bool() bool        { return r.U64()&1 == 1 }
func (r *Rng) Chance(p int) bool { return r.Intn(100) < p } // p percent
func (r *Rng) F01() float64      { return float64(r.U64()>>11) / (1 << 53) }
func (r *Rng) Pick(xs ...int) int {
	return xs[r.Intn(len(xs))]
}

// Val returns a finite float with a wide exponent range; small integers are
// frequent so that cancellations and ties actually occur.
func (r *Rng) Val() float64 {
	switch r.Intn(10) {
	case 0, 1, 2:
		return float64(r.Intn(9) + 1)
	case 3:
		return -float64(r.Intn(9) + 1)
	case 4:
		return math.Ldexp(r.F01()+0.5, r.Intn(40)-20)
	case 5:
		return -math.Ldexp(r.F01()+0.5, r.Intn(40)-20)
	case 6:
		return math.Ldexp(r.F01()+0.5, r.Intn(600)-300)
	default:
		return r.F01()
	}
}

// Pos returns a positive finite float.
func (r *Rng) Pos() float64 {
	switch r.Intn(6) {
	case 0, 1:
		return float64(r.Intn(9) + 1)
	case 2:
		return math.Ldexp(r.F01()+0.5, r.Intn(40)-20)
	default:
		return r.F01() + 1e-3
	}
}
func (r *Rng) Perm(n int) []int {
	p := make([]int, n)
	for i := range p {
		p[i] = i
	}
	for i := n - 1; i > 0; i-- {
		j := r.Intn(i + 1)
		p[i], p[j] = p[j], p[i]
	}
	return p
}

func mathLdexp(f float64, e int) float64 { return math.Ldexp(f, e) }

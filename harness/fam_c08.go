package main

import (
	"fmt"
	"math"

	"k3l.io/go-eigentrust/pkg/basic"
)

// C08: ExtractDistrust and DiscountTrustVector.

type c08Extract struct {
	M Mat `json:"m"`
}
type c08Discount struct {
	T Vec `json:"t"`
	D Mat `json:"d"`
}

func signedVal(r *Rng) func() float64 {
	mode := r.Intn(5)
	return func() float64 {
		v := r.Pos()
		switch mode {
		case 0: // all negative
			return -v
		case 1: // alternating
			if r.Bool() {
				return -v
			}
			return v
		case 2: // mostly positive
			if r.Chance(20) {
				return -v
			}
			return v
		case 3: // explicit zeros of both signs among signed values
			switch r.Intn(4) {
			case 0:
				return 0
			case 1:
				return math.Copysign(0, -1)
			case 2:
				return -v
			}
			return v
		}
		return v
	}
}

func genC08(r *Rng, tier string) []*Case {
	var cs []*Case
	reps := 600
	if tier != "quick" {
		reps = 12000
	}
	for k := 0; k < reps; k++ {
		n := r.Intn(9)
		m := Mat{Major: n, Minor: n, Rows: make([][]Ent, n)}
		for i := range m.Rows {
			if r.Chance(85) {
				m.Rows[i] = sortedSpan(r, n, r.Pick(30, 60, 100), 0, signedVal(r))
			}
			if r.Chance(15) && n > 0 && len(m.Rows[i]) > 0 { // first entry negative, rest positive
				m.Rows[i][0].V = -JFloat(math.Abs(float64(m.Rows[i][0].V)) + 1)
			}
		}
		if r.Chance(4) {
			m.Minor = n + 1 // non-square: must be refused
		}
		cs = append(cs, mk("Extract", c08Extract{M: m}))
		// discount: score vectors with zero-score distrusters before / between / after scored ones
		n = 1 + r.Intn(9)
		d := Mat{Major: n, Minor: n, Rows: make([][]Ent, n)}
		for i := range d.Rows {
			if r.Chance(60) {
				d.Rows[i] = sortedSpan(r, n, r.Pick(30, 60), 0, r.Pos)
			}
		}
		if r.Chance(70) { // row-normalised, as the callers hand it over
			dm := d.csr()
			_ = basic.CanonicalizeLocalTrust(dm, nil)
			d = matOf(&dm.CSMatrix)
		}
		if r.Chance(10) { // fewer rows than peers: trailing peers voice no distrust
			k := r.Intn(n + 1)
			d.Major, d.Rows = k, d.Rows[:k]
			d.Minor = n
		}
		t := Vec{Dim: n, Ents: sortedSpan(r, n, r.Pick(20, 50, 80, 100), 0, r.Pos)}
		if r.Chance(50) {
			t = canonVec(t)
		}
		if r.Chance(12) && n >= 3 {
			// products that underflow to zero in the middle of a distrust row (a vanishing weight next to ordinary
			// ones, voiced by a peer with a small score): the dropped product must not disturb its neighbours
			i := r.Intn(n)
			row := sortedSpan(r, n, 100, 0, r.Pos)
			row[r.Intn(len(row)-1)].V = JFloat([]float64{1e-320, 5e-324, 3e-322}[r.Intn(3)])
			d.Rows = append(d.Rows, make([][]Ent, n)...)[:n]
			d.Major, d.Minor = n, n
			d.Rows[i] = row
			t = Vec{Dim: n, Ents: sortedSpan(r, n, 100, 0, r.Pos)}
			t.Ents[i].V = 1e-4
		}
		cs = append(cs, mk("Discount", c08Discount{T: t, D: d}))
	}
	return cs
}

func runC08(c *Case) error {
	switch c.Kind {
	case "Extract":
		var in c08Extract
		c.decode(&in)
		m := in.M.csr()
		d, err := basic.ExtractDistrust(m)
		if err != nil {
			c.setObs("error: " + err.Error())
			c.coq = fmt.Sprintf("Extract %s None", cMat(in.M))
		} else {
			p, dd := matOf(&m.CSMatrix), matOf(&d.CSMatrix)
			c.setObs([]Mat{p, dd})
			c.coq = fmt.Sprintf("Extract %s (Some (%s, %s))", cMat(in.M), cMat(p), cMat(dd))
		}
		neg := 0
		for _, row := range in.M.Rows {
			for _, e := range row {
				if float64(e.V) < 0 {
					neg++
				}
			}
		}
		c.Nontrivial = neg > 0
		c.Tags = []string{fmt.Sprintf("negatives:%d", bucket(neg))}
	case "Discount":
		var in c08Discount
		c.decode(&in)
		t := in.T.sparse()
		d := in.D.csr()
		if c.ID%2 == 1 {
			// the distrust matrix is an input: an earlier discount of another score vector with the same
			// matrix must not matter
			_ = basic.DiscountTrustVector(in.T.sparse(), d)
		}
		err := basic.DiscountTrustVector(t, d)
		if !sameMat(in.D, &d.CSMatrix) {
			panic("DiscountTrustVector modified the distrust matrix it was given")
		}
		if err != nil {
			c.setObs("error: " + err.Error())
			c.coq = fmt.Sprintf("Discount %s %s None", cVec(in.T), cMat(in.D))
		} else {
			c.setObs(vecOf(t))
			c.coq = fmt.Sprintf("Discount %s %s (Some %s)", cVec(in.T), cMat(in.D), cVec(vecOf(t)))
		}
		// non-trivial: some scored peer voices distrust and some unscored one does too
		scored := map[int]bool{}
		for _, e := range in.T.Ents {
			scored[e.I] = true
		}
		s, u := 0, 0
		for i, row := range in.D.Rows {
			if len(row) > 0 {
				if scored[i] {
					s++
				} else {
					u++
				}
			}
		}
		c.Nontrivial = s > 0
		c.Tags = []string{fmt.Sprintf("scored-distrusters:%d", bucket(s)), fmt.Sprintf("unscored-distrusters:%d", bucket(u))}
	default:
		return fmt.Errorf("unknown kind %s", c.Kind)
	}
	return nil
}

func init() { register(&Family{ID: "C08", Import: "Corr.C08", Gen: genC08, Run: runC08}) }

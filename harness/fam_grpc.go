package main

import (
	"context"
	"fmt"
	"math/big"
	"strconv"

	"google.golang.org/grpc"
	"google.golang.org/grpc/status"
	computepb "k3l.io/go-eigentrust/pkg/api/pb/compute"
	tmpb "k3l.io/go-eigentrust/pkg/api/pb/trustmatrix"
	tvpb "k3l.io/go-eigentrust/pkg/api/pb/trustvector"
	"k3l.io/go-eigentrust/pkg/basic/server"
	grpcserver "k3l.io/go-eigentrust/pkg/basic/server/grpc"
)

// gRPC services: C16 (stores), C17 (BasicCompute).  Handlers are invoked directly with
// in-memory streams (the protobuf/transport layer is modelled around).

type gmStream struct {
	grpc.ServerStream
	parts []*tmpb.GetResponse
}

func (s *gmStream) Send(r *tmpb.GetResponse) error { s.parts = append(s.parts, r); return nil }
func (s *gmStream) Context() context.Context       { return context.Background() }

type gvStream struct {
	grpc.ServerStream
	parts []*tvpb.GetResponse
}

func (s *gvStream) Send(r *tvpb.GetResponse) error { s.parts = append(s.parts, r); return nil }
func (s *gvStream) Context() context.Context       { return context.Background() }

type GEntry struct {
	I string `json:"i"`
	J string `json:"j,omitempty"`
	V JFloat `json:"v"`
}
type GOp struct {
	Op       string   `json:"op"` // mcreate, mcreateauto, mget, mupdate, mflush, mdelete, v..., compute
	ID       int      `json:"id"`
	TS       []uint64 `json:"ts,omitempty"`
	Es       []GEntry `json:"es,omitempty"`
	Pre      *int     `json:"pre,omitempty"`
	Global   int      `json:"global,omitempty"`
	Positive *int     `json:"positive,omitempty"`
	Alpha    *JFloat  `json:"alpha,omitempty"`
	Eps      *JFloat  `json:"eps,omitempty"`
	Max      uint32   `json:"max,omitempty"`
}
type gHist struct {
	Ops []GOp `json:"ops"`
}

type gservers struct {
	ms   *grpcserver.TrustMatrixServer
	vs   *grpcserver.TrustVectorServer
	cs   *grpcserver.ComputeServer
	ids  map[string]int // interned random ids
	next int
}

func newGrpc() *gservers {
	core, err := server.NewCore(context.Background())
	if err != nil {
		panic(err)
	}
	return &gservers{ms: grpcserver.NewTrustMatrixServer(&core.StoredTrustMatrices), vs: grpcserver.NewTrustVectorServer(&core.StoredTrustVectors),
		cs: grpcserver.NewGrpcServer(core), ids: map[string]int{}, next: 100}
}
func gname(kind string, id int) string { return fmt.Sprintf("%s%d", kind, id) }
func (g *gservers) name(kind string, id int) string {
	for k, v := range g.ids {
		if v == id {
			return k
		}
	}
	return gname(kind, id)
}

func cQwords(ts []uint64) string {
	var ss []string
	for _, w := range ts {
		ss = append(ss, fmt.Sprintf("%d%%N", w))
	}
	return cList(ss)
}
func cIdx(s string) string {
	i, err := strconv.Atoi(s)
	if err != nil {
		return "None"
	}
	return "(pz " + zlit(i) + ")"
}
func optN(p *int) string {
	if p == nil {
		return "None"
	}
	return fmt.Sprintf("(on %d)", *p)
}
func codeOf(err error) int { return int(status.Code(err)) }

// exec runs one op; returns the Coq request and response.
func (g *gservers) exec(o GOp) (req, resp string, panicked bool) {
	ctx := context.Background()
	defer func() {
		if r := recover(); r != nil {
			resp = "RPanicked"
			panicked = true
		}
	}()
	st := func(err error) string { return fmt.Sprintf("RStatus %d", codeOf(err)) }
	switch o.Op {
	case "mcreate":
		req = fmt.Sprintf("CMCreate %d", o.ID)
		r, err := g.ms.Create(ctx, &tmpb.CreateRequest{Id: gname("m", o.ID)})
		if err != nil {
			return req, st(err), false
		}
		_ = r
		return req, fmt.Sprintf("RCreated %d", o.ID), false
	case "mcreateauto":
		r, err := g.ms.Create(ctx, &tmpb.CreateRequest{})
		if err != nil {
			return "CMCreateAuto 0", st(err), false
		}
		g.ids[r.Id] = g.next
		g.next++
		return fmt.Sprintf("CMCreateAuto %d", g.ids[r.Id]), fmt.Sprintf("RCreated %d", g.ids[r.Id]), false
	case "vcreate":
		req = fmt.Sprintf("CVCreate %d", o.ID)
		_, err := g.vs.Create(ctx, &tvpb.CreateRequest{Id: gname("v", o.ID)})
		if err != nil {
			return req, st(err), false
		}
		return req, fmt.Sprintf("RCreated %d", o.ID), false
	case "vcreateauto":
		r, err := g.vs.Create(ctx, &tvpb.CreateRequest{})
		if err != nil {
			return "CVCreateAuto 0", st(err), false
		}
		g.ids[r.Id] = g.next
		g.next++
		return fmt.Sprintf("CVCreateAuto %d", g.ids[r.Id]), fmt.Sprintf("RCreated %d", g.ids[r.Id]), false
	case "mget":
		req = fmt.Sprintf("CMGet %d", o.ID)
		s := &gmStream{}
		if err := g.ms.Get(&tmpb.GetRequest{Id: g.name("m", o.ID)}, s); err != nil {
			return req, st(err), false
		}
		var es []string
		for _, p := range s.parts[1:] {
			e := p.GetEntry()
			es = append(es, fmt.Sprintf("g3 %s %s %s", e.Truster, e.Trustee, cf(e.Value)))
		}
		return req, fmt.Sprintf("RMatrix %s %s", cQwords(s.parts[0].GetHeader().TimestampQwords), cList(es)), false
	case "vget":
		req = fmt.Sprintf("CVGet %d", o.ID)
		s := &gvStream{}
		if err := g.vs.Get(&tvpb.GetRequest{Id: g.name("v", o.ID)}, s); err != nil {
			return req, st(err), false
		}
		var es []Ent
		for _, p := range s.parts[1:] {
			e := p.GetEntry()
			i, _ := strconv.Atoi(e.Trustee)
			es = append(es, Ent{I: i, V: JFloat(e.Value)})
		}
		return req, fmt.Sprintf("RVector %s %s", cQwords(s.parts[0].GetHeader().TimestampQwords), cEnts(es)), false
	case "mupdate":
		var pes []*tmpb.Entry
		var ces []string
		for _, e := range o.Es {
			pes = append(pes, &tmpb.Entry{Truster: e.I, Trustee: e.J, Value: float64(e.V)})
			ces = append(ces, fmt.Sprintf("me %s %s %s", cIdx(e.I), cIdx(e.J), cf(float64(e.V))))
		}
		req = fmt.Sprintf("CMUpdate %d %s %s", o.ID, cQwords(o.TS), cList(ces))
		id := g.name("m", o.ID)
		_, err := g.ms.Update(ctx, &tmpb.UpdateRequest{Header: &tmpb.Header{Id: &id, TimestampQwords: o.TS}, Entries: pes})
		return req, st(err), false
	case "vupdate":
		var pes []*tvpb.Entry
		var ces []string
		for _, e := range o.Es {
			pes = append(pes, &tvpb.Entry{Trustee: e.I, Value: float64(e.V)})
			ces = append(ces, fmt.Sprintf("ve %s %s", cIdx(e.I), cf(float64(e.V))))
		}
		req = fmt.Sprintf("CVUpdate %d %s %s", o.ID, cQwords(o.TS), cList(ces))
		id := g.name("v", o.ID)
		_, err := g.vs.Update(ctx, &tvpb.UpdateRequest{Header: &tvpb.Header{Id: &id, TimestampQwords: o.TS}, Entries: pes})
		return req, st(err), false
	case "mflush":
		_, err := g.ms.Flush(ctx, &tmpb.FlushRequest{Id: g.name("m", o.ID)})
		return fmt.Sprintf("CMFlush %d", o.ID), st(err), false
	case "vflush":
		_, err := g.vs.Flush(ctx, &tvpb.FlushRequest{Id: g.name("v", o.ID)})
		return fmt.Sprintf("CVFlush %d", o.ID), st(err), false
	case "mdelete":
		_, err := g.ms.Delete(ctx, &tmpb.DeleteRequest{Id: g.name("m", o.ID)})
		return fmt.Sprintf("CMDelete %d", o.ID), st(err), false
	case "vdelete":
		_, err := g.vs.Delete(ctx, &tvpb.DeleteRequest{Id: g.name("v", o.ID)})
		return fmt.Sprintf("CVDelete %d", o.ID), st(err), false
	case "compute":
		p := &computepb.Params{LocalTrustId: g.name("m", o.ID), GlobalTrustId: g.name("v", o.Global), MaxIterations: o.Max}
		if o.Pre != nil {
			p.PreTrustId = g.name("v", *o.Pre)
		}
		if o.Positive != nil {
			p.PositiveGlobalTrustId = g.name("v", *o.Positive)
		}
		if o.Alpha != nil {
			a := float64(*o.Alpha)
			p.Alpha = &a
		}
		if o.Eps != nil {
			e := float64(*o.Eps)
			p.Epsilon = &e
		}
		req = fmt.Sprintf("CCompute %d %s %d %s %s %s %d", o.ID, optN(o.Pre), o.Global, optN(o.Positive), optF(o.Alpha), optF(o.Eps), o.Max)
		// watchdog: the exact counterpart of the model's fuel (ghist_matches runs the model with 1500);
		// a computation that does not end by itself is reported as the model reports fuel exhaustion
		fc := newFuelCtx(ctx, 1500)
		_, err := g.cs.BasicCompute(fc, &computepb.BasicComputeRequest{Params: p})
		if fc.fired.Load() {
			return req, "RStatus 2", false
		}
		return req, st(err), false
	}
	panic("unknown op " + o.Op)
}

func randTS(r *Rng) []uint64 {
	switch r.Intn(8) {
	case 0:
		return nil
	case 1:
		return []uint64{1, 0} // 2^64
	case 2:
		return []uint64{^uint64(0), ^uint64(0)} // 2^128-1
	case 3:
		return []uint64{0, 0, uint64(r.Intn(20))} // leading zero qwords
	case 4:
		return []uint64{uint64(r.Intn(3)), r.U64()}
	default:
		return []uint64{uint64(r.Intn(12))}
	}
}

func idxStr(r *Rng, n int) string {
	switch r.Intn(40) {
	case 0:
		return "-1"
	case 1:
		return "abc"
	case 2:
		return "+" + strconv.Itoa(r.Intn(n))
	case 3:
		return "00" + strconv.Itoa(r.Intn(n))
	case 4:
		return " 1"
	}
	return strconv.Itoa(r.Intn(n))
}

func randMatUpdate(r *Rng, id int) GOp {
	o := GOp{Op: "mupdate", ID: id, TS: randTS(r)}
	n := 1 + r.Intn(5)
	seen := map[string]bool{}
	for k := 0; k < r.Intn(7); k++ {
		i, j := idxStr(r, n), idxStr(r, n)
		if seen[i+","+j] {
			continue
		}
		seen[i+","+j] = true
		v := r.Val()
		if r.Chance(25) {
			v = 0
		}
		o.Es = append(o.Es, GEntry{I: i, J: j, V: JFloat(v)})
	}
	return o
}
func randVecUpdate(r *Rng, id int, positive bool) GOp {
	o := GOp{Op: "vupdate", ID: id, TS: randTS(r)}
	n := 1 + r.Intn(6)
	seen := map[string]bool{}
	for k := 0; k < r.Intn(6); k++ {
		i := idxStr(r, n)
		if positive {
			i = strconv.Itoa(r.Intn(n))
		}
		if seen[i] {
			continue
		}
		seen[i] = true
		v := r.Val()
		if positive {
			v = r.Pos()
		} else if r.Chance(25) {
			v = 0
		}
		o.Es = append(o.Es, GEntry{I: i, V: JFloat(v)})
	}
	return o
}

func genC16(r *Rng, tier string) []*Case {
	var cs []*Case
	// bounded-exhaustive short histories over a small alphabet, both services
	up := func(kind string, id int, ts uint64, es ...GEntry) GOp {
		return GOp{Op: kind + "update", ID: id, TS: []uint64{ts}, Es: es}
	}
	var alphabet []GOp
	for _, k := range []string{"m", "v"} {
		alphabet = append(alphabet, GOp{Op: k + "create", ID: 0}, GOp{Op: k + "get", ID: 0}, GOp{Op: k + "flush", ID: 0}, GOp{Op: k + "delete", ID: 0},
			up(k, 0, 10, GEntry{I: "0", J: "1", V: 1}, GEntry{I: "1", J: "0", V: 2}), up(k, 0, 5, GEntry{I: "0", J: "1", V: 0}), up(k, 0, 7, GEntry{I: "2", J: "2", V: 3}),
			up(k, 0, 9)) // a batch without entries still carries its timestamp
	}
	maxLen := 3
	if tier != "quick" {
		maxLen = 4
	}
	for _, k := range []string{"m", "v"} {
		var alpha []GOp
		for _, o := range alphabet {
			if o.Op[:1] == k {
				alpha = append(alpha, o)
			}
		}
		var rec func(cur []GOp)
		rec = func(cur []GOp) {
			if len(cur) > 0 {
				cs = append(cs, mk("GHist", gHist{Ops: append(append([]GOp{}, cur...), GOp{Op: k + "get", ID: 0})}))
			}
			if len(cur) == maxLen {
				return
			}
			for _, o := range alpha {
				rec(append(cur, o))
			}
		}
		rec(nil)
	}
	reps := 150
	if tier != "quick" {
		reps = 3000
	}
	for k := 0; k < reps; k++ {
		var h gHist
		n := 1 + r.Intn(40)
		for i := 0; i < n; i++ {
			id := r.Intn(2)
			kind := []string{"m", "v"}[r.Intn(2)]
			switch r.Intn(12) {
			case 0, 1:
				h.Ops = append(h.Ops, GOp{Op: kind + "create", ID: id})
			case 2:
				h.Ops = append(h.Ops, GOp{Op: kind + "createauto"})
			case 3:
				h.Ops = append(h.Ops, GOp{Op: kind + "flush", ID: id})
			case 4:
				h.Ops = append(h.Ops, GOp{Op: kind + "delete", ID: id})
			case 5, 6:
				h.Ops = append(h.Ops, GOp{Op: kind + "get", ID: id})
			default:
				if kind == "m" {
					h.Ops = append(h.Ops, randMatUpdate(r, id))
				} else {
					h.Ops = append(h.Ops, randVecUpdate(r, id, false))
				}
				if r.Chance(50) {
					h.Ops = append(h.Ops, GOp{Op: kind + "get", ID: id})
				}
			}
		}
		cs = append(cs, mk("GHist", h))
	}
	for k := 0; k < 40; k++ {
		cs = append(cs, mk("Qwords", randTS(r)))
	}
	cs = append(cs, mk("Qwords", []uint64{}), mk("Qwords", []uint64{0}), mk("Qwords", []uint64{0, 0, 0}), mk("Qwords", []uint64{1, 0, 0}))
	return cs
}

func runGHist(c *Case) error {
	var h gHist
	c.decode(&h)
	g := newGrpc()
	var reqs, resps []string
	for _, o := range h.Ops {
		rq, rs, _ := g.exec(o)
		reqs = append(reqs, rq)
		resps = append(resps, rs)
	}
	c.setObs(resps)
	c.coq = fmt.Sprintf("GHist %s %s", cList(reqs), cList(resps))
	c.Nontrivial = len(h.Ops) > 2
	c.Tags = []string{fmt.Sprintf("history-length:%d", bucket(len(h.Ops)))}
	return nil
}

func runC16(c *Case) error {
	if c.Kind == "Qwords" {
		var qs []uint64
		c.decode(&qs)
		back := grpcserver.BigUint2Qwords(grpcserver.Qwords2BigUint(qs))
		if qs == nil {
			qs = []uint64{}
		}
		c.setObs(back)
		c.coq = fmt.Sprintf("Qwords %s %s", cQwords(qs), cQwords(back))
		c.Nontrivial = len(qs) > 1
		_ = big.NewInt
		return nil
	}
	return runGHist(c)
}

func init() { register(&Family{ID: "C16", Import: "Corr.C16", Gen: genC16, Run: runC16}) }

package main

import (
	"errors"
	"fmt"
	"math"

	"k3l.io/go-eigentrust/pkg/basic"
	"k3l.io/go-eigentrust/pkg/sparse"
)

// C04: Canonicalize, CanonicalizeLocalTrust, CanonicalizeTrustVector; power-of-two scale invariance.

type c04Span struct {
	L []Ent `json:"l"`
}
type c04LT struct {
	M Mat  `json:"m"`
	P *Vec `json:"p,omitempty"`
}
type c04TV struct {
	V Vec `json:"v"`
}
type c04Scaled struct {
	M       Mat   `json:"m"`
	P       Vec   `json:"p"`
	RowExps []int `json:"row_exps"`
	PExp    int   `json:"p_exp"`
}

func zeroSumSpan(r *Rng, n int) []Ent {
	switch r.Intn(4) {
	case 0:
		return nil
	case 1: // explicit zeros only
		return sortedSpan(r, n, 50, 100, r.Val)
	case 2: // cancelling pair
		if n >= 2 {
			v := r.Pos()
			return []Ent{{I: 0, V: JFloat(v)}, {I: n - 1, V: JFloat(-v)}}
		}
		return nil
	}
	return []Ent{}
}

// almostCanonical rescales a span so that its entries sum to 1 up to a relative perturbation of
// 2^-32 .. 2^-45 of one entry: already-normalised-looking data must still be divided by its sum.
func almostCanonical(r *Rng, l []Ent) []Ent {
	var sum float64
	for _, e := range l {
		sum += float64(e.V)
	}
	if len(l) == 0 || sum <= 0 || math.IsInf(sum, 0) {
		return l
	}
	out := make([]Ent, len(l))
	for i, e := range l {
		out[i] = Ent{I: e.I, V: JFloat(float64(e.V) / sum)}
	}
	k := r.Intn(len(out))
	out[k].V = JFloat(float64(out[k].V) * (1 + math.Ldexp(1, -32-r.Intn(14))))
	return out
}

func genC04(r *Rng, tier string) []*Case {
	var cs []*Case
	reps := 500
	if tier != "quick" {
		reps = 10000
	}
	for k := 0; k < reps; k++ {
		n := 1 + r.Intn(9)
		val := r.Pos
		if r.Chance(25) {
			val = func() float64 { return math.Ldexp(r.F01()+0.5, r.Intn(200)-100) }
		}
		// spans
		l := sortedSpan(r, n, r.Pick(30, 70, 100), r.Pick(0, 0, 20), val)
		if r.Chance(15) {
			l = zeroSumSpan(r, n)
		}
		if r.Chance(5) && len(l) >= 2 { // tiny but non-zero values
			for i := range l {
				l[i].V = JFloat(math.Ldexp(float64(l[i].V), -60))
			}
		}
		if r.Chance(12) {
			l = almostCanonical(r, l)
		}
		if r.Chance(10) && len(l) >= 3 {
			// a large negative entry cancelled by a later one: the compensated sum must still be exact
			b := math.Ldexp(1+float64(r.Intn(7)), 55+r.Intn(10))
			i := r.Intn(len(l) - 1)
			j := i + 1 + r.Intn(len(l)-1-i)
			l[i].V, l[j].V = JFloat(-b), JFloat(b)
		}
		cs = append(cs, mk("CanonSpan", c04Span{L: l}))
		// local trust: zero rows at first / middle / last position, with and without p
		m := Mat{Major: n, Minor: n, Rows: make([][]Ent, n)}
		for i := range m.Rows {
			m.Rows[i] = sortedSpan(r, n, r.Pick(30, 70), r.Pick(0, 0, 10), val)
		}
		for _, pos := range []int{0, n / 2, n - 1} {
			if r.Chance(40) {
				m.Rows[pos] = zeroSumSpan(r, n)
			}
		}
		if r.Chance(15) {
			i := r.Intn(n)
			m.Rows[i] = almostCanonical(r, m.Rows[i])
		}
		lt := c04LT{M: m}
		if r.Chance(70) {
			p := canonVec(Vec{Dim: n, Ents: sortedSpan(r, n, r.Pick(30, 100), 0, r.Pos)})
			if r.Chance(5) {
				p.Dim = n + 1 // mismatch: must be refused
			}
			lt.P = &p
		}
		if r.Chance(3) {
			lt.M.Minor = n + 1
		}
		cs = append(cs, mk("CanonLT", lt))
		// trust vectors
		v := Vec{Dim: n, Ents: sortedSpan(r, n, r.Pick(0, 30, 70, 100), r.Pick(0, 0, 30), val)}
		if r.Chance(15) {
			v.Ents = zeroSumSpan(r, n)
		}
		if r.Chance(12) {
			v.Ents = almostCanonical(r, v.Ents)
		}
		if r.Chance(10) && len(v.Ents) >= 3 {
			b := math.Ldexp(1+float64(r.Intn(7)), 55+r.Intn(10))
			i := r.Intn(len(v.Ents) - 1)
			j := i + 1 + r.Intn(len(v.Ents)-1-i)
			v.Ents[i].V, v.Ents[j].V = JFloat(-b), JFloat(b)
		}
		cs = append(cs, mk("CanonTV", c04TV{V: v}))
		// power-of-two scaling of every row and of the pre-trust
		if k%3 == 0 {
			mm := Mat{Major: n, Minor: n, Rows: make([][]Ent, n)}
			for i := range mm.Rows {
				mm.Rows[i] = sortedSpan(r, n, r.Pick(30, 70), 0, r.Pos)
			}
			if r.Chance(30) {
				i := r.Intn(n)
				mm.Rows[i] = almostCanonical(r, mm.Rows[i])
			}
			sc := c04Scaled{M: mm, P: Vec{Dim: n, Ents: sortedSpan(r, n, 60, 0, r.Pos)}, PExp: r.Intn(80) - 40}
			if r.Chance(30) {
				sc.P.Ents = almostCanonical(r, sc.P.Ents)
			}
			for i := 0; i < n; i++ {
				sc.RowExps = append(sc.RowExps, r.Intn(120)-60)
			}
			cs = append(cs, mk("Scaled", sc))
		}
	}
	// one large matrix (more than 1024 rows, not a multiple of 32): every row is canonicalised, the last ones too,
	// and rows without entries get the pre-trust wherever they are
	{
		n := 1030 + r.Intn(80)
		if n%32 == 0 {
			n++
		}
		m := Mat{Major: n, Minor: n, Rows: make([][]Ent, n)}
		for i := 0; i < n; i++ {
			if r.Chance(4) || i == n-2 {
				continue // no outgoing trust
			}
			a, b := r.Intn(n), r.Intn(n)
			if a > b {
				a, b = b, a
			}
			m.Rows[i] = []Ent{{I: a, V: JFloat(1 + r.Intn(5))}}
			if b != a {
				m.Rows[i] = append(m.Rows[i], Ent{I: b, V: JFloat(r.Pos())})
			}
		}
		p := Vec{Dim: n, Ents: []Ent{{I: r.Intn(n / 2), V: 3}, {I: n/2 + r.Intn(n/2), V: 1}}}
		cs = append(cs, mk("CanonLT", c04LT{M: m, P: &p}))
	}
	return cs
}

func scaleEnts(es []Ent, exp int) []Ent {
	out := make([]Ent, len(es))
	for i, e := range es {
		out[i] = Ent{I: e.I, V: JFloat(math.Ldexp(float64(e.V), exp))}
	}
	return out
}

func runC04(c *Case) error {
	switch c.Kind {
	case "CanonSpan":
		var in c04Span
		c.decode(&in)
		es := toEntries(in.L)
		err := basic.Canonicalize(es)
		zs := errors.Is(err, sparse.ErrZeroSum)
		if err != nil && !zs {
			return err
		}
		c.setObs(map[string]interface{}{"zero_sum": zs, "entries": fromEntries(es)})
		c.coq = fmt.Sprintf("CanonSpan %s %s %s", cEnts(in.L), cBool(zs), cEnts(fromEntries(es)))
		c.Nontrivial = len(in.L) > 1
		c.Tags = []string{fmt.Sprintf("zero-sum:%v", zs)}
	case "CanonLT":
		var in c04LT
		c.decode(&in)
		m := in.M.csr()
		var p *sparse.Vector
		ps := "None"
		if in.P != nil {
			p = in.P.sparse()
			ps = "(Some " + cVec(*in.P) + ")"
		}
		err := basic.CanonicalizeLocalTrust(m, p)
		o := matOf(&m.CSMatrix)
		c.setObs(map[string]interface{}{"err": err != nil, "m": o})
		c.coq = fmt.Sprintf("CanonLT %s %s %s %s", cMat(in.M), ps, cBool(err != nil), cMat(o))
		c.Nontrivial = in.M.Major > 1
		c.Tags = []string{fmt.Sprintf("with-pretrust:%v", in.P != nil)}
	case "CanonTV":
		var in c04TV
		c.decode(&in)
		v := in.V.sparse()
		basic.CanonicalizeTrustVector(v)
		c.setObs(vecOf(v))
		c.coq = fmt.Sprintf("CanonTV %s %s", cVec(in.V), cVec(vecOf(v)))
		c.Nontrivial = len(in.V.Ents) > 0
	case "Scaled":
		var in c04Scaled
		c.decode(&in)
		run := func(m Mat, p Vec) (Mat, Vec) {
			cm, pv := m.csr(), p.sparse()
			basic.CanonicalizeTrustVector(pv)
			_ = basic.CanonicalizeLocalTrust(cm, pv)
			return matOf(&cm.CSMatrix), vecOf(pv)
		}
		cm, cp := run(in.M, in.P)
		sm := Mat{Major: in.M.Major, Minor: in.M.Minor, Rows: make([][]Ent, len(in.M.Rows))}
		for i, row := range in.M.Rows {
			sm.Rows[i] = scaleEnts(row, in.RowExps[i])
		}
		sp := Vec{Dim: in.P.Dim, Ents: scaleEnts(in.P.Ents, in.PExp)}
		cms, cps := run(sm, sp)
		var exps []string
		for _, e := range in.RowExps {
			exps = append(exps, cZ(e))
		}
		c.setObs(map[string]interface{}{"canon_m": cm, "canon_m_scaled": cms, "canon_p": cp, "canon_p_scaled": cps})
		c.coq = fmt.Sprintf("Scaled %s %s %s %s %s %s %s %s", cMat(in.M), cVec(in.P), cList(exps), cZ(in.PExp), cMat(cm), cMat(cms), cVec(cp), cVec(cps))
		c.Nontrivial = true
	default:
		return fmt.Errorf("unknown kind %s", c.Kind)
	}
	return nil
}

func init() { register(&Family{ID: "C04", Import: "Corr.C04", Gen: genC04, Run: runC04}) }

package main

import (
	"fmt"
	"go/ast"
	"go/parser"
	"go/token"
	"os"
	"strings"
)

// Shape extractor for CSMatrix.Mmap / Merge (DESIGN.md C12): the resource model of Model/Mm.v is
// written for a source of a particular shape; the facts below are re-extracted from /repo's
// current pkg/sparse/matrix.go on every run and Props/C12.v proves (by computation) that they are
// the ones the model assumes.  A source that no longer has this shape fails that obligation.

func mentions(n ast.Node, ident string) bool {
	found := false
	ast.Inspect(n, func(x ast.Node) bool {
		if id, ok := x.(*ast.Ident); ok && id.Name == ident {
			found = true
		}
		return !found
	})
	return found
}

func callsSel(n ast.Node, pkg, name string) bool {
	found := false
	ast.Inspect(n, func(x ast.Node) bool {
		if c, ok := x.(*ast.CallExpr); ok {
			if s, ok := c.Fun.(*ast.SelectorExpr); ok && s.Sel.Name == name {
				if id, ok := s.X.(*ast.Ident); ok && id.Name == pkg {
					found = true
				}
			}
		}
		return !found
	})
	return found
}

func extractMmapShape(src, out string) error {
	fset := token.NewFileSet()
	f, err := parser.ParseFile(fset, src, nil, 0)
	if err != nil {
		return err
	}
	var mmap, merge *ast.FuncDecl
	for _, d := range f.Decls {
		if fd, ok := d.(*ast.FuncDecl); ok && fd.Recv != nil && fd.Body != nil {
			switch fd.Name.Name {
			case "Mmap":
				mmap = fd
			case "Merge":
				if len(fd.Recv.List) == 1 {
					if st, ok := fd.Recv.List[0].Type.(*ast.StarExpr); ok {
						if id, ok := st.X.(*ast.Ident); ok && id.Name == "CSMatrix" {
							merge = fd
						}
					}
				}
			}
		}
	}
	type facts struct {
		found                                                                          bool
		rowLoops, copyLoopPolls, repointLoopPolls                                      int
		fullSlice, removeDeferred, unmapNewDeferred, unmapOldAfterRepoint, removeAfter bool
		mergeUnmapsFirst, mergeResetsLast                                              bool
	}
	var fc facts
	note := ""
	if mmap == nil {
		note = "method Mmap not found"
	} else {
		fc.found = true
		// top-level statements, in order
		lastRowLoop := -1
		mmapCallIdx, removeCallIdx := -1, -1
		for i, st := range mmap.Body.List {
			if rs, ok := st.(*ast.RangeStmt); ok && mentions(rs.X, "Entries") {
				fc.rowLoops++
				polls := mentions(rs.Body, "ctx")
				assigns := false
				ast.Inspect(rs.Body, func(x ast.Node) bool {
					if as, ok := x.(*ast.AssignStmt); ok && len(as.Lhs) == 1 {
						if ix, ok := as.Lhs[0].(*ast.IndexExpr); ok && mentions(ix.X, "Entries") {
							assigns = true
							if se, ok := as.Rhs[0].(*ast.SliceExpr); ok && se.Slice3 {
								fc.fullSlice = true
							}
						}
					}
					return true
				})
				if assigns { // the adoption (re-pointing) loop
					if polls {
						fc.repointLoopPolls++
					}
					lastRowLoop = i
				} else if polls {
					fc.copyLoopPolls++
				}
			}
			if ds, ok := st.(*ast.DeferStmt); ok {
				if callsSel(ds, "os", "Remove") && mmapCallIdx < 0 {
					fc.removeDeferred = true // installed before the mapping is attempted
				}
				if callsSel(ds, "syscall", "Munmap") && mentions(ds, "mapped") {
					fc.unmapNewDeferred = true
				}
			}
			if _, ok := st.(*ast.DeferStmt); !ok {
				if callsSel(st, "syscall", "Mmap") && mmapCallIdx < 0 {
					mmapCallIdx = i
				}
				if callsSel(st, "os", "Remove") && mmapCallIdx >= 0 && removeCallIdx < 0 && lastRowLoop < 0 && fc.rowLoops == 0 {
					removeCallIdx = i
				}
				if is, ok := st.(*ast.IfStmt); ok && lastRowLoop >= 0 && i > lastRowLoop && callsSel(is, "syscall", "Munmap") {
					fc.unmapOldAfterRepoint = true
				}
			}
		}
		fc.removeAfter = removeCallIdx > mmapCallIdx && mmapCallIdx >= 0
	}
	if merge == nil {
		if note == "" {
			note = "method CSMatrix.Merge not found"
		}
	} else if n := len(merge.Body.List); n > 0 {
		first, last := merge.Body.List[0], merge.Body.List[n-1]
		fc.mergeUnmapsFirst = mentionsCall(first, "Munmap")
		fc.mergeResetsLast = mentionsCall(last, "Reset")
		if _, isDefer := last.(*ast.DeferStmt); isDefer {
			fc.mergeResetsLast = false
		}
	}
	ok := fc.found && fc.rowLoops == 2 && fc.copyLoopPolls == 1 && fc.repointLoopPolls == 0 && fc.fullSlice &&
		fc.removeDeferred && fc.unmapNewDeferred && fc.unmapOldAfterRepoint && fc.removeAfter && fc.mergeUnmapsFirst && fc.mergeResetsLast
	var sb strings.Builder
	sb.WriteString("(* GENERATED on every run by `harness -mmap-shape` from " + src + " — do not edit. *)\n")
	sb.WriteString("(* Structural facts of CSMatrix.Mmap / CSMatrix.Merge that the resource model Model/Mm.v assumes. *)\n")
	fmt.Fprintf(&sb, "(* %s *)\n", strings.ReplaceAll(strings.ReplaceAll(note, "*)", "* )"), "(*", "( *"))
	b := func(name string, v bool, doc string) {
		fmt.Fprintf(&sb, "Definition %s : bool := %s.   (* %s *)\n", name, cBool(v), doc)
	}
	b("mm_two_row_loops", fc.rowLoops == 2, "Mmap has a copy loop and a separate adoption loop over the rows")
	b("mm_copy_loop_polls", fc.copyLoopPolls == 1, "the copy loop polls the context once per row")
	b("mm_adoption_loop_cannot_fail", fc.repointLoopPolls == 0, "the adoption loop does not consult the context: once rows are re-pointed the call succeeds")
	b("mm_full_slice_expr", fc.fullSlice, "adopted spans are entries[a:b:b]: capacity = length, spans cannot grow into each other")
	b("mm_temp_removed_on_every_exit", fc.removeDeferred && fc.removeAfter, "os.Remove is deferred before the mapping is attempted and called right after it exists")
	b("mm_new_mapping_released_on_failure", fc.unmapNewDeferred, "a deferred syscall.Munmap(mapped) covers every failure after the mapping exists")
	b("mm_old_mapping_released_after_adoption", fc.unmapOldAfterRepoint, "the previous mapping is unmapped only after every row was re-pointed")
	b("merge_swaps_operand_in_first", fc.mergeUnmapsFirst, "Merge starts by m2.Munmap(): reused spans are heap spans")
	b("merge_resets_operand_last", fc.mergeResetsLast, "Merge ends by m2.Reset() (not deferred before the spans are taken)")
	fmt.Fprintf(&sb, "Definition mm_shape_recognised : bool := %s.\n", cBool(ok))
	return os.WriteFile(out, []byte(sb.String()), 0o644)
}

func mentionsCall(n ast.Node, method string) bool {
	found := false
	ast.Inspect(n, func(x ast.Node) bool {
		if c, ok := x.(*ast.CallExpr); ok {
			if s, ok := c.Fun.(*ast.SelectorExpr); ok && s.Sel.Name == method {
				found = true
			}
		}
		return !found
	})
	return found
}

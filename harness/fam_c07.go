package main

import (
	"context"
	"errors"
	"fmt"
	"os"
	"reflect"
	"runtime"
	"time"

	"k3l.io/go-eigentrust/pkg/basic"
	"k3l.io/go-eigentrust/pkg/sparse"
)

// C07: cancellation at every poll of the context (roleCtx is defined in defects_test.go's twin below).

// cancelCtx closes its Done channel at the k-th Done() call; with delay > 0 the
// collector's Done() calls are slowed down after the cancellation (widens the window of
// the "closed and cancelled both ready" race in MulVec).
type cancelCtx struct {
	context.Context
	k     int64
	n     int64
	done  chan struct{}
	fired bool
	delay time.Duration
	mu    chan struct{} // 1-slot mutex (Done() is called from many goroutines)
	cause context.CancelCauseFunc
}

func newCancelCtx(k int64, delay time.Duration) *cancelCtx {
	// the embedded context carries a cancellation *cause* different from its error (context.WithCancelCause):
	// an operation must report ctx.Err(), not context.Cause(ctx)
	inner, cause := context.WithCancelCause(context.Background())
	c := &cancelCtx{Context: inner, cause: cause, k: k, done: make(chan struct{}), delay: delay, mu: make(chan struct{}, 1)}
	c.mu <- struct{}{}
	return c
}

var errHarnessCause = errors.New("harness: cancellation cause (must not be returned in place of ctx.Err())")

func collectorCalling() bool {
	var pcs [8]uintptr
	n := runtime.Callers(3, pcs[:])
	frames := runtime.CallersFrames(pcs[:n])
	for {
		f, more := frames.Next()
		if len(f.Function) > 16 && f.Function[len(f.Function)-16:] == "(*Vector).MulVec" {
			return true
		}
		if !more {
			return false
		}
	}
}
func (c *cancelCtx) Done() <-chan struct{} {
	<-c.mu
	c.n++
	if c.n >= c.k && !c.fired {
		c.fired = true
		c.cause(errHarnessCause)
		close(c.done)
	}
	fired := c.fired
	c.mu <- struct{}{}
	if fired && c.delay > 0 && collectorCalling() {
		time.Sleep(c.delay)
	}
	return c.done
}
// Err is a poll of the context too (code may test ctx.Err() instead of selecting on Done()): it counts, and the
// cancellation may land exactly here.
func (c *cancelCtx) Err() error {
	<-c.mu
	defer func() { c.mu <- struct{}{} }()
	if !c.fired {
		c.n++
		if c.n >= c.k {
			c.fired = true
			c.cause(errHarnessCause)
			close(c.done)
		}
	}
	if c.fired {
		return context.Canceled
	}
	return nil
}
func (c *cancelCtx) polls() int64 { <-c.mu; defer func() { c.mu <- struct{}{} }(); return c.n }

type sweepCount struct{ Polls, Runs, Partial, Leaked, Modified, Slow int }

func settleGoroutines(base int) bool {
	for i := 0; i < 200; i++ {
		if runtime.NumGoroutine() <= base {
			return true
		}
		time.Sleep(500 * time.Microsecond)
	}
	return false
}

type c07Op struct {
	Op string `json:"op"` // mulvec, transpose, mmap
	M  Mat    `json:"m"`
	V  Vec    `json:"v"`
}

func genC07(r *Rng, tier string) []*Case {
	var cs []*Case
	for _, dim := range []int{3, 8, 40} {
		m := Mat{Major: dim, Minor: dim, Rows: make([][]Ent, dim)}
		for i := range m.Rows {
			m.Rows[i] = []Ent{{I: i, V: 1}}
			if (i+1)%dim != i {
				m.Rows[i] = append(m.Rows[i], Ent{I: (i + 1) % dim, V: 2})
				if m.Rows[i][0].I > m.Rows[i][1].I {
					m.Rows[i][0], m.Rows[i][1] = m.Rows[i][1], m.Rows[i][0]
				}
			}
		}
		v := Vec{Dim: dim}
		for i := 0; i < dim; i++ {
			v.Ents = append(v.Ents, Ent{I: i, V: JFloat(i + 1)})
		}
		cs = append(cs, mk("OpSweep", c07Op{Op: "mulvec", M: m, V: v}))
		cs = append(cs, mk("OpSweep", c07Op{Op: "transpose", M: m}))
		cs = append(cs, mk("OpSweep", c07Op{Op: "mmap", M: m}))
	}
	nc := 4
	if tier != "quick" {
		nc = 30
	}
	for k := 0; k < nc; k++ {
		n := 2 + r.Intn(6)
		c, p, _ := randGraph(r, n)
		cc, pc, err := canonInputs(c, p)
		if err != nil {
			continue
		}
		in := ComputeIn{C: cc, P: pc, A: 0.5, E: 1e-3, Fuel: 400, WatchdogMs: 20000}
		switch k % 4 {
		case 1:
			in.Max = ip(2 + r.Intn(4)) // with an iteration limit
		case 2:
			t0 := canonVec(Vec{Dim: n, Ents: sortedSpan(r, n, 60, 0, r.Pos)})
			in.T0 = &t0
			in.ResultDim = ip(n) // caller-supplied result vector
		case 3: // as the gRPC server does: the same vector as start and result
			t0 := canonVec(Vec{Dim: n, Ents: sortedSpan(r, n, 60, 0, r.Pos)})
			in.T0 = &t0
			in.ResultDim = ip(-1) // marker: WithResultIn(t0) on the very same object
		}
		cs = append(cs, mk("ComputeSweep", in))
	}
	return cs
}

func runC07(c *Case) error {
	old := runtime.GOMAXPROCS(0)
	defer runtime.GOMAXPROCS(old)
	var cnt sweepCount
	switch c.Kind {
	case "OpSweep":
		var in c07Op
		c.decode(&in)
		opn := map[string]int{"mulvec": 1, "transpose": 2, "mmap": 3}[in.Op]
		m := in.M.csr()
		switch in.Op {
		case "mulvec":
			v1 := in.V.sparse()
			var full sparse.Vector
			cc := newCancelCtx(1<<60, 0)
			if err := full.MulVec(cc, m, v1); err != nil {
				return err
			}
			cnt.Polls = int(cc.polls())
			base := runtime.NumGoroutine()
			for _, procs := range []int{2, 8} {
				runtime.GOMAXPROCS(procs)
				for _, delay := range []time.Duration{0, 300 * time.Microsecond} {
					for k := int64(1); k <= int64(cnt.Polls)+1; k++ {
						ctx := newCancelCtx(k, delay)
						recv := sparse.Vector{Dim: 77, Entries: []sparse.Entry{{Index: 5, Value: 5}}}
						before := vecOf(&recv)
						start := time.Now()
						err := recv.MulVec(ctx, m, v1)
						if time.Since(start) > 2*time.Second {
							cnt.Slow++
						}
						cnt.Runs++
						switch {
						case err == nil && !reflect.DeepEqual(recv, full):
							cnt.Partial++
						case err != nil && err != context.Canceled:
							cnt.Partial++
						case err != nil && !sameVec(before, &recv):
							cnt.Modified++ // receiver touched although the call failed
						}
						if !sameMat(in.M, &m.CSMatrix) || !sameVec(in.V, v1) {
							cnt.Modified++
						}
					}
					if !settleGoroutines(base) {
						cnt.Leaked++
					}
				}
			}
		case "transpose":
			cc := newCancelCtx(1<<60, 0)
			full, err := m.Transpose(cc)
			if err != nil {
				return err
			}
			cnt.Polls = int(cc.polls())
			for k := int64(1); k <= int64(cnt.Polls)+1; k++ {
				ctx := newCancelCtx(k, 0)
				mt, err := m.Transpose(ctx)
				cnt.Runs++
				switch {
				case err == nil && !reflect.DeepEqual(matOf(&mt.CSMatrix), matOf(&full.CSMatrix)):
					cnt.Partial++
				case err != nil && (mt != nil || err != context.Canceled):
					cnt.Partial++
				}
				if !sameMat(in.M, &m.CSMatrix) {
					cnt.Modified++
				}
			}
		case "mmap":
			dir := os.Getenv("TMPDIR")
			cc := newCancelCtx(1<<60, 0)
			mm := in.M.csr()
			if err := mm.Mmap(cc); err != nil {
				return err
			}
			cnt.Polls = int(cc.polls())
			_ = mm.Munmap()
			for k := int64(1); k <= int64(cnt.Polls)+1; k++ {
				mm := in.M.csr()
				ctx := newCancelCtx(k, 0)
				err := mm.Mmap(ctx)
				cnt.Runs++
				if err != nil && err != context.Canceled {
					cnt.Partial++
				}
				// success or failure: contents intact and the matrix usable
				if !sameMat(in.M, &mm.CSMatrix) {
					cnt.Modified++
				}
				if err != nil { // a failed swap-out must leave no mapping behind ...
					if len(csmMappingsOf(mm)) != 0 {
						cnt.Leaked++
					}
					if e2 := mm.Mmap(context.Background()); e2 != nil || !sameMat(in.M, &mm.CSMatrix) { // ... and the matrix usable
						cnt.Modified++
					}
				}
				_ = mm.Munmap()
				if ents, _ := os.ReadDir(dir); len(ents) != 0 {
					cnt.Leaked++
					for _, e := range ents {
						os.Remove(dir + "/" + e.Name())
					}
				}
			}
			// the same sweep over a re-swap: swapped out, one row replaced on the heap (dirty), swapped out again
			// under cancellation.  A failed re-swap must leave the matrix on its old mapping, still mapped.
			first := -1
			for i, row := range in.M.csr().Entries {
				if len(row) > 0 {
					first = i
					break
				}
			}
			for k := int64(1); first >= 0 && k <= int64(cnt.Polls)+1; k++ {
				mm := in.M.csr()
				if err := mm.Mmap(context.Background()); err != nil {
					return err
				}
				old := csmMappingsOf(mm)
				mm.Entries[first] = append([]sparse.Entry(nil), mm.Entries[first]...)
				err := mm.Mmap(newCancelCtx(k, 0))
				cnt.Runs++
				if err != nil && err != context.Canceled {
					cnt.Partial++
				}
				dangling := false
				if err != nil {
					now := allCsmMappings()
					for _, o := range old {
						found := false
						for _, r := range now {
							if r == o {
								found = true
							}
						}
						if !found {
							dangling = true // rows still point into a region that was unmapped
						}
					}
				}
				if dangling {
					cnt.Modified++
					mm.Entries = nil // do not touch the rows again
				} else if !sameMat(in.M, &mm.CSMatrix) {
					cnt.Modified++
				}
				if !dangling {
					_ = mm.Munmap()
				}
				if ents, _ := os.ReadDir(dir); len(ents) != 0 {
					cnt.Leaked++
					for _, e := range ents {
						os.Remove(dir + "/" + e.Name())
					}
				}
			}
		}
		c.setObs(cnt)
		c.coq = fmt.Sprintf("OpSweep %d %d %d %d %d %d %d", opn, cnt.Polls, cnt.Runs, cnt.Partial, cnt.Leaked, cnt.Modified, cnt.Slow)
		c.Nontrivial = cnt.Runs > 3
		c.Tags = []string{"op:" + in.Op, fmt.Sprintf("polls:%d", bucket(cnt.Polls))}
	case "ComputeSweep":
		var in ComputeIn
		c.decode(&in)
		sameObj := in.ResultDim != nil && *in.ResultDim == -1
		plain := in
		if sameObj {
			plain.ResultDim = nil
		}
		und := runCompute(context.Background(), &plain)
		if und.Kind != "done" {
			return fmt.Errorf("undisturbed run did not finish: %+v", und)
		}
		build := func() (*sparse.Matrix, *sparse.Vector, *sparse.Vector, *sparse.Vector, []basic.ComputeOpt) {
			cm, pv := in.C.csr(), in.P.sparse()
			var t0, res *sparse.Vector
			var opts []basic.ComputeOpt
			if in.T0 != nil {
				t0 = in.T0.sparse()
				opts = append(opts, basic.WithInitialTrust(t0))
			}
			if sameObj {
				res = t0
				opts = append(opts, basic.WithResultIn(t0))
			} else if in.ResultDim != nil {
				res = &sparse.Vector{Dim: *in.ResultDim, Entries: []sparse.Entry{{Index: 0, Value: 42}}}
				opts = append(opts, basic.WithResultIn(res))
			}
			if in.Max != nil {
				opts = append(opts, basic.WithMaxIterations(*in.Max))
			}
			return cm, pv, t0, res, opts
		}
		cm, pv, _, _, opts := build()
		cc := newCancelCtx(1<<60, 0)
		if _, err := basic.Compute(cc, cm, pv, float64(in.A), float64(in.E), opts...); err != nil {
			return err
		}
		cnt.Polls = int(cc.polls())
		base := runtime.NumGoroutine()
		step := int64(1)
		if cnt.Polls > 1500 {
			step = int64(cnt.Polls / 1500)
		}
		for _, procs := range []int{4, 16} {
			runtime.GOMAXPROCS(procs)
			for k := int64(1); k <= int64(cnt.Polls)+1; k += step {
				cm, pv, t0, res, opts := build()
				var resBefore Vec
				if res != nil {
					resBefore = vecOf(res)
				}
				ctx := newCancelCtx(k, 0)
				start := time.Now()
				t, err := basic.Compute(ctx, cm, pv, float64(in.A), float64(in.E), opts...)
				if time.Since(start) > 2*time.Second {
					cnt.Slow++
				}
				cnt.Runs++
				switch {
				case err == nil && !sameVec(*und.T, t):
					cnt.Partial++
				case err != nil && (t != nil || err != context.Canceled):
					cnt.Partial++
				}
				if err != nil && res != nil && !sameVec(resBefore, res) {
					cnt.Modified++ // caller-supplied result vector written although the call failed
				}
				if !sameMat(in.C, &cm.CSMatrix) || !sameVec(in.P, pv) || (t0 != nil && !sameObj && !sameVec(*in.T0, t0)) {
					cnt.Modified++
				}
			}
			if !settleGoroutines(base) {
				cnt.Leaked++
			}
		}
		c.setObs(cnt)
		c.coq = fmt.Sprintf("ComputeSweep (%s) %d %d %d %d %d %d", coqCompute(&plain, &und), cnt.Polls, cnt.Runs, cnt.Partial, cnt.Leaked, cnt.Modified, cnt.Slow)
		c.Nontrivial = cnt.Runs > 10
		c.Tags = []string{fmt.Sprintf("polls:%d", bucket(cnt.Polls)), fmt.Sprintf("result-in:%v", in.ResultDim != nil)}
	default:
		return fmt.Errorf("unknown kind %s", c.Kind)
	}
	return nil
}

func init() { register(&Family{ID: "C07", Import: "Corr.C07", Gen: genC07, Run: runC07}) }

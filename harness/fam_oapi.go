package main

import (
	"context"
	"encoding/json"
	"fmt"
	"io"
	"net/http/httptest"
	"os"
	"path/filepath"
	"strconv"
	"strings"

	"github.com/labstack/echo/v4"
	"github.com/labstack/echo/v4/middleware"
	"k3l.io/go-eigentrust/pkg/api/openapi"
	oapiserver "k3l.io/go-eigentrust/pkg/basic/server/oapi"
)

// OpenAPI server families: C03 (compute), C13 (store histories), C14 (isolation).

type IMat struct {
	Size int   `json:"size"`
	Es   []Coo `json:"es"`
}
type IVec struct {
	Size int   `json:"size"`
	Es   []Ent `json:"es"`
}
type MRef struct {
	Kind string `json:"kind"` // inline, stored, file (objectstorage file:// reference to a CSV with this text), other
	M    *IMat  `json:"m,omitempty"`
	ID   int    `json:"id,omitempty"`
	Text string `json:"text,omitempty"`
}
type VRef struct {
	Kind string `json:"kind"` // inline, file, other
	V    *IVec  `json:"v,omitempty"`
	Text string `json:"text,omitempty"`
}

// file references: the CSV text is written under the run's scratch directory when the request is rendered
var (
	refDir string
	refSeq int
)

func refFile(text string) string {
	if refDir == "" {
		d, err := os.MkdirTemp(gOutDir, "refs-")
		if err != nil {
			panic(err)
		}
		refDir = d
	}
	refSeq++
	p := filepath.Join(refDir, fmt.Sprintf("ref-%d.csv", refSeq))
	if err := os.WriteFile(p, []byte(text), 0o644); err != nil {
		panic(err)
	}
	return fmt.Sprintf(`{"scheme":"objectstorage","url":"file://%s"}`, p)
}

type OReq struct {
	Local   MRef     `json:"local"`
	Initial *VRef    `json:"initial,omitempty"`
	Pre     *VRef    `json:"pre,omitempty"`
	Alpha   *JFloat  `json:"alpha,omitempty"`
	Eps     *JFloat  `json:"eps,omitempty"`
	FT      *int     `json:"ft,omitempty"`
	NL      *int     `json:"nl,omitempty"`
	Max     *int     `json:"max,omitempty"`
	Min     *int     `json:"min,omitempty"`
	Freq    *int     `json:"freq,omitempty"`
	Setup   []IMat   `json:"setup,omitempty"` // stored under ids m0, m1, ... before the request
	Extra   []string `json:"-"`
}

func newOapiServer() *echo.Echo {
	e := echo.New()
	e.HideBanner = true
	e.Use(middleware.RequestID(), middleware.CORS())
	srv, err := oapiserver.NewStrictServerImpl(context.Background())
	if err != nil {
		panic(err)
	}
	srv.UseFileURI = true // as `eigentrust serve --use-file-uri`: objectstorage file:// references are loaded
	openapi.RegisterHandlersWithBaseURL(e, openapi.NewStrictHandler(srv, nil), "/basic/v1")
	return e
}

type httpResp struct {
	Code  int
	Body  string
	Panic string
	Hang  bool `json:",omitempty"` // the watchdog (fuel context) fired
}

func httpDo(e *echo.Echo, method, path, body string) (r httpResp) {
	defer func() {
		if p := recover(); p != nil {
			r.Panic = fmt.Sprint(p)
		}
	}()
	req := httptest.NewRequest(method, path, strings.NewReader(body))
	if body != "" {
		req.Header.Set("Content-Type", "application/json")
	}
	rec := httptest.NewRecorder()
	e.ServeHTTP(rec, req)
	b, _ := io.ReadAll(rec.Body)
	return httpResp{Code: rec.Code, Body: string(b)}
}

func jf(x float64) string { return strconv.FormatFloat(x, 'g', -1, 64) }

func (m IMat) json() string {
	var sb strings.Builder
	fmt.Fprintf(&sb, `{"scheme":"inline","size":%d,"entries":[`, m.Size)
	for i, e := range m.Es {
		if i > 0 {
			sb.WriteString(",")
		}
		fmt.Fprintf(&sb, `{"i":%d,"j":%d,"v":%s}`, e.R, e.C, jf(float64(e.V)))
	}
	sb.WriteString("]}")
	return sb.String()
}
func (v IVec) json() string {
	var sb strings.Builder
	fmt.Fprintf(&sb, `{"scheme":"inline","size":%d,"entries":[`, v.Size)
	for i, e := range v.Es {
		if i > 0 {
			sb.WriteString(",")
		}
		fmt.Fprintf(&sb, `{"i":%d,"v":%s}`, e.I, jf(float64(e.V)))
	}
	sb.WriteString("]}")
	return sb.String()
}
func (r MRef) json() string {
	switch r.Kind {
	case "inline":
		return r.M.json()
	case "stored":
		return fmt.Sprintf(`{"scheme":"stored","id":"m%d"}`, r.ID)
	case "file":
		return refFile(r.Text)
	}
	return `{"scheme":"bogus"}`
}
func (r VRef) json() string {
	switch r.Kind {
	case "inline":
		return r.V.json()
	case "file":
		return refFile(r.Text)
	}
	return `{"scheme":"bogus"}`
}
func (q OReq) json() string {
	parts := []string{`"localTrust":` + q.Local.json()}
	if q.Initial != nil {
		parts = append(parts, `"initialTrust":`+q.Initial.json())
	}
	if q.Pre != nil {
		parts = append(parts, `"preTrust":`+q.Pre.json())
	}
	if q.Alpha != nil {
		parts = append(parts, `"alpha":`+jf(float64(*q.Alpha)))
	}
	if q.Eps != nil {
		parts = append(parts, `"epsilon":`+jf(float64(*q.Eps)))
	}
	for _, o := range []struct {
		n string
		v *int
	}{{"flatTail", q.FT}, {"numLeaders", q.NL}, {"maxIterations", q.Max}, {"minIterations", q.Min}, {"checkFreq", q.Freq}} {
		if o.v != nil {
			parts = append(parts, fmt.Sprintf(`"%s":%d`, o.n, *o.v))
		}
	}
	return "{" + strings.Join(parts, ",") + "}"
}

// Coq renderings
func (m IMat) coq() string {
	var es []string
	for _, e := range m.Es {
		es = append(es, fmt.Sprintf("m3 %s %s %s", zlit(e.R), zlit(e.C), cf(float64(e.V))))
	}
	return fmt.Sprintf("(CIM %s %s)", zlit(m.Size), cList(es))
}
func (v IVec) coq() string {
	var es []string
	for _, e := range v.Es {
		es = append(es, fmt.Sprintf("v2 %s %s", zlit(e.I), cf(float64(e.V))))
	}
	return fmt.Sprintf("(CIV %s %s)", zlit(v.Size), cList(es))
}
func zlit(n int) string {
	if n < 0 {
		return fmt.Sprintf("(%d)", n)
	}
	return fmt.Sprint(n)
}
func (r MRef) coq() string {
	switch r.Kind {
	case "inline":
		return "(RInline " + r.M.coq() + ")"
	case "stored":
		return fmt.Sprintf("(RStored %d)", r.ID)
	case "file":
		return "(RFile " + cCsv(r.Text) + ")"
	}
	return "ROther"
}
func (r *VRef) coq() string {
	if r == nil {
		return "None"
	}
	switch r.Kind {
	case "inline":
		return "(Some (VIn " + r.V.coq() + "))"
	case "file":
		return "(Some (VFile " + cCsv(r.Text) + "))"
	}
	return "(Some VOth)"
}
func optF(p *JFloat) string {
	if p == nil {
		return "None"
	}
	return "(fs " + cf(float64(*p)) + ")"
}
func optZo(p *int) string {
	if p == nil {
		return "None"
	}
	return "(zo " + zlit(*p) + ")"
}
func (q OReq) coq() string {
	return fmt.Sprintf("(CQ %s %s %s %s %s %s %s %s %s %s)", q.Local.coq(), q.Initial.coq(), q.Pre.coq(), optF(q.Alpha), optF(q.Eps),
		optZo(q.FT), optZo(q.NL), optZo(q.Max), optZo(q.Min), optZo(q.Freq))
}
func coqSetup(ms []IMat) string {
	var ss []string
	for i, m := range ms {
		ss = append(ss, fmt.Sprintf("(%d%%N, %s)", i, m.coq()))
	}
	return cList(ss)
}

type scoreBody struct {
	Entries []struct {
		I int     `json:"i"`
		V float64 `json:"v"`
	} `json:"entries"`
	Size   int    `json:"size"`
	Scheme string `json:"scheme"`
}

func coqScores(r httpResp, withStats bool) (string, string) {
	if r.Panic != "" {
		return "CPanic", "None"
	}
	if r.Hang {
		return "CHang", "None"
	}
	switch r.Code {
	case 200:
		var sb scoreBody
		stats := "None"
		if withStats {
			var ws struct {
				EigenTrust    scoreBody `json:"eigenTrust"`
				FlatTailStats struct {
					DeltaNorm float64 `json:"deltaNorm"`
					Length    int     `json:"length"`
					Ranking   []int   `json:"ranking"`
					Threshold int     `json:"threshold"`
				} `json:"flatTailStats"`
			}
			if err := json.Unmarshal([]byte(r.Body), &ws); err != nil {
				return "(COther 299)", "None"
			}
			sb = ws.EigenTrust
			var rk []string
			for _, i := range ws.FlatTailStats.Ranking {
				rk = append(rk, fmt.Sprintf("%d%%N", i))
			}
			stats = fmt.Sprintf("(Some (CS %d %d %s %s))", ws.FlatTailStats.Length, ws.FlatTailStats.Threshold, cf(ws.FlatTailStats.DeltaNorm), cList(rk))
		} else if err := json.Unmarshal([]byte(r.Body), &sb); err != nil {
			return "(COther 299)", "None"
		}
		var es []Ent
		for _, e := range sb.Entries {
			es = append(es, Ent{I: e.I, V: JFloat(e.V)})
		}
		return fmt.Sprintf("(C200 %d %s)", sb.Size, cEnts(es)), stats
	case 400:
		return "C400", "None"
	case 500:
		return "C500", "None"
	}
	return fmt.Sprintf("(COther %d)", r.Code), "None"
}

func putSetup(e *echo.Echo, ms []IMat) error {
	for i, m := range ms {
		r := httpDo(e, "PUT", fmt.Sprintf("/basic/v1/local-trust/m%d", i), m.json())
		if r.Code != 201 && r.Code != 200 {
			return fmt.Errorf("setup PUT m%d -> %d %s %s", i, r.Code, r.Body, r.Panic)
		}
	}
	return nil
}

// ---- generators ----

// reqMat: a local trust matrix with distinct coordinates; peers with no / zero /
// negative-only outgoing trust occur.
func reqMat(r *Rng, n int) IMat {
	m := IMat{Size: n}
	for i := 0; i < n; i++ {
		mode := r.Intn(6)
		if r.Chance(6) {
			mode = 6 // a row whose weights (and their sum) lie below 2^-1022: 1/sum is not representable
		}
		for j := 0; j < n; j++ {
			if !r.Chance(45) {
				continue
			}
			v := r.Pos()
			switch mode {
			case 0: // no outgoing trust
				continue
			case 1: // negative only
				v = -v
			case 2: // mixed signs
				if r.Bool() {
					v = -v
				}
			case 3: // explicit zero (dropped by the loader)
				if r.Chance(30) {
					v = 0
				}
			case 6:
				v = []float64{5e-324, 1.5e-323, 1e-320, 3e-315, 1e-310}[r.Intn(5)]
			}
			m.Es = append(m.Es, Coo{R: i, C: j, V: JFloat(v)})
		}
	}
	p := r.Perm(len(m.Es))
	out := make([]Coo, len(m.Es))
	for i, k := range p {
		out[i] = m.Es[k]
	}
	m.Es = out
	return m
}
func reqVec(r *Rng, n int) IVec {
	v := IVec{Size: n}
	tiny := r.Chance(5) // a vector whose sum lies below 2^-1022
	for i := 0; i < n; i++ {
		if r.Chance(60) {
			x := r.Pos()
			if tiny {
				x = []float64{5e-324, 1.5e-323, 1e-320, 3e-315, 1e-310}[r.Intn(5)]
			}
			v.Es = append(v.Es, Ent{I: i, V: JFloat(x)})
		}
	}
	if r.Bool() { // clients need not list the entries in index order
		p := r.Perm(len(v.Es))
		out := make([]Ent, len(v.Es))
		for i, k := range p {
			out[i] = v.Es[k]
		}
		v.Es = out
	}
	return v
}

// matCsv / vecCsv: the server-side CSV form of an inline collection (header i,j,v / i,v), optionally damaged
func matCsv(r *Rng, m IMat, damage bool) string {
	var sb strings.Builder
	sb.WriteString("i,j,v\n")
	for _, e := range m.Es {
		fmt.Fprintf(&sb, "%d,%d,%s\n", e.R, e.C, jf(float64(e.V)))
	}
	return damageCsv(r, sb.String(), damage, "i,j,v")
}
func vecCsv(r *Rng, v IVec, damage bool) string {
	var sb strings.Builder
	sb.WriteString("i,v\n")
	for _, e := range v.Es {
		fmt.Fprintf(&sb, "%d,%s\n", e.I, jf(float64(e.V)))
	}
	return damageCsv(r, sb.String(), damage, "i,v")
}
func damageCsv(r *Rng, t string, damage bool, header string) string {
	if !damage {
		return t
	}
	switch r.Intn(9) {
	case 0:
		return strings.Replace(t, header, strings.ToUpper(header), 1)
	case 1:
		return strings.TrimPrefix(t, header+"\n")
	case 2:
		return t + "-1" + strings.Repeat(",0", strings.Count(header, ",")) + "\n"
	case 3:
		return t + "0" + strings.Repeat(",1", strings.Count(header, ",")+1) + "\n" // one field too many
	case 4:
		return t + "\"0,1,2\n" // unterminated quote
	case 5:
		return header + "\n"
	case 6:
		return ""
	case 7:
		return t + "x" + strings.Repeat(",1", strings.Count(header, ",")) + "\n"
	default:
		return t + "0" + strings.Repeat(",nope", strings.Count(header, ",")) + "\n"
	}
}

func genC03(r *Rng, tier string) []*Case {
	var cs []*Case
	reps := 6
	if tier != "quick" {
		reps = 60
	}
	for rep := 0; rep < reps; rep++ {
		for pat := 0; pat < 32; pat++ { // all presence patterns of the five optional parts
			n := 1 + r.Intn(7)
			q := OReq{}
			lm := reqMat(r, n)
			if r.Chance(25) {
				q.Setup = []IMat{lm}
				q.Local = MRef{Kind: "stored", ID: 0}
			} else if r.Chance(12) {
				q.Local = MRef{Kind: "file", Text: matCsv(r, lm, r.Chance(30))}
			} else {
				q.Local = MRef{Kind: "inline", M: &lm}
			}
			rel := func() int { return []int{n, n, r.Intn(n + 1), n + 1 + r.Intn(3)}[r.Intn(4)] } // =, <, >
			if pat&1 != 0 {
				v := reqVec(r, rel())
				if r.Chance(10) {
					v.Es = nil // all-zero pre-trust = uniform
				}
				q.Pre = &VRef{Kind: "inline", V: &v}
				if r.Chance(10) {
					q.Pre = &VRef{Kind: "file", Text: vecCsv(r, v, r.Chance(30))}
				}
			}
			if pat&2 != 0 {
				v := reqVec(r, rel())
				q.Initial = &VRef{Kind: "inline", V: &v}
			}
			if pat&4 != 0 {
				a := JFloat([]float64{0.1, 0.2, 0.5, 0.85, 1}[r.Intn(5)])
				q.Alpha = &a
			}
			if pat&8 != 0 {
				e := JFloat([]float64{1e-3, 1e-5, 1e-7, 1}[r.Intn(4)])
				q.Eps = &e
			}
			if pat&16 != 0 {
				switch r.Intn(6) {
				case 0:
					q.Max = ip(r.Intn(15))
					if r.Chance(25) {
						q.Max = ip(0) // an explicit 0 means "no limit", exactly like an absent value
					}
				case 1:
					q.Freq, q.Min = ip(1+r.Intn(3)), ip(1+r.Intn(5))
				case 2:
					q.FT, q.NL = ip(r.Intn(3)), ip(r.Intn(n+2))
				case 3: // numLeaders without flatTail (the ranking of the statistics still follows it)
					q.NL = ip(1 + r.Intn(n+1))
				case 4: // flatTail without numLeaders
					q.FT = ip(1 + r.Intn(3))
				default:
					q.Max, q.Min = ip(3+r.Intn(5)), ip(1+r.Intn(3))
				}
			}
			cs = append(cs, mk("ComputeReq", q))
		}
	}
	// malformed-but-well-typed requests: every documented constraint violated once
	n := 3
	lm := reqMat(r, n)
	base := func() OReq { m := lm; return OReq{Local: MRef{Kind: "inline", M: &m}} }
	bad := []func(q *OReq){
		func(q *OReq) { q.Local.M = &IMat{Size: 0} },
		func(q *OReq) { q.Local.M = &IMat{Size: -2} },
		func(q *OReq) { q.Local.M = &IMat{Size: 2, Es: []Coo{{R: 2, C: 0, V: 1}}} },
		func(q *OReq) { q.Local.M = &IMat{Size: 2, Es: []Coo{{R: 0, C: -1, V: 1}}} },
		func(q *OReq) { q.Local = MRef{Kind: "other"} },
		func(q *OReq) { q.Local = MRef{Kind: "stored", ID: 7} },
		func(q *OReq) { q.Pre = &VRef{Kind: "inline", V: &IVec{Size: 3, Es: []Ent{{I: 3, V: 1}}}} },
		func(q *OReq) { q.Pre = &VRef{Kind: "inline", V: &IVec{Size: 3, Es: []Ent{{I: 0, V: -1}}}} },
		func(q *OReq) { q.Pre = &VRef{Kind: "inline", V: &IVec{Size: 3, Es: []Ent{{I: 0, V: 0}}}} },
		func(q *OReq) { q.Pre = &VRef{Kind: "other"} },
		func(q *OReq) { q.Initial = &VRef{Kind: "inline", V: &IVec{Size: -1}} },
		func(q *OReq) { a := JFloat(-0.1); q.Alpha = &a }, func(q *OReq) { a := JFloat(1.5); q.Alpha = &a },
		func(q *OReq) { e := JFloat(0); q.Eps = &e }, func(q *OReq) { e := JFloat(1.5); q.Eps = &e },
		func(q *OReq) { q.Max = ip(-1) }, func(q *OReq) { q.Min = ip(0) }, func(q *OReq) { q.Freq = ip(0) },
		func(q *OReq) { q.NL = ip(-1) }, func(q *OReq) { q.FT = ip(-1) },
		func(q *OReq) { a := JFloat(0); q.Alpha = &a; q.Max = ip(5) },
	}
	for _, f := range bad {
		q := base()
		f(&q)
		cs = append(cs, mk("ComputeReq", q))
	}
	return cs
}

func runC03(c *Case) error {
	var q OReq
	c.decode(&q)
	e := newOapiServer()
	if err := putSetup(e, q.Setup); err != nil {
		return err
	}
	body := q.json()
	// the watchdog is the exact counterpart of the model's fuel (1500 iterations of Compute's own loop)
	r1 := httpDoFuel(e, "POST", "/basic/v1/compute", body, "application/json", 1500)
	r2 := httpDoFuel(e, "POST", "/basic/v1/compute-with-stats", body, "application/json", 1500)
	s1, _ := coqScores(r1, false)
	s2, st := coqScores(r2, true)
	c.setObs(map[string]interface{}{"compute": r1, "with_stats": r2})
	c.coq = fmt.Sprintf("ComputeReq %s %s %s %s %s", coqSetup(q.Setup), q.coq(), s1, s2, st)
	c.Nontrivial = r1.Code == 200
	c.Tags = []string{fmt.Sprintf("status:%d", r1.Code), fmt.Sprintf("pre:%v initial:%v alpha:%v eps:%v opts:%v",
		q.Pre != nil, q.Initial != nil, q.Alpha != nil, q.Eps != nil, q.Max != nil || q.Min != nil || q.Freq != nil || q.FT != nil || q.NL != nil)}
	return nil
}

func init() {
	register(&Family{ID: "C03", Import: "Corr.C03", Gen: genC03, Run: runC03})
	// the same requests judged by C02's clause: the scores of an accepted compute form a distribution
	register(&Family{ID: "C02o", Import: "Corr.C02o", Gen: genC03, Run: runC03})
}

package main

import (
	"context"
	"fmt"
	"math"
	"math/big"
	"sort"
)

// C01: converged scores vs an exact rational fixed point; C02: distribution for every budget.

func ratOf(x float64) *big.Rat { return new(big.Rat).SetFloat64(x) }

// exactFixedPoint solves s = (1-a) C^T s + a p over the rationals (Gaussian elimination).
func exactFixedPoint(c Mat, p Vec, a float64) []*big.Rat {
	n := c.Major
	q := new(big.Rat).Sub(big.NewRat(1, 1), ratOf(a))
	// A = I - q C^T ; b = a p
	A := make([][]*big.Rat, n)
	b := make([]*big.Rat, n)
	for j := 0; j < n; j++ {
		A[j] = make([]*big.Rat, n)
		for i := 0; i < n; i++ {
			A[j][i] = new(big.Rat)
		}
		A[j][j].SetInt64(1)
		b[j] = new(big.Rat)
	}
	for i, row := range c.Rows {
		for _, e := range row {
			// C_ij contributes to equation j with coefficient -q*C_ij on s_i
			t := new(big.Rat).Mul(q, ratOf(float64(e.V)))
			A[e.I][i].Sub(A[e.I][i], t)
		}
	}
	for _, e := range p.Ents {
		b[e.I].Mul(ratOf(a), ratOf(float64(e.V)))
	}
	for col := 0; col < n; col++ {
		piv := -1
		for r := col; r < n; r++ {
			if A[r][col].Sign() != 0 {
				piv = r
				break
			}
		}
		if piv < 0 {
			return nil
		}
		A[col], A[piv] = A[piv], A[col]
		b[col], b[piv] = b[piv], b[col]
		inv := new(big.Rat).Inv(A[col][col])
		for r := 0; r < n; r++ {
			if r == col || A[r][col].Sign() == 0 {
				continue
			}
			f := new(big.Rat).Mul(A[r][col], inv)
			for cc := col; cc < n; cc++ {
				A[r][cc].Sub(A[r][cc], new(big.Rat).Mul(f, A[col][cc]))
			}
			b[r].Sub(b[r], new(big.Rat).Mul(f, b[col]))
		}
	}
	s := make([]*big.Rat, n)
	for i := 0; i < n; i++ {
		s[i] = new(big.Rat).Quo(b[i], A[i][i])
	}
	return s
}

func cQ(r *big.Rat) string {
	num, den := r.Num(), r.Denom()
	if num.Sign() < 0 {
		return fmt.Sprintf("((%s) # %s)%%Q", num.String(), den.String())
	}
	return fmt.Sprintf("(%s # %s)%%Q", num.String(), den.String())
}

func genComputeCases(r *Rng, tier string, forC02 bool) []*Case {
	var cs []*Case
	reps := 150
	if tier != "quick" {
		reps = 3000
	}
	for k := 0; k < reps; k++ {
		n := 1 + r.Intn(10)
		if tier != "quick" && r.Chance(20) {
			n = 10 + r.Intn(30)
			if !forC02 {
				// C01's per-case rational certificate (exact fixed point, checked by the kernel) grows
				// quickly with the dimension: 18 peers keep a shard in minutes
				n = 10 + r.Intn(9)
			}
		}
		c, p, kind := randGraph(r, n)
		if forC02 && (k < 2 || (tier != "quick" && k%100 == 0)) {
			// many newcomers: more than 32 peers that nobody trusts (their rows of C^T*t are zero products)
			// around a small core, in a graph wider than MulVec's worker pool
			n = 40 + r.Intn(30)
			if k == 1 || (tier != "quick" && k%200 == 0) {
				n = 257 + 2*r.Intn(70) // odd and beyond 256 rows: no chunking of the rows may lose the tail
			}
			core := 3 + r.Intn(4)
			c = Mat{Major: n, Minor: n, Rows: make([][]Ent, n)}
			for i := 0; i < n; i++ {
				seen := map[int]bool{}
				for t := 0; t < 1+r.Intn(2); t++ {
					j := r.Intn(core)
					if !seen[j] {
						seen[j] = true
						c.Rows[i] = append(c.Rows[i], Ent{I: j, V: JFloat(r.Pos())})
					}
				}
				es := c.Rows[i]
				if len(es) == 2 && es[0].I > es[1].I {
					es[0], es[1] = es[1], es[0]
				}
			}
			// a few trusted peers at high indices, so that rows after the 32nd zero product matter
			for t := 0; t < 3; t++ {
				i, j := r.Intn(core), n-1-r.Intn(5)
				dup := false
				for _, e := range c.Rows[i] {
					dup = dup || e.I == j
				}
				if !dup {
					c.Rows[i] = append(c.Rows[i], Ent{I: j, V: JFloat(r.Pos())})
				}
			}
			for i := range c.Rows {
				es := c.Rows[i]
				sort.Slice(es, func(a, b int) bool { return es[a].I < es[b].I })
			}
			p, kind = Vec{Dim: n}, "newcomers"
		}
		for !forC02 && kind == "subnormal" {
			// C01's exact rational certificate is too slow on 2^-1074-scale weights; C02/C05/C06/C18 use them
			c, p, kind = randGraph(r, n)
		}
		cc, pc, err := canonInputs(c, p)
		if err != nil {
			continue
		}
		as := []float64{1, 0.9, 0.5, 0.3, 0.15, 0.1, 0.05}
		a := as[r.Intn(len(as))]
		e := math.Pow(10, -float64(r.Intn(10))) * (0.5 + r.F01())
		if forC02 && r.Chance(15) {
			a = []float64{0, 1}[r.Intn(2)]
		}
		in := ComputeIn{C: cc, P: pc, A: JFloat(a), E: JFloat(e), Fuel: 1200, WatchdogMs: 30000}
		if r.Chance(50) {
			t0 := Vec{Dim: n, Ents: sortedSpan(r, n, r.Pick(40, 80, 100), 0, r.Pos)}
			if !forC02 && r.Chance(25) {
				// a start vector with a short support: empty (all zero) or confined to a low-index prefix, so
				// that the iterates gain entries beyond its highest index
				t0.Ents = nil
				if n > 1 && r.Bool() {
					t0.Ents = sortedSpan(r, 1+r.Intn((n+1)/2), 100, 0, r.Pos)
				}
			}
			if forC02 || r.Chance(50) {
				t0 = canonVec(t0) // C02 needs a canonical start vector; C01 holds for every start vector
			}
			in.T0 = &t0
		}
		switch r.Intn(6) {
		case 0:
			in.Freq = ip(1 + r.Intn(4))
		case 1:
			in.Min = ip(1 + r.Intn(8))
		case 2:
			in.Freq, in.Min = ip(2+r.Intn(3)), ip(1+r.Intn(6))
		case 3:
			if forC02 {
				in.Max = ip(1 + r.Intn(25)) // any iteration budget
			}
		case 4:
			if forC02 {
				m := 1 + r.Intn(12)
				in.Max, in.Min, in.UseWithIt = ip(m), ip(m), true
			}
		}
		if r.Chance(30) {
			in.Repeat = 1 + r.Intn(2)
		}
		if r.Chance(15) {
			in.Reweigh = 1 + r.Intn(2)
		}
		if !forC02 && r.Chance(8) { // out-of-range schedule options must be refused, not "converge" at iteration 0
			in.Freq = ip(1 + r.Intn(3))
			in.Min = ip(-(*in.Freq) * r.Intn(3))
		}
		if a == 0 && in.Max == nil {
			in.Max = ip(1 + r.Intn(30)) // a = 0 need not converge
		}
		cse := mk("Compute", in)
		cse.Tags = []string{"graph:" + kind}
		cs = append(cs, cse)
	}
	return cs
}

func genC01(r *Rng, tier string) []*Case { return genComputeCases(r, tier, false) }
func genC02(r *Rng, tier string) []*Case { return genComputeCases(r, tier, true) }

func runC01(c *Case) error {
	var in ComputeIn
	c.decode(&in)
	tags := c.Tags
	obs := runCompute(context.Background(), &in)
	c.setObs(obs)
	sol := exactFixedPoint(in.C, in.P, float64(in.A))
	var qs []string
	for _, s := range sol {
		qs = append(qs, cQ(s))
	}
	c.coq = fmt.Sprintf("Cert (%s) %s", coqCompute(&in, &obs), cList(qs))
	c.Nontrivial = obs.Kind == "done" && obs.Iters > 1 && in.Max == nil
	c.Tags = append(tags, "outcome:"+obs.Kind)
	if obs.Kind == "done" {
		c.Tags = append(c.Tags, fmt.Sprintf("iterations:%d", bucket(obs.Iters)))
	}
	return nil
}

func runC02(c *Case) error {
	var in ComputeIn
	c.decode(&in)
	tags := c.Tags
	obs := runCompute(context.Background(), &in)
	c.setObs(obs)
	c.coq = coqCompute(&in, &obs)
	c.Nontrivial = obs.Kind == "done" && obs.Iters > 0
	c.Tags = append(tags, "outcome:"+obs.Kind)
	if obs.Kind == "done" {
		c.Tags = append(c.Tags, fmt.Sprintf("iterations:%d", bucket(obs.Iters)), fmt.Sprintf("cut-by-limit:%v", in.Max != nil && obs.Iters == *in.Max))
	}
	return nil
}

func init() {
	register(&Family{ID: "C01", Import: "Corr.C01", Gen: genC01, Run: runC01})
	register(&Family{ID: "C02", Import: "Corr.C02", Gen: genC02, Run: runC02})
}

package main

// Concurrency checks against the real handlers (run under -race by ./check):
//   TestConcStoreLinearizable  (C13): concurrent clients on /local-trust/{id}; the recorded
//       history must be linearizable w.r.t. the sequential map specification (porcupine).
//   TestConcComputeIsolation   (C14): computes on a stored matrix concurrent with PUT /
//       merge / DELETE / GET must each equal the sequential result on one of the versions
//       that existed, and never disturb the store.

import (
	"context"
	"encoding/json"
	"fmt"
	"math/rand"
	"sort"
	"strings"
	"sync"
	"sync/atomic"
	"testing"
	"time"

	"github.com/anishathalye/porcupine"
	"github.com/labstack/echo/v4"
	tmpb "k3l.io/go-eigentrust/pkg/api/pb/trustmatrix"
	tvpb "k3l.io/go-eigentrust/pkg/api/pb/trustvector"
)

type stIn struct {
	Op    string
	ID    int
	Size  int
	Es    []Coo
	Valid bool
	Merge bool
}
type stOut struct {
	Code int
	Body string // canonical "size|i,j,v;..." for GET 200
}

func canonGet(body string) string {
	var gb getBody
	if json.Unmarshal([]byte(body), &gb) != nil {
		return "?"
	}
	var cells []string
	for _, e := range gb.Entries {
		cells = append(cells, fmt.Sprintf("%d,%d,%s", e.I, e.J, hexf(e.V)))
	}
	sort.Strings(cells)
	return fmt.Sprintf("%d|%s", gb.Size, strings.Join(cells, ";"))
}

type absMat struct {
	size  int
	cells map[[2]int]float64
}

func (m *absMat) canon() string {
	var cells []string
	for k, v := range m.cells {
		cells = append(cells, fmt.Sprintf("%d,%d,%s", k[0], k[1], hexf(v)))
	}
	sort.Strings(cells)
	return fmt.Sprintf("%d|%s", m.size, strings.Join(cells, ";"))
}
func parseAbs(s string) *absMat {
	if s == "" {
		return nil
	}
	m := &absMat{cells: map[[2]int]float64{}}
	parts := strings.SplitN(s, "|", 2)
	fmt.Sscan(parts[0], &m.size)
	if len(parts) > 1 && parts[1] != "" {
		for _, c := range strings.Split(parts[1], ";") {
			f := strings.Split(c, ",")
			var i, j int
			fmt.Sscan(f[0], &i)
			fmt.Sscan(f[1], &j)
			var v JFloat
			_ = v.UnmarshalJSON([]byte(`"` + f[2] + `"`))
			m.cells[[2]int{i, j}] = float64(v)
		}
	}
	return m
}

// the sequential specification: state = canonical string of the matrix under one id ("" = absent)
var storeModel = porcupine.Model{
	Partition: func(history []porcupine.Operation) [][]porcupine.Operation {
		by := map[int][]porcupine.Operation{}
		for _, o := range history {
			by[o.Input.(stIn).ID] = append(by[o.Input.(stIn).ID], o)
		}
		var out [][]porcupine.Operation
		for _, v := range by {
			out = append(out, v)
		}
		return out
	},
	Init: func() interface{} { return "" },
	Step: func(state, input, output interface{}) (bool, interface{}) {
		st := state.(string)
		in := input.(stIn)
		out := output.(stOut)
		switch in.Op {
		case "get":
			if st == "" {
				return out.Code == 404, st
			}
			return out.Code == 200 && out.Body == st, st
		case "head":
			if st == "" {
				return out.Code == 404, st
			}
			return out.Code == 204, st
		case "delete":
			if st == "" {
				return out.Code == 404, st
			}
			return out.Code == 204, ""
		case "put":
			if !in.Valid {
				return out.Code == 400, st
			}
			upd := &absMat{size: in.Size, cells: map[[2]int]float64{}}
			for _, e := range in.Es {
				if float64(e.V) != 0 {
					upd.cells[[2]int{e.R, e.C}] = float64(e.V)
				}
			}
			if st == "" {
				return out.Code == 201, upd.canon()
			}
			if !in.Merge {
				return out.Code == 200, upd.canon()
			}
			cur := parseAbs(st)
			if upd.size > cur.size {
				cur.size = upd.size
			}
			for k, v := range upd.cells {
				cur.cells[k] = v
			}
			return out.Code == 200, cur.canon()
		}
		return false, st
	},
	DescribeOperation: func(input, output interface{}) string {
		return fmt.Sprintf("%+v -> %+v", input, output)
	},
}

func TestConcStoreLinearizable(t *testing.T) {
	for round := 0; round < 12; round++ {
		e := newOapiServer()
		var mu sync.Mutex
		var history []porcupine.Operation
		var wg sync.WaitGroup
		clients := 2 + round%6
		for cl := 0; cl < clients; cl++ {
			wg.Add(1)
			go func(cl int) {
				defer wg.Done()
				r := rand.New(rand.NewSource(int64(round*100 + cl)))
				for k := 0; k < 25; k++ {
					id := r.Intn(2)
					in := stIn{ID: id}
					path := fmt.Sprintf("/basic/v1/local-trust/m%d", id)
					var method, body string
					switch r.Intn(8) {
					case 0, 1, 2:
						in.Op, method = "put", "PUT"
						n := 1 + r.Intn(3)
						m := IMat{Size: n}
						for i := 0; i < n; i++ {
							for j := 0; j < n; j++ {
								if r.Intn(2) == 0 {
									m.Es = append(m.Es, Coo{R: i, C: j, V: JFloat(1 + r.Intn(9))})
								}
							}
						}
						in.Valid = true
						if r.Intn(10) == 0 {
							m.Size, in.Valid = 0, false
						}
						in.Size, in.Es, in.Merge = m.Size, m.Es, r.Intn(2) == 0
						body = m.json()
						if in.Merge {
							path += "?merge=true"
						}
					case 3:
						in.Op, method = "delete", "DELETE"
					case 4:
						in.Op, method = "head", "HEAD"
					default:
						in.Op, method = "get", "GET"
					}
					call := time.Now().UnixNano()
					resp := httpDo(e, method, path, body)
					ret := time.Now().UnixNano()
					out := stOut{Code: resp.Code}
					if in.Op == "get" && resp.Code == 200 {
						out.Body = canonGet(resp.Body)
					}
					if resp.Panic != "" {
						out.Code = 999
					}
					mu.Lock()
					history = append(history, porcupine.Operation{ClientId: cl, Input: in, Call: call, Output: out, Return: ret})
					mu.Unlock()
				}
			}(cl)
		}
		wg.Wait()
		res, info := porcupine.CheckOperationsVerbose(storeModel, history, 20*time.Second)
		if res != porcupine.Ok {
			_ = info
			var sb strings.Builder
			sort.Slice(history, func(i, j int) bool { return history[i].Call < history[j].Call })
			for _, o := range history {
				fmt.Fprintf(&sb, "client %d [%d,%d] %+v -> %+v\n", o.ClientId, o.Call, o.Return, o.Input, o.Output)
			}
			t.Fatalf("round %d: history of %d operations by %d clients is not linearizable (%v):\n%s", round, len(history), clients, res, sb.String())
		}
	}
}

// Bursts of identical requests released together: exactly one DELETE of an existing id may
// answer 204, exactly one PUT of an absent id may answer 201.
func TestConcStoreBursts(t *testing.T) {
	e := newOapiServer()
	body := IMat{Size: 2, Es: []Coo{{R: 0, C: 1, V: 1}}}.json()
	for trial := 0; trial < 1500; trial++ {
		for _, kind := range []string{"DELETE", "PUT"} {
			if kind == "DELETE" {
				httpDo(e, "PUT", "/basic/v1/local-trust/b", body)
			} else {
				httpDo(e, "DELETE", "/basic/v1/local-trust/b", "")
			}
			const K = 4
			start := make(chan struct{})
			codes := make([]int, K)
			var wg sync.WaitGroup
			for g := 0; g < K; g++ {
				wg.Add(1)
				go func(g int) {
					defer wg.Done()
					<-start
					if kind == "DELETE" {
						codes[g] = httpDo(e, "DELETE", "/basic/v1/local-trust/b", "").Code
					} else {
						codes[g] = httpDo(e, "PUT", "/basic/v1/local-trust/b", body).Code
					}
				}(g)
			}
			close(start)
			wg.Wait()
			first := 0
			for _, c := range codes {
				if (kind == "DELETE" && c == 204) || (kind == "PUT" && c == 201) {
					first++
				}
			}
			if first != 1 {
				t.Fatalf("trial %d: %d concurrent %s requests on one id answered %v: not equivalent to any sequential order", trial, K, kind, codes)
			}
		}
		// concurrent merges of disjoint entries into a fresh id: every acknowledged entry is there afterwards
		{
			httpDo(e, "DELETE", "/basic/v1/local-trust/f", "")
			const K = 4
			start := make(chan struct{})
			codes := make([]int, K)
			var wg sync.WaitGroup
			for g := 0; g < K; g++ {
				wg.Add(1)
				go func(g int) {
					defer wg.Done()
					<-start
					b := IMat{Size: K, Es: []Coo{{R: g, C: (g + 1) % K, V: JFloat(g + 1)}}}.json()
					codes[g] = httpDo(e, "PUT", "/basic/v1/local-trust/f?merge=true", b).Code
				}(g)
			}
			close(start)
			wg.Wait()
			created := 0
			for _, c := range codes {
				if c == 201 {
					created++
				} else if c != 200 {
					t.Fatalf("trial %d: merge answered %v", trial, codes)
				}
			}
			g := httpDo(e, "GET", "/basic/v1/local-trust/f", "")
			var gb struct {
				Entries []struct {
					I, J int
					V    float64
				} `json:"entries"`
			}
			_ = json.Unmarshal([]byte(g.Body), &gb)
			if created != 1 || len(gb.Entries) != K {
				t.Fatalf("trial %d: %d concurrent merges into a fresh id answered %v but the stored matrix has %d entries (%s): acknowledged updates were lost", trial, K, codes, len(gb.Entries), g.Body)
			}
		}
	}
}

func TestConcComputeIsolation(t *testing.T) {
	for round := 0; round < 8; round++ {
		e := newOapiServer()
		r := rand.New(rand.NewSource(int64(round)))
		rr := NewRng(uint64(round) + 17)
		// the updater cycles through these requests in order; the cycle starts with a replace,
		// so the sequence of stored versions is the same whatever the timing
		type upd struct {
			method, path, body string
		}
		n := 3 + r.Intn(6)
		var cycle []upd
		cycle = append(cycle, upd{"PUT", "/basic/v1/local-trust/m0", reqMat(rr, n).json()})
		for k := 0; k < 3; k++ { // merges that rewrite many rows
			cycle = append(cycle, upd{"PUT", "/basic/v1/local-trust/m0?merge=true", reqMat(rr, n+k).json()})
		}
		cycle = append(cycle, upd{"GET", "/basic/v1/local-trust/m0", ""})
		cycle = append(cycle, upd{"PUT", "/basic/v1/local-trust/m0", reqMat(rr, 2+r.Intn(4)).json()})
		cycle = append(cycle, upd{"DELETE", "/basic/v1/local-trust/m0", ""})
		pre := reqVec(rr, 12)
		q := func(local string) string {
			return `{"localTrust":` + local + `,"preTrust":` + pre.json() + `}`
		}
		// sequential reference: the result on every version of the cycle (through the GET body, inline)
		want := map[string]bool{}
		ref := newOapiServer()
		addRef := func() {
			g := httpDo(ref, "GET", "/basic/v1/local-trust/m0", "")
			var resp httpResp
			if g.Code == 200 {
				resp = httpDo(ref, "POST", "/basic/v1/compute", q(g.Body))
			} else {
				resp = httpDo(ref, "POST", "/basic/v1/compute", q(`{"scheme":"stored","id":"m0"}`))
			}
			want[fmt.Sprintf("%d %s", resp.Code, resp.Body)] = true
		}
		addRef()
		for _, u := range cycle {
			httpDo(ref, u.method, u.path, u.body)
			addRef()
		}
		var wg sync.WaitGroup
		var mu sync.Mutex
		var bad []string
		stop := make(chan struct{})
		updDone := make(chan struct{})
		go func() {
			defer close(updDone)
			for k := 0; ; k++ {
				select {
				case <-stop:
					return
				default:
				}
				u := cycle[k%len(cycle)]
				httpDo(e, u.method, u.path, u.body)
			}
		}()
		for cl := 0; cl < 4; cl++ {
			wg.Add(1)
			go func() {
				defer wg.Done()
				for k := 0; k < 25; k++ {
					resp := httpDo(e, "POST", "/basic/v1/compute", q(`{"scheme":"stored","id":"m0"}`))
					key := fmt.Sprintf("%d %s", resp.Code, resp.Body)
					if !want[key] || resp.Panic != "" {
						mu.Lock()
						bad = append(bad, key+" "+resp.Panic)
						mu.Unlock()
					}
				}
			}()
		}
		wg.Wait()
		close(stop)
		<-updDone
		if len(bad) > 0 {
			t.Fatalf("round %d: %d computes returned a result that matches no version of the stored matrix, e.g. %s", round, len(bad), bad[0])
		}
		_ = echo.New
		_ = time.Now
	}
}

// TestConcGrpcGetAtomic: a Get of a gRPC-stored vector or matrix is an atomic snapshot.  One
// updater writes timestamp k together with the value k; whatever a concurrent Get streams must have
// header timestamp == value (or no entry at timestamp 0), also across Flush.
func TestConcGrpcGetAtomic(t *testing.T) {
	g := newGrpc()
	ctx := context.Background()
	vid, mid := "cv", "cm"
	if _, err := g.vs.Create(ctx, &tvpb.CreateRequest{Id: vid}); err != nil {
		t.Fatal(err)
	}
	if _, err := g.ms.Create(ctx, &tmpb.CreateRequest{Id: mid}); err != nil {
		t.Fatal(err)
	}
	stop := make(chan struct{})
	var wg sync.WaitGroup
	wg.Add(1)
	go func() {
		defer wg.Done()
		for k := uint64(1); ; k++ {
			select {
			case <-stop:
				return
			default:
			}
			if k%50 == 0 {
				_, _ = g.vs.Flush(ctx, &tvpb.FlushRequest{Id: vid})
				_, _ = g.ms.Flush(ctx, &tmpb.FlushRequest{Id: mid})
			}
			_, _ = g.vs.Update(ctx, &tvpb.UpdateRequest{Header: &tvpb.Header{Id: &vid, TimestampQwords: []uint64{k}},
				Entries: []*tvpb.Entry{{Trustee: "0", Value: float64(k)}, {Trustee: "3", Value: float64(k)}}})
			_, _ = g.ms.Update(ctx, &tmpb.UpdateRequest{Header: &tmpb.Header{Id: &mid, TimestampQwords: []uint64{k}},
				Entries: []*tmpb.Entry{{Truster: "0", Trustee: "1", Value: float64(k)}, {Truster: "2", Trustee: "0", Value: float64(k)}}})
		}
	}()
	var bad atomic.Value
	var rg sync.WaitGroup
	for r := 0; r < 4; r++ {
		rg.Add(1)
		go func() {
			defer rg.Done()
			for i := 0; i < 4000 && bad.Load() == nil; i++ {
				vs := &gvStream{}
				if err := g.vs.Get(&tvpb.GetRequest{Id: vid}, vs); err == nil && len(vs.parts) > 0 {
					ts := vs.parts[0].GetHeader().TimestampQwords
					var tsv uint64
					if len(ts) > 0 {
						tsv = ts[len(ts)-1]
					}
					for _, p := range vs.parts[1:] {
						if v := p.GetEntry().Value; v != float64(tsv) {
							bad.Store(fmt.Sprintf("vector Get: header timestamp %d with entry value %v", tsv, v))
						}
					}
					if tsv != 0 && len(vs.parts) != 3 {
						bad.Store(fmt.Sprintf("vector Get: timestamp %d with %d entries", tsv, len(vs.parts)-1))
					}
				}
				ms := &gmStream{}
				if err := g.ms.Get(&tmpb.GetRequest{Id: mid}, ms); err == nil && len(ms.parts) > 0 {
					ts := ms.parts[0].GetHeader().TimestampQwords
					var tsv uint64
					if len(ts) > 0 {
						tsv = ts[len(ts)-1]
					}
					for _, p := range ms.parts[1:] {
						if v := p.GetEntry().Value; v != float64(tsv) {
							bad.Store(fmt.Sprintf("matrix Get: header timestamp %d with entry value %v", tsv, v))
						}
					}
					if tsv != 0 && len(ms.parts) != 3 {
						bad.Store(fmt.Sprintf("matrix Get: timestamp %d with %d entries", tsv, len(ms.parts)-1))
					}
				}
			}
		}()
	}
	rg.Wait()
	close(stop)
	wg.Wait()
	if b := bad.Load(); b != nil {
		t.Fatalf("a Get is not an atomic snapshot: %v", b)
	}
}

// TestConcStoreGetAtomic: a GET of a stored matrix concurrent with replacing and enlarging merges
// returns one of the versions the updater produced (size and entries from the same version).
func TestConcStoreGetAtomic(t *testing.T) {
	type upd struct{ path, body string }
	cycle := []upd{
		{"/basic/v1/local-trust/g", IMat{Size: 2, Es: []Coo{{R: 0, C: 1, V: 1}}}.json()},
		{"/basic/v1/local-trust/g?merge=true", IMat{Size: 50, Es: []Coo{{R: 49, C: 49, V: 2}, {R: 0, C: 1, V: 3}}}.json()},
		{"/basic/v1/local-trust/g?merge=true", IMat{Size: 203, Es: []Coo{{R: 202, C: 202, V: 4}, {R: 1, C: 0, V: 5}}}.json()},
	}
	ref := newOapiServer()
	valid := map[string]bool{}
	for _, u := range cycle {
		httpDo(ref, "PUT", u.path, u.body)
		valid[httpDo(ref, "GET", "/basic/v1/local-trust/g", "").Body] = true
	}
	e := newOapiServer()
	httpDo(e, "PUT", cycle[0].path, cycle[0].body)
	stop := make(chan struct{})
	var wg sync.WaitGroup
	wg.Add(1)
	go func() {
		defer wg.Done()
		for k := 0; ; k++ {
			select {
			case <-stop:
				return
			default:
			}
			u := cycle[k%len(cycle)]
			httpDo(e, "PUT", u.path, u.body)
		}
	}()
	var bad atomic.Value
	var rg sync.WaitGroup
	for r := 0; r < 4; r++ {
		rg.Add(1)
		go func() {
			defer rg.Done()
			for i := 0; i < 3000 && bad.Load() == nil; i++ {
				g := httpDo(e, "GET", "/basic/v1/local-trust/g", "")
				if g.Code != 200 || !valid[g.Body] {
					bad.Store(fmt.Sprintf("%d %s", g.Code, g.Body))
				}
			}
		}()
	}
	rg.Wait()
	close(stop)
	wg.Wait()
	if b := bad.Load(); b != nil {
		t.Fatalf("a GET concurrent with merges returned a body that is none of the stored versions: %v", b)
	}
}

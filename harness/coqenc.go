package main

import (
	"fmt"
	"math"
	"strconv"
	"strings"

	"k3l.io/go-eigentrust/pkg/sparse"
)

// Ent / Vec / Mat are the JSON-serialisable mirrors of sparse.Entry, sparse.Vector
// and sparse.CSMatrix used in case inputs and observations.
type Ent struct {
	I int    `json:"i"`
	V JFloat `json:"v"`
}
type Vec struct {
	Dim  int   `json:"dim"`
	Ents []Ent `json:"ents"`
}
type Mat struct {
	Major int     `json:"major"`
	Minor int     `json:"minor"`
	Rows  [][]Ent `json:"rows"`
}
type Coo struct {
	R int    `json:"r"`
	C int    `json:"c"`
	V JFloat `json:"v"`
}

// JFloat marshals as a hex-float string so that NaN/Inf/-0 and every bit survive JSON.
type JFloat float64

func (f JFloat) MarshalJSON() ([]byte, error) {
	return []byte(`"` + hexf(float64(f)) + `"`), nil
}
func (f *JFloat) UnmarshalJSON(b []byte) error {
	s := strings.Trim(string(b), `"`)
	switch s {
	case "nan":
		*f = JFloat(math.NaN())
		return nil
	case "infinity":
		*f = JFloat(math.Inf(1))
		return nil
	case "neg_infinity":
		*f = JFloat(math.Inf(-1))
		return nil
	}
	v, err := strconv.ParseFloat(s, 64)
	if err != nil {
		return err
	}
	*f = JFloat(v)
	return nil
}

func hexf(x float64) string {
	switch {
	case math.IsNaN(x):
		return "nan"
	case math.IsInf(x, 1):
		return "infinity"
	case math.IsInf(x, -1):
		return "neg_infinity"
	}
	return strconv.FormatFloat(x, 'x', -1, 64)
}

// cf renders a float64 as a Coq primitive-float term (exact).
func cf(x float64) string {
	switch {
	case math.IsNaN(x):
		return "nan"
	case math.IsInf(x, 1):
		return "infinity"
	case math.IsInf(x, -1):
		return "neg_infinity"
	case x == 0 && math.Signbit(x):
		return "(-0)"
	case x < 0:
		return "(" + strconv.FormatFloat(x, 'x', -1, 64) + ")"
	}
	return strconv.FormatFloat(x, 'x', -1, 64)
}

// cfs is cf with an explicit scope delimiter, for floats inside list literals.
func cfs(x float64) string { return "(" + cf(x) + ")%float" }

func cEnts(es []Ent) string {
	var sb strings.Builder
	sb.WriteString("[")
	for i, e := range es {
		if i > 0 {
			sb.WriteString("; ")
		}
		if e.I < 0 {
			// never an input: the code under test produced an entry with a negative index
			panic(fmt.Sprintf("entry with negative index %d in a vector / matrix row produced by the code under test", e.I))
		}
		fmt.Fprintf(&sb, "e %d %s", e.I, cf(float64(e.V)))
	}
	sb.WriteString("]")
	return sb.String()
}
func cVec(v Vec) string { return fmt.Sprintf("(CV %d %s)", v.Dim, cEnts(v.Ents)) }
func cMat(m Mat) string {
	var sb strings.Builder
	fmt.Fprintf(&sb, "(CM %d %d [", m.Major, m.Minor)
	for i, r := range m.Rows {
		if i > 0 {
			sb.WriteString("; ")
		}
		sb.WriteString(cEnts(r))
	}
	sb.WriteString("])")
	return sb.String()
}
func cCoos(cs []Coo) string {
	var sb strings.Builder
	sb.WriteString("[")
	for i, c := range cs {
		if i > 0 {
			sb.WriteString("; ")
		}
		fmt.Fprintf(&sb, "c3 %d %d %s", c.R, c.C, cf(float64(c.V)))
	}
	sb.WriteString("]")
	return sb.String()
}
func cList(xs []string) string { return "[" + strings.Join(xs, "; ") + "]" }
func cBool(b bool) string {
	if b {
		return "true"
	}
	return "false"
}
func cZ(n int) string {
	if n < 0 {
		return fmt.Sprintf("(%d)%%Z", n)
	}
	return fmt.Sprintf("%d%%Z", n)
}

// conversions to and from the implementation's types
func toEntries(es []Ent) []sparse.Entry {
	if es == nil {
		return nil
	}
	out := make([]sparse.Entry, len(es))
	for i, e := range es {
		out[i] = sparse.Entry{Index: e.I, Value: float64(e.V)}
	}
	return out
}
func fromEntries(es []sparse.Entry) []Ent {
	out := make([]Ent, len(es))
	for i, e := range es {
		out[i] = Ent{I: e.Index, V: JFloat(e.Value)}
	}
	return out
}
func (v Vec) sparse() *sparse.Vector { return &sparse.Vector{Dim: v.Dim, Entries: toEntries(v.Ents)} }
func vecOf(v *sparse.Vector) Vec     { return Vec{Dim: v.Dim, Ents: fromEntries(v.Entries)} }

// csr builds a *sparse.Matrix holding exactly the given rows (no constructor
// normalisation), with the finalizer the constructors install.
func (m Mat) csr() *sparse.Matrix {
	r := sparse.NewCSRMatrix(m.Major, m.Minor, nil, false)
	for i := range m.Rows {
		if i < len(r.Entries) {
			r.Entries[i] = toEntries(m.Rows[i])
		}
	}
	return r
}
func matOf(m *sparse.CSMatrix) Mat {
	out := Mat{Major: m.MajorDim, Minor: m.MinorDim, Rows: make([][]Ent, len(m.Entries))}
	for i, r := range m.Entries {
		out.Rows[i] = fromEntries(r)
	}
	return out
}
func toCoo(cs []Coo) []sparse.CooEntry {
	out := make([]sparse.CooEntry, len(cs))
	for i, c := range cs {
		out[i] = sparse.CooEntry{Row: c.R, Column: c.C, Value: float64(c.V)}
	}
	return out
}

// random structured data ---------------------------------------------------

// sortedSpan returns a strictly increasing span over [0,dim) with about `fill`
// percent of the cells present; zeroPct percent of the values are explicit zeros.
func sortedSpan(r *Rng, dim, fill, zeroPct int, val func() float64) []Ent {
	var es []Ent
	for i := 0; i < dim; i++ {
		if r.Chance(fill) {
			v := val()
			if r.Chance(zeroPct) {
				v = 0
				if r.Chance(20) {
					v = math.Copysign(0, -1)
				}
			}
			es = append(es, Ent{I: i, V: JFloat(v)})
		}
	}
	return es
}

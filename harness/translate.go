package main

import (
	"fmt"
	"go/ast"
	"go/parser"
	"go/token"
	"os"
	"sort"
	"strings"
)

// Translator (Go subset -> Gallina) for the straight-line float64 kernels of the code base.
// Supported: methods with a pointer receiver to a struct of float64 fields and float64 parameters;
// statements  x := e | x, y := e1, e2 | x, y = y, x | x op= e | recv.f op= e | if cond { ... } [else { ... }]
// | return e;  expressions over + - * /, math.Abs, comparisons, identifiers, receiver fields, the
// literals 0 and 1.  Anything else is refused (the obligation that uses the generated file then fails).
// Every assignment becomes a let-binding of a fresh name (SSA); an `if` becomes, for every variable
// assigned in a branch, a conditional expression over the branch values.

type trans struct {
	recv   string            // receiver identifier
	fields []string          // receiver struct fields, declaration order
	cur    map[string]string // Go variable (or recv.field) -> current Gallina name
	cnt    map[string]int
	lets   []string
	ret    string
}

func (t *trans) fresh(v string) string {
	t.cnt[v]++
	return fmt.Sprintf("%s_%d", strings.ReplaceAll(v, ".", "_"), t.cnt[v])
}

func (t *trans) key(e ast.Expr) (string, error) {
	switch x := e.(type) {
	case *ast.Ident:
		return x.Name, nil
	case *ast.SelectorExpr:
		if id, ok := x.X.(*ast.Ident); ok && id.Name == t.recv {
			return t.recv + "." + x.Sel.Name, nil
		}
	}
	return "", fmt.Errorf("unsupported assignment target %T", e)
}

func (t *trans) expr(e ast.Expr) (string, error) {
	switch x := e.(type) {
	case *ast.ParenExpr:
		return t.expr(x.X)
	case *ast.Ident, *ast.SelectorExpr:
		if sel, ok := x.(*ast.SelectorExpr); ok {
			if id, ok := sel.X.(*ast.Ident); !ok || id.Name != t.recv {
				return "", fmt.Errorf("unsupported selector")
			}
		}
		k, err := t.key(x)
		if err != nil {
			return "", err
		}
		v, ok := t.cur[k]
		if !ok {
			return "", fmt.Errorf("unknown variable %s", k)
		}
		return v, nil
	case *ast.BasicLit:
		switch x.Value {
		case "0", "0.0":
			return "(zero S)", nil
		case "1", "1.0":
			return "(one S)", nil
		}
		return "", fmt.Errorf("unsupported literal %s", x.Value)
	case *ast.UnaryExpr:
		if x.Op == token.SUB {
			a, err := t.expr(x.X)
			return "(opp S " + a + ")", err
		}
		if x.Op == token.NOT {
			a, err := t.expr(x.X)
			return "(negb " + a + ")", err
		}
	case *ast.CallExpr:
		if sel, ok := x.Fun.(*ast.SelectorExpr); ok && len(x.Args) == 1 {
			if id, ok := sel.X.(*ast.Ident); ok && id.Name == "math" {
				a, err := t.expr(x.Args[0])
				switch sel.Sel.Name {
				case "Abs":
					return "(sabs S " + a + ")", err
				case "Sqrt":
					return "(ssqrt S " + a + ")", err
				}
			}
		}
		return "", fmt.Errorf("unsupported call")
	case *ast.BinaryExpr:
		a, err := t.expr(x.X)
		if err != nil {
			return "", err
		}
		b, err := t.expr(x.Y)
		if err != nil {
			return "", err
		}
		switch x.Op {
		case token.ADD:
			return "(add S " + a + " " + b + ")", nil
		case token.SUB:
			return "(sub S " + a + " " + b + ")", nil
		case token.MUL:
			return "(mul S " + a + " " + b + ")", nil
		case token.QUO:
			return "(div S " + a + " " + b + ")", nil
		case token.LSS:
			return "(ltb S " + a + " " + b + ")", nil
		case token.GTR:
			return "(ltb S " + b + " " + a + ")", nil
		case token.LEQ:
			return "(leb S " + a + " " + b + ")", nil
		case token.GEQ:
			return "(leb S " + b + " " + a + ")", nil
		case token.EQL:
			return "(eqb S " + a + " " + b + ")", nil
		case token.NEQ:
			return "(negb (eqb S " + a + " " + b + "))", nil
		case token.LAND:
			return "(andb " + a + " " + b + ")", nil
		case token.LOR:
			return "(orb " + a + " " + b + ")", nil
		}
	}
	return "", fmt.Errorf("unsupported expression %T", e)
}

func (t *trans) assign(k, term string) {
	n := t.fresh(k)
	t.lets = append(t.lets, fmt.Sprintf("let %s := %s in", n, term))
	t.cur[k] = n
}

var opOf = map[token.Token]string{token.ADD_ASSIGN: "add", token.SUB_ASSIGN: "sub", token.MUL_ASSIGN: "mul", token.QUO_ASSIGN: "div"}

func (t *trans) stmts(l []ast.Stmt) error {
	for _, s := range l {
		if t.ret != "" {
			return fmt.Errorf("statement after return")
		}
		switch x := s.(type) {
		case *ast.AssignStmt:
			if op, ok := opOf[x.Tok]; ok {
				if len(x.Lhs) != 1 {
					return fmt.Errorf("unsupported op-assignment")
				}
				k, err := t.key(x.Lhs[0])
				if err != nil {
					return err
				}
				old, ok := t.cur[k]
				if !ok {
					return fmt.Errorf("unknown variable %s", k)
				}
				r, err := t.expr(x.Rhs[0])
				if err != nil {
					return err
				}
				t.assign(k, fmt.Sprintf("%s S %s %s", op, old, r))
				continue
			}
			if x.Tok != token.DEFINE && x.Tok != token.ASSIGN || len(x.Lhs) != len(x.Rhs) {
				return fmt.Errorf("unsupported assignment")
			}
			// parallel: evaluate every right-hand side first
			var rs, ks []string
			for i := range x.Lhs {
				k, err := t.key(x.Lhs[i])
				if err != nil {
					return err
				}
				r, err := t.expr(x.Rhs[i])
				if err != nil {
					return err
				}
				ks, rs = append(ks, k), append(rs, r)
			}
			for i := range ks {
				t.assign(ks[i], rs[i])
			}
		case *ast.IfStmt:
			if x.Init != nil {
				return fmt.Errorf("unsupported if-init")
			}
			c, err := t.expr(x.Cond)
			if err != nil {
				return err
			}
			cn := t.fresh("c")
			t.lets = append(t.lets, fmt.Sprintf("let %s := %s in", cn, c))
			before := map[string]string{}
			for k, v := range t.cur {
				before[k] = v
			}
			if err := t.stmts(x.Body.List); err != nil {
				return err
			}
			if t.ret != "" {
				return fmt.Errorf("unsupported return inside if")
			}
			thenEnv := t.cur
			t.cur = map[string]string{}
			for k, v := range before {
				t.cur[k] = v
			}
			if x.Else != nil {
				blk, ok := x.Else.(*ast.BlockStmt)
				if !ok {
					return fmt.Errorf("unsupported else-if")
				}
				if err := t.stmts(blk.List); err != nil {
					return err
				}
			}
			elseEnv := t.cur
			t.cur = map[string]string{}
			var keys []string
			for k := range before { // variables born inside a branch are out of scope afterwards
				keys = append(keys, k)
			}
			sort.Strings(keys)
			for _, k := range keys {
				t.cur[k] = before[k]
			}
			for _, k := range keys {
				if thenEnv[k] != before[k] || elseEnv[k] != before[k] {
					t.assign(k, fmt.Sprintf("if %s then %s else %s", cn, thenEnv[k], elseEnv[k]))
				}
			}
		case *ast.ReturnStmt:
			if len(x.Results) != 1 {
				return fmt.Errorf("unsupported return arity")
			}
			r, err := t.expr(x.Results[0])
			if err != nil {
				return err
			}
			t.ret = r
		default:
			return fmt.Errorf("unsupported statement %T", s)
		}
	}
	return nil
}

// translateMethod renders method `name` of struct `typ` as a Gallina definition `def`.
func translateMethod(f *ast.File, typ, name, def string) (string, error) {
	var fields []string
	for _, d := range f.Decls {
		gd, ok := d.(*ast.GenDecl)
		if !ok {
			continue
		}
		for _, sp := range gd.Specs {
			ts, ok := sp.(*ast.TypeSpec)
			if !ok || ts.Name.Name != typ {
				continue
			}
			st, ok := ts.Type.(*ast.StructType)
			if !ok {
				return "", fmt.Errorf("%s is not a struct", typ)
			}
			for _, fl := range st.Fields.List {
				if id, ok := fl.Type.(*ast.Ident); !ok || id.Name != "float64" {
					return "", fmt.Errorf("%s has a non-float64 field", typ)
				}
				for _, n := range fl.Names {
					fields = append(fields, n.Name)
				}
			}
		}
	}
	if fields == nil {
		return "", fmt.Errorf("struct %s not found", typ)
	}
	for _, d := range f.Decls {
		fd, ok := d.(*ast.FuncDecl)
		if !ok || fd.Name.Name != name || fd.Recv == nil || len(fd.Recv.List) != 1 || len(fd.Recv.List[0].Names) != 1 {
			continue
		}
		st, ok := fd.Recv.List[0].Type.(*ast.StarExpr)
		if !ok {
			continue
		}
		if id, ok := st.X.(*ast.Ident); !ok || id.Name != typ {
			continue
		}
		t := &trans{recv: fd.Recv.List[0].Names[0].Name, fields: fields, cur: map[string]string{}, cnt: map[string]int{}}
		var params []string
		for _, fl := range fields {
			p := t.recv + "_" + fl
			t.cur[t.recv+"."+fl] = p
			params = append(params, p)
		}
		for _, fl := range fd.Type.Params.List {
			if id, ok := fl.Type.(*ast.Ident); !ok || id.Name != "float64" {
				return "", fmt.Errorf("%s.%s has a non-float64 parameter", typ, name)
			}
			for _, n := range fl.Names {
				t.cur[n.Name] = n.Name
				params = append(params, n.Name)
			}
		}
		if err := t.stmts(fd.Body.List); err != nil {
			return "", fmt.Errorf("%s.%s: %v", typ, name, err)
		}
		var b strings.Builder
		res := t.ret
		rty := "S"
		if res == "" { // the new receiver state
			var fs []string
			for _, fl := range fields {
				fs = append(fs, t.cur[t.recv+"."+fl])
			}
			res = "(" + strings.Join(fs, ", ") + ")"
			rty = strings.Repeat("S * ", len(fields)-1) + "S"
		}
		fmt.Fprintf(&b, "Definition %s {S : ScalarOps} (%s : S) : %s :=\n", def, strings.Join(params, " "), rty)
		for _, l := range t.lets {
			fmt.Fprintf(&b, "  %s\n", l)
		}
		fmt.Fprintf(&b, "  %s.\n", res)
		return b.String(), nil
	}
	return "", fmt.Errorf("method %s.%s not found", typ, name)
}

func translateKernels(root, out string) error {
	src := root + "/pkg/sparse/util.go"
	bsrc := root + "/pkg/basic/eigentrust.go"
	fset := token.NewFileSet()
	f, err := parser.ParseFile(fset, src, nil, 0)
	if err != nil {
		return err
	}
	clean := func(e error) string {
		return strings.ReplaceAll(strings.ReplaceAll(e.Error(), "(*", "( *"), "*)", "* )")
	}
	var b strings.Builder
	fmt.Fprintf(&b, "(* GENERATED on every run by `harness -translate` from %s and %s — do not edit. *)\n", src, bsrc)
	b.WriteString("(* Gallina rendering of KBNSummer.Add / KBNSummer.Sum and basic.Canonicalize, statement by statement (SSA lets). *)\n")
	b.WriteString("From Coq Require Import Bool List.\nFrom ET Require Import Model.Scalar Model.Sparse.\n\n")
	ok := true
	for _, m := range [][2]string{{"Add", "gen_kbn_add"}, {"Sum", "gen_kbn_sum"}} {
		d, err := translateMethod(f, "KBNSummer", m[0], m[1])
		if err != nil {
			ok = false
			fmt.Fprintf(&b, "(* NOT TRANSLATED: %s *)\n", clean(err))
			// a placeholder of the right type that the obligation cannot be proved for
			if m[0] == "Add" {
				fmt.Fprintf(&b, "Definition %s {S : ScalarOps} (s_sum s_compensation value : S) : S * S := (zero S, zero S).\n\n", m[1])
			} else {
				fmt.Fprintf(&b, "Definition %s {S : ScalarOps} (s_sum s_compensation : S) : S := zero S.\n\n", m[1])
			}
			continue
		}
		b.WriteString(d + "\n")
	}
	fmt.Fprintf(&b, "Definition kbn_translated : bool := %v.\n\n", ok)
	d, err := translateCanonicalize(src, bsrc)
	if err != nil {
		fmt.Fprintf(&b, "(* NOT TRANSLATED: %s *)\n", clean(err))
		b.WriteString("Definition gen_canon {S : ScalarOps} (entries : list (nat * S)) : res (list (nat * S)) := ErrOther 0.\n\n")
	} else {
		b.WriteString(d + "\n")
	}
	fmt.Fprintf(&b, "Definition canon_translated : bool := %v.\n", err == nil)
	return os.WriteFile(out, []byte(b.String()), 0o644)
}

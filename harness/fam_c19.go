package main

import (
	"bytes"
	"encoding/csv"
	"encoding/json"
	"fmt"
	"io"
	"net/http/httptest"
	"os"
	"os/exec"
	"path/filepath"
	"strconv"
	"strings"

	"k3l.io/go-eigentrust/pkg/basic"
)

// C19: the CLI's request (--print-request), its output pass against the real server
// handler, and the library CSV readers, on generated CSV files.

type c19Cli struct {
	Header bool    `json:"header"`
	Raw    bool    `json:"raw"`
	LT     string  `json:"lt"`
	PT     *string `json:"pt,omitempty"`
	IT     *string `json:"it,omitempty"`
	Run    bool    `json:"run"` // also run the pipeline against the in-process server
}
type c19Lib struct {
	What  string  `json:"what"` // lt, tv, names
	Names *string `json:"names,omitempty"`
	Text  string  `json:"text"`
}

func cName(s string) string {
	var sb strings.Builder
	sb.WriteString("(nm [")
	for i := 0; i < len(s); i++ {
		if i > 0 {
			sb.WriteString("; ")
		}
		fmt.Fprintf(&sb, "%d", s[i])
	}
	sb.WriteString("])")
	return sb.String()
}
func cNames(ss []string) string {
	xs := make([]string, len(ss))
	for i, s := range ss {
		xs[i] = cName(s)
	}
	return cList(xs)
}
func cZo(z int64, ok bool) string {
	if !ok {
		return "None"
	}
	if z < 0 {
		return fmt.Sprintf("(zo (%d))", z)
	}
	return fmt.Sprintf("(zo %d)", z)
}

// cField annotates a field with what strconv makes of it (the calls the code itself makes).
func cField(s string) string {
	a, ea := strconv.Atoi(s)
	p, ep := strconv.ParseInt(s, 0, 0)
	f, ef := strconv.ParseFloat(s, 64)
	fl := "None"
	if ef == nil {
		fl = "(fs " + cf(f) + ")"
	}
	return fmt.Sprintf("fld %s %s %s %s", cName(s), cZo(int64(a), ea == nil), cZo(p, ep == nil), fl)
}

// parseCsv reads text the way every loader does: records until EOF or the first error.
func parseCsv(text string) (recs [][]string, clean bool) {
	r := csv.NewReader(strings.NewReader(text))
	for {
		rec, err := r.Read()
		if err != nil {
			return recs, err == io.EOF
		}
		recs = append(recs, rec)
	}
}
func cCsv(text string) string {
	recs, clean := parseCsv(text)
	rs := make([]string, len(recs))
	for i, rec := range recs {
		fs := make([]string, len(rec))
		for j, f := range rec {
			fs[j] = cField(f)
		}
		rs[i] = cList(fs)
	}
	return fmt.Sprintf("(csvf %s %s)", cList(rs), cBool(clean))
}
func cOptCsv(t *string) string {
	if t == nil {
		return "None"
	}
	return "(Some " + cCsv(*t) + ")"
}

// index literals too large for the model's unary numbers are kept out of the generated files
func csvText(rows [][]string) string {
	var b bytes.Buffer
	w := csv.NewWriter(&b)
	_ = w.WriteAll(rows)
	w.Flush()
	return b.String()
}

var c19NamePool = []string{"#tag", "# note", "ek", "vm", "sd", "alice", "bob", "0", "1", "12", "-3", "0x1f", "1e5", "007", "a,b", "say \"hi\"", "ünï", "名前", " lead", "trail ", "", "multi\nline", "NaN", "from", "peer_id", "x", "y", "z", "Q", "q"}

func c19Names(r *Rng, n int) []string {
	perm := r.Perm(len(c19NamePool))
	out := make([]string, 0, n)
	for i := 0; i < n && i < len(perm); i++ {
		out = append(out, c19NamePool[perm[i]])
	}
	for len(out) < n {
		out = append(out, fmt.Sprintf("p%d", len(out)))
	}
	return out
}

func c19Value(r *Rng) string {
	switch w := r.Intn(100); {
	case w < 40:
		return strconv.Itoa(r.Intn(200))
	case w < 70:
		return strconv.FormatFloat(r.Pos(), 'g', -1, 64)
	case w < 78:
		return strconv.FormatFloat(r.Val(), 'g', -1, 64)
	case w < 82:
		return "0"
	case w < 86:
		return "-" + strconv.Itoa(1+r.Intn(50))
	default:
		return []string{"1e400", "abc", "", " 1", "NaN", "Inf", "-Inf", "1_0", "0x1p-2", "١"}[r.Intn(10)]
	}
}

func genC19(r *Rng, tier string) []*Case {
	var cs []*Case
	reps := 120
	if tier != "quick" {
		reps = 1500
	}
	goodValue := func() string {
		if r.Chance(8) {
			return "0"
		}
		if r.Chance(50) {
			return strconv.Itoa(1 + r.Intn(200))
		}
		return strconv.FormatFloat(r.Pos(), 'g', -1, 64)
	}
	for k := 0; k < reps; k++ {
		raw := r.Chance(20)
		header := r.Chance(70)
		n := 1 + r.Intn(7)
		names := c19Names(r, n)
		// a name that only differs from a trimmed/normalised form by blanks, used in every file
		special := ""
		if !raw && r.Chance(35) {
			special = []string{" lead", "trail ", "\tTab", "  two", "a b", " ", "#first", "#"}[r.Intn(8)]
			names[0] = special
		}
		id := func() string {
			if raw {
				if r.Chance(6) {
					return []string{"-1", "-2", "-10", "0x3", "0b11", "1_0", "abc", "", "1.5", "99999999999999999999"}[r.Intn(10)]
				}
				return strconv.Itoa(r.Intn(n))
			}
			return names[r.Intn(n)]
		}
		malformed := r.Chance(25)
		val := func() string {
			if malformed && r.Chance(30) {
				return c19Value(r)
			}
			return goodValue()
		}
		mkMat := func() string {
			var rows [][]string
			cols := 3
			if r.Chance(20) {
				cols = 2
			}
			if header {
				h := []string{"from", "to", "value"}[:cols]
				if r.Chance(10) {
					h = []string{names[0], names[len(names)-1], "7"}[:cols] // a header that looks like data
				}
				rows = append(rows, h)
			}
			m := r.Intn(10)
			if r.Chance(5) {
				m = 0
			}
			seen := map[string]bool{}
			for i := 0; i < m; i++ {
				a, b := id(), id()
				if seen[a+"\x00"+b] && !r.Chance(10) {
					continue
				}
				seen[a+"\x00"+b] = true
				row := []string{a, b, val()}[:cols]
				if malformed && r.Chance(8) {
					row = [][]string{{a}, {a, b, "1", "extra"}, {}}[r.Intn(3)]
				}
				rows = append(rows, row)
			}
			if special != "" && !seen[special+"\x00"+names[len(names)-1]] {
				rows = append(rows, []string{special, names[len(names)-1], goodValue()}[:cols])
			}
			t := unquoteSpecial(csvText(rows), special, r)
			if malformed && r.Chance(15) {
				t += "\"unterminated,1,2\n"
			}
			return t
		}
		mkVec := func() string {
			var rows [][]string
			cols := 2
			if r.Chance(20) {
				cols = 1
			}
			if header {
				rows = append(rows, []string{"peer_id", "value"}[:cols])
			}
			m := r.Intn(6)
			for i := 0; i < m; i++ {
				row := []string{id(), val()}[:cols]
				if malformed && r.Chance(8) {
					row = [][]string{{id(), "1", "2"}, {}}[r.Intn(2)]
				}
				rows = append(rows, row)
			}
			if special != "" {
				rows = append(rows, []string{special, goodValue()}[:cols])
			}
			return unquoteSpecial(csvText(rows), special, r)
		}
		in := c19Cli{Header: header, Raw: raw, LT: mkMat(), Run: r.Chance(40)}
		if r.Chance(70) {
			t := mkVec()
			in.PT = &t
		}
		if r.Chance(30) {
			t := mkVec()
			in.IT = &t
		}
		cs = append(cs, mk("CliReq", in))
		// library readers, with and without a peer list
		var namesText *string
		useNames := r.Chance(60)
		libNames := c19Names(r, n)
		emptyNames := useNames && r.Chance(8) // an empty peer list is still a peer list: every name is unknown
		if useNames {
			rows := make([][]string, len(libNames))
			extra := r.Chance(20)
			for i, nmv := range libNames {
				rows[i] = []string{nmv}
				if extra {
					rows[i] = append(rows[i], "ignored")
				}
			}
			if r.Chance(8) && len(rows) > 1 {
				rows = append(rows, rows[0]) // duplicate name
			}
			t := csvText(rows)
			if emptyNames {
				t = ""
			}
			namesText = &t
			cs = append(cs, mk("LibNames", c19Lib{What: "names", Text: t}))
		}
		lid := func() string {
			if emptyNames {
				return strconv.Itoa(r.Intn(n + 3))
			}
			if useNames {
				if malformed && r.Chance(6) {
					return "nobody"
				}
				return libNames[r.Intn(len(libNames))]
			}
			if malformed && r.Chance(18) {
				return []string{"-1", "-1", "-2", "-10", "0x3", "0b11", "0o7", "1_0", "abc", "", "1.5", "08", "99999999999999999999"}[r.Intn(13)]
			}
			if r.Chance(15) { // zero-padded and signed decimals are decimal literals
				return []string{"%02d", "%03d", "+%d"}[r.Intn(3)][0:0] + fmt.Sprintf([]string{"%02d", "%03d", "+%d"}[r.Intn(3)], r.Intn(n+12))
			}
			return strconv.Itoa(r.Intn(n + 3))
		}
		{
			var rows [][]string
			m := r.Intn(10)
			ltCols := r.Pick(3, 3, 3, 2, 4)
			seen := map[string]bool{}
			norm := func(x string) string { // "007" and "+7" name peer 7
				if v, err := strconv.Atoi(x); err == nil && !useNames {
					return strconv.Itoa(v)
				}
				return x
			}
			for i := 0; i < m; i++ {
				a, b := lid(), lid()
				if seen[norm(a)+"\x00"+norm(b)] {
					continue
				}
				seen[norm(a)+"\x00"+norm(b)] = true
				row := []string{a, b, val(), "extra"}[:ltCols]
				if malformed && r.Chance(6) {
					row = row[:1+r.Intn(4)]
				}
				rows = append(rows, row)
			}
			if ltCols >= 3 && r.Chance(25) {
				// the highest index occurs only in a record of level 0: it still counts for the dimension
				hi := strconv.Itoa(n + 3 + r.Intn(3))
				if useNames {
					hi = libNames[len(libNames)-1]
				}
				if b := lid(); !seen[norm(hi)+"\x00"+norm(b)] {
					seen[norm(hi)+"\x00"+norm(b)] = true
					rows = append(rows, []string{hi, b, "0", "extra"}[:ltCols])
				}
			}
			cs = append(cs, mk("LibLT", c19Lib{What: "lt", Names: namesText, Text: csvText(rows)}))
		}
		{
			var rows [][]string
			m := r.Intn(7)
			tvCols := r.Pick(2, 2, 2, 1, 3)
			for i := 0; i < m; i++ {
				row := []string{lid(), val(), "extra"}[:tvCols]
				if malformed && r.Chance(6) {
					row = row[:1+r.Intn(3)]
				}
				rows = append(rows, row)
			}
			if tvCols >= 2 && r.Chance(25) {
				hi := strconv.Itoa(n + 3 + r.Intn(3))
				if useNames {
					hi = libNames[len(libNames)-1]
				}
				rows = append(rows, []string{hi, "0", "extra"}[:tvCols])
			}
			cs = append(cs, mk("LibTV", c19Lib{What: "tv", Names: namesText, Text: csvText(rows)}))
		}
	}
	// the README files
	pt := "peer_id,value\nek,50\nvm,100\n"
	cs = append(cs, mk("CliReq", c19Cli{Header: true, LT: "from,to,value\nek,sd,100\nvm,sd,100\nek,vm,75\n", PT: &pt, Run: true}))
	return cs
}

// unquoteSpecial writes the blank-carrying name without the quotes csv.Writer adds (an unquoted
// field with leading or trailing blanks is legal CSV and means the same), in half of the files.
func unquoteSpecial(t, special string, r *Rng) string {
	if special == "" || r.Bool() {
		return t
	}
	return strings.ReplaceAll(t, "\""+special+"\"", special)
}

func cliBin() string {
	if b := os.Getenv("VERIF_CLI"); b != "" {
		return b
	}
	return filepath.Join(filepath.Dir(os.Args[0]), "eigentrust")
}

func runCLI(dir string, args ...string) (stdout, stderr string, err error) {
	cmd := exec.Command(cliBin(), args...)
	cmd.Dir = dir
	var ob, eb bytes.Buffer
	cmd.Stdout, cmd.Stderr = &ob, &eb
	err = cmd.Run()
	return ob.String(), eb.String(), err
}

type printedVec struct {
	Entries []struct {
		I int     `json:"i"`
		V float64 `json:"v"`
	} `json:"entries"`
	Size int `json:"size"`
}
type printedReq struct {
	Body struct {
		LocalTrust struct {
			Entries []struct {
				I int     `json:"i"`
				J int     `json:"j"`
				V float64 `json:"v"`
			} `json:"entries"`
			Size int `json:"size"`
		} `json:"localTrust"`
		PreTrust     *printedVec `json:"preTrust"`
		InitialTrust *printedVec `json:"initialTrust"`
	} `json:"body"`
	PeerIds []string `json:"peerIds"`
}

func cPrintedVec(v *printedVec) string {
	if v == nil {
		return "None"
	}
	es := make([]Ent, len(v.Entries))
	for i, e := range v.Entries {
		es[i] = Ent{I: e.I, V: JFloat(e.V)}
	}
	return fmt.Sprintf("(sv %s %d)", cEnts(es), v.Size)
}

func runC19(c *Case) error {
	switch c.Kind {
	case "CliReq":
		var in c19Cli
		c.decode(&in)
		dir, err := os.MkdirTemp(gOutDir, "c19-")
		if err != nil {
			return err
		}
		defer os.RemoveAll(dir)
		args := []string{"basic", "compute", "-l", "lt.csv", fmt.Sprintf("--csv-header=%v", in.Header)}
		_ = os.WriteFile(filepath.Join(dir, "lt.csv"), []byte(in.LT), 0o644)
		if in.PT != nil {
			_ = os.WriteFile(filepath.Join(dir, "pt.csv"), []byte(*in.PT), 0o644)
			args = append(args, "-p", "pt.csv")
		}
		if in.IT != nil {
			_ = os.WriteFile(filepath.Join(dir, "it.csv"), []byte(*in.IT), 0o644)
			args = append(args, "-i", "it.csv")
		}
		if in.Raw {
			args = append(args, "--raw-peer-ids")
		}
		stdout, stderr, err := runCLI(dir, append(args, "--print-request")...)
		if err != nil {
			// the CLI reports input errors through its logger and exits 0; a non-zero exit is a crash
			panic(fmt.Sprintf("eigentrust exited abnormally: %v\n%s", err, tail(stderr, 1200)))
		}
		obs := "None"
		var pr printedReq
		ok := strings.TrimSpace(stdout) != ""
		if ok {
			if e := json.Unmarshal([]byte(stdout), &pr); e != nil {
				panic(fmt.Sprintf("--print-request output is not JSON: %v: %q", e, stdout))
			}
			coos := make([]Coo, len(pr.Body.LocalTrust.Entries))
			for i, e := range pr.Body.LocalTrust.Entries {
				coos[i] = Coo{R: e.I, C: e.J, V: JFloat(e.V)}
			}
			obs = fmt.Sprintf("(Some (OR %s %d %s %s %s))", cCoos(coos), pr.Body.LocalTrust.Size,
				cPrintedVec(pr.Body.PreTrust), cPrintedVec(pr.Body.InitialTrust), cNames(pr.PeerIds))
			c.Nontrivial = len(coos) > 1
		}
		c.setObs(map[string]interface{}{"stdout": stdout, "stderr": tail(stderr, 600)})
		c.coq = fmt.Sprintf("One (CliReq %s %s %s %s %s %s)", cBool(in.Header), cBool(in.Raw), cCsv(in.LT), cOptCsv(in.PT), cOptCsv(in.IT), obs)
		c.Tags = []string{fmt.Sprintf("cli:raw=%v", in.Raw), fmt.Sprintf("cli:accepted=%v", ok)}
		if ok && in.Run {
			if out := c19Pipeline(dir, args, stdout, &pr, in.Raw); out != "" {
				c.coq = "Two (" + strings.TrimSuffix(strings.TrimPrefix(c.coq, "One ("), ")") + ") (" + out + ")"
				c.Tags = append(c.Tags, "cli:pipeline")
			}
		}
	case "LibLT", "LibTV", "LibNames":
		var in c19Lib
		c.decode(&in)
		var idx map[string]int
		namesCoq := "None"
		if in.Names != nil {
			ns, ix, err := basic.ReadPeerNamesFromCsv(csv.NewReader(strings.NewReader(*in.Names)))
			if err != nil {
				// a refused peer list: the dependent readers are not reached
				c.coq = fmt.Sprintf("One (LibNames %s None)", cCsv(*in.Names))
				c.Tags = []string{"lib:names-refused"}
				return nil
			}
			idx = ix
			namesCoq = "(Some " + cNames(ns) + ")"
		}
		switch in.What {
		case "names":
			ns, _, err := basic.ReadPeerNamesFromCsv(csv.NewReader(strings.NewReader(in.Text)))
			obs := "None"
			if err == nil {
				obs = "(Some " + cNames(ns) + ")"
				c.Nontrivial = len(ns) > 1
			}
			c.coq = fmt.Sprintf("One (LibNames %s %s)", cCsv(in.Text), obs)
			c.Tags = []string{fmt.Sprintf("lib:names-ok=%v", err == nil)}
		case "lt":
			m, err := basic.ReadLocalTrustFromCsv(csv.NewReader(strings.NewReader(in.Text)), idx)
			obs := "None"
			if err == nil {
				obs = "(Some " + cMat(matOf(&m.CSMatrix)) + ")"
				c.Nontrivial = m.NNZ() > 1
			}
			c.coq = fmt.Sprintf("One (LibLT %s %s %s)", namesCoq, cCsv(in.Text), obs)
			c.Tags = []string{fmt.Sprintf("lib:lt-ok=%v", err == nil), fmt.Sprintf("lib:names=%v", idx != nil)}
		case "tv":
			v, err := basic.ReadTrustVectorFromCsv(csv.NewReader(strings.NewReader(in.Text)), idx)
			obs := "None"
			if err == nil {
				obs = "(Some " + cVec(vecOf(v)) + ")"
				c.Nontrivial = len(v.Entries) > 1
			}
			c.coq = fmt.Sprintf("One (LibTV %s %s %s)", namesCoq, cCsv(in.Text), obs)
			c.Tags = []string{fmt.Sprintf("lib:tv-ok=%v", err == nil), fmt.Sprintf("lib:names=%v", idx != nil)}
		}
	default:
		return fmt.Errorf("unknown kind %s", c.Kind)
	}
	return nil
}

func tail(s string, n int) string {
	if len(s) > n {
		return s[len(s)-n:]
	}
	return s
}

// c19Pipeline runs the CLI against the real server handler (in-process, loopback) and returns the
// CliOut term: the response the server gives to the printed request vs the CSV the CLI wrote.
func c19Pipeline(dir string, args []string, printed string, pr *printedReq, raw bool) string {
	e := newOapiServer()
	srv := httptest.NewServer(e)
	defer srv.Close()
	var body struct {
		Body json.RawMessage `json:"body"`
	}
	_ = json.Unmarshal([]byte(printed), &body)
	resp := httpDo(e, "POST", "/basic/v1/compute-with-stats", string(body.Body))
	if resp.Code != 200 {
		return ""
	}
	var rj struct {
		EigenTrust printedVec `json:"eigenTrust"`
	}
	if err := json.Unmarshal([]byte(resp.Body), &rj); err != nil {
		panic(fmt.Sprintf("server response is not JSON: %v", err))
	}
	// the output file already exists, from an earlier and longer run: it must be replaced, not overwritten in place
	_ = os.WriteFile(filepath.Join(dir, "out.csv"), []byte(strings.Repeat("stale-peer-of-an-earlier-run,0.015625\n", 60)), 0o644)
	_, stderr, err := runCLI(dir, append(args, "-H", srv.URL+"/basic/v1", "-o", "out.csv")...)
	if err != nil {
		panic(fmt.Sprintf("eigentrust exited abnormally: %v\n%s", err, tail(stderr, 1200)))
	}
	ob, err := os.ReadFile(filepath.Join(dir, "out.csv"))
	if err != nil {
		panic(fmt.Sprintf("no output file after a 200 response: %v\n%s", err, tail(stderr, 800)))
	}
	rows, clean := parseCsv(string(ob))
	if !clean {
		panic("output CSV does not parse")
	}
	es := make([]Ent, len(rj.EigenTrust.Entries))
	for i, x := range rj.EigenTrust.Entries {
		es[i] = Ent{I: x.I, V: JFloat(x.V)}
	}
	var rs []string
	for _, row := range rows {
		if len(row) != 2 {
			panic(fmt.Sprintf("output row with %d fields", len(row)))
		}
		v, err := strconv.ParseFloat(row[1], 64)
		if err != nil {
			panic(fmt.Sprintf("output value %q does not parse", row[1]))
		}
		nmv, ix := "(Some "+cName(row[0])+")", 0
		if raw {
			ix, _ = strconv.Atoi(row[0])
		}
		rs = append(rs, fmt.Sprintf("(%s, %d%%N, %s)", nmv, ix, cfs(v)))
	}
	return fmt.Sprintf("CliOut %s %s %s %s", cBool(raw), cNames(pr.PeerIds), cEnts(es), cList(rs))
}

func init() { register(&Family{ID: "C19", Import: "Corr.C19", Gen: genC19, Run: runC19}) }

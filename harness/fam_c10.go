package main

import (
	"context"
	"fmt"
	"sort"

	"k3l.io/go-eigentrust/pkg/sparse"
)

// C10: NewCSRMatrix, Transpose, CSC/CSR views, resize histories.

type c10New struct {
	Rows int   `json:"rows"`
	Cols int   `json:"cols"`
	Es   []Coo `json:"es"`
	Zero bool  `json:"include_zero"`
}
type c10Op struct {
	Op string `json:"op"` // setdim, setmajor, setminor, transpose, merge, cscsetdim, csctranspose
	A  int    `json:"a,omitempty"`
	B  int    `json:"b,omitempty"`
	M  *Mat   `json:"m,omitempty"`
}
type c10Hist struct {
	M0  Mat     `json:"m0"`
	Ops []c10Op `json:"ops"`
}

func randCoos(r *Rng, rows, cols, fill, zeroPct int) []Coo {
	var es []Coo
	for i := 0; i < rows; i++ {
		for j := 0; j < cols; j++ {
			if r.Chance(fill) {
				v := r.Val()
				if r.Chance(zeroPct) {
					v = 0
				}
				es = append(es, Coo{R: i, C: j, V: JFloat(v)})
			}
		}
	}
	p := r.Perm(len(es))
	out := make([]Coo, len(es))
	for i, k := range p {
		out[i] = es[k]
	}
	return out
}

func genC10(r *Rng, tier string) []*Case {
	var cs []*Case
	reps, maxOps := 250, 12
	if tier != "quick" {
		reps, maxOps = 2500, 200
	}
	for k := 0; k < reps; k++ {
		rows, cols := r.Intn(8), r.Intn(8)
		if r.Chance(30) {
			cols = rows
		}
		if rows == 0 {
			cols = r.Intn(3) // NewCSRMatrix(0, c, nil)
		}
		n := c10New{Rows: rows, Cols: cols, Zero: r.Bool()}
		if rows > 0 && cols > 0 {
			n.Es = randCoos(r, rows, cols, r.Pick(10, 40, 80, 100), r.Pick(0, 20, 50))
		}
		if r.Chance(5) && rows > 0 && cols > 12 {
			n.Es = randCoos(r, rows, cols, 100, 10)
		}
		cs = append(cs, mk("NewCSR", n))
		if k%10 == 0 { // wide rows: sort.Sort leaves the insertion-sort regime (> 12 elements)
			w := 13 + r.Intn(30)
			cs = append(cs, mk("NewCSR", c10New{Rows: 2, Cols: w, Zero: r.Bool(), Es: randCoos(r, 2, w, 90, 10)}))
		}
		// histories
		h := c10Hist{M0: randMat(r, r.Intn(7), r.Intn(7), r.Pick(30, 60, 100), r.Pick(0, 0, 10))}
		nops := 1 + r.Intn(maxOps)
		if tier != "quick" && r.Chance(80) {
			nops = 1 + r.Intn(20)
		}
		curMaj, curMin := h.M0.Major, h.M0.Minor
		for j := 0; j < nops; j++ {
			var o c10Op
			switch r.Intn(10) {
			case 0, 1:
				o = c10Op{Op: "setdim", A: r.Intn(8), B: r.Intn(8)}
				curMaj, curMin = o.A, o.B
			case 2, 3:
				o = c10Op{Op: "setmajor", A: r.Intn(8)}
				if r.Chance(50) && curMaj > 0 { // shrink ... and usually grow back within capacity next
					o.A = r.Intn(curMaj + 1)
				}
				curMaj = o.A
			case 4:
				o = c10Op{Op: "setminor", A: r.Intn(8)}
				curMin = o.A
			case 5:
				o = c10Op{Op: "transpose"}
				curMaj, curMin = curMin, curMaj
			case 6:
				m := randMat(r, r.Intn(7), r.Intn(7), r.Pick(30, 60), r.Pick(0, 30))
				o = c10Op{Op: "merge", M: &m}
				if m.Major > curMaj {
					curMaj = m.Major
				}
				if m.Minor > curMin {
					curMin = m.Minor
				}
			case 7:
				o = c10Op{Op: "cscsetdim", A: r.Intn(8), B: r.Intn(8)}
				curMaj, curMin = o.B, o.A
			case 8:
				o = c10Op{Op: "csctranspose"}
				curMaj, curMin = curMin, curMaj
			default: // grow back towards an earlier size (within the old capacity)
				o = c10Op{Op: "setdim", A: curMaj + r.Intn(3), B: curMin + r.Intn(3)}
				curMaj, curMin = o.A, o.B
			}
			h.Ops = append(h.Ops, o)
		}
		cs = append(cs, mk("OpsHist", h))
	}
	// one tall matrix (more than 1024 rows, cells above row 1024): no blocking of the rows may change the transpose
	{
		rows, cols := 1030+r.Intn(90), 2+r.Intn(5)
		m := Mat{Major: rows, Minor: cols, Rows: make([][]Ent, rows)}
		for k := 0; k < 40; k++ {
			i, j := r.Intn(rows), r.Intn(cols)
			if k%2 == 0 {
				i = 1024 + r.Intn(rows-1024)
			}
			dup := false
			for _, e := range m.Rows[i] {
				dup = dup || e.I == j
			}
			if !dup {
				m.Rows[i] = append(m.Rows[i], Ent{I: j, V: JFloat(1 + r.Intn(9))})
				sort.Slice(m.Rows[i], func(a, b int) bool { return m.Rows[i][a].I < m.Rows[i][b].I })
			}
		}
		cs = append(cs, mk("OpsHist", c10Hist{M0: m, Ops: []c10Op{{Op: "transpose"}, {Op: "transpose"}}}))
	}
	return cs
}

func runC10(c *Case) error {
	ctx := context.Background()
	switch c.Kind {
	case "NewCSR":
		var in c10New
		c.decode(&in)
		m := sparse.NewCSRMatrix(in.Rows, in.Cols, toCoo(in.Es), in.Zero)
		o := matOf(&m.CSMatrix)
		c.setObs(map[string]interface{}{"m": o, "nnz": m.NNZ()})
		c.coq = fmt.Sprintf("NewCSR %d %d %s %s %s %d", in.Rows, in.Cols, cCoos(in.Es), cBool(in.Zero), cMat(o), m.NNZ())
		c.Nontrivial = len(in.Es) > 1
		c.Tags = []string{fmt.Sprintf("newcsr-entries:%d", bucket(len(in.Es)))}
	case "OpsHist":
		var in c10Hist
		c.decode(&in)
		m := in.M0.csr()
		var ops, obs []string
		type so struct {
			M      Mat
			NNZ    int
			VR, VC int
		}
		var sos []so
		shrunk, regrown := false, false
		for _, o := range in.Ops {
			pm := m.MajorDim
			switch o.Op {
			case "setdim":
				m.SetDim(o.A, o.B)
				ops = append(ops, fmt.Sprintf("CSetDim %d %d", o.A, o.B))
			case "setmajor":
				m.SetMajorDim(o.A)
				ops = append(ops, fmt.Sprintf("CSetMajor %d", o.A))
			case "setminor":
				m.SetMinorDim(o.A)
				ops = append(ops, fmt.Sprintf("CSetMinor %d", o.A))
			case "transpose":
				mt, err := m.Transpose(ctx)
				if err != nil {
					return err
				}
				m = mt
				ops = append(ops, "CTranspose")
			case "merge":
				arg := o.M.csr()
				m.Merge(&arg.CSMatrix)
				ops = append(ops, fmt.Sprintf("CMerge %s", cMat(*o.M)))
			case "cscsetdim":
				v := m.TransposeToCSC()
				v.SetDim(o.A, o.B)
				m = v.TransposeToCSR()
				ops = append(ops, fmt.Sprintf("CViaCSCSetDim %d %d", o.A, o.B))
			case "csctranspose":
				v := m.TransposeToCSC()
				vt, err := v.Transpose(ctx)
				if err != nil {
					return err
				}
				m = vt.TransposeToCSR()
				ops = append(ops, "CViaCSCTranspose")
			default:
				return fmt.Errorf("unknown op %q", o.Op)
			}
			if m.MajorDim < pm {
				shrunk = true
			} else if m.MajorDim > pm && shrunk {
				regrown = true
			}
			view := m.TransposeToCSC()
			vr, vc := view.Dims()
			// row and column views: a row of the CSR matrix has one component per column, a column of the CSC view
			// one per row; every stored index lies below the vector's dimension
			_, mc := m.Dims()
			for i := 0; i < len(m.Entries); i++ {
				if rv := m.RowVector(i); rv.Dim != mc {
					panic(fmt.Sprintf("RowVector(%d).Dim = %d on a matrix with %d columns", i, rv.Dim, mc))
				}
			}
			for j := 0; j < len(view.Entries); j++ {
				cv := view.ColumnVector(j)
				if cv.Dim != vr {
					panic(fmt.Sprintf("ColumnVector(%d).Dim = %d on a CSC view with %d rows (and %d columns)", j, cv.Dim, vr, vc))
				}
				for _, e := range cv.Entries {
					if e.Index < 0 || e.Index >= cv.Dim {
						panic(fmt.Sprintf("ColumnVector(%d) holds index %d >= its dimension %d", j, e.Index, cv.Dim))
					}
				}
			}
			s := so{matOf(&m.CSMatrix), m.NNZ(), vr, vc}
			sos = append(sos, s)
			obs = append(obs, fmt.Sprintf("SO %s %d %d %d", cMat(s.M), s.NNZ, vr, vc))
		}
		c.setObs(sos)
		c.coq = fmt.Sprintf("OpsHist %s %s %s", cMat(in.M0), cList(ops), cList(obs))
		c.Nontrivial = len(in.Ops) > 1
		c.Tags = []string{fmt.Sprintf("hist-ops:%d", bucket(len(in.Ops)))}
		if regrown {
			c.Tags = append(c.Tags, "shrink-then-grow")
		}
	default:
		return fmt.Errorf("unknown kind %s", c.Kind)
	}
	return nil
}

func init() { register(&Family{ID: "C10", Import: "Corr.C10", Gen: genC10, Run: runC10}) }

package main

import (
	"context"
	"encoding/json"
	"fmt"
	"net/http/httptest"
	"sort"
	"strings"
	"sync"

	"github.com/labstack/echo/v4"
)

// C13: /local-trust/{id} histories; C14: compute isolation.

type SOp struct {
	Op    string `json:"op"` // put, get, head, delete, putback (PUT the body of a GET of id From)
	ID    int    `json:"id"`
	Body  *MRef  `json:"body,omitempty"`
	Merge bool   `json:"merge,omitempty"`
	From  int    `json:"from,omitempty"`
}
type c13Hist struct {
	Ops []SOp `json:"ops"`
}

type getBody struct {
	Entries []struct {
		I int     `json:"i"`
		J int     `json:"j"`
		V float64 `json:"v"`
	} `json:"entries"`
	Size   int    `json:"size"`
	Scheme string `json:"scheme"`
}

func coqStoreResp(op string, r httpResp) string {
	if r.Panic != "" {
		return "(POther 999)"
	}
	switch r.Code {
	case 200:
		if op == "get" {
			var gb getBody
			if err := json.Unmarshal([]byte(r.Body), &gb); err != nil {
				return "(POther 299)"
			}
			var es []string
			for _, e := range gb.Entries {
				es = append(es, fmt.Sprintf("m3 %s %s %s", zlit(e.I), zlit(e.J), cf(e.V)))
			}
			return fmt.Sprintf("(PBody %s %s %s)", zlit(gb.Size), cList(es), cBool(gb.Scheme == "inline"))
		}
		return "P200"
	case 201:
		return "P201"
	case 204:
		return "P204"
	case 404:
		return "P404"
	case 400:
		return "P400"
	}
	return fmt.Sprintf("(POther %d)", r.Code)
}

// runStoreOps executes the history and returns the Coq request/response lists.
func runStoreOps(e *echo.Echo, ops []SOp) (reqs, resps []string, raw []httpResp) {
	for _, o := range ops {
		path := fmt.Sprintf("/basic/v1/local-trust/m%d", o.ID)
		var r httpResp
		switch o.Op {
		case "put":
			p := path
			if o.Merge {
				p += "?merge=true"
			} else if len(reqs)%2 == 1 {
				p += "?merge=false" // an explicit false is a replace, like the absent parameter
			}
			r = httpDo(e, "PUT", p, o.Body.json())
			reqs = append(reqs, fmt.Sprintf("QPut %d %s %s", o.ID, o.Body.coq(), cBool(o.Merge)))
		case "putback": // a GET body is itself a valid inline reference
			g := httpDo(e, "GET", fmt.Sprintf("/basic/v1/local-trust/m%d", o.From), "")
			var gb getBody
			body := MRef{Kind: "other"}
			raw := g.Body
			if g.Code == 200 && json.Unmarshal([]byte(g.Body), &gb) == nil {
				im := IMat{Size: gb.Size}
				for _, en := range gb.Entries {
					im.Es = append(im.Es, Coo{R: en.I, C: en.J, V: JFloat(en.V)})
				}
				if gb.Scheme == "inline" {
					body = MRef{Kind: "inline", M: &im}
				}
			} else {
				raw = `{"scheme":"bogus"}`
			}
			r = httpDo(e, "PUT", path, raw) // the GET body, byte for byte
			reqs = append(reqs, fmt.Sprintf("QPut %d %s false", o.ID, body.coq()))
			o.Op = "put"
		case "get":
			r = httpDo(e, "GET", path, "")
			reqs = append(reqs, fmt.Sprintf("QGet %d", o.ID))
		case "head":
			r = httpDo(e, "HEAD", path, "")
			reqs = append(reqs, fmt.Sprintf("QHead %d", o.ID))
		case "delete":
			r = httpDo(e, "DELETE", path, "")
			reqs = append(reqs, fmt.Sprintf("QDelete %d", o.ID))
		}
		resps = append(resps, coqStoreResp(o.Op, r))
		raw = append(raw, r)
	}
	return
}

func genC13(r *Rng, tier string) []*Case {
	var cs []*Case
	mA := IMat{Size: 2, Es: []Coo{{R: 0, C: 1, V: 1}, {R: 1, C: 0, V: -2}}}
	mB := IMat{Size: 3, Es: []Coo{{R: 2, C: 0, V: 0.5}, {R: 0, C: 1, V: 4}, {R: 0, C: 2, V: 0}}}
	mE := IMat{Size: 1}
	mBad := IMat{Size: 2, Es: []Coo{{R: 5, C: 0, V: 1}}}
	var alphabet []SOp
	for id := 0; id < 2; id++ {
		for _, m := range []IMat{mA, mB, mE, mBad} {
			mm := m
			for _, mg := range []bool{false, true} {
				alphabet = append(alphabet, SOp{Op: "put", ID: id, Body: &MRef{Kind: "inline", M: &mm}, Merge: mg})
			}
		}
		alphabet = append(alphabet, SOp{Op: "get", ID: id}, SOp{Op: "head", ID: id}, SOp{Op: "delete", ID: id})
	}
	maxLen := 2
	if tier != "quick" {
		maxLen = 3
	}
	var rec func(cur []SOp)
	rec = func(cur []SOp) {
		if len(cur) > 0 {
			// observe the final state of every history
			h := append(append([]SOp{}, cur...), SOp{Op: "get", ID: 0}, SOp{Op: "get", ID: 1})
			cs = append(cs, mk("StoreHist", c13Hist{Ops: h}))
		}
		if len(cur) == maxLen {
			return
		}
		for _, o := range alphabet {
			rec(append(cur, o))
		}
	}
	rec(nil)
	// random longer histories, with stored references, putbacks and larger matrices
	reps := 150
	if tier != "quick" {
		reps = 3000
	}
	for k := 0; k < reps; k++ {
		var h c13Hist
		n := 1 + r.Intn(40)
		for i := 0; i < n; i++ {
			id := r.Intn(3)
			switch r.Intn(10) {
			case 0, 1, 2:
				m := reqMat(r, 1+r.Intn(5))
				h.Ops = append(h.Ops, SOp{Op: "put", ID: id, Body: &MRef{Kind: "inline", M: &m}, Merge: r.Bool()})
			case 3:
				m := reqMat(r, 1+r.Intn(5))
				m.Es = nil // an update that only enlarges
				m.Size += r.Intn(4)
				h.Ops = append(h.Ops, SOp{Op: "put", ID: id, Body: &MRef{Kind: "inline", M: &m}, Merge: true})
			case 4:
				h.Ops = append(h.Ops, SOp{Op: "put", ID: id, Body: &MRef{Kind: "stored", ID: r.Intn(3)}, Merge: r.Bool()})
			case 5:
				h.Ops = append(h.Ops, SOp{Op: "putback", ID: id, From: r.Intn(3)})
			case 6:
				bad := []MRef{{Kind: "other"}, {Kind: "inline", M: &IMat{Size: 0}}, {Kind: "inline", M: &IMat{Size: 2, Es: []Coo{{R: 0, C: 2, V: 1}}}}}[r.Intn(3)]
				h.Ops = append(h.Ops, SOp{Op: "put", ID: id, Body: &bad, Merge: r.Bool()})
			case 7:
				h.Ops = append(h.Ops, SOp{Op: "delete", ID: id})
			case 8:
				h.Ops = append(h.Ops, SOp{Op: "head", ID: id})
			default:
				h.Ops = append(h.Ops, SOp{Op: "get", ID: id})
			}
			if r.Chance(40) {
				h.Ops = append(h.Ops, SOp{Op: "get", ID: id})
			}
		}
		cs = append(cs, mk("StoreHist", h))
	}
	return cs
}

func runC13(c *Case) error {
	var h c13Hist
	c.decode(&h)
	e := newOapiServer()
	reqs, resps, raw := runStoreOps(e, h.Ops)
	c.setObs(raw)
	c.coq = fmt.Sprintf("StoreHist %s %s", cList(reqs), cList(resps))
	c.Nontrivial = len(h.Ops) > 3
	c.Tags = []string{fmt.Sprintf("history-length:%d", bucket(len(h.Ops)))}
	return nil
}

// ---- C14 ----
type c14In struct {
	Setup []IMat `json:"setup"`
	Q     OReq   `json:"q"` // references m0 as stored; the inline twin is built from setup[0]
	// optional: before the computes, m0 receives a PUT ?merge=true whose swap-out is abandoned because
	// the request context reports cancellation at the CancelAt-th poll of Mmap's copy loop
	Merge    *IMat `json:"merge,omitempty"`
	CancelAt int   `json:"cancel_at,omitempty"`
}

func genC14(r *Rng, tier string) []*Case {
	var cs []*Case
	reps := 120
	if tier != "quick" {
		reps = 2500
	}
	for k := 0; k < reps; k++ {
		n := 1 + r.Intn(7)
		if k%5 == 4 {
			n = 17 + r.Intn(44) // larger than any fixed shard/worker count a copy routine might use
		}
		m := reqMat(r, n) // negative entries, empty rows included
		in := c14In{Setup: []IMat{m, reqMat(r, 1+r.Intn(4))}}
		q := OReq{Local: MRef{Kind: "stored", ID: 0}}
		if r.Chance(70) {
			sz := n
			if r.Bool() {
				sz = n + 1 + r.Intn(3) // pre-trust larger than the stored matrix: compute must enlarge its copy
			}
			v := reqVec(r, sz)
			q.Pre = &VRef{Kind: "inline", V: &v}
		}
		if r.Chance(30) {
			v := reqVec(r, n+r.Intn(3))
			q.Initial = &VRef{Kind: "inline", V: &v}
		}
		if r.Bool() {
			a := JFloat([]float64{0.2, 0.5, 0.9}[r.Intn(3)])
			q.Alpha = &a
		}
		in.Q = q
		if r.Chance(35) {
			u := reqMat(r, n) // same size: adds, erases and re-weights entries
			if r.Bool() {     // only re-weights entries that exist: the number of entries stays the same
				u = IMat{Size: n}
				for _, e := range m.Es {
					if r.Chance(60) {
						u.Es = append(u.Es, Coo{R: e.R, C: e.C, V: JFloat(1 + float64(r.Intn(9)))})
					}
				}
			}
			in.Merge, in.CancelAt = &u, r.Intn(3)
		}
		cs = append(cs, mk("StoredVsInline", in))
	}
	return cs
}

func getAll(e *echo.Echo, n int) []string {
	var out []string
	for i := 0; i < n; i++ {
		out = append(out, coqStoreResp("get", httpDo(e, "GET", fmt.Sprintf("/basic/v1/local-trust/m%d", i), "")))
	}
	return out
}

func runC14(c *Case) error {
	var in c14In
	c.decode(&in)
	e := newOapiServer()
	if err := putSetup(e, in.Setup); err != nil {
		return err
	}
	if in.Merge != nil {
		req := httptest.NewRequest("PUT", "/basic/v1/local-trust/m0?merge=true", strings.NewReader(in.Merge.json())).
			WithContext(&pollCtx{Context: context.Background(), k: in.CancelAt})
		req.Header.Set("Content-Type", "application/json")
		rec := httptest.NewRecorder()
		e.ServeHTTP(rec, req)
		if rec.Code != 200 {
			return fmt.Errorf("merge PUT -> %d %s", rec.Code, rec.Body.String())
		}
		// from here on the reference is what GET reports
		g := httpDo(e, "GET", "/basic/v1/local-trust/m0", "")
		var gb getBody
		if g.Code != 200 || json.Unmarshal([]byte(g.Body), &gb) != nil {
			return fmt.Errorf("GET after merge -> %d", g.Code)
		}
		im := IMat{Size: gb.Size}
		for _, en := range gb.Entries {
			im.Es = append(im.Es, Coo{R: en.I, C: en.J, V: JFloat(en.V)})
		}
		in.Setup = append([]IMat{im}, in.Setup[1:]...)
	}
	before := getAll(e, len(in.Setup))
	qs := in.Q
	qi := in.Q
	m0 := in.Setup[0]
	qi.Local = MRef{Kind: "inline", M: &m0}
	rs := httpDoFuel(e, "POST", "/basic/v1/compute", qs.json(), "application/json", 1500)
	rs2 := httpDoFuel(e, "POST", "/basic/v1/compute", qs.json(), "application/json", 1500) // repeated computes
	ri := httpDoFuel(e, "POST", "/basic/v1/compute", qi.json(), "application/json", 1500)
	after := getAll(e, len(in.Setup))
	s1, _ := coqScores(rs, false)
	s1b, _ := coqScores(rs2, false)
	s2, _ := coqScores(ri, false)
	if s1b != s1 {
		s1 = "(COther 998)" // a repeated compute differs: never matches the model
	}
	c.setObs(map[string]interface{}{"stored": rs, "inline": ri})
	c.coq = fmt.Sprintf("StoredVsInline %s %s %s %s %s %s %s", coqSetup(in.Setup), qs.coq(), qi.coq(), s1, s2, cList(before), cList(after))
	c.Nontrivial = rs.Code == 200
	c.Tags = []string{fmt.Sprintf("status:%d", rs.Code)}
	_ = sort.Ints
	_ = strings.TrimSpace
	_ = sync.Mutex{}
	return nil
}

func init() {
	register(&Family{ID: "C13", Import: "Corr.C13", Gen: genC13, Run: runC13})
	register(&Family{ID: "C14", Import: "Corr.C14", Gen: genC14, Run: runC14})
}

package main

import (
	"context"
	"fmt"
	"math"

	"k3l.io/go-eigentrust/pkg/sparse"
)

// C09: every exported Vector method and sparse.VecDot, with all receiver aliasings.

type c09Ops struct {
	V1 Vec    `json:"v1"`
	V2 Vec    `json:"v2"`
	A  JFloat `json:"a"`
}
type c09Mul struct {
	M Mat `json:"m"`
	V Vec `json:"v"`
}
type c09Sum struct {
	Xs []JFloat `json:"xs"`
}

func wideVal(r *Rng) float64 {
	switch r.Intn(12) {
	case 0:
		return math.Ldexp(r.F01()+0.5, r.Intn(2000)-1040) // up to the subnormal and the huge range
	case 1:
		return -math.Ldexp(r.F01()+0.5, r.Intn(200)-100)
	case 2:
		return 5e-324 * float64(1+r.Intn(5))
	default:
		return r.Val()
	}
}

func supports(r *Rng, dim int, val func() float64) (a, b []Ent) {
	switch r.Intn(6) {
	case 0: // disjoint
		for i := 0; i < dim; i++ {
			switch r.Intn(3) {
			case 0:
				a = append(a, Ent{I: i, V: JFloat(val())})
			case 1:
				b = append(b, Ent{I: i, V: JFloat(val())})
			}
		}
	case 1: // nested
		a = sortedSpan(r, dim, 70, 0, val)
		for _, e := range a {
			if r.Bool() {
				b = append(b, Ent{I: e.I, V: JFloat(val())})
			}
		}
	case 2: // identical supports
		a = sortedSpan(r, dim, 50, 0, val)
		for _, e := range a {
			b = append(b, Ent{I: e.I, V: JFloat(val())})
		}
	case 3: // one empty
		a = sortedSpan(r, dim, 50, 0, val)
		if r.Bool() {
			a, b = b, a
		}
	case 4: // cancelling values at common indices
		a = sortedSpan(r, dim, 60, 0, val)
		for _, e := range a {
			if r.Bool() {
				b = append(b, Ent{I: e.I, V: -e.V})
			} else if r.Bool() {
				b = append(b, Ent{I: e.I, V: e.V})
			}
		}
	default: // interleaved at random
		a = sortedSpan(r, dim, r.Pick(20, 50, 90), 0, val)
		b = sortedSpan(r, dim, r.Pick(20, 50, 90), 0, val)
	}
	return
}

func illConditioned(r *Rng) []JFloat {
	big := math.Ldexp(1, 30+r.Intn(300))
	var xs []float64
	switch r.Intn(5) {
	case 0:
		xs = []float64{1, big, 1, -big}
	case 1:
		xs = []float64{0.5, 0.25, -big, 3, big, 0.125}
	case 2: // Rump-like: large cancelling pairs interleaved with small terms
		for i := 0; i < 3+r.Intn(20); i++ {
			b := math.Ldexp(r.F01()+0.5, 40+r.Intn(200))
			xs = append(xs, b, r.Val(), -b, r.Val())
		}
	case 3: // negative dominant addends first
		for i := 0; i < 3+r.Intn(10); i++ {
			b := math.Ldexp(r.F01()+0.5, 60+r.Intn(100))
			xs = append(xs, r.F01(), -b, r.F01(), b)
		}
	default:
		for i := 0; i < 2+r.Intn(40); i++ {
			xs = append(xs, wideVal(r))
		}
	}
	if r.Chance(50) {
		p := r.Perm(len(xs))
		ys := make([]float64, len(xs))
		for i, k := range p {
			ys[i] = xs[k]
		}
		xs = ys
	}
	out := make([]JFloat, len(xs))
	for i, x := range xs {
		out[i] = JFloat(x)
	}
	return out
}

func genC09(r *Rng, tier string) []*Case {
	var cs []*Case
	reps := 500
	if tier != "quick" {
		reps = 10000
	}
	scales := []float64{0, 1, -1, 2, 0.5, 1e-300, 5e-324, 1e-200, -3.25, math.Copysign(0, -1)}
	for k := 0; k < reps; k++ {
		dim := r.Intn(25)
		val := r.Val
		if r.Chance(30) {
			val = func() float64 { return wideVal(r) }
		}
		a, b := supports(r, dim, val)
		in := c09Ops{V1: Vec{Dim: dim, Ents: a}, V2: Vec{Dim: dim, Ents: b}, A: JFloat(scales[r.Intn(len(scales))])}
		if r.Chance(25) {
			in.A = JFloat(r.Val())
		}
		if r.Chance(8) { // mismatched dimensions must be refused
			in.V2.Dim = dim + 1 + r.Intn(3)
		}
		if r.Chance(4) { // malformed stream: non-finite operands
			specials := []float64{math.NaN(), math.Inf(1), math.Inf(-1)}
			if len(in.V1.Ents) > 0 {
				in.V1.Ents[r.Intn(len(in.V1.Ents))].V = JFloat(specials[r.Intn(3)])
			}
			if r.Bool() {
				in.A = JFloat(specials[r.Intn(3)])
			}
		}
		cs = append(cs, mk("VecOps", in))
		if k%2 == 0 {
			n := 1 + r.Intn(10)
			mm := c09Mul{M: randMat(r, n, n, r.Pick(20, 50, 100), 0), V: Vec{Dim: n, Ents: sortedSpan(r, n, r.Pick(30, 70, 100), 0, val)}}
			switch r.Intn(12) {
			case 0:
				mm.M.Minor = n + 1 // not square
			case 1:
				mm.V.Dim = n + 1 // wrong vector dimension
			case 3: // a vector shorter than the matrix (its entries all fit): still a dimension mismatch
				if n >= 2 {
					d := 1 + r.Intn(n-1)
					mm.V = Vec{Dim: d, Ents: sortedSpan(r, d, r.Pick(30, 70, 100), 0, val)}
				} else {
					mm.V = Vec{Dim: 0}
				}
			case 2: // a cancelling row -> zero product must be dropped
				if n >= 2 {
					mm.M.Rows[0] = []Ent{{I: 0, V: 1}, {I: 1, V: -1}}
					mm.V.Ents = []Ent{{I: 0, V: 3}, {I: 1, V: 3}}
				}
			}
			cs = append(cs, mk("MulVecCase", mm))
		}
		if k%2 == 1 {
			cs = append(cs, mk("SumCase", c09Sum{Xs: illConditioned(r)}))
		}
	}
	return cs
}

func oresOf(v *sparse.Vector, err error) (string, interface{}) {
	if err != nil {
		if err == sparse.ErrDimensionMismatch {
			return "None", "ErrDimensionMismatch"
		}
		return "(Some (CV 0 [e 0 nan]))", err.Error() // any other error: never matches the model
	}
	return "(Some " + cVec(vecOf(v)) + ")", vecOf(v)
}

func runC09(c *Case) error {
	switch c.Kind {
	case "VecOps":
		var in c09Ops
		c.decode(&in)
		a := float64(in.A)
		type r2 struct {
			s string
			o interface{}
		}
		bin := func(op func(recv, x, y *sparse.Vector) error) (fresh, into1, into2 r2, self Vec) {
			v1, v2 := in.V1.sparse(), in.V2.sparse()
			rcv := &sparse.Vector{Dim: 99, Entries: []sparse.Entry{{Index: 7, Value: 7}}}
			err := op(rcv, v1, v2)
			if err != nil {
				rcv = nil
			}
			fresh.s, fresh.o = oresOf(rcv, err)
			v1, v2 = in.V1.sparse(), in.V2.sparse()
			err = op(v1, v1, v2)
			into1.s, into1.o = oresOf(v1, err)
			v1, v2 = in.V1.sparse(), in.V2.sparse()
			err = op(v2, v1, v2)
			into2.s, into2.o = oresOf(v2, err)
			v1 = in.V1.sparse()
			_ = op(v1, v1, v1)
			self = vecOf(v1)
			return
		}
		af, a1, a2, aself := bin(func(rc, x, y *sparse.Vector) error { return rc.AddVec(x, y) })
		sf, s1, s2, sself := bin(func(rc, x, y *sparse.Vector) error { return rc.SubVec(x, y) })
		v1 := in.V1.sparse()
		var scf sparse.Vector
		scf.ScaleVec(a, v1)
		sci := in.V1.sparse()
		sci.ScaleVec(a, sci)
		v1, v2 := in.V1.sparse(), in.V2.sparse()
		d12, d21, d11 := sparse.VecDot(v1, v2), sparse.VecDot(v2, v1), sparse.VecDot(v1, v1)
		n1, sum1 := v1.Norm2(), v1.Sum()
		// operands must not have been modified by the non-aliased calls
		c.setObs(map[string]interface{}{"add": af.o, "add_into_v1": a1.o, "add_into_v2": a2.o, "add_self": aself,
			"sub": sf.o, "sub_into_v1": s1.o, "sub_into_v2": s2.o, "sub_self": sself, "scale": vecOf(&scf), "scale_inplace": vecOf(sci),
			"dot12": JFloat(d12), "dot21": JFloat(d21), "dot11": JFloat(d11), "norm": JFloat(n1), "sum": JFloat(sum1)})
		c.coq = fmt.Sprintf("VecOps %s %s %s %s %s %s %s %s %s %s %s %s %s %s %s %s %s %s", cVec(in.V1), cVec(in.V2), cf(a),
			af.s, a1.s, a2.s, cVec(aself), sf.s, s1.s, s2.s, cVec(sself), cVec(vecOf(&scf)), cVec(vecOf(sci)),
			cf(d12), cf(d21), cf(d11), cf(n1), cf(sum1))
		c.Nontrivial = len(in.V1.Ents) > 0 && len(in.V2.Ents) > 0
		c.Tags = []string{fmt.Sprintf("dim:%d", bucket(in.V1.Dim))}
		if in.V1.Dim != in.V2.Dim {
			c.Tags = append(c.Tags, "dim-mismatch")
		}
	case "MulVecCase":
		var in c09Mul
		c.decode(&in)
		ctx := context.Background()
		m := in.M.csr()
		v := in.V.sparse()
		fresh := &sparse.Vector{}
		err := fresh.MulVec(ctx, m, v)
		fs, fo := oresOf(fresh, err)
		v2 := in.V.sparse()
		err = v2.MulVec(ctx, m, v2)
		is, io := oresOf(v2, err)
		c.setObs(map[string]interface{}{"fresh": fo, "into_v": io})
		c.coq = fmt.Sprintf("MulVecCase %s %s %s %s", cMat(in.M), cVec(in.V), fs, is)
		c.Nontrivial = in.M.Major > 1
		c.Tags = []string{fmt.Sprintf("mulvec-dim:%d", bucket(in.M.Major))}
	case "SumCase":
		var in c09Sum
		c.decode(&in)
		v := &sparse.Vector{Dim: len(in.Xs)}
		var xs []string
		for i, x := range in.Xs {
			v.Entries = append(v.Entries, sparse.Entry{Index: i, Value: float64(x)})
			xs = append(xs, cfs(float64(x)))
		}
		s, n := v.Sum(), v.Norm2()
		c.setObs(map[string]interface{}{"sum": JFloat(s), "norm": JFloat(n)})
		c.coq = fmt.Sprintf("SumCase %s %s %s", cList(xs), cf(s), cf(n))
		c.Nontrivial = len(in.Xs) > 2
		c.Tags = []string{fmt.Sprintf("sum-terms:%d", bucket(len(in.Xs)))}
	default:
		return fmt.Errorf("unknown kind %s", c.Kind)
	}
	return nil
}

func init() { register(&Family{ID: "C09", Import: "Corr.C09", Gen: genC09, Run: runC09}) }

package main

import (
	"context"
	"fmt"
	"unsafe"

	"k3l.io/go-eigentrust/pkg/sparse"
)

// C11: Vector.Merge / CSMatrix.Merge as last-writer-wins overlay; histories; re-batching.

type c11VecHist struct {
	V0      Vec   `json:"v0"`
	Updates []Vec `json:"updates"`
}
type c11MatHist struct {
	M0      Mat   `json:"m0"`
	Updates []Mat `json:"updates"`
}
type c11VecRebatch struct {
	V0 Vec   `json:"v0"`
	A  []Vec `json:"a"` // raw (unsorted) update batches, handed to NewVector
	B  []Vec `json:"b"`
}
type cooBatch struct {
	Rows int   `json:"rows"`
	Cols int   `json:"cols"`
	Es   []Coo `json:"es"`
}
type c11MatRebatch struct {
	M0 Mat        `json:"m0"`
	A  []cooBatch `json:"a"` // handed to NewCSRMatrix(rows, cols, es, includeZero=true)
	B  []cooBatch `json:"b"`
}

func smallSpans(n int, vals []float64) [][]Ent {
	// every span over indices < n where each index is absent or carries one of vals
	var out [][]Ent
	var rec func(i int, cur []Ent)
	rec = func(i int, cur []Ent) {
		if i == n {
			out = append(out, append([]Ent(nil), cur...))
			return
		}
		rec(i+1, cur)
		for _, v := range vals {
			rec(i+1, append(cur, Ent{I: i, V: JFloat(v)}))
		}
	}
	rec(0, nil)
	return out
}

func randMat(r *Rng, major, minor, fill, zeroPct int) Mat {
	m := Mat{Major: major, Minor: minor, Rows: make([][]Ent, major)}
	for i := range m.Rows {
		if r.Chance(80) {
			m.Rows[i] = sortedSpan(r, minor, fill, zeroPct, r.Val)
		}
	}
	return m
}

// splitBatches cuts a stream of updates into batches with distinct coordinates.
func splitStream(r *Rng, n int, key func(i int) string) [][]int {
	var batches [][]int
	var cur []int
	seen := map[string]bool{}
	for i := 0; i < n; i++ {
		k := key(i)
		if seen[k] || (len(cur) > 0 && r.Chance(25)) {
			batches = append(batches, cur)
			cur, seen = nil, map[string]bool{}
		}
		cur = append(cur, i)
		seen[k] = true
	}
	if len(cur) > 0 {
		batches = append(batches, cur)
	}
	return batches
}

func genC11(r *Rng, tier string) []*Case {
	var cs []*Case
	// bounded-exhaustive small scope: every pair of spans over indices < n, values {0,1,2}
	n := 3
	if tier != "quick" {
		n = 4
	}
	spans := smallSpans(n, []float64{0, 1, 2})
	for _, s1 := range spans {
		for _, s2 := range spans {
			cs = append(cs, mk("VecHist", c11VecHist{V0: Vec{Dim: n, Ents: s1}, Updates: []Vec{{Dim: n, Ents: s2}}}))
		}
	}
	reps := 150
	if tier != "quick" {
		reps = 2500
	}
	for k := 0; k < reps; k++ {
		// random larger spans, all dimension relations, zeros at head/middle/tail
		d1, d2 := r.Intn(30), r.Intn(30)
		if r.Chance(30) {
			d2 = d1
		}
		h := c11VecHist{V0: Vec{Dim: d1, Ents: sortedSpan(r, d1, r.Pick(0, 20, 50, 90), r.Pick(0, 10), r.Val)}}
		nu := 1 + r.Intn(6)
		if r.Chance(10) {
			nu = 1 + r.Intn(30)
		}
		for j := 0; j < nu; j++ {
			h.Updates = append(h.Updates, Vec{Dim: d2, Ents: sortedSpan(r, d2, r.Pick(0, 20, 50, 90), r.Pick(0, 30, 60), r.Val)})
			if r.Chance(50) {
				d2 = r.Intn(30)
			}
		}
		cs = append(cs, mk("VecHist", h))
		// matrices
		a1, b1, a2, b2 := r.Intn(7), r.Intn(7), r.Intn(7), r.Intn(7)
		mh := c11MatHist{M0: randMat(r, a1, b1, r.Pick(20, 50, 90), r.Pick(0, 10))}
		nu = 1 + r.Intn(5)
		for j := 0; j < nu; j++ {
			mh.Updates = append(mh.Updates, randMat(r, a2, b2, r.Pick(20, 50, 90), r.Pick(0, 30, 60)))
			a2, b2 = r.Intn(7), r.Intn(7)
		}
		cs = append(cs, mk("MatHist", mh))
		// re-batching of one update stream (vector)
		{
			d := 1 + r.Intn(8)
			ns := r.Intn(25)
			idx := make([]int, ns)
			val := make([]float64, ns)
			for i := range idx {
				idx[i] = r.Intn(d)
				val[i] = r.Val()
				if r.Chance(30) {
					val[i] = 0
				}
			}
			build := func() []Vec {
				var out []Vec
				for _, b := range splitStream(r, ns, func(i int) string { return fmt.Sprint(idx[i]) }) {
					v := Vec{}
					for _, i := range b {
						v.Ents = append(v.Ents, Ent{I: idx[i], V: JFloat(val[i])})
						if idx[i]+1 > v.Dim {
							v.Dim = idx[i] + 1
						}
					}
					out = append(out, v)
				}
				return out
			}
			d0 := r.Intn(d + 1)
			cs = append(cs, mk("VecRebatch", c11VecRebatch{V0: Vec{Dim: d0, Ents: sortedSpan(r, d0, 50, 0, r.Val)}, A: build(), B: build()}))
		}
		// re-batching (matrix), as the gRPC Update path builds its batches
		{
			d := 1 + r.Intn(5)
			ns := r.Intn(30)
			ri, ci := make([]int, ns), make([]int, ns)
			val := make([]float64, ns)
			for i := range ri {
				ri[i], ci[i] = r.Intn(d), r.Intn(d)
				val[i] = r.Val()
				if r.Chance(30) {
					val[i] = 0
				}
			}
			build := func() []cooBatch {
				var out []cooBatch
				for _, b := range splitStream(r, ns, func(i int) string { return fmt.Sprint(ri[i], ",", ci[i]) }) {
					cb := cooBatch{}
					for _, i := range b {
						cb.Es = append(cb.Es, Coo{R: ri[i], C: ci[i], V: JFloat(val[i])})
						if ri[i]+1 > cb.Rows {
							cb.Rows = ri[i] + 1
						}
						if ci[i]+1 > cb.Cols {
							cb.Cols = ci[i] + 1
						}
					}
					if cb.Rows < cb.Cols {
						cb.Rows = cb.Cols
					} else {
						cb.Cols = cb.Rows
					}
					out = append(out, cb)
				}
				return out
			}
			d0 := r.Intn(d + 1)
			cs = append(cs, mk("MatRebatch", c11MatRebatch{M0: randMat(r, d0, d0, 40, 0), A: build(), B: build()}))
		}
	}
	return cs
}

func overlaps(a, b []Ent) bool {
	m := map[int]bool{}
	for _, e := range a {
		m[e.I] = true
	}
	for _, e := range b {
		if m[e.I] || float64(e.V) == 0 {
			return true
		}
	}
	return false
}

func runC11(c *Case) error {
	switch c.Kind {
	case "VecHist":
		var in c11VecHist
		c.decode(&in)
		v := in.V0.sparse()
		type step struct{ R, A Vec }
		var obs []step
		var parts, ups []string
		for _, u := range in.Updates {
			if overlaps(fromEntries(v.Entries), u.Ents) || u.Dim != v.Dim {
				c.Nontrivial = true
			}
			arg := u.sparse()
			v.Merge(arg)
			obs = append(obs, step{vecOf(v), vecOf(arg)})
			parts = append(parts, fmt.Sprintf("(%s, %s)", cVec(vecOf(v)), cVec(vecOf(arg))))
			ups = append(ups, cVec(u))
			// the emptied update vector is the caller's again: refilling it must not reach into the target
			snap := fmt.Sprint(v.Entries)
			arg.Entries = append(arg.Entries, sparse.Entry{Index: 0, Value: 123.5}, sparse.Entry{Index: 1, Value: 321.5})
			if fmt.Sprint(v.Entries) != snap {
				panic("after Merge the target shares storage with the emptied update vector")
			}
		}
		c.setObs(obs)
		c.coq = fmt.Sprintf("VecHist %s %s %s", cVec(in.V0), cList(ups), cList(parts))
		c.Tags = []string{fmt.Sprintf("vec-updates:%d", bucket(len(in.Updates)))}
	case "MatHist":
		var in c11MatHist
		c.decode(&in)
		m := in.M0.csr()
		type step struct{ R, A Mat }
		var obs []step
		var parts, ups []string
		for k, u := range in.Updates {
			c.Nontrivial = true
			arg := u.csr()
			// every third update arrives swapped out (as the gRPC/OpenAPI stores keep their matrices), every
			// fourth merge goes into a swapped-out target: the overlay must not depend on where the spans live
			if k%4 == 2 {
				_ = m.Mmap(context.Background())
			}
			var before [][2]uintptr
			if k%3 == 1 {
				if arg.Mmap(context.Background()) == nil {
					before = csmMappingsOf(arg)
				}
			}
			m.Merge(&arg.CSMatrix)
			if before != nil { // no row of the target may point into a region that is no longer mapped
				now := allCsmMappings()
				for _, row := range m.Entries {
					if len(row) == 0 {
						continue
					}
					p := uintptr(unsafe.Pointer(unsafe.SliceData(row)))
					for _, o := range before {
						if p >= o[0] && p < o[1] {
							live := false
							for _, n := range now {
								live = live || n == o
							}
							if !live {
								panic("CSMatrix.Merge: a row of the target points into the update's mapping, which has been unmapped")
							}
						}
					}
				}
			}
			obs = append(obs, step{matOf(&m.CSMatrix), matOf(&arg.CSMatrix)})
			parts = append(parts, fmt.Sprintf("(%s, %s)", cMat(matOf(&m.CSMatrix)), cMat(matOf(&arg.CSMatrix))))
			ups = append(ups, cMat(u))
		}
		c.setObs(obs)
		c.coq = fmt.Sprintf("MatHist %s %s %s", cMat(in.M0), cList(ups), cList(parts))
		c.Tags = []string{fmt.Sprintf("mat-updates:%d", bucket(len(in.Updates)))}
	case "VecRebatch":
		var in c11VecRebatch
		c.decode(&in)
		run := func(bs []Vec) (Vec, []string) {
			v := in.V0.sparse()
			var ss []string
			for _, b := range bs {
				v.Merge(sparse.NewVector(b.Dim, toEntries(b.Ents)))
				ss = append(ss, cVec(b))
			}
			return vecOf(v), ss
		}
		fa, sa := run(in.A)
		fb, sb := run(in.B)
		c.Nontrivial = len(in.A) != len(in.B) && len(in.A) > 1
		c.setObs([]Vec{fa, fb})
		c.coq = fmt.Sprintf("VecRebatch %s %s %s %s %s", cVec(in.V0), cList(sa), cList(sb), cVec(fa), cVec(fb))
		c.Tags = []string{fmt.Sprintf("rebatch-batches:%d", bucket(len(in.A)))}
	case "MatRebatch":
		var in c11MatRebatch
		c.decode(&in)
		run := func(bs []cooBatch) (Mat, []string) {
			m := in.M0.csr()
			var ss []string
			for _, b := range bs {
				u := sparse.NewCSRMatrix(b.Rows, b.Cols, toCoo(b.Es), true)
				m.Merge(&u.CSMatrix)
				ss = append(ss, fmt.Sprintf("(%d%%N, %d%%N, %s)", b.Rows, b.Cols, cCoos(b.Es)))
			}
			return matOf(&m.CSMatrix), ss
		}
		fa, sa := run(in.A)
		fb, sb := run(in.B)
		c.Nontrivial = len(in.A) != len(in.B) && len(in.A) > 1
		c.setObs([]Mat{fa, fb})
		c.coq = fmt.Sprintf("MatRebatch %s %s %s %s %s", cMat(in.M0), cList(sa), cList(sb), cMat(fa), cMat(fb))
		c.Tags = []string{fmt.Sprintf("rebatch-batches:%d", bucket(len(in.A)))}
	default:
		return fmt.Errorf("unknown kind %s", c.Kind)
	}
	return nil
}

func bucket(n int) int {
	switch {
	case n <= 2:
		return n
	case n <= 5:
		return 5
	case n <= 10:
		return 10
	case n <= 30:
		return 30
	}
	return 100
}

func init() { register(&Family{ID: "C11", Import: "Corr.C11", Gen: genC11, Run: runC11}) }
